(* C08 - lemmas over an arbitrary commutative ring with division. *)
From Coq Require Import String.
From Coq Require Import List Arith Bool Lia Ring.
From NV.Lib Require Import RingMat C08Base.
From NV.Generated Require Import AffineClasses.
From NV.C08 Require Import Model.
Import ListNotations.
Open Scope list_scope.

(* ---------------------------------------------------------------- class selection *)
Definition pair_ok (self other : string) : bool :=
  match compose_class self other, lookup self src_classes, lookup other src_classes with
  | Chosen k, Some si, Some oi =>
    match lookup k src_classes with
    | Some ik =>
      subset si ik && subset oi ik &&
      (if subset si oi then String.eqb k other
       else if subset oi si then String.eqb k self else String.eqb k "Affine")
    | None => false
    end
  | _, _, _ => false
  end.

Lemma all_pairs_ok :
  forallb (fun s => forallb (fun o => pair_ok s o) class_names) class_names = true.
Proof. vm_compute. reflexivity. Qed.

Lemma compose_class_total_lemma :
  forall self other, In self class_names -> In other class_names ->
  exists k si oi ik,
    compose_class self other = Chosen k /\
    lookup self src_classes = Some si /\ lookup other src_classes = Some oi /\
    lookup k src_classes = Some ik /\
    subset si ik = true /\ subset oi ik = true /\
    (subset si oi = true -> k = other) /\
    (subset si oi = false -> subset oi si = true -> k = self) /\
    (subset si oi = false -> subset oi si = false -> k = "Affine"%string).
Proof.
  intros self other Hs Ho.
  pose proof all_pairs_ok as H. rewrite forallb_forall in H. specialize (H self Hs).
  rewrite forallb_forall in H. specialize (H other Ho). unfold pair_ok in H.
  destruct (compose_class self other) as [k| |] eqn:Ek; try discriminate.
  destruct (lookup self src_classes) as [si|] eqn:Es; try discriminate.
  destruct (lookup other src_classes) as [oi|] eqn:Eo; try discriminate.
  destruct (lookup k src_classes) as [ik|] eqn:Eik; try discriminate.
  apply andb_prop in H. destruct H as [H H3]. apply andb_prop in H. destruct H as [H1 H2].
  exists k, si, oi, ik. repeat split; auto.
  - intros E. rewrite E in H3. now apply String.eqb_eq.
  - intros E1 E2. rewrite E1, E2 in H3. now apply String.eqb_eq.
  - intros E1 E2. rewrite E1, E2 in H3. now apply String.eqb_eq.
Qed.

Lemma chosen_in_table self other k :
  In self class_names -> In other class_names -> compose_class self other = Chosen k -> In k class_names.
Proof.
  intros Hs Ho E. destruct (compose_class_total_lemma self other Hs Ho) as (k' & si & oi & ik & E' & _ & _ & Hk & _).
  rewrite E in E'. injection E' as <-.
  clear - Hk. unfold class_names. induction src_classes as [|[n v] l IH]; [discriminate|].
  simpl in *. destruct (String.eqb_spec n k) as [->|Hne]; [now left|right; auto].
Qed.

Section Proofs.
  Variable R : Type.
  Variables (r0 r1 : R) (radd rmul rsub : R -> R -> R) (ropp : R -> R).
  Variable rdiv : R -> R -> R.
  Variable rneg : R -> bool.
  Hypothesis Rth : ring_theory r0 r1 radd rmul rsub ropp (@eq R).
  (* exact division *)
  Hypothesis rdiv_mul : forall a b, b <> r0 -> rmul (rdiv a b) b = a.
  Hypothesis mul_rdiv : forall a b, b <> r0 -> rdiv (rmul a b) b = a.
  Add Ring Rr : Rth.

  Local Notation mat := (list (list R)).
  Local Notation vec := (list R).
  Local Notation Mm := (mm r0 radd rmul).
  Local Notation Mid := (mid r0 r1).
  Local Notation Happly := (happly r0 r1 radd rmul).
  Local Notation WfAff := (wf_aff r0 r1).
  Local Notation xf := (xf R).
  Local Notation as_affine := (as_affine R r0 r1 radd rmul ropp).
  Local Notation apply := (apply R r0 r1 radd rmul ropp).
  Local Notation from_matrix44 := (from_matrix44 R r0 r1 radd rmul rsub ropp rdiv rneg).
  Local Notation fx_contract := (fx_contract R r0 radd rmul).
  Local Notation compose := (compose R r0 r1 radd rmul rsub ropp rdiv rneg).
  Local Notation compose_matrix := (compose_matrix R r0 r1 radd rmul ropp).
  Local Notation inv := (inv R r0 r1 radd rmul rsub ropp rdiv rneg).
  Local Notation chain_eval := (chain_eval R r0 r1 radd rmul rsub ropp rdiv rneg).
  Local Notation det3 := (det3 R r0 radd rmul rsub).
  Local Notation mneg := (mneg R ropp).
  Local Notation diag3 := (diag3 R r0).

  (* ------------------------------------------------------------ shapes *)
  Lemma len3_inv (v : vec) : length v = 3 -> exists a b c, v = [a; b; c].
  Proof.
    destruct v as [|a [|b [|c [|d v]]]]; simpl; intros H; try discriminate. now exists a, b, c.
  Qed.

  Lemma len4_inv (v : vec) : length v = 4 -> exists a b c d, v = [a; b; c; d].
  Proof.
    destruct v as [|a [|b [|c [|d [|e v]]]]]; simpl; intros H; try discriminate. now exists a, b, c, d.
  Qed.

  Lemma wf33_inv (A : mat) : wf_mat 3 3 A ->
    exists a b c d e f g h i, A = [[a; b; c]; [d; e; f]; [g; h; i]].
  Proof.
    intros [HL HR]. destruct A as [|x [|y [|z [|w A]]]]; simpl in HL; try discriminate.
    inversion HR as [|? ? Hx HR1]; subst. inversion HR1 as [|? ? Hy HR2]; subst.
    inversion HR2 as [|? ? Hz _]; subst.
    destruct (len3_inv x Hx) as (a & b & c & ->). destruct (len3_inv y Hy) as (d & e & f & ->).
    destruct (len3_inv z Hz) as (g & h & i & ->). now exists a, b, c, d, e, f, g, h, i.
  Qed.

  Lemma wf_aff33_inv (M : mat) : WfAff 3 3 M ->
    exists a b c d e f g h i t0 t1 t2,
      M = [[a; b; c; t0]; [d; e; f; t1]; [g; h; i; t2]; [r0; r0; r0; r1]].
  Proof.
    intros (top & -> & HL & HR). destruct top as [|x [|y [|z [|w A]]]]; simpl in HL; try discriminate.
    inversion HR as [|? ? Hx HR1]; subst. inversion HR1 as [|? ? Hy HR2]; subst.
    inversion HR2 as [|? ? Hz _]; subst.
    destruct (len4_inv x Hx) as (a & b & c & t0 & ->). destruct (len4_inv y Hy) as (d & e & f & t1 & ->).
    destruct (len4_inv z Hz) as (g & h & i & t2 & ->).
    now exists a, b, c, d, e, f, g, h, i, t0, t1, t2.
  Qed.

  Lemma explicit_wf_aff33 a b c d e f g h i t0 t1 t2 :
    WfAff 3 3 [[a; b; c; t0]; [d; e; f; t1]; [g; h; i; t2]; [r0; r0; r0; r1]].
  Proof.
    exists [[a; b; c; t0]; [d; e; f; t1]; [g; h; i; t2]]. split; [reflexivity|]. split; [reflexivity|].
    repeat constructor.
  Qed.

  (* ------------------------------------------------------------ from_matrix44 then as_affine
     `prior` = value of self._direct before the call: arbitrary (every from_matrix44 of the source starts
     with `self._direct = True`, event FxSetDirect true of the generated programs) *)
  Ltac destruct_rnegs :=
    repeat match goal with
           | |- context [rneg ?x] => let E := fresh "Eneg" in destruct (rneg x) eqn:E
           end.
  Ltac list_eq :=
    repeat match goal with
           | |- cons _ _ = cons _ _ => apply f_equal2
           | |- nil = nil => reflexivity
           end.

  Lemma reconstructs_lemma k prior o M :
    In k class_names -> WfAff 3 3 M -> fx_contract k o M ->
    exists x, from_matrix44 k prior o M = Some x /\ x_class x = k /\ as_affine x = M.
  Proof.
    intros Hk HM HC.
    destruct (wf_aff33_inv M HM) as (a & b & c & d & e & f & g & h & i & t0 & t1 & t2 & ->).
    destruct o as [U s V cs].
    cbn in Hk.
    repeat (destruct Hk as [<-|Hk]); try contradiction.
    all: cbn in HC.
    all: try (destruct HC as (HU & HV & Hs & HE);
              destruct (wf33_inv U HU) as (u1 & u2 & u3 & u4 & u5 & u6 & u7 & u8 & u9 & ->);
              destruct (wf33_inv V HV) as (v1 & v2 & v3 & v4 & v5 & v6 & v7 & v8 & v9 & ->);
              destruct (len3_inv s Hs) as (s1 & s2 & s3 & ->);
              cbn in HE; injection HE; intros; subst).
    all: eexists; split; [reflexivity|]; split; [reflexivity|].
    all: cbn; destruct_rnegs; cbn; list_eq.
    all: try ring.
    all: repeat match goal with
                | |- context [rdiv ?x ?c] =>
                  let q := fresh "q" in let H := fresh "Hq" in
                  pose proof (rdiv_mul x c HC) as H; set (q := rdiv x c) in *; clearbody q
                end.
    all: match goal with
         | H : rmul ?q _ = ?z |- _ = ?z => rewrite <- H; ring
         | H : rmul ?q _ = ropp ?z |- _ = ?z => replace z with (ropp (ropp z)) by ring; rewrite <- H; ring
         end.
  Qed.

  (* ------------------------------------------------------------ well-formedness of as_affine *)
  Lemma as_affine_wf (x : xf) : wf_xf R x -> WfAff 3 3 (as_affine x).
  Proof.
    intros (_ & Ht & HR & HS & HQ). destruct x as [k t Rm S Q dir]. cbn in *.
    destruct (wf33_inv Rm HR) as (u1 & u2 & u3 & u4 & u5 & u6 & u7 & u8 & u9 & ->).
    destruct (wf33_inv Q HQ) as (v1 & v2 & v3 & v4 & v5 & v6 & v7 & v8 & v9 & ->).
    destruct (len3_inv S HS) as (s1 & s2 & s3 & ->). destruct (len3_inv t Ht) as (t0 & t1 & t2 & ->).
    destruct dir; cbn; apply explicit_wf_aff33.
  Qed.

  Definition wf_t (x : xf) : Prop := In (x_class x) class_names /\ WfAff 3 3 (as_affine x).

  Lemma wf_xf_wf_t x : wf_xf R x -> wf_t x.
  Proof. intros H. split; [apply H|now apply as_affine_wf]. Qed.

  (* ------------------------------------------------------------ compose *)
  Lemma compose_matrix_eq a b : compose_matrix a b = Mm 4 (as_affine a) (as_affine b).
  Proof. reflexivity. Qed.

  Lemma compose_apply_lemma a b o :
    wf_t a -> wf_t b ->
    (forall k, compose_class (x_class a) (x_class b) = Chosen k -> fx_contract k o (compose_matrix a b)) ->
    exists c, compose a b o = Some c /\ wf_t c /\
              compose_class (x_class a) (x_class b) = Chosen (x_class c) /\
              as_affine c = Mm 4 (as_affine a) (as_affine b) /\
              forall p, length p = 3 -> apply c p = apply a (apply b p).
  Proof.
    intros [Ha Wa] [Hb Wb] HC.
    destruct (compose_class_total_lemma _ _ Ha Hb) as (k & si & oi & ik & Ek & _).
    pose proof (chosen_in_table _ _ _ Ha Hb Ek) as Hk.
    assert (WM : WfAff 3 3 (compose_matrix a b)).
    { rewrite compose_matrix_eq. now apply (mm_wf_aff R r0 r1 radd rmul rsub ropp Rth 3 3 3). }
    destruct (reconstructs_lemma k true o _ Hk WM (HC k Ek)) as (c & Ec & Hc & Hrec).
    exists c. unfold Model.compose. rewrite Ek. split; [exact Ec|].
    split; [split; [now rewrite Hc|now rewrite Hrec]|].
    split; [now rewrite Hc|]. split; [now rewrite Hrec, compose_matrix_eq|].
    intros p Hp. unfold Model.apply. rewrite Hrec, compose_matrix_eq.
    now apply (happly_mm R r0 r1 radd rmul rsub ropp Rth 3 3 3).
  Qed.

  (* ------------------------------------------------------------ inv *)
  Lemma inv_apply_lemma a Minv o :
    wf_t a -> WfAff 3 3 Minv ->
    Mm 4 Minv (as_affine a) = Mid 4 -> Mm 4 (as_affine a) Minv = Mid 4 ->
    fx_contract (x_class a) o Minv ->
    exists c, inv a Minv o = Some c /\ x_class c = x_class a /\ as_affine c = Minv /\
              forall p, length p = 3 -> apply c (apply a p) = p /\ apply a (apply c p) = p.
  Proof.
    intros [Ha Wa] WM HL HR HC.
    destruct (reconstructs_lemma _ true o _ Ha WM HC) as (c & Ec & Hc & Hrec).
    exists c. split; [exact Ec|]. split; [exact Hc|]. split; [exact Hrec|].
    intros p Hp. unfold Model.apply. rewrite Hrec. split.
    - rewrite <- (happly_mm R r0 r1 radd rmul rsub ropp Rth 3 3 3) by assumption.
      rewrite HL. now apply (happly_mid R r0 r1 radd rmul rsub ropp Rth 3).
    - rewrite <- (happly_mm R r0 r1 radd rmul rsub ropp Rth 3 3 3) by assumption.
      rewrite HR. now apply (happly_mid R r0 r1 radd rmul rsub ropp Rth 3).
  Qed.

  (* ------------------------------------------------------------ ChainTransform.apply *)
  Lemma chain_apply_lemma pre opt post o1 o2 :
    wf_t pre -> wf_t opt -> wf_t post ->
    (forall k, compose_class (x_class opt) (x_class pre) = Chosen k ->
               fx_contract k o1 (compose_matrix opt pre)) ->
    (forall c1 k, compose opt pre o1 = Some c1 -> compose_class (x_class post) (x_class c1) = Chosen k ->
                  fx_contract k o2 (compose_matrix post c1)) ->
    exists c, chain_eval (chain_env R pre opt post) src_chain [o1; o2] = Some (c, []) /\
              forall p, length p = 3 -> apply c p = apply post (apply opt (apply pre p)).
  Proof.
    intros Wpre Wopt Wpost H1 H2.
    destruct (compose_apply_lemma opt pre o1 Wopt Wpre H1) as (c1 & E1 & W1 & _ & _ & A1).
    destruct (compose_apply_lemma post c1 o2 Wpost W1 (fun k => H2 c1 k E1)) as (c & E2 & _ & _ & _ & A2).
    exists c. split.
    - unfold src_chain. cbn [Model.chain_eval].
      change (chain_env R pre opt post "post") with (Some post).
      change (chain_env R pre opt post "optimizable") with (Some opt).
      change (chain_env R pre opt post "pre") with (Some pre).
      cbv beta iota. rewrite E1. cbv beta iota. rewrite E2. reflexivity.
    - intros p Hp. rewrite A2 by exact Hp. now rewrite A1.
  Qed.

  (* ------------------------------------------------------------ param get / set *)
  Local Notation get_param := (get_param R r0 rmul rdiv).
  Local Notation set_param := (set_param R r0 rmul rdiv).
  Local Notation precond := (precond R r1).
  Local Notation fan_inv := (fan_inv R r0).

  Lemma len12_inv (v : vec) : length v = 12 ->
    exists a0 a1 a2 a3 a4 a5 a6 a7 a8 a9 a10 a11, v = [a0; a1; a2; a3; a4; a5; a6; a7; a8; a9; a10; a11].
  Proof.
    intros H. do 12 (destruct v as [|? v]; [discriminate|]). destruct v; [|discriminate].
    repeat eexists.
  Qed.

  Ltac destruct_len p Hp :=
    repeat (destruct p as [|? p]; [try discriminate Hp|]); try (destruct p; [|discriminate Hp]).

  (* assigning p and reading back gives p, for every class of the source table *)
  Lemma param_set_get_lemma :
    Forall (fun kc => forall ts ss, lookup (fst kc) src_set_param = Some (ts, ss) ->
              forall rad sca p v, rad <> r0 -> sca <> r0 -> r1 <> r0 ->
              length v = 12 -> length p = length (snd kc) ->
              get_param (snd kc) (precond rad sca) (set_param ts ss (precond rad sca) p v) = p)
           src_classes.
  Proof.
    repeat constructor.
    all: cbn [fst snd]; intros ts ss E; cbn in E; injection E as <- <-.
    all: intros rad sca p v Hrad Hsca H1 Hv Hp.
    all: destruct (len12_inv v Hv) as (a0 & a1 & a2 & a3 & a4 & a5 & a6 & a7 & a8 & a9 & a10 & a11 & ->).
    all: cbn in Hp.
    all: repeat (destruct p as [|? p]; [try discriminate Hp|try discriminate Hp]).
    all: cbn; list_eq; apply mul_rdiv; assumption.
  Qed.

  (* reading and re-assigning leaves the 12-vector (hence the point mapping) unchanged
     on the class's invariant subspace *)
  Lemma param_get_set_lemma :
    Forall (fun kc => forall ts ss, lookup (fst kc) src_set_param = Some (ts, ss) ->
              forall rad sca v, rad <> r0 -> sca <> r0 -> r1 <> r0 ->
              length v = 12 -> fan_inv (snd kc) ts ss v ->
              set_param ts ss (precond rad sca) (get_param (snd kc) (precond rad sca) v) v = v)
           src_classes.
  Proof.
    repeat constructor.
    all: cbn [fst snd]; intros ts ss E; cbn in E; injection E as <- <-.
    all: intros rad sca v Hrad Hsca H1 Hv Hinv.
    all: destruct (len12_inv v Hv) as (a0 & a1 & a2 & a3 & a4 & a5 & a6 & a7 & a8 & a9 & a10 & a11 & ->).
    all: cbn in Hinv; cbn; list_eq; try reflexivity.
    all: try (apply rdiv_mul; assumption).
    all: try (rewrite rdiv_mul by assumption; symmetry; tauto).
  Qed.
End Proofs.
