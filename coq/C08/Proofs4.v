(* C08 - lemmas about the clipping (`threshold`, translated from the source) and
   the translation column of to_matrix44. *)
From Coq Require Import List ZArith Bool Lia.
From NV.Lib Require Import RingMat C08Base Harness.
From NV.Generated Require Import AffineClasses AffineClip.
From NV.C08 Require Import Model Clip.
Import ListNotations.
Open Scope list_scope.

(* ---------------------------------------------------------------- scalar *)
Lemma threshold_spec_lemma : forall th x : Z, (0 <= th)%Z ->
  in_range th (src_threshold x th) /\
  (in_range th x -> src_threshold x th = x) /\
  ((th < x)%Z -> src_threshold x th = th) /\
  ((x < - th)%Z -> src_threshold x th = (- th)%Z).
Proof. intros th x Hth. unfold in_range, src_threshold. lia. Qed.

Lemma threshold_fixed_iff : forall th x : Z, (0 <= th)%Z -> (src_threshold x th = x <-> in_range th x).
Proof. intros th x Hth. unfold in_range, src_threshold. lia. Qed.

Lemma threshold_odd_lemma : forall th x : Z, (0 <= th)%Z ->
  src_threshold (- x) th = (- src_threshold x th)%Z.
Proof. intros th x Hth. unfold src_threshold. lia. Qed.

Lemma threshold_monotone_lemma : forall th x y : Z, (x <= y)%Z -> (src_threshold x th <= src_threshold y th)%Z.
Proof. intros th x y Hxy. unfold src_threshold. lia. Qed.

(* the clipped value is a nearest point of [-th, th] *)
Lemma threshold_nearest_lemma : forall th x y : Z, (0 <= th)%Z -> in_range th y ->
  (Z.abs (src_threshold x th - x) <= Z.abs (y - x))%Z.
Proof. intros th x y Hth Hy. unfold in_range, src_threshold in *. lia. Qed.

Lemma threshold_clips_lemma :
  forall th x : Z, (0 <= th)%Z ->
  in_range th (src_threshold x th) /\
  (src_threshold x th = x <-> in_range th x) /\
  ((th < x)%Z -> src_threshold x th = th) /\
  ((x < - th)%Z -> src_threshold x th = (- th)%Z) /\
  (forall y, in_range th y -> (Z.abs (src_threshold x th - x) <= Z.abs (y - x))%Z) /\
  src_threshold (- x) th = (- src_threshold x th)%Z /\
  (forall y, (x <= y)%Z -> (src_threshold x th <= src_threshold y th)%Z).
Proof.
  intros th x Hth. destruct (threshold_spec_lemma th x Hth) as [H1 [_ [H3 H4]]].
  split; [exact H1|]. split; [exact (threshold_fixed_iff th x Hth)|]. split; [exact H3|]. split; [exact H4|].
  split; [intros y Hy; exact (threshold_nearest_lemma th x y Hth Hy)|].
  split; [exact (threshold_odd_lemma th x Hth)|intros y Hy; exact (threshold_monotone_lemma th x y Hy)].
Qed.

(* ---------------------------------------------------------------- arrays of any length *)
Lemma clip_vec_length : forall th v, length (clip_vec th v) = length v.
Proof. intros th v. unfold clip_vec. apply map_length. Qed.

Lemma clip_vec_in_range : forall th v, (0 <= th)%Z -> Forall (in_range th) (clip_vec th v).
Proof.
  intros th v Hth. induction v as [|x v IH]; cbn [clip_vec map].
  - constructor.
  - constructor; [apply (threshold_spec_lemma th x Hth)|exact IH].
Qed.

Lemma clip_vec_fixed_iff : forall th v, (0 <= th)%Z -> (clip_vec th v = v <-> Forall (in_range th) v).
Proof.
  intros th v Hth. induction v as [|x v IH]; cbn [clip_vec map].
  - split; [constructor|reflexivity].
  - split.
    + intros H. injection H as Hx Hv. constructor.
      * apply (threshold_fixed_iff th x Hth). exact Hx.
      * apply IH. exact Hv.
    + intros H. inversion H as [|a b Hx Hv]; subst. f_equal.
      * apply (threshold_fixed_iff th x Hth). exact Hx.
      * apply IH. exact Hv.
Qed.

Lemma clip_vec_idem : forall th v, (0 <= th)%Z -> clip_vec th (clip_vec th v) = clip_vec th v.
Proof. intros th v Hth. apply (clip_vec_fixed_iff th _ Hth). apply clip_vec_in_range. exact Hth. Qed.

Lemma clip_vec_nth : forall th v i, (i < length v)%nat ->
  nth i (clip_vec th v) 0%Z = src_threshold (nth i v 0%Z) th.
Proof.
  intros th v. induction v as [|x v IH]; intros i Hi; cbn [length] in Hi.
  - lia.
  - destruct i as [|i]; cbn [clip_vec map nth]; [reflexivity|]. apply IH. lia.
Qed.

Lemma clip_vec_spec_lemma : forall th v, (0 <= th)%Z ->
  length (clip_vec th v) = length v /\
  Forall (in_range th) (clip_vec th v) /\
  (clip_vec th v = v <-> Forall (in_range th) v) /\
  clip_vec th (clip_vec th v) = clip_vec th v /\
  (forall i, (i < length v)%nat -> nth i (clip_vec th v) 0%Z = src_threshold (nth i v 0%Z) th).
Proof.
  intros th v Hth. split; [apply clip_vec_length|]. split; [apply clip_vec_in_range; exact Hth|].
  split; [apply clip_vec_fixed_iff; exact Hth|]. split; [apply clip_vec_idem; exact Hth|].
  intros i Hi. apply clip_vec_nth. exact Hi.
Qed.

(* reflecting the vector commutes with the clip (point reflections keep the clipped translation) *)
Lemma clip_vec_odd_lemma : forall th v, (0 <= th)%Z -> clip_vec th (map Z.opp v) = map Z.opp (clip_vec th v).
Proof.
  intros th v Hth. induction v as [|x v IH]; cbn [clip_vec map]; [reflexivity|].
  f_equal; [apply threshold_odd_lemma; exact Hth|exact IH].
Qed.

(* ---------------------------------------------------------------- to_matrix44 *)
Lemma trans_part_assemble : forall (L : list (list Z)) (t : list Z), length L = length t ->
  trans_part Z 0%Z (assemble Z 0%Z 1%Z L t) = t.
Proof.
  intros L t Hlen. unfold trans_part, assemble. rewrite removelast_last.
  revert t Hlen. induction L as [|r L IH]; intros t Hlen; destruct t as [|a t]; cbn [length] in Hlen; try lia.
  - reflexivity.
  - cbn [combine map fst snd]. rewrite last_last. f_equal. apply IH. lia.
Qed.

Lemma max_dist_nonneg : (0 <= src_max_dist)%Z.
Proof. vm_compute. discriminate. Qed.

Lemma m44_translation_length : forall t, (src_clip_trans_lo + src_clip_trans_n <= length t)%nat ->
  length (m44_translation t) = src_clip_trans_n.
Proof.
  intros t Ht. unfold m44_translation, zslice. rewrite clip_vec_length, firstn_length, skipn_length. lia.
Qed.

Lemma zto_matrix44_translation_lemma : forall size rot dg tv t,
  length (eval_mexpr Z 0%Z Z.add Z.mul rot dg tv (lin_expr size)) = src_clip_trans_n ->
  (src_clip_trans_lo + src_clip_trans_n <= length t)%nat ->
  let col := trans_part Z 0%Z (zto_matrix44 size rot dg tv t) in
  let raw := zslice src_clip_trans_lo src_clip_trans_n t in
  col = clip_vec src_max_dist raw /\ length col = src_clip_trans_n /\
  Forall (in_range src_max_dist) col /\
  (col = raw <-> Forall (in_range src_max_dist) raw).
Proof.
  intros size rot dg tv t HL Ht col raw.
  assert (Hcol : col = clip_vec src_max_dist raw).
  { unfold col, zto_matrix44, to_matrix44.
    replace (Nat.eqb src_m44_trans src_clip_trans_lo) with true by (vm_compute; reflexivity).
    rewrite trans_part_assemble; [reflexivity|]. rewrite HL. symmetry. apply m44_translation_length. exact Ht. }
  split; [exact Hcol|]. rewrite Hcol. split.
  - apply (m44_translation_length t Ht).
  - split; [apply clip_vec_in_range; exact max_dist_nonneg|apply clip_vec_fixed_iff; exact max_dist_nonneg].
Qed.
