(* C08 - spatial transforms of nipy/algorithms/registration/affine.py,
   chain_transform.py over an arbitrary commutative ring with a division
   operation.  Executable definitions only.

   Transcendental / LAPACK parts are oracles: a transform is represented by
   the *oracle-evaluated view* of its 12-vector:
     x_t = threshold(vec12[0:3], MAX_DIST)        x_R = rotation_vec2mat(vec12[3:6])
     x_S = exp(threshold(vec12[6:9], LOG_MAX_DIST)) x_Q = rotation_vec2mat(vec12[9:12])
   and `from_matrix44` receives the factorisation it asks SciPy for
   (spl.svd, |det|^(1/3)) as an `fx_oracle`; rotation_mat2vec followed by
   rotation_vec2mat is the identity on the matrices it is applied to (oracle
   contract, checked numerically by the harness).

   The shapes that are tables or straight-line code in the source are taken
   from NV.Generated.AffineClasses (translated from the source on every run). *)
From Coq Require Import String.
From Coq Require Import List Arith Bool Lia.
From NV.Lib Require Import RingMat C08Base.
From NV.Generated Require Import AffineClasses.
Import ListNotations.
Open Scope list_scope.

(* ---------------------------------------------------------------- tables *)
Fixpoint lookup {A} (s : string) (l : list (string * A)) : option A :=
  match l with
  | [] => None
  | (k, v) :: r => if String.eqb k s then Some v else lookup s r
  end.
Fixpoint lookup_nat {A} (n : nat) (l : list (nat * A)) : option A :=
  match l with
  | [] => None
  | (k, v) :: r => if Nat.eqb k n then Some v else lookup_nat n r
  end.
Fixpoint nat_in (n : nat) (l : list nat) : bool :=
  match l with [] => false | x :: r => Nat.eqb x n || nat_in n r end.
Definition subset (a b : list nat) : bool := forallb (fun i => nat_in i b) a.

(* ---------------------------------------------------------------- Affine.compose: class selection *)
Inductive sel_res := Chosen (k : string) | Raises (attr : string) | UnknownClass.

Definition pick (c : sel_choice) (self other : string) : string :=
  match c with KSelf => self | KOther => other | KConst n => n end.

Fixpoint select (chain : list (sel_test * sel_choice)) (default : sel_choice)
         (si oi : list nat) (self other : string) : sel_res :=
  match chain with
  | [] => Chosen (pick default self other)
  | (t, c) :: rest =>
    match t with
    | SelfSubOther => if subset si oi then Chosen (pick c self other) else select rest default si oi self other
    | OtherSubSelf => if subset oi si then Chosen (pick c self other) else select rest default si oi self other
    | TestRaises a => Raises a
    end
  end.

Definition compose_class_in (tab : list (string * list nat)) chain default (self other : string) : sel_res :=
  match lookup self tab, lookup other tab with
  | Some si, Some oi => select chain default si oi self other
  | _, _ => UnknownClass
  end.
Definition compose_class := compose_class_in src_classes src_compose_chain src_compose_default.

Definition class_names : list string := map fst src_classes.

(* ---------------------------------------------------------------- Transform.compose on plain callables *)
(* a generic transform is its function; compose returns a new function (no shared state) *)
Fixpoint geval {A : Type} (f g : A -> A) (e : gexpr) (x : A) : A :=
  match e with
  | GPts => x
  | GSelf e' => f (geval f g e' x)
  | GOther e' => g (geval f g e' x)
  end.
Definition generic_compose {A : Type} (f g : A -> A) : A -> A := geval f g src_generic_compose.

(* ChainTransform.apply when the parts are ANY transforms (functions on points): every `a.compose(b)`
   of the chain expression denotes "b then a" (compose_apply for affine pairs, generic_compose_apply for
   callables, polyaffine_compose_apply / left_compose for PolyAffine) *)
Fixpoint cfun {A : Type} (env : string -> A -> A) (e : cexpr) : A -> A :=
  match e with
  | CLeaf a => env a
  | CComp a b => fun x => cfun env a (cfun env b x)
  end.
Definition fun_env {A : Type} (pre opt post : A -> A) (a : string) : A -> A :=
  if String.eqb a "pre"%string then pre
  else if String.eqb a "optimizable"%string then opt
  else if String.eqb a "post"%string then post else (fun x => x).

Section Model.
  Variable R : Type.
  Variables (r0 r1 : R) (radd rmul rsub : R -> R -> R) (ropp : R -> R).
  Variable rdiv : R -> R -> R.
  Variable rneg : R -> bool.        (* x < 0 *)

  Local Notation mat := (list (list R)).
  Local Notation vec := (list R).
  Local Notation Mm := (mm r0 radd rmul).
  Local Notation Mid := (mid r0 r1).
  Local Notation Happly := (happly r0 r1 radd rmul).

  (* ------------------------------------------------------------ parameters *)
  Definition pc_val (rad sca : R) (s : pc_sym) : R :=
    match s with POne => r1 | PRad => rad | PSca => sca end.
  (* preconditioner(radius): rad = sca = 1/radius *)
  Definition precond (rad sca : R) : vec := map (pc_val rad sca) src_precond.
  Definition app_op (o : pc_op) (a b : R) : R :=
    match o with PDiv => rdiv a b | PMul => rmul a b end.

  (* _get_param: (self._vec12 <op> self._precond)[param_inds] *)
  Definition get_param (inds : list nat) (pre v : vec) : vec :=
    map (fun i => app_op src_get_op (nth i v r0) (nth i pre r0)) inds.

  Fixpoint upd (v : vec) (i : nat) (x : R) : vec :=
    match v, i with
    | [], _ => []
    | _ :: r, O => x :: r
    | a :: r, S j => a :: upd r j x
    end.
  (* _set_param: self._vec12[targets] = p[sources] <op> self._precond[targets] *)
  Fixpoint set_param (targets sources : list nat) (pre p v : vec) : vec :=
    match targets, sources with
    | t :: ts, s :: ss => set_param ts ss pre p (upd v t (app_op src_set_op (nth s p r0) (nth t pre r0)))
    | _, _ => v
    end.
  (* v is a fixed point of "read then assign": every written slot holds the
     value of the slot its parameter is read from *)
  Fixpoint fan_inv (inds targets sources : list nat) (v : vec) : Prop :=
    match targets, sources with
    | t :: ts, s :: ss => nth t v r0 = nth (nth s inds 0) v r0 /\ fan_inv inds ts ss v
    | _, _ => True
    end.

  (* ------------------------------------------------------------ 3x3 helpers *)
  Definition mneg (A : mat) : mat := map (map ropp) A.
  Definition msmul (c : R) (A : mat) : mat := map (map (rmul c)) A.
  Definition mdivs (A : mat) (c : R) : mat := map (map (fun x => rdiv x c)) A.
  Fixpoint madd (A B : mat) : mat :=
    match A, B with
    | a :: A', b :: B' => vadd radd a b :: madd A' B'
    | _, _ => []
    end.
  Definition diag3 (s : vec) : mat :=
    [[nth 0 s r0; r0; r0]; [r0; nth 1 s r0; r0]; [r0; r0; nth 2 s r0]].
  Definition det3 (A : mat) : R :=
    match A with
    | [[a; b; c]; [d; e; f]; [g; h; i]] =>
      radd (rsub (rmul a (rsub (rmul e i) (rmul f h))) (rmul b (rsub (rmul d i) (rmul f g))))
           (rmul c (rsub (rmul d h) (rmul e g)))
    | _ => r0
    end.

  (* rotation_vec2mat, branch SMALL_ANGLE < theta <= MAX_ANGLE, on n = r/theta,
     s = sin theta, c = cos theta:  I + s Sn + (1-c) Sn Sn *)
  Definition skew (n1 n2 n3 : R) : mat :=
    [[r0; ropp n3; n2]; [n3; r0; ropp n1]; [ropp n2; n1; r0]].
  Definition rodrigues (n1 n2 n3 s c : R) : mat :=
    let Sn := skew n1 n2 n3 in
    madd (madd (Mid 3) (msmul s Sn)) (msmul (rsub r1 c) (Mm 3 Sn Sn)).

  (* ------------------------------------------------------------ to_matrix44 *)
  Fixpoint eval_mexpr (rot dg : nat -> mat) (tv : nat -> R) (e : mexpr) : mat :=
    match e with
    | MRot s => rot s
    | MDiagExp s => dg s
    | MDot a b => Mm 3 (eval_mexpr rot dg tv a) (eval_mexpr rot dg tv b)
    | MScaleBy i a => msmul (tv i) (eval_mexpr rot dg tv a)
    end.
  Definition lin_expr (size : nat) : mexpr :=
    match lookup_nat size src_m44_by_size with Some e => e | None => src_m44_default end.
  (* T = eye(4); T[0:3,0:3] = L; T[0:3,3] = t *)
  Definition assemble (L : mat) (t : vec) : mat :=
    map (fun p => fst p ++ [snd p]) (combine L t) ++ [bottom_row r0 r1 3].
  Definition to_matrix44 (size : nat) (rot dg : nat -> mat) (tv : nat -> R) (tr : nat -> vec) : mat :=
    assemble (eval_mexpr rot dg tv (lin_expr size)) (tr src_m44_trans).

  Definition lin_part (M : mat) : mat := map (fun row => removelast row) (removelast M).
  Definition trans_part (M : mat) : vec := map (fun row => last row r0) (removelast M).

  (* ------------------------------------------------------------ transforms *)
  Record xf := { x_class : string; x_t : vec; x_R : mat; x_S : vec; x_Q : mat; x_direct : bool }.

  Definition xf_rot (x : xf) (s : nat) : mat :=
    if Nat.eqb s 3 then x_R x else if Nat.eqb s 9 then x_Q x else [].
  Definition xf_dg (x : xf) (s : nat) : mat := if Nat.eqb s 6 then diag3 (x_S x) else [].
  Definition xf_tr (x : xf) (s : nat) : vec := if Nat.eqb s 0 then x_t x else [].

  (* as_affine: to_matrix44(self._vec12) (always 12 entries), sign by _direct *)
  Definition as_affine (x : xf) : mat :=
    let L := eval_mexpr (xf_rot x) (xf_dg x) (fun _ => r0) (lin_expr 12) in
    assemble (if Bool.eqb (x_direct x) src_negate_when_direct_is then mneg L else L) (xf_tr x src_m44_trans).

  Definition apply (x : xf) (p : vec) : vec := Happly (as_affine x) p.

  (* ------------------------------------------------------------ from_matrix44 *)
  Record fx_oracle := { o_U : mat; o_s : vec; o_V : mat; o_cs : R }.
  Record fx_state := { f_vars : list mat; f_direct : bool; f_r3 : mat; f_r9 : mat }.

  Definition neg_vars (negs : list nat) (vars : list mat) : list mat :=
    map (fun p => if nat_in (fst p) negs then mneg (snd p) else snd p) (combine (seq 0 (length vars)) vars).

  Definition run_event (o : fx_oracle) (st : fx_state) (e : fx_event) : fx_state :=
    match e with
    | FxNegIf t negs clear =>
      if rneg (det3 (nth t (f_vars st) [])) then
        {| f_vars := neg_vars negs (f_vars st); f_direct := if clear then false else f_direct st;
           f_r3 := f_r3 st; f_r9 := f_r9 st |}
      else st
    | FxTake v slot scaled =>
      let M := nth v (f_vars st) [] in
      let M := if scaled then mdivs M (o_cs o) else M in
      {| f_vars := f_vars st; f_direct := f_direct st;
         f_r3 := if Nat.eqb slot 3 then M else f_r3 st;
         f_r9 := if Nat.eqb slot 9 then M else f_r9 st |}
    | FxSetDirect b =>
      {| f_vars := f_vars st; f_direct := b; f_r3 := f_r3 st; f_r9 := f_r9 st |}
    end.

  (* `prior` is the value of self._direct before the call (True on a fresh object) *)
  Definition from_matrix44 (k : string) (prior : bool) (o : fx_oracle) (M : mat) : option xf :=
    match lookup k src_fx_owner with
    | None => None
    | Some ow =>
      match lookup ow src_fx with
      | None => None
      | Some prog =>
        let vars0 := match fx_factor prog with FSvd => [o_U o; o_V o] | FLin => [lin_part M] end in
        let st := fold_left (run_event o) (fx_events prog)
                            {| f_vars := vars0; f_direct := prior; f_r3 := Mid 3; f_r9 := Mid 3 |} in
        let S := match fx_sc prog with
                 | ScSvd => o_s o
                 | ScUnit => [r1; r1; r1]
                 | ScCubeRoot => [o_cs o; o_cs o; o_cs o]
                 end in
        Some {| x_class := k; x_t := trans_part M; x_R := f_r3 st; x_S := S; x_Q := f_r9 st;
                x_direct := f_direct st |}
      end
    end.

  (* the factorisation SciPy is asked for, as a contract on the oracle values *)
  Definition fx_contract (k : string) (o : fx_oracle) (M : mat) : Prop :=
    match lookup k src_fx_owner with
    | None => False
    | Some ow =>
      match lookup ow src_fx with
      | None => False
      | Some prog =>
        match fx_factor prog, fx_sc prog with
        | FSvd, _ => wf_mat 3 3 (o_U o) /\ wf_mat 3 3 (o_V o) /\ length (o_s o) = 3 /\
                     Mm 3 (o_U o) (Mm 3 (diag3 (o_s o)) (o_V o)) = lin_part M
        | FLin, ScCubeRoot => o_cs o <> r0
        | FLin, _ => True
        end
      end
    end.

  (* ------------------------------------------------------------ compose / inv / chain *)
  Definition compose_matrix (a b : xf) : mat :=
    if src_compose_self_left then Mm 4 (as_affine a) (as_affine b) else Mm 4 (as_affine b) (as_affine a).

  Definition compose (a b : xf) (o : fx_oracle) : option xf :=
    match compose_class (x_class a) (x_class b) with
    | Chosen k => from_matrix44 k true o (compose_matrix a b)
    | _ => None
    end.

  (* inv: Minv = spl.inv(self.as_affine()) is an oracle value *)
  Definition inv (a : xf) (Minv : mat) (o : fx_oracle) : option xf :=
    from_matrix44 (x_class a) true o Minv.

  (* ChainTransform.apply: the composed transform.  Python evaluates the
     receiver, then the argument, then the call: oracles are consumed in that order. *)
  Fixpoint chain_eval (env : string -> option xf) (e : cexpr) (os : list fx_oracle)
    : option (xf * list fx_oracle) :=
    match e with
    | CLeaf a => match env a with Some x => Some (x, os) | None => None end
    | CComp a b =>
      match chain_eval env a os with
      | None => None
      | Some (xa, os1) =>
        match chain_eval env b os1 with
        | None => None
        | Some (xb, os2) =>
          match os2 with
          | [] => None
          | o :: os3 => match compose xa xb o with Some c => Some (c, os3) | None => None end
          end
        end
      end
    end.
  Definition chain_env (pre opt post : xf) (a : string) : option xf :=
    if String.eqb a "pre"%string then Some pre
    else if String.eqb a "optimizable"%string then Some opt
    else if String.eqb a "post"%string then Some post else None.

  (* well-formed transform: shapes only *)
  Definition wf_xf (x : xf) : Prop :=
    In (x_class x) class_names /\ length (x_t x) = 3 /\ wf_mat 3 3 (x_R x) /\ length (x_S x) = 3 /\ wf_mat 3 3 (x_Q x).
End Model.

Arguments x_class {R} x.
Arguments x_t {R} x.
Arguments x_R {R} x.
Arguments x_S {R} x.
Arguments x_Q {R} x.
Arguments x_direct {R} x.
Arguments Build_xf {R}.
Arguments Build_fx_oracle {R}.
