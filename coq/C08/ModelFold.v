(* C08 - compose chains of ANY finite length, nested the way ChainTransform.apply
   (post.compose(optimizable.compose(pre))) and user code nest them:
   t1.compose(t2.compose(... tn.compose(z))).  Executable definitions only. *)
From Coq Require Import String.
From Coq Require Import List Arith Bool.
From NV.Lib Require Import RingMat C08Base.
From NV.Generated Require Import AffineClasses.
From NV.C08 Require Import Model.
Import ListNotations.
Open Scope list_scope.

Section Fold.
  Variable R : Type.
  Variables (r0 r1 : R) (radd rmul rsub : R -> R -> R) (ropp : R -> R).
  Variable rdiv : R -> R -> R.
  Variable rneg : R -> bool.
  Local Notation xf := (xf R).
  Local Notation compose := (compose R r0 r1 radd rmul rsub ropp rdiv rneg).
  Local Notation apply := (apply R r0 r1 radd rmul ropp).

  (* Python evaluates the innermost compose first; the oracle list is given outermost first:
     the head of `os` belongs to the LAST compose call executed (t1.compose(...)). *)
  Fixpoint compose_right (ts : list xf) (z : xf) (os : list (fx_oracle R)) : option xf :=
    match ts with
    | [] => Some z
    | t :: ts' =>
      match os with
      | [] => None
      | o :: os' =>
        match compose_right ts' z os' with
        | Some c => compose t c o
        | None => None
        end
      end
    end.

  (* applying the transforms one after the other, the last of the list first *)
  Definition seq_apply (ts : list xf) (p : list R) : list R := fold_right (fun t q => apply t q) p ts.

  (* every SciPy factorisation asked for along the chain satisfies its contract *)
  Fixpoint right_contract (ts : list xf) (z : xf) (os : list (fx_oracle R)) : Prop :=
    match ts with
    | [] => True
    | t :: ts' =>
      match os with
      | [] => False
      | o :: os' =>
        right_contract ts' z os' /\
        forall c k, compose_right ts' z os' = Some c ->
                    compose_class (x_class t) (x_class c) = Chosen k ->
                    fx_contract R r0 radd rmul k o (compose_matrix R r0 r1 radd rmul ropp t c)
      end
    end.

  (* product of the homogeneous matrices, same nesting *)
  Definition mat_chain (ts : list xf) (z : xf) : list (list R) :=
    fold_right (fun t M => mm r0 radd rmul 4 (as_affine R r0 r1 radd rmul ropp t) M) (as_affine R r0 r1 radd rmul ropp z) ts.
End Fold.
