(* C08 - the clipping of nipy/algorithms/registration/affine.py: `threshold`
   (translated from the source into NV.Generated.AffineClip.src_threshold) applied
   elementwise, and its use for the translation column of `to_matrix44`
   (T[0:3, 3] = threshold(t[0:3], MAX_DIST)).  Executable definitions only.
   Values are integers (the harness uses integer-valued floats below 2^53, on
   which np.maximum / np.minimum / negation are exact). *)
From Coq Require Import List ZArith Bool.
From NV.Lib Require Import RingMat C08Base Harness.
From NV.Generated Require Import AffineClasses AffineClip.
From NV.C08 Require Import Model.
Import ListNotations.
Open Scope list_scope.

(* threshold on an array: numpy broadcasting of the scalar bound *)
Definition clip_vec (th : Z) (v : list Z) : list Z := map (fun x => src_threshold x th) v.

(* t[lo:lo+n] *)
Definition zslice (lo n : nat) (t : list Z) : list Z := firstn n (skipn lo t).

(* the translation column written by to_matrix44(t) *)
Definition m44_translation (t : list Z) : list Z :=
  clip_vec src_max_dist (zslice src_clip_trans_lo src_clip_trans_n t).

(* to_matrix44 with the clip inside the model: the translation oracle view
   `tr` of Model.to_matrix44 is replaced by the clipped slice of the raw vector *)
Definition zto_matrix44 (size : nat) (rot dg : nat -> list (list Z)) (tv : nat -> Z) (t : list Z) : list (list Z) :=
  to_matrix44 Z 0%Z 1%Z Z.add Z.mul size rot dg tv
              (fun s => if Nat.eqb s src_clip_trans_lo then m44_translation t else []).

Definition in_range (th x : Z) : Prop := (- th <= x <= th)%Z.
Definition in_rangeb (th x : Z) : bool := Z.leb (- th) x && Z.leb x th.

(* comparison functions evaluated by the harness *)
Definition clip_agrees (th : Z) (v out : list Z) : bool := zlist_eqb (clip_vec th v) out.
Definition m44_translation_agrees (t out : list Z) : bool := zlist_eqb (m44_translation t) out.
Definition max_dist_agrees (d : Z) : bool := Z.eqb src_max_dist d.
