(* C08 - compose / inv chains of any finite length (induction on the chain). *)
From Coq Require Import String.
From Coq Require Import List Arith Bool Lia Ring.
From NV.Lib Require Import RingMat C08Base.
From NV.Generated Require Import AffineClasses.
From NV.C08 Require Import Model Proofs ModelFold.
Import ListNotations.
Open Scope list_scope.

Section Fold.
  Variable R : Type.
  Variables (r0 r1 : R) (radd rmul rsub : R -> R -> R) (ropp : R -> R).
  Variable rdiv : R -> R -> R.
  Variable rneg : R -> bool.
  Hypothesis Rth : ring_theory r0 r1 radd rmul rsub ropp (@eq R).
  Hypothesis rdiv_mul : forall a b, b <> r0 -> rmul (rdiv a b) b = a.

  Local Notation xf := (xf R).
  Local Notation as_affine := (as_affine R r0 r1 radd rmul ropp).
  Local Notation apply := (apply R r0 r1 radd rmul ropp).
  Local Notation compose := (compose R r0 r1 radd rmul rsub ropp rdiv rneg).
  Local Notation inv := (inv R r0 r1 radd rmul rsub ropp rdiv rneg).
  Local Notation wf_t := (wf_t R r0 r1 radd rmul ropp).
  Local Notation compose_right := (compose_right R r0 r1 radd rmul rsub ropp rdiv rneg).
  Local Notation right_contract := (right_contract R r0 r1 radd rmul rsub ropp rdiv rneg).
  Local Notation seq_apply := (seq_apply R r0 r1 radd rmul ropp).
  Local Notation mat_chain := (mat_chain R r0 r1 radd rmul ropp).

  Lemma compose_right_apply_lemma :
    forall (ts : list xf) (z : xf) os, Forall wf_t ts -> wf_t z -> right_contract ts z os ->
    exists c, compose_right ts z os = Some c /\ wf_t c /\
              as_affine c = mat_chain ts z /\
              forall p, length p = 3 -> apply c p = seq_apply ts (apply z p).
  Proof.
    intros ts z. induction ts as [|t ts IH]; intros os Wts Wz HC.
    - exists z. split; [reflexivity|]. split; [exact Wz|]. split; [reflexivity|]. intros p Hp. reflexivity.
    - inversion Wts as [|t' ts' Wt Wts']; subst.
      destruct os as [|o os]; [destruct HC|]. destruct HC as [HC1 HC2].
      destruct (IH os Wts' Wz HC1) as (c1 & E1 & W1 & M1 & A1).
      destruct (compose_apply_lemma R r0 r1 radd rmul rsub ropp rdiv rneg Rth rdiv_mul t c1 o Wt W1
                  (fun k => HC2 c1 k E1)) as (c & E & W & _ & M & A).
      exists c. split; [cbn [ModelFold.compose_right]; rewrite E1; exact E|]. split; [exact W|].
      split.
      + rewrite M, M1. reflexivity.
      + intros p Hp. rewrite (A p Hp), (A1 p Hp). reflexivity.
  Qed.

  (* inverse of a whole chain: given the two-sided inverse of the chain's matrix (spl.inv oracle) *)
  Lemma compose_right_inv_lemma :
    forall (ts : list xf) (z : xf) os Minv oi, Forall wf_t ts -> wf_t z -> right_contract ts z os ->
    wf_aff r0 r1 3 3 Minv ->
    mm r0 radd rmul 4 Minv (mat_chain ts z) = mid r0 r1 4 ->
    mm r0 radd rmul 4 (mat_chain ts z) Minv = mid r0 r1 4 ->
    (forall c, compose_right ts z os = Some c -> fx_contract R r0 radd rmul (x_class c) oi Minv) ->
    exists c ci, compose_right ts z os = Some c /\ inv c Minv oi = Some ci /\ x_class ci = x_class c /\
                 forall p, length p = 3 ->
                   apply ci (seq_apply ts (apply z p)) = p /\ seq_apply ts (apply z (apply ci p)) = p.
  Proof.
    intros ts z os Minv oi Wts Wz HC WM HL HR HO.
    destruct (compose_right_apply_lemma ts z os Wts Wz HC) as (c & E & W & M & A).
    rewrite <- M in HL, HR.
    destruct (inv_apply_lemma R r0 r1 radd rmul rsub ropp rdiv rneg Rth rdiv_mul c Minv oi W WM HL HR (HO c E))
      as (ci & Ei & Hk & Hm & Hp).
    exists c, ci. split; [exact E|]. split; [exact Ei|]. split; [exact Hk|].
    intros p Hlen. destruct (Hp p Hlen) as [H1 H2]. split.
    - rewrite <- (A p Hlen). exact H1.
    - assert (Hl : length (apply ci p) = 3).
      { unfold Model.apply. rewrite Hm. apply (happly_length R r0 r1 radd rmul 3 3). exact WM. }
      rewrite <- (A _ Hl). exact H2.
  Qed.
End Fold.
