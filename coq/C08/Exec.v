(* C08 - Q instance of the model (reduced fractions) and the comparison
   functions the harness evaluates with vm_compute. *)
From Coq Require Import String.
From Coq Require Import List Arith Bool ZArith QArith Qabs.
From NV.Lib Require Import RingMat C08Base Harness.
From NV.Generated Require Import AffineClasses.
From NV.C08 Require Import Model ModelFold.
Import ListNotations.
Open Scope list_scope.
Close Scope Q_scope.

Definition qadd (a b : Q) : Q := Qred (Qplus a b).
Definition qmul (a b : Q) : Q := Qred (Qmult a b).
Definition qsub (a b : Q) : Q := Qred (Qminus a b).
Definition qopp (a : Q) : Q := Qopp a.
Definition qdiv (a b : Q) : Q := Qred (Qdiv a b).
Definition qneg (a : Q) : bool := Z.ltb (Qnum a) 0.
Definition q0 : Q := Qmake 0 1.
Definition q1 : Q := Qmake 1 1.

Definition qxf := xf Q.
Definition qoracle := fx_oracle Q.
Definition qas_affine : qxf -> list (list Q) := as_affine Q q0 q1 qadd qmul qopp.
Definition qapply : qxf -> list Q -> list Q := apply Q q0 q1 qadd qmul qopp.
Definition qfrom_matrix44 := from_matrix44 Q q0 q1 qadd qmul qsub qopp qdiv qneg.
Definition qcompose := compose Q q0 q1 qadd qmul qsub qopp qdiv qneg.
Definition qinv := inv Q q0 q1 qadd qmul qsub qopp qdiv qneg.
Definition qchain := chain_eval Q q0 q1 qadd qmul qsub qopp qdiv qneg.
Definition qget_param := get_param Q q0 qmul qdiv.
Definition qset_param := set_param Q q0 qmul qdiv.
Definition qprecond := precond Q q1.
Definition qrodrigues := rodrigues Q q0 q1 qadd qmul qsub qopp.
Definition qto_matrix44 := to_matrix44 Q q0 q1 qadd qmul.
Definition qmm := mm q0 qadd qmul.
Definition qdet3 := det3 Q q0 qadd qmul qsub.

(* |a - b| <= eps, entrywise, same shape *)
Definition qclose (eps a b : Q) : bool := Qle_bool (Qabs (Qminus a b)) eps.
Definition qvec_close (eps : Q) := list_eqb (qclose eps).
Definition qmat_close (eps : Q) := list_eqb (qvec_close eps).

Definition sel_res_eqb (a b : sel_res) : bool :=
  match a, b with
  | Chosen x, Chosen y => String.eqb x y
  | Raises _, Raises _ => true
  | UnknownClass, UnknownClass => true
  | _, _ => false
  end.

(* observable state of a transform: class, _direct, as_affine(), and the
   oracle-evaluated factors R, S, Q *)
Definition xf_agrees (eps : Q) (x : option qxf) (cls : string) (direct : bool) (A : list (list Q)) : bool :=
  match x with
  | Some x => String.eqb (x_class x) cls && Bool.eqb (x_direct x) direct && qmat_close eps (qas_affine x) A
  | None => false
  end.
Definition factors_agree (eps : Q) (x : option qxf) (Rm : list (list Q)) (S : list Q) (Qm : list (list Q)) : bool :=
  match x with
  | Some x => qmat_close eps (x_R x) Rm && qvec_close eps (x_S x) S && qmat_close eps (x_Q x) Qm
  | None => false
  end.

Definition chain_agrees (eps : Q) (pre opt post : qxf) (os : list qoracle) (cls : string) (direct : bool)
           (A : list (list Q)) : bool :=
  match qchain (chain_env Q pre opt post) src_chain os with
  | Some (c, []) => xf_agrees eps (Some c) cls direct A
  | _ => false
  end.

(* to_matrix44(t) for t.size in {6, 7, 12}: rot/diag/trans oracle values by slice start *)
Definition m44_agrees (eps : Q) (size : nat) (R3 R9 D6 : list (list Q)) (t6 : Q) (tr : list Q) (A : list (list Q)) : bool :=
  qmat_close eps
    (qto_matrix44 size (fun s => if Nat.eqb s 3 then R3 else if Nat.eqb s 9 then R9 else [])
                  (fun s => if Nat.eqb s 6 then D6 else [])
                  (fun i => if Nat.eqb i 6 then t6 else q0)
                  (fun s => if Nat.eqb s 0 then tr else []))
    A.

(* ChainTransform.apply on points *)
Definition chain_pts_agree (eps : Q) (pre opt post : qxf) (os : list qoracle)
           (pts out : list (list Q)) : bool :=
  match qchain (chain_env Q pre opt post) src_chain os with
  | Some (c, []) => qmat_close eps (map (qapply c) pts) out
  | _ => false
  end.

(* param setter then getter on an object with 12-vector v0 and preconditioner pre:
   v1 = vec12 after `t.param = p`, q = `t.param` read back *)
Definition param_agrees (eps : Q) (cls : string) (pre p v0 v1 q : list Q) : bool :=
  match lookup cls src_set_param, lookup cls src_classes with
  | Some (ts, ss), Some inds =>
    let v := qset_param ts ss pre p v0 in
    qvec_close eps v v1 && qvec_close eps (qget_param inds pre v) q
  | _, _ => false
  end.
(* preconditioner(radius) given rad = 1/radius *)
Definition precond_agrees (rad : Q) (pre : list Q) : bool := qvec_close q0 (qprecond rad rad) pre.

(* compose chains of any length (ModelFold): t1.compose(t2.compose(... z)), oracles outermost first *)
Definition qcompose_right := compose_right Q q0 q1 qadd qmul qsub qopp qdiv qneg.
Definition qseq_apply := seq_apply Q q0 q1 qadd qmul qopp.
(* the composed transform maps the points as the implementation's composed object does *)
Definition fold_pts_agree (eps : Q) (ts : list qxf) (z : qxf) (os : list qoracle) (pts out : list (list Q)) : bool :=
  match qcompose_right ts z os with
  | Some c => qmat_close eps (map (qapply c) pts) out
  | None => false
  end.
(* applying the model's transforms one after the other gives what the implementation's composed object gives *)
Definition seq_pts_agree (eps : Q) (ts : list qxf) (z : qxf) (pts out : list (list Q)) : bool :=
  qmat_close eps (map (fun p => qseq_apply ts (qapply z p)) pts) out.
