(* C08 - property theorems only.  Statements over an arbitrary commutative
   ring with exact division (Section variables, generalised at End), the
   class tables / program fragments are the ones translated from the source
   (NV.Generated.AffineClasses).  `Print Assumptions` after the section. *)
From Coq Require Import String.
From Coq Require Import List Arith Bool ZArith Reals Ring.
From NV.Lib Require Import RingMat C08Base.
From NV.Generated Require Import AffineClasses AffineClip.
From NV.C08 Require Import Model Proofs Proofs2 Proofs3 ProofsR Clip Proofs4 ModelFold Proofs5.
Import ListNotations.
Close Scope R_scope.
Open Scope list_scope.

(* (1) Affine.compose never fails on the 36 ordered class pairs of the source
   table, and the class it selects (a) is in the table, (b) has a parameter
   index set containing both arguments' index sets, (c) is the other
   argument's class when self's indices are contained in it, else self's
   class when it contains the other's, else Affine. *)
Theorem compose_class_total :
  forall self other, In self class_names -> In other class_names ->
  exists k si oi ik,
    compose_class self other = Chosen k /\
    lookup self src_classes = Some si /\ lookup other src_classes = Some oi /\
    lookup k src_classes = Some ik /\
    subset si ik = true /\ subset oi ik = true /\
    (subset si oi = true -> k = other) /\
    (subset si oi = false -> subset oi si = true -> k = self) /\
    (subset si oi = false -> subset oi si = false -> k = "Affine"%string).
Proof. exact compose_class_total_lemma. Qed.

Section Ring.
  Variable R : Type.
  Variables (r0 r1 : R) (radd rmul rsub : R -> R -> R) (ropp : R -> R).
  Variable rdiv : R -> R -> R.
  Variable rneg : R -> bool.       (* the test `x < 0`: any boolean function *)
  Hypothesis Rth : ring_theory r0 r1 radd rmul rsub ropp (@eq R).
  Hypothesis rdiv_mul : forall a b, b <> r0 -> rmul (rdiv a b) b = a.
  Hypothesis mul_rdiv : forall a b, b <> r0 -> rdiv (rmul a b) b = a.

  Local Notation xf := (xf R).
  Local Notation as_affine := (as_affine R r0 r1 radd rmul ropp).
  Local Notation apply := (apply R r0 r1 radd rmul ropp).
  Local Notation from_matrix44 := (from_matrix44 R r0 r1 radd rmul rsub ropp rdiv rneg).
  Local Notation fx_contract := (fx_contract R r0 radd rmul).
  Local Notation compose := (compose R r0 r1 radd rmul rsub ropp rdiv rneg).
  Local Notation compose_matrix := (compose_matrix R r0 r1 radd rmul ropp).
  Local Notation inv := (inv R r0 r1 radd rmul rsub ropp rdiv rneg).
  Local Notation chain_eval := (chain_eval R r0 r1 radd rmul rsub ropp rdiv rneg).
  Local Notation wf_t := (wf_t R r0 r1 radd rmul ropp).
  Local Notation Mm := (mm r0 radd rmul).

  (* (2) from_matrix44 followed by as_affine reproduces the matrix on ANY object,
     whatever its previous state (`prior` = value of _direct before the call,
     the previous 12-vector is overwritten), for every class, every 4x4 affine
     matrix and BOTH outcomes of every determinant-sign test (the sign fixes
     (-R) S (-Q) = R S Q and -(R S (-Q)) = R S Q with _direct = False;
     A = -(-A) for Rigid, s ((-A)/s) negated for Similarity), given the
     factorisation contract (U diag(s) V = A for the SVD; s <> 0 for the cube
     root).  Relies on the `self._direct = True` that opens each from_matrix44
     (FxSetDirect true in the generated programs; /repo 37323b5): without it
     the proof fails for prior = false. *)
  Theorem svd_sign_fix_reconstructs :
    forall k prior o M, In k class_names -> wf_aff r0 r1 3 3 M -> fx_contract k o M ->
    exists x, from_matrix44 k prior o M = Some x /\ x_class x = k /\ as_affine x = M.
  Proof. exact (reconstructs_lemma R r0 r1 radd rmul rsub ropp rdiv rneg Rth rdiv_mul). Qed.

  (* every well-shaped transform has a well-formed homogeneous matrix *)
  Theorem as_affine_wellformed : forall x : xf, wf_xf R x -> wf_t x.
  Proof. exact (wf_xf_wf_t R r0 r1 radd rmul ropp). Qed.

  (* (3) compose succeeds for every class pair and applying the result to a
     point equals applying `b` then `a`. *)
  Theorem compose_apply :
    forall (a b : xf) o, wf_t a -> wf_t b ->
    (forall k, compose_class (x_class a) (x_class b) = Chosen k -> fx_contract k o (compose_matrix a b)) ->
    exists c, compose a b o = Some c /\ wf_t c /\
              compose_class (x_class a) (x_class b) = Chosen (x_class c) /\
              as_affine c = Mm 4 (as_affine a) (as_affine b) /\
              forall p, length p = 3 -> apply c p = apply a (apply b p).
  Proof. exact (compose_apply_lemma R r0 r1 radd rmul rsub ropp rdiv rneg Rth rdiv_mul). Qed.

  (* (4) inv: given the two-sided inverse matrix (spl.inv oracle), the inverse
     transform keeps the class and maps transformed points back, both ways. *)
  Theorem inv_apply :
    forall (a : xf) Minv o, wf_t a -> wf_aff r0 r1 3 3 Minv ->
    Mm 4 Minv (as_affine a) = mid r0 r1 4 -> Mm 4 (as_affine a) Minv = mid r0 r1 4 ->
    fx_contract (x_class a) o Minv ->
    exists c, inv a Minv o = Some c /\ x_class c = x_class a /\ as_affine c = Minv /\
              forall p, length p = 3 -> apply c (apply a p) = p /\ apply a (apply c p) = p.
  Proof. exact (inv_apply_lemma R r0 r1 radd rmul rsub ropp rdiv rneg Rth rdiv_mul). Qed.

  (* (5) ChainTransform.apply (expression translated from the source) maps
     points as post . optimizable . pre. *)
  Theorem chain_apply :
    forall (pre opt post : xf) o1 o2, wf_t pre -> wf_t opt -> wf_t post ->
    (forall k, compose_class (x_class opt) (x_class pre) = Chosen k -> fx_contract k o1 (compose_matrix opt pre)) ->
    (forall c1 k, compose opt pre o1 = Some c1 -> compose_class (x_class post) (x_class c1) = Chosen k ->
                  fx_contract k o2 (compose_matrix post c1)) ->
    exists c, chain_eval (chain_env R pre opt post) src_chain [o1; o2] = Some (c, []) /\
              forall p, length p = 3 -> apply c p = apply post (apply opt (apply pre p)).
  Proof. exact (chain_apply_lemma R r0 r1 radd rmul rsub ropp rdiv rneg Rth rdiv_mul). Qed.

  (* (6) param: assigning p then reading gives p back (every class, every p of
     the class's length, non-zero preconditioner); reading then assigning
     leaves the 12-vector unchanged whenever the fanned-out slots agree
     (Similarity: the three log-scales are equal). *)
  Theorem param_set_get :
    Forall (fun kc => forall ts ss, lookup (fst kc) src_set_param = Some (ts, ss) ->
              forall rad sca p v, rad <> r0 -> sca <> r0 -> r1 <> r0 ->
              length v = 12 -> length p = length (snd kc) ->
              get_param R r0 rmul rdiv (snd kc) (precond R r1 rad sca)
                        (set_param R r0 rmul rdiv ts ss (precond R r1 rad sca) p v) = p)
           src_classes.
  Proof. exact (param_set_get_lemma R r0 r1 rmul rdiv mul_rdiv). Qed.

  Theorem param_get_set :
    Forall (fun kc => forall ts ss, lookup (fst kc) src_set_param = Some (ts, ss) ->
              forall rad sca v, rad <> r0 -> sca <> r0 -> r1 <> r0 ->
              length v = 12 -> fan_inv R r0 (snd kc) ts ss v ->
              set_param R r0 rmul rdiv ts ss (precond R r1 rad sca)
                        (get_param R r0 rmul rdiv (snd kc) (precond R r1 rad sca) v) v = v)
           src_classes.
  Proof. exact (param_get_set_lemma R r0 r1 rmul rdiv rneg rdiv_mul). Qed.
End Ring.

Print Assumptions compose_class_total.
Print Assumptions svd_sign_fix_reconstructs.
Print Assumptions as_affine_wellformed.
Print Assumptions compose_apply.
Print Assumptions inv_apply.
Print Assumptions chain_apply.
Print Assumptions param_set_get.
Print Assumptions param_get_set.

Section Signs.
  Variable R : Type.
  Variables (r0 r1 : R) (radd rmul rsub : R -> R -> R) (ropp : R -> R).
  Variable rdiv : R -> R -> R.
  Variable rneg : R -> bool.
  Hypothesis Rth : ring_theory r0 r1 radd rmul rsub ropp (@eq R).
  Hypothesis rneg_one : rneg r1 = false.           (* not (1 < 0) *)
  Hypothesis rneg_mone : rneg (ropp r1) = true.    (* -1 < 0 *)

  Local Notation from_matrix44 := (from_matrix44 R r0 r1 radd rmul rsub ropp rdiv rneg).
  Local Notation fx_contract := (fx_contract R r0 radd rmul).
  Local Notation det3 := (det3 R r0 radd rmul rsub).
  Local Notation is_pm1 := (is_pm1 R r1 ropp).

  (* (8) what the sign fixes are for: with orthogonal SVD factors (det = +-1)
     both matrices handed to rotation_mat2vec are proper (det = +1), and
     _direct ends False exactly when det U * det V (the sign of det A) is -1. *)
  Theorem sign_fix_factors_proper_affine :
    forall k prior o M x, In k class_names -> lookup k src_fx_owner = Some "Affine"%string ->
    fx_contract k o M -> is_pm1 (det3 (o_U R o)) -> is_pm1 (det3 (o_V R o)) ->
    from_matrix44 k prior o M = Some x ->
    det3 (x_R x) = r1 /\ det3 (x_Q x) = r1 /\
    x_direct x = negb (rneg (rmul (det3 (o_U R o)) (det3 (o_V R o)))).
  Proof. exact (affine_factors_proper R r0 r1 radd rmul rsub ropp rdiv rneg Rth rneg_one rneg_mone). Qed.

  Theorem sign_fix_factors_proper_rigid :
    forall k prior o M x, In k class_names -> lookup k src_fx_owner = Some "Rigid"%string ->
    wf_aff r0 r1 3 3 M -> is_pm1 (det3 (lin_part R M)) ->
    from_matrix44 k prior o M = Some x ->
    det3 (x_R x) = r1 /\ det3 (x_Q x) = r1 /\ x_direct x = negb (rneg (det3 (lin_part R M))).
  Proof. exact (rigid_factors_proper R r0 r1 radd rmul rsub ropp rdiv rneg Rth rneg_one rneg_mone). Qed.

  (* (9) PolyAffine.compose(affine): only the global affine is updated (G.A, or
     A when there was none), and the result applied to x equals the original
     applied to A x, whatever the kernel `_apply_polyaffine` computes. *)
  Theorem polyaffine_compose_apply :
    forall (kernel : list R -> list R) glob A x,
    (forall G, glob = Some G -> wf_aff r0 r1 3 3 G) -> wf_aff r0 r1 3 3 A -> length x = 3 ->
    pa_apply R r0 r1 radd rmul kernel (pa_compose_glob R r0 radd rmul glob A) x
    = pa_apply R r0 r1 radd rmul kernel glob (happly r0 r1 radd rmul A x).
  Proof. exact (polyaffine_compose_apply_lemma R r0 r1 radd rmul rsub ropp Rth). Qed.
  (* (10) class closure over any commutative ring: the product of two proper
     rotations (orthogonal on both sides, det 1) is a proper rotation. *)
  Theorem rotations_closed :
    forall A B, is_rot3 R r0 r1 radd rmul rsub A -> is_rot3 R r0 r1 radd rmul rsub B ->
    is_rot3 R r0 r1 radd rmul rsub (mm r0 radd rmul 3 A B).
  Proof. exact (rotations_closed_lemma R r0 r1 radd rmul rsub ropp Rth). Qed.

  (* (11) Rigid / Rigid2D closure inside compose: for rigid-shaped a, b with
     proper rotations, the from_matrix44 of a Rigid-owner class applied to the
     compose matrix hands rotation_mat2vec exactly R_a R_b (a proper rotation,
     so the rotation_mat2vec contract applies), keeps the rigid shape, and sets
     _direct to the "product" of the two flags. *)
  Theorem rigid_compose_closed :
    forall k prior o (a b c : xf R), In k class_names -> lookup k src_fx_owner = Some "Rigid"%string ->
    rigid_shaped R r0 r1 a -> rigid_shaped R r0 r1 b ->
    is_rot3 R r0 r1 radd rmul rsub (x_R a) -> is_rot3 R r0 r1 radd rmul rsub (x_R b) ->
    from_matrix44 k prior o (compose_matrix R r0 r1 radd rmul ropp a b) = Some c ->
    x_R c = mm r0 radd rmul 3 (x_R a) (x_R b) /\ is_rot3 R r0 r1 radd rmul rsub (x_R c) /\
    rigid_shaped R r0 r1 c /\ x_direct c = Bool.eqb (x_direct a) (x_direct b).
  Proof. exact (rigid_compose_closed_lemma R r0 r1 radd rmul rsub ropp rdiv rneg Rth rneg_one rneg_mone). Qed.

  (* (12) Similarity / Similarity2D factor: with the cube-root contract
     s^3 = |det A| (s^3 non-zero and cancellable, as in any field) the matrix A'/s
     handed to rotation_mat2vec has determinant one and _direct is False exactly
     when det A < 0.  (Orthogonality of A'/s needs A = s * rotation and is not
     shown here: partial.) *)
  Theorem similarity_factor_det_partial :
    (forall a b, b <> r0 -> rmul (rdiv a b) b = a) ->
    forall k prior o M x, In k class_names -> lookup k src_fx_owner = Some "Similarity"%string ->
    wf_aff r0 r1 3 3 M -> o_cs R o <> r0 ->
    (forall a b, b <> r0 -> rmul a b = b -> a = r1) ->
    rmul (o_cs R o) (rmul (o_cs R o) (o_cs R o)) <> r0 ->
    rmul (o_cs R o) (rmul (o_cs R o) (o_cs R o))
      = (if rneg (det3 (lin_part R M)) then ropp (det3 (lin_part R M)) else det3 (lin_part R M)) ->
    from_matrix44 k prior o M = Some x ->
    det3 (x_R x) = r1 /\ x_direct x = negb (rneg (det3 (lin_part R M))).
  Proof.
    intros Hd. exact (similarity_factor_det_lemma R r0 r1 radd rmul rsub ropp rdiv rneg Rth Hd).
  Qed.
  (* (16) PolyAffine.left_compose(affine A) - reached by A.compose(P): the kernel
     is a normalised weighted sum T(y) = sum_i w_i(y) T_i y (weights: any
     oracle function with sum 1 at the evaluated point).  The result built as
     the source does (local affines A.T_i, global affine kept - both read from
     the translated source) applied to x equals A applied to P(x), also when P
     already carries a global affine G (y = G x). *)
  Theorem polyaffine_left_compose_apply :
    forall (w : list R -> list R) glob Ts A x,
    wf_aff r0 r1 3 3 A -> Forall (wf_aff r0 r1 3 3) Ts ->
    (forall G, glob = Some G -> wf_aff r0 r1 3 3 G) -> length x = 3 ->
    length (w (pa_first R r0 r1 radd rmul glob x)) = length Ts ->
    vtotal R r0 radd (w (pa_first R r0 r1 radd rmul glob x)) = r1 ->
    pa_apply_w R r0 r1 radd rmul w (pa_left_glob R glob) (pa_left_locals R r0 radd rmul Ts A) x
    = happly r0 r1 radd rmul A (pa_apply_w R r0 r1 radd rmul w glob Ts x).
  Proof. exact (polyaffine_left_compose_apply_lemma R r0 r1 radd rmul rsub ropp Rth). Qed.
End Signs.
Print Assumptions sign_fix_factors_proper_affine.
Print Assumptions sign_fix_factors_proper_rigid.
Print Assumptions polyaffine_compose_apply.
Print Assumptions rotations_closed.
Print Assumptions rigid_compose_closed.
Print Assumptions similarity_factor_det_partial.
Print Assumptions polyaffine_left_compose_apply.

(* (7) Over the real numbers: rotation_vec2mat(r) is a proper rotation
   (R^T R = R R^T = I, det R = 1) whenever theta = |r| exceeds the small-angle
   threshold (Rodrigues branch, and the identity above MAX_ANGLE). *)
Theorem rotation_vec2mat_is_rotation :
  forall small_angle max_angle r1 r2 r3 : R,
  (0 <= small_angle)%R ->
  (small_angle < sqrt (r1 * r1 + r2 * r2 + r3 * r3))%R ->
  is_rotation (vec2mat_R small_angle max_angle r1 r2 r3).
Proof. exact vec2mat_rotation_lemma. Qed.
Print Assumptions rotation_vec2mat_is_rotation.

(* (13) The small-angle branch (theta <= SMALL_ANGLE) is the Taylor matrix, which
   is NOT exactly orthogonal: its defect is exactly (t2^2/72 - t2^3/576) Sr^2
   with t2 = |r|^2, hence every entry of R^T R - I is at most |r|^6 / 72 in
   absolute value (for |r| <= 1e-30: below 1e-181, far under one ulp of 1).
   Partial: no statement about det, and real (not floating) arithmetic. *)
Theorem small_angle_branch_is_taylor :
  forall small_angle max_angle r1 r2 r3 : R,
  let theta := sqrt (r1 * r1 + r2 * r2 + r3 * r3)%R in
  ~ (max_angle < theta)%R -> ~ (small_angle < theta)%R ->
  vec2mat_R small_angle max_angle r1 r2 r3 = taylor_mat (theta * theta)%R r1 r2 r3.
Proof. exact vec2mat_small_branch. Qed.
Print Assumptions small_angle_branch_is_taylor.

Theorem small_angle_branch_defect_partial :
  forall r1 r2 r3 : R,
  let t2 := (r1 * r1 + r2 * r2 + r3 * r3)%R in
  let M := taylor_mat t2 r1 r2 r3 in
  let Sr2 := Rmm 3 (skew R 0%R Ropp r1 r2 r3) (skew R 0%R Ropp r1 r2 r3) in
  Rmm 3 (Rtrans M) M = Rmadd Rid3 (Rmsmul (t2 * t2 / 72 - t2 * t2 * t2 / 576)%R Sr2) /\
  ((t2 <= 1)%R ->
   Forall (Forall (fun x => (Rabs x <= t2 * t2 * t2 / 72)%R))
          (Rmsmul (t2 * t2 / 72 - t2 * t2 * t2 / 576)%R Sr2)).
Proof.
  intros r1 r2 r3. split; [apply taylor_defect_lemma|apply taylor_defect_bound_lemma].
Qed.
Print Assumptions small_angle_branch_defect_partial.

(* (14) Transform.compose on plain callables (lambda body translated from
   transform.py): the composed transform applies `other` then `self`, and -
   being a new function of the two operands only - composing longer chains
   re-using intermediate results is associative: (f o (g o h)) = ((f o g) o h)
   = f (g (h x)) and an intermediate (g o h) keeps meaning g (h x). *)
Theorem generic_compose_apply :
  forall (A : Type) (f g : A -> A) (x : A), generic_compose f g x = f (g x).
Proof. intros A f g x. reflexivity. Qed.
Print Assumptions generic_compose_apply.

Theorem generic_compose_chain :
  forall (A : Type) (f g h k : A -> A) (x : A),
  let gh := generic_compose g h in
  generic_compose f gh x = f (g (h x)) /\ generic_compose k gh x = k (g (h x)) /\ gh x = g (h x) /\
  generic_compose (generic_compose f g) h x = f (g (h x)).
Proof. intros A f g h k x. repeat split. Qed.
Print Assumptions generic_compose_chain.

(* (15) ChainTransform.apply with ARBITRARY parts (PolyAffine, generic
   callables, affine objects - anything whose compose means "other then
   self"): the chain expression translated from the source maps a point as
   post (optimizable (pre x)). *)
Theorem chain_apply_any_transform :
  forall (A : Type) (pre opt post : A -> A) (x : A),
  cfun (fun_env pre opt post) src_chain x = post (opt (pre x)).
Proof. intros A pre opt post x. reflexivity. Qed.
Print Assumptions chain_apply_any_transform.

(* ---------------------------------------------------------------- Z instance: non-vacuity *)
Definition zneg (x : Z) : bool := Z.ltb x 0.
Definition zfrom := from_matrix44 Z 0%Z 1%Z Z.add Z.mul Z.sub Z.opp Z.div zneg.
Definition zas := as_affine Z 0%Z 1%Z Z.add Z.mul Z.opp.
Definition zcompose := compose Z 0%Z 1%Z Z.add Z.mul Z.sub Z.opp Z.div zneg.
Definition zo : fx_oracle Z := Build_fx_oracle [] [] [] 1%Z.
Definition zI3 : list (list Z) := [[1; 0; 0]; [0; 1; 0]; [0; 0; 1]]%Z.

(* the former finding from_matrix44/stale-direct-flag (repaired in /repo 37323b5): an object that held a
   reflection (_direct = False) and is given the identity now describes the identity *)
Example from_matrix44_reused_object_concrete :
  option_map (fun x => (x_direct x, zas x)) (zfrom "Rigid"%string false zo (mid 0%Z 1%Z 4))
  = Some (true, mid 0%Z 1%Z 4).
Proof. vm_compute. reflexivity. Qed.

(* the selection table itself (36 pairs), as computed from the source tables *)
Example compose_class_table :
  map (fun s => map (fun o => compose_class s o) class_names) class_names =
  [ [Chosen "Affine"; Chosen "Affine"; Chosen "Affine"; Chosen "Affine"; Chosen "Affine"; Chosen "Affine"];
    [Chosen "Affine"; Chosen "Affine2D"; Chosen "Affine"; Chosen "Affine2D"; Chosen "Affine"; Chosen "Affine2D"];
    [Chosen "Affine"; Chosen "Affine"; Chosen "Rigid"; Chosen "Rigid"; Chosen "Similarity"; Chosen "Affine"];
    [Chosen "Affine"; Chosen "Affine2D"; Chosen "Rigid"; Chosen "Rigid2D"; Chosen "Similarity"; Chosen "Similarity2D"];
    [Chosen "Affine"; Chosen "Affine"; Chosen "Similarity"; Chosen "Similarity"; Chosen "Similarity"; Chosen "Similarity"];
    [Chosen "Affine"; Chosen "Affine2D"; Chosen "Affine"; Chosen "Similarity2D"; Chosen "Similarity"; Chosen "Similarity2D"] ]%string.
Proof. vm_compute. reflexivity. Qed.

(* non-vacuity: Rigid (quarter turn about z, translation (1,2,3)) composed onto
   Similarity (scale 2, reflected): class Similarity, matrix = product *)
Example compose_concrete :
  let a := Build_xf "Rigid"%string [1; 2; 3]%Z [[0; -1; 0]; [1; 0; 0]; [0; 0; 1]]%Z [1; 1; 1]%Z zI3 true in
  let b := Build_xf "Similarity"%string [0; 0; 5]%Z zI3 [2; 2; 2]%Z zI3 false in
  option_map (fun c => (x_class c, x_direct c, zas c)) (zcompose a b (Build_fx_oracle [] [] [] 2%Z))
  = Some ("Similarity"%string, false,
          [[0; 2; 0; 1]; [-2; 0; 0; 2]; [0; 0; -2; 8]; [0; 0; 0; 1]]%Z).
Proof. vm_compute. reflexivity. Qed.

(* non-vacuity of the sign fixes: a reflection diag(1,2,-3) through the SVD
   variant with U = I, s = (1,2,3), V = diag(1,1,-1): _direct becomes False,
   Q = -V = diag(-1,-1,1) is proper, as_affine gives the matrix back *)
Example from_matrix44_reflection_concrete :
  let M := [[1; 0; 0; 4]; [0; 2; 0; 5]; [0; 0; -3; 6]; [0; 0; 0; 1]]%Z in
  let o := Build_fx_oracle zI3 [1; 2; 3]%Z [[1; 0; 0]; [0; 1; 0]; [0; 0; -1]]%Z 1%Z in
  option_map (fun x => (x_direct x, x_Q x, zas x)) (zfrom "Affine"%string true o M)
  = Some (false, [[-1; 0; 0]; [0; -1; 0]; [0; 0; 1]]%Z, M).
Proof. vm_compute. reflexivity. Qed.

(* non-vacuity of is_rot3 / rotations_closed: a quarter turn about z *)
Example quarter_turn_is_rot3 :
  is_rot3 Z 0%Z 1%Z Z.add Z.mul Z.sub [[0; -1; 0]; [1; 0; 0]; [0; 0; 1]]%Z.
Proof.
  split; [split; [reflexivity|repeat constructor]|]. repeat split; vm_compute; reflexivity.
Qed.

(* ---------------------------------------------------------------- clipping (round 6) *)
(* (17) `threshold(x, th)` as translated from the source (src_threshold), for every bound th >= 0 and every
   value x: the result lies in [-th, th]; it is x itself exactly when x is in that range, th above it and -th
   below it; it is a nearest point of the range, odd in x (so a reflected parameter clips to the reflected
   value) and monotone. *)
Theorem threshold_clips :
  forall th x : Z, (0 <= th)%Z ->
  in_range th (src_threshold x th) /\
  (src_threshold x th = x <-> in_range th x) /\
  ((th < x)%Z -> src_threshold x th = th) /\
  ((x < - th)%Z -> src_threshold x th = (- th)%Z) /\
  (forall y, in_range th y -> (Z.abs (src_threshold x th - x) <= Z.abs (y - x))%Z) /\
  src_threshold (- x) th = (- src_threshold x th)%Z /\
  (forall y, (x <= y)%Z -> (src_threshold x th <= src_threshold y th)%Z).
Proof. exact threshold_clips_lemma. Qed.
Print Assumptions threshold_clips.

(* (18) the same on arrays of ANY length (numpy broadcasting of the scalar bound; induction on the array):
   length kept, every entry in [-th, th], the array is returned unchanged exactly when all its entries are in
   range, clipping twice = clipping once, entry i is threshold of entry i. *)
Theorem clip_vec_clips :
  forall th v, (0 <= th)%Z ->
  length (clip_vec th v) = length v /\
  Forall (in_range th) (clip_vec th v) /\
  (clip_vec th v = v <-> Forall (in_range th) v) /\
  clip_vec th (clip_vec th v) = clip_vec th v /\
  (forall i, (i < length v)%nat -> nth i (clip_vec th v) 0%Z = src_threshold (nth i v 0%Z) th).
Proof. exact clip_vec_spec_lemma. Qed.
Print Assumptions clip_vec_clips.

Theorem clip_vec_reflects :
  forall th v, (0 <= th)%Z -> clip_vec th (map Z.opp v) = map Z.opp (clip_vec th v).
Proof. exact clip_vec_odd_lemma. Qed.
Print Assumptions clip_vec_reflects.

(* (19) to_matrix44 with the clip inside the model (translation slice, MAX_DIST and the threshold body all
   read from the source; the slot agrees with the one AffineClasses found for T[0:3, 3]): for every size,
   every linear part with 3 rows and every raw vector t long enough, the translation column of the result is
   the clipped slice t[0:3]; its entries are within MAX_DIST; and it equals t[0:3] - i.e. the matrix carries
   the translation parameters unchanged - exactly when they are within MAX_DIST.  This turns the former
   assumption "translations within MAX_DIST" into a stated boundary. *)
Theorem to_matrix44_translation_clipped :
  forall size rot dg tv t,
  length (eval_mexpr Z 0%Z Z.add Z.mul rot dg tv (lin_expr size)) = src_clip_trans_n ->
  (src_clip_trans_lo + src_clip_trans_n <= length t)%nat ->
  let col := trans_part Z 0%Z (zto_matrix44 size rot dg tv t) in
  let raw := zslice src_clip_trans_lo src_clip_trans_n t in
  col = clip_vec src_max_dist raw /\ length col = src_clip_trans_n /\
  Forall (in_range src_max_dist) col /\
  (col = raw <-> Forall (in_range src_max_dist) raw).
Proof. exact zto_matrix44_translation_lemma. Qed.
Print Assumptions to_matrix44_translation_clipped.

(* non-vacuity: a 6-vector with translations 3*MAX_DIST, -5, -2*MAX_DIST and no rotation: the matrix has
   translation column (MAX_DIST, -5, -MAX_DIST), with MAX_DIST as read from the source (1e10) *)
Example to_matrix44_clip_concrete :
  let d := src_max_dist in
  let t := [3 * d; -5; -2 * d; 0; 0; 0]%Z in
  zto_matrix44 6 (fun _ => zI3) (fun _ => zI3) (fun _ => 0%Z) t
  = [[1; 0; 0; d]; [0; 1; 0; -5]; [0; 0; 1; - d]; [0; 0; 0; 1]]%Z
  /\ (5 < d)%Z
  /\ ~ Forall (in_range src_max_dist) (zslice src_clip_trans_lo src_clip_trans_n t)
  /\ clip_vec 7 [-9; -7; 0; 7; 8]%Z = [-7; -7; 0; 7; 7]%Z.
Proof.
  split; [vm_compute; reflexivity|]. split; [vm_compute; reflexivity|]. split; [|vm_compute; reflexivity].
  intros H. inversion H as [|a b Ha Hb]; subst. vm_compute in Ha. destruct Ha as [_ Ha]. apply Ha. reflexivity.
Qed.

(* ---------------------------------------------------------------- compose / inv chains of any finite length (round 6) *)
Section Chains.
  Variable R : Type.
  Variables (r0 r1 : R) (radd rmul rsub : R -> R -> R) (ropp : R -> R).
  Variable rdiv : R -> R -> R.
  Variable rneg : R -> bool.
  Hypothesis Rth : ring_theory r0 r1 radd rmul rsub ropp (@eq R).
  Hypothesis rdiv_mul : forall a b, b <> r0 -> rmul (rdiv a b) b = a.

  Local Notation apply := (apply R r0 r1 radd rmul ropp).
  Local Notation as_affine := (as_affine R r0 r1 radd rmul ropp).
  Local Notation wf_t := (wf_t R r0 r1 radd rmul ropp).
  Local Notation compose_right := (compose_right R r0 r1 radd rmul rsub ropp rdiv rneg).
  Local Notation right_contract := (right_contract R r0 r1 radd rmul rsub ropp rdiv rneg).
  Local Notation seq_apply := (seq_apply R r0 r1 radd rmul ropp).
  Local Notation mat_chain := (mat_chain R r0 r1 radd rmul ropp).

  (* (20) "all finite compose chains": for a chain t1.compose(t2.compose(... tn.compose(z))) of ANY length
     (the nesting of ChainTransform.apply, n = 2 there) over any mix of the six classes, with every
     factorisation asked of SciPy along the way satisfying its contract: no compose fails, the result is
     well formed, its matrix is the product of the matrices and applying it to a point equals applying z,
     then tn, ..., then t1.  By induction on the chain over compose_apply. *)
  Theorem compose_chain_apply :
    forall (ts : list (xf R)) (z : xf R) os, Forall wf_t ts -> wf_t z -> right_contract ts z os ->
    exists c, compose_right ts z os = Some c /\ wf_t c /\
              as_affine c = mat_chain ts z /\
              forall p, length p = 3 -> apply c p = seq_apply ts (apply z p).
  Proof. exact (compose_right_apply_lemma R r0 r1 radd rmul rsub ropp rdiv rneg Rth rdiv_mul). Qed.

  (* (21) "compose/inv chains": the inverse of a whole chain (given the two-sided inverse of the chain's
     matrix - the spl.inv oracle - and the factorisation contract of the final from_matrix44) keeps the
     chain's class and maps sequentially transformed points back, both ways. *)
  Theorem compose_chain_inv_apply :
    forall (ts : list (xf R)) (z : xf R) os Minv oi, Forall wf_t ts -> wf_t z -> right_contract ts z os ->
    wf_aff r0 r1 3 3 Minv ->
    mm r0 radd rmul 4 Minv (mat_chain ts z) = mid r0 r1 4 ->
    mm r0 radd rmul 4 (mat_chain ts z) Minv = mid r0 r1 4 ->
    (forall c, compose_right ts z os = Some c -> fx_contract R r0 radd rmul (x_class c) oi Minv) ->
    exists c ci, compose_right ts z os = Some c /\
                 inv R r0 r1 radd rmul rsub ropp rdiv rneg c Minv oi = Some ci /\ x_class ci = x_class c /\
                 forall p, length p = 3 ->
                   apply ci (seq_apply ts (apply z p)) = p /\ seq_apply ts (apply z (apply ci p)) = p.
  Proof. exact (compose_right_inv_lemma R r0 r1 radd rmul rsub ropp rdiv rneg Rth rdiv_mul). Qed.
End Chains.
Print Assumptions compose_chain_apply.
Print Assumptions compose_chain_inv_apply.

(* non-vacuity: Rigid2D (shift) . (Rigid (quarter turn) . Similarity (scale 2, reflected)) - a chain of
   length 3 through two class selections (Rigid.Similarity -> Similarity, Rigid2D.Similarity -> Similarity) *)
Example compose_chain_concrete :
  let a := Build_xf "Rigid"%string [1; 2; 3]%Z [[0; -1; 0]; [1; 0; 0]; [0; 0; 1]]%Z [1; 1; 1]%Z zI3 true in
  let b := Build_xf "Similarity"%string [0; 0; 5]%Z zI3 [2; 2; 2]%Z zI3 false in
  let s := Build_xf "Rigid2D"%string [10; 20; 0]%Z zI3 [1; 1; 1]%Z zI3 true in
  let o := Build_fx_oracle [] [] [] 2%Z in
  option_map (fun c => (x_class c, x_direct c, zas c))
             (compose_right Z 0%Z 1%Z Z.add Z.mul Z.sub Z.opp Z.div zneg [s; a] b [o; o])
  = Some ("Similarity"%string, false,
          [[0; 2; 0; 11]; [-2; 0; 0; 22]; [0; 0; -2; 8]; [0; 0; 0; 1]]%Z)
  /\ mat_chain Z 0%Z 1%Z Z.add Z.mul Z.opp [s; a] b
     = [[0; 2; 0; 11]; [-2; 0; 0; 22]; [0; 0; -2; 8]; [0; 0; 0; 1]]%Z.
Proof. split; vm_compute; reflexivity. Qed.
