(* C08 - class closure: the product of two proper rotations is a proper
   rotation over any commutative ring, and the matrix Rigid.from_matrix44
   hands to rotation_mat2vec inside compose is that product; Similarity
   factor determinant. *)
From Coq Require Import String.
From Coq Require Import List Arith Bool Lia Ring.
From NV.Lib Require Import RingMat C08Base.
From NV.Generated Require Import AffineClasses.
From NV.C08 Require Import Model Proofs Proofs2.
Import ListNotations.
Open Scope list_scope.

Section Proofs3.
  Variable R : Type.
  Variables (r0 r1 : R) (radd rmul rsub : R -> R -> R) (ropp : R -> R).
  Variable rdiv : R -> R -> R.
  Variable rneg : R -> bool.
  Hypothesis Rth : ring_theory r0 r1 radd rmul rsub ropp (@eq R).
  Add Ring Rr3 : Rth.
  Hypothesis rneg_one : rneg r1 = false.
  Hypothesis rneg_mone : rneg (ropp r1) = true.

  Local Notation mat := (list (list R)).
  Local Notation Mm := (mm r0 radd rmul).
  Local Notation Mid := (mid r0 r1).
  Local Notation Mt := (mtrans r0 3).
  Local Notation WfAff := (wf_aff r0 r1).
  Local Notation det3 := (det3 R r0 radd rmul rsub).
  Local Notation mneg := (mneg R ropp).
  Local Notation lin_part := (lin_part R).
  Local Notation as_affine := (as_affine R r0 r1 radd rmul ropp).
  Local Notation compose_matrix := (compose_matrix R r0 r1 radd rmul ropp).
  Local Notation compose := (compose R r0 r1 radd rmul rsub ropp rdiv rneg).
  Local Notation from_matrix44 := (from_matrix44 R r0 r1 radd rmul rsub ropp rdiv rneg).

  Ltac list_eq :=
    repeat match goal with
           | |- cons _ _ = cons _ _ => apply f_equal2
           | |- nil = nil => reflexivity
           end.
  Ltac explicit A H :=
    let a := fresh "a" in let b := fresh "b" in let c := fresh "c" in
    let d := fresh "d" in let e := fresh "e" in let f := fresh "f" in
    let g := fresh "g" in let h := fresh "h" in let i := fresh "i" in
    destruct (wf33_inv R A H) as (a & b & c & d & e & f & g & h & i & ->).

  Lemma wf33_explicit a b c d e f g h i : wf_mat 3 3 [[a; b; c]; [d; e; f]; [g; h; i : R]].
  Proof. split; [reflexivity|repeat constructor]. Qed.

  Lemma mm_wf33 A B : wf_mat 3 3 A -> wf_mat 3 3 B -> wf_mat 3 3 (Mm 3 A B).
  Proof. intros HA HB. explicit A HA. explicit B HB. cbn. apply wf33_explicit. Qed.

  Lemma mt_wf33 A : wf_mat 3 3 A -> wf_mat 3 3 (Mt A).
  Proof. intros HA. explicit A HA. cbn. apply wf33_explicit. Qed.

  Lemma mm_assoc33 A B C : wf_mat 3 3 A -> wf_mat 3 3 B -> wf_mat 3 3 C ->
    Mm 3 (Mm 3 A B) C = Mm 3 A (Mm 3 B C).
  Proof. intros HA HB HC. explicit A HA. explicit B HB. explicit C HC. cbn. list_eq; ring. Qed.

  Lemma mt_mm33 A B : wf_mat 3 3 A -> wf_mat 3 3 B -> Mt (Mm 3 A B) = Mm 3 (Mt B) (Mt A).
  Proof. intros HA HB. explicit A HA. explicit B HB. cbn. list_eq; ring. Qed.

  Lemma mm_id_l33 A : wf_mat 3 3 A -> Mm 3 (Mid 3) A = A.
  Proof. intros HA. explicit A HA. cbn. list_eq; ring. Qed.

  Lemma mm_id_r33 A : wf_mat 3 3 A -> Mm 3 A (Mid 3) = A.
  Proof. intros HA. explicit A HA. cbn. list_eq; ring. Qed.

  Lemma det3_mm A B : wf_mat 3 3 A -> wf_mat 3 3 B -> det3 (Mm 3 A B) = rmul (det3 A) (det3 B).
  Proof. intros HA HB. explicit A HA. explicit B HB. cbn. ring. Qed.

  Lemma mneg_mneg A : wf_mat 3 3 A -> mneg (mneg A) = A.
  Proof. intros HA. explicit A HA. cbn. list_eq; ring. Qed.

  (* proper rotation: orthogonal on both sides, determinant one *)
  Definition is_rot3 (A : mat) : Prop :=
    wf_mat 3 3 A /\ Mm 3 (Mt A) A = Mid 3 /\ Mm 3 A (Mt A) = Mid 3 /\ det3 A = r1.

  Lemma rotations_closed_lemma A B : is_rot3 A -> is_rot3 B -> is_rot3 (Mm 3 A B).
  Proof.
    intros (WA & HA1 & HA2 & DA) (WB & HB1 & HB2 & DB).
    pose proof (mt_wf33 A WA) as WAt. pose proof (mt_wf33 B WB) as WBt.
    pose proof (mm_wf33 A B WA WB) as WAB. pose proof (mm_wf33 (Mt B) (Mt A) WBt WAt) as WBtAt.
    split; [exact WAB|]. split; [|split].
    - (* (AB)^T (AB) = B^T ((A^T A) B) *)
      rewrite mt_mm33 by assumption.
      rewrite mm_assoc33 by assumption.
      rewrite <- (mm_assoc33 (Mt A) A B) by assumption.
      rewrite HA1, mm_id_l33 by assumption. exact HB1.
    - (* (AB) (AB)^T = A ((B B^T) A^T) *)
      rewrite mt_mm33 by assumption.
      rewrite mm_assoc33 by assumption.
      rewrite <- (mm_assoc33 B (Mt B) (Mt A)) by assumption.
      rewrite HB2, mm_id_l33 by assumption. exact HA2.
    - rewrite det3_mm by assumption. rewrite DA, DB. ring.
  Qed.

  (* a transform whose scales are 1 and whose pre-rotation is the identity (Rigid, Rigid2D) *)
  Definition rigid_shaped (x : xf R) : Prop :=
    length (x_t x) = 3 /\ wf_mat 3 3 (x_R x) /\ x_S x = [r1; r1; r1] /\ x_Q x = Mid 3.

  Lemma rigid_compose_lin a b :
    rigid_shaped a -> rigid_shaped b ->
    WfAff 3 3 (compose_matrix a b) /\
    lin_part (compose_matrix a b) =
    (if Bool.eqb (x_direct a) (x_direct b) then Mm 3 (x_R a) (x_R b) else mneg (Mm 3 (x_R a) (x_R b))).
  Proof.
    intros (Hta & WRa & HSa & HQa) (Htb & WRb & HSb & HQb).
    destruct a as [ka ta Ra Sa Qa da]. destruct b as [kb tb Rb Sb Qb db]. cbn in *. subst.
    explicit Ra WRa. explicit Rb WRb.
    destruct (len3_inv R ta Hta) as (u0 & u1 & u2 & ->). destruct (len3_inv R tb Htb) as (w0 & w1 & w2 & ->).
    destruct da, db; cbn; (split; [|list_eq; ring]).
    all: match goal with |- WfAff 3 3 ?M =>
           exists (removelast M); cbn; split; [|split; [reflexivity|repeat constructor]] end.
    all: list_eq; ring.
  Qed.

  (* class closure for the rigid classes: inside a.compose(b), Rigid.from_matrix44
     hands rotation_mat2vec exactly R_a R_b, a proper rotation; _direct is the
     product of the two flags *)
  Lemma rigid_compose_closed_lemma k prior o a b c :
    In k class_names -> lookup k src_fx_owner = Some "Rigid"%string ->
    rigid_shaped a -> rigid_shaped b -> is_rot3 (x_R a) -> is_rot3 (x_R b) ->
    from_matrix44 k prior o (compose_matrix a b) = Some c ->
    x_R c = Mm 3 (x_R a) (x_R b) /\ is_rot3 (x_R c) /\ rigid_shaped c /\
    x_direct c = Bool.eqb (x_direct a) (x_direct b).
  Proof.
    intros Hk Hown Sa Sb Ra Rb Hc.
    destruct (rigid_compose_lin a b Sa Sb) as (WM & HL).
    pose proof (rotations_closed_lemma _ _ Ra Rb) as RP.
    set (P := Mm 3 (x_R a) (x_R b)) in *. destruct RP as (WP & HP1 & HP2 & DP).
    destruct (wf_aff33_inv R r0 r1 _ WM) as (m1 & m2 & m3 & m4 & m5 & m6 & m7 & m8 & m9 & t0 & t1 & t2 & EM).
    rewrite EM in Hc, HL.
    remember (lin_part [[m1; m2; m3; t0]; [m4; m5; m6; t1]; [m7; m8; m9; t2]; [r0; r0; r0; r1]]) as A eqn:EA.
    cbn in Hk. repeat (destruct Hk as [<-|Hk]); try contradiction; cbn in Hown; try discriminate Hown.
    all: unfold Model.from_matrix44 in Hc; cbn -[Model.det3 Model.mneg Model.lin_part] in Hc; rewrite <- EA in Hc.
    all: rewrite HL in Hc.
    all: destruct (Bool.eqb (x_direct a) (x_direct b)).
    all: repeat (first [ rewrite (det3_mneg R r0 r1 radd rmul rsub ropp Rth) in Hc by assumption
                       | rewrite DP in Hc | rewrite rneg_one in Hc | rewrite rneg_mone in Hc ];
                 cbn -[Model.det3 Model.mneg Model.lin_part] in Hc).
    all: injection Hc as <-; cbn -[Model.det3 Model.mneg Model.lin_part].
    all: rewrite ?mneg_mneg by assumption.
    all: repeat split; try assumption; try reflexivity.
    all: cbn [x_R x_S x_Q x_t x_direct]; try apply WP; try assumption; try reflexivity.
  Qed.

  (* ------------------------------------------------------------ Similarity: det of the matrix handed to rotation_mat2vec *)
  Hypothesis rdiv_mul : forall a b, b <> r0 -> rmul (rdiv a b) b = a.

  Lemma det3_mdivs A c : wf_mat 3 3 A -> c <> r0 ->
    rmul (det3 (mdivs R rdiv A c)) (rmul c (rmul c c)) = det3 A.
  Proof.
    intros HA Hc. explicit A HA. cbn.
    repeat match goal with
           | |- context [rdiv ?x c] =>
             let q := fresh "q" in let H := fresh "Hq" in
             pose proof (rdiv_mul x c Hc) as H; set (q := rdiv x c) in *; clearbody q
           end.
    subst. ring.
  Qed.

  (* Similarity / Similarity2D: with s^3 = |det A| (the cube-root contract), s^3 cancellable, the matrix
     A'/s handed to rotation_mat2vec has determinant one and _direct is False exactly when det A < 0 *)
  Lemma similarity_factor_det_lemma k prior o M x :
    In k class_names -> lookup k src_fx_owner = Some "Similarity"%string ->
    WfAff 3 3 M -> o_cs R o <> r0 ->
    (forall a b, b <> r0 -> rmul a b = b -> a = r1) ->
    rmul (o_cs R o) (rmul (o_cs R o) (o_cs R o)) <> r0 ->
    rmul (o_cs R o) (rmul (o_cs R o) (o_cs R o))
      = (if rneg (det3 (lin_part M)) then ropp (det3 (lin_part M)) else det3 (lin_part M)) ->
    from_matrix44 k prior o M = Some x ->
    det3 (x_R x) = r1 /\ x_direct x = negb (rneg (det3 (lin_part M))).
  Proof.
    intros Hk Hown HM Hcs Hcancel Hc3 Hcube Hx. destruct o as [U s V cs]. cbn [o_cs] in *.
    destruct (wf_aff33_inv R r0 r1 M HM) as (a & b & c & d & e & f & g & h & i & t0 & t1 & t2 & ->).
    assert (WA : wf_mat 3 3 (lin_part [[a; b; c; t0]; [d; e; f; t1]; [g; h; i; t2]; [r0; r0; r0; r1]])).
    { cbn. apply wf33_explicit. }
    remember (lin_part [[a; b; c; t0]; [d; e; f; t1]; [g; h; i; t2]; [r0; r0; r0; r1]]) as A eqn:EA.
    cbn in Hk. repeat (destruct Hk as [<-|Hk]); try contradiction; cbn in Hown; try discriminate Hown.
    all: unfold Model.from_matrix44 in Hx; cbn -[Model.det3 Model.mneg Model.lin_part Model.mdivs] in Hx;
      rewrite <- EA in Hx.
    all: destruct (rneg (det3 A)) eqn:En; cbn -[Model.det3 Model.mneg Model.lin_part Model.mdivs] in Hx.
    all: injection Hx as <-; cbn -[Model.det3 Model.mneg Model.lin_part Model.mdivs].
    all: split; [|reflexivity].
    all: apply (Hcancel _ (rmul cs (rmul cs cs)) Hc3).
    all: rewrite det3_mdivs by (try apply mneg_wf; assumption).
    all: rewrite ?(det3_mneg R r0 r1 radd rmul rsub ropp Rth) by assumption.
    all: symmetry; exact Hcube.
  Qed.

  (* ------------------------------------------------------------ PolyAffine.left_compose *)
  (* kernel as a normalised weighted sum: T(y) = sum_i w_i(y) T_i y, the weights are an oracle function of y *)
  Local Notation vec := (list R).
  Local Notation Happly := (happly r0 r1 radd rmul).
  Fixpoint wsum (ws : vec) (vs : list vec) : vec :=
    match ws, vs with
    | w :: ws', v :: vs' => vadd radd (vscale rmul w v) (wsum ws' vs')
    | _, _ => vzero r0 3
    end.
  Fixpoint vtotal (ws : vec) : R := match ws with [] => r0 | w :: ws' => radd w (vtotal ws') end.
  Definition pa_kernel (w : vec -> vec) (Ts : list mat) (y : vec) : vec :=
    wsum (w y) (map (fun T => Happly T y) Ts).
  Definition pa_first (glob : option mat) (x : vec) : vec :=
    match glob with None => x | Some G => Happly G x end.
  Definition pa_apply_w (w : vec -> vec) (glob : option mat) (Ts : list mat) (x : vec) : vec :=
    pa_kernel w Ts (pa_first glob x).
  (* left_compose(other = A): shapes translated from the source *)
  Definition pa_left_glob (glob : option mat) : option mat := if src_pa_left_keeps_glob then glob else None.
  Definition pa_left_locals (Ts : list mat) (A : mat) : list mat :=
    map (fun T => if src_pa_left_other_left then Mm 4 A T else Mm 4 T A) Ts.

  Lemma wsum_affine a b c d e f g h i t0 t1 t2 ws vs :
    let A := [[a; b; c; t0]; [d; e; f; t1]; [g; h; i; t2]; [r0; r0; r0; r1]] in
    Forall (fun v => length v = 3) vs -> length ws = length vs ->
    exists p q r, wsum ws vs = [p; q; r] /\
      wsum ws (map (Happly A) vs) =
      [radd (radd (radd (rmul a p) (rmul b q)) (rmul c r)) (rmul (vtotal ws) t0);
       radd (radd (radd (rmul d p) (rmul e q)) (rmul f r)) (rmul (vtotal ws) t1);
       radd (radd (radd (rmul g p) (rmul h q)) (rmul i r)) (rmul (vtotal ws) t2)].
  Proof.
    intros A Hv. revert ws. induction Hv as [|v vs Hl Hvs IH]; intros ws Hlen.
    - destruct ws; [|discriminate]. exists r0, r0, r0. split; [reflexivity|]. cbn. list_eq; ring.
    - destruct ws as [|w ws]; [discriminate|]. injection Hlen as Hlen.
      destruct (IH ws Hlen) as (p & q & r & E1 & E2).
      destruct (len3_inv R v Hl) as (x & y & z & ->).
      exists (radd (rmul w x) p), (radd (rmul w y) q), (radd (rmul w z) r). split.
      + cbn [wsum]. rewrite E1. reflexivity.
      + cbn [map wsum]. rewrite E2. cbn. list_eq; ring.
  Qed.

  Lemma polyaffine_left_compose_apply_lemma (w : vec -> vec) glob Ts A x :
    WfAff 3 3 A -> Forall (WfAff 3 3) Ts -> (forall G, glob = Some G -> WfAff 3 3 G) -> length x = 3 ->
    length (w (pa_first glob x)) = length Ts -> vtotal (w (pa_first glob x)) = r1 ->
    pa_apply_w w (pa_left_glob glob) (pa_left_locals Ts A) x = Happly A (pa_apply_w w glob Ts x).
  Proof.
    intros HA HT HG Hx Hlen Hsum.
    unfold pa_apply_w, pa_left_glob, pa_left_locals, src_pa_left_keeps_glob, src_pa_left_other_left, pa_kernel.
    set (y := pa_first glob x) in *.
    assert (Hy : length y = 3).
    { unfold y, pa_first. destruct glob as [G|]; [|exact Hx].
      apply (happly_length R r0 r1 radd rmul 3 3). now apply HG. }
    rewrite map_map.
    assert (E : map (fun T => Happly (Mm 4 A T) y) Ts = map (Happly A) (map (fun T => Happly T y) Ts)).
    { rewrite map_map. apply map_ext_in. intros T HTin. rewrite Forall_forall in HT.
      now apply (happly_mm R r0 r1 radd rmul rsub ropp Rth 3 3 3); [|apply HT|]. }
    rewrite E.
    destruct (wf_aff33_inv R r0 r1 A HA) as (a & b & c & d & e & f & g & h & i & t0 & t1 & t2 & ->).
    assert (Hv : Forall (fun v => length v = 3) (map (fun T => Happly T y) Ts)).
    { apply Forall_forall. intros v Hin. apply in_map_iff in Hin. destruct Hin as (T & <- & HTin).
      rewrite Forall_forall in HT. apply (happly_length R r0 r1 radd rmul 3 3). now apply HT. }
    assert (Hl : length (w y) = length (map (fun T => Happly T y) Ts)) by (now rewrite map_length).
    destruct (wsum_affine a b c d e f g h i t0 t1 t2 _ _ Hv Hl) as (p & q & r & E1 & E2).
    rewrite E2, E1, Hsum. cbn. list_eq; ring.
  Qed.
End Proofs3.
