(* C08 - determinant facts about the sign fixes of from_matrix44, and the
   PolyAffine / generic-callable composition bookkeeping. *)
From Coq Require Import String.
From Coq Require Import List Arith Bool Lia Ring.
From NV.Lib Require Import RingMat C08Base.
From NV.Generated Require Import AffineClasses.
From NV.C08 Require Import Model Proofs.
Import ListNotations.
Open Scope list_scope.

Section Proofs2.
  Variable R : Type.
  Variables (r0 r1 : R) (radd rmul rsub : R -> R -> R) (ropp : R -> R).
  Variable rdiv : R -> R -> R.
  Variable rneg : R -> bool.
  Hypothesis Rth : ring_theory r0 r1 radd rmul rsub ropp (@eq R).
  Add Ring Rr2 : Rth.
  (* the sign test on the two values a determinant of an orthogonal matrix can take *)
  Hypothesis rneg_one : rneg r1 = false.
  Hypothesis rneg_mone : rneg (ropp r1) = true.

  Local Notation mat := (list (list R)).
  Local Notation vec := (list R).
  Local Notation Mm := (mm r0 radd rmul).
  Local Notation Mid := (mid r0 r1).
  Local Notation Happly := (happly r0 r1 radd rmul).
  Local Notation WfAff := (wf_aff r0 r1).
  Local Notation from_matrix44 := (from_matrix44 R r0 r1 radd rmul rsub ropp rdiv rneg).
  Local Notation fx_contract := (fx_contract R r0 radd rmul).
  Local Notation det3 := (det3 R r0 radd rmul rsub).
  Local Notation mneg := (mneg R ropp).
  Local Notation lin_part := (lin_part R).

  Lemma det3_mneg A : wf_mat 3 3 A -> det3 (mneg A) = ropp (det3 A).
  Proof.
    intros H. destruct (wf33_inv R A H) as (a & b & c & d & e & f & g & h & i & ->). cbn. ring.
  Qed.

  Lemma mneg_wf A : wf_mat 3 3 A -> wf_mat 3 3 (mneg A).
  Proof.
    intros H. destruct (wf33_inv R A H) as (a & b & c & d & e & f & g & h & i & ->). cbn.
    split; [reflexivity|repeat constructor].
  Qed.

  Lemma det3_mid : det3 (Mid 3) = r1.
  Proof. cbn. ring. Qed.

  Lemma opp_opp_one : ropp (ropp r1) = r1.
  Proof. ring. Qed.

  Definition is_pm1 (x : R) : Prop := x = r1 \/ x = ropp r1.

  (* Affine / Affine2D: U, V orthogonal (det = +-1).  After the sign fixes both
     rotation_mat2vec arguments have determinant +1, and _direct is False
     exactly when det U * det V = -1 (= sign of det A). *)
  Lemma affine_factors_proper k prior o M x :
    In k class_names -> lookup k src_fx_owner = Some "Affine"%string ->
    fx_contract k o M -> is_pm1 (det3 (o_U R o)) -> is_pm1 (det3 (o_V R o)) ->
    from_matrix44 k prior o M = Some x ->
    det3 (x_R x) = r1 /\ det3 (x_Q x) = r1 /\
    x_direct x = negb (rneg (rmul (det3 (o_U R o)) (det3 (o_V R o)))).
  Proof.
    intros Hk Hown HC HU HV Hx. destruct o as [U s V cs]. cbn [o_U o_V] in *.
    cbn in Hk. repeat (destruct Hk as [<-|Hk]); try contradiction; cbn in Hown; try discriminate Hown.
    all: cbn in HC; destruct HC as (WU & WV & _ & _).
    all: unfold Model.from_matrix44 in Hx; cbn -[Model.det3 Model.mneg] in Hx.
    all: destruct HU as [HU|HU]; destruct HV as [HV|HV].
    all: repeat (first [ rewrite det3_mneg in Hx by assumption
                       | rewrite HU in Hx | rewrite HV in Hx
                       | rewrite opp_opp_one in Hx
                       | rewrite rneg_one in Hx | rewrite rneg_mone in Hx ];
                 cbn -[Model.det3 Model.mneg] in Hx).
    all: injection Hx as <-; cbn -[Model.det3 Model.mneg].
    all: rewrite ?det3_mneg by (repeat apply mneg_wf; assumption); rewrite ?HU, ?HV.
    all: repeat split; try ring.
    all: match goal with
         | |- _ = negb (rneg ?e) =>
           first [ replace e with r1 by ring; rewrite rneg_one; reflexivity
                 | replace e with (ropp r1) by ring; rewrite rneg_mone; reflexivity ]
         end.
  Qed.

  (* Rigid / Rigid2D: the linear part is orthogonal. *)
  Lemma rigid_factors_proper k prior o M x :
    In k class_names -> lookup k src_fx_owner = Some "Rigid"%string ->
    WfAff 3 3 M -> is_pm1 (det3 (lin_part M)) ->
    from_matrix44 k prior o M = Some x ->
    det3 (x_R x) = r1 /\ det3 (x_Q x) = r1 /\ x_direct x = negb (rneg (det3 (lin_part M))).
  Proof.
    intros Hk Hown HM HA Hx.
    destruct (wf_aff33_inv R r0 r1 M HM) as (a & b & c & d & e & f & g & h & i & t0 & t1 & t2 & ->).
    assert (WA : wf_mat 3 3 (lin_part [[a; b; c; t0]; [d; e; f; t1]; [g; h; i; t2]; [r0; r0; r0; r1]])).
    { cbn. split; [reflexivity|repeat constructor]. }
    remember (lin_part [[a; b; c; t0]; [d; e; f; t1]; [g; h; i; t2]; [r0; r0; r0; r1]]) as A eqn:EA.
    cbn in Hk. repeat (destruct Hk as [<-|Hk]); try contradiction; cbn in Hown; try discriminate Hown.
    all: unfold Model.from_matrix44 in Hx; cbn -[Model.det3 Model.mneg Model.lin_part] in Hx; rewrite <- EA in Hx.
    all: destruct HA as [HA|HA].
    all: repeat (first [ rewrite det3_mneg in Hx by assumption
                       | rewrite HA in Hx
                       | rewrite rneg_one in Hx | rewrite rneg_mone in Hx ];
                 cbn -[Model.det3 Model.mneg Model.lin_part] in Hx).
    all: injection Hx as <-; cbn -[Model.det3 Model.mneg Model.lin_part].
    all: rewrite ?det3_mneg by assumption; rewrite ?HA, ?rneg_one, ?rneg_mone.
    all: repeat split; try ring; try apply det3_mid.
  Qed.

  (* ------------------------------------------------------------ PolyAffine.compose, Transform.compose *)
  (* PolyAffine.apply = kernel after the optional global affine; compose(other)
     with an affine `other` only updates the global affine. *)
  Definition pa_apply (kernel : vec -> vec) (glob : option mat) (x : vec) : vec :=
    kernel (match glob with None => x | Some G => Happly G x end).
  Definition pa_compose_glob (glob : option mat) (A : mat) : option mat :=
    Some (match glob with None => A | Some G => if src_pa_compose_self_left then Mm 4 G A else Mm 4 A G end).

  Lemma polyaffine_compose_apply_lemma kernel glob A x :
    (forall G, glob = Some G -> WfAff 3 3 G) -> WfAff 3 3 A -> length x = 3 ->
    pa_apply kernel (pa_compose_glob glob A) x = pa_apply kernel glob (Happly A x).
  Proof.
    intros HG HA Hx. unfold pa_apply, pa_compose_glob, src_pa_compose_self_left. destruct glob as [G|]; [|reflexivity].
    f_equal. now apply (happly_mm R r0 r1 radd rmul rsub ropp Rth 3 3 3); [apply HG| |].
  Qed.
End Proofs2.
