(* C08 - rotation_vec2mat over the real numbers (Coq's axiomatic reals). *)
From Coq Require Import List Reals Lra Nsatz.
From NV.Lib Require Import RingMat.
From NV.C08 Require Import Model.
Import ListNotations.
Open Scope R_scope.

Definition Rrod := rodrigues R 0 1 Rplus Rmult Rminus Ropp.
Definition Rmm := mm 0 Rplus Rmult.
Definition Rdet3 := det3 R 0 Rplus Rmult Rminus.
Definition Rmadd := madd R Rplus.
Definition Rmsmul := msmul R Rmult.
Definition Rtrans := mtrans (R := R) 0 3.
Definition Rid3 : list (list R) := mid 0 1 3.

(* rotation_vec2mat(r) with the two thresholds as parameters (affine.py:73-86) *)
Definition vec2mat_R (small_angle max_angle r1 r2 r3 : R) : list (list R) :=
  let theta := sqrt (r1 * r1 + r2 * r2 + r3 * r3) in
  if Rlt_dec max_angle theta then Rid3
  else if Rlt_dec small_angle theta then
    Rrod (r1 / theta) (r2 / theta) (r3 / theta) (sin theta) (cos theta)
  else
    let Sr := skew R 0 Ropp r1 r2 r3 in
    let theta2 := theta * theta in
    Rmadd (Rmadd Rid3 (Rmsmul (1 - theta2 / 6) Sr)) (Rmsmul (/ 2 - theta2 / 24) (Rmm 3 Sr Sr)).

Definition is_rotation (M : list (list R)) : Prop :=
  Rmm 3 (Rtrans M) M = Rid3 /\ Rmm 3 M (Rtrans M) = Rid3 /\ Rdet3 M = 1.

Lemma rodrigues_rotation n1 n2 n3 s c :
  n1 * n1 + n2 * n2 + n3 * n3 = 1 -> s * s + c * c = 1 -> is_rotation (Rrod n1 n2 n3 s c).
Proof.
  intros Hn Hsc. unfold is_rotation, Rrod, Rmm, Rtrans, Rid3, Rdet3.
  cbn. repeat split.
  1,2: repeat match goal with
              | |- cons _ _ = cons _ _ => apply f_equal2
              | |- nil = nil => reflexivity
              end; nsatz.
  nsatz.
Qed.

Lemma identity_rotation : is_rotation Rid3.
Proof.
  unfold is_rotation, Rmm, Rtrans, Rid3, Rdet3. cbn. repeat split.
  1,2: repeat match goal with
              | |- cons _ _ = cons _ _ => apply f_equal2
              | |- nil = nil => reflexivity
              end; ring.
  ring.
Qed.

Lemma vec2mat_rotation_lemma small_angle max_angle r1 r2 r3 :
  0 <= small_angle ->
  small_angle < sqrt (r1 * r1 + r2 * r2 + r3 * r3) ->
  is_rotation (vec2mat_R small_angle max_angle r1 r2 r3).
Proof.
  intros Hs Ht. unfold vec2mat_R.
  set (theta := sqrt (r1 * r1 + r2 * r2 + r3 * r3)) in *.
  destruct (Rlt_dec max_angle theta) as [_|_]; [apply identity_rotation|].
  destruct (Rlt_dec small_angle theta) as [_|C]; [|contradiction].
  assert (Hpos : 0 < theta) by lra.
  assert (Hsq : theta * theta = r1 * r1 + r2 * r2 + r3 * r3).
  { unfold theta. apply sqrt_sqrt. nra. }
  apply rodrigues_rotation.
  - assert (theta <> 0) by lra.
    replace (r1 / theta * (r1 / theta) + r2 / theta * (r2 / theta) + r3 / theta * (r3 / theta))
      with ((r1 * r1 + r2 * r2 + r3 * r3) / (theta * theta)) by (field; assumption).
    rewrite <- Hsq. field. assumption.
  - pose proof (sin2_cos2 theta) as H. unfold Rsqr in H. exact H.
Qed.

(* ---------------------------------------------------------------- small-angle (Taylor) branch *)
(* R = I + (1 - t2/6) Sr + (1/2 - t2/24) Sr^2 with t2 = |r|^2 is NOT orthogonal; its exact defect is
   R^T R - I = (t2^2/72 - t2^3/576) Sr^2   (Sr^2 has entries bounded by t2). *)
Definition taylor_mat (t2 r1 r2 r3 : R) : list (list R) :=
  let Sr := skew R 0 Ropp r1 r2 r3 in
  Rmadd (Rmadd Rid3 (Rmsmul (1 - t2 / 6) Sr)) (Rmsmul (/ 2 - t2 / 24) (Rmm 3 Sr Sr)).

Lemma vec2mat_small_branch small_angle max_angle r1 r2 r3 :
  let theta := sqrt (r1 * r1 + r2 * r2 + r3 * r3) in
  ~ max_angle < theta -> ~ small_angle < theta ->
  vec2mat_R small_angle max_angle r1 r2 r3 = taylor_mat (theta * theta) r1 r2 r3.
Proof.
  intros theta H1 H2. unfold vec2mat_R. fold theta.
  destruct (Rlt_dec max_angle theta) as [C|_]; [contradiction|].
  destruct (Rlt_dec small_angle theta) as [C|_]; [contradiction|]. reflexivity.
Qed.

Lemma taylor_defect_lemma r1 r2 r3 :
  let t2 := r1 * r1 + r2 * r2 + r3 * r3 in
  let M := taylor_mat t2 r1 r2 r3 in
  let Sr := skew R 0 Ropp r1 r2 r3 in
  Rmm 3 (Rtrans M) M = Rmadd Rid3 (Rmsmul (t2 * t2 / 72 - t2 * t2 * t2 / 576) (Rmm 3 Sr Sr)).
Proof.
  unfold taylor_mat, Rmm, Rtrans, Rid3, Rmadd, Rmsmul. cbn.
  repeat match goal with
         | |- cons _ _ = cons _ _ => apply f_equal2
         | |- nil = nil => reflexivity
         end; field.
Qed.

(* consequence: every entry of R^T R - I is at most t2^3/72 in absolute value (0 <= t2 <= 1) *)
Lemma scaled_entry_bound c e t :
  0 <= c -> c <= t * t / 72 -> 0 <= t -> - t <= e <= t -> Rabs (c * e) <= t * t * t / 72.
Proof.
  intros Hc0 Hc1 Ht [He1 He2]. apply Rabs_le.
  assert (H1 : 0 <= c * (t - e)) by (apply Rmult_le_pos; lra).
  assert (H2 : 0 <= c * (t + e)) by (apply Rmult_le_pos; lra).
  assert (H3 : 0 <= (t * t / 72 - c) * t) by (apply Rmult_le_pos; lra).
  split; nra.
Qed.

Lemma taylor_defect_bound_lemma r1 r2 r3 :
  let t2 := r1 * r1 + r2 * r2 + r3 * r3 in
  t2 <= 1 ->
  Forall (Forall (fun x => Rabs x <= t2 * t2 * t2 / 72))
         (Rmsmul (t2 * t2 / 72 - t2 * t2 * t2 / 576) (Rmm 3 (skew R 0 Ropp r1 r2 r3) (skew R 0 Ropp r1 r2 r3))).
Proof.
  intros t2 Ht. unfold Rmsmul, Rmm. cbn.
  assert (H0 : 0 <= t2) by (unfold t2; nra).
  set (c := t2 * t2 / 72 - t2 * t2 * t2 / 576).
  assert (Hc0 : 0 <= c) by (unfold c; nra).
  assert (Hc1 : c <= t2 * t2 / 72) by (unfold c; nra).
  repeat (apply Forall_cons || apply Forall_nil).
  all: apply scaled_entry_bound; try assumption.
  all: unfold t2; split; nra.
Qed.
