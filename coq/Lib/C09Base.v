(* C09 base: the two C primitives the translated text of joint_histogram.c is
   expressed with - `(int)x` on a double (truncation toward zero) and `<` on
   doubles - over exact rationals, with their specifications; plus small list
   utilities (sums over Q, in-place add on a list). *)
From Coq Require Import ZArith QArith Qround List Bool Lia Lqa.
Import ListNotations.
Close Scope Q_scope.
Open Scope Z_scope.

(* (int)a : truncation toward zero (C99 6.3.1.4), a inside the int range *)
Definition c_int (a : Q) : Z := Z.quot (Qnum a) (Zpos (Qden a)).

Definition qltb (a b : Q) : bool := Z.ltb (Qnum a * Zpos (Qden b)) (Qnum b * Zpos (Qden a)).

Lemma qltb_spec : forall a b, qltb a b = true <-> (a < b)%Q.
Proof. intros a b. unfold qltb, Qlt. apply Z.ltb_lt. Qed.

Lemma qltb_false : forall a b, qltb a b = false <-> (b <= a)%Q.
Proof. intros a b. unfold qltb, Qle. rewrite Z.ltb_ge. reflexivity. Qed.

Lemma c_int_nonneg : forall a, (0 <= a)%Q -> c_int a = Qfloor a.
Proof.
  intros [n d] H. unfold c_int, Qfloor, Qle in *. cbn in *.
  apply Z.quot_div_nonneg; lia.
Qed.

Lemma c_int_nonpos : forall a, (a <= 0)%Q -> c_int a = Qceiling a.
Proof.
  intros [n d] H. unfold c_int, Qceiling, Qfloor, Qopp, Qle in *. cbn in *.
  assert (Hn : n <= 0) by lia.
  replace n with (- (- n)) at 1 by lia.
  rewrite Z.quot_opp_l by lia.
  f_equal. apply Z.quot_div_nonneg; lia.
Qed.

(* ---- sums and in-place addition over list Q *)
Fixpoint qsum (l : list Q) : Q :=
  match l with [] => 0%Q | x :: r => (x + qsum r)%Q end.

Fixpoint add_nat (k : nat) (w : Q) (H : list Q) : list Q :=
  match H with
  | [] => []
  | x :: r => match k with O => Qred (x + w) :: r | S k' => x :: add_nat k' w r end
  end.

(* H[k] += w ; an out-of-range k leaves H unchanged (in-range-ness of every
   index the model produces is a separate theorem) *)
Definition add_at (k : Z) (w : Q) (H : list Q) : list Q :=
  if (0 <=? k) && (k <? Z.of_nat (length H)) then add_nat (Z.to_nat k) w H else H.

Lemma add_nat_length : forall H k w, length (add_nat k w H) = length H.
Proof. induction H as [|x r IH]; intros [|k] w; cbn; auto. Qed.

Lemma add_at_length : forall k w H, length (add_at k w H) = length H.
Proof. intros k w H. unfold add_at. destruct (_ && _); auto using add_nat_length. Qed.

Lemma add_nat_sum : forall H k w, (k < length H)%nat -> (qsum (add_nat k w H) == qsum H + w)%Q.
Proof.
  induction H as [|x r IH]; intros [|k] w Hk; cbn [qsum add_nat length nth] in *; try lia.
  - rewrite Qred_correct. ring.
  - rewrite IH by lia. ring.
Qed.

Lemma add_at_sum : forall k w H, 0 <= k < Z.of_nat (length H) -> (qsum (add_at k w H) == qsum H + w)%Q.
Proof.
  intros k w H Hk. unfold add_at.
  replace ((0 <=? k) && (k <? Z.of_nat (length H))) with true by lia.
  apply add_nat_sum. lia.
Qed.

Lemma add_nat_nth_same : forall H k w, (k < length H)%nat -> (nth k (add_nat k w H) 0 == nth k H 0 + w)%Q.
Proof.
  induction H as [|x r IH]; intros [|k] w Hk; cbn [qsum add_nat length nth] in *; try lia.
  - apply Qred_correct.
  - apply IH. lia.
Qed.

Lemma add_nat_nth_other : forall H k m w, k <> m -> nth m (add_nat k w H) 0%Q = nth m H 0%Q.
Proof.
  induction H as [|x r IH]; intros [|k] [|m] w Hk; cbn in *; try congruence; auto.
Qed.

Definition getq (H : list Q) (k : Z) : Q := nth (Z.to_nat k) H 0%Q.

Lemma add_at_get_same : forall k w H, 0 <= k < Z.of_nat (length H) -> (getq (add_at k w H) k == getq H k + w)%Q.
Proof.
  intros k w H Hk. unfold add_at, getq.
  replace ((0 <=? k) && (k <? Z.of_nat (length H))) with true by lia.
  apply add_nat_nth_same. lia.
Qed.

Lemma add_at_get_other : forall k m w H, 0 <= m -> k <> m -> getq (add_at k w H) m = getq H m.
Proof.
  intros k m w H Hm Hk. unfold add_at, getq.
  destruct ((0 <=? k) && (k <? Z.of_nat (length H))) eqn:E; auto.
  apply add_nat_nth_other. lia.
Qed.

(* how HistogramRegistration.optimize obtains the parameters of the transform it returns
   (translated from the source into NV.Generated.OptimizeBook) *)
Inductive opt_binding := FminReturn | InPlaceLast.
