(* List-of-rows matrices over an arbitrary commutative ring (Leibniz equality).
   The product is defined row-wise: row i of A*B is the linear combination of
   the rows of B with the coefficients of row i of A.  Instantiated at Z and Qc
   at the end. *)
From Coq Require Import List Arith Lia Ring ZArith Permutation.
From Coq Require Import QArith Qcanon.
Import ListNotations.
Close Scope Q_scope.
Close Scope Qc_scope.

Section RingMat.
  Variable R : Type.
  Variables (r0 r1 : R) (radd rmul rsub : R -> R -> R) (ropp : R -> R).
  Hypothesis Rth : ring_theory r0 r1 radd rmul rsub ropp (@eq R).
  Add Ring Rring : Rth.

  Local Notation "0" := r0.
  Local Notation "1" := r1.
  Local Infix "+" := radd.
  Local Infix "*" := rmul.

  Definition vec := list R.
  Definition mat := list (list R).

  Fixpoint dot (x y : vec) : R :=
    match x, y with
    | a :: x', b :: y' => a * b + dot x' y'
    | _, _ => 0
    end.

  Fixpoint vadd (x y : vec) : vec :=
    match x, y with
    | a :: x', b :: y' => (a + b) :: vadd x' y'
    | _, _ => []
    end.

  Definition vscale (c : R) (x : vec) : vec := map (rmul c) x.
  Definition vzero (n : nat) : vec := repeat 0 n.
  Definition vopp (x : vec) : vec := map ropp x.

  Definition mv (A : mat) (x : vec) : vec := map (fun r => dot r x) A.

  (* x (as a row vector) times B, B having c columns *)
  Fixpoint vm (c : nat) (x : vec) (B : mat) : vec :=
    match x, B with
    | a :: x', r :: B' => vadd (vscale a r) (vm c x' B')
    | _, _ => vzero c
    end.

  Definition mm (c : nat) (A B : mat) : mat := map (fun r => vm c r B) A.

  Definition unit_vec (n k : nat) : vec :=
    map (fun i => if Nat.eqb i k then 1 else 0) (seq 0 n).
  Definition mid (n : nat) : mat := map (unit_vec n) (seq 0 n).

  Definition col (j : nat) (A : mat) : vec := map (fun row => nth j row 0) A.
  Definition mtrans (c : nat) (A : mat) : mat := map (fun j => col j A) (seq 0 c).

  Definition rows_len (c : nat) (A : mat) : Prop := Forall (fun row => length row = c) A.
  Definition wf_mat (r c : nat) (A : mat) : Prop := length A = r /\ rows_len c A.

  (* ------------------------------------------------------------ vectors *)
  Lemma vadd_length x y : length x = length y -> length (vadd x y) = length x.
  Proof.
    revert y; induction x as [|a x IH]; intros [|b y]; simpl; intros H; try discriminate; auto.
  Qed.

  Lemma vscale_length c x : length (vscale c x) = length x.
  Proof. apply map_length. Qed.

  Lemma vzero_length n : length (vzero n) = n.
  Proof. apply repeat_length. Qed.

  Lemma dot_nil_r x : dot x [] = 0.
  Proof. destruct x; reflexivity. Qed.

  Lemma dot_vzero_l n x : dot (vzero n) x = 0.
  Proof.
    revert x; induction n as [|n IH]; intros [|b x]; simpl; try reflexivity.
    rewrite IH. ring.
  Qed.

  Lemma dot_vzero_r n x : dot x (vzero n) = 0.
  Proof.
    revert n; induction x as [|a x IH]; intros [|n]; simpl; try reflexivity.
    rewrite IH. ring.
  Qed.

  Lemma dot_comm x y : dot x y = dot y x.
  Proof.
    revert y; induction x as [|a x IH]; intros [|b y]; simpl; try reflexivity.
    rewrite IH. ring.
  Qed.

  Lemma dot_vadd_l u v x : length u = length v -> dot (vadd u v) x = dot u x + dot v x.
  Proof.
    revert v x; induction u as [|a u IH]; intros [|b v] [|c x]; simpl; intros H;
      try discriminate; try ring.
    rewrite IH by (injection H; auto). ring.
  Qed.

  Lemma dot_vscale_l c u x : dot (vscale c u) x = c * dot u x.
  Proof.
    revert x; induction u as [|a u IH]; intros [|b x]; simpl; try ring.
    unfold vscale in IH. rewrite IH. ring.
  Qed.

  Lemma dot_app x1 x2 y1 y2 :
    length x1 = length y1 -> dot (x1 ++ x2) (y1 ++ y2) = dot x1 y1 + dot x2 y2.
  Proof.
    revert y1; induction x1 as [|a x1 IH]; intros [|b y1]; simpl; intros H; try discriminate.
    - ring.
    - rewrite IH by (injection H; auto). ring.
  Qed.

  (* ------------------------------------------------------------ products *)
  Lemma vm_length c x B : rows_len c B -> length (vm c x B) = c.
  Proof.
    revert B; induction x as [|a x IH]; intros [|r B] H; simpl; try apply vzero_length.
    inversion H as [|? ? Hr HB]; subst.
    rewrite vadd_length; rewrite vscale_length; auto. now rewrite IH.
  Qed.

  Lemma mm_rows_len c A B : rows_len c B -> rows_len c (mm c A B).
  Proof.
    intros H. unfold mm, rows_len. apply Forall_forall. intros r Hr.
    apply in_map_iff in Hr. destruct Hr as [a [<- _]]. now apply vm_length.
  Qed.

  Lemma mm_length c A B : length (mm c A B) = length A.
  Proof. apply map_length. Qed.

  Lemma dot_vm c r B x : rows_len c B -> dot (vm c r B) x = dot r (mv B x).
  Proof.
    revert B; induction r as [|a r IH]; intros [|row B] H; simpl;
      try (rewrite dot_vzero_l; reflexivity).
    inversion H as [|? ? Hr HB]; subst.
    rewrite dot_vadd_l by (rewrite vscale_length, vm_length; auto).
    rewrite dot_vscale_l, IH by exact HB. reflexivity.
  Qed.

  Theorem mv_mm c A B x : rows_len c B -> mv (mm c A B) x = mv A (mv B x).
  Proof.
    intros H. unfold mv at 1 3, mm. rewrite map_map. apply map_ext.
    intros r. now apply dot_vm.
  Qed.

  (* ------------------------------------------------------------ identity *)
  Lemma dot_ind_zero k s n x :
    (k < s \/ s + n <= k) ->
    dot (map (fun i => if Nat.eqb i k then 1 else 0) (seq s n)) x = 0.
  Proof.
    revert s x; induction n as [|n IH]; intros s x Hk; [reflexivity|].
    destruct x as [|b x]; [reflexivity|]. cbn [seq map dot].
    destruct (Nat.eqb_spec s k) as [E|E]; [lia|].
    rewrite IH by lia. ring.
  Qed.

  Lemma dot_unit_from n k s x :
    s <= k -> k < s + n ->
    dot (map (fun i => if Nat.eqb i k then 1 else 0) (seq s n)) x = nth (k - s) x 0.
  Proof.
    revert s x; induction n as [|n IH]; intros s x H1 H2; [lia|].
    destruct x as [|b x].
    - cbn [seq map dot]. destruct (k - s); reflexivity.
    - cbn [seq map dot]. destruct (Nat.eqb_spec s k) as [E|E].
      + subst. rewrite Nat.sub_diag. cbn [nth]. rewrite dot_ind_zero by lia. ring.
      + rewrite IH by lia. replace (k - s) with (S (k - S s)) by lia. cbn [nth]. ring.
  Qed.

  Lemma dot_unit n k x : k < n -> dot (unit_vec n k) x = nth k x 0.
  Proof.
    intros H. unfold unit_vec. rewrite dot_unit_from by lia. now rewrite Nat.sub_0_r.
  Qed.

  Lemma mv_mid n x : length x = n -> mv (mid n) x = x.
  Proof.
    intros H. unfold mv, mid. rewrite map_map.
    apply nth_ext with (d := 0) (d' := 0).
    - now rewrite map_length, seq_length.
    - intros i Hi. rewrite map_length, seq_length in Hi.
      rewrite nth_indep with (d' := dot (unit_vec n 0) x) by (now rewrite map_length, seq_length).
      rewrite (map_nth (fun k => dot (unit_vec n k) x)), seq_nth by exact Hi. simpl.
      now apply dot_unit.
  Qed.

  Lemma mid_rows_len n : rows_len n (mid n).
  Proof.
    unfold rows_len, mid. apply Forall_forall. intros r Hr.
    apply in_map_iff in Hr. destruct Hr as [k [<- _]]. unfold unit_vec.
    now rewrite map_length, seq_length.
  Qed.

  Lemma mid_length n : length (mid n) = n.
  Proof. unfold mid. now rewrite map_length, seq_length. Qed.

  (* a matrix is determined by its action: used for uniqueness arguments *)
  Lemma mv_length A x : length (mv A x) = length A.
  Proof. apply map_length. Qed.

  (* ------------------------------------------------------------ selection matrices *)
  (* rows e_{order[i]}: (S y)[i] = y[order[i]]  - this is perm.T in reordered_range *)
  Definition sel_mat (n : nat) (order : list nat) : mat := map (unit_vec n) order.

  Lemma mv_sel n order y :
    Forall (fun o => o < n) order ->
    mv (sel_mat n order) y = map (fun o => nth o y 0) order.
  Proof.
    intros H. unfold mv, sel_mat. rewrite map_map. apply map_ext_in.
    intros o Ho. rewrite Forall_forall in H. now apply dot_unit, H.
  Qed.

  (* P[j][i] = 1 iff order[i] = j : (P x)[j] = sum_i [order[i]=j] x[i] - perm in reordered_domain *)
  Definition scat_mat (n : nat) (order : list nat) : mat :=
    map (fun j => map (fun o => if Nat.eqb o j then 1 else 0) order) (seq 0 n).

  Lemma dot_indicator_notin (g : nat -> R) j l :
    ~ In j l -> dot (map (fun o => if Nat.eqb o j then 1 else 0) l) (map g l) = 0.
  Proof.
    induction l as [|o l IH]; intros Hn; [reflexivity|]. cbn [map dot].
    destruct (Nat.eqb_spec o j) as [E|E]; [exfalso; apply Hn; left; exact E|].
    rewrite IH by (intro H; apply Hn; right; exact H). ring.
  Qed.

  Lemma dot_indicator (g : nat -> R) j l :
    NoDup l -> In j l ->
    dot (map (fun o => if Nat.eqb o j then 1 else 0) l) (map g l) = g j.
  Proof.
    induction l as [|o l IH]; intros ND Hin; [destruct Hin|]. cbn [map dot].
    inversion ND as [|? ? Hn ND']; subst.
    destruct (Nat.eqb_spec o j) as [E|E].
    - subst. rewrite dot_indicator_notin by exact Hn. ring.
    - destruct Hin as [C|Hin]; [contradiction|]. rewrite IH by assumption. ring.
  Qed.

  (* values x'[i] = g (order[i]) are scattered back to position order[i] *)
  Lemma mv_scat n order (g : nat -> R) :
    Permutation order (seq 0 n) ->
    mv (scat_mat n order) (map g order) = map g (seq 0 n).
  Proof.
    intros P. unfold mv, scat_mat. rewrite map_map. apply map_ext_in.
    intros j Hj.
    assert (ND : NoDup order) by (eapply Permutation_NoDup; [apply Permutation_sym; exact P|apply seq_NoDup]).
    apply dot_indicator; [exact ND|].
    eapply Permutation_in; [apply Permutation_sym; exact P|exact Hj].
  Qed.

  (* ------------------------------------------------------------ homogeneous coordinates *)
  Definition hom (x : vec) : vec := x ++ [1].
  Definition bottom_row (nin : nat) : vec := vzero nin ++ [1].
  (* H has nout+1 rows, nin+1 columns, last row 0..0 1 *)
  Definition wf_aff (nout nin : nat) (H : mat) : Prop :=
    exists top, H = top ++ [bottom_row nin] /\ length top = nout /\ rows_len (S nin) top.
  Definition happly (H : mat) (x : vec) : vec := removelast (mv H (hom x)).

  Lemma dot_bottom_hom nin x : length x = nin -> dot (bottom_row nin) (hom x) = 1.
  Proof.
    intros Hx. unfold bottom_row, hom. rewrite dot_app by (rewrite vzero_length; auto).
    rewrite dot_vzero_l. simpl. ring.
  Qed.

  Lemma mv_hom nout nin H x :
    wf_aff nout nin H -> length x = nin -> mv H (hom x) = hom (happly H x).
  Proof.
    intros [top [-> [Ht Hr]]] Hx. unfold happly, mv. rewrite map_app. simpl.
    rewrite dot_bottom_hom by exact Hx. rewrite removelast_last. reflexivity.
  Qed.

  Lemma happly_length nout nin H x : wf_aff nout nin H -> length (happly H x) = nout.
  Proof.
    intros [top [-> [Ht Hr]]]. unfold happly, mv. rewrite map_app. simpl.
    rewrite removelast_last, map_length. exact Ht.
  Qed.

  Lemma wf_aff_rows nout nin H : wf_aff nout nin H -> rows_len (S nin) H /\ length H = S nout.
  Proof.
    intros [top [-> [Ht Hr]]]. split.
    - unfold rows_len. apply Forall_app. split; [exact Hr|]. constructor; [|constructor].
      unfold bottom_row. rewrite app_length, vzero_length. simpl. lia.
    - rewrite app_length. simpl. lia.
  Qed.

  Lemma vadd_vzero_l n x : length x = n -> vadd (vzero n) x = x.
  Proof.
    revert n; induction x as [|a x IH]; intros [|n] H; simpl in *; try discriminate; try reflexivity.
    f_equal; [ring|apply IH; lia].
  Qed.

  Lemma vadd_vzero_r n x : length x = n -> vadd x (vzero n) = x.
  Proof.
    revert n; induction x as [|a x IH]; intros [|n] H; simpl in *; try discriminate; try reflexivity.
    f_equal; [ring|apply IH; lia].
  Qed.

  Lemma vscale_one x : vscale 1 x = x.
  Proof. unfold vscale. induction x as [|a x IH]; simpl; [reflexivity|]. f_equal; [ring|exact IH]. Qed.

  Lemma vscale_zero x : vscale 0 x = vzero (length x).
  Proof. unfold vscale, vzero. induction x as [|a x IH]; simpl; [reflexivity|]. f_equal; [ring|exact IH]. Qed.

  Lemma vm_last_unit c n top r :
    length top = n -> rows_len c top -> length r = c ->
    vm c (vzero n ++ [1]) (top ++ [r]) = r.
  Proof.
    revert top; induction n as [|n IH]; intros top Ht Hr Hl.
    - destruct top; [|discriminate]. simpl. rewrite vscale_one. now apply vadd_vzero_r.
    - destruct top as [|t top]; [discriminate|]. simpl.
      inversion Hr as [|? ? Hr1 Hr2]; subst.
      rewrite IH by (auto; simpl in Ht; lia).
      rewrite vscale_zero, Hr1. now apply vadd_vzero_l.
  Qed.

  Lemma vm_bottom nin nmid B :
    wf_aff nmid nin B -> vm (S nin) (bottom_row nmid) B = bottom_row nin.
  Proof.
    intros [top [-> [Ht Hr]]]. unfold bottom_row at 1.
    apply vm_last_unit; auto. unfold bottom_row. rewrite app_length, vzero_length. simpl. lia.
  Qed.

  (* composition of affine maps in homogeneous form *)
  Lemma mm_wf_aff nout nmid nin A B :
    wf_aff nout nmid A -> wf_aff nmid nin B -> wf_aff nout nin (mm (S nin) A B).
  Proof.
    intros [topA [-> [HtA HrA]]] HB.
    exists (mm (S nin) topA B). split; [|split].
    - unfold mm. rewrite map_app. simpl. now rewrite (vm_bottom nin nmid B HB).
    - now rewrite mm_length.
    - apply mm_rows_len. apply (wf_aff_rows _ _ _ HB).
  Qed.

  Theorem happly_mm nout nmid nin A B x :
    wf_aff nout nmid A -> wf_aff nmid nin B -> length x = nin ->
    happly (mm (S nin) A B) x = happly A (happly B x).
  Proof.
    intros HA HB Hx. unfold happly at 1 2.
    rewrite mv_mm by (apply (wf_aff_rows _ _ _ HB)).
    now rewrite (mv_hom nmid nin B x HB Hx).
  Qed.

  Lemma ind_zero_seq m s k :
    s + m <= k -> map (fun i => if Nat.eqb i k then 1 else 0) (seq s m) = repeat 0 m.
  Proof.
    revert s; induction m as [|m IH]; intros s H; [reflexivity|]. cbn [seq map repeat].
    destruct (Nat.eqb_spec s k) as [E|E]; [lia|]. f_equal. apply IH. lia.
  Qed.

  Lemma unit_vec_last n : unit_vec (S n) n = bottom_row n.
  Proof.
    unfold unit_vec, bottom_row, vzero. rewrite seq_S, map_app. cbn [map Nat.add].
    rewrite Nat.eqb_refl. f_equal. apply ind_zero_seq. lia.
  Qed.

  Lemma mid_wf_aff n : wf_aff n n (mid (S n)).
  Proof.
    exists (map (unit_vec (S n)) (seq 0 n)). split; [|split].
    - unfold mid. rewrite seq_S, map_app. cbn [map Nat.add]. now rewrite unit_vec_last.
    - now rewrite map_length, seq_length.
    - unfold rows_len. apply Forall_forall. intros r Hr. apply in_map_iff in Hr.
      destruct Hr as [k [<- _]]. unfold unit_vec. now rewrite map_length, seq_length.
  Qed.

  Lemma happly_mid n x : length x = n -> happly (mid (S n)) x = x.
  Proof.
    intros H. unfold happly. rewrite mv_mid by (unfold hom; rewrite app_length; simpl; lia).
    unfold hom. apply removelast_last.
  Qed.
End RingMat.

(* ---------------------------------------------------------------- instances *)
Arguments dot {R} r0 radd rmul x y.
Arguments vadd {R} radd x y.
Arguments vscale {R} rmul c x.
Arguments vzero {R} r0 n.
Arguments mv {R} r0 radd rmul A x.
Arguments vm {R} r0 radd rmul c x B.
Arguments mm {R} r0 radd rmul c A B.
Arguments unit_vec {R} r0 r1 n k.
Arguments mid {R} r0 r1 n.
Arguments col {R} r0 j A.
Arguments mtrans {R} r0 c A.
Arguments sel_mat {R} r0 r1 n order.
Arguments scat_mat {R} r0 r1 n order.
Arguments hom {R} r1 x.
Arguments bottom_row {R} r0 r1 nin.
Arguments happly {R} r0 r1 radd rmul H x.
Arguments rows_len {R} c A.
Arguments wf_mat {R} r c A.
Arguments wf_aff {R} r0 r1 nout nin H.

Lemma Zring_th : ring_theory 0%Z 1%Z Z.add Z.mul Z.sub Z.opp (@eq Z).
Proof. exact Zth. Qed.

Lemma Qcring_th : ring_theory (Q2Qc 0) (Q2Qc 1) Qcplus Qcmult Qcminus Qcopp (@eq Qc).
Proof. exact Qcrt. Qed.
