(* C19Index - N-d index arithmetic used by the C19 models (owned by C19).
   Arrays are (shape, index function); `rollaxis` is then a change of the
   index function (exactly NumPy's view semantics).  Row-major flattening is
   only used at the boundary with the harness (`of_flat` / `to_flat`) and
   `to_flat_of_flat` shows that boundary is lossless. *)
From Coq Require Import List Arith Lia Bool ZArith PeanoNat.
Import ListNotations.


(* list.insert(k, x): clips at the end like Python *)
Fixpoint insert_at {A : Type} (k : nat) (x : A) (l : list A) : list A :=
  match k, l with
  | 0, _ => x :: l
  | S _, [] => [x]
  | S k', y :: r => y :: insert_at k' x r
  end.

(* del l[k] (no-op when out of range) *)
Fixpoint remove_at {A : Type} (k : nat) (l : list A) : list A :=
  match k, l with
  | _, [] => []
  | 0, _ :: r => r
  | S k', y :: r => y :: remove_at k' r
  end.

(* take the element at position `from` and re-insert it at position `to` *)
Definition move_elem {A : Type} (d : A) (from to : nat) (l : list A) : list A :=
  insert_at to (nth from l d) (remove_at from l).

Lemma insert_at_length {A : Type} k (x : A) l : length (insert_at k x l) = S (length l).
Proof.
  revert l; induction k as [|k IH]; intros [|y r]; simpl; try reflexivity.
  now rewrite IH.
Qed.

Lemma remove_at_length {A : Type} k (l : list A) : k < length l -> length (remove_at k l) = length l - 1.
Proof.
  revert l; induction k as [|k IH]; intros [|y r] H; cbn [length remove_at] in *; try lia.
  rewrite IH by lia. clear IH. lia.
Qed.

Lemma insert_remove_nth {A : Type} (d : A) k l : k < length l -> insert_at k (nth k l d) (remove_at k l) = l.
Proof.
  revert l; induction k as [|k IH]; intros [|y r] H; simpl in *; try lia; try reflexivity.
  f_equal. apply IH. lia.
Qed.

Lemma remove_insert {A : Type} k (x : A) l : k <= length l -> remove_at k (insert_at k x l) = l.
Proof.
  revert l; induction k as [|k IH]; intros [|y r] H; simpl in *; try lia; try reflexivity.
  f_equal. apply IH. lia.
Qed.

Lemma nth_insert_same {A : Type} (d : A) k x l : k <= length l -> nth k (insert_at k x l) d = x.
Proof.
  revert l; induction k as [|k IH]; intros [|y r] H; simpl in *; try lia; try reflexivity.
  apply IH. lia.
Qed.

Lemma nth_remove_at {A : Type} (d : A) k j l :
  nth k (remove_at j l) d = if k <? j then nth k l d else nth (S k) l d.
Proof.
  revert k l; induction j as [|j IH]; intros k [|y r].
  - simpl. now destruct k.
  - reflexivity.
  - simpl. destruct (k <? S j); now destruct k.
  - destruct k as [|k]; [reflexivity|].
    cbn [remove_at nth]. rewrite IH.
    change (S k <? S j) with (k <? j). reflexivity.
Qed.

Lemma nth_insert_at {A : Type} (d : A) k j x l :
  j <= length l ->
  nth k (insert_at j x l) d = if k <? j then nth k l d else if k =? j then x else nth (k - 1) l d.
Proof.
  revert k l; induction j as [|j IH]; intros k l H.
  - destruct k as [|k]; simpl; [reflexivity|]. now rewrite Nat.sub_0_r.
  - destruct l as [|y r]; [simpl in H; lia|].
    destruct k as [|k]; [reflexivity|].
    cbn [insert_at nth]. rewrite IH by (simpl in H; lia).
    change (S k <? S j) with (k <? j). change (S k =? S j) with (k =? j).
    destruct (k <? j) eqn:E1; [reflexivity|].
    destruct (k =? j) eqn:E2; [reflexivity|].
    apply Nat.ltb_ge in E1. apply Nat.eqb_neq in E2.
    destruct k as [|k]; [lia|]. simpl. now rewrite Nat.sub_0_r.
Qed.

Lemma move_elem_inverse {A : Type} (d : A) from to l :
  from < length l -> to < length l ->
  move_elem d to from (move_elem d from to l) = l.
Proof.
  intros Hf Ht. unfold move_elem.
  assert (Hl : to <= length (remove_at from l)) by (rewrite remove_at_length by exact Hf; lia).
  rewrite nth_insert_same by exact Hl.
  rewrite remove_insert by exact Hl.
  now apply insert_remove_nth.
Qed.

Lemma move_elem_length {A : Type} (d : A) from to l :
  from < length l -> length (move_elem d from to l) = length l.
Proof.
  intros H. unfold move_elem. rewrite insert_at_length, remove_at_length by exact H. lia.
Qed.

(* ---------------------------------------------------------------- shapes *)
Fixpoint prod (s : list nat) : nat :=
  match s with [] => 1 | n :: r => n * prod r end.

(* all multi-indices of a shape in row-major (C) order *)
Fixpoint indices (s : list nat) : list (list nat) :=
  match s with
  | [] => [[]]
  | n :: r => flat_map (fun k => map (cons k) (indices r)) (seq 0 n)
  end.

Fixpoint ravel (s i : list nat) : nat :=
  match s, i with
  | _ :: s', k :: i' => k * prod s' + ravel s' i'
  | _, _ => 0
  end.

Lemma flat_map_length_const {A B} (f : A -> list B) c l :
  (forall x, length (f x) = c) -> length (flat_map f l) = length l * c.
Proof.
  intros H. induction l as [|x l IH]; simpl; [reflexivity|].
  rewrite app_length, H, IH. lia.
Qed.

Lemma indices_length s : length (indices s) = prod s.
Proof.
  induction s as [|n r IH]; simpl; [reflexivity|].
  rewrite (flat_map_length_const _ (prod r)).
  - now rewrite seq_length.
  - intros x. now rewrite map_length.
Qed.

Lemma In_indices s i : In i (indices s) <-> Forall2 lt i s.
Proof.
  revert i; induction s as [|n r IH]; intros i; simpl.
  - split.
    + intros [<-|[]]. constructor.
    + intros H. inversion H. now left.
  - rewrite in_flat_map. split.
    + intros [k [Hk Hi]]. apply in_map_iff in Hi. destruct Hi as [j [<- Hj]].
      apply in_seq in Hk. constructor; [lia|]. now apply IH.
    + intros H. inversion H as [|k n' j r' Hk Hj]; subst.
      exists k. split; [apply in_seq; lia|]. apply in_map. now apply IH.
Qed.

Lemma seq_blocks P a n :
  flat_map (fun k => seq (k * P) P) (seq a n) = seq (a * P) (n * P).
Proof.
  revert a; induction n as [|n IH]; intros a; simpl; [reflexivity|].
  rewrite IH. rewrite seq_app. f_equal. f_equal. lia.
Qed.

Lemma map_add_seq a b n : map (fun m => a + m) (seq b n) = seq (a + b) n.
Proof.
  revert b; induction n as [|n IH]; intros b; simpl; [reflexivity|].
  f_equal. rewrite IH. f_equal. lia.
Qed.

Lemma map_ravel_indices s : map (ravel s) (indices s) = seq 0 (prod s).
Proof.
  induction s as [|n r IH]; [reflexivity|].
  cbn [indices prod].
  change 0 with (0 * prod r) at 2. rewrite <- seq_blocks.
  generalize (seq 0 n) as ks. intros ks. induction ks as [|k ks IHk]; [reflexivity|].
  cbn [flat_map]. rewrite map_app, IHk. f_equal.
  rewrite map_map. cbn [ravel].
  rewrite <- (map_map (ravel r) (fun m => k * prod r + m)), IH.
  rewrite map_add_seq. f_equal. lia.
Qed.
