(* Helpers used by the vm_compute correspondence files the harness generates. *)
From Coq Require Import List Bool ZArith QArith.
Import ListNotations.

Fixpoint failing_idx_from (n : nat) (l : list bool) : list nat :=
  match l with
  | [] => []
  | b :: r => if b then failing_idx_from (S n) r else n :: failing_idx_from (S n) r
  end.
Definition failing_idx (l : list bool) : list nat := failing_idx_from 0 l.

Fixpoint list_eqb {A} (eqb : A -> A -> bool) (a b : list A) : bool :=
  match a, b with
  | [], [] => true
  | x :: a', y :: b' => eqb x y && list_eqb eqb a' b'
  | _, _ => false
  end.

Definition zlist_eqb := list_eqb Z.eqb.
Definition qlist_eqb := list_eqb Qeq_bool.
Definition natlist_eqb := list_eqb Nat.eqb.
Definition zmat_eqb := list_eqb zlist_eqb.
Definition qmat_eqb := list_eqb qlist_eqb.

Definition option_eqb {A} (eqb : A -> A -> bool) (a b : option A) : bool :=
  match a, b with
  | Some x, Some y => eqb x y
  | None, None => true
  | _, _ => false
  end.

Lemma list_eqb_spec {A} (eqb : A -> A -> bool) :
  (forall x y, eqb x y = true <-> x = y) ->
  forall a b, list_eqb eqb a b = true <-> a = b.
Proof.
  intros H a; induction a as [|x a IH]; intros [|y b]; simpl; try (split; congruence).
  rewrite andb_true_iff, H, IH. split; [intros [-> ->]; reflexivity | intros E; inversion E; auto].
Qed.
