(* N-d index arithmetic (owned by C02): row-major ravel/unravel, enumeration of
   all indices of a shape, gather along an index map, axis permutation of index
   tuples, and Python slice normalisation (`slice.indices`) with its spec. *)
From Coq Require Import List Arith Lia Bool ZArith Permutation PeanoNat.
From NV.Lib Require Import SlotAlg.
Import ListNotations.

(* ------------------------------------------------------------------ shapes *)
Fixpoint prod (s : list nat) : nat :=
  match s with [] => 1 | n :: r => n * prod r end.

Fixpoint ravel (s i : list nat) : nat :=
  match s, i with
  | _ :: s', k :: i' => k * prod s' + ravel s' i'
  | _, _ => 0
  end.

Fixpoint unravel (s : list nat) (m : nat) : list nat :=
  match s with
  | [] => []
  | _ :: s' => (m / prod s') :: unravel s' (m mod prod s')
  end.

Definition in_bounds (s i : list nat) : Prop := Forall2 (fun k n => k < n) i s.

Definition all_indices (s : list nat) : list (list nat) := map (unravel s) (seq 0 (prod s)).

Lemma nth_map_in {A B} (f : A -> B) l k d d' : k < length l -> nth k (map f l) d = f (nth k l d').
Proof.
  intros H. rewrite nth_indep with (d' := f d') by (now rewrite map_length). apply map_nth.
Qed.

Lemma in_bounds_length s i : in_bounds s i -> length i = length s.
Proof. intros H. induction H as [|k n i s Hk H IH]; simpl; congruence. Qed.

Lemma ravel_lt s i : in_bounds s i -> ravel s i < prod s.
Proof.
  intros H. induction H as [|k n i s Hk H IH]; simpl; [lia|]. nia.
Qed.

Lemma unravel_ravel s i : in_bounds s i -> unravel s (ravel s i) = i.
Proof.
  intros H. induction H as [|k n i s Hk H IH]; simpl; [reflexivity|].
  assert (Hr := ravel_lt _ _ H).
  assert (Hp : prod s <> 0) by lia.
  f_equal.
  - rewrite Nat.div_add_l by exact Hp. rewrite Nat.div_small by exact Hr. lia.
  - rewrite Nat.add_comm, Nat.mod_add by exact Hp. rewrite Nat.mod_small by exact Hr. exact IH.
Qed.

Lemma unravel_in_bounds s m : m < prod s -> in_bounds s (unravel s m).
Proof.
  revert m; induction s as [|n s IH]; intros m Hm; simpl; [constructor|].
  simpl in Hm.
  assert (Hp : prod s <> 0) by (intro E; rewrite E in Hm; lia).
  constructor.
  - apply Nat.div_lt_upper_bound; [exact Hp|lia].
  - apply IH. apply Nat.mod_upper_bound. exact Hp.
Qed.

Lemma ravel_unravel s m : m < prod s -> ravel s (unravel s m) = m.
Proof.
  revert m; induction s as [|n s IH]; intros m Hm; simpl in *; [lia|].
  assert (Hp : prod s <> 0) by (intro E; rewrite E in Hm; lia).
  rewrite IH by (apply Nat.mod_upper_bound; exact Hp).
  rewrite (Nat.div_mod m (prod s) Hp) at 3. lia.
Qed.

Lemma all_indices_length s : length (all_indices s) = prod s.
Proof. unfold all_indices. now rewrite map_length, seq_length. Qed.

Lemma nth_all_indices s i d : in_bounds s i -> nth (ravel s i) (all_indices s) d = i.
Proof.
  intros H. unfold all_indices.
  rewrite (nth_map_in _ _ _ _ 0) by (rewrite seq_length; now apply ravel_lt).
  rewrite seq_nth by (now apply ravel_lt). simpl. now apply unravel_ravel.
Qed.

Lemma In_all_indices s i : In i (all_indices s) <-> in_bounds s i.
Proof.
  unfold all_indices. rewrite in_map_iff. split.
  - intros [m [<- Hm]]. apply in_seq in Hm. apply unravel_in_bounds. lia.
  - intros H. exists (ravel s i). split; [now apply unravel_ravel|].
    apply in_seq. split; [lia|]. simpl. now apply ravel_lt.
Qed.

Lemma all_indices_NoDup s : NoDup (all_indices s).
Proof.
  unfold all_indices.
  assert (G : forall l, NoDup l -> (forall m, In m l -> m < prod s) -> NoDup (map (unravel s) l)).
  { induction l as [|a l IH]; intros ND Hb; simpl; constructor.
    - inversion ND as [|? ? Ha ND']; subst. intros Hin. apply in_map_iff in Hin.
      destruct Hin as [b [Hb1 Hb2]]. apply Ha.
      assert (E : ravel s (unravel s b) = ravel s (unravel s a)) by now rewrite Hb1.
      rewrite !ravel_unravel in E by (apply Hb; simpl; auto). now subst.
    - inversion ND; subst. apply IH; [assumption|]. intros m Hm. apply Hb. now right. }
  apply G; [apply seq_NoDup|]. intros m Hm. apply in_seq in Hm. lia.
Qed.

(* the array with shape s' whose entry i is data[phi i] (data has shape s) *)
Definition gather {A} (d : A) (s' : list nat) (phi : list nat -> list nat) (s : list nat) (data : list A) : list A :=
  map (fun i => nth (ravel s (phi i)) data d) (all_indices s').

Lemma gather_length {A} (d : A) s' phi s data : length (gather d s' phi s data) = prod s'.
Proof. unfold gather. now rewrite map_length, all_indices_length. Qed.

Lemma nth_gather {A} (d : A) s' phi s data i :
  in_bounds s' i ->
  nth (ravel s' i) (gather d s' phi s data) d = nth (ravel s (phi i)) data d.
Proof.
  intros H. unfold gather.
  rewrite (nth_map_in _ _ _ _ []) by (rewrite all_indices_length; now apply ravel_lt).
  now rewrite nth_all_indices.
Qed.

(* pointwise characterisation of in_bounds *)
Lemma in_bounds_nth s i :
  in_bounds s i <-> (length i = length s /\ forall k, k < length s -> nth k i 0 < nth k s 0).
Proof.
  split.
  - intros H. induction H as [|a n i s Ha H IH]; simpl.
    + split; [reflexivity|]. intros k Hk. lia.
    + destruct IH as [IH1 IH2]. split; [congruence|].
      intros [|k] Hk; [exact Ha|]. apply IH2. lia.
  - revert i; induction s as [|n s IH]; intros [|a i] [Hl Hn]; simpl in *; try discriminate.
    + constructor.
    + constructor.
      * apply (Hn 0). lia.
      * apply IH. split; [lia|]. intros k Hk. apply (Hn (S k)). lia.
Qed.

(* ------------------------------------------------------------------ axis permutation *)
Definition permute {A} (d : A) (order : list nat) (l : list A) : list A :=
  map (fun o => nth o l d) order.

Lemma permute_length {A} (d : A) order l : length (permute d order l) = length order.
Proof. apply map_length. Qed.

Lemma nth_permute {A} (d : A) order l k :
  k < length order -> nth k (permute d order l) d = nth (nth k order 0) l d.
Proof.
  intros H. unfold permute. now rewrite (nth_map_in _ _ _ _ 0) by exact H.
Qed.

Lemma perm_seq_facts order n :
  Permutation order (seq 0 n) ->
  length order = n /\ NoDup order /\ (forall k, k < n -> nth k order 0 < n) /\ (forall m, m < n -> In m order).
Proof.
  intros P. split; [|split; [|split]].
  - rewrite (Permutation_length P). apply seq_length.
  - eapply Permutation_NoDup; [apply Permutation_sym; exact P|apply seq_NoDup].
  - intros k Hk.
    assert (L : length order = n) by (rewrite (Permutation_length P); apply seq_length).
    assert (I : In (nth k order 0) (seq 0 n)).
    { eapply Permutation_in; [exact P|]. apply nth_In. lia. }
    apply in_seq in I. lia.
  - intros m Hm. eapply Permutation_in; [apply Permutation_sym; exact P|]. apply in_seq. lia.
Qed.

(* transposed index -> original index:  j[order[k]] = i[k], i.e. j = permute (argsort order) i *)
Lemma permute_argsort_inv {A} (d : A) order n (i : list A) :
  Permutation order (seq 0 n) -> length i = n ->
  permute d order (permute d (argsort order) i) = i.
Proof.
  intros P Hi. destruct (perm_seq_facts _ _ P) as [L [ND [Hlt Hin]]].
  apply nth_ext with (d := d) (d' := d).
  - rewrite permute_length. congruence.
  - intros k Hk. rewrite permute_length in Hk.
    rewrite nth_permute by exact Hk.
    rewrite nth_permute by (rewrite argsort_length, L; apply Hlt; lia).
    rewrite (argsort_inverse order n P k) by lia. reflexivity.
Qed.

Lemma in_bounds_permute_argsort order n s i :
  Permutation order (seq 0 n) -> length s = n ->
  in_bounds (permute 0 order s) i -> in_bounds s (permute 0 (argsort order) i).
Proof.
  intros P Hs H. destruct (perm_seq_facts _ _ P) as [L [ND [Hlt Hin]]].
  apply in_bounds_nth in H. destruct H as [Hl Hn]. rewrite permute_length in Hl, Hn.
  apply in_bounds_nth. split.
  - rewrite permute_length, argsort_length. congruence.
  - intros m Hm. rewrite Hs in Hm.
    rewrite nth_permute by (rewrite argsort_length; lia).
    rewrite argsort_nth by lia.
    destruct (index_of_In m order (Hin m Hm)) as [H1 H2].
    specialize (Hn (index_of m order) H1).
    rewrite nth_permute in Hn by exact H1. now rewrite H2 in Hn.
Qed.

(* ------------------------------------------------------------------ Python slices *)
Open Scope Z_scope.

Record pyslice := { sl_start : option Z; sl_stop : option Z; sl_step : option Z }.
Definition full_slice : pyslice := {| sl_start := None; sl_stop := None; sl_step := None |}.

(* PySlice_AdjustIndices: clipping of one bound *)
Definition clip_bound (v : option Z) (n lower upper dflt : Z) : Z :=
  match v with
  | None => dflt
  | Some x => if x <? 0 then Z.max (x + n) lower else Z.min x upper
  end.

(* slice.indices(n): None when step = 0 (ValueError) *)
Definition slice_indices (s : pyslice) (n : Z) : option (Z * Z * Z) :=
  let step := match sl_step s with None => 1 | Some k => k end in
  if step =? 0 then None else
  let lower := if step <? 0 then -1 else 0 in
  let upper := if step <? 0 then n - 1 else n in
  let start := clip_bound (sl_start s) n lower upper (if step <? 0 then upper else lower) in
  let stop := clip_bound (sl_stop s) n lower upper (if step <? 0 then lower else upper) in
  Some (start, stop, step).

(* PySlice_AdjustIndices: number of selected items *)
Definition slice_len (start stop step : Z) : Z :=
  if step <? 0 then (if stop <? start then (start - stop - 1) / (- step) + 1 else 0)
  else (if start <? stop then (stop - start - 1) / step + 1 else 0).

Definition slice_range (start step : Z) (len : nat) : list Z :=
  map (fun k => start + Z.of_nat k * step) (seq 0 len).

(* list(range(n))[s] *)
Definition slice_select (s : pyslice) (n : nat) : option (list Z) :=
  match slice_indices s (Z.of_nat n) with
  | None => None
  | Some (start, stop, step) => Some (slice_range start step (Z.to_nat (slice_len start stop step)))
  end.

(* integer index normalisation: a[i] *)
Definition norm_index (i : Z) (n : nat) : option Z :=
  let j := if i <? 0 then i + Z.of_nat n else i in
  if (0 <=? j) && (j <? Z.of_nat n) then Some j else None.

Lemma norm_index_bounds i n j : norm_index i n = Some j -> 0 <= j < Z.of_nat n.
Proof.
  unfold norm_index. destruct (i <? 0);
    match goal with |- context [?a && ?b] => destruct a eqn:E1; destruct b eqn:E2 end;
    simpl; intros H; inversion H; subst; lia.
Qed.

Lemma slice_len_nonneg start stop step : 0 <= slice_len start stop step.
Proof.
  unfold slice_len. destruct (step <? 0) eqn:Es.
  - destruct (stop <? start) eqn:E; [|lia].
    assert (0 <= (start - stop - 1) / (- step)) by (apply Z.div_pos; lia). lia.
  - destruct (start <? stop) eqn:E; [|lia].
    destruct (Z.eq_dec step 0) as [->|Hs]; [rewrite Zdiv_0_r; lia|].
    assert (0 <= (stop - start - 1) / step) by (apply Z.div_pos; lia). lia.
Qed.

(* m-th element is selected iff it has not reached `stop` *)
Lemma slice_len_pos_iff start stop step m :
  0 < step -> 0 <= m -> (m < slice_len start stop step <-> start + m * step < stop).
Proof.
  intros Hs Hm. unfold slice_len.
  replace (step <? 0) with false by lia.
  destruct (start <? stop) eqn:E.
  - assert (D := Z.div_mod (stop - start - 1) step ltac:(lia)).
    assert (M := Z.mod_pos_bound (stop - start - 1) step Hs).
    split; intros H; nia.
  - split; intros H; nia.
Qed.

Lemma slice_len_neg_iff start stop step m :
  step < 0 -> 0 <= m -> (m < slice_len start stop step <-> stop < start + m * step).
Proof.
  intros Hs Hm. unfold slice_len.
  replace (step <? 0) with true by lia.
  destruct (stop <? start) eqn:E.
  - assert (D := Z.div_mod (start - stop - 1) (- step) ltac:(lia)).
    assert (M := Z.mod_pos_bound (start - stop - 1) (- step) ltac:(lia)).
    split; intros H; nia.
  - split; intros H; nia.
Qed.

Lemma slice_indices_bounds s n start stop step :
  0 <= n -> slice_indices s n = Some (start, stop, step) ->
  step <> 0 /\
  (0 < step -> 0 <= start /\ stop <= n) /\
  (step < 0 -> start <= n - 1 /\ -1 <= stop).
Proof.
  intros Hn. unfold slice_indices.
  set (st := match sl_step s with None => 1 | Some k => k end).
  destruct (st =? 0) eqn:E0; [discriminate|].
  intros H. inversion H; subst; clear H.
  split; [lia|]. unfold clip_bound. split; intros Hs.
  - replace (st <? 0) with false by lia.
    split.
    + destruct (sl_start s) as [x|]; [destruct (x <? 0) eqn:Ex; lia|lia].
    + destruct (sl_stop s) as [x|]; [destruct (x <? 0) eqn:Ex; lia|lia].
  - replace (st <? 0) with true by lia.
    split.
    + destruct (sl_start s) as [x|]; [destruct (x <? 0) eqn:Ex; lia|lia].
    + destruct (sl_stop s) as [x|]; [destruct (x <? 0) eqn:Ex; lia|lia].
Qed.

Lemma slice_elem_bounds s n start stop step m :
  0 <= n -> slice_indices s n = Some (start, stop, step) ->
  0 <= m < slice_len start stop step -> 0 <= start + m * step < n.
Proof.
  intros Hn E [Hm Hml].
  destruct (slice_indices_bounds _ _ _ _ _ Hn E) as [Hs [Hp Hneg]].
  destruct (Z_lt_ge_dec 0 step) as [Hpos|Hnp].
  - destruct (Hp Hpos) as [H1 H2]. apply slice_len_pos_iff in Hml; [nia|lia|lia].
  - assert (Hng : step < 0) by lia. destruct (Hneg Hng) as [H1 H2].
    apply slice_len_neg_iff in Hml; [nia|lia|lia].
Qed.

Lemma nth_slice_range start step len k :
  (k < len)%nat -> nth k (slice_range start step len) 0 = start + Z.of_nat k * step.
Proof.
  intros H. unfold slice_range.
  rewrite (nth_map_in _ _ _ _ 0%nat) by (now rewrite seq_length).
  rewrite seq_nth by exact H. reflexivity.
Qed.

(* The spec: the selected list is start, start+step, ... (arithmetic progression
   from the clipped start), contains exactly the progression elements that have
   not reached the clipped stop, and every element is a valid index of range(n). *)
Theorem slice_select_spec s n l :
  slice_select s n = Some l ->
  exists start stop step,
    slice_indices s (Z.of_nat n) = Some (start, stop, step) /\ step <> 0 /\
    (forall k, (k < length l)%nat -> nth k l 0 = start + Z.of_nat k * step) /\
    (forall x, In x l <-> exists m, 0 <= m /\ x = start + m * step /\
                                   (if 0 <? step then x < stop else stop < x)) /\
    (forall x, In x l -> 0 <= x < Z.of_nat n).
Proof.
  unfold slice_select. destruct (slice_indices s (Z.of_nat n)) as [[[start stop] step]|] eqn:E; [|discriminate].
  intros H. inversion H; subst; clear H.
  exists start, stop, step. split; [reflexivity|].
  destruct (slice_indices_bounds _ _ _ _ _ (Zle_0_nat n) E) as [Hs [Hp Hneg]].
  split; [exact Hs|].
  assert (Hlen := slice_len_nonneg start stop step).
  assert (InChar : forall x, In x (slice_range start step (Z.to_nat (slice_len start stop step))) <->
                             exists m, 0 <= m /\ x = start + m * step /\ m < slice_len start stop step).
  { intros x. unfold slice_range. rewrite in_map_iff. split.
    - intros [k [<- Hk]]. apply in_seq in Hk. exists (Z.of_nat k). split; [lia|]. split; [reflexivity|lia].
    - intros [m [Hm [-> Hml]]]. exists (Z.to_nat m). split; [now rewrite Z2Nat.id|].
      apply in_seq. lia. }
  split; [|split].
  - intros k Hk. unfold slice_range in Hk. rewrite map_length, seq_length in Hk.
    now apply nth_slice_range.
  - intros x. rewrite InChar. split; intros [m [Hm [Hx Hc]]]; exists m; (split; [exact Hm|]); (split; [exact Hx|]).
    + destruct (0 <? step) eqn:Ep.
      * subst x. apply slice_len_pos_iff; [lia|exact Hm|exact Hc].
      * subst x. apply slice_len_neg_iff; [lia|exact Hm|exact Hc].
    + destruct (0 <? step) eqn:Ep.
      * subst x. apply slice_len_pos_iff; [lia|exact Hm|exact Hc].
      * subst x. apply slice_len_neg_iff; [lia|exact Hm|exact Hc].
  - intros x Hx. apply InChar in Hx. destruct Hx as [m [Hm [-> Hml]]].
    destruct (Z_lt_ge_dec 0 step) as [Hpos|Hnp].
    + destruct (Hp Hpos) as [H1 H2]. apply slice_len_pos_iff in Hml; [nia|lia|lia].
    + assert (Hng : step < 0) by lia. destruct (Hneg Hng) as [H1 H2].
      apply slice_len_neg_iff in Hml; [nia|lia|lia].
Qed.

Close Scope Z_scope.
