(* Least-squares theory over an ordered commutative ring with Leibniz equality
   (instances: Z, Qc), on the list-of-rows matrices of RingMat.

   X : n rows of length p (the design), y : length n, b : length p.
     resid X y b   = y - X b
     rss X y b     = <resid, resid>                      (a sum of squares)
     normal_eq p X y b :  X^T (y - X b) = 0   written  vm p (resid X y b) X = vzero p
   (vm p r X is the row vector r times X, i.e. X^T r.)                       *)
From Coq Require Import List Arith Lia Ring Bool.
From NV.Lib Require Import RingMat.
Import ListNotations.

(* ------------------------------------------------------------------ definitions *)
Section Defs.
  Variable R : Type.
  Variables (r0 r1 : R) (radd rmul rsub : R -> R -> R).

  Fixpoint vsub (x y : list R) : list R :=
    match x, y with
    | a :: x', b :: y' => rsub a b :: vsub x' y'
    | _, _ => []
    end.

  Definition resid (X : list (list R)) (y b : list R) : list R :=
    vsub y (mv r0 radd rmul X b).
  Definition rss (X : list (list R)) (y b : list R) : R :=
    dot r0 radd rmul (resid X y b) (resid X y b).
  Definition normal_eq (p : nat) (X : list (list R)) (y b : list R) : Prop :=
    vm r0 radd rmul p (resid X y b) X = vzero r0 p.
  (* X^T diag(w) r : the weighted normal-equation left-hand side *)
  Fixpoint vmul (x y : list R) : list R :=
    match x, y with
    | a :: x', b :: y' => rmul a b :: vmul x' y'
    | _, _ => []
    end.
End Defs.
Arguments vsub {R} rsub x y.
Arguments vmul {R} rmul x y.
Arguments resid {R} r0 radd rmul rsub X y b.
Arguments rss {R} r0 radd rmul rsub X y b.
Arguments normal_eq {R} r0 radd rmul rsub p X y b.

(* ------------------------------------------------------------------ theory *)
Section RingLin.
  Variable R : Type.
  Variables (r0 r1 : R) (radd rmul rsub : R -> R -> R) (ropp : R -> R).
  Hypothesis Rth : ring_theory r0 r1 radd rmul rsub ropp (@eq R).
  Add Ring Rring5 : Rth.

  Local Notation vec := (list R).
  Local Notation mat := (list (list R)).
  Local Notation Dot := (dot r0 radd rmul).
  Local Notation Vadd := (vadd radd).
  Local Notation Vsub := (vsub rsub).
  Local Notation Vscale := (vscale rmul).
  Local Notation Vzero := (vzero r0).
  Local Notation Mv := (mv r0 radd rmul).
  Local Notation Vm := (vm r0 radd rmul).
  Local Notation Mm := (mm r0 radd rmul).
  Local Notation Col := (col r0).
  Local Notation Unit := (unit_vec r0 r1).
  Local Notation Resid := (resid r0 radd rmul rsub).
  Local Notation Rss := (rss r0 radd rmul rsub).
  Local Notation Normal := (normal_eq r0 radd rmul rsub).
  Local Notation Dot_comm := (dot_comm R r0 r1 radd rmul rsub ropp Rth).
  Local Notation Dot_vadd_l := (dot_vadd_l R r0 r1 radd rmul rsub ropp Rth).
  Local Notation Dot_vscale_l := (dot_vscale_l R r0 r1 radd rmul rsub ropp Rth).
  Local Notation Dot_vm := (dot_vm R r0 r1 radd rmul rsub ropp Rth).
  Local Notation Dot_vzero_l := (dot_vzero_l R r0 r1 radd rmul rsub ropp Rth).
  Local Notation Dot_unit := (dot_unit R r0 r1 radd rmul rsub ropp Rth).
  Local Notation Mv_mm := (mv_mm R r0 r1 radd rmul rsub ropp Rth).

  (* ---------------------------------------------------------------- vectors *)
  Lemma vsub_length x y : length x = length y -> length (Vsub x y) = length x.
  Proof.
    revert y; induction x as [|a x IH]; intros [|b y]; simpl; intros H; try discriminate; auto.
  Qed.

  Lemma dot_vsub_l u v x : length u = length v -> Dot (Vsub u v) x = rsub (Dot u x) (Dot v x).
  Proof.
    revert v x; induction u as [|a u IH]; intros [|b v] [|c x]; simpl; intros H;
      try discriminate; try ring.
    rewrite IH by (injection H; auto). ring.
  Qed.

  Lemma dot_vsub_r x u v : length u = length v -> Dot x (Vsub u v) = rsub (Dot x u) (Dot x v).
  Proof.
    intros H. rewrite (Dot_comm x (Vsub u v)), (Dot_comm x u), (Dot_comm x v).
    now apply dot_vsub_l.
  Qed.

  Lemma dot_vadd_r x u v : length u = length v -> Dot x (Vadd u v) = radd (Dot x u) (Dot x v).
  Proof.
    intros H. rewrite (Dot_comm x (Vadd u v)), (Dot_comm x u), (Dot_comm x v).
    now apply Dot_vadd_l.
  Qed.

  Lemma dot_vscale_r c x u : Dot x (Vscale c u) = rmul c (Dot x u).
  Proof. rewrite (Dot_comm x (Vscale c u)), (Dot_comm x u). apply Dot_vscale_l. Qed.

  Lemma mv_vsub A x y : length x = length y -> Mv A (Vsub x y) = Vsub (Mv A x) (Mv A y).
  Proof.
    intros H. unfold mv. induction A as [|r A IH]; simpl; [reflexivity|].
    rewrite IH. f_equal. now apply dot_vsub_r.
  Qed.

  Lemma mv_vscale A c x : Mv A (Vscale c x) = Vscale c (Mv A x).
  Proof.
    unfold mv. induction A as [|r A IH]; simpl; [reflexivity|].
    rewrite IH. f_equal. apply dot_vscale_r.
  Qed.

  Lemma vsub_split y a c :
    length y = length a -> length a = length c -> Vsub y c = Vadd (Vsub y a) (Vsub a c).
  Proof.
    revert a c; induction y as [|u y IH]; intros [|v a] [|w c]; simpl; intros H1 H2;
      try discriminate; [reflexivity|].
    f_equal; [ring|]. apply IH; [injection H1; auto|injection H2; auto].
  Qed.

  Lemma vsub_vscale c y u : Vsub (Vscale c y) (Vscale c u) = Vscale c (Vsub y u).
  Proof.
    revert u; induction y as [|a y IH]; intros [|b u]; simpl; try reflexivity.
    f_equal; [ring|]. apply IH.
  Qed.

  Lemma vsub_eq_zero u v : length u = length v -> Vsub u v = Vzero (length u) -> u = v.
  Proof.
    revert v; induction u as [|a u IH]; intros [|b v]; simpl; intros H E; try discriminate;
      [reflexivity|].
    unfold vzero in *. cbn [repeat] in E. injection E as E1 E2.
    f_equal.
    - transitivity (radd (rsub a b) b); [ring|rewrite E1; ring].
    - apply IH; [injection H; auto|exact E2].
  Qed.

  Lemma vsub_self u : Vsub u u = Vzero (length u).
  Proof.
    unfold vzero. induction u as [|a u IH]; simpl; [reflexivity|]. f_equal; [ring|exact IH].
  Qed.

  Lemma nth_vzero n j : nth j (Vzero n) r0 = r0.
  Proof.
    unfold vzero. revert j; induction n as [|n IH]; intros [|j]; simpl; auto.
  Qed.

  Lemma nth_vadd u v j :
    length u = length v -> nth j (Vadd u v) r0 = radd (nth j u r0) (nth j v r0).
  Proof.
    revert v j; induction u as [|a u IH]; intros [|b v] [|j]; simpl; intros H;
      try discriminate; try ring.
    apply IH. injection H; auto.
  Qed.

  Lemma nth_vscale c u j : nth j (Vscale c u) r0 = rmul c (nth j u r0).
  Proof.
    unfold vscale. revert j; induction u as [|a u IH]; intros [|j]; simpl; try ring. apply IH.
  Qed.

  Lemma nth_vsub u v j :
    length u = length v -> nth j (Vsub u v) r0 = rsub (nth j u r0) (nth j v r0).
  Proof.
    revert v j; induction u as [|a u IH]; intros [|b v] [|j]; simpl; intros H;
      try discriminate; try ring.
    apply IH. injection H; auto.
  Qed.

  (* a vector all of whose coordinates vanish is the zero vector *)
  Lemma vec_zero_ext p v : length v = p -> (forall k, k < p -> nth k v r0 = r0) -> v = Vzero p.
  Proof.
    intros Hl H. apply nth_ext with (d := r0) (d' := r0).
    - now rewrite vzero_length.
    - intros k Hk. rewrite nth_vzero. apply H. lia.
  Qed.

  Lemma unit_length n k : length (Unit n k) = n.
  Proof. unfold unit_vec. now rewrite map_length, seq_length. Qed.

  (* ---------------------------------------------------------------- columns *)
  Lemma nth_vm c x B j :
    rows_len c B -> j < c -> nth j (Vm c x B) r0 = Dot x (Col j B).
  Proof.
    revert B; induction x as [|a x IH]; intros [|r B] H Hj; cbn [vm col map dot];
      try apply nth_vzero.
    inversion H as [|? ? Hr HB]; subst.
    rewrite nth_vadd by (rewrite vscale_length, vm_length; auto).
    rewrite nth_vscale. rewrite IH by assumption. reflexivity.
  Qed.

  Lemma col_mm c A B j : rows_len c B -> j < c -> Col j (Mm c A B) = Mv A (Col j B).
  Proof.
    intros H Hj. unfold mm, mv. unfold col at 1. rewrite map_map. apply map_ext.
    intros r. now apply nth_vm.
  Qed.

  Lemma col_length j A : length (Col j A) = length A.
  Proof. apply map_length. Qed.

  (* ---------------------------------------------------------------- normal equations *)
  Lemma resid_length n X y b : length X = n -> length y = n -> length (Resid X y b) = n.
  Proof.
    intros HX Hy. unfold resid. rewrite vsub_length; [exact Hy|]. now rewrite mv_length, HX.
  Qed.

  Lemma normal_orth p X r d : rows_len p X -> Vm p r X = Vzero p -> Dot r (Mv X d) = r0.
  Proof.
    intros HX H. rewrite <- (Dot_vm p r X d HX). rewrite H. apply Dot_vzero_l.
  Qed.

  (* X^T r = 0  iff  r is orthogonal to every vector X d of the column space *)
  Lemma normal_iff_orth p X r :
    rows_len p X ->
    (Vm p r X = Vzero p <-> forall d, length d = p -> Dot r (Mv X d) = r0).
  Proof.
    intros HX. split.
    - intros H d _. now apply normal_orth with (p := p).
    - intros H. apply vec_zero_ext; [now apply vm_length|].
      intros k Hk. rewrite <- (Dot_unit p k _ Hk). rewrite Dot_comm.
      rewrite (Dot_vm p r X _ HX). apply H. apply unit_length.
  Qed.

  (* residuals are orthogonal to every column of the design *)
  Lemma resid_orth_columns p X y b j :
    rows_len p X -> j < p -> Normal p X y b -> Dot (Col j X) (Resid X y b) = r0.
  Proof.
    intros HX Hj H. unfold normal_eq in H. rewrite Dot_comm.
    rewrite <- (nth_vm p _ X j HX Hj). rewrite H. apply nth_vzero.
  Qed.

  (* ... and to the fitted values *)
  Lemma resid_orth_fitted p X y b :
    rows_len p X -> Normal p X y b -> Dot (Resid X y b) (Mv X b) = r0.
  Proof. intros HX H. now apply normal_orth with (p := p). Qed.

  (* Pythagoras: RSS(b') = RSS(b) + |X (b - b')|^2 when b solves the normal equations *)
  Lemma rss_pythagoras n p X y b b' :
    length X = n -> rows_len p X -> length y = n -> length b = length b' ->
    Normal p X y b ->
    Rss X y b' = radd (Rss X y b) (Dot (Mv X (Vsub b b')) (Mv X (Vsub b b'))).
  Proof.
    intros Hn HX Hy Hb H. unfold rss.
    assert (E : Resid X y b' = Vadd (Resid X y b) (Mv X (Vsub b b'))).
    { unfold resid. rewrite (mv_vsub X b b' Hb).
      apply vsub_split; rewrite !mv_length; congruence. }
    rewrite E. set (r := Resid X y b). set (w := Mv X (Vsub b b')).
    assert (Lr : length r = length w).
    { unfold r, w. rewrite (resid_length n) by assumption. now rewrite mv_length. }
    assert (Z1 : Dot r w = r0) by (unfold w; now apply normal_orth with (p := p)).
    assert (Z2 : Dot w r = r0) by (now rewrite Dot_comm).
    rewrite (Dot_vadd_l r w _ Lr), (dot_vadd_r r r w Lr), (dot_vadd_r w r w Lr), Z1, Z2. ring.
  Qed.

  (* positive (indeed any) rescaling of the data rescales the fit *)
  Theorem scale_equivariant n p X y b c :
    length X = n -> rows_len p X -> length y = n ->
    Normal p X y b ->
    Normal p X (Vscale c y) (Vscale c b)
    /\ Mv X (Vscale c b) = Vscale c (Mv X b)
    /\ Rss X (Vscale c y) (Vscale c b) = rmul (rmul c c) (Rss X y b).
  Proof.
    intros Hn HX Hy H.
    assert (E : Resid X (Vscale c y) (Vscale c b) = Vscale c (Resid X y b)).
    { unfold resid. rewrite mv_vscale. apply vsub_vscale. }
    split; [|split].
    - unfold normal_eq. rewrite E. apply (normal_iff_orth p X _ HX). intros d Hd.
      rewrite Dot_vscale_l. rewrite (normal_orth p X _ d HX H). ring.
    - apply mv_vscale.
    - unfold rss. rewrite E, Dot_vscale_l, dot_vscale_r. ring.
  Qed.

  (* the Moore-Penrose contract of the pseudo-inverse oracle P = pinv(X):
       X P X = X        and     X P symmetric
     makes b = P y a solution of the normal equations (any rank). *)
  Theorem pinv_solves_normal_eq n p X P y :
    length X = n -> rows_len p X -> length y = n ->
    (forall d, length d = p -> Mv X (Mv P (Mv X d)) = Mv X d) ->
    (forall u v, length u = n -> length v = n ->
                 Dot u (Mv X (Mv P v)) = Dot (Mv X (Mv P u)) v) ->
    Normal p X y (Mv P y).
  Proof.
    intros Hn HX Hy H1 H2. apply (normal_iff_orth p X _ HX). intros d Hd.
    unfold resid. rewrite dot_vsub_l by (now rewrite mv_length, Hn).
    rewrite (Dot_comm (Mv X (Mv P y)) (Mv X d)).
    rewrite (H2 (Mv X d) y) by (try assumption; now rewrite mv_length).
    rewrite (H1 d Hd). rewrite (Dot_comm (Mv X d) y). ring.
  Qed.

  (* weighted normal equations: whitening the rows by c_i with c_i^2 = w_i turns
     X^T diag(w) (y - X b) = 0 into the ordinary normal equations *)
  Lemma vm_row_scaled p (cs r : vec) (X : mat) :
    rows_len p X -> length cs = length X -> length r = length X ->
    Vm p (vmul rmul cs r) (map (fun cr => Vscale (fst cr) (snd cr)) (combine cs X))
    = Vm p (vmul rmul (vmul rmul cs cs) r) X.
  Proof.
    revert cs r; induction X as [|x X IH]; intros [|c cs] [|a r] HX Hc Hr;
      simpl in *; try discriminate; try reflexivity.
    inversion HX as [|? ? Hx HX']; subst.
    rewrite IH by (auto; lia). f_equal.
    unfold vscale. rewrite map_map. apply map_ext. intros z. ring.
  Qed.
End RingLin.

(* ------------------------------------------------------------------ order: optimality *)
Section OrdLin.
  Variable R : Type.
  Variables (r0 r1 : R) (radd rmul rsub : R -> R -> R) (ropp : R -> R).
  Hypothesis Rth : ring_theory r0 r1 radd rmul rsub ropp (@eq R).
  Add Ring Rring7 : Rth.
  Variable rle : R -> R -> Prop.
  Hypothesis rle_refl : forall a, rle a a.
  Hypothesis rle_trans : forall a b c, rle a b -> rle b c -> rle a c.
  Hypothesis rle_antisym : forall a b, rle a b -> rle b a -> a = b.
  Hypothesis rle_add : forall a b c, rle a b -> rle (radd c a) (radd c b).
  Hypothesis sq_nonneg : forall a, rle r0 (rmul a a).
  Hypothesis sq_zero : forall a, rmul a a = r0 -> a = r0.

  Local Notation vec := (list R).
  Local Notation mat := (list (list R)).
  Local Notation Dot := (dot r0 radd rmul).
  Local Notation Vadd := (vadd radd).
  Local Notation Vsub := (vsub rsub).
  Local Notation Vscale := (vscale rmul).
  Local Notation Vzero := (vzero r0).
  Local Notation Mv := (mv r0 radd rmul).
  Local Notation Vm := (vm r0 radd rmul).
  Local Notation Mm := (mm r0 radd rmul).
  Local Notation Col := (col r0).
  Local Notation Unit := (unit_vec r0 r1).
  Local Notation Resid := (resid r0 radd rmul rsub).
  Local Notation Rss := (rss r0 radd rmul rsub).
  Local Notation Normal := (normal_eq r0 radd rmul rsub).
  Local Notation Dot_comm := (dot_comm R r0 r1 radd rmul rsub ropp Rth).
  Local Notation Dot_vadd_l := (dot_vadd_l R r0 r1 radd rmul rsub ropp Rth).
  Local Notation Dot_vscale_l := (dot_vscale_l R r0 r1 radd rmul rsub ropp Rth).
  Local Notation Dot_vm := (dot_vm R r0 r1 radd rmul rsub ropp Rth).
  Local Notation Dot_vzero_l := (dot_vzero_l R r0 r1 radd rmul rsub ropp Rth).
  Local Notation Dot_unit := (dot_unit R r0 r1 radd rmul rsub ropp Rth).
  Local Notation Mv_mm := (mv_mm R r0 r1 radd rmul rsub ropp Rth).

  Local Notation rss_pythagoras := (rss_pythagoras R r0 r1 radd rmul rsub ropp Rth).
  Local Notation mv_vsub := (mv_vsub R r0 r1 radd rmul rsub ropp Rth).
  Local Notation vsub_eq_zero := (vsub_eq_zero R r0 r1 radd rmul rsub ropp Rth).
  Local Notation vsub_length := (vsub_length R rsub).

  Lemma le_add_nonneg a s : rle r0 s -> rle a (radd a s).
  Proof.
    intros H. pose proof (rle_add r0 s a H) as H1.
    replace (radd a r0) with a in H1 by ring. exact H1.
  Qed.

  (* a sum of squares is non-negative ... *)
  Lemma sumsq_nonneg w : rle r0 (Dot w w).
  Proof.
    induction w as [|a w IH]; cbn [dot]; [apply rle_refl|].
    apply rle_trans with (rmul a a); [apply sq_nonneg|]. now apply le_add_nonneg.
  Qed.

  (* ... and vanishes only for the zero vector *)
  Lemma sumsq_zero w : Dot w w = r0 -> w = Vzero (length w).
  Proof.
    induction w as [|a w IH]; cbn [dot]; intros H; [reflexivity|].
    assert (Ha : rmul a a = r0).
    { apply rle_antisym; [|apply sq_nonneg].
      apply rle_trans with (radd (rmul a a) (Dot w w)).
      - apply le_add_nonneg, sumsq_nonneg.
      - rewrite H. apply rle_refl. }
    assert (Hw : Dot w w = r0).
    { transitivity (radd (rmul a a) (Dot w w)); [rewrite Ha; ring|exact H]. }
    unfold vzero in *. cbn [length repeat]. f_equal; [now apply sq_zero|now apply IH].
  Qed.

  Theorem normal_eq_optimal n p X y b b' :
    length X = n -> rows_len p X -> length y = n -> length b = length b' ->
    Normal p X y b -> rle (Rss X y b) (Rss X y b').
  Proof.
    intros Hn HX Hy Hb H. rewrite (rss_pythagoras n p X y b b') by assumption.
    apply le_add_nonneg, sumsq_nonneg.
  Qed.

  Theorem normal_eq_equality n p X y b b' :
    length X = n -> rows_len p X -> length y = n -> length b = length b' ->
    Normal p X y b -> (Rss X y b' = Rss X y b <-> Mv X b' = Mv X b).
  Proof.
    intros Hn HX Hy Hb H. split.
    - intros E. rewrite (rss_pythagoras n p X y b b') in E by assumption.
      set (w := Mv X (Vsub b b')) in *.
      assert (W : Dot w w = r0).
      { transitivity (rsub (radd (Rss X y b) (Dot w w)) (Rss X y b)); [ring|rewrite E; ring]. }
      apply sumsq_zero in W. unfold w in W. rewrite (mv_vsub X b b' Hb) in W.
      rewrite vsub_length in W by (now rewrite !mv_length).
      symmetry. apply vsub_eq_zero; [now rewrite !mv_length|exact W].
    - intros E. unfold rss, resid. now rewrite E.
  Qed.

  (* fitted values and RSS depend only on the column space: if X2 = X1 M and
     X1 = X2 N (in particular X2 = X1 M with M invertible), normal-equation
     solutions for the two designs give the same fit. *)
  Theorem fitted_unique_on_colspace n p q X1 X2 M N y b1 b2 :
    length X1 = n -> rows_len p X1 -> rows_len q X2 ->
    length M = p -> rows_len q M -> length N = q -> rows_len p N ->
    X2 = Mm q X1 M -> X1 = Mm p X2 N ->
    length y = n -> length b1 = p -> length b2 = q ->
    Normal p X1 y b1 -> Normal q X2 y b2 ->
    Mv X1 b1 = Mv X2 b2 /\ Rss X1 y b1 = Rss X2 y b2.
  Proof.
    intros Hn H1 H2 HM HMr HN HNr E2 E1 Hy Hb1 Hb2 N1 N2.
    assert (Hn2 : length X2 = n) by (rewrite E2, mm_length; exact Hn).
    assert (F2 : Mv X2 b2 = Mv X1 (Mv M b2)) by (rewrite E2; now apply Mv_mm).
    assert (F1 : Mv X1 b1 = Mv X2 (Mv N b1)) by (rewrite E1 at 1; now apply Mv_mm).
    assert (R2 : Rss X2 y b2 = Rss X1 y (Mv M b2)) by (unfold rss, resid; now rewrite F2).
    assert (R1 : Rss X1 y b1 = Rss X2 y (Mv N b1)) by (unfold rss, resid; now rewrite F1).
    assert (L1 : rle (Rss X1 y b1) (Rss X2 y b2)).
    { rewrite R2. apply (normal_eq_optimal n p); try assumption. now rewrite mv_length, HM. }
    assert (L2 : rle (Rss X2 y b2) (Rss X1 y b1)).
    { rewrite R1. apply (normal_eq_optimal n q); try assumption. now rewrite mv_length, HN. }
    assert (Eq : Rss X1 y b1 = Rss X2 y b2) by (now apply rle_antisym).
    split; [|exact Eq].
    rewrite F2. symmetry.
    apply (normal_eq_equality n p X1 y b1 (Mv M b2)); try assumption.
    - now rewrite mv_length, HM.
    - now rewrite <- R2.
  Qed.

End OrdLin.

(* ------------------------------------------------------------------ certified solver *)
(* Gauss-Jordan elimination over a field with decidable equality.  Nothing is
   proved about the elimination itself: [solve_normal] returns a vector only
   after checking that it satisfies the normal equations, so soundness is by
   construction (and needs only that [reqb] reflects equality). *)
Section Solver.
  Variable R : Type.
  Variables (r0 r1 : R) (radd rmul rsub rdiv : R -> R -> R).
  Variable reqb : R -> R -> bool.

  Local Notation vec := (list R).
  Local Notation mat := (list (list R)).

  Fixpoint veqb (a b : vec) : bool :=
    match a, b with
    | [], [] => true
    | x :: a', y :: b' => reqb x y && veqb a' b'
    | _, _ => false
    end.

  Fixpoint pick (k : nat) (rows : mat) : option (vec * mat) :=
    match rows with
    | [] => None
    | r :: rs =>
        if reqb (nth k r r0) r0
        then match pick k rs with
             | Some (pv, rest) => Some (pv, r :: rest)
             | None => None
             end
        else Some (r, rs)
    end.

  Definition elim (k : nat) (pv row : vec) : vec :=
    vsub rsub row (vscale rmul (nth k row r0) pv).

  Fixpoint gj (steps k : nat) (done todo : mat) : option mat :=
    match steps with
    | O => Some done
    | S s =>
        match pick k todo with
        | None => None
        | Some (pv, rest) =>
            let pv' := vscale rmul (rdiv r1 (nth k pv r0)) pv in
            gj s (S k) (map (elim k pv') done ++ [pv']) (map (elim k pv') rest)
        end
    end.

  (* solve the p x p system whose augmented matrix is A (p rows of length p+1) *)
  Definition solve_sq (p : nat) (A : mat) : option vec :=
    match gj p 0 [] A with
    | Some rows => Some (map (fun r => nth p r r0) rows)
    | None => None
    end.

  (* [X^T X | X^T y] *)
  Definition gram_aug (p : nat) (X : mat) (y : vec) : mat :=
    map (fun j => map (fun k => dot r0 radd rmul (col r0 j X) (col r0 k X)) (seq 0 p)
                  ++ [dot r0 radd rmul (col r0 j X) y]) (seq 0 p).

  Definition solve_normal (p : nat) (X : mat) (y : vec) : option vec :=
    match solve_sq p (gram_aug p X y) with
    | Some b =>
        if Nat.eqb (length b) p
           && veqb (vm r0 radd rmul p (resid r0 radd rmul rsub X y b) X) (vzero r0 p)
        then Some b else None
    | None => None
    end.

  Hypothesis reqb_true : forall a b, reqb a b = true -> a = b.

  Lemma veqb_true a b : veqb a b = true -> a = b.
  Proof.
    revert b; induction a as [|x a IH]; intros [|y b]; simpl; intros H; try discriminate;
      [reflexivity|].
    apply andb_true_iff in H. destruct H as [H1 H2].
    f_equal; [now apply reqb_true|now apply IH].
  Qed.

  Theorem solve_normal_sound p X y b :
    solve_normal p X y = Some b -> length b = p /\ normal_eq r0 radd rmul rsub p X y b.
  Proof.
    unfold solve_normal. destruct (solve_sq p (gram_aug p X y)) as [b'|]; [|discriminate].
    destruct (Nat.eqb (length b') p && veqb _ _) eqn:E; [|discriminate].
    intros H. injection H as <-. apply andb_true_iff in E. destruct E as [E1 E2].
    split; [now apply Nat.eqb_eq|]. unfold normal_eq. now apply veqb_true.
  Qed.
End Solver.
Arguments veqb {R} reqb a b.
Arguments solve_normal {R} r0 r1 radd rmul rsub rdiv reqb p X y.
Arguments solve_sq {R} r0 r1 rmul rsub rdiv reqb p A.
Arguments gram_aug {R} r0 radd rmul p X y.
