(* C08 - syntax of the fragments that harness/translate/affineclasses.py
   extracts from nipy/algorithms/registration/{affine,chain_transform}.py.
   Only data types: the generated tables (NV.Generated.AffineClasses) are
   values of these types, NV.C08.Model gives them their meaning. *)
From Coq Require Import String List.
Import ListNotations.

(* --- Affine.compose: the if/elif/else chain that selects the result class *)
Inductive sel_test :=
| SelfSubOther                 (* self_inds.issubset(other_inds) *)
| OtherSubSelf                 (* other_inds.issubset(self_inds) *)
| TestRaises (attr : string).  (* <set>.attr where `set` has no such attribute: AttributeError *)
Inductive sel_choice :=
| KSelf                        (* self.__class__ *)
| KOther                       (* other.__class__ *)
| KConst (name : string).      (* a class named in the source *)

(* --- preconditioner(): symbolic entries; _get_param/_set_param operator *)
Inductive pc_sym := POne | PRad | PSca.
Inductive pc_op := PDiv | PMul.

(* --- to_matrix44: expression assigned to T[0:3,0:3] *)
Inductive mexpr :=
| MRot (start : nat)           (* rotation_vec2mat(t[start:start+3]) *)
| MDiagExp (start : nat)       (* np.diag(np.exp(threshold(t[start:start+3], LOG_MAX_DIST))) *)
| MDot (a b : mexpr)           (* np.dot(a, b) *)
| MScaleBy (idx : nat) (a : mexpr).  (* t[idx] * a *)

(* --- from_matrix44: events in program order.  Matrix variables: for the
   SVD variant 0 = first factor (R), 1 = last factor (Q); for the
   variants that use aff[:3,:3] directly 0 = that matrix. *)
Inductive fx_event :=
| FxNegIf (test : nat) (negs : list nat) (clear_direct : bool)
    (* if det(var test) < 0: negate every var in negs; if clear_direct: self._direct = False *)
| FxTake (var : nat) (slot : nat) (scaled : bool)
    (* vec12[slot:slot+3] = rotation_mat2vec(var)   (var / s when scaled) *)
| FxSetDirect (b : bool).
    (* unconditional self._direct = b *)
Inductive fx_kind := FSvd | FLin.
Inductive fx_scale := ScSvd | ScUnit | ScCubeRoot.
Record fx_prog := { fx_factor : fx_kind; fx_events : list fx_event; fx_sc : fx_scale }.

(* --- ChainTransform.apply: nested compose expression *)
Inductive cexpr :=
| CLeaf (attr : string)        (* self.<attr> *)
| CComp (a b : cexpr).         (* a.compose(b) *)

(* --- Transform.compose (generic callables): body of the lambda wrapped in the returned Transform *)
Inductive gexpr :=
| GPts                         (* the lambda's argument *)
| GSelf (e : gexpr)            (* self.apply(e) *)
| GOther (e : gexpr).          (* other.apply(e) *)
