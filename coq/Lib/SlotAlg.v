(* Slot algebra: the list expressions the slice-timing translator emits, their
   evaluation, and the generic facts (ranges, argsort of a permutation, rev). *)
From Coq Require Import String.
From Coq Require Import List Arith Lia Bool Permutation PeanoNat.
Import ListNotations.

Inductive sexpr :=
| SArange
| SRange (a s : nat)
| SApp (x y : sexpr)
| SArgsort (x : sexpr)
| SRev (x : sexpr)
| SCall (f : string)
| SIfEven (x y : sexpr).

(* Python range(a, n, s) for s >= 1 *)
Definition range_count (a s n : nat) : nat := (n - a + (s - 1)) / s.
Definition range_step (a s n : nat) : list nat :=
  map (fun k => a + k * s) (seq 0 (range_count a s n)).

Fixpoint index_of (v : nat) (l : list nat) : nat :=
  match l with
  | [] => 0
  | x :: r => if Nat.eqb x v then 0 else S (index_of v r)
  end.

(* np.argsort restricted to permutations of 0..n-1: the inverse permutation *)
Definition argsort (l : list nat) : list nat :=
  map (fun i => index_of i l) (seq 0 (length l)).

Fixpoint lookup (tbl : list (string * sexpr)) (f : string) : option sexpr :=
  match tbl with
  | [] => None
  | (g, e) :: r => if String.eqb g f then Some e else lookup r f
  end.

(* replace calls by their bodies; fuel bounds the total depth (expression
   nesting plus call nesting); None when exhausted or a name is unknown *)
Fixpoint inline (tbl : list (string * sexpr)) (fuel : nat) (e : sexpr) {struct fuel} : option sexpr :=
  match fuel with
  | O => None
  | S fuel' =>
    match e with
    | SArange => Some SArange
    | SRange a s => Some (SRange a s)
    | SApp x y => match inline tbl fuel' x, inline tbl fuel' y with
                  | Some x', Some y' => Some (SApp x' y') | _, _ => None end
    | SArgsort x => option_map SArgsort (inline tbl fuel' x)
    | SRev x => option_map SRev (inline tbl fuel' x)
    | SIfEven x y => match inline tbl fuel' x, inline tbl fuel' y with
                     | Some x', Some y' => Some (SIfEven x' y') | _, _ => None end
    | SCall f => match lookup tbl f with
                 | Some b => inline tbl fuel' b
                 | None => None
                 end
    end
  end.

(* evaluation of a call-free expression *)
Fixpoint eval (n : nat) (e : sexpr) : list nat :=
  match e with
  | SArange => seq 0 n
  | SRange a s => range_step a s n
  | SApp x y => eval n x ++ eval n y
  | SArgsort x => argsort (eval n x)
  | SRev x => rev (eval n x)
  | SCall _ => []
  | SIfEven x y => if Nat.even n then eval n x else eval n y
  end.

Definition eval_in (tbl : list (string * sexpr)) (fuel n : nat) (e : sexpr) : option (list nat) :=
  option_map (eval n) (inline tbl fuel e).

(* ---------------------------------------------------------------- ranges *)
Lemma nth_map_seq (f : nat -> nat) n j d : j < n -> nth j (map f (seq 0 n)) d = f j.
Proof.
  intros H. rewrite nth_indep with (d' := f 0) by (now rewrite map_length, seq_length).
  rewrite map_nth, seq_nth by exact H. reflexivity.
Qed.

Lemma range_step_length a s n : length (range_step a s n) = range_count a s n.
Proof. unfold range_step. now rewrite map_length, seq_length. Qed.

Lemma range_step_nth a s n j :
  j < range_count a s n -> nth j (range_step a s n) 0 = a + j * s.
Proof.
  intros H. unfold range_step. now rewrite nth_map_seq.
Qed.

Lemma range_count_lt a s n j : 0 < s -> j < range_count a s n -> a + j * s < n.
Proof.
  unfold range_count. intros Hs Hj.
  assert (Hd := Nat.div_mod (n - a + (s - 1)) s ltac:(lia)).
  assert (Hm := Nat.mod_upper_bound (n - a + (s - 1)) s ltac:(lia)).
  nia.
Qed.

Lemma range_count_complete a s n j : 0 < s -> a + j * s < n -> j < range_count a s n.
Proof.
  unfold range_count. intros Hs Hj.
  assert (Hd := Nat.div_mod (n - a + (s - 1)) s ltac:(lia)).
  assert (Hm := Nat.mod_upper_bound (n - a + (s - 1)) s ltac:(lia)).
  nia.
Qed.

Lemma range_step_In a s n v :
  0 < s -> (In v (range_step a s n) <-> (exists j, v = a + j * s /\ v < n)).
Proof.
  intros Hs. unfold range_step. rewrite in_map_iff. split.
  - intros [j [<- Hj]]. apply in_seq in Hj. exists j. split; [reflexivity|].
    apply range_count_lt; lia.
  - intros [j [-> Hv]]. exists j. split; [reflexivity|]. apply in_seq.
    split; [lia|]. simpl. now apply range_count_complete.
Qed.

Lemma range_step_NoDup a s n : 0 < s -> NoDup (range_step a s n).
Proof.
  intros Hs. unfold range_step.
  apply FinFun.Injective_map_NoDup; [|apply seq_NoDup].
  intros x y H. nia.
Qed.

(* evens ++ odds, in either order, is a permutation of 0..n-1 *)
Lemma mod2_cases v : (exists j, v = 0 + j * 2) \/ (exists j, v = 1 + j * 2).
Proof.
  destruct (Nat.even v) eqn:E.
  - left. apply Nat.even_spec in E. destruct E as [k ->]. exists k. lia.
  - right. assert (O : Nat.odd v = true) by (unfold Nat.odd; now rewrite E).
    apply Nat.odd_spec in O. destruct O as [k ->]. exists k. lia.
Qed.

Lemma NoDup_app_intro {A} (l1 l2 : list A) :
  NoDup l1 -> NoDup l2 -> (forall x, In x l1 -> In x l2 -> False) -> NoDup (l1 ++ l2).
Proof.
  induction l1 as [|x l1 IH]; simpl; intros H1 H2 Hd; [exact H2|].
  inversion H1 as [|? ? Hx H1']; subst. constructor.
  - rewrite in_app_iff. intros [Hin|Hin]; [contradiction|]. apply (Hd x); auto.
  - apply IH; auto. intros y Hy1 Hy2. apply (Hd y); auto.
Qed.

Lemma evens_odds_perm a b n :
  a + b = 1 -> Permutation (range_step a 2 n ++ range_step b 2 n) (seq 0 n).
Proof.
  intros Hab.
  assert (ND : NoDup (range_step a 2 n ++ range_step b 2 n)).
  { apply NoDup_app_intro; try (apply range_step_NoDup; lia).
    intros x Hx Hy. apply range_step_In in Hx; [|lia]. apply range_step_In in Hy; [|lia].
    destruct Hx as [j [Hj _]], Hy as [k [Hk _]]. lia. }
  apply Permutation_sym. apply NoDup_Permutation_bis.
  - apply seq_NoDup.
  - apply NoDup_incl_length; [exact ND|].
    intros x Hx. apply in_seq. split; [lia|]. simpl.
    apply in_app_iff in Hx. destruct Hx as [Hx|Hx]; apply range_step_In in Hx; try lia;
      destruct Hx as [_ [_ H]]; exact H.
  - intros x Hx. apply in_seq in Hx. apply in_app_iff.
    destruct (mod2_cases x) as [[j Hj]|[j Hj]];
      (assert (a = 0 /\ b = 1 \/ a = 1 /\ b = 0) as [[-> ->]|[-> ->]] by lia);
      [left|right|right|left]; apply range_step_In; try lia; exists j; lia.
Qed.

(* ---------------------------------------------------------------- argsort *)
Lemma index_of_nth l : NoDup l -> forall k, k < length l -> index_of (nth k l 0) l = k.
Proof.
  induction l as [|x l IH]; simpl; intros ND k Hk; [lia|].
  inversion ND as [|? ? Hx ND']; subst.
  destruct k as [|k].
  - now rewrite Nat.eqb_refl.
  - destruct (Nat.eqb_spec x (nth k l 0)) as [E|E].
    + exfalso. apply Hx. rewrite E. apply nth_In. lia.
    + f_equal. apply IH; [exact ND'|lia].
Qed.

Lemma index_of_In v l : In v l -> index_of v l < length l /\ nth (index_of v l) l 0 = v.
Proof.
  induction l as [|x l IH]; simpl; [tauto|]. intros [->|H].
  - rewrite Nat.eqb_refl. split; [lia|reflexivity].
  - destruct (Nat.eqb_spec x v) as [E|E]; [split; [lia|exact E]|].
    destruct (IH H) as [H1 H2]. split; [lia|exact H2].
Qed.

Lemma argsort_length l : length (argsort l) = length l.
Proof. unfold argsort. now rewrite map_length, seq_length. Qed.

Lemma argsort_nth l i : i < length l -> nth i (argsort l) 0 = index_of i l.
Proof.
  intros H. unfold argsort. now rewrite nth_map_seq.
Qed.

(* the slice acquired k-th (l[k]) is given slot k *)
Lemma argsort_inverse l n :
  Permutation l (seq 0 n) -> forall k, k < n -> nth (nth k l 0) (argsort l) 0 = k.
Proof.
  intros P k Hk.
  assert (Hlen : length l = n) by (rewrite (Permutation_length P); apply seq_length).
  assert (ND : NoDup l) by (eapply Permutation_NoDup; [apply Permutation_sym; exact P|apply seq_NoDup]).
  assert (Hin : nth k l 0 < length l).
  { rewrite Hlen. assert (In (nth k l 0) (seq 0 n)).
    { eapply Permutation_in; [exact P|]. apply nth_In. lia. }
    apply in_seq in H. lia. }
  rewrite argsort_nth by exact Hin. apply index_of_nth; [exact ND|lia].
Qed.

Lemma argsort_perm l n : Permutation l (seq 0 n) -> Permutation (argsort l) (seq 0 n).
Proof.
  intros P.
  assert (Hlen : length l = n) by (rewrite (Permutation_length P); apply seq_length).
  assert (ND : NoDup l) by (eapply Permutation_NoDup; [apply Permutation_sym; exact P|apply seq_NoDup]).
  assert (Hall : forall i, i < n -> In i l).
  { intros i Hi. eapply Permutation_in; [apply Permutation_sym; exact P|]. apply in_seq. lia. }
  apply Permutation_sym. apply NoDup_Permutation_bis.
  - apply seq_NoDup.
  - rewrite argsort_length, seq_length. lia.
  - intros x Hx. apply in_seq in Hx. unfold argsort. apply in_map_iff.
    (* x = index_of i l for i = nth x l 0 *)
    exists (nth x l 0). split.
    + apply index_of_nth; [exact ND|lia].
    + apply in_seq. split; [lia|]. simpl. rewrite Hlen.
      assert (In (nth x l 0) (seq 0 n)).
      { eapply Permutation_in; [exact P|]. apply nth_In. lia. }
      apply in_seq in H. lia.
Qed.

(* ------------------------------------------- a sound permutation-shape checker *)
Definition is_evens_odds (x y : sexpr) : bool :=
  match x, y with
  | SRange a 2, SRange b 2 => Nat.eqb (a + b) 1
  | _, _ => false
  end.

Fixpoint perm_shape (e : sexpr) : bool :=
  match e with
  | SArange => true
  | SRange _ _ => false
  | SApp x y => is_evens_odds x y
  | SArgsort x => perm_shape x
  | SRev x => perm_shape x
  | SCall _ => false
  | SIfEven x y => perm_shape x && perm_shape y
  end.

Lemma perm_shape_sound e : perm_shape e = true -> forall n, Permutation (eval n e) (seq 0 n).
Proof.
  induction e as [| a s | x IHx y IHy | x IHx | x IHx | f | x IHx y IHy]; simpl; intros H n;
    try discriminate.
  - apply Permutation_refl.
  - destruct x as [| a s | | | | |]; try discriminate.
    destruct s as [|[|[|s]]]; try discriminate.
    destruct y as [| b t | | | | |]; try discriminate.
    destruct t as [|[|[|t]]]; try discriminate.
    simpl in H. apply Nat.eqb_eq in H. simpl. now apply evens_odds_perm.
  - apply argsort_perm. now apply IHx.
  - eapply Permutation_trans; [apply Permutation_sym, Permutation_rev|]. now apply IHx.
  - apply andb_true_iff in H. destruct H as [Hx Hy]. destruct (Nat.even n); auto.
Qed.
