(* C20 - "no compiled kernel reads or writes outside the bounds of the arrays it
   is given": the index-safety theorems proved in the kernels' own developments
   (each model performs CHECKED accesses or states its index ranges explicitly),
   re-exported here as C20 obligations with their original statements.  The
   purity half of C20 (callers' data unchanged) is a check on sampled calls - see
   harness/props/c20.py.  When one of the imported developments no longer
   builds (its kernel source changed), these obligations break with it. *)
From NV.C09 Require Properties.
From NV.C13 Require Properties.
From NV.C16 Require Properties.
From NV.C17 Require Properties.
From NV.C12 Require Properties.
From NV.C02 Require Properties.

Ltac reexport L := let T := type of L in exact T.

(* joint_histogram.c (translated from source): a voxel passing the inside test reads J
   only inside the padded array, with non-negative weights *)
Theorem c20_joint_histogram_reads_in_bounds : ltac:(reexport NV.C09.Properties.inside_implies_in_bounds).
Proof. exact NV.C09.Properties.inside_implies_in_bounds. Qed.
Print Assumptions c20_joint_histogram_reads_in_bounds.

(* every H write index of the pv and tri updates lies in [0, clampI*clampJ) *)
Theorem c20_joint_histogram_writes_in_bounds : ltac:(reexport NV.C09.Properties.hist_writes_in_bounds).
Proof. exact NV.C09.Properties.hist_writes_in_bounds. Qed.
Print Assumptions c20_joint_histogram_writes_in_bounds.

(* voxels outside the grid or with negative intensity leave H (and the rand buffer) untouched *)
Theorem c20_joint_histogram_outside_untouched : ltac:(reexport NV.C09.Properties.only_inside_nonneg_contribute).
Proof. exact NV.C09.Properties.only_inside_nonneg_contribute. Qed.
Print Assumptions c20_joint_histogram_outside_untouched.

(* mrf.c (neighbour tables translated from source): every ppm index dereferenced by
   _ngb_integrate is inside the buffer, for any grid, table and centre voxel *)
Theorem c20_mrf_reads_in_bounds : ltac:(reexport NV.C13.Properties.ve_reads_in_bounds).
Proof. exact NV.C13.Properties.ve_reads_in_bounds. Qed.
Print Assumptions c20_mrf_reads_in_bounds.

Theorem c20_mrf_writes_in_bounds : ltac:(reexport NV.C13.Properties.ve_writes_in_bounds).
Proof. exact NV.C13.Properties.ve_writes_in_bounds. Qed.
Print Assumptions c20_mrf_writes_in_bounds.

(* quantile.c: the selection loops (checked accesses, explicit fuel) never fault and
   terminate for every array incl. ties, leaving a permutation of the input *)
Theorem c20_quantile_select_no_fault : ltac:(reexport NV.C16.Properties.pth_element_spec).
Proof. exact NV.C16.Properties.pth_element_spec. Qed.
Print Assumptions c20_quantile_select_no_fault.

(* strided buffers: distinct logical indices have distinct addresses inside the block;
   the all-but-axis fibres visit every element offset exactly once *)
Theorem c20_strided_layout : ltac:(reexport NV.C16.Properties.strided_layout).
Proof. exact NV.C16.Properties.strided_layout. Qed.
Print Assumptions c20_strided_layout.

Theorem c20_fibre_iteration_exact_cover : ltac:(reexport NV.C16.Properties.fibre_iteration_exact_cover).
Proof. exact NV.C16.Properties.fibre_iteration_exact_cover. Qed.
Print Assumptions c20_fibre_iteration_exact_cover.

(* cubic_spline.c: every coefficient index read is inside the array, in every boundary mode *)
Theorem c20_spline_mirror_index_in_bounds : ltac:(reexport NV.C16.Properties.mirror_index_in_bounds).
Proof. exact NV.C16.Properties.mirror_index_in_bounds. Qed.
Print Assumptions c20_spline_mirror_index_in_bounds.

Theorem c20_spline_sample_positions_in_bounds : ltac:(reexport NV.C16.Properties.sample_positions_in_bounds_all_modes).
Proof. exact NV.C16.Properties.sample_positions_in_bounds_all_modes. Qed.
Print Assumptions c20_spline_sample_positions_in_bounds.

(* fff_gen_stats.c: every generated permutation only contains indices 0..n-1 (each once) *)
Theorem c20_permutation_indices_in_range : ltac:(reexport NV.C17.Properties.permutation_is_perm).
Proof. exact NV.C17.Properties.permutation_is_perm. Qed.
Print Assumptions c20_permutation_indices_in_range.

Theorem c20_combination_indices_in_range : ltac:(reexport NV.C17.Properties.combination_sorted_subset).
Proof. exact NV.C17.Properties.combination_sorted_subset. Qed.
Print Assumptions c20_combination_indices_in_range.

(* Forest: an accepted parent array only holds indices 0..V-1 (no out-of-range walk), and the
   constructor never fails with an index error *)
Theorem c20_forest_parents_in_range : ltac:(reexport NV.C12.Properties.ctor_in_range).
Proof. exact NV.C12.Properties.ctor_in_range. Qed.
Print Assumptions c20_forest_parents_in_range.

(* a negative integer axis resolves inside [0, number of input axes) *)
Theorem c20_axis_index_in_range : ltac:(reexport NV.C02.Properties.input_axis_index_negative_in_range).
Proof. exact NV.C02.Properties.input_axis_index_negative_in_range. Qed.
Print Assumptions c20_axis_index_in_range.

(* ---- the two Cython kernels compiled without bounds checks, over the access
   traces / index arithmetic translated from the current .pyx text
   (Generated/PyxKernels.v, coq/C20/Kernels.v) ---- *)
From Coq Require Import ZArith List.
From NV.Generated Require PyxKernels.
From NV.C20 Require Kernels KernelsProofs.

(* _graph.pyx dilation: for every compact-neighbour table that is well formed for a
   V-vertex graph, every raw access of the loop nest (superset over both branches
   of each `if`, hence for every field content) lies inside its array *)
Theorem c20_dilation_accesses_in_bounds : forall V D idx neighb,
  Kernels.wf_csr V idx neighb ->
  Forall (Kernels.in_bounds V D idx neighb) (PyxKernels.src_dilation_trace V D idx neighb).
Proof. exact KernelsProofs.dilation_trace_in_bounds. Qed.
Print Assumptions c20_dilation_accesses_in_bounds.

(* the boolean table contract the harness evaluates on the tables nipy really builds is the hypothesis above *)
Theorem c20_dilation_table_contract_sound : forall V idx neighb,
  Kernels.wf_csrb V idx neighb = true -> Kernels.wf_csr V idx neighb.
Proof. exact KernelsProofs.wf_csrb_sound. Qed.
Print Assumptions c20_dilation_table_contract_sound.

(* histogram.pyx: for every non-empty input of non-negative values the pointer
   writes stay inside the allocated bins (the checked model never faults), the
   result has src_hist_nbins(max) cells and bin v holds the number of occurrences of v *)
Theorem c20_histogram_in_bounds_and_counts : forall xs,
  xs <> nil -> (forall x, In x xs -> (0 <= x)%Z) ->
  exists h, Kernels.histogram xs = Kernels.HOk h /\
            Z.of_nat (length h) = PyxKernels.src_hist_nbins (Kernels.zmax xs) /\
            forall v, (0 <= v)%Z -> nth (Z.to_nat v) h 0%Z = Kernels.zcount xs v.
Proof. exact KernelsProofs.histogram_in_bounds_and_counts. Qed.
Print Assumptions c20_histogram_in_bounds_and_counts.

Theorem c20_histogram_empty_refused : Kernels.histogram nil = Kernels.HRefused.
Proof. exact KernelsProofs.histogram_empty_refused. Qed.
Print Assumptions c20_histogram_empty_refused.
