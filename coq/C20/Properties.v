(* C20 - index-safety theorems of the modelled kernels, re-exported (filled in as the
   kernels' own developments land). *)
From Coq Require Import List.
