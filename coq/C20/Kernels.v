(* C20 - index safety of the two Cython kernels that run with bounds checks off,
   over the access traces / index arithmetic translated from the current .pyx
   sources (Generated/PyxKernels.v).

   dilation (_graph.pyx): every raw access of the loop nest is inside its array
   for every compact-neighbour table (idx, neighb) that is well formed for a
   V-vertex graph - the table Field.dilation builds with Graph.compact_neighb.
   The trace is a superset of the accesses of any run (both branches of each
   `if`), so the statement covers every field content.

   histogram (histogram.pyx): a checked-access model of the pointer loop; for
   every non-empty list of values the writes stay inside the `max+1` bins, and
   bin v ends with the number of occurrences of v. *)
From Coq Require Import ZArith List String Bool Lia Arith.
From NV.Generated Require Import PyxKernels.
Import ListNotations.
Open Scope list_scope.
Open Scope Z_scope.

(* ---------------------------------------------------------------- dilation *)
(* extents: field is V x D, res has V cells, idx / neighb have their list lengths *)
Definition in_bounds (V D : Z) (idx neighb : list Z) (a : access) : Prop :=
  (a_arr a = "field"%string /\ 0 <= a_i a < V /\ 0 <= a_j a < D) \/
  (a_arr a = "res"%string /\ 0 <= a_i a < V /\ a_j a = 0) \/
  (a_arr a = "idx"%string /\ 0 <= a_i a < Z.of_nat (List.length idx) /\ a_j a = 0) \/
  (a_arr a = "neighb"%string /\ 0 <= a_i a < Z.of_nat (List.length neighb) /\ a_j a = 0).

Definition in_boundsb (V D : Z) (idx neighb : list Z) (a : access) : bool :=
  if String.eqb (a_arr a) "field" then (0 <=? a_i a) && (a_i a <? V) && (0 <=? a_j a) && (a_j a <? D)
  else if String.eqb (a_arr a) "res" then (0 <=? a_i a) && (a_i a <? V) && (a_j a =? 0)
  else if String.eqb (a_arr a) "idx" then (0 <=? a_i a) && (a_i a <? Z.of_nat (List.length idx)) && (a_j a =? 0)
  else if String.eqb (a_arr a) "neighb" then (0 <=? a_i a) && (a_i a <? Z.of_nat (List.length neighb)) && (a_j a =? 0)
  else false.

(* the compact-neighbour table of a V-vertex graph: V+1 offsets, every vertex's
   slice [idx i, idx (i+1)) lies inside neighb, every listed neighbour is a vertex *)
Definition wf_csr (V : Z) (idx neighb : list Z) : Prop :=
  Z.of_nat (List.length idx) = V + 1 /\
  (forall i, 0 <= i < V -> 0 <= zn idx i /\ zn idx (i + 1) <= Z.of_nat (List.length neighb)) /\
  (forall j, 0 <= j < Z.of_nat (List.length neighb) -> 0 <= zn neighb j < V).

Definition wf_csrb (V : Z) (idx neighb : list Z) : bool :=
  (Z.of_nat (List.length idx) =? V + 1) &&
  forallb (fun i => (0 <=? zn idx i) && (zn idx (i + 1) <=? Z.of_nat (List.length neighb))) (zrange 0 V) &&
  forallb (fun j => (0 <=? zn neighb j) && (zn neighb j <? V)) (zrange 0 (Z.of_nat (List.length neighb))).

Definition access_eqb (a b : access) : bool :=
  String.eqb (a_arr a) (a_arr b) && (a_i a =? a_i b) && (a_j a =? a_j b) && Bool.eqb (a_write a) (a_write b).

(* correspondence helper: every recorded access of a run occurs in the translated trace *)
Definition covered (rec trace : list access) : bool :=
  forallb (fun a => existsb (access_eqb a) trace) rec.

(* ---------------------------------------------------------------- histogram *)
(* checked increment of cell k *)
Fixpoint bump (h : list Z) (k : nat) : option (list Z) :=
  match h, k with
  | [], _ => None
  | c :: r, O => Some (c + src_hist_incr :: r)
  | c :: r, S k' => match bump r k' with Some r' => Some (c :: r') | None => None end
  end.

Definition cell (xv : Z) : Z := src_hist_offset xv + src_hist_elem.

Fixpoint hist_loop (xs : list Z) (h : list Z) : option (list Z) :=
  match xs with
  | [] => Some h
  | x :: r => if cell x <? 0 then None else
              match bump h (Z.to_nat (cell x)) with Some h' => hist_loop r h' | None => None end
  end.

Definition zmax (xs : list Z) : Z := fold_right Z.max 0 xs.

(* None = a write outside the bins (the model's memory fault); the empty input is
   refused by x.max() before any allocation *)
Inductive hres := HRefused | HFault | HOk (h : list Z).
Definition histogram (xs : list Z) : hres :=
  match xs with
  | [] => HRefused
  | _ => match hist_loop xs (repeat 0 (Z.to_nat (src_hist_nbins (zmax xs)))) with
         | Some h => HOk h | None => HFault end
  end.

Definition zcount (xs : list Z) (v : Z) : Z := Z.of_nat (count_occ Z.eq_dec xs v).
