From Coq Require Import ZArith List String Bool Lia Arith.
From NV.Generated Require Import PyxKernels.
From NV.C20 Require Import Kernels.
Import ListNotations.
Open Scope list_scope.
Open Scope Z_scope.

Lemma in_zrange x lo hi : In x (zrange lo hi) -> lo <= x < hi.
Proof.
  unfold zrange. rewrite in_map_iff. intros [k [Hk Hin]]. apply in_seq in Hin. lia.
Qed.

Lemma zrange_complete x lo hi : lo <= x < hi -> In x (zrange lo hi).
Proof.
  intros H. unfold zrange. apply in_map_iff. exists (Z.to_nat (x - lo)). split; [lia|].
  apply in_seq. lia.
Qed.

Ltac leaf :=
  unfold in_bounds; cbn [a_arr a_i a_j a_write];
  first [ left; split; [reflexivity | lia]
        | right; left; split; [reflexivity | lia]
        | right; right; left; split; [reflexivity | lia]
        | right; right; right; split; [reflexivity | lia] ].

Section Dilation.
  Variables (V D : Z) (idx neighb : list Z).
  Hypothesis Hlen : Z.of_nat (List.length idx) = V + 1.
  Hypothesis Hidx : forall i, 0 <= i < V -> 0 <= zn idx i /\ zn idx (i + 1) <= Z.of_nat (List.length neighb).
  Hypothesis Hng : forall j, 0 <= j < Z.of_nat (List.length neighb) -> 0 <= zn neighb j < V.

  Ltac loopvar :=
    let x := fresh "x" in let H := fresh "Hx" in
    intros x H; apply in_zrange in H;
    try (let H' := fresh "Hi" in assert (H' := Hidx x ltac:(lia)));
    try (let H' := fresh "Hn" in assert (H' := Hng x ltac:(lia))).

  Ltac step :=
    match goal with
    | |- Forall _ (flat_map _ _) => apply Forall_flat_map; apply Forall_forall; loopvar
    | |- Forall _ (_ ++ _) => apply Forall_app; split
    | |- Forall _ (_ :: _) => constructor; [leaf|]
    | |- Forall _ [] => constructor
    end.

  Lemma dilation_trace_in_bounds_sec : Forall (in_bounds V D idx neighb) (src_dilation_trace V D idx neighb).
  Proof. unfold src_dilation_trace. repeat step. Qed.
End Dilation.

Theorem dilation_trace_in_bounds : forall V D idx neighb,
  wf_csr V idx neighb -> Forall (in_bounds V D idx neighb) (src_dilation_trace V D idx neighb).
Proof. intros V D idx neighb (H1 & H2 & H3). apply dilation_trace_in_bounds_sec; assumption. Qed.

Lemma wf_csrb_sound V idx neighb : wf_csrb V idx neighb = true -> wf_csr V idx neighb.
Proof.
  unfold wf_csrb, wf_csr. rewrite !andb_true_iff, !forallb_forall. intros [[H1 H2] H3].
  split; [lia|]. split.
  - intros i Hi. specialize (H2 i (zrange_complete _ _ _ Hi)). lia.
  - intros j Hj. specialize (H3 j (zrange_complete _ _ _ Hj)). lia.
Qed.

Lemma in_boundsb_sound V D idx neighb a : in_boundsb V D idx neighb a = true -> in_bounds V D idx neighb a.
Proof.
  unfold in_boundsb, in_bounds.
  destruct (String.eqb_spec (a_arr a) "field") as [E|_]; [intros H; left; split; [exact E | lia]|].
  destruct (String.eqb_spec (a_arr a) "res") as [E|_]; [intros H; right; left; split; [exact E | lia]|].
  destruct (String.eqb_spec (a_arr a) "idx") as [E|_]; [intros H; right; right; left; split; [exact E | lia]|].
  destruct (String.eqb_spec (a_arr a) "neighb") as [E|_]; [intros H; right; right; right; split; [exact E | lia]|].
  discriminate.
Qed.

(* the hypothesis is needed: a neighbour list naming a non-vertex makes the kernel read outside field *)
Example dilation_unsafe_without_wf :
  existsb (fun a => negb (in_boundsb 2 1 [0; 1; 2] [1; 2] a)) (src_dilation_trace 2 1 [0; 1; 2] [1; 2]) = true.
Proof. vm_compute. reflexivity. Qed.

Example wf_csr_inhabited : wf_csr 3 [0; 2; 3; 4] [1; 2; 0; 0] /\ src_dilation_trace 3 2 [0; 2; 3; 4] [1; 2; 0; 0] <> [].
Proof. split; [apply wf_csrb_sound; vm_compute; reflexivity | vm_compute; discriminate]. Qed.

(* ---------------------------------------------------------------- histogram *)
Lemma cell_id x : cell x = x.
Proof. unfold cell, src_hist_offset, src_hist_elem. lia. Qed.

Lemma incr_one : src_hist_incr = 1.
Proof. reflexivity. Qed.

Lemma bump_spec : forall h k, (k < List.length h)%nat ->
  exists h', bump h k = Some h' /\ List.length h' = List.length h /\
             forall v, nth v h' 0 = if Nat.eqb v k then nth v h 0 + 1 else nth v h 0.
Proof.
  induction h as [|c r IH]; intros k Hk; [simpl in Hk; lia|].
  destruct k as [|k'].
  - exists (c + src_hist_incr :: r). split; [reflexivity|]. split; [reflexivity|].
    intros [|v]; simpl; [rewrite incr_one; reflexivity | reflexivity].
  - simpl in Hk. destruct (IH k' ltac:(lia)) as (r' & E & L & N).
    exists (c :: r'). simpl. rewrite E. split; [reflexivity|]. split; [simpl; lia|].
    intros [|v]; simpl; [reflexivity | apply N].
Qed.

Lemma bump_none : forall h k, (List.length h <= k)%nat -> bump h k = None.
Proof.
  induction h as [|c r IH]; intros k Hk; [reflexivity|].
  destruct k as [|k']; simpl in *; [lia|]. rewrite IH by lia. reflexivity.
Qed.

Lemma hist_loop_spec : forall xs h,
  (forall x, In x xs -> 0 <= x < Z.of_nat (List.length h)) ->
  exists h', hist_loop xs h = Some h' /\ List.length h' = List.length h /\
             forall v, nth v h' 0 = nth v h 0 + zcount xs (Z.of_nat v).
Proof.
  induction xs as [|x r IH]; intros h Hin.
  - exists h. split; [reflexivity|]. split; [reflexivity|]. intros v. unfold zcount. simpl. lia.
  - assert (Hx := Hin x (or_introl eq_refl)).
    cbn [hist_loop]. rewrite cell_id.
    destruct (Z.ltb_spec x 0) as [Hneg|_]; [lia|].
    destruct (bump_spec h (Z.to_nat x) ltac:(lia)) as (h1 & E1 & L1 & N1).
    rewrite E1.
    destruct (IH h1) as (h' & E & L & N).
    { intros y Hy. rewrite L1. apply Hin. right. exact Hy. }
    exists h'. split; [exact E|]. split; [congruence|].
    intros v. rewrite N, N1. unfold zcount. cbn [count_occ].
    destruct (Z.eq_dec x (Z.of_nat v)) as [Ev|Ev].
    + replace (Nat.eqb v (Z.to_nat x)) with true by (symmetry; apply Nat.eqb_eq; lia). lia.
    + replace (Nat.eqb v (Z.to_nat x)) with false by (symmetry; apply Nat.eqb_neq; lia). lia.
Qed.

Lemma zmax_ge : forall xs x, In x xs -> x <= zmax xs.
Proof.
  induction xs as [|y r IH]; intros x Hx; [destruct Hx|].
  cbn [zmax fold_right]. destruct Hx as [->|Hx]; [lia|]. specialize (IH x Hx). unfold zmax in IH. lia.
Qed.

Lemma zmax_nonneg : forall xs, 0 <= zmax xs.
Proof. induction xs as [|y r IH]; cbn [zmax fold_right]; [lia|]. unfold zmax in IH. lia. Qed.

Lemma nbins_above m : 0 <= m -> m < src_hist_nbins m.
Proof. unfold src_hist_nbins. lia. Qed.

Theorem histogram_in_bounds_and_counts : forall xs,
  xs <> [] -> (forall x, In x xs -> 0 <= x) ->
  exists h, histogram xs = HOk h /\ Z.of_nat (List.length h) = src_hist_nbins (zmax xs) /\
            forall v, 0 <= v -> nth (Z.to_nat v) h 0 = zcount xs v.
Proof.
  intros xs Hne Hpos.
  assert (Hz := zmax_nonneg xs). assert (Hnb := nbins_above (zmax xs) Hz).
  destruct (hist_loop_spec xs (repeat 0 (Z.to_nat (src_hist_nbins (zmax xs))))) as (h & E & L & N).
  { intros x Hx. rewrite repeat_length. specialize (Hpos x Hx). assert (Hm := zmax_ge xs x Hx). lia. }
  exists h. unfold histogram. destruct xs as [|x0 r]; [congruence|]. rewrite E.
  split; [reflexivity|]. split; [rewrite L, repeat_length; rewrite Z2Nat.id by lia; reflexivity|].
  intros v Hv. rewrite N, nth_repeat. rewrite Z2Nat.id by lia. lia.
Qed.

Theorem histogram_empty_refused : histogram [] = HRefused.
Proof. reflexivity. Qed.

(* one bin fewer (nbins = max) and the loop writes one cell past the buffer: the model reports it *)
Example hist_fault_visible : hist_loop [2; 0; 2] (repeat 0 2) = None.
Proof. vm_compute. reflexivity. Qed.

Example histogram_example : histogram [2; 0; 2; 5] = HOk [1; 0; 2; 0; 0; 1].
Proof. vm_compute. reflexivity. Qed.
