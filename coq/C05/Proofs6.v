(* C05 - (a) generalised least squares: a whitener C with C'C = S (S = Sigma^-1) turns the
   generalised normal equations X'S(y - X b) = 0 and the generalised RSS (y-Xb)'S(y-Xb) into the
   ordinary ones of the whitened problem (GLSModel.whiten = C . , regression.py:829-834);
   (b) the data-independent outputs of the Kalman filter (Vb, t) do not depend on the data. *)
From Coq Require Import List Arith Lia Bool ZArith Ring.
From NV.Lib Require Import RingMat C05Lin.
From NV.C05 Require Import Model Proofs Proofs3.
Import ListNotations.

Section GLS.
  Variable R : Type.
  Variables (r0 r1 : R) (radd rmul rsub : R -> R -> R) (ropp : R -> R).
  Hypothesis Rth : ring_theory r0 r1 radd rmul rsub ropp (@eq R).
  Add Ring Rring11 : Rth.

  Local Notation vec := (list R).
  Local Notation mat := (list (list R)).
  Local Notation Dot := (dot r0 radd rmul).
  Local Notation Mv := (mv r0 radd rmul).
  Local Notation Vm := (vm r0 radd rmul).
  Local Notation Mm := (mm r0 radd rmul).
  Local Notation Vzero := (vzero r0).
  Local Notation Resid := (resid r0 radd rmul rsub).
  Local Notation Rss := (rss r0 radd rmul rsub).
  Local Notation Normal := (normal_eq r0 radd rmul rsub).
  Local Notation Dot_comm := (dot_comm R r0 r1 radd rmul rsub ropp Rth).

  Variables (n p : nat) (C S X : mat) (y : vec).
  Hypothesis LX : length X = n.
  Hypothesis HX : rows_len p X.
  Hypothesis Ly : length y = n.
  Hypothesis LS : length S = n.
  (* the whitener contract  C'C = S,  tested against every pair of vectors *)
  Hypothesis HC : forall u v, length u = n -> length v = n -> Dot (Mv C u) (Mv C v) = Dot u (Mv S v).

  Lemma gls_wresid b : Resid (Mm p C X) (Mv C y) b = Mv C (Resid X y b).
  Proof.
    unfold resid. rewrite (mv_mm R r0 r1 radd rmul rsub ropp Rth p C X b HX).
    symmetry. apply (mv_vsub R r0 r1 radd rmul rsub ropp Rth). rewrite mv_length. congruence.
  Qed.

  Lemma resid_len b : length (Resid X y b) = n.
  Proof. now apply (resid_length R r0 radd rmul rsub). Qed.

  (* the whitened RSS is the generalised RSS r'S r *)
  Theorem gls_rss_generalised b :
    Rss (Mm p C X) (Mv C y) b = Dot (Resid X y b) (Mv S (Resid X y b)).
  Proof. unfold rss. rewrite gls_wresid. apply HC; apply resid_len. Qed.

  (* the whitened normal equations are the generalised normal equations X'S(y - X b) = 0 *)
  Theorem gls_normal_eq_generalised b :
    Normal p (Mm p C X) (Mv C y) b <-> Vm p (Mv S (Resid X y b)) X = Vzero p.
  Proof.
    unfold normal_eq. rewrite gls_wresid.
    rewrite (normal_iff_orth R r0 r1 radd rmul rsub ropp Rth p (Mm p C X) _ (mm_rows_len R r0 radd rmul p C X HX)).
    rewrite (normal_iff_orth R r0 r1 radd rmul rsub ropp Rth p X _ HX).
    assert (E : forall d, length d = p ->
                          Dot (Mv C (Resid X y b)) (Mv (Mm p C X) d) = Dot (Mv S (Resid X y b)) (Mv X d)).
    { intros d Hd. rewrite (mv_mm R r0 r1 radd rmul rsub ropp Rth p C X d HX).
      assert (Lw : length (Mv X d) = n) by (now rewrite mv_length).
      rewrite (Dot_comm (Mv C (Resid X y b))). rewrite (HC _ _ Lw (resid_len b)). apply Dot_comm. }
    split; intros H d Hd; [rewrite <- (E d Hd)|rewrite (E d Hd)]; now apply H.
  Qed.
End GLS.

(* ------------------------------------------------------------------ Kalman: Vb and t are data independent *)
Section KalmanData.
  Variable R : Type.
  Variables (r0 r1 : R) (radd rmul rsub rdiv : R -> R -> R) (ropp : R -> R).
  Variable reqb : R -> R -> bool.
  Local Notation Step := (kf_step R r0 r1 radd rmul rsub rdiv ropp reqb).
  Local Notation Fold := (kf_fold R r0 r1 radd rmul rsub rdiv ropp reqb).

  Lemma kf_fold_data_independent (X : list (list R)) : forall (y1 y2 : list R) s1 s2 t1 t2,
      length y1 = length X -> length y2 = length X ->
      kVb s1 = kVb s2 -> kt s1 = kt s2 ->
      Fold (combine X y1) s1 = Some t1 -> Fold (combine X y2) s2 = Some t2 ->
      kVb t1 = kVb t2 /\ kt t1 = kt t2.
  Proof.
    induction X as [|x X IH]; intros [|e1 y1] [|e2 y2] s1 s2 t1 t2 L1 L2 EV ET F1 F2;
      simpl in L1, L2; try discriminate; cbn [combine kf_fold] in F1, F2.
    - injection F1 as <-. injection F2 as <-. auto.
    - unfold kf_step in F1, F2. cbn [fst snd] in F1, F2. rewrite <- EV in F2.
      destruct (reqb (radd (dot r0 radd rmul x (mv r0 radd rmul (kVb s1) x)) r1) r0); [discriminate|].
      eapply (IH y1 y2); [lia|lia| | |exact F1|exact F2]; cbn [kVb kt]; congruence.
  Qed.

  Theorem kf_fit_data_independent p v0 X y1 y2 t1 t2 :
    length y1 = length X -> length y2 = length X ->
    kf_fit R r0 r1 radd rmul rsub rdiv ropp reqb p v0 X y1 = Some t1 ->
    kf_fit R r0 r1 radd rmul rsub rdiv ropp reqb p v0 X y2 = Some t2 ->
    kVb t1 = kVb t2 /\ kt t1 = kt t2.
  Proof.
    intros L1 L2 F1 F2. unfold kf_fit in *.
    eapply (kf_fold_data_independent X y1 y2); eauto.
  Qed.
End KalmanData.
