(* C05 - proofs about the labs F-contrast covariance broadcast (ConModel.v): every shape, every voxel. *)
From Coq Require Import List Arith Lia ZArith.
From NV.C05 Require Import ConModel.
Import ListNotations.

Section ConProofs.
  Variable A : Type.
  Variable zero : A.
  Variable mul : A -> A -> A.

  Lemma nth_map_seq0 : forall (f : nat -> A) n k d, k < n -> nth k (map f (seq 0 n)) d = f k.
  Proof.
    intros f n k d Hk.
    rewrite (nth_indep _ d (f 0)) by (rewrite map_length, seq_length; lia).
    rewrite (map_nth f (seq 0 n) 0 k). rewrite seq_nth by lia. reflexivity.
  Qed.

  Lemma prod_app : forall a b, prod (a ++ b) = prod a * prod b.
  Proof.
    induction a as [|d a IH]; intros b; unfold prod in *; cbn [app fold_right].
    - lia.
    - rewrite IH. lia.
  Qed.

  Lemma prod_rev : forall sh, prod (rev sh) = prod sh.
  Proof.
    induction sh as [|d r IH]; [reflexivity|].
    cbn [rev]. rewrite prod_app, IH. unfold prod. cbn [fold_right]. lia.
  Qed.

  Lemma unravel_rev_length : forall sh k, length (unravel_rev sh k) = length sh.
  Proof. induction sh as [|d r IH]; intros k; cbn [unravel_rev length]; [reflexivity|]. now rewrite IH. Qed.

  Lemma unravel_rev_app : forall sh t k, prod sh <> 0 ->
    unravel_rev (sh ++ t) k = unravel_rev sh k ++ unravel_rev t (k / prod sh).
  Proof.
    induction sh as [|d r IH]; intros t k Hp.
    - cbn [app unravel_rev prod fold_right]. now rewrite Nat.div_1_r.
    - cbn [prod fold_right] in Hp.
      assert (Hd : d <> 0) by (intro E; subst d; lia).
      assert (Hr : prod r <> 0) by (intro E; unfold prod in E; rewrite E in Hp; lia).
      cbn [app unravel_rev]. rewrite (IH t (k / d) Hr).
      cbn [prod fold_right]. fold (prod r). rewrite Nat.div_div by assumption. reflexivity.
  Qed.

  Lemma unravel_rev_bound : forall sh k, prod sh <> 0 -> Forall2 lt (unravel_rev sh k) sh.
  Proof.
    induction sh as [|d r IH]; intros k Hp; cbn [unravel_rev]; [constructor|].
    cbn [prod fold_right] in Hp.
    assert (Hd : d <> 0) by (intro E; subst d; lia).
    assert (Hr : prod r <> 0) by (intro E; unfold prod in E; rewrite E in Hp; lia).
    constructor; [apply Nat.mod_upper_bound; assumption | apply IH; assumption].
  Qed.

  Lemma ravel_fold_app : forall sh u t v acc, length u = length sh ->
    fold_left ravel_step (combine (sh ++ t) (u ++ v)) acc
    = fold_left ravel_step (combine t v) (fold_left ravel_step (combine sh u) acc).
  Proof.
    induction sh as [|d r IH]; intros u t v acc Hl; destruct u as [|i u]; cbn [length] in Hl; try discriminate.
    - reflexivity.
    - cbn [app combine fold_left]. apply IH. lia.
  Qed.

  Lemma ravel_fold_bound : forall u sh, Forall2 lt u sh -> forall acc P, acc < P ->
    fold_left ravel_step (combine sh u) acc < P * prod sh.
  Proof.
    intros u sh H. induction H as [|i d u r Hid _ IH]; intros acc P Hacc.
    - cbn. lia.
    - cbn [combine fold_left]. unfold ravel_step at 2. cbn [fst snd].
      cbn [prod fold_right]. fold (prod r).
      assert (Hs : acc * d + i < P * d) by nia.
      specialize (IH _ _ Hs). nia.
  Qed.

  (* --- the entry theorem --------------------------------------------------------------- *)
  Theorem fcon_cov_entry : forall q sh vflat s2flat a b k,
    length vflat = q * q -> a < q -> b < q -> k < prod sh ->
    nth ((b * q + a) * prod sh + k) (fcon_cov A zero mul q sh vflat s2flat) zero
    = mul (nth (a * q + b) vflat zero) (nth k s2flat zero).
  Proof.
    intros q sh vflat s2flat a b k Hlen Ha Hb Hk.
    set (V := prod sh) in *.
    assert (HV : V <> 0) by lia.
    assert (Hq : q <> 0) by lia.
    assert (Hba : b * q + a < q * q) by nia.
    assert (Hk' : (b * q + a) * V + k < q * q * V) by nia.
    unfold fcon_cov. fold V.
    rewrite nth_map_seq0 by exact Hk'.
    (* the s2 factor *)
    replace (((b * q + a) * V + k) mod V) with k
      by (rewrite Nat.add_comm, Nat.mod_add by exact HV; symmetry; apply Nat.mod_small; exact Hk).
    f_equal.
    (* the covariance factor *)
    unfold to_flat.
    assert (Hprod : prod ([q; q] ++ rev sh) = q * q * V).
    { rewrite prod_app, prod_rev. fold V. cbn [prod fold_right]. lia. }
    rewrite Hprod. rewrite nth_map_seq0 by exact Hk'.
    unfold transpose, unravel. rewrite rev_involutive.
    rewrite rev_app_distr, rev_involutive. cbn [rev app].
    rewrite unravel_rev_app by exact HV. fold V.
    replace (((b * q + a) * V + k) / V) with (b * q + a)
      by (rewrite Nat.div_add_l by exact HV; rewrite (Nat.div_small k V) by exact Hk; lia).
    cbn [unravel_rev].
    replace ((b * q + a) mod q) with a
      by (rewrite Nat.add_comm, Nat.mod_add by exact Hq; symmetry; apply Nat.mod_small; exact Ha).
    replace ((b * q + a) / q) with b
      by (rewrite Nat.div_add_l by exact Hq; rewrite (Nat.div_small a q) by exact Ha; lia).
    rewrite (Nat.mod_small b q) by exact Hb.
    set (u := unravel_rev sh ((b * q + a) * V + k)).
    unfold of_flat, ravel.
    rewrite ravel_fold_app by apply unravel_rev_length.
    set (m := fold_left ravel_step (combine sh u) 0).
    assert (Hm : m < V).
    { pose proof (ravel_fold_bound u sh (unravel_rev_bound sh _ HV) 0 1 ltac:(lia)) as H. fold m in H. fold V in H. lia. }
    cbn [combine fold_left]. unfold ravel_step. cbn [fst snd].
    unfold resize_flat. rewrite nth_map_seq0 by nia.
    rewrite Hlen.
    replace ((m * q + a) * q + b) with ((a * q + b) + m * (q * q)) by ring.
    rewrite Nat.mod_add by nia. rewrite Nat.mod_small by nia. reflexivity.
  Qed.

  Lemma fcon_cov_length : forall q sh vflat s2flat,
    length (fcon_cov A zero mul q sh vflat s2flat) = q * q * prod sh.
  Proof. intros. unfold fcon_cov. now rewrite map_length, seq_length. Qed.

  (* value at an arbitrary flat position j of the (q, q, V) result *)
  Lemma fcon_cov_flat : forall q sh vflat s2flat j,
    length vflat = q * q -> j < q * q * prod sh ->
    nth j (fcon_cov A zero mul q sh vflat s2flat) zero
    = mul (nth ((j / prod sh) mod q * q + (j / prod sh) / q) vflat zero) (nth (j mod prod sh) s2flat zero).
  Proof.
    intros q sh vflat s2flat j Hlen Hj.
    set (V := prod sh) in *.
    assert (HV : V <> 0) by (intro E; rewrite E in Hj; lia).
    assert (Hq : q <> 0) by (intro E; subst q; lia).
    assert (Hjd : j / V < q * q) by (apply Nat.div_lt_upper_bound; [exact HV | lia]).
    set (r := j / V) in *.
    assert (Hr : r = (r / q) * q + r mod q) by (rewrite (Nat.div_mod r q Hq) at 1; lia).
    assert (Hj' : j = (r / q * q + r mod q) * V + j mod V).
    { rewrite <- Hr. unfold r. rewrite (Nat.div_mod j V HV) at 1. lia. }
    rewrite Hj' at 1.
    apply fcon_cov_entry.
    - exact Hlen.
    - apply Nat.mod_upper_bound; exact Hq.
    - apply Nat.div_lt_upper_bound; [exact Hq | lia].
    - apply Nat.mod_upper_bound; exact HV.
  Qed.

  (* grouping of the voxels into a grid does not matter: only the number of voxels does *)
  Theorem fcon_cov_layout_independent : forall q sh1 sh2 vflat s2flat,
    length vflat = q * q -> prod sh1 = prod sh2 ->
    fcon_cov A zero mul q sh1 vflat s2flat = fcon_cov A zero mul q sh2 vflat s2flat.
  Proof.
    intros q sh1 sh2 vflat s2flat Hlen Hp.
    apply (nth_ext _ _ zero zero).
    - rewrite !fcon_cov_length. now rewrite Hp.
    - intros j Hj. rewrite fcon_cov_length in Hj.
      rewrite (fcon_cov_flat q sh1) by assumption.
      rewrite (fcon_cov_flat q sh2) by (try assumption; rewrite <- Hp; exact Hj).
      now rewrite Hp.
  Qed.

  (* with a symmetric q x q covariance the voxel at C-order position k carries  vcon[b][a] * s2[k] *)
  Theorem fcon_cov_symmetric_spec : forall q sh vflat s2flat a b k,
    length vflat = q * q ->
    (forall i j, i < q -> j < q -> nth (i * q + j) vflat zero = nth (j * q + i) vflat zero) ->
    a < q -> b < q -> k < prod sh ->
    nth ((b * q + a) * prod sh + k) (fcon_cov A zero mul q sh vflat s2flat) zero
    = mul (nth (b * q + a) vflat zero) (nth k s2flat zero).
  Proof.
    intros q sh vflat s2flat a b k Hlen Hsym Ha Hb Hk.
    rewrite fcon_cov_entry by assumption. now rewrite (Hsym a b Ha Hb).
  Qed.
End ConProofs.
