(* C05 - nipy's linear-model code as Gallina, over an arbitrary field-like
   structure (instantiated at Qc at the end).  Executable definitions only.

   nipy/algorithms/statistics/models/regression.py
     OLSModel.initialize/fit  (lines 101-111, 275-301)   ols_fit
     ARModel.whiten           (lines 404-421)            ar_whiten
     WLSModel.whiten          (lines 676-688)            wls_whiten
     GLSModel.whiten          (lines 833-834)            gls_whiten
   nipy/modalities/fmri/glm.py
     GeneralLinearModel.fit   (lines 116-134)            ar1_coef, discretise, glm_results
     get_beta / get_mse       (lines 136-175)            glm_get
   nipy/labs/glm/glm.py
     ols                      (lines 262-275)            labs_ols (2-D data, axis 0/1)

   2-D arrays are lists of rows.  External numerics (numpy.linalg.pinv, sqrt,
   cholesky) are threaded in as values (P, c = sqrt(weights), C = cholsigmainv);
   their contracts are hypotheses of the theorems that need them.  The exact
   reference fit uses the certified solver NV.Lib.C05Lin.solve_normal. *)
From Coq Require Import List Arith Lia Bool ZArith QArith Qcanon Qabs Qround.
From NV.Lib Require Import RingMat C05Lin.
From NV.Generated Require Import PosRecipr.
Import ListNotations.
Close Scope Qc_scope.
Close Scope Q_scope.

(* boolean-mask indexing of a 1-D array: row[mask] *)
Fixpoint compress {A} (mask : list bool) (row : list A) : list A :=
  match mask, row with
  | m :: ms, a :: r => if m then a :: compress ms r else compress ms r
  | _, _ => []
  end.

(* boolean-mask assignment: old[mask] = vals (vals consumed in order) *)
Fixpoint assign_masked {A} (mask : list bool) (old vals : list A) : list A :=
  match mask, old with
  | m :: ms, o :: os =>
      if m then match vals with
                | v :: vs => v :: assign_masked ms os vs
                | [] => o :: assign_masked ms os []
                end
      else o :: assign_masked ms os vals
  | _, _ => old
  end.

(* np.unique on the label array: sorted, without repetition *)
Fixpoint zinsert (z : Z) (l : list Z) : list Z :=
  match l with
  | [] => [z]
  | x :: r => if Z.ltb z x then z :: l else if Z.eqb z x then l else x :: zinsert z r
  end.
Definition zuniq (l : list Z) : list Z := fold_right zinsert [] l.

Definition mask_of (l : Z) (labels : list Z) : list bool := map (Z.eqb l) labels.

Section Model.
  Variable R : Type.
  Variables (r0 r1 : R) (radd rmul rsub rdiv : R -> R -> R).
  Variable reqb : R -> R -> bool.
  Variable rtrunc : R -> Z.    (* ndarray.astype(np.int_): truncation toward zero *)
  Variable rofZ : Z -> R.

  Local Notation vec := (list R).
  Local Notation mat := (list (list R)).
  Local Notation Dot := (dot r0 radd rmul).
  Local Notation Vsub := (vsub rsub).
  Local Notation Vscale := (vscale rmul).
  Local Notation Mm := (mm r0 radd rmul).
  Local Notation Mv := (mv r0 radd rmul).
  Local Notation Col := (col r0).

  (* A - B and c * A on 2-D arrays of equal shape *)
  Fixpoint msub (A B : mat) : mat :=
    match A, B with
    | a :: A', b :: B' => Vsub a b :: msub A' B'
    | _, _ => []
    end.
  Definition mscale (c : R) (A : mat) : mat := map (Vscale c) A.
  Definition ncols (A : mat) : nat := length (hd [] A).
  Definition cols_to_mat (p : nat) (cols : list vec) : mat :=
    map (fun i => map (fun b => nth i b r0) cols) (seq 0 p).

  (* ---------------------------------------------------------------- ARModel.whiten
       _X = X.copy()
       for i in range(self.order):
           _X[(i + 1):] = _X[(i + 1):] - self.rho[i] * X[0: -(i + 1)]          *)
  Fixpoint ar_loop (X : mat) (rho : vec) (i : nat) (W : mat) : mat :=
    match rho with
    | [] => W
    | r :: rho' =>
        ar_loop X rho' (S i)
                (firstn (S i) W ++ msub (skipn (S i) W) (mscale r (firstn (length X - S i) X)))
    end.
  Definition ar_whiten (rho : vec) (X : mat) : mat := ar_loop X rho 0 X.

  (* what row t of the result should be: x_t - rho_0 x_{t-1} - rho_1 x_{t-2} ...,
     only the lags that exist (t >= i+1), subtracted in loop order *)
  Fixpoint ar_row_from (X : mat) (rho : vec) (i t : nat) (acc : vec) : vec :=
    match rho with
    | [] => acc
    | r :: rho' =>
        ar_row_from X rho' (S i) t
                    (if Nat.ltb i t then Vsub acc (Vscale r (nth (t - S i) X [])) else acc)
    end.
  Definition ar_row (rho : vec) (X : mat) (t : nat) : vec := ar_row_from X rho 0 t (nth t X []).

  (* ---------------------------------------------------------------- WLSModel.whiten
       c = np.sqrt(self.weights);  v[:, i] = X[:, i] * c        (c threaded in) *)
  Definition wls_whiten (c : vec) (X : mat) : mat :=
    map (fun cr => Vscale (fst cr) (snd cr)) (combine c X).

  (* ---------------------------------------------------------------- GLSModel.whiten
       np.dot(self.cholsigmainv, Y)                    (cholsigmainv threaded in) *)
  Definition gls_whiten (k : nat) (C Y : mat) : mat := Mm k C Y.
  Definition diag_mat (cs : vec) : mat :=
    map (fun i => Vscale (nth i cs r0) (unit_vec r0 r1 (length cs) i)) (seq 0 (length cs)).

  (* ---------------------------------------------------------------- OLSModel.fit
       beta = np.dot(self.calc_beta, wY)
       wresid = wY - np.dot(self.wdesign, beta)
       dispersion = np.sum(wresid ** 2, 0) / (wdesign.shape[0] - wdesign.shape[1])
     k = number of voxels (columns of wY), P = calc_beta = pinv(wdesign)          *)
  Definition sumsq_cols (k : nat) (A : mat) : vec :=
    map (fun j => Dot (Col j A) (Col j A)) (seq 0 k).
  Definition dof_shape (wX : mat) : Z := (Z.of_nat (length wX) - Z.of_nat (ncols wX))%Z.
  Definition ols_beta (k : nat) (P wY : mat) : mat := Mm k P wY.
  Definition ols_wresid (k : nat) (P wX wY : mat) : mat := msub wY (Mm k wX (ols_beta k P wY)).
  Definition ols_dispersion (k : nat) (P wX wY : mat) : vec :=
    map (fun s => rdiv s (rofZ (dof_shape wX))) (sumsq_cols k (ols_wresid k P wX wY)).

  (* ---------------------------------------------------------------- exact reference fit
     per voxel: certified normal-equation solution and RSS/(n-p) *)
  Definition Solve := solve_normal r0 r1 radd rmul rsub rdiv reqb.
  Definition ref_col (p : nat) (wX : mat) (wy : vec) : option (vec * R) :=
    match Solve p wX wy with
    | Some b => Some (b, rdiv (rss r0 radd rmul rsub wX wy b) (rofZ (dof_shape wX)))
    | None => None
    end.
  Fixpoint all_some {A} (l : list (option A)) : option (list A) :=
    match l with
    | [] => Some []
    | Some a :: r => match all_some r with Some r' => Some (a :: r') | None => None end
    | None :: _ => None
    end.
  Definition ref_fit (p k : nat) (wX wY : mat) : option (list (vec * R)) :=
    all_some (map (fun j => ref_col p wX (Col j wY)) (seq 0 k)).

  (* ---------------------------------------------------------------- GeneralLinearModel.fit
       ar1 = (resid[1:] * resid[:-1]).sum(0) / (resid ** 2).sum(0)
       ar1 = (ar1 * steps).astype(np.int_) * 1. / steps                          *)
  Definition ar1_coef (r : vec) : R := rdiv (Dot (tl r) (removelast r)) (Dot r r).
  Definition ar1_steps (steps : Z) (r : vec) : R := rmul (ar1_coef r) (rofZ steps).
  Definition discretise (steps : Z) (r : vec) : Z := rtrunc (ar1_steps steps r).
  Definition label_val (steps : Z) (k : Z) : R := rdiv (rmul (rofZ k) r1) (rofZ steps).

  (* OLS residuals per voxel (exact), then ar1*steps per voxel *)
  Definition glm_ar1_steps (p k : nat) (steps : Z) (X Y : mat) : option (list R) :=
    all_some (map (fun j => match Solve p X (Col j Y) with
                            | Some b => Some (ar1_steps steps (resid r0 radd rmul rsub X (Col j Y) b))
                            | None => None
                            end) (seq 0 k)).

  (*   for val in np.unique(self.labels_):
           m = ARModel(self.X, val)
           self.results_[val] = m.fit(Y[:, self.labels_ == val])
     [fit l Yb] is the p x k_l block of estimates for label l                     *)
  Definition glm_results (fit : Z -> mat -> mat) (labels : list Z) (Y : mat) : list (Z * mat) :=
    map (fun l => (l, fit l (map (compress (mask_of l labels)) Y))) (zuniq labels).

  (*   beta = np.zeros((n_beta, self.labels_.size))
       for l in self.results_:
           beta[:, self.labels_ == l] = self.results_[l].theta[column_index]      *)
  Definition assign_block (mask : list bool) (acc theta : mat) : mat :=
    map (fun ot => assign_masked mask (fst ot) (snd ot)) (combine acc theta).
  Definition glm_get (p : nat) (labels : list Z) (results : list (Z * mat)) : mat :=
    fold_left (fun acc lt => assign_block (mask_of (fst lt) labels) acc (snd lt))
              results (repeat (repeat r0 (length labels)) p).

  (* block fit under AR(1) coefficient label/steps: exact, column by column; a
     column whose normal equations cannot be solved yields the empty vector
     (the harness requires [block_ok]) *)
  Definition ar_design (steps l : Z) (X : mat) : mat := ar_whiten [label_val steps l] X.
  Definition ar_block_cols (p : nat) (steps : Z) (X : mat) (l : Z) (Yb : mat) : list (option (vec * R)) :=
    let wY := ar_whiten [label_val steps l] Yb in
    map (fun j => ref_col p (ar_design steps l X) (Col j wY)) (seq 0 (ncols Yb)).
  Definition ar_block_beta (p : nat) (steps : Z) (X : mat) (l : Z) (Yb : mat) : mat :=
    cols_to_mat p (map (fun o => match o with Some (b, _) => b | None => [] end)
                       (ar_block_cols p steps X l Yb)).
  Definition ar_block_mse (p : nat) (steps : Z) (X : mat) (l : Z) (Yb : mat) : mat :=
    [map (fun o => match o with Some (_, s) => s | None => r0 end) (ar_block_cols p steps X l Yb)].
  Definition glm_ar1_beta (p : nat) (steps : Z) (X Y : mat) (labels : list Z) : mat :=
    glm_get p labels (glm_results (ar_block_beta p steps X) labels Y).
  Definition glm_ar1_mse (p : nat) (steps : Z) (X Y : mat) (labels : list Z) : mat :=
    glm_get 1 labels (glm_results (ar_block_mse p steps X) labels Y).

  (* ---------------------------------------------------------------- labs glm.ols, 2-D data
       beta = rollaxis(inner(pX, rollaxis(Y, axis, ndims)), 0, axis + 1)
     axis = 0: Y is n x V, beta p x V;  axis = 1: Y is V x n, beta V x p           *)
  Definition labs_beta (axis : nat) (P Y : mat) : mat :=
    match axis with
    | O => Mm (ncols Y) P Y
    | _ => map (fun yrow => Mv P yrow) Y
    end.
End Model.

(* ------------------------------------------------------------------ Qc instance *)
Definition qtrunc (q : Qc) : Z := Z.quot (Qnum (this q)) (Zpos (Qden (this q))).
Definition qofZ (z : Z) : Qc := Q2Qc (inject_Z z).
Definition qfrac (a : Z) (b : positive) : Qc := Q2Qc (Qmake a b).
Definition zvec (v : list Z) : list Qc := map qofZ v.
Definition zmat (A : list (list Z)) : list (list Qc) := map zvec A.
Definition qvec (v : list Q) : list Qc := map Q2Qc v.
Definition qmat (A : list (list Q)) : list (list Qc) := map qvec A.
Definition q0 : Qc := Q2Qc 0.
Definition q1 : Qc := Q2Qc 1.

Definition qcvec_eqb := veqb Qc_eq_bool.
Fixpoint qcmat_eqb (A B : list (list Qc)) : bool :=
  match A, B with
  | [], [] => true
  | a :: A', b :: B' => qcvec_eqb a b && qcmat_eqb A' B'
  | _, _ => false
  end.

(* |a - b| <= tol * (1 + |a|), a the exact model value, b the implementation's *)
Definition qclose (tol : Q) (a b : Qc) : bool :=
  Qle_bool (Qabs (this a - this b)) (tol * (1 + Qabs (this a))).
Fixpoint vclose (tol : Q) (a b : list Qc) : bool :=
  match a, b with
  | [], [] => true
  | x :: a', y :: b' => qclose tol x y && vclose tol a' b'
  | _, _ => false
  end.
Fixpoint mclose (tol : Q) (A B : list (list Qc)) : bool :=
  match A, B with
  | [], [] => true
  | a :: A', b :: B' => vclose tol a b && mclose tol A' B'
  | _, _ => false
  end.

Definition q_ar_whiten := ar_whiten Qc Qcmult Qcminus.
Definition q_ar_row := ar_row Qc Qcmult Qcminus.
Definition q_wls_whiten := wls_whiten Qc Qcmult.
Definition q_gls_whiten := gls_whiten Qc q0 Qcplus Qcmult.
Definition q_ref_fit := ref_fit Qc q0 q1 Qcplus Qcmult Qcminus Qcdiv Qc_eq_bool qofZ.
Definition q_ols_beta := ols_beta Qc q0 Qcplus Qcmult.
Definition q_ols_wresid := ols_wresid Qc q0 Qcplus Qcmult Qcminus.
Definition q_ols_dispersion := ols_dispersion Qc q0 Qcplus Qcmult Qcminus Qcdiv qofZ.
Definition q_glm_ar1_steps := glm_ar1_steps Qc q0 q1 Qcplus Qcmult Qcminus Qcdiv Qc_eq_bool qofZ.
Definition q_glm_ar1_beta := glm_ar1_beta Qc q0 q1 Qcplus Qcmult Qcminus Qcdiv Qc_eq_bool qofZ.
Definition q_glm_ar1_mse := glm_ar1_mse Qc q0 q1 Qcplus Qcmult Qcminus Qcdiv Qc_eq_bool qofZ.
Definition q_labs_beta := labs_beta Qc q0 Qcplus Qcmult.
Definition q_mtrans := @mtrans Qc q0.

(* does the fit (list of (beta_j, s2_j) per voxel) agree with the implementation's
   beta (p x V, given by columns) and s2 (V) ? *)
Definition fit_close (tol : Q) (ref : option (list (list Qc * Qc)))
           (beta_cols : list (list Qc)) (s2 : list Qc) : bool :=
  match ref with
  | Some l => mclose tol (map fst l) beta_cols && vclose tol (map snd l) s2
  | None => false
  end.

(* labels: exact ar1*steps per voxel against the implementation's integer bins;
   a disagreement is tolerated only when the exact value is within tol of an
   integer (the implementation computes the ratio in floating point) *)
Definition near_int (tol : Q) (a : Qc) : bool :=
  let f := (this a - inject_Z (Qfloor (this a)))%Q in
  Qle_bool f tol || Qle_bool (1 - tol) f.
Fixpoint labels_agree (tol : Q) (vals : list Qc) (ks : list Z) : bool :=
  match vals, ks with
  | [], [] => true
  | a :: vals', k :: ks' => (Z.eqb (qtrunc a) k || near_int tol a) && labels_agree tol vals' ks'
  | _, _ => false
  end.
Definition glm_labels_agree (tol : Q) (vals : option (list Qc)) (ks : list Z) : bool :=
  match vals with Some v => labels_agree tol v ks | None => false end.

(* Qc-instantiated linear algebra, for the statements in Properties.v *)
Definition q_dot := dot q0 Qcplus Qcmult.
Definition q_mv := mv q0 Qcplus Qcmult.
Definition q_vm := vm q0 Qcplus Qcmult.
Definition q_mm := mm q0 Qcplus Qcmult.
Definition q_col := @col Qc q0.
Definition q_vsub := vsub Qcminus.
Definition q_vscale := vscale Qcmult.
Definition q_resid := resid q0 Qcplus Qcmult Qcminus.
Definition q_rss := rss q0 Qcplus Qcmult Qcminus.
Definition q_normal_eq := normal_eq q0 Qcplus Qcmult Qcminus.
Definition q_ref_col := ref_col Qc q0 q1 Qcplus Qcmult Qcminus Qcdiv Qc_eq_bool qofZ.
Definition q_diag := diag_mat Qc q0 q1 Qcmult.
Definition q_glm_get := glm_get Qc q0.
Definition q_glm_results := glm_results Qc.

(* labs glm scale bookkeeping.  glm.ols (glm.py:262-275): s2 = RSS / (n - p), dof = n - p.
   kalman.ols (kalman.pyx:128,133): s2 = kfilt.s2 = ssd / t = RSS / n  (fff_glm_kalman.c:100),
   dof = kfilt.dof = n - p; the dof-corrected kfilt.s2_cor is computed in C but not returned. *)
Definition labs_ols_s2 (rss_ : Qc) (n p : Z) : Qc := Qcdiv rss_ (qofZ (n - p)).
Definition labs_kalman_s2 (rss_ : Qc) (n p : Z) : Qc := Qcdiv rss_ (qofZ n).
Definition labs_kalman_s2_cor (rss_ : Qc) (n p : Z) : Qc :=
  Qcmult (Qcdiv (qofZ n) (qofZ (n - p))) (labs_kalman_s2 rss_ n p).

(* ------------------------------------------------------------------ fff_glm_kalman.c : standard Kalman filter (OLS)
   fff_glm_KF_new / _reset (lines 15-77):  b = 0, Vb = INIT_VAR * I, ssd = 0, t = 0
   fff_glm_KF_iterate (lines 80-104), one row (x, y):
       t++;  Ey = x.b;  Cby = Vb x (dsymv);  Vy = x.Cby + 1;  invVy = 1/Vy;  ino = y - Ey
       b   += invVy*ino * Cby                      (daxpy)
       Vb  += -invVy * Cby Cby'                    (dger)
       ssd += ino^2 * invVy;   s2 = ssd / t
   fff_glm_KF_fit (lines 286-313): reset is the caller's business; iterate over the rows;
       dof = n - p;  s2_cor = (n / dof) * s2
   dsymv reads the upper triangle of Vb only; Vb stays symmetric (kf_sym in Proofs3), so the
   model uses the full product.  A step whose Vy is zero yields None (the C would divide by 0;
   kalman_never_divides shows it cannot happen over an ordered field). *)
Section Kalman.
  Variable R : Type.
  Variables (r0 r1 : R) (radd rmul rsub rdiv : R -> R -> R) (ropp : R -> R).
  Variable reqb : R -> R -> bool.
  Variable rofZ : Z -> R.

  Local Notation vec := (list R).
  Local Notation mat := (list (list R)).

  Record kf := { kb : vec; kVb : mat; kssd : R; kt : nat }.

  Definition smat (p : nat) (v0 : R) : mat := map (vscale rmul v0) (mid r0 r1 p).
  Definition kf_init (p : nat) (v0 : R) : kf :=
    {| kb := vzero r0 p; kVb := smat p v0; kssd := r0; kt := 0 |}.

  (* A += alpha x y' *)
  Fixpoint dger (alpha : R) (x y : vec) (A : mat) : mat :=
    match A, x with
    | row :: A', xi :: x' => vadd radd row (vscale rmul (rmul alpha xi) y) :: dger alpha x' y A'
    | _, _ => A
    end.

  Definition kf_step (st : kf) (xy : vec * R) : option kf :=
    let x := fst xy in
    let y := snd xy in
    let Ey := dot r0 radd rmul x (kb st) in
    let Cby := mv r0 radd rmul (kVb st) x in
    let Vy := radd (dot r0 radd rmul x Cby) r1 in
    if reqb Vy r0 then None else
      let invVy := rdiv r1 Vy in
      let ino := rsub y Ey in
      Some {| kb := vadd radd (kb st) (vscale rmul (rmul invVy ino) Cby);
              kVb := dger (ropp invVy) Cby Cby (kVb st);
              kssd := radd (kssd st) (rmul (rmul ino ino) invVy);
              kt := S (kt st) |}.

  Fixpoint kf_fold (rows : list (vec * R)) (st : kf) : option kf :=
    match rows with
    | [] => Some st
    | xy :: rest => match kf_step st xy with Some st' => kf_fold rest st' | None => None end
    end.

  Definition kf_fit (p : nat) (v0 : R) (X : mat) (y : vec) : option kf :=
    kf_fold (combine X y) (kf_init p v0).
  Definition kf_s2 (st : kf) : R := rdiv (kssd st) (rofZ (Z.of_nat (kt st))).
  Definition kf_dof (n p : nat) : Z := (Z.of_nat n - Z.of_nat p)%Z.
  Definition kf_s2_cor (n p : nat) (st : kf) : R :=
    rmul (rdiv (rofZ (Z.of_nat n)) (rofZ (kf_dof n p))) (kf_s2 st).
End Kalman.
Arguments kb {R} k.
Arguments kVb {R} k.
Arguments kssd {R} k.
Arguments kt {R} k.

Definition q_kf_fit := kf_fit Qc q0 q1 Qcplus Qcmult Qcminus Qcdiv Qcopp Qc_eq_bool.
Definition q_kf_s2 := kf_s2 Qc Qcdiv qofZ.
Definition q_kf_s2_cor := kf_s2_cor Qc Qcmult Qcdiv qofZ.
(* INIT_VAR = 1e7 *)
Definition kf_init_var : Qc := qofZ 10000000.
Definition kf_lambda : Qc := qfrac 1 10000000.

(* final state of the C filter (b, ssd, t, s2, s2_cor as floats) against the model *)
Definition kf_close (tol : Q) (n p : nat) (st : option (kf Qc)) (b : list Qc) (ssd s2 s2cor : Qc) (t : nat) : bool :=
  match st with
  | Some s => vclose tol (kb s) b && qclose tol (kssd s) ssd && Nat.eqb (kt s) t
              && qclose tol (q_kf_s2 s) s2 && qclose tol (q_kf_s2_cor n p s) s2cor
  | None => false
  end.

(* ------------------------------------------------------------------ contrasts (model.py Tcontrast)
     normalized_cov_beta = np.dot(calc_beta, calc_beta.T)                 (regression.py:107)
     effect = c . theta;  sd = sqrt(c cov c' * dispersion);  t = effect / sd
   (pos_recipr's guard for sd <= 0 is not modelled: t is the plain quotient; sqrt is abstract) *)
Section Contrast.
  Variable R : Type.
  Variables (r0 : R) (radd rmul rdiv : R -> R -> R) (rsqrt : R -> R).
  Definition ncov_beta (p n : nat) (P : list (list R)) : list (list R) :=
    mm r0 radd rmul p P (mtrans r0 n P).
  Definition con_effect (c b : list R) : R := dot r0 radd rmul c b.
  Definition con_quad (p n : nat) (P : list (list R)) (c : list R) : R :=
    dot r0 radd rmul c (mv r0 radd rmul (ncov_beta p n P) c).
  Definition con_t (eff quad disp : R) : R := rdiv eff (rsqrt (rmul quad disp)).
End Contrast.

(* a 1-D array as an (n,1) array *)
Definition colmat {A} (v : list A) : list (list A) := map (fun a => [a]) v.

(* the fit of one voxel y under label l, as ar_block_beta computes its column *)
Definition ar_voxel_beta (R : Type) (r0 r1 : R) (radd rmul rsub rdiv : R -> R -> R)
           (reqb : R -> R -> bool) (rofZ : Z -> R)
           (p : nat) (steps : Z) (X : list (list R)) (l : Z) (y : list R) : list R :=
  let rho := [label_val R r1 rmul rdiv rofZ steps l] in
  let wy := col r0 0 (ar_whiten R rmul rsub rho (colmat y)) in
  let bcol := match ref_col R r0 r1 radd rmul rsub rdiv reqb rofZ p
                            (ar_design R r1 rmul rsub rdiv rofZ steps l X) wy with
              | Some (b, _) => b
              | None => []
              end in
  map (fun i => nth i bcol r0) (seq 0 p).

(* ------------------------------------------------------------------ nipy/algorithms/utils/matrices.py : pos_recipr
     gt_0 = X > pr_threshold;  out[gt_0] = pr_numerator / X[gt_0];  the other entries are 0
   (threshold and numerator are TRANSLATED from the current source: Generated/PosRecipr.v).
   model.py forms every statistic of the models package through it:
     Tcontrast (258):  t = effect * pos_recipr(sd)           t() (161): theta * pos_recipr(sqrt(cov))
     Fcontrast (314):  F = (ctheta' invcov ctheta) * pos_recipr(q * dispersion)                    *)
Definition q_pos_recipr (x : Qc) : Qc :=
  if Qle_bool (this x) pr_threshold then q0 else Qcdiv (Q2Qc pr_numerator) x.
Definition q_tstat (eff sd : Qc) : Qc := Qcmult eff (q_pos_recipr sd).
Definition q_fstat (quad q disp : Qc) : Qc := Qcmult quad (q_pos_recipr (Qcmult q disp)).

(* exact fitted values and residual variance per voxel (for designs where the coefficients themselves are
   ill determined in floating point: cond up to 1e10), and the comparison with an implementation's
   fitted values (given by voxel) and s2 *)
Definition q_ref_fitted (p k : nat) (X Y : list (list Qc)) : option (list (list Qc) * list Qc) :=
  match q_ref_fit p k X Y with
  | Some l => Some (map (fun bs => q_mv X (fst bs)) l, map snd l)
  | None => None
  end.
Definition fitted_close (tol : Q) (ref : option (list (list Qc) * list Qc))
           (fitted_by_voxel : list (list Qc)) (s2 : list Qc) : bool :=
  match ref with
  | Some (F, s) => mclose tol F fitted_by_voxel && vclose tol s s2
  | None => false
  end.
