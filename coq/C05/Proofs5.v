(* C05 - pos_recipr (translated threshold / numerator) and the scale invariance of the t and F
   statistics the models package forms through it. *)
From Coq Require Import List Bool ZArith QArith Qcanon Lqa.
From NV.Generated Require Import PosRecipr.
From NV.C05 Require Import Model.
Close Scope Qc_scope.
Close Scope Q_scope.

Lemma this_mul (a b : Qc) : (this (Qcmult a b) == this a * this b)%Q.
Proof. unfold Qcmult. cbn [this Q2Qc]. apply Qred_correct. Qed.

Lemma q0_this : this q0 = (0 # 1)%Q.
Proof. reflexivity. Qed.

Lemma pr_branch (x : Qc) :
  (Qclt q0 x /\ q_pos_recipr x = Qcdiv q1 x) \/ (Qcle x q0 /\ q_pos_recipr x = q0).
Proof.
  unfold q_pos_recipr, pr_threshold, pr_numerator.
  destruct (Qle_bool (this x) (Qmake 0 1)) eqn:E.
  - right. split; [|reflexivity]. apply Qle_bool_iff in E. exact E.
  - left. split; [|reflexivity].
    unfold Qclt. rewrite q0_this. apply Qnot_le_lt. intros H.
    apply Qle_bool_iff in H. congruence.
Qed.

(* pos_recipr is the reciprocal on positive entries, zero elsewhere *)
Theorem pos_recipr_spec (x : Qc) :
  (Qclt q0 x -> Qcmult (q_pos_recipr x) x = q1) /\ (Qcle x q0 -> q_pos_recipr x = q0).
Proof.
  destruct (pr_branch x) as [[Hp E]|[Hn E]]; rewrite E; split; intros H.
  - unfold Qcdiv. rewrite Qcmult_1_l. apply Qcmult_inv_l.
    intros Z. subst x. revert Hp. unfold Qclt. rewrite q0_this. apply Qlt_irrefl.
  - exfalso. revert Hp H. unfold Qclt, Qcle. rewrite q0_this. intros A B. lra.
  - exfalso. revert Hn H. unfold Qclt, Qcle. rewrite q0_this. intros A B. lra.
  - reflexivity.
Qed.

Lemma mul_pos_sign (c x : Qc) :
  Qclt q0 c -> (Qclt q0 x -> Qclt q0 (Qcmult c x)) /\ (Qcle x q0 -> Qcle (Qcmult c x) q0).
Proof.
  unfold Qclt, Qcle. rewrite q0_this. intros Hc. split; intros Hx; rewrite this_mul; nra.
Qed.

Lemma Qc_pos_neq (x : Qc) : Qclt q0 x -> x <> q0.
Proof. intros H Z. subst x. revert H. unfold Qclt. apply Qlt_irrefl. Qed.

(* pos_recipr (c x) = pos_recipr x / c for c > 0 *)
Theorem pos_recipr_scale (c x : Qc) :
  Qclt q0 c -> q_pos_recipr (Qcmult c x) = Qcdiv (q_pos_recipr x) c.
Proof.
  intros Hc. destruct (mul_pos_sign c x Hc) as [P N].
  pose proof (Qc_pos_neq c Hc) as Nc.
  destruct (pr_branch x) as [[Hp E]|[Hn E]]; rewrite E.
  - destruct (pr_branch (Qcmult c x)) as [[Hp' E']|[Hn' E']]; rewrite E'.
    + pose proof (Qc_pos_neq x Hp) as Nx. unfold q1, q0 in *. field. auto.
    + exfalso. specialize (P Hp). revert P Hn'. unfold Qclt, Qcle. rewrite q0_this. intros A B. lra.
  - destruct (pr_branch (Qcmult c x)) as [[Hp' E']|[Hn' E']]; rewrite E'.
    + exfalso. specialize (N Hn). revert N Hp'. unfold Qclt, Qcle. rewrite q0_this. intros A B. lra.
    + unfold q0 in *. field. exact Nc.
Qed.

(* t = effect * pos_recipr(sd): invariant when effect and sd are both multiplied by c > 0 *)
Theorem tstat_scale_invariant (c eff sd : Qc) :
  Qclt q0 c -> q_tstat (Qcmult c eff) (Qcmult c sd) = q_tstat eff sd.
Proof.
  intros Hc. unfold q_tstat. rewrite (pos_recipr_scale c sd Hc).
  pose proof (Qc_pos_neq c Hc) as Nc. unfold q0 in *. field. exact Nc.
Qed.

(* F = quad * pos_recipr(q * dispersion): quad and dispersion both carry c^2 *)
Theorem fstat_scale_invariant (c quad q disp : Qc) :
  Qclt q0 c ->
  q_fstat (Qcmult (Qcmult c c) quad) q (Qcmult (Qcmult c c) disp) = q_fstat quad q disp.
Proof.
  intros Hc. unfold q_fstat.
  assert (Hcc : Qclt q0 (Qcmult c c)) by (now apply (mul_pos_sign c c Hc)).
  replace (Qcmult q (Qcmult (Qcmult c c) disp)) with (Qcmult (Qcmult c c) (Qcmult q disp)) by ring.
  rewrite (pos_recipr_scale (Qcmult c c) (Qcmult q disp) Hcc).
  pose proof (Qc_pos_neq c Hc) as Nc. unfold q0 in *. field. exact Nc.
Qed.
