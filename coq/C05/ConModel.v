(* C05 - labs GLM multi-row (F) contrast covariance for a voxel-constant nvbeta:
   nipy/labs/glm/glm.py  glm.contrast, lines 121-129

       vcon = np.dot(c, np.inner(nvbeta, c))                  # q, q
       aux = vcon.shape
       vcon = np.resize(vcon, s2.shape + aux)                 # X, q, q
       vcon = vcon.T.reshape(aux + (s2.size,)) * s2.reshape((s2.size,))   # q, q, Xflat
       vcon = vcon.reshape(aux + s2.shape)                    # q, q, X

   N-d arrays are (shape, C-order flat list); np.resize is the cyclic tiling of the flat data, .T the reversal of
   the multi-index, reshape the identity on the C-order flat data, `*` the trailing-axis broadcast.
   Executable definitions only (generic over the scalars; instance Z used by the correspondence). *)
From Coq Require Import List Arith ZArith.
Import ListNotations.

Section Con.
  Variable A : Type.
  Variable zero : A.
  Variable add mul : A -> A -> A.

  Definition prod (sh : list nat) : nat := fold_right Nat.mul 1 sh.

  (* C-order flat index of a multi-index (Horner form, first axis slowest) *)
  Definition ravel_step (acc : nat) (di : nat * nat) : nat := acc * fst di + snd di.
  Definition ravel (sh idx : list nat) : nat := fold_left ravel_step (combine sh idx) 0.

  (* multi-index of a C-order flat index; [unravel_rev] takes the reversed shape (fastest axis first) *)
  Fixpoint unravel_rev (rsh : list nat) (k : nat) : list nat :=
    match rsh with
    | [] => []
    | d :: r => (k mod d) :: unravel_rev r (k / d)
    end.
  Definition unravel (sh : list nat) (k : nat) : list nat := rev (unravel_rev (rev sh) k).

  (* np.resize(a, shape): flat data repeated cyclically up to the new size *)
  Definition resize_flat (n : nat) (l : list A) : list A :=
    map (fun k => nth (k mod length l) l zero) (seq 0 n).

  Definition of_flat (sh : list nat) (l : list A) : list nat -> A := fun idx => nth (ravel sh idx) l zero.
  Definition transpose (f : list nat -> A) : list nat -> A := fun idx => f (rev idx).          (* .T *)
  Definition to_flat (sh : list nat) (f : list nat -> A) : list A :=
    map (fun k => f (unravel sh k)) (seq 0 (prod sh)).

  (* q: contrast dimension; sh: s2.shape; vflat: c nvbeta c' flattened (q*q); s2flat: s2.ravel().
     Result: C-order flat data of the (q, q) + sh array the function stores in contrast.variance *)
  Definition fcon_cov (q : nat) (sh : list nat) (vflat s2flat : list A) : list A :=
    let V := prod sh in
    let R := of_flat (sh ++ [q; q]) (resize_flat (V * (q * q)) vflat) in     (* np.resize(vcon, s2.shape + aux) *)
    let T := to_flat ([q; q] ++ rev sh) (transpose R) in                     (* vcon.T.reshape(aux + (s2.size,)) *)
    map (fun k => mul (nth k T zero) (nth (k mod V) s2flat zero)) (seq 0 (q * q * V)).   (* * s2.reshape(size); final reshape = same flat data *)

  (* vcon = np.dot(c, np.inner(nvbeta, c)) on list matrices *)
  Definition dotl (u v : list A) : A :=
    fold_right (fun p acc => add (mul (fst p) (snd p)) acc) zero (combine u v).
  Definition inner_m (M N : list (list A)) : list (list A) := map (fun r => map (fun s => dotl r s) N) M.
  Definition cols (n : nat) (M : list (list A)) : list (list A) :=
    map (fun j => map (fun r => nth j r zero) M) (seq 0 n).
  Definition dot_m (M N : list (list A)) (ncols : nat) : list (list A) := inner_m M (cols ncols N).
  Definition fcon_vcon (c nvbeta : list (list A)) : list (list A) :=
    dot_m c (inner_m nvbeta c) (length c).

  (* glm.contrast(c).variance, dim > 1, 'nvbeta' in _constants *)
  Definition labs_fcon_variance (c nvbeta : list (list A)) (sh : list nat) (s2flat : list A) : list A :=
    fcon_cov (length c) sh (concat (fcon_vcon c nvbeta)) s2flat.
End Con.

Definition z_labs_fcon_variance := labs_fcon_variance Z 0%Z Z.add Z.mul.
Definition z_fcon_cov := fcon_cov Z 0%Z Z.mul.
