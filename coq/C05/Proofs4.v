(* C05 - (a) estimable contrasts under reparametrisation, (b) the exact AR block fit of
   Model.ar_block_beta is column-wise (hypothesis of glm_grouping_scatter), (c) the Kalman
   filter never divides by zero over an ordered field. *)
From Coq Require Import List Arith Lia Bool ZArith Ring.
From NV.Lib Require Import RingMat C05Lin.
From NV.C05 Require Import Model Proofs Proofs2 Proofs3.
Import ListNotations.

Lemma nth_colmat {A} (v : list A) s d : s < length v -> nth s (colmat v) [] = [nth s v d].
Proof.
  revert s; induction v as [|a v IH]; intros [|s] H; simpl in *; try lia; [reflexivity|].
  apply IH. lia.
Qed.

Lemma colmat_length {A} (v : list A) : length (colmat v) = length v.
Proof. apply map_length. Qed.

Section Contrast.
  Variable R : Type.
  Variables (r0 r1 : R) (radd rmul rsub rdiv : R -> R -> R) (ropp : R -> R).
  Hypothesis Rth : ring_theory r0 r1 radd rmul rsub ropp (@eq R).
  Add Ring Rring9 : Rth.
  Variable rle : R -> R -> Prop.
  Hypothesis rle_refl : forall a, rle a a.
  Hypothesis rle_trans : forall a b c, rle a b -> rle b c -> rle a c.
  Hypothesis rle_antisym : forall a b, rle a b -> rle b a -> a = b.
  Hypothesis rle_add : forall a b c, rle a b -> rle (radd c a) (radd c b).
  Hypothesis sq_nonneg : forall a, rle r0 (rmul a a).
  Hypothesis sq_zero : forall a, rmul a a = r0 -> a = r0.
  Variable rsqrt : R -> R.
  Variable rofZ : Z -> R.

  Local Notation vec := (list R).
  Local Notation mat := (list (list R)).
  Local Notation Dot := (dot r0 radd rmul).
  Local Notation Mv := (mv r0 radd rmul).
  Local Notation Vm := (vm r0 radd rmul).
  Local Notation Mm := (mm r0 radd rmul).
  Local Notation Col := (col r0).
  Local Notation Rss := (rss r0 radd rmul rsub).
  Local Notation Normal := (normal_eq r0 radd rmul rsub).
  Local Notation Dot_comm := (dot_comm R r0 r1 radd rmul rsub ropp Rth).
  Local Notation Dot_vm := (dot_vm R r0 r1 radd rmul rsub ropp Rth).
  Local Notation Vec_ext := (vec_ext_dot R r0 r1 radd rmul rsub ropp Rth).
  Local Notation Quad := (con_quad R r0 radd rmul).

  Definition penrose (n p : nat) (X P : mat) : Prop :=
    (forall d, length d = p -> Mv X (Mv P (Mv X d)) = Mv X d)
    /\ (forall u v, length u = n -> length v = n ->
                    Dot u (Mv X (Mv P v)) = Dot (Mv X (Mv P u)) v).

  Lemma mtrans_rows n (P : mat) : rows_len (length P) (mtrans r0 n P).
  Proof.
    unfold rows_len, mtrans. apply Forall_forall. intros r Hr. apply in_map_iff in Hr.
    destruct Hr as [j [<- _]]. apply col_length.
  Qed.

  Lemma mv_mtrans n (P : mat) c : rows_len n P -> Mv (mtrans r0 n P) c = Vm n c P.
  Proof.
    intros HP. unfold mv, mtrans. rewrite map_map.
    apply nth_ext with (d := r0) (d' := r0).
    - rewrite map_length, seq_length. symmetry. now apply vm_length.
    - intros j Hj. rewrite map_length, seq_length in Hj.
      rewrite nth_map_seq0 by exact Hj.
      rewrite (nth_vm R r0 r1 radd rmul rsub ropp Rth n c P j HP Hj). apply Dot_comm.
  Qed.

  (* c (P P') c' = |c P|^2 *)
  Lemma quad_is_sumsq n p P c :
    length P = p -> rows_len n P -> Quad p n P c = Dot (Vm n c P) (Vm n c P).
  Proof.
    intros LP HP. unfold con_quad, ncov_beta.
    rewrite (mv_mm R r0 r1 radd rmul rsub ropp Rth) by (rewrite <- LP; apply mtrans_rows).
    rewrite mv_mtrans by exact HP.
    now rewrite <- (Dot_vm n c P _ HP).
  Qed.

  (* for an estimable contrast c = X'a:  c P = X P a, the fitted values of the "data" a *)
  Lemma estimable_cP n p X P a :
    length X = n -> rows_len p X -> length P = p -> rows_len n P -> length a = n ->
    penrose n p X P -> Vm n (Vm p a X) P = Mv X (Mv P a).
  Proof.
    intros LX HX LP HP La [_ H2]. apply (Vec_ext n).
    - now apply vm_length.
    - now rewrite mv_length.
    - intros z Hz. rewrite (Dot_comm z (Vm n _ P)). rewrite (Dot_vm n _ P z HP).
      rewrite (Dot_vm p a X _ HX). rewrite (H2 z a Hz La). apply Dot_comm.
  Qed.

  Theorem contrast_invariant_reparam n p X1 X2 M N P1 P2 y a :
    length X1 = n -> rows_len p X1 -> rows_len p X2 ->
    length M = p -> rows_len p M -> length N = p -> rows_len p N ->
    X2 = Mm p X1 M -> X1 = Mm p X2 N ->
    length P1 = p -> rows_len n P1 -> length P2 = p -> rows_len n P2 ->
    penrose n p X1 P1 -> penrose n p X2 P2 ->
    length y = n -> length a = n ->
    let c1 := Vm p a X1 in
    let c2 := Vm p c1 M in
    let b1 := Mv P1 y in
    let b2 := Mv P2 y in
    let disp1 := rdiv (Rss X1 y b1) (rofZ (dof_shape R X1)) in
    let disp2 := rdiv (Rss X2 y b2) (rofZ (dof_shape R X2)) in
    c2 = Vm p a X2
    /\ con_effect R r0 radd rmul c2 b2 = con_effect R r0 radd rmul c1 b1
    /\ Quad p n P2 c2 = Quad p n P1 c1
    /\ disp2 = disp1
    /\ con_t R rmul rdiv rsqrt (con_effect R r0 radd rmul c2 b2) (Quad p n P2 c2) disp2
       = con_t R rmul rdiv rsqrt (con_effect R r0 radd rmul c1 b1) (Quad p n P1 c1) disp1.
  Proof.
    intros LX H1 H2 LM HM LN HN E2 E1 LP1 HP1 LP2 HP2 Pen1 Pen2 Ly La c1 c2 b1 b2 disp1 disp2.
    assert (LX2 : length X2 = n) by (rewrite E2, mm_length; exact LX).
    assert (C2 : c2 = Vm p a X2).
    { unfold c2, c1. apply (Vec_ext p); try (now apply vm_length).
      intros z Hz. rewrite (Dot_comm z (Vm p _ M)), (Dot_comm z (Vm p a X2)).
      rewrite (Dot_vm p _ M z HM), (Dot_vm p a X1 _ H1), (Dot_vm p a X2 z H2).
      rewrite E2. now rewrite (mv_mm R r0 r1 radd rmul rsub ropp Rth p X1 M z HM). }
    pose proof (fitted_unique_on_colspace R r0 r1 radd rmul rsub ropp Rth rle rle_refl rle_trans
                  rle_antisym rle_add sq_nonneg sq_zero n p p X1 X2 M N) as FU.
    assert (NE : forall d, length d = n -> Normal p X1 d (Mv P1 d) /\ Normal p X2 d (Mv P2 d)).
    { intros d Hd. destruct Pen1 as [A1 B1]. destruct Pen2 as [A2 B2]. split.
      - now apply (pinv_solves_normal_eq R r0 r1 radd rmul rsub ropp Rth n p).
      - now apply (pinv_solves_normal_eq R r0 r1 radd rmul rsub ropp Rth n p). }
    assert (FY : Mv X1 b1 = Mv X2 b2 /\ Rss X1 y b1 = Rss X2 y b2).
    { destruct (NE y Ly) as [Na Nb].
      apply (FU y b1 b2); auto; unfold b1, b2; rewrite mv_length; assumption. }
    assert (FA : Mv X1 (Mv P1 a) = Mv X2 (Mv P2 a)).
    { destruct (NE a La) as [Na Nb].
      apply (FU a (Mv P1 a) (Mv P2 a)); auto; rewrite mv_length; assumption. }
    assert (EF : con_effect R r0 radd rmul c2 b2 = con_effect R r0 radd rmul c1 b1).
    { unfold con_effect. rewrite C2. unfold c1.
      rewrite (Dot_vm p a X2 b2 H2), (Dot_vm p a X1 b1 H1). destruct FY as [F _]. now rewrite F. }
    assert (QF : Quad p n P2 c2 = Quad p n P1 c1).
    { rewrite !quad_is_sumsq by assumption. rewrite C2. unfold c1.
      rewrite (estimable_cP n p X2 P2 a) by assumption.
      rewrite (estimable_cP n p X1 P1 a) by assumption. now rewrite FA. }
    assert (DF : disp2 = disp1).
    { unfold disp1, disp2. destruct FY as [_ F]. rewrite F. f_equal. f_equal.
      unfold dof_shape, ncols. rewrite LX, LX2. f_equal. f_equal.
      destruct X1 as [|ra X1']; destruct X2 as [|rb X2']; simpl in *; try congruence.
      inversion H1; inversion H2; congruence. }
    repeat split; auto. now rewrite EF, QF, DF.
  Qed.
End Contrast.

(* ------------------------------------------------------------------ AR block fit is column-wise *)
Section ARBlock.
  Variable R : Type.
  Variables (r0 r1 : R) (radd rmul rsub rdiv : R -> R -> R) (ropp : R -> R).
  Hypothesis Rth : ring_theory r0 r1 radd rmul rsub ropp (@eq R).
  Add Ring Rring10 : Rth.
  Variable reqb : R -> R -> bool.
  Variable rofZ : Z -> R.

  Local Notation vec := (list R).
  Local Notation mat := (list (list R)).
  Local Notation Col := (col r0).
  Local Notation Vsub := (vsub rsub).
  Local Notation Vscale := (vscale rmul).
  Local Notation Ar_whiten := (ar_whiten R rmul rsub).
  Local Notation Ar_row_from := (ar_row_from R rmul rsub).

  Lemma ar_row_from_col k (Y : mat) j t rho : forall i acc acc1,
      rows_len k Y -> j < k -> t < length Y ->
      length acc = k -> length acc1 = 1 -> nth j acc r0 = nth 0 acc1 r0 ->
      nth j (Ar_row_from Y rho i t acc) r0
      = nth 0 (Ar_row_from (colmat (Col j Y)) rho i t acc1) r0.
  Proof.
    induction rho as [|r rho IH]; intros i acc acc1 HY Hj Ht La L1 E; cbn [ar_row_from];
      [exact E|].
    destruct (Nat.ltb_spec i t) as [Hlt|Hge]; [|now apply IH].
    assert (Hs : t - S i < length Y) by lia.
    assert (Lrow : length (nth (t - S i) Y []) = k) by (now apply (nth_rows_len R k)).
    rewrite (nth_colmat (Col j Y) (t - S i) r0) by (now rewrite col_length).
    apply IH; auto.
    - rewrite (vsub_length R rsub) by (rewrite vscale_length; congruence). exact La.
    - rewrite (vsub_length R rsub) by (rewrite vscale_length; simpl; congruence). exact L1.
    - rewrite (nth_vsub R r0 r1 radd rmul rsub ropp Rth) by (rewrite vscale_length; congruence).
      rewrite (nth_vsub R r0 r1 radd rmul rsub ropp Rth) by (rewrite vscale_length; simpl; congruence).
      rewrite !(nth_vscale R r0 r1 radd rmul rsub ropp Rth). cbn [nth].
      rewrite (nth_col R r0 j Y (t - S i) Hs). now rewrite E.
  Qed.

  (* whitening commutes with taking a column *)
  Theorem col_ar_whiten k (Y : mat) rho j :
    rows_len k Y -> j < k -> Col j (Ar_whiten rho Y) = Col 0 (Ar_whiten rho (colmat (Col j Y))).
  Proof.
    intros HY Hj. apply nth_ext with (d := r0) (d' := r0).
    - now rewrite !col_length, !(ar_whiten_length R rmul rsub), colmat_length, col_length.
    - intros t Ht. rewrite col_length, (ar_whiten_length R rmul rsub) in Ht.
      rewrite (nth_col R r0) by (now rewrite (ar_whiten_length R rmul rsub)).
      rewrite (nth_col R r0)
        by (now rewrite (ar_whiten_length R rmul rsub), colmat_length, col_length).
      rewrite !(ar_whiten_spec R rmul rsub) by (rewrite ?colmat_length, ?col_length; exact Ht).
      unfold ar_row. apply (ar_row_from_col k); auto.
      + now apply (nth_rows_len R k).
      + rewrite (nth_colmat (Col j Y) t r0) by (now rewrite col_length). reflexivity.
      + rewrite (nth_colmat (Col j Y) t r0) by (now rewrite col_length). cbn [nth].
        symmetry. now apply (nth_col R r0).
  Qed.

  Local Notation Block := (ar_block_beta R r0 r1 radd rmul rsub rdiv reqb rofZ).
  Local Notation Voxel := (ar_voxel_beta R r0 r1 radd rmul rsub rdiv reqb rofZ).

  Lemma ncols_rows k (Yb : mat) : 0 < length Yb -> rows_len k Yb -> ncols R Yb = k.
  Proof.
    intros Hn HY. destruct Yb as [|r Yb]; [simpl in Hn; lia|].
    unfold ncols. simpl. inversion HY; assumption.
  Qed.

  Theorem ar_block_columnwise n p steps X l Yb k :
    0 < n -> length Yb = n -> rows_len k Yb ->
    length (Block p steps X l Yb) = p /\ rows_len k (Block p steps X l Yb)
    /\ forall j, j < k -> Col j (Block p steps X l Yb) = Voxel p steps X l (Col j Yb).
  Proof.
    intros Hn LY HY. unfold ar_block_beta, ar_block_cols, cols_to_mat.
    rewrite (ncols_rows k Yb) by (auto; lia).
    split; [now rewrite map_length, seq_length|]. split.
    - unfold rows_len. apply Forall_forall. intros r Hr. apply in_map_iff in Hr.
      destruct Hr as [i [<- _]]. now rewrite !map_length, seq_length.
    - intros j Hj. unfold col at 1. rewrite map_map. unfold ar_voxel_beta. apply map_ext.
      intros i. rewrite !map_map.
      match goal with |- nth j (map ?h (seq 0 k)) r0 = _ => rewrite (nth_map_seq0 h k j r0 Hj) end.
      rewrite (col_ar_whiten k Yb _ j HY Hj). reflexivity.
  Qed.
End ARBlock.
