(* C05 - the label / results_ dictionary machinery of GeneralLinearModel
   (grouping of voxels by discretised AR(1) coefficient, per-label refit,
   scatter back with boolean masks) returns for every voxel the fit under that
   voxel's own label.  Also: optimality of the pinv-based OLS fit and of the
   certified reference fit; the Qc instance of the ordered-ring hypotheses. *)
From Coq Require Import List Arith Lia Bool ZArith Ring QArith Qcanon.
From NV.Lib Require Import RingMat C05Lin.
From NV.C05 Require Import Model Proofs.
Import ListNotations.
Close Scope Qc_scope.
Close Scope Q_scope.

(* ------------------------------------------------------------------ masks *)
Fixpoint rank (mask : list bool) (v : nat) : nat :=
  match v, mask with
  | S v', m :: ms => (if m then 1 else 0) + rank ms v'
  | _, _ => 0
  end.
Fixpoint ntrue (mask : list bool) : nat :=
  match mask with
  | [] => 0
  | m :: ms => (if m then 1 else 0) + ntrue ms
  end.

Lemma compress_length {A} mask (row : list A) :
  length mask = length row -> length (compress mask row) = ntrue mask.
Proof.
  revert row; induction mask as [|m ms IH]; intros [|a r] H; simpl in *; try discriminate;
    [reflexivity|].
  destruct m; simpl; rewrite IH by lia; reflexivity.
Qed.

Lemma rank_lt mask v : v < length mask -> nth v mask false = true -> rank mask v < ntrue mask.
Proof.
  revert v; induction mask as [|m ms IH]; intros [|v] Hv Hm; simpl in *; try lia.
  - subst m. lia.
  - assert (rank ms v < ntrue ms) by (apply IH; [lia|exact Hm]). destruct m; lia.
Qed.

(* the rank(v)-th selected element is element v *)
Lemma nth_compress {A} mask (row : list A) v d :
  length mask = length row -> nth v mask false = true ->
  nth (rank mask v) (compress mask row) d = nth v row d.
Proof.
  revert row v; induction mask as [|m ms IH]; intros [|a r] [|v] H Hm; simpl in *;
    try discriminate; try reflexivity.
  - subst m. reflexivity.
  - destruct m; simpl; apply IH; auto; lia.
Qed.

Lemma assign_masked_length {A} mask (old vals : list A) :
  length (assign_masked mask old vals) = length old.
Proof.
  revert old vals; induction mask as [|m ms IH]; intros [|o os] vals; simpl; try reflexivity.
  destruct m; [destruct vals as [|v vs]|]; simpl; now rewrite IH.
Qed.

Lemma nth_assign_masked {A} mask (old vals : list A) v d :
  length mask = length old -> length vals = ntrue mask -> v < length old ->
  nth v (assign_masked mask old vals) d =
  if nth v mask false then nth (rank mask v) vals d else nth v old d.
Proof.
  revert old vals v; induction mask as [|m ms IH]; intros [|o os] vals v H Hv Hlt; simpl in *;
    try discriminate; try lia.
  destruct m.
  - destruct vals as [|x vs]; [simpl in Hv; lia|].
    destruct v as [|v]; simpl; [reflexivity|]. apply IH; simpl in *; lia.
  - destruct v as [|v]; simpl; [reflexivity|]. apply IH; simpl in *; lia.
Qed.

Lemma zinsert_in z l y : In y (zinsert z l) <-> y = z \/ In y l.
Proof.
  induction l as [|x r IH]; simpl; [intuition|].
  destruct (Z.ltb_spec z x) as [H|H]; simpl; [intuition|].
  destruct (Z.eqb_spec z x) as [E|E]; simpl; [subst; intuition|].
  rewrite IH. intuition.
Qed.

Lemma zuniq_in l y : In y (zuniq l) <-> In y l.
Proof.
  induction l as [|x r IH]; simpl; [reflexivity|]. rewrite zinsert_in, IH. intuition.
Qed.

Lemma nth_mask_of l labels v :
  v < length labels -> nth v (mask_of l labels) false = Z.eqb l (nth v labels 0%Z).
Proof.
  intros H. unfold mask_of.
  rewrite nth_indep with (d' := Z.eqb l 0%Z) by (now rewrite map_length).
  now rewrite map_nth.
Qed.

(* ------------------------------------------------------------------ scatter *)
Section Scatter.
  Variable R : Type.
  Variable r0 : R.
  Local Notation vec := (list R).
  Local Notation mat := (list (list R)).
  Local Notation Col := (col r0).

  Variables (n p V : nat).
  Variable fit : Z -> mat -> mat.     (* block fit: n x k data -> p x k estimates *)
  Variable f : Z -> vec -> vec.       (* the fit of one voxel under one label *)
  Hypothesis Hfit : forall l Yb k,
      length Yb = n -> rows_len k Yb ->
      length (fit l Yb) = p /\ rows_len k (fit l Yb)
      /\ forall j, j < k -> Col j (fit l Yb) = f l (Col j Yb).
  Variable Y : mat.
  Variable labels : list Z.
  Hypothesis HY : length Y = n.
  Hypothesis HYr : rows_len V Y.
  Hypothesis HL : length labels = V.

  Local Notation mk := (fun l => (l, fit l (map (compress (mask_of l labels)) Y))).
  Local Notation step :=
    (fun (acc : mat) (lt : Z * mat) => assign_block R (mask_of (fst lt) labels) acc (snd lt)).

  Definition shape (acc : mat) : Prop := length acc = p /\ rows_len V acc.

  Lemma mask_length l : length (mask_of l labels) = V.
  Proof. unfold mask_of. now rewrite map_length. Qed.

  Lemma block_shape l :
    let Yl := map (compress (mask_of l labels)) Y in
    length Yl = n /\ rows_len (ntrue (mask_of l labels)) Yl.
  Proof.
    cbn zeta. split; [now rewrite map_length|].
    unfold rows_len in *. rewrite Forall_forall in *. intros r Hr.
    apply in_map_iff in Hr. destruct Hr as [row [<- Hin]].
    apply compress_length. rewrite mask_length. symmetry. now apply HYr.
  Qed.

  Lemma col_block l v :
    v < V -> nth v (mask_of l labels) false = true ->
    Col (rank (mask_of l labels) v) (map (compress (mask_of l labels)) Y) = Col v Y.
  Proof.
    intros Hv Hm. unfold col. rewrite map_map. apply map_ext_in. intros row Hin.
    apply nth_compress; [|exact Hm].
    rewrite mask_length. symmetry. unfold rows_len in HYr. rewrite Forall_forall in HYr.
    now apply HYr.
  Qed.

  Lemma nth_assign_block mask (acc theta : mat) i :
    length acc = length theta -> i < length acc ->
    nth i (assign_block R mask acc theta) [] = assign_masked mask (nth i acc []) (nth i theta []).
  Proof.
    unfold assign_block. revert theta i; induction acc as [|a acc IH]; intros [|t theta] [|i] H Hi;
      simpl in *; try lia; [reflexivity|]. apply IH; lia.
  Qed.

  Lemma step_shape acc l : shape acc -> shape (step acc (mk l)).
  Proof.
    intros [Hp Hr]. destruct (block_shape l) as [B1 B2]. cbn zeta in B1, B2.
    destruct (Hfit l _ _ B1 B2) as [F1 [F2 _]]. cbn [fst snd].
    unfold shape, assign_block. split.
    - rewrite map_length, combine_length. lia.
    - unfold rows_len in *. rewrite Forall_forall in *. intros r Hin.
      apply in_map_iff in Hin. destruct Hin as [[o t] [<- Hin]]. cbn [fst snd].
      rewrite assign_masked_length. apply Hr. eapply in_combine_l; eauto.
  Qed.

  (* one label processed: voxels carrying that label receive their own fit, the rest keep their value *)
  Lemma step_value acc l i v :
    shape acc -> i < p -> v < V ->
    nth v (nth i (step acc (mk l)) []) r0 =
    if Z.eqb l (nth v labels 0%Z) then nth i (f l (Col v Y)) r0 else nth v (nth i acc []) r0.
  Proof.
    intros [Hp Hr] Hi Hv. destruct (block_shape l) as [B1 B2]. cbn zeta in B1, B2.
    destruct (Hfit l _ _ B1 B2) as [F1 [F2 F3]]. cbn [fst snd].
    set (mask := mask_of l labels) in *.
    set (theta := fit l (map (compress mask) Y)) in *.
    rewrite nth_assign_block by lia.
    assert (La : length (nth i acc []) = V).
    { unfold rows_len in Hr. rewrite Forall_forall in Hr. apply Hr, nth_In. lia. }
    assert (Lt : length (nth i theta []) = ntrue mask).
    { unfold rows_len in F2. rewrite Forall_forall in F2. apply F2, nth_In. lia. }
    rewrite nth_assign_masked by (try (unfold mask; rewrite mask_length); lia).
    unfold mask at 1. rewrite nth_mask_of by lia.
    destruct (Z.eqb l (nth v labels 0%Z)) eqn:E; [|reflexivity].
    assert (Hm : nth v mask false = true) by (unfold mask; rewrite nth_mask_of by lia; exact E).
    assert (Hk : rank mask v < ntrue mask) by (apply rank_lt; [unfold mask; rewrite mask_length; lia|exact Hm]).
    rewrite <- (nth_col R r0 (rank mask v) theta i) by lia.
    rewrite (F3 _ Hk). unfold mask. now rewrite col_block.
  Qed.

  Lemma fold_value L : forall acc i v,
      shape acc -> i < p -> v < V ->
      nth v (nth i (fold_left step (map mk L) acc) []) r0 =
      if existsb (fun l => Z.eqb l (nth v labels 0%Z)) L
      then nth i (f (nth v labels 0%Z) (Col v Y)) r0 else nth v (nth i acc []) r0.
  Proof.
    induction L as [|l L IH]; intros acc i v Hs Hi Hv; [reflexivity|].
    cbn [map fold_left existsb].
    rewrite IH by (auto using step_shape).
    destruct (existsb _ L); [now rewrite orb_true_r|].
    rewrite orb_false_r. rewrite step_value by assumption.
    destruct (Z.eqb_spec l (nth v labels 0%Z)) as [->|_]; reflexivity.
  Qed.

  Hypothesis f_len : forall l y, length y = n -> length (f l y) = p.

  Theorem glm_grouping_scatter v :
    v < V ->
    Col v (glm_get R r0 p labels (glm_results R fit labels Y)) = f (nth v labels 0%Z) (Col v Y).
  Proof.
    intros Hv. unfold glm_get, glm_results.
    set (acc0 := repeat (repeat r0 (length labels)) p).
    assert (S0 : shape acc0).
    { unfold shape, acc0. split; [apply repeat_length|].
      unfold rows_len. apply Forall_forall. intros r Hr. apply repeat_spec in Hr. subst r.
      rewrite repeat_length. exact HL. }
    assert (SF : forall L acc, shape acc -> shape (fold_left step (map mk L) acc)).
    { induction L as [|l L IHL]; intros acc Hs; [exact Hs|]. cbn [map fold_left].
      apply IHL. now apply step_shape. }
    destruct (SF (zuniq labels) acc0 S0) as [Lp _].
    apply nth_ext with (d := r0) (d' := r0).
    - rewrite col_length, Lp. symmetry. apply f_len. now rewrite col_length.
    - intros i Hi. rewrite col_length, Lp in Hi.
      rewrite (nth_col R r0) by lia.
      rewrite fold_value by assumption.
      assert (E : existsb (fun l => Z.eqb l (nth v labels 0%Z)) (zuniq labels) = true).
      { apply existsb_exists. exists (nth v labels 0%Z). split; [|apply Z.eqb_refl].
        apply zuniq_in, nth_In. lia. }
      now rewrite E.
  Qed.
End Scatter.

(* ------------------------------------------------------------------ optimality of the fits *)
Section Optimal.
  Variable R : Type.
  Variables (r0 r1 : R) (radd rmul rsub rdiv : R -> R -> R) (ropp : R -> R).
  Hypothesis Rth : ring_theory r0 r1 radd rmul rsub ropp (@eq R).
  Variable rle : R -> R -> Prop.
  Hypothesis rle_refl : forall a, rle a a.
  Hypothesis rle_trans : forall a b c, rle a b -> rle b c -> rle a c.
  Hypothesis rle_add : forall a b c, rle a b -> rle (radd c a) (radd c b).
  Hypothesis sq_nonneg : forall a, rle r0 (rmul a a).
  Variable reqb : R -> R -> bool.
  Hypothesis reqb_true : forall a b, reqb a b = true -> a = b.
  Variable rofZ : Z -> R.

  Local Notation Mv := (mv r0 radd rmul).
  Local Notation Dot := (dot r0 radd rmul).
  Local Notation Col := (col r0).
  Local Notation Rss := (rss r0 radd rmul rsub).

  (* nipy's OLS fit (beta = pinv(wX) wY) minimises the whitened RSS of every
     voxel, given the Moore-Penrose contract of the pinv oracle *)
  Theorem ols_fit_optimal n p k P wX wY j b' :
    length wX = n -> rows_len p wX -> length wY = n -> rows_len k wY ->
    length P = p -> j < k -> length b' = p ->
    (forall d, length d = p -> Mv wX (Mv P (Mv wX d)) = Mv wX d) ->
    (forall u v, length u = n -> length v = n ->
                 Dot u (Mv wX (Mv P v)) = Dot (Mv wX (Mv P u)) v) ->
    rle (Rss wX (Col j wY) (Col j (ols_beta R r0 radd rmul k P wY))) (Rss wX (Col j wY) b').
  Proof.
    intros Hn HX HY HYr HP Hj Hb H1 H2.
    rewrite (ols_beta_columnwise R r0 r1 radd rmul rsub ropp Rth k P wY j HYr Hj).
    apply (normal_eq_optimal R r0 r1 radd rmul rsub ropp Rth rle rle_refl rle_trans rle_add sq_nonneg n p);
      try assumption.
    - now rewrite col_length.
    - rewrite mv_length. congruence.
    - apply (pinv_solves_normal_eq R r0 r1 radd rmul rsub ropp Rth n p); try assumption.
      now rewrite col_length.
  Qed.

  (* the certified reference: whatever ref_col returns is a least-squares solution
     and its second component is RSS / (n - p) *)
  Theorem ref_col_optimal n p wX wy b s b' :
    length wX = n -> rows_len p wX -> length wy = n -> length b' = p ->
    ref_col R r0 r1 radd rmul rsub rdiv reqb rofZ p wX wy = Some (b, s) ->
    normal_eq r0 radd rmul rsub p wX wy b
    /\ rle (Rss wX wy b) (Rss wX wy b')
    /\ s = rdiv (Rss wX wy b) (rofZ (dof_shape R wX)).
  Proof.
    intros Hn HX Hy Hb H. unfold ref_col, Solve in H.
    destruct (solve_normal r0 r1 radd rmul rsub rdiv reqb p wX wy) as [b0|] eqn:E; [|discriminate].
    injection H as <- <-.
    destruct (solve_normal_sound R r0 r1 radd rmul rsub rdiv reqb reqb_true p wX wy b0 E) as [Lb Nb].
    split; [exact Nb|split; [|reflexivity]].
    apply (normal_eq_optimal R r0 r1 radd rmul rsub ropp Rth rle rle_refl rle_trans rle_add sq_nonneg n p);
      try assumption. congruence.
  Qed.
End Optimal.

(* ------------------------------------------------------------------ Qc is an instance *)
Lemma Qc_sq_nonneg (a : Qc) : Qcle (Q2Qc 0) (Qcmult a a).
Proof.
  unfold Qcle. cbn [this Q2Qc Qcmult]. rewrite !Qred_correct.
  unfold Qle, Qmult. cbn [Qnum Qden]. rewrite Z.mul_1_r. cbn. apply Z.square_nonneg.
Qed.

Lemma Qc_sq_zero (a : Qc) : Qcmult a a = Q2Qc 0 -> a = Q2Qc 0.
Proof. intros H. destruct (Qcmult_integral a a H); assumption. Qed.

Lemma Qc_le_add (a b c : Qc) : Qcle a b -> Qcle (Qcplus c a) (Qcplus c b).
Proof. intros H. apply Qcplus_le_compat; [apply Qcle_refl|exact H]. Qed.

Lemma Qc_eqb_true (a b : Qc) : Qc_eq_bool a b = true -> a = b.
Proof. apply Qc_eq_bool_correct. Qed.
