(* C05 - the standard Kalman filter of lib/fff/fff_glm_kalman.c (Model.kf_step) as a
   recursive least-squares solver.  Invariants, proved for every step:
     S  Vb is symmetric
     L  Vb (X'X + lambda I) = I                       (lambda = 1 / INIT_VAR)
     N  (X'X + lambda I) b = X'y                      (prior-regularised normal equations)
     D  ssd = y'y - b'X'y  ( = RSS(b) + lambda |b|^2 )
   all in "tested against every vector" form, which turns each step into a scalar identity. *)
From Coq Require Import List Arith Lia Bool ZArith Ring.
From NV.Lib Require Import RingMat C05Lin.
From NV.C05 Require Import Model Proofs.
Import ListNotations.

Section KalmanProofs.
  Variable R : Type.
  Variables (r0 r1 : R) (radd rmul rsub rdiv : R -> R -> R) (ropp : R -> R).
  Hypothesis Rth : ring_theory r0 r1 radd rmul rsub ropp (@eq R).
  Add Ring Rring8 : Rth.
  Variable reqb : R -> R -> bool.
  Hypothesis reqb_false : forall a b, reqb a b = false -> a <> b.
  Hypothesis rdiv_inv : forall a, a <> r0 -> rmul (rdiv r1 a) a = r1.

  Local Notation vec := (list R).
  Local Notation mat := (list (list R)).
  Local Notation Dot := (dot r0 radd rmul).
  Local Notation Vadd := (vadd radd).
  Local Notation Vsub := (vsub rsub).
  Local Notation Vscale := (vscale rmul).
  Local Notation Vzero := (vzero r0).
  Local Notation Mv := (mv r0 radd rmul).
  Local Notation Vm := (vm r0 radd rmul).
  Local Notation Dger := (dger R radd rmul).
  Local Notation Smat := (smat R r0 r1 rmul).
  Local Notation Kf := (kf R).
  Local Notation Step := (kf_step R r0 r1 radd rmul rsub rdiv ropp reqb).
  Local Notation Fold := (kf_fold R r0 r1 radd rmul rsub rdiv ropp reqb).
  Local Notation Dot_comm := (dot_comm R r0 r1 radd rmul rsub ropp Rth).
  Local Notation Dot_vadd_l := (dot_vadd_l R r0 r1 radd rmul rsub ropp Rth).
  Local Notation Dot_vadd_r := (dot_vadd_r R r0 r1 radd rmul rsub ropp Rth).
  Local Notation Dot_vscale_l := (dot_vscale_l R r0 r1 radd rmul rsub ropp Rth).
  Local Notation Dot_vscale_r := (dot_vscale_r R r0 r1 radd rmul rsub ropp Rth).
  Local Notation Mv_vscale := (mv_vscale R r0 r1 radd rmul rsub ropp Rth).

  Variable p : nat.
  Variables lam v0 : R.
  Hypothesis lam_v0 : rmul lam v0 = r1.

  (* the bilinear form z' (X'X + lambda I) v and the linear form z' X'y *)
  Definition Qf (X : mat) (z v : vec) : R := radd (Dot (Mv X z) (Mv X v)) (rmul lam (Dot z v)).
  Definition Gf (X : mat) (y z : vec) : R := Dot (Mv X z) y.

  (* ---------------------------------------------------------------- linear algebra *)
  Lemma mv_vadd A u v : length u = length v -> Mv A (Vadd u v) = Vadd (Mv A u) (Mv A v).
  Proof.
    intros H. unfold mv. induction A as [|r A IH]; simpl; [reflexivity|].
    rewrite IH. f_equal. now apply Dot_vadd_r.
  Qed.

  Lemma mv_snoc X x z : Mv (X ++ [x]) z = Mv X z ++ [Dot x z].
  Proof. unfold mv. now rewrite map_app. Qed.

  Lemma Qf_snoc X x z v : Qf (X ++ [x]) z v = radd (Qf X z v) (rmul (Dot x z) (Dot x v)).
  Proof.
    unfold Qf. rewrite !mv_snoc.
    rewrite (dot_app R r0 r1 radd rmul rsub ropp Rth) by (now rewrite !mv_length).
    simpl. ring.
  Qed.

  Lemma Gf_snoc X y x eta z :
    length y = length X -> Gf (X ++ [x]) (y ++ [eta]) z = radd (Gf X y z) (rmul (Dot x z) eta).
  Proof.
    intros H. unfold Gf. rewrite mv_snoc.
    rewrite (dot_app R r0 r1 radd rmul rsub ropp Rth) by (now rewrite mv_length).
    simpl. ring.
  Qed.

  Lemma Qf_sym X z v : Qf X z v = Qf X v z.
  Proof. unfold Qf. rewrite (Dot_comm (Mv X z)), (Dot_comm z). reflexivity. Qed.

  Lemma Qf_add_l X z1 z2 v :
    length z1 = length z2 -> Qf X (Vadd z1 z2) v = radd (Qf X z1 v) (Qf X z2 v).
  Proof.
    intros H. unfold Qf. rewrite mv_vadd by exact H.
    rewrite Dot_vadd_l by (now rewrite !mv_length). rewrite Dot_vadd_l by exact H. ring.
  Qed.

  Lemma Qf_scale_l X k z v : Qf X (Vscale k z) v = rmul k (Qf X z v).
  Proof. unfold Qf. rewrite Mv_vscale, !Dot_vscale_l. ring. Qed.

  Lemma Gf_add X y z1 z2 :
    length z1 = length z2 -> Gf X y (Vadd z1 z2) = radd (Gf X y z1) (Gf X y z2).
  Proof.
    intros H. unfold Gf. rewrite mv_vadd by exact H.
    now rewrite Dot_vadd_l by (now rewrite !mv_length).
  Qed.

  Lemma Gf_scale X y k z : Gf X y (Vscale k z) = rmul k (Gf X y z).
  Proof. unfold Gf. now rewrite Mv_vscale, Dot_vscale_l. Qed.

  (* rank-one update: (A + alpha x y') u = A u + alpha (y.u) x *)
  Lemma mv_dger alpha x y A u :
    length A = length x -> rows_len p A -> length y = p ->
    Mv (Dger alpha x y A) u = Vadd (Mv A u) (Vscale (rmul alpha (Dot y u)) x).
  Proof.
    revert x; induction A as [|row A IH]; intros [|xi x] HA Hr Hy; simpl in *; try discriminate;
      [reflexivity|].
    apply Forall_cons_iff in Hr. destruct Hr as [Hrow Hr'].
    unfold mv in *. simpl. rewrite IH by (auto; lia). f_equal.
    rewrite Dot_vadd_l by (rewrite vscale_length; congruence).
    rewrite Dot_vscale_l. ring.
  Qed.

  Lemma dger_length alpha x y A : length (Dger alpha x y A) = length A.
  Proof.
    revert x; induction A as [|row A IH]; intros [|xi x]; simpl; auto.
  Qed.

  Lemma dger_rows alpha x y A : rows_len p A -> length y = p -> rows_len p (Dger alpha x y A).
  Proof.
    intros Hr Hy. revert x; induction A as [|row A IH]; intros [|xi x]; simpl; auto.
    apply Forall_cons_iff in Hr. destruct Hr as [Hrow Hr']. constructor; [|now apply IH].
    rewrite vadd_length by (rewrite vscale_length; congruence). exact Hrow.
  Qed.

  Lemma mv_smat u : length u = p -> Mv (Smat p v0) u = Vscale v0 u.
  Proof.
    intros H. transitivity (Vscale v0 (Mv (mid r0 r1 p) u));
      [|now rewrite (mv_mid R r0 r1 radd rmul rsub ropp Rth p u H)].
    unfold smat, mv, vscale. rewrite !map_map. apply map_ext. intros r. apply Dot_vscale_l.
  Qed.

  Lemma smat_shape : length (Smat p v0) = p /\ rows_len p (Smat p v0).
  Proof.
    unfold smat. split; [now rewrite map_length, mid_length|].
    unfold rows_len. apply Forall_forall. intros r Hr. apply in_map_iff in Hr.
    destruct Hr as [e [<- He]]. rewrite vscale_length.
    pose proof (mid_rows_len R r0 r1 p) as Hm. unfold rows_len in Hm. rewrite Forall_forall in Hm.
    now apply Hm.
  Qed.

  (* two vectors with the same products against every vector are equal *)
  Lemma vec_ext_dot u v :
    length u = p -> length v = p -> (forall z, length z = p -> Dot z u = Dot z v) -> u = v.
  Proof.
    intros Hu Hv H. apply nth_ext with (d := r0) (d' := r0); [congruence|].
    intros k Hk. rewrite Hu in Hk.
    rewrite <- (dot_unit R r0 r1 radd rmul rsub ropp Rth p k u Hk).
    rewrite <- (dot_unit R r0 r1 radd rmul rsub ropp Rth p k v Hk).
    apply H. apply (unit_length R r0 r1).
  Qed.

  (* ---------------------------------------------------------------- the invariant *)
  Record Inv (X : mat) (y : vec) (st : Kf) : Prop := {
    i_lb : length (kb st) = p;
    i_lV : length (kVb st) = p;
    i_rV : rows_len p (kVb st);
    i_S : forall u w, length u = p -> length w = p ->
                      Dot (Mv (kVb st) u) w = Dot u (Mv (kVb st) w);
    i_L : forall v w, length v = p -> length w = p -> Qf X (Mv (kVb st) w) v = Dot w v;
    i_N : forall z, length z = p -> Qf X z (kb st) = Gf X y z;
    i_D : kssd st = rsub (Dot y y) (Gf X y (kb st));
    i_T : kt st = length X
  }.

  Lemma inv_init : Inv [] [] (kf_init R r0 r1 rmul p v0).
  Proof.
    destruct smat_shape as [S1 S2].
    constructor; cbn [kb kVb kssd kt kf_init]; auto.
    - apply vzero_length.
    - intros u w Hu Hw. rewrite !mv_smat by assumption. rewrite Dot_vscale_l, Dot_vscale_r. reflexivity.
    - intros v w Hv Hw. unfold Qf. rewrite mv_smat by assumption. cbn [mv map dot].
      rewrite Dot_vscale_l. transitivity (rmul (rmul lam v0) (Dot w v)); [ring|].
      rewrite lam_v0. ring.
    - intros z Hz. unfold Qf, Gf. cbn [mv map dot].
      rewrite (dot_vzero_r R r0 r1 radd rmul rsub ropp Rth). ring.
    - unfold Gf. cbn [mv map dot]. ring.
  Qed.

  (* one call of fff_glm_KF_iterate preserves the invariant (Sherman-Morrison step) *)
  Theorem kf_step_inv X y st x eta st' :
    rows_len p X -> length y = length X -> length x = p ->
    Inv X y st -> Step st (x, eta) = Some st' -> Inv (X ++ [x]) (y ++ [eta]) st'.
  Proof.
    intros HX Hy Hx I HS. destruct I as [Lb LV RV IS IL IN ID IT].
    unfold kf_step in HS. cbn [fst snd] in HS.
    set (Vb := kVb st) in *. set (b := kb st) in *.
    set (c := Mv Vb x) in *.
    set (xc := Dot x c) in *.
    destruct (reqb (radd xc r1) r0) eqn:EV; [discriminate|].
    apply reqb_false in EV. pose proof (rdiv_inv _ EV) as HV.
    set (iv := rdiv r1 (radd xc r1)) in *.
    assert (H2 : rmul iv xc = rsub r1 iv).
    { transitivity (rsub (rmul iv (radd xc r1)) iv); [ring|rewrite HV; reflexivity]. }
    injection HS as <-.
    assert (Lc : length c = p) by (unfold c; rewrite mv_length; exact LV).
    set (xb := Dot x b) in *.
    set (ino := rsub eta xb) in *.
    set (k := rmul iv ino) in *.
    assert (MV : forall u, length u = p ->
                           Mv (Dger (ropp iv) c c Vb) u = Vadd (Mv Vb u) (Vscale (rmul (ropp iv) (Dot c u)) c)).
    { intros u Hu. apply mv_dger; congruence. }
    assert (Xc : forall w, length w = p -> Dot x (Mv Vb w) = Dot c w).
    { intros w Hw. unfold c. symmetry. now apply IS. }
    assert (Lcx : forall v, length v = p -> Qf X c v = Dot x v) by (intros v Hv; unfold c; now apply IL).
    constructor; cbn [kb kVb kssd kt].
    - rewrite vadd_length by (rewrite vscale_length; congruence). exact Lb.
    - now rewrite dger_length.
    - now apply dger_rows.
    - (* symmetry *)
      intros u w Hu Hw. rewrite !MV by assumption.
      rewrite Dot_vadd_l by (rewrite mv_length, vscale_length; congruence).
      rewrite Dot_vadd_r by (rewrite mv_length, vscale_length; congruence).
      rewrite Dot_vscale_l, Dot_vscale_r, (IS u w Hu Hw), (Dot_comm u c). ring.
    - (* Vb' (A + x x') = I *)
      intros v w Hv Hw. rewrite Qf_snoc. rewrite MV by assumption.
      rewrite Qf_add_l by (rewrite mv_length, vscale_length; congruence).
      rewrite Qf_scale_l, (IL v w Hv Hw), (Lcx v Hv).
      rewrite Dot_vadd_r by (rewrite mv_length, vscale_length; congruence).
      rewrite Dot_vscale_r, (Xc w Hw). fold xc.
      set (cw := Dot c w). set (s := Dot x v). set (wv := Dot w v).
      ring [H2].
    - (* (A + x x') b' = g + eta x *)
      intros z Hz. rewrite Qf_snoc, (Gf_snoc X y x eta z Hy).
      rewrite (Qf_sym X z). rewrite Qf_add_l by (rewrite vscale_length; congruence).
      rewrite Qf_scale_l, (Qf_sym X b z), (IN z Hz), (Lcx z Hz).
      rewrite Dot_vadd_r by (rewrite vscale_length; congruence).
      rewrite Dot_vscale_r. fold xb xc.
      set (G := Gf X y z). set (xz := Dot x z). unfold k, ino.
      ring [H2].
    - (* ssd *)
      rewrite (dot_app R r0 r1 radd rmul rsub ropp Rth) by reflexivity. cbn [dot].
      rewrite (Gf_snoc X y x eta _ Hy).
      rewrite Gf_add by (rewrite vscale_length; congruence).
      rewrite Gf_scale.
      assert (Gc : Gf X y c = xb).
      { rewrite <- (IN c Lc). unfold xb. now apply Lcx. }
      rewrite Gc. rewrite Dot_vadd_r by (rewrite vscale_length; congruence).
      rewrite Dot_vscale_r. fold xb xc. rewrite ID. fold b.
      set (G := Gf X y b). set (yy := Dot y y). unfold k, ino.
      ring [H2].
    - rewrite app_length. simpl. lia.
  Qed.

  Lemma kf_fold_inv rows : forall X y st st',
      rows_len p X -> length y = length X -> Forall (fun xy => length (fst xy) = p) rows ->
      Inv X y st -> Fold rows st = Some st' ->
      Inv (X ++ map fst rows) (y ++ map snd rows) st'.
  Proof.
    induction rows as [|[x eta] rows IH]; intros X y st st' HX Hy Hr I HF; cbn [kf_fold map] in *.
    - injection HF as <-. now rewrite !app_nil_r.
    - destruct (Step st (x, eta)) as [st1|] eqn:E; [|discriminate].
      apply Forall_cons_iff in Hr. destruct Hr as [Hx Hr']. cbn [fst] in Hx.
      pose proof (kf_step_inv X y st x eta st1 HX Hy Hx I E) as I1.
      cbn [fst snd].
      replace (X ++ x :: map fst rows) with ((X ++ [x]) ++ map fst rows) by (now rewrite <- app_assoc).
      replace (y ++ eta :: map snd rows) with ((y ++ [eta]) ++ map snd rows) by (now rewrite <- app_assoc).
      apply (IH _ _ st1); auto.
      + unfold rows_len in *. apply Forall_app. split; [exact HX|]. constructor; auto.
      + rewrite !app_length. simpl. lia.
  Qed.

  Lemma combine_fst_snd (X : mat) (y : vec) :
    length y = length X -> map fst (combine X y) = X /\ map snd (combine X y) = y.
  Proof.
    revert y; induction X as [|x X IH]; intros [|e y] H; simpl in *; try discriminate; auto.
    destruct (IH y) as [A B]; [lia|]. now rewrite A, B.
  Qed.

  Theorem kf_fit_inv X y st :
    rows_len p X -> length y = length X ->
    kf_fit R r0 r1 radd rmul rsub rdiv ropp reqb p v0 X y = Some st -> Inv X y st.
  Proof.
    intros HX Hy HF. unfold kf_fit in HF.
    destruct (combine_fst_snd X y Hy) as [A B].
    pose proof (kf_fold_inv (combine X y) [] [] (kf_init R r0 r1 rmul p v0) st (Forall_nil _) eq_refl) as H.
    rewrite A, B in H. cbn [app] in H. apply H; [|apply inv_init|exact HF].
    apply Forall_forall. intros [x e] Hin. cbn [fst].
    apply in_combine_l in Hin. unfold rows_len in HX. rewrite Forall_forall in HX. now apply HX.
  Qed.

  (* ---------------------------------------------------------------- consequences *)
  (* after all rows: X'X b + lambda b = X'y, exactly *)
  Theorem kf_regularised_normal_eq X y st :
    rows_len p X -> length y = length X ->
    kf_fit R r0 r1 radd rmul rsub rdiv ropp reqb p v0 X y = Some st ->
    Vadd (Vm p (Mv X (kb st)) X) (Vscale lam (kb st)) = Vm p y X.
  Proof.
    intros HX Hy HF. destruct (kf_fit_inv X y st HX Hy HF) as [Lb _ _ _ _ IN _ _].
    apply vec_ext_dot.
    - rewrite vadd_length; rewrite ?vscale_length, vm_length; auto.
    - now apply vm_length.
    - intros z Hz.
      rewrite Dot_vadd_r by (rewrite vscale_length, vm_length; auto).
      rewrite Dot_vscale_r.
      rewrite (Dot_comm z (Vm p (Mv X (kb st)) X)), (Dot_comm z (Vm p y X)).
      rewrite !(dot_vm R r0 r1 radd rmul rsub ropp Rth p _ X z HX).
      pose proof (IN z Hz) as E. unfold Qf, Gf in E.
      rewrite (Dot_comm (Mv X (kb st))), (Dot_comm y). exact E.
  Qed.

  (* equivalently: the normal-equation defect of the filter's estimate is exactly the prior term,
     X'(y - X b) = lambda b *)
  Theorem kf_normal_eq_defect X y st :
    rows_len p X -> length y = length X ->
    kf_fit R r0 r1 radd rmul rsub rdiv ropp reqb p v0 X y = Some st ->
    Vm p (resid r0 radd rmul rsub X y (kb st)) X = Vscale lam (kb st).
  Proof.
    intros HX Hy HF. destruct (kf_fit_inv X y st HX Hy HF) as [Lb _ _ _ _ IN _ _].
    apply vec_ext_dot.
    - now apply vm_length.
    - now rewrite vscale_length.
    - intros z Hz. rewrite (Dot_comm z (Vm p _ X)).
      rewrite (dot_vm R r0 r1 radd rmul rsub ropp Rth p _ X z HX).
      unfold resid. rewrite (dot_vsub_l R r0 r1 radd rmul rsub ropp Rth) by (now rewrite mv_length).
      rewrite Dot_vscale_r.
      pose proof (IN z Hz) as E. unfold Qf, Gf in E.
      rewrite (Dot_comm y (Mv X z)), (Dot_comm (Mv X (kb st)) (Mv X z)). rewrite <- E. ring.
  Qed.

  (* ... and the accumulated ssd is the penalised residual sum of squares *)
  Theorem kf_ssd_is_penalised_rss X y st :
    rows_len p X -> length y = length X ->
    kf_fit R r0 r1 radd rmul rsub rdiv ropp reqb p v0 X y = Some st ->
    kssd st = radd (rss r0 radd rmul rsub X y (kb st)) (rmul lam (Dot (kb st) (kb st)))
    /\ kt st = length X.
  Proof.
    intros HX Hy HF. destruct (kf_fit_inv X y st HX Hy HF) as [Lb _ _ _ _ IN ID IT].
    split; [|exact IT]. rewrite ID. pose proof (IN _ Lb) as E. unfold Qf, Gf in *.
    unfold rss, resid.
    assert (Ly : length y = length (Mv X (kb st))) by (now rewrite mv_length).
    rewrite (dot_vsub_l R r0 r1 radd rmul rsub ropp Rth) by exact Ly.
    rewrite !(dot_vsub_r R r0 r1 radd rmul rsub ropp Rth) by exact Ly.
    rewrite (Dot_comm y (Mv X (kb st))).
    set (G := Dot (Mv X (kb st)) y) in *. set (F := Dot (Mv X (kb st)) (Mv X (kb st))) in *.
    set (bb := Dot (kb st) (kb st)) in *.
    transitivity (rsub (rsub (Dot y y) G) (rsub G (radd F (rmul lam bb)))); [rewrite E; ring|ring].
  Qed.

  (* ---------------------------------------------------------------- the filter never divides by zero *)
  Variable rle : R -> R -> Prop.
  Hypothesis rle_refl : forall a, rle a a.
  Hypothesis rle_trans : forall a b c, rle a b -> rle b c -> rle a c.
  Hypothesis rle_add : forall a b c, rle a b -> rle (radd c a) (radd c b).
  Hypothesis sq_nonneg : forall a, rle r0 (rmul a a).
  Hypothesis mul_nonneg : forall a b, rle r0 a -> rle r0 b -> rle r0 (rmul a b).
  Hypothesis lam_nonneg : rle r0 lam.
  Hypothesis one_pos : ~ rle r1 r0.
  Hypothesis reqb_true : forall a b, reqb a b = true -> a = b.

  Local Notation Sumsq_nonneg := (sumsq_nonneg R r0 r1 radd rmul rsub ropp Rth rle rle_refl rle_trans rle_add sq_nonneg).

  (* Vy = 1 + x'Vb x with x'Vb x = c'(X'X + lambda I)c >= 0 *)
  Lemma kf_Vy_nonzero X y st x :
    Inv X y st -> length x = p -> radd (Dot x (Mv (kVb st) x)) r1 <> r0.
  Proof.
    intros I Hx E. destruct I as [Lb LV RV IS IL IN ID IT].
    set (c := Mv (kVb st) x) in *.
    assert (Lc : length c = p) by (unfold c; rewrite mv_length; exact LV).
    assert (Q : Qf X c c = Dot x c) by (unfold c at 1; now apply IL).
    assert (P0 : rle r0 (Dot x c)).
    { rewrite <- Q. unfold Qf.
      apply rle_trans with (Dot (Mv X c) (Mv X c)); [apply Sumsq_nonneg|].
      pose proof (rle_add r0 (rmul lam (Dot c c)) (Dot (Mv X c) (Mv X c))) as H.
      replace (radd (Dot (Mv X c) (Mv X c)) r0) with (Dot (Mv X c) (Mv X c)) in H by ring.
      apply H. apply mul_nonneg; [exact lam_nonneg|apply Sumsq_nonneg]. }
    apply one_pos. pose proof (rle_add r0 (Dot x c) r1 P0) as H.
    replace (radd r1 r0) with r1 in H by ring.
    replace (radd r1 (Dot x c)) with (radd (Dot x c) r1) in H by ring.
    now rewrite E in H.
  Qed.

  Lemma kf_fold_total rows : forall X y st,
      rows_len p X -> length y = length X -> Forall (fun xy => length (fst xy) = p) rows ->
      Inv X y st -> exists st', Fold rows st = Some st'.
  Proof.
    induction rows as [|[x eta] rows IH]; intros X y st HX Hy Hr I; cbn [kf_fold].
    - now exists st.
    - apply Forall_cons_iff in Hr. destruct Hr as [Hx Hr']. cbn [fst] in Hx.
      destruct (Step st (x, eta)) as [st1|] eqn:E.
      + apply (IH (X ++ [x]) (y ++ [eta]) st1); auto.
        * unfold rows_len in *. apply Forall_app. split; [exact HX|]. constructor; auto.
        * rewrite !app_length. simpl. lia.
        * now apply (kf_step_inv X y st x eta st1).
      + exfalso. unfold kf_step in E. cbn [fst snd] in E.
        destruct (reqb (radd (Dot x (Mv (kVb st) x)) r1) r0) eqn:EV; [|discriminate].
        apply reqb_true in EV. now apply (kf_Vy_nonzero X y st x I Hx).
  Qed.

  Theorem kf_fit_total X y :
    rows_len p X -> length y = length X ->
    exists st, kf_fit R r0 r1 radd rmul rsub rdiv ropp reqb p v0 X y = Some st.
  Proof.
    intros HX Hy. unfold kf_fit. apply (kf_fold_total (combine X y) [] []); auto.
    - apply Forall_nil.
    - apply Forall_forall. intros [x e] Hin. cbn [fst].
      apply in_combine_l in Hin. unfold rows_len in HX. rewrite Forall_forall in HX. now apply HX.
    - apply inv_init.
  Qed.
End KalmanProofs.
