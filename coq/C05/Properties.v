(* C05 - linear-model fits are least-squares optimal and implementation-independent.
   Property theorems, stated over the ordered field Qc of canonical rationals
   (the generic versions over any ordered commutative ring are in
   NV.Lib.C05Lin / NV.C05.Proofs*; one is restated generically at the end).
   Matrices are lists of rows; q_normal_eq p X y b  is  X^T (y - X b) = 0. *)
From Coq Require Import String.
From Coq Require Import List Arith Lia Bool ZArith Ring QArith Qcanon.
From NV.Lib Require Import RingMat C05Lin.
From NV.Generated Require Import PosRecipr KalmanReset PinvCalls.
From NV.C05 Require Import Model Proofs Proofs2 Proofs3 Proofs4 Proofs5 Proofs6.
Import ListNotations.
Close Scope Qc_scope.
Close Scope Q_scope.

Local Ltac qinst L :=
  intros; eapply L;
  eauto using Qcring_th, Qcle_refl, Qcle_trans, Qcle_antisym, Qc_le_add, Qc_sq_nonneg,
    Qc_sq_zero, Qc_eqb_true.

Local Ltac qord L :=
  intros; eapply (L Qc q0 q1 Qcplus Qcmult Qcminus Qcopp Qcring_th Qcle);
  eauto using Qcle_refl, Qcle_trans, Qcle_antisym, Qc_le_add, Qc_sq_nonneg, Qc_sq_zero, Qc_eqb_true.

(* ------------------------------------------------------------------ least squares *)
Theorem rss_nonneg : forall X y b, Qcle q0 (q_rss X y b).
Proof.
  intros X y b. change (Qcle q0 (dot q0 Qcplus Qcmult (q_resid X y b) (q_resid X y b))).
  qord sumsq_nonneg.
Qed.
Print Assumptions rss_nonneg.

(* a solution of the normal equations minimises the residual sum of squares *)
Theorem normal_eq_optimal : forall n p X y b b',
    length X = n -> rows_len p X -> length y = n -> length b = length b' ->
    q_normal_eq p X y b -> Qcle (q_rss X y b) (q_rss X y b').
Proof. qord C05Lin.normal_eq_optimal. Qed.
Print Assumptions normal_eq_optimal.

(* ... and another coefficient vector attains the minimum iff it has the same fitted values *)
Theorem normal_eq_equality : forall n p X y b b',
    length X = n -> rows_len p X -> length y = n -> length b = length b' ->
    q_normal_eq p X y b -> (q_rss X y b' = q_rss X y b <-> q_mv X b' = q_mv X b).
Proof. qord C05Lin.normal_eq_equality. Qed.
Print Assumptions normal_eq_equality.

(* residuals are orthogonal to every design column and to the fitted values *)
Theorem resid_orthogonal : forall p X y b j,
    rows_len p X -> j < p -> q_normal_eq p X y b ->
    q_dot (q_col j X) (q_resid X y b) = q0 /\ q_dot (q_resid X y b) (q_mv X b) = q0.
Proof.
  intros p X y b j HX Hj H. split.
  - revert HX Hj H. qinst resid_orth_columns.
  - revert HX H. qinst resid_orth_fitted.
Qed.
Print Assumptions resid_orthogonal.

(* fitted values and RSS depend only on the column space of the design: designs
   X1 (n x p) and X2 (n x q) with X2 = X1 M and X1 = X2 N - in particular every
   invertible reparametrisation - give the same fitted values and the same RSS *)
Theorem fitted_unique_on_colspace : forall n p q X1 X2 M N y b1 b2,
    length X1 = n -> rows_len p X1 -> rows_len q X2 ->
    length M = p -> rows_len q M -> length N = q -> rows_len p N ->
    X2 = q_mm q X1 M -> X1 = q_mm p X2 N ->
    length y = n -> length b1 = p -> length b2 = q ->
    q_normal_eq p X1 y b1 -> q_normal_eq q X2 y b2 ->
    q_mv X1 b1 = q_mv X2 b2 /\ q_rss X1 y b1 = q_rss X2 y b2.
Proof. qord C05Lin.fitted_unique_on_colspace. Qed.
Print Assumptions fitted_unique_on_colspace.

(* rescaling the data by c rescales coefficients and fitted values by c, RSS by c^2 *)
Theorem scale_equivariant : forall n p X y b c,
    length X = n -> rows_len p X -> length y = n -> q_normal_eq p X y b ->
    q_normal_eq p X (q_vscale c y) (q_vscale c b)
    /\ q_mv X (q_vscale c b) = q_vscale c (q_mv X b)
    /\ q_rss X (q_vscale c y) (q_vscale c b) = Qcmult (Qcmult c c) (q_rss X y b).
Proof. qinst C05Lin.scale_equivariant. Qed.
Print Assumptions scale_equivariant.

(* ------------------------------------------------------------------ OLSModel.fit *)
(* oracle contract of numpy.linalg.pinv (two Penrose conditions) => P y solves the normal equations *)
Theorem pinv_solves_normal_eq : forall n p X P y,
    length X = n -> rows_len p X -> length y = n ->
    (forall d, length d = p -> q_mv X (q_mv P (q_mv X d)) = q_mv X d) ->
    (forall u v, length u = n -> length v = n ->
                 q_dot u (q_mv X (q_mv P v)) = q_dot (q_mv X (q_mv P u)) v) ->
    q_normal_eq p X y (q_mv P y).
Proof. qinst C05Lin.pinv_solves_normal_eq. Qed.
Print Assumptions pinv_solves_normal_eq.

(* nipy's beta = calc_beta . wY minimises the whitened RSS of every voxel *)
Theorem ols_fit_optimal : forall n p k P wX wY j b',
    length wX = n -> rows_len p wX -> length wY = n -> rows_len k wY ->
    length P = p -> j < k -> length b' = p ->
    (forall d, length d = p -> q_mv wX (q_mv P (q_mv wX d)) = q_mv wX d) ->
    (forall u v, length u = n -> length v = n ->
                 q_dot u (q_mv wX (q_mv P v)) = q_dot (q_mv wX (q_mv P u)) v) ->
    Qcle (q_rss wX (q_col j wY) (q_col j (q_ols_beta k P wY))) (q_rss wX (q_col j wY) b').
Proof. qord Proofs2.ols_fit_optimal. Qed.
Print Assumptions ols_fit_optimal.

(* fitting a block of voxels = fitting each voxel (any order, any grouping) *)
Theorem fit_columnwise : forall k P wY j,
    rows_len k wY -> j < k -> q_col j (q_ols_beta k P wY) = q_mv P (q_col j wY).
Proof. qinst ols_beta_columnwise. Qed.
Print Assumptions fit_columnwise.

(* dispersion of voxel j = RSS_j / (n - p), (n, p) = shape of the whitened design *)
Theorem ols_dispersion_is_rss : forall k P wX wY j,
    rows_len k wY -> length wX = length wY -> j < k ->
    nth j (q_ols_dispersion k P wX wY) q0 =
    Qcdiv (q_rss wX (q_col j wY) (q_mv P (q_col j wY))) (qofZ (dof_shape Qc wX)).
Proof. qinst Proofs.ols_dispersion_is_rss. Qed.
Print Assumptions ols_dispersion_is_rss.

(* the exact reference (Gauss-Jordan result accepted only if it satisfies the
   normal equations) is a least-squares solution with s2 = RSS/(n-p) *)
Theorem ref_fit_certified : forall n p wX wy b s b',
    length wX = n -> rows_len p wX -> length wy = n -> length b' = p ->
    q_ref_col p wX wy = Some (b, s) ->
    q_normal_eq p wX wy b /\ Qcle (q_rss wX wy b) (q_rss wX wy b')
    /\ s = Qcdiv (q_rss wX wy b) (qofZ (dof_shape Qc wX)).
Proof.
  intros. eapply (Proofs2.ref_col_optimal Qc q0 q1 Qcplus Qcmult Qcminus Qcdiv Qcopp Qcring_th Qcle);
    eauto using Qcle_refl, Qcle_trans, Qc_le_add, Qc_sq_nonneg, Qc_eqb_true.
Qed.
Print Assumptions ref_fit_certified.

(* ------------------------------------------------------------------ whitening *)
(* ARModel.whiten: row t is x_t - sum_i rho_i x_{t-i-1} over the lags i+1 <= t *)
Theorem ar_whiten_spec : forall rho X t,
    t < length X -> nth t (q_ar_whiten rho X) [] = q_ar_row rho X t.
Proof. qinst Proofs.ar_whiten_spec. Qed.
Print Assumptions ar_whiten_spec.

Theorem ar1_whiten_rows : forall rho X t,
    t < length X ->
    nth t (q_ar_whiten [rho] X) [] =
    match t with
    | O => nth 0 X []
    | S t' => q_vsub (nth t X []) (q_vscale rho (nth t' X []))
    end.
Proof. qinst Proofs.ar1_whiten_rows. Qed.
Print Assumptions ar1_whiten_rows.

Theorem ar_whiten_zero_is_id : forall c rho X,
    Forall (fun r => r = q0) rho -> rows_len c X -> q_ar_whiten rho X = X.
Proof. qinst Proofs.ar_whiten_zero_is_id. Qed.
Print Assumptions ar_whiten_zero_is_id.

Theorem wls_unit_is_ols : forall n X, length X = n -> q_wls_whiten (repeat q1 n) X = X.
Proof. qinst Proofs.wls_unit_is_ols. Qed.
Print Assumptions wls_unit_is_ols.

(* the normal equations of the whitened WLS problem are the weighted normal
   equations X^T diag(c^2) (y - X b) = 0 of the original one *)
Theorem wls_normal_eq_weighted : forall p cs X y b,
    rows_len p X -> length cs = length X -> length y = length X ->
    q_vm p (vmul Qcmult cs (q_resid X y b)) (q_wls_whiten cs X)
    = q_vm p (vmul Qcmult (vmul Qcmult cs cs) (q_resid X y b)) X.
Proof. qinst Proofs.wls_normal_eq_weighted. Qed.
Print Assumptions wls_normal_eq_weighted.

Theorem gls_identity_is_ols : forall k n Y,
    length Y = n -> rows_len k Y -> q_gls_whiten k (mid q0 q1 n) Y = Y.
Proof. qinst Proofs.gls_identity_is_ols. Qed.
Print Assumptions gls_identity_is_ols.

Theorem gls_diag_is_wls : forall k cs Y,
    length Y = length cs -> rows_len k Y -> q_gls_whiten k (q_diag cs) Y = q_wls_whiten cs Y.
Proof. qinst Proofs.gls_diag_is_wls. Qed.
Print Assumptions gls_diag_is_wls.

(* ------------------------------------------------------------------ GeneralLinearModel *)
(* grouping voxels by label, fitting each group with a column-wise block fit and
   scattering back with boolean masks gives every voxel the fit under its own label *)
Theorem glm_grouping_scatter : forall n p V (fit : Z -> list (list Qc) -> list (list Qc))
                                      (f : Z -> list Qc -> list Qc) Y labels v,
    (forall l Yb k, length Yb = n -> rows_len k Yb ->
                    length (fit l Yb) = p /\ rows_len k (fit l Yb)
                    /\ forall j, j < k -> q_col j (fit l Yb) = f l (q_col j Yb)) ->
    length Y = n -> rows_len V Y -> length labels = V ->
    (forall l y, length y = n -> length (f l y) = p) ->
    v < V ->
    q_col v (q_glm_get p labels (q_glm_results fit labels Y)) = f (nth v labels 0%Z) (q_col v Y).
Proof. intros. eapply Proofs2.glm_grouping_scatter; eauto. Qed.
Print Assumptions glm_grouping_scatter.

(* ------------------------------------------------------------------ generic restatement *)
(* optimality holds over every ordered commutative ring, not only Qc *)
Theorem normal_eq_optimal_any_ordered_ring :
  forall (R : Type) (r0 r1 : R) (radd rmul rsub : R -> R -> R) (ropp : R -> R),
    ring_theory r0 r1 radd rmul rsub ropp (@eq R) ->
    forall rle : R -> R -> Prop,
      (forall a, rle a a) -> (forall a b c, rle a b -> rle b c -> rle a c) ->
      (forall a b c, rle a b -> rle (radd c a) (radd c b)) ->
      (forall a, rle r0 (rmul a a)) ->
      forall n p X y b b',
        length X = n -> rows_len p X -> length y = n -> length b = length b' ->
        normal_eq r0 radd rmul rsub p X y b ->
        rle (rss r0 radd rmul rsub X y b) (rss r0 radd rmul rsub X y b').
Proof. exact C05Lin.normal_eq_optimal. Qed.
Print Assumptions normal_eq_optimal_any_ordered_ring.

(* ------------------------------------------------------------------ Kalman engine (fff_glm_kalman.c) *)
Lemma Qc_eqb_false (a b : Qc) : Qc_eq_bool a b = false -> a <> b.
Proof. unfold Qc_eq_bool. destruct (Qc_eq_dec a b); [discriminate|auto]. Qed.
Lemma Qc_div_inv (a : Qc) : a <> q0 -> Qcmult (Qcdiv q1 a) a = q1.
Proof. intros H. unfold Qcdiv. rewrite Qcmult_1_l. now apply Qcmult_inv_l. Qed.
Lemma kf_lambda_init : Qcmult kf_lambda kf_init_var = q1.
Proof. apply Qc_is_canon. vm_compute. reflexivity. Qed.
Lemma Qc_mul_nonneg (a b : Qc) : Qcle q0 a -> Qcle q0 b -> Qcle q0 (Qcmult a b).
Proof.
  unfold Qcle. cbn [this Q2Qc q0 Qcmult]. rewrite !Qred_correct. intros Ha Hb.
  now apply Qmult_le_0_compat.
Qed.
Lemma Qc_lambda_nonneg : Qcle q0 kf_lambda.
Proof. unfold Qcle. vm_compute. discriminate. Qed.
Lemma Qc_one_pos : ~ Qcle q1 q0.
Proof. unfold Qcle. vm_compute. intros H. now apply H. Qed.

(* PARTIAL with respect to "equals the batch OLS solution": what is proved, for every design
   (any rank) and every data vector, is the exact characterisation of what the C computes -
   the filter never divides by zero; after all rows its estimate b satisfies
       X'(y - X b) = lambda b,  lambda = 1/INIT_VAR = 1e-7
   (the normal equations up to the proper prior the C starts from), its ssd is
   RSS(b) + lambda |b|^2 and t = n.  Not proved: the limit lambda -> 0 (b -> batch OLS); the C
   never takes it either (this is the 1e-7-relative gap seen between kalman and ols engines). *)
Theorem kalman_ols_equals_batch_partial : forall p X y,
    rows_len p X -> length y = length X ->
    exists st, q_kf_fit p kf_init_var X y = Some st
               /\ q_vm p (q_resid X y (kb st)) X = q_vscale kf_lambda (kb st)
               /\ kssd st = Qcplus (q_rss X y (kb st)) (Qcmult kf_lambda (q_dot (kb st) (kb st)))
               /\ kt st = length X.
Proof.
  intros p X y HX Hy.
  destruct (kf_fit_total Qc q0 q1 Qcplus Qcmult Qcminus Qcdiv Qcopp Qcring_th Qc_eq_bool
              Qc_eqb_false Qc_div_inv p kf_lambda kf_init_var kf_lambda_init Qcle Qcle_refl Qcle_trans
              Qc_le_add Qc_sq_nonneg Qc_mul_nonneg Qc_lambda_nonneg Qc_one_pos Qc_eqb_true X y HX Hy)
    as [st Hst].
  exists st. split; [exact Hst|]. split.
  - exact (kf_normal_eq_defect Qc q0 q1 Qcplus Qcmult Qcminus Qcdiv Qcopp Qcring_th Qc_eq_bool
             Qc_eqb_false Qc_div_inv p kf_lambda kf_init_var kf_lambda_init X y st HX Hy Hst).
  - exact (kf_ssd_is_penalised_rss Qc q0 q1 Qcplus Qcmult Qcminus Qcdiv Qcopp Qcring_th Qc_eq_bool
             Qc_eqb_false Qc_div_inv p kf_lambda kf_init_var kf_lambda_init X y st HX Hy Hst).
Qed.
Print Assumptions kalman_ols_equals_batch_partial.

(* the one-step algebra, for every step: a call of fff_glm_KF_iterate on row (x, eta) maps a state
   satisfying the invariant (Vb symmetric, Vb (X'X + lambda I) = I, (X'X + lambda I) b = X'y,
   ssd = y'y - b'X'y, t = rows seen) for the rows seen so far to one satisfying it with the row appended *)
Theorem kalman_step_algebra : forall p X y st x eta st',
    rows_len p X -> length y = length X -> length x = p ->
    Inv Qc q0 Qcplus Qcmult Qcminus p kf_lambda X y st ->
    kf_step Qc q0 q1 Qcplus Qcmult Qcminus Qcdiv Qcopp Qc_eq_bool st (x, eta) = Some st' ->
    Inv Qc q0 Qcplus Qcmult Qcminus p kf_lambda (X ++ [x]) (y ++ [eta]) st'.
Proof.
  intros. eapply (kf_step_inv Qc q0 q1 Qcplus Qcmult Qcminus Qcdiv Qcopp Qcring_th Qc_eq_bool
                    Qc_eqb_false Qc_div_inv p kf_lambda); eauto.
Qed.
Print Assumptions kalman_step_algebra.

(* ------------------------------------------------------------------ generalised least squares *)
(* GLSModel whitens with C = cholsigmainv (oracle: cholesky / pinv).  Contract: C'C = S (= Sigma^-1),
   tested against all pairs of vectors.  Then a solution b of the WHITENED normal equations (what the
   inherited OLS fit computes) satisfies the generalised normal equations X'S(y - X b) = 0, the whitened
   RSS is the generalised RSS r'S r, and b minimises it - for every covariance, correlated or not. *)
Theorem gls_fit_minimises_generalised_rss : forall n p C S X y b b',
    length X = n -> rows_len p X -> length y = n -> length S = n -> length C = n -> length b = length b' ->
    (forall u v, length u = n -> length v = n -> q_dot (q_mv C u) (q_mv C v) = q_dot u (q_mv S v)) ->
    q_normal_eq p (q_mm p C X) (q_mv C y) b ->
    q_vm p (q_mv S (q_resid X y b)) X = vzero q0 p
    /\ q_rss (q_mm p C X) (q_mv C y) b = q_dot (q_resid X y b) (q_mv S (q_resid X y b))
    /\ Qcle (q_dot (q_resid X y b) (q_mv S (q_resid X y b))) (q_dot (q_resid X y b') (q_mv S (q_resid X y b'))).
Proof.
  intros n p C S X y b b' LX HX Ly LS LC Lb HC HN.
  pose proof (gls_normal_eq_generalised Qc q0 q1 Qcplus Qcmult Qcminus Qcopp Qcring_th n p C S X y LX HX Ly LS HC b) as E.
  pose proof (gls_rss_generalised Qc q0 q1 Qcplus Qcmult Qcminus Qcopp Qcring_th n p C S X y LX HX Ly LS HC) as G.
  split; [now apply E|]. split; [apply G|].
  unfold q_dot, q_resid, q_mv. rewrite <- !G.
  apply (C05Lin.normal_eq_optimal Qc q0 q1 Qcplus Qcmult Qcminus Qcopp Qcring_th Qcle Qcle_refl Qcle_trans
           Qc_le_add Qc_sq_nonneg n p); auto.
  - now rewrite mm_length.
  - now apply mm_rows_len.
  - rewrite mv_length. exact LC.
Qed.
Print Assumptions gls_fit_minimises_generalised_rss.

(* the data-independent outputs of the Kalman filter: for the same design, Vb and t are the same
   for every data vector (zero, constant, anything), t = n, and Vb is the inverse of X'X + lambda I *)
Theorem kalman_Vb_data_independent : forall p X y1 y2 s1 s2,
    rows_len p X -> length y1 = length X -> length y2 = length X ->
    q_kf_fit p kf_init_var X y1 = Some s1 -> q_kf_fit p kf_init_var X y2 = Some s2 ->
    kVb s1 = kVb s2 /\ kt s1 = kt s2 /\ kt s1 = length X
    /\ forall v w, length v = p -> length w = p ->
                   Qcplus (q_dot (q_mv X (q_mv (kVb s1) w)) (q_mv X v)) (Qcmult kf_lambda (q_dot (q_mv (kVb s1) w) v))
                   = q_dot w v.
Proof.
  intros p X y1 y2 s1 s2 HX L1 L2 F1 F2.
  destruct (kf_fit_data_independent Qc q0 q1 Qcplus Qcmult Qcminus Qcdiv Qcopp Qc_eq_bool p kf_init_var X y1 y2 s1 s2 L1 L2 F1 F2)
    as [EV ET].
  pose proof (kf_fit_inv Qc q0 q1 Qcplus Qcmult Qcminus Qcdiv Qcopp Qcring_th Qc_eq_bool Qc_eqb_false Qc_div_inv
                p kf_lambda kf_init_var kf_lambda_init X y1 s1 HX L1 F1) as I.
  split; [exact EV|]. split; [exact ET|]. split; [apply (i_T _ _ _ _ _ _ _ _ _ _ I)|].
  intros v w Hv Hw. exact (i_L _ _ _ _ _ _ _ _ _ _ I v w Hv Hw).
Qed.
Print Assumptions kalman_Vb_data_independent.

(* FINDING: the Kalman "OLS" fit is not invariant under rescaling of a design column (same column
   space).  Witness, exact arithmetic: X = (1,1,1)', y = (1,2,3)': fitted value of the first scan
   >= 0.999; the same design written as 2^-20 X: fitted value <= 0.001 (least squares: 2 in both cases).
   Cause: the fixed prior INIT_VAR = 1e7, see kalman_ols_equals_batch_partial. *)
Theorem kalman_column_scale_invariance_refuted :
  let X := zmat [[1];[1];[1]]%Z in
  let X' := [[qfrac 1 1048576];[qfrac 1 1048576];[qfrac 1 1048576]] in
  let y := zvec [1;2;3]%Z in
  match q_kf_fit 1 kf_init_var X y, q_kf_fit 1 kf_init_var X' y with
  | Some s, Some s' =>
      Qle_bool (999 # 1000) (this (nth 0 (q_mv X (kb s)) q0))
      && Qle_bool (this (nth 0 (q_mv X' (kb s')) q0)) (1 # 1000)
  | _, _ => false
  end = true.
Proof. vm_compute. reflexivity. Qed.
Print Assumptions kalman_column_scale_invariance_refuted.

(* ------------------------------------------------------------------ contrasts *)
(* an estimable contrast c1 = X1'a and its image c2 = M'c1 under X2 = X1 M (same column space;
   P1, P2 the pinv oracles): same effect, same c cov c', same dispersion, same t - for every
   function standing for sqrt *)
Theorem contrast_invariant_reparam : forall (rsqrt : Qc -> Qc) n p X1 X2 M N P1 P2 y a,
    length X1 = n -> rows_len p X1 -> rows_len p X2 ->
    length M = p -> rows_len p M -> length N = p -> rows_len p N ->
    X2 = q_mm p X1 M -> X1 = q_mm p X2 N ->
    length P1 = p -> rows_len n P1 -> length P2 = p -> rows_len n P2 ->
    penrose Qc q0 Qcplus Qcmult n p X1 P1 -> penrose Qc q0 Qcplus Qcmult n p X2 P2 ->
    length y = n -> length a = n ->
    let c1 := q_vm p a X1 in
    let c2 := q_vm p c1 M in
    let b1 := q_mv P1 y in
    let b2 := q_mv P2 y in
    let disp1 := Qcdiv (q_rss X1 y b1) (qofZ (dof_shape Qc X1)) in
    let disp2 := Qcdiv (q_rss X2 y b2) (qofZ (dof_shape Qc X2)) in
    c2 = q_vm p a X2
    /\ con_effect Qc q0 Qcplus Qcmult c2 b2 = con_effect Qc q0 Qcplus Qcmult c1 b1
    /\ con_quad Qc q0 Qcplus Qcmult p n P2 c2 = con_quad Qc q0 Qcplus Qcmult p n P1 c1
    /\ disp2 = disp1
    /\ con_t Qc Qcmult Qcdiv rsqrt (con_effect Qc q0 Qcplus Qcmult c2 b2) (con_quad Qc q0 Qcplus Qcmult p n P2 c2) disp2
       = con_t Qc Qcmult Qcdiv rsqrt (con_effect Qc q0 Qcplus Qcmult c1 b1) (con_quad Qc q0 Qcplus Qcmult p n P1 c1) disp1.
Proof.
  intros rsqrt n p X1 X2 M N P1 P2 y a.
  exact (Proofs4.contrast_invariant_reparam Qc q0 q1 Qcplus Qcmult Qcminus Qcdiv Qcopp Qcring_th Qcle
           Qcle_refl Qcle_trans Qcle_antisym Qc_le_add Qc_sq_nonneg Qc_sq_zero rsqrt qofZ
           n p X1 X2 M N P1 P2 y a).
Qed.
Print Assumptions contrast_invariant_reparam.

(* ------------------------------------------------------------------ the exact AR block fit is column-wise *)
Theorem ar_block_fit_columnwise : forall n p steps X l Yb k,
    0 < n -> length Yb = n -> rows_len k Yb ->
    let B := ar_block_beta Qc q0 q1 Qcplus Qcmult Qcminus Qcdiv Qc_eq_bool qofZ p steps X l Yb in
    length B = p /\ rows_len k B
    /\ forall j, j < k ->
                 q_col j B = ar_voxel_beta Qc q0 q1 Qcplus Qcmult Qcminus Qcdiv Qc_eq_bool qofZ p steps X l (q_col j Yb).
Proof.
  intros n p steps X l Yb k.
  exact (ar_block_columnwise Qc q0 q1 Qcplus Qcmult Qcminus Qcdiv Qcopp Qcring_th Qc_eq_bool qofZ
           n p steps X l Yb k).
Qed.
Print Assumptions ar_block_fit_columnwise.

(* hence the whole exact GLM ar1 pipeline gives every voxel the AR(1) fit under its own label *)
Theorem glm_ar1_voxelwise : forall n p V steps X Y labels v,
    0 < n -> length Y = n -> rows_len V Y -> length labels = V -> v < V ->
    q_col v (q_glm_ar1_beta p steps X Y labels)
    = ar_voxel_beta Qc q0 q1 Qcplus Qcmult Qcminus Qcdiv Qc_eq_bool qofZ p steps X (nth v labels 0%Z) (q_col v Y).
Proof.
  intros n p V steps X Y labels v Hn HY HYr HL Hv.
  unfold q_glm_ar1_beta, glm_ar1_beta.
  apply (Proofs2.glm_grouping_scatter Qc q0 n p V) ; auto.
  - intros l Yb k LY HYb.
    exact (ar_block_columnwise Qc q0 q1 Qcplus Qcmult Qcminus Qcdiv Qcopp Qcring_th Qc_eq_bool qofZ
             n p steps X l Yb k Hn LY HYb).
  - intros l y _. unfold ar_voxel_beta. now rewrite map_length, seq_length.
Qed.
Print Assumptions glm_ar1_voxelwise.

(* ------------------------------------------------------------------ statistics: pos_recipr, scale invariance *)
(* pos_recipr (threshold and numerator translated from matrices.py on every run) is 1/x on
   x > 0 and 0 elsewhere - in particular NOT zero on small positive values *)
Theorem pos_recipr_spec : forall x : Qc,
    (Qclt q0 x -> Qcmult (q_pos_recipr x) x = q1) /\ (Qcle x q0 -> q_pos_recipr x = q0).
Proof. exact Proofs5.pos_recipr_spec. Qed.
Print Assumptions pos_recipr_spec.

Theorem pos_recipr_scale : forall c x : Qc,
    Qclt q0 c -> q_pos_recipr (Qcmult c x) = Qcdiv (q_pos_recipr x) c.
Proof. exact Proofs5.pos_recipr_scale. Qed.
Print Assumptions pos_recipr_scale.

(* positive rescaling of the data by c multiplies effect and sd by c, quadratic form and
   dispersion by c^2; the t and F statistics (as model.py forms them) do not change *)
Theorem tstat_scale_invariant : forall c eff sd : Qc,
    Qclt q0 c -> q_tstat (Qcmult c eff) (Qcmult c sd) = q_tstat eff sd.
Proof. exact Proofs5.tstat_scale_invariant. Qed.
Print Assumptions tstat_scale_invariant.

Theorem fstat_scale_invariant : forall c quad q disp : Qc,
    Qclt q0 c ->
    q_fstat (Qcmult (Qcmult c c) quad) q (Qcmult (Qcmult c c) disp) = q_fstat quad q disp.
Proof. exact Proofs5.fstat_scale_invariant. Qed.
Print Assumptions fstat_scale_invariant.

(* ------------------------------------------------------------------ filter objects are re-usable *)
(* kalman.pyx fits all voxels of a call with ONE filter object; the *_fit drivers start with the
   reset.  From the current C (Generated/KalmanReset.v): every member whose previous value the
   iteration reads is re-initialised by the reset, for the standard and the refined filter. *)
Definition covers (clears accs : list String.string) : bool :=
  forallb (fun f => existsb (String.eqb f) clears) accs.
Theorem kf_reset_clears_every_accumulator : covers kf_reset_clears kf_accumulators = true.
Proof. vm_compute. reflexivity. Qed.
Print Assumptions kf_reset_clears_every_accumulator.
Theorem rkf_reset_clears_every_accumulator : covers rkf_reset_clears rkf_accumulators = true.
Proof. vm_compute. reflexivity. Qed.
Print Assumptions rkf_reset_clears_every_accumulator.
Example rkf_accumulators_nonvacuous :
  existsb (String.eqb "Hssd"%string) rkf_accumulators && existsb (String.eqb "Hspp"%string) rkf_accumulators
  && existsb (String.eqb "Kfilt"%string) rkf_accumulators && existsb (String.eqb "ssd"%string) kf_accumulators = true.
Proof. vm_compute. reflexivity. Qed.

(* ------------------------------------------------------------------ the pinv oracle is called with its default cut-off *)
(* both Python engines call pinv(<whitened design>) with one positional argument and no keyword
   (Generated/PinvCalls.v, translated from labs/glm/glm.py and models/regression.py on every run): the
   Moore-Penrose contract assumed by pinv_solves_normal_eq / ols_fit_optimal is the one numpy documents
   for the default relative cut-off, valid for every full-rank design with cond < 1e15 whatever its norm *)
Theorem pinv_called_with_default_cutoff :
  forallb (fun s => Nat.eqb (snd (fst s)) 1 && Nat.eqb (snd s) 0) pinv_call_sites = true
  /\ length pinv_call_sites = 2.
Proof. split; vm_compute; reflexivity. Qed.
Print Assumptions pinv_called_with_default_cutoff.

(* ------------------------------------------------------------------ engine agreement *)
(* FINDING: the Kalman engine of nipy.labs.glm returns s2 = RSS/n together with
   dof = n - p, the OLS engine returns s2 = RSS/(n - p): the clause "the labs GLM
   with its ordinary and Kalman-filter engines return the same ... variances"
   is false for the code as it is (witness RSS = 3, n = 5, p = 2: 3/5 vs 1). *)
Theorem labs_kalman_s2_agrees_refuted :
  exists rss_ n p, (0 < p < n)%Z /\ labs_kalman_s2 rss_ n p <> labs_ols_s2 rss_ n p.
Proof.
  exists (qofZ 3), 5%Z, 2%Z. split; [lia|]. intros H.
  apply (f_equal (fun q => Qnum (this q))) in H. vm_compute in H. discriminate.
Qed.
Print Assumptions labs_kalman_s2_agrees_refuted.

(* the dof-corrected value the C code also computes (s2_cor) does agree *)
Example labs_kalman_s2_cor_example :
  Qc_eq_bool (labs_kalman_s2_cor (qofZ 3) 5 2) (labs_ols_s2 (qofZ 3) 5 2) = true.
Proof. vm_compute. reflexivity. Qed.

(* ------------------------------------------------------------------ non-vacuity *)
Definition exX := zmat [[1;0];[1;1];[1;2];[1;3];[1;5]]%Z.
Definition exY := zmat [[1;2];[3;1];[4;0];[5;7];[2;2]]%Z.

(* the certified solver succeeds on a concrete full-rank problem: beta = (189/74, 15/74), s2 = 695/222 *)
Example ref_fit_example :
  fit_close 0 (q_ref_fit 2 2 exX exY)
            [[qfrac 189 74; qfrac 15 74]; [qfrac 58 37; qfrac 14 37]] [qfrac 695 222; qfrac 334 37] = true.
Proof. vm_compute. reflexivity. Qed.

(* and refuses a rank-deficient one *)
Example ref_fit_rank_deficient : q_ref_fit 2 1 (zmat [[1;1];[2;2];[3;3]]%Z) (zmat [[1];[0];[2]]%Z) = None.
Proof. vm_compute. reflexivity. Qed.

Example ar_whiten_example :
  qcmat_eqb (q_ar_whiten [qfrac 1 2; qfrac 1 4] exX)
            [[qfrac 1 1; qfrac 0 1]; [qfrac 1 2; qfrac 1 1]; [qfrac 1 4; qfrac 3 2];
             [qfrac 1 4; qfrac 7 4]; [qfrac 1 4; qfrac 3 1]] = true.
Proof. vm_compute. reflexivity. Qed.

(* astype(int) truncates toward zero *)
Example trunc_toward_zero : (qtrunc (qfrac (-7) 2), qtrunc (qfrac 7 2)) = ((-3)%Z, 3%Z).
Proof. vm_compute. reflexivity. Qed.

(* the Kalman model on exX, first voxel of exY: the values fff_glm_KF_fit returns
   (2.55405392..., 0.20270273...; ssd 9.3918925...; s2 = ssd/5; s2_cor = ssd/3) *)
Example kalman_example :
  kf_close 0 5 2 (q_kf_fit 2 kf_init_var exX (zvec [1;3;4;5;2]%Z))
           [qfrac 18900000150000000 7400000440000001; qfrac 1500000360000000 7400000440000001]
           (qfrac 69500008990000055 7400000440000001) (qfrac 13900001798000011 7400000440000001)
           (qfrac 69500008990000055 22200001320000003) 5 = true.
Proof. vm_compute. reflexivity. Qed.

(* ---- round 6: labs glm.contrast, F-contrast covariance for a voxel-constant nvbeta (glm.py 121-129) ---------- *)
From NV.C05 Require Import ConModel Proofs7.

(* for EVERY voxel-grid shape sh (any number of axes), contrast dimension q, voxel k (C-order position in the grid)
   and entry (b, a): the stored covariance is (c nvbeta c')[a][b] * s2[k] - the voxel's OWN residual variance.
   (The resize / .T / reshape sequence transposes the q x q matrix; harmless for a symmetric one, next theorem.) *)
Theorem labs_fcon_cov_each_voxel_own_s2 : forall (q : nat) (sh : list nat) (vflat s2flat : list Z) (a b k : nat),
  length vflat = q * q -> a < q -> b < q -> k < prod sh ->
  nth ((b * q + a) * prod sh + k) (z_fcon_cov q sh vflat s2flat) 0%Z
  = (nth (a * q + b) vflat 0 * nth k s2flat 0)%Z.
Proof. exact (fcon_cov_entry Z 0%Z Z.mul). Qed.
Print Assumptions labs_fcon_cov_each_voxel_own_s2.

Theorem labs_fcon_cov_symmetric_spec : forall (q : nat) (sh : list nat) (vflat s2flat : list Z) (a b k : nat),
  length vflat = q * q ->
  (forall i j, i < q -> j < q -> nth (i * q + j) vflat 0%Z = nth (j * q + i) vflat 0%Z) ->
  a < q -> b < q -> k < prod sh ->
  nth ((b * q + a) * prod sh + k) (z_fcon_cov q sh vflat s2flat) 0%Z
  = (nth (b * q + a) vflat 0 * nth k s2flat 0)%Z.
Proof. exact (fcon_cov_symmetric_spec Z 0%Z Z.mul). Qed.
Print Assumptions labs_fcon_cov_symmetric_spec.

(* the grouping of the voxels into a grid is irrelevant: two grids with the same number of voxels (in particular the
   grid and its flat list) give the same C-order data *)
Theorem labs_fcon_cov_voxel_grouping_invariant : forall (q : nat) (sh1 sh2 : list nat) (vflat s2flat : list Z),
  length vflat = q * q -> prod sh1 = prod sh2 ->
  z_fcon_cov q sh1 vflat s2flat = z_fcon_cov q sh2 vflat s2flat.
Proof. exact (fcon_cov_layout_independent Z 0%Z Z.mul). Qed.
Print Assumptions labs_fcon_cov_voxel_grouping_invariant.

(* the same statement for every scalar type (no ring law is used: pure index bookkeeping) *)
Theorem labs_fcon_cov_each_voxel_own_s2_any_scalars :
  forall (A : Type) (zero : A) (mul : A -> A -> A) (q : nat) (sh : list nat) (vflat s2flat : list A) (a b k : nat),
  length vflat = q * q -> a < q -> b < q -> k < prod sh ->
  nth ((b * q + a) * prod sh + k) (fcon_cov A zero mul q sh vflat s2flat) zero
  = mul (nth (a * q + b) vflat zero) (nth k s2flat zero).
Proof. exact fcon_cov_entry. Qed.
Print Assumptions labs_fcon_cov_each_voxel_own_s2_any_scalars.

(* non-vacuity: q = 2, a 2 x 3 grid, non-symmetric nvbeta so that the transposition is visible:
   c = [[1,0,1],[0,1,-1]], nvbeta = [[2,1,0],[0,3,1],[1,0,1]]  ->  c nvbeta c' = [[4,0],[-1,3]], stored transposed *)
Example labs_fcon_variance_example :
  z_labs_fcon_variance [[1;0;1];[0;1;-1]]%Z [[2;1;0];[0;3;1];[1;0;1]]%Z [2;3] [1;2;3;4;5;6]%Z
  = [4;8;12;16;20;24; -1;-2;-3;-4;-5;-6; 0;0;0;0;0;0; 3;6;9;12;15;18]%Z.
Proof. vm_compute. reflexivity. Qed.
