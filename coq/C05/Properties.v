(* C05 - linear-model fits are least-squares optimal and implementation-independent.
   Property theorems, stated over the ordered field Qc of canonical rationals
   (the generic versions over any ordered commutative ring are in
   NV.Lib.C05Lin / NV.C05.Proofs*; one is restated generically at the end).
   Matrices are lists of rows; q_normal_eq p X y b  is  X^T (y - X b) = 0. *)
From Coq Require Import List Arith Lia Bool ZArith Ring QArith Qcanon.
From NV.Lib Require Import RingMat C05Lin.
From NV.C05 Require Import Model Proofs Proofs2.
Import ListNotations.
Close Scope Qc_scope.
Close Scope Q_scope.

Local Ltac qinst L :=
  intros; eapply L;
  eauto using Qcring_th, Qcle_refl, Qcle_trans, Qcle_antisym, Qc_le_add, Qc_sq_nonneg,
    Qc_sq_zero, Qc_eqb_true.

Local Ltac qord L :=
  intros; eapply (L Qc q0 q1 Qcplus Qcmult Qcminus Qcopp Qcring_th Qcle);
  eauto using Qcle_refl, Qcle_trans, Qcle_antisym, Qc_le_add, Qc_sq_nonneg, Qc_sq_zero, Qc_eqb_true.

(* ------------------------------------------------------------------ least squares *)
Theorem rss_nonneg : forall X y b, Qcle q0 (q_rss X y b).
Proof.
  intros X y b. change (Qcle q0 (dot q0 Qcplus Qcmult (q_resid X y b) (q_resid X y b))).
  qord sumsq_nonneg.
Qed.
Print Assumptions rss_nonneg.

(* a solution of the normal equations minimises the residual sum of squares *)
Theorem normal_eq_optimal : forall n p X y b b',
    length X = n -> rows_len p X -> length y = n -> length b = length b' ->
    q_normal_eq p X y b -> Qcle (q_rss X y b) (q_rss X y b').
Proof. qord C05Lin.normal_eq_optimal. Qed.
Print Assumptions normal_eq_optimal.

(* ... and another coefficient vector attains the minimum iff it has the same fitted values *)
Theorem normal_eq_equality : forall n p X y b b',
    length X = n -> rows_len p X -> length y = n -> length b = length b' ->
    q_normal_eq p X y b -> (q_rss X y b' = q_rss X y b <-> q_mv X b' = q_mv X b).
Proof. qord C05Lin.normal_eq_equality. Qed.
Print Assumptions normal_eq_equality.

(* residuals are orthogonal to every design column and to the fitted values *)
Theorem resid_orthogonal : forall p X y b j,
    rows_len p X -> j < p -> q_normal_eq p X y b ->
    q_dot (q_col j X) (q_resid X y b) = q0 /\ q_dot (q_resid X y b) (q_mv X b) = q0.
Proof.
  intros p X y b j HX Hj H. split.
  - revert HX Hj H. qinst resid_orth_columns.
  - revert HX H. qinst resid_orth_fitted.
Qed.
Print Assumptions resid_orthogonal.

(* fitted values and RSS depend only on the column space of the design: designs
   X1 (n x p) and X2 (n x q) with X2 = X1 M and X1 = X2 N - in particular every
   invertible reparametrisation - give the same fitted values and the same RSS *)
Theorem fitted_unique_on_colspace : forall n p q X1 X2 M N y b1 b2,
    length X1 = n -> rows_len p X1 -> rows_len q X2 ->
    length M = p -> rows_len q M -> length N = q -> rows_len p N ->
    X2 = q_mm q X1 M -> X1 = q_mm p X2 N ->
    length y = n -> length b1 = p -> length b2 = q ->
    q_normal_eq p X1 y b1 -> q_normal_eq q X2 y b2 ->
    q_mv X1 b1 = q_mv X2 b2 /\ q_rss X1 y b1 = q_rss X2 y b2.
Proof. qord C05Lin.fitted_unique_on_colspace. Qed.
Print Assumptions fitted_unique_on_colspace.

(* rescaling the data by c rescales coefficients and fitted values by c, RSS by c^2 *)
Theorem scale_equivariant : forall n p X y b c,
    length X = n -> rows_len p X -> length y = n -> q_normal_eq p X y b ->
    q_normal_eq p X (q_vscale c y) (q_vscale c b)
    /\ q_mv X (q_vscale c b) = q_vscale c (q_mv X b)
    /\ q_rss X (q_vscale c y) (q_vscale c b) = Qcmult (Qcmult c c) (q_rss X y b).
Proof. qinst C05Lin.scale_equivariant. Qed.
Print Assumptions scale_equivariant.

(* ------------------------------------------------------------------ OLSModel.fit *)
(* oracle contract of numpy.linalg.pinv (two Penrose conditions) => P y solves the normal equations *)
Theorem pinv_solves_normal_eq : forall n p X P y,
    length X = n -> rows_len p X -> length y = n ->
    (forall d, length d = p -> q_mv X (q_mv P (q_mv X d)) = q_mv X d) ->
    (forall u v, length u = n -> length v = n ->
                 q_dot u (q_mv X (q_mv P v)) = q_dot (q_mv X (q_mv P u)) v) ->
    q_normal_eq p X y (q_mv P y).
Proof. qinst C05Lin.pinv_solves_normal_eq. Qed.
Print Assumptions pinv_solves_normal_eq.

(* nipy's beta = calc_beta . wY minimises the whitened RSS of every voxel *)
Theorem ols_fit_optimal : forall n p k P wX wY j b',
    length wX = n -> rows_len p wX -> length wY = n -> rows_len k wY ->
    length P = p -> j < k -> length b' = p ->
    (forall d, length d = p -> q_mv wX (q_mv P (q_mv wX d)) = q_mv wX d) ->
    (forall u v, length u = n -> length v = n ->
                 q_dot u (q_mv wX (q_mv P v)) = q_dot (q_mv wX (q_mv P u)) v) ->
    Qcle (q_rss wX (q_col j wY) (q_col j (q_ols_beta k P wY))) (q_rss wX (q_col j wY) b').
Proof. qord Proofs2.ols_fit_optimal. Qed.
Print Assumptions ols_fit_optimal.

(* fitting a block of voxels = fitting each voxel (any order, any grouping) *)
Theorem fit_columnwise : forall k P wY j,
    rows_len k wY -> j < k -> q_col j (q_ols_beta k P wY) = q_mv P (q_col j wY).
Proof. qinst ols_beta_columnwise. Qed.
Print Assumptions fit_columnwise.

(* dispersion of voxel j = RSS_j / (n - p), (n, p) = shape of the whitened design *)
Theorem ols_dispersion_is_rss : forall k P wX wY j,
    rows_len k wY -> length wX = length wY -> j < k ->
    nth j (q_ols_dispersion k P wX wY) q0 =
    Qcdiv (q_rss wX (q_col j wY) (q_mv P (q_col j wY))) (qofZ (dof_shape Qc wX)).
Proof. qinst Proofs.ols_dispersion_is_rss. Qed.
Print Assumptions ols_dispersion_is_rss.

(* the exact reference (Gauss-Jordan result accepted only if it satisfies the
   normal equations) is a least-squares solution with s2 = RSS/(n-p) *)
Theorem ref_fit_certified : forall n p wX wy b s b',
    length wX = n -> rows_len p wX -> length wy = n -> length b' = p ->
    q_ref_col p wX wy = Some (b, s) ->
    q_normal_eq p wX wy b /\ Qcle (q_rss wX wy b) (q_rss wX wy b')
    /\ s = Qcdiv (q_rss wX wy b) (qofZ (dof_shape Qc wX)).
Proof.
  intros. eapply (Proofs2.ref_col_optimal Qc q0 q1 Qcplus Qcmult Qcminus Qcdiv Qcopp Qcring_th Qcle);
    eauto using Qcle_refl, Qcle_trans, Qc_le_add, Qc_sq_nonneg, Qc_eqb_true.
Qed.
Print Assumptions ref_fit_certified.

(* ------------------------------------------------------------------ whitening *)
(* ARModel.whiten: row t is x_t - sum_i rho_i x_{t-i-1} over the lags i+1 <= t *)
Theorem ar_whiten_spec : forall rho X t,
    t < length X -> nth t (q_ar_whiten rho X) [] = q_ar_row rho X t.
Proof. qinst Proofs.ar_whiten_spec. Qed.
Print Assumptions ar_whiten_spec.

Theorem ar1_whiten_rows : forall rho X t,
    t < length X ->
    nth t (q_ar_whiten [rho] X) [] =
    match t with
    | O => nth 0 X []
    | S t' => q_vsub (nth t X []) (q_vscale rho (nth t' X []))
    end.
Proof. qinst Proofs.ar1_whiten_rows. Qed.
Print Assumptions ar1_whiten_rows.

Theorem ar_whiten_zero_is_id : forall c rho X,
    Forall (fun r => r = q0) rho -> rows_len c X -> q_ar_whiten rho X = X.
Proof. qinst Proofs.ar_whiten_zero_is_id. Qed.
Print Assumptions ar_whiten_zero_is_id.

Theorem wls_unit_is_ols : forall n X, length X = n -> q_wls_whiten (repeat q1 n) X = X.
Proof. qinst Proofs.wls_unit_is_ols. Qed.
Print Assumptions wls_unit_is_ols.

(* the normal equations of the whitened WLS problem are the weighted normal
   equations X^T diag(c^2) (y - X b) = 0 of the original one *)
Theorem wls_normal_eq_weighted : forall p cs X y b,
    rows_len p X -> length cs = length X -> length y = length X ->
    q_vm p (vmul Qcmult cs (q_resid X y b)) (q_wls_whiten cs X)
    = q_vm p (vmul Qcmult (vmul Qcmult cs cs) (q_resid X y b)) X.
Proof. qinst Proofs.wls_normal_eq_weighted. Qed.
Print Assumptions wls_normal_eq_weighted.

Theorem gls_identity_is_ols : forall k n Y,
    length Y = n -> rows_len k Y -> q_gls_whiten k (mid q0 q1 n) Y = Y.
Proof. qinst Proofs.gls_identity_is_ols. Qed.
Print Assumptions gls_identity_is_ols.

Theorem gls_diag_is_wls : forall k cs Y,
    length Y = length cs -> rows_len k Y -> q_gls_whiten k (q_diag cs) Y = q_wls_whiten cs Y.
Proof. qinst Proofs.gls_diag_is_wls. Qed.
Print Assumptions gls_diag_is_wls.

(* ------------------------------------------------------------------ GeneralLinearModel *)
(* grouping voxels by label, fitting each group with a column-wise block fit and
   scattering back with boolean masks gives every voxel the fit under its own label *)
Theorem glm_grouping_scatter : forall n p V (fit : Z -> list (list Qc) -> list (list Qc))
                                      (f : Z -> list Qc -> list Qc) Y labels v,
    (forall l Yb k, length Yb = n -> rows_len k Yb ->
                    length (fit l Yb) = p /\ rows_len k (fit l Yb)
                    /\ forall j, j < k -> q_col j (fit l Yb) = f l (q_col j Yb)) ->
    length Y = n -> rows_len V Y -> length labels = V ->
    (forall l y, length y = n -> length (f l y) = p) ->
    v < V ->
    q_col v (q_glm_get p labels (q_glm_results fit labels Y)) = f (nth v labels 0%Z) (q_col v Y).
Proof. intros. eapply Proofs2.glm_grouping_scatter; eauto. Qed.
Print Assumptions glm_grouping_scatter.

(* ------------------------------------------------------------------ generic restatement *)
(* optimality holds over every ordered commutative ring, not only Qc *)
Theorem normal_eq_optimal_any_ordered_ring :
  forall (R : Type) (r0 r1 : R) (radd rmul rsub : R -> R -> R) (ropp : R -> R),
    ring_theory r0 r1 radd rmul rsub ropp (@eq R) ->
    forall rle : R -> R -> Prop,
      (forall a, rle a a) -> (forall a b c, rle a b -> rle b c -> rle a c) ->
      (forall a b c, rle a b -> rle (radd c a) (radd c b)) ->
      (forall a, rle r0 (rmul a a)) ->
      forall n p X y b b',
        length X = n -> rows_len p X -> length y = n -> length b = length b' ->
        normal_eq r0 radd rmul rsub p X y b ->
        rle (rss r0 radd rmul rsub X y b) (rss r0 radd rmul rsub X y b').
Proof. exact C05Lin.normal_eq_optimal. Qed.
Print Assumptions normal_eq_optimal_any_ordered_ring.

(* ------------------------------------------------------------------ engine agreement *)
(* FINDING: the Kalman engine of nipy.labs.glm returns s2 = RSS/n together with
   dof = n - p, the OLS engine returns s2 = RSS/(n - p): the clause "the labs GLM
   with its ordinary and Kalman-filter engines return the same ... variances"
   is false for the code as it is (witness RSS = 3, n = 5, p = 2: 3/5 vs 1). *)
Theorem labs_kalman_s2_agrees_refuted :
  exists rss_ n p, (0 < p < n)%Z /\ labs_kalman_s2 rss_ n p <> labs_ols_s2 rss_ n p.
Proof.
  exists (qofZ 3), 5%Z, 2%Z. split; [lia|]. intros H.
  apply (f_equal (fun q => Qnum (this q))) in H. vm_compute in H. discriminate.
Qed.
Print Assumptions labs_kalman_s2_agrees_refuted.

(* the dof-corrected value the C code also computes (s2_cor) does agree *)
Example labs_kalman_s2_cor_example :
  Qc_eq_bool (labs_kalman_s2_cor (qofZ 3) 5 2) (labs_ols_s2 (qofZ 3) 5 2) = true.
Proof. vm_compute. reflexivity. Qed.

(* ------------------------------------------------------------------ non-vacuity *)
Definition exX := zmat [[1;0];[1;1];[1;2];[1;3];[1;5]]%Z.
Definition exY := zmat [[1;2];[3;1];[4;0];[5;7];[2;2]]%Z.

(* the certified solver succeeds on a concrete full-rank problem: beta = (189/74, 15/74), s2 = 695/222 *)
Example ref_fit_example :
  fit_close 0 (q_ref_fit 2 2 exX exY)
            [[qfrac 189 74; qfrac 15 74]; [qfrac 58 37; qfrac 14 37]] [qfrac 695 222; qfrac 334 37] = true.
Proof. vm_compute. reflexivity. Qed.

(* and refuses a rank-deficient one *)
Example ref_fit_rank_deficient : q_ref_fit 2 1 (zmat [[1;1];[2;2];[3;3]]%Z) (zmat [[1];[0];[2]]%Z) = None.
Proof. vm_compute. reflexivity. Qed.

Example ar_whiten_example :
  qcmat_eqb (q_ar_whiten [qfrac 1 2; qfrac 1 4] exX)
            [[qfrac 1 1; qfrac 0 1]; [qfrac 1 2; qfrac 1 1]; [qfrac 1 4; qfrac 3 2];
             [qfrac 1 4; qfrac 7 4]; [qfrac 1 4; qfrac 3 1]] = true.
Proof. vm_compute. reflexivity. Qed.

(* astype(int) truncates toward zero *)
Example trunc_toward_zero : (qtrunc (qfrac (-7) 2), qtrunc (qfrac 7 2)) = ((-3)%Z, 3%Z).
Proof. vm_compute. reflexivity. Qed.
