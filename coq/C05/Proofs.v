(* C05 - lemmas about the whitening loops and the OLS fit algebra of Model.v *)
From Coq Require Import List Arith Lia Bool ZArith Ring.
From NV.Lib Require Import RingMat C05Lin.
From NV.C05 Require Import Model.
Import ListNotations.

(* ------------------------------------------------------------------ lists *)
Lemma nth_firstn_lt {A} (l : list A) m k d : k < m -> nth k (firstn m l) d = nth k l d.
Proof.
  revert l k; induction m as [|m IH]; intros l k H; [lia|].
  destruct l as [|a l]; [destruct k; reflexivity|].
  destruct k as [|k]; [reflexivity|]. simpl. apply IH. lia.
Qed.

Lemma nth_skipn_add {A} (l : list A) m k d : nth k (skipn m l) d = nth (m + k) l d.
Proof.
  revert l; induction m as [|m IH]; intros l; [reflexivity|].
  destruct l as [|a l]; [destruct k; reflexivity|]. simpl. apply IH.
Qed.

Lemma nth_map_seq0 {A} (f : nat -> A) n j d : j < n -> nth j (map f (seq 0 n)) d = f j.
Proof.
  intros H. rewrite nth_indep with (d' := f 0) by (now rewrite map_length, seq_length).
  rewrite map_nth, seq_nth by exact H. reflexivity.
Qed.

Section Proofs.
  Variable R : Type.
  Variables (r0 r1 : R) (radd rmul rsub rdiv : R -> R -> R) (ropp : R -> R).
  Hypothesis Rth : ring_theory r0 r1 radd rmul rsub ropp (@eq R).
  Add Ring Rring6 : Rth.
  Variable rofZ : Z -> R.

  Local Notation vec := (list R).
  Local Notation mat := (list (list R)).
  Local Notation Dot := (dot r0 radd rmul).
  Local Notation Vsub := (vsub rsub).
  Local Notation Vscale := (vscale rmul).
  Local Notation Vzero := (vzero r0).
  Local Notation Mv := (mv r0 radd rmul).
  Local Notation Vm := (vm r0 radd rmul).
  Local Notation Mm := (mm r0 radd rmul).
  Local Notation Col := (col r0).
  Local Notation Unit := (unit_vec r0 r1).
  Local Notation Msub := (msub R rsub).
  Local Notation Mscale := (mscale R rmul).
  Local Notation Ar_loop := (ar_loop R rmul rsub).
  Local Notation Ar_whiten := (ar_whiten R rmul rsub).
  Local Notation Ar_row_from := (ar_row_from R rmul rsub).
  Local Notation Ar_row := (ar_row R rmul rsub).
  Local Notation Wls_whiten := (wls_whiten R rmul).
  Local Notation Gls_whiten := (gls_whiten R r0 radd rmul).
  Local Notation Diag := (diag_mat R r0 r1 rmul).
  Local Notation Resid := (resid r0 radd rmul rsub).
  Local Notation Rss := (rss r0 radd rmul rsub).
  Local Notation Normal := (normal_eq r0 radd rmul rsub).

  (* ---------------------------------------------------------------- elementwise *)
  Lemma msub_length A B : length A = length B -> length (Msub A B) = length A.
  Proof.
    revert B; induction A as [|a A IH]; intros [|b B]; simpl; intros H; try discriminate; auto.
  Qed.

  Lemma nth_msub A B k :
    k < length A -> k < length B -> nth k (Msub A B) [] = Vsub (nth k A []) (nth k B []).
  Proof.
    revert B k; induction A as [|a A IH]; intros [|b B] [|k]; simpl; intros H1 H2; try lia;
      [reflexivity|]. apply IH; lia.
  Qed.

  Lemma vsub_vscale_zero acc row : length acc = length row -> Vsub acc (Vscale r0 row) = acc.
  Proof.
    revert row; induction acc as [|a acc IH]; intros [|b row]; simpl; intros H; try discriminate;
      [reflexivity|]. f_equal; [ring|]. apply IH. lia.
  Qed.

  Lemma nth_rows_len c (X : mat) t : rows_len c X -> t < length X -> length (nth t X []) = c.
  Proof.
    intros H Ht. unfold rows_len in H. rewrite Forall_forall in H. apply H. now apply nth_In.
  Qed.

  Lemma nth_col j (Y : mat) i : i < length Y -> nth i (Col j Y) r0 = nth j (nth i Y []) r0.
  Proof.
    revert i; induction Y as [|y Y IH]; intros [|i] H; simpl in *; try lia; [reflexivity|].
    apply IH. lia.
  Qed.

  Lemma col_msub j c A B :
    rows_len c A -> rows_len c B -> Col j (Msub A B) = Vsub (Col j A) (Col j B).
  Proof.
    revert B; induction A as [|a A IH]; intros [|b B] HA HB; simpl; try reflexivity.
    inversion HA as [|? ? Ha HA']; inversion HB as [|? ? Hb HB']; subst.
    f_equal; [|now apply IH].
    apply (nth_vsub R r0 r1 radd rmul rsub ropp Rth). congruence.
  Qed.

  (* ---------------------------------------------------------------- ARModel.whiten *)
  Lemma ar_step_length (X W : mat) r i :
    length W = length X ->
    length (firstn (S i) W ++ Msub (skipn (S i) W) (Mscale r (firstn (length X - S i) X)))
    = length X.
  Proof.
    intros H. rewrite app_length, firstn_length, msub_length.
    - rewrite skipn_length. lia.
    - unfold mscale. rewrite skipn_length, map_length, firstn_length. lia.
  Qed.

  Lemma ar_loop_length X rho i W : length W = length X -> length (Ar_loop X rho i W) = length X.
  Proof.
    revert i W; induction rho as [|r rho IH]; intros i W H; cbn [ar_loop]; [exact H|].
    apply IH. now apply ar_step_length.
  Qed.

  Lemma ar_loop_spec X rho i W t :
    length W = length X -> t < length X ->
    nth t (Ar_loop X rho i W) [] = Ar_row_from X rho i t (nth t W []).
  Proof.
    revert i W; induction rho as [|r rho IH]; intros i W HW Ht; cbn [ar_loop ar_row_from];
      [reflexivity|].
    rewrite IH by (try assumption; now apply ar_step_length). f_equal.
    destruct (Nat.ltb_spec i t) as [Hlt|Hge].
    - rewrite app_nth2 by (rewrite firstn_length; lia).
      rewrite firstn_length. replace (Nat.min (S i) (length W)) with (S i) by lia.
      rewrite nth_msub.
      + rewrite nth_skipn_add. replace (S i + (t - S i)) with t by lia. f_equal.
        unfold mscale. change (@nil R) with (Vscale r []) at 1. rewrite map_nth. f_equal.
        apply nth_firstn_lt. lia.
      + rewrite skipn_length. lia.
      + unfold mscale. rewrite map_length, firstn_length. lia.
    - rewrite app_nth1 by (rewrite firstn_length; lia). apply nth_firstn_lt. lia.
  Qed.

  (* row t of the whitened array is x_t - sum_i rho_i x_{t-i-1} over the lags that exist *)
  Theorem ar_whiten_spec rho X t :
    t < length X -> nth t (Ar_whiten rho X) [] = Ar_row rho X t.
  Proof. intros Ht. unfold ar_whiten, ar_row. now apply ar_loop_spec. Qed.

  Lemma ar_whiten_length rho X : length (Ar_whiten rho X) = length X.
  Proof. unfold ar_whiten. now apply ar_loop_length. Qed.

  Lemma ar_row_from_zero c X rho i t acc :
    Forall (fun r => r = r0) rho -> rows_len c X -> t < length X -> length acc = c ->
    Ar_row_from X rho i t acc = acc.
  Proof.
    revert i acc; induction rho as [|r rho IH]; intros i acc Hz HX Ht Ha; cbn [ar_row_from];
      [reflexivity|].
    apply Forall_cons_iff in Hz. destruct Hz as [Hr Hz']. subst r.
    destruct (Nat.ltb_spec i t) as [Hlt|Hge]; [|now apply IH].
    rewrite vsub_vscale_zero by (rewrite (nth_rows_len c) by (auto; lia); exact Ha).
    now apply IH.
  Qed.

  (* an AR model with all coefficients zero whitens nothing *)
  Theorem ar_whiten_zero_is_id c rho X :
    Forall (fun r => r = r0) rho -> rows_len c X -> Ar_whiten rho X = X.
  Proof.
    intros Hz HX. apply nth_ext with (d := []) (d' := []); [apply ar_whiten_length|].
    intros t Ht. rewrite ar_whiten_length in Ht. rewrite ar_whiten_spec by exact Ht.
    unfold ar_row. apply (ar_row_from_zero c); auto. now apply nth_rows_len.
  Qed.

  (* the lag is exactly i+1: the first order rows keep the missing lags out, and
     for an AR(1) model row t>0 is x_t - rho x_{t-1}, row 0 is x_0 *)
  Corollary ar1_whiten_rows rho X t :
    t < length X ->
    nth t (Ar_whiten [rho] X) [] =
    match t with O => nth 0 X [] | S t' => Vsub (nth t X []) (Vscale rho (nth t' X [])) end.
  Proof.
    intros Ht. rewrite ar_whiten_spec by exact Ht. unfold ar_row. cbn [ar_row_from].
    destruct t as [|t']; [reflexivity|]. change (Nat.ltb 0 (S t')) with true. cbn iota.
    replace (S t' - 1) with t' by lia. reflexivity.
  Qed.

  (* ---------------------------------------------------------------- WLS *)
  Theorem wls_unit_is_ols n X : length X = n -> Wls_whiten (repeat r1 n) X = X.
  Proof.
    revert n; induction X as [|x X IH]; intros [|n] H; simpl in *; try discriminate;
      [reflexivity|].
    unfold wls_whiten in *. cbn [combine map fst snd].
    rewrite (vscale_one R r0 r1 radd rmul rsub ropp Rth). f_equal. apply IH. lia.
  Qed.

  Lemma wls_whiten_length cs X : length cs = length X -> length (Wls_whiten cs X) = length X.
  Proof. intros H. unfold wls_whiten. rewrite map_length, combine_length. lia. Qed.

  Lemma nth_wls_whiten cs X i :
    length cs = length X -> i < length X ->
    nth i (Wls_whiten cs X) [] = Vscale (nth i cs r0) (nth i X []).
  Proof.
    unfold wls_whiten. revert cs i; induction X as [|x X IH]; intros [|c cs] [|i] H Hi;
      simpl in *; try lia; [reflexivity|]. apply IH; lia.
  Qed.

  (* whitened normal equations = weighted normal equations X^T diag(c^2) (y - X b) = 0 *)
  Theorem wls_normal_eq_weighted p cs X y b :
    rows_len p X -> length cs = length X -> length y = length X ->
    Vm p (vmul rmul cs (Resid X y b)) (Wls_whiten cs X)
    = Vm p (vmul rmul (vmul rmul cs cs) (Resid X y b)) X.
  Proof.
    intros HX Hc Hy. unfold wls_whiten.
    apply (vm_row_scaled R r0 r1 radd rmul rsub ropp Rth); auto.
    apply (resid_length R r0 radd rmul rsub); auto.
  Qed.

  (* ---------------------------------------------------------------- GLS *)
  Lemma vm_scaled_unit k n (Y : mat) a i :
    length Y = n -> rows_len k Y -> i < n ->
    Vm k (Vscale a (Unit n i)) Y = Vscale a (nth i Y []).
  Proof.
    intros HY Hr Hi. apply nth_ext with (d := r0) (d' := r0).
    - rewrite vm_length by exact Hr. rewrite vscale_length. symmetry.
      apply (nth_rows_len k); [exact Hr|lia].
    - intros j Hj. rewrite vm_length in Hj by exact Hr.
      rewrite (nth_vm R r0 r1 radd rmul rsub ropp Rth k _ Y j Hr Hj).
      rewrite (dot_vscale_l R r0 r1 radd rmul rsub ropp Rth).
      rewrite (dot_unit R r0 r1 radd rmul rsub ropp Rth n i _ Hi).
      rewrite nth_col by lia.
      now rewrite (nth_vscale R r0 r1 radd rmul rsub ropp Rth).
  Qed.

  (* GLS with a diagonal whitener is WLS *)
  Theorem gls_diag_is_wls k cs Y :
    length Y = length cs -> rows_len k Y -> Gls_whiten k (Diag cs) Y = Wls_whiten cs Y.
  Proof.
    intros HY Hr. unfold gls_whiten, mm, diag_mat. rewrite map_map.
    apply nth_ext with (d := []) (d' := []).
    - rewrite map_length, seq_length, wls_whiten_length; auto.
    - intros i Hi. rewrite map_length, seq_length in Hi.
      rewrite nth_map_seq0 by exact Hi.
      rewrite nth_wls_whiten by (auto; lia).
      apply vm_scaled_unit; auto.
  Qed.

  (* GLS with the identity whitener is OLS *)
  Theorem gls_identity_is_ols k n Y :
    length Y = n -> rows_len k Y -> Gls_whiten k (mid r0 r1 n) Y = Y.
  Proof.
    intros HY Hr. unfold gls_whiten, mm, mid. rewrite map_map.
    apply nth_ext with (d := []) (d' := []).
    - now rewrite map_length, seq_length.
    - intros i Hi. rewrite map_length, seq_length in Hi.
      rewrite nth_map_seq0 by exact Hi.
      rewrite <- (vscale_one R r0 r1 radd rmul rsub ropp Rth (Unit n i)).
      rewrite (vm_scaled_unit k n Y r1 i HY Hr Hi).
      apply (vscale_one R r0 r1 radd rmul rsub ropp Rth).
  Qed.

  (* ---------------------------------------------------------------- OLSModel.fit *)
  Local Notation Ols_beta := (ols_beta R r0 radd rmul).
  Local Notation Ols_wresid := (ols_wresid R r0 radd rmul rsub).
  Local Notation Ols_dispersion := (ols_dispersion R r0 radd rmul rsub rdiv rofZ).

  (* fitting a block of voxels is fitting each voxel: column j of beta = P (column j of wY) *)
  Theorem ols_beta_columnwise k P wY j :
    rows_len k wY -> j < k -> Col j (Ols_beta k P wY) = Mv P (Col j wY).
  Proof. intros H Hj. unfold ols_beta. now apply (col_mm R r0 r1 radd rmul rsub ropp Rth). Qed.

  Theorem ols_wresid_columnwise k P wX wY j :
    rows_len k wY -> length wX = length wY -> j < k ->
    Col j (Ols_wresid k P wX wY) = Resid wX (Col j wY) (Col j (Ols_beta k P wY)).
  Proof.
    intros H HL Hj. unfold ols_wresid.
    rewrite (col_msub j k) by (auto; apply mm_rows_len, mm_rows_len; exact H).
    unfold resid. f_equal.
    apply (col_mm R r0 r1 radd rmul rsub ropp Rth); [|exact Hj].
    unfold ols_beta. now apply mm_rows_len.
  Qed.

  (* dispersion of voxel j is RSS_j / (n - p), n and p the shape of the whitened design *)
  Theorem ols_dispersion_is_rss k P wX wY j :
    rows_len k wY -> length wX = length wY -> j < k ->
    nth j (Ols_dispersion k P wX wY) r0 =
    rdiv (Rss wX (Col j wY) (Mv P (Col j wY))) (rofZ (dof_shape R wX)).
  Proof.
    intros H HL Hj. unfold ols_dispersion, sumsq_cols. rewrite map_map.
    rewrite nth_map_seq0 by exact Hj.
    rewrite (ols_wresid_columnwise k P wX wY j H HL Hj).
    rewrite (ols_beta_columnwise k P wY j H Hj). reflexivity.
  Qed.
End Proofs.
