(* C06 - the 'tmin' branch of nipy.labs.glm.glm.contrast.stat / fmri.glm.Contrast.stat on a
   voxel array of ANY shape:

       vdiag = self.variance.reshape([self.dim ** 2] + list(self.variance.shape[2:]))[:: self.dim + 1]

   The variance array has shape (dim, dim, *grid).  In C order it is dim rows of dim BLOCKS, a
   block being the whole voxel array (its *grid values in C order).  The reshape keeps the
   trailing axes, so the stride trick selects whole blocks: the model is the SAME polymorphic
   `stride_from` of Model.v, applied to a list of blocks instead of a list of numbers.
   Definitions only; proofs are in ProofsGrid.v. *)
From Coq Require Import List Arith.
From NV.C06 Require Import Model.
Import ListNotations.

(* variance.reshape([dim**2] + grid)[::dim+1] on the blocks *)
Definition vdiag_blocks {A : Type} (dim : nat) (V : list (list A)) : list A :=
  stride_from (S dim) 0 (concat V).

(* the specification: entry i is V[i][i] *)
Definition diag_spec {A : Type} (d : A) (dim : nat) (V : list (list A)) : list A :=
  map (fun i => nth i (nth i V []) d) (seq 0 dim).

(* variance[:, :, v] for the C-order voxel index v of the grid *)
Definition voxel_slice {F : Type} (d : F) (v : nat) (V : list (list (list F))) : list (list F) :=
  map (map (fun blk => nth v blk d)) V.

(* effect[:, v] *)
Definition voxel_col {F : Type} (d : F) (v : nat) (E : list (list F)) : list F :=
  map (fun row => nth v row d) E.

(* the statistic of the whole grid as the code computes it: the row variances are the blocks
   selected by the stride trick, the division and the minimum over axis 0 are elementwise, i.e.
   voxel v of the result is computed from voxel v of every selected block *)
Definition g_tmin_grid {F : Type} (Op : ops F) (d : F) (E : list (list F)) (V : list (list (list F)))
           (b tiny : F) (nvox : nat) : list (option F) :=
  let vd := vdiag_blocks (length E) V in
  map (fun v => match g_tstats Op (voxel_col d v E) (voxel_col d v vd) b tiny with
                | [] => None
                | t :: r => Some (g_min_list Op t r)
                end) (seq 0 nvox).
