(* C06 - the Contrast cache machine: which observables are always the pure
   function of (contents, baseline), which are not, and the repaired machine. *)
From Coq Require Import List Bool Arith Lia QArith.
From NV.C06 Require Import Model.
Import ListNotations.
Open Scope Q_scope.

Definition ok_tag (c : cexp) (b : Q) (t : tag) : Prop := fst t = c /\ snd t == b.

(* invariant every reachable state satisfies: a cached statistic belongs to the current contents and baseline *)
Definition inv_st (s : cstate) : Prop := forall t, s_st s = Some t -> ok_tag (s_c s) (s_bl s) t.
(* the stronger invariant (cached p-value too): holds in the repaired machine, and as coded as long as stat() is not called directly *)
Definition inv_pv (s : cstate) : Prop := forall t, s_pv s = Some t -> ok_tag (s_c s) (s_bl s) t.

Lemma need_false cache bl b : need cache bl b = false -> exists t, cache = Some t /\ bl == b.
Proof.
  unfold need. destruct cache as [t|]; [|discriminate]. intros H. exists t. split; [reflexivity|].
  apply Qeq_bool_iff. now apply negb_false_iff.
Qed.

Lemma inv_st_init c : inv_st (init_state c).
Proof. intros t H. discriminate. Qed.
Lemma inv_pv_init c : inv_pv (init_state c).
Proof. intros t H. discriminate. Qed.

Lemma do_stat_inv_st fixed b s : inv_st (do_stat fixed b s).
Proof. intros t H. simpl in H. injection H as E; subst t. split; simpl; [reflexivity|apply Qeq_refl]. Qed.

Lemma do_p_spec fixed b s : inv_st s ->
  let r := do_p fixed b s in
  inv_st (fst r) /\ ok_tag (s_c s) b (snd r) /\ s_c (fst r) = s_c s /\ s_bl (fst r) == b /\
  s_pv (fst r) = Some (snd r).
Proof.
  intros I. unfold do_p. destruct (need (s_st s) (s_bl s) b) eqn:N; cbv zeta.
  - simpl. split; [|split; [|split; [|split]]]; try reflexivity; try apply Qeq_refl.
    + intros t H. simpl in H. injection H as E; subst t. split; simpl; [reflexivity|apply Qeq_refl].
    + split; simpl; [reflexivity|apply Qeq_refl].
  - destruct (need_false _ _ _ N) as [t [E Hb]]. simpl. rewrite E. simpl.
    destruct (I t E) as [H1 H2]. split; [|split; [|split; [|split]]]; try reflexivity.
    + intros u Hu. simpl in Hu. try rewrite E in Hu. injection Hu as E'; subst u. split; assumption.
    + split; [exact H1|rewrite H2; exact Hb].
    + exact Hb.
Qed.

Lemma step_inv_st fixed s o : inv_st s -> inv_st (fst (step fixed s o)).
Proof.
  intros I. destruct o as [b|b|b|k|other]; simpl.
  - apply do_stat_inv_st.
  - apply (do_p_spec fixed b s I).
  - unfold do_z. destruct (need (s_pv s) (s_bl s) b); simpl; [apply (do_p_spec fixed b s I)|exact I].
  - apply inv_st_init.
  - apply inv_st_init.
Qed.

(* ---- as coded: stat() and p_value() are always right *)
Definition stat_p_ok (a b : obs) : Prop :=
  match a, b with
  | ObZ _ _, ObZ _ _ => True
  | _, _ => obs_equiv a b
  end.

Lemma run_stat_p_pure fixed ops : forall s, inv_st s ->
  Forall2 stat_p_ok (run fixed s ops) (run_pure (s_c s) ops).
Proof.
  induction ops as [|o r IH]; intros s I; simpl; [constructor|].
  assert (I' := step_inv_st fixed s o I).
  destruct o as [b|b|b|k|other]; simpl in *.
  - constructor; [split; simpl; [reflexivity|apply Qeq_refl]|]. apply (IH (do_stat fixed b s) I').
  - destruct (do_p_spec fixed b s I) as [_ [[T1 T2] [C _]]]. constructor; [split; assumption|].
    rewrite <- C. apply IH. exact I'.
  - constructor; [exact Logic.I|].
    assert (C : s_c (fst (do_z fixed b s)) = s_c s).
    { unfold do_z. destruct (need (s_pv s) (s_bl s) b); simpl; [|reflexivity].
      destruct (need (s_st s) (s_bl s) b); reflexivity. }
    rewrite <- C. apply IH. exact I'.
  - constructor; [exact Logic.I|]. apply (IH (init_state (CMul k (s_c s)))). apply inv_st_init.
  - constructor; [exact Logic.I|]. apply (IH (init_state (CAdd (s_c s) other))). apply inv_st_init.
Qed.

(* ---- the repaired machine (and, as coded, every sequence without a direct stat() call): everything is right *)
Definition no_direct_stat (ops : list cop) : Prop := forall b, ~ In (OStat b) ops.

Lemma do_z_spec fixed b s : inv_st s -> inv_pv s ->
  let r := do_z fixed b s in
  inv_st (fst r) /\ inv_pv (fst r) /\ s_c (fst r) = s_c s /\ obs_equiv (snd r) (ObZ (s_c s, b) (s_c s, b)).
Proof.
  intros I J. unfold do_z. destruct (need (s_pv s) (s_bl s) b) eqn:N; cbv zeta.
  - pose proof (do_p_spec fixed b s I) as Hp. cbv zeta in Hp.
    destruct (do_p fixed b s) as [s1 t1] eqn:Er. simpl in Hp.
    destruct Hp as [I1 [[T1 T2] [C [B PV]]]]. simpl.
    split; [exact I1|]. split; [|split; [exact C|]].
    + intros t Ht. rewrite PV in Ht. injection Ht as E'; subst t. split; [rewrite C; exact T1|rewrite B; exact T2].
    + rewrite PV. simpl. split; [split; assumption|].
      destruct (s_st s1) as [u|] eqn:E; simpl.
      * destruct (I1 u E) as [U1 U2]. split; [rewrite U1; exact C|rewrite U2; exact B].
      * split; [exact C|apply Qeq_refl].
  - destruct (need_false _ _ _ N) as [t [E Hb]]. split; [exact I|]. split; [exact J|]. split; [reflexivity|].
    simpl. rewrite E. simpl. destruct (J t E) as [T1 T2]. split.
    + split; [exact T1|rewrite T2; exact Hb].
    + destruct (s_st s) as [u|] eqn:Eu; simpl.
      * destruct (I u Eu) as [U1 U2]. split; [exact U1|rewrite U2; exact Hb].
      * split; [reflexivity|apply Qeq_refl].
Qed.

Lemma run_all_pure fixed ops : (fixed = true \/ no_direct_stat ops) ->
  forall s, inv_st s -> inv_pv s ->
  Forall2 obs_equiv (run fixed s ops) (run_pure (s_c s) ops).
Proof.
  induction ops as [|o r IH]; intros Hf s I J; simpl; [constructor|].
  assert (Hf' : fixed = true \/ no_direct_stat r).
  { destruct Hf as [Hf|Hf]; [left; exact Hf|right]. intros b Hb. apply (Hf b). right. exact Hb. }
  destruct o as [b|b|b|k|other]; simpl.
  - destruct Hf as [->|Hf]; [|exfalso; apply (Hf b); left; reflexivity].
    constructor; [split; simpl; [reflexivity|apply Qeq_refl]|].
    apply (IH Hf' (do_stat true b s)); [apply do_stat_inv_st|intros t Ht; discriminate].
  - destruct (do_p_spec fixed b s I) as [I1 [[T1 T2] [C [B PV]]]].
    constructor; [split; assumption|]. rewrite <- C. apply (IH Hf'); [exact I1|].
    intros t Ht. rewrite PV in Ht. injection Ht as E'; subst t. split; [rewrite C; exact T1|rewrite B; exact T2].
  - destruct (do_z_spec fixed b s I J) as [I1 [J1 [C E]]].
    constructor; [exact E|]. rewrite <- C. apply (IH Hf'); assumption.
  - constructor; [exact Logic.I|]. apply (IH Hf' (init_state (CMul k (s_c s)))); [apply inv_st_init|apply inv_pv_init].
  - constructor; [exact Logic.I|]. apply (IH Hf' (init_state (CAdd (s_c s) other))); [apply inv_st_init|apply inv_pv_init].
Qed.
