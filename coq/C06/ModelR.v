(* C06 - the generic contrast definitions of Model.v instantiated at the real
   numbers (real square root), and the p-value / z-score pipeline with the
   scipy tail functions as Section variables (oracles). *)
From Coq Require Import List Reals Lra.
From NV.C06 Require Import Model.
Import ListNotations.
Open Scope R_scope.

Definition Rltb (x y : R) : bool := if Rlt_dec x y then true else false.
Definition Rops : ops R := mkOps R 0 1 Rplus Rminus Rmult Rdiv Rmax Rmin Rltb sqrt.

Definition tstat := g_tstat Rops.
Definition f1stat := g_f1stat Rops.
Definition tmin := g_tmin Rops.
Definition clipR := g_clip Rops.
Definition pos_recipr := g_pos_recipr Rops.
Definition Tres := g_T Rops.
Definition F1res := g_F1 Rops.

(* a float that may be +-inf or nan *)
Inductive xreal := Fin (r : R) | NotFin.

(* statistic possibly NaN (None) -> p-value -> z-score, as in Contrast.p_value / z_score:
     p = sf(stat); p[isnan(stat)] = .5
     z = isf(min(max(p, lo), hi)); z[isnan(stat)] = 0                           *)
Section Pipeline.
  Variable sf : R -> R.            (* sps.t.sf(., dof) or sps.f.sf(., dim, dof) at fixed degrees of freedom *)
  Variable isf : R -> xreal.       (* scipy.stats.norm.isf *)
  Variables lo hi : R.             (* 1e-300 and 1 - 1e-16 in utils.z_score *)

  Definition p_value (stat : option R) : R :=
    match stat with None => 1 / 2 | Some s => sf s end.
  Definition z_score (stat : option R) : xreal :=
    match stat with None => Fin 0 | Some s => isf (clipR lo hi (sf s)) end.
End Pipeline.
