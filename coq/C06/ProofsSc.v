(* C06 - the literal scatter `inverse_order[order[k]] = k, k = 0..n-1` of fdr()
   equals the position function used in the model (inverse_order), for every
   permutation `order` of 0..n-1. *)
From Coq Require Import List Bool Arith Lia QArith Permutation.
From NV.Lib Require Import SlotAlg.
From NV.C06 Require Import Model Proofs.
Import ListNotations.
Close Scope Q_scope.

Lemma upd_length l i v : length (upd l i v) = length l.
Proof. revert i; induction l as [|x r IH]; intros [|i]; simpl; auto. Qed.

Lemma upd_nth_same l i v d : i < length l -> nth i (upd l i v) d = v.
Proof.
  revert i; induction l as [|x r IH]; intros [|i] H; simpl in *; try lia; auto; try (apply IH; lia).
Qed.

Lemma upd_nth_other l i j v d : j <> i -> nth j (upd l i v) d = nth j l d.
Proof.
  revert i j; induction l as [|x r IH]; intros [|i] [|j] H; simpl; auto; try lia; try (apply IH; lia).
Qed.

Definition scatter_step (order : list nat) (inv : list nat) (k : nat) : list nat :=
  upd inv (nth k order 0) k.

Lemma scatter_prefix order n :
  Permutation order (seq 0 n) ->
  forall m, m <= n ->
  let s := fold_left (scatter_step order) (seq 0 m) (seq 0 n) in
  length s = n /\
  forall i, i < n -> nth i s 0 = if Nat.ltb (index_of i order) m then index_of i order else i.
Proof.
  intros P.
  assert (L : length order = n) by (rewrite (Permutation_length P); apply seq_length).
  assert (ND : NoDup order) by (eapply Permutation_NoDup; [apply Permutation_sym; exact P|apply seq_NoDup]).
  assert (Hall : forall i, i < n -> In i order).
  { intros i Hi. eapply Permutation_in; [apply Permutation_sym; exact P|]. apply in_seq. lia. }
  assert (Hrange : forall k, k < n -> nth k order 0 < n).
  { intros k Hk. assert (H : In (nth k order 0) (seq 0 n)).
    { eapply Permutation_in; [exact P|]. apply nth_In. lia. }
    apply in_seq in H. lia. }
  induction m as [|m IH]; intros Hm; cbv zeta.
  - simpl. split; [apply seq_length|]. intros i Hi. rewrite seq_nth by exact Hi. reflexivity.
  - rewrite seq_S, fold_left_app. simpl.
    destruct (IH ltac:(lia)) as [Ls Hs]. cbv zeta in Ls, Hs.
    set (s := fold_left (scatter_step order) (seq 0 m) (seq 0 n)) in *.
    split; [unfold scatter_step; rewrite upd_length; exact Ls|].
    intros i Hi.
    set (o := nth m order 0).
    assert (Ho : o < n) by (apply Hrange; lia).
    assert (Hio : index_of o order = m) by (apply index_of_nth; [exact ND|lia]).
    destruct (Nat.eq_dec i o) as [E|E].
    + subst i. unfold scatter_step. fold o. rewrite upd_nth_same by lia. rewrite Hio.
      assert (T : Nat.ltb m (S m) = true) by (apply Nat.ltb_lt; lia). now rewrite T.
    + unfold scatter_step. fold o. rewrite upd_nth_other by exact E. rewrite Hs by exact Hi.
      destruct (index_of_In i order (Hall i Hi)) as [H1 H2].
      assert (Hne : index_of i order <> m).
      { intro C. apply E. unfold o. rewrite <- C. symmetry. exact H2. }
      destruct (Nat.ltb_spec (index_of i order) m) as [A|A];
        destruct (Nat.ltb_spec (index_of i order) (S m)) as [B|B]; try reflexivity; lia.
Qed.

Lemma scatter_is_inverse_order order n :
  Permutation order (seq 0 n) -> scatter order = inverse_order order.
Proof.
  intros P.
  assert (L : length order = n) by (rewrite (Permutation_length P); apply seq_length).
  unfold scatter. rewrite L.
  destruct (scatter_prefix order n P n (le_n n)) as [Ls Hs]. cbv zeta in Ls, Hs.
  change (fun inv k => upd inv (nth k order 0) k) with (scatter_step order).
  apply nth_ext with (d := 0) (d' := 0).
  - rewrite Ls. unfold inverse_order. now rewrite map_length, seq_length.
  - intros i Hi. rewrite Ls in Hi. rewrite Hs by exact Hi.
    rewrite inverse_order_nth by lia.
    assert (Hin : In i order).
    { eapply Permutation_in; [apply Permutation_sym; exact P|]. apply in_seq. lia. }
    destruct (index_of_In i order Hin) as [H1 _].
    assert (T : Nat.ltb (index_of i order) n = true) by (apply Nat.ltb_lt; lia). now rewrite T.
Qed.

Lemma fdr_with_scatter_eq order p :
  Permutation order (seq 0 (length p)) -> fdr_with_scatter order p = fdr_with order p.
Proof.
  intros P. unfold fdr_with_scatter, fdr_with. now rewrite (scatter_is_inverse_order order (length p) P).
Qed.
