(* C06 - fixed effects: the accumulation loop of FMRILinearModel.contrast is the sum
   of ALL non-null session contrasts, for any number of sessions, and the fields of a
   sum of k contrasts are the k-fold sums of the fields. *)
From Coq Require Import List Bool Arith Lia QArith.
From NV.C06 Require Import Model.
Import ListNotations.
Open Scope Q_scope.

Lemma fixed_effects_from_some a sessions :
  fixed_effects_from (Some a) sessions = Some (c_sum a (non_null sessions)).
Proof.
  revert a; induction sessions as [|[c|] r IH]; intros a; simpl.
  - reflexivity.
  - rewrite IH. reflexivity.
  - apply IH.
Qed.

Lemma fixed_effects_is_sum sessions :
  fixed_effects sessions =
  match non_null sessions with [] => None | c :: r => Some (c_sum c r) end.
Proof.
  unfold fixed_effects. induction sessions as [|[c|] r IH]; simpl.
  - reflexivity.
  - apply fixed_effects_from_some.
  - exact IH.
Qed.

Lemma c_sum_eff c r : c_eff (c_sum c r) = fold_left vaddq (map c_eff r) (c_eff c).
Proof. unfold c_sum. revert c; induction r as [|x r IH]; intros c; simpl; [reflexivity|]. now rewrite IH. Qed.
Lemma c_sum_var c r : c_var (c_sum c r) = fold_left maddq (map c_var r) (c_var c).
Proof. unfold c_sum. revert c; induction r as [|x r IH]; intros c; simpl; [reflexivity|]. now rewrite IH. Qed.
Lemma c_sum_dof c r : c_dof (c_sum c r) = fold_left Qplus (map c_dof r) (c_dof c).
Proof. unfold c_sum. revert c; induction r as [|x r IH]; intros c; simpl; [reflexivity|]. now rewrite IH. Qed.

(* one row, one voxel: the sum of k contrasts has effect sum e_i, variance sum v_i, dof sum d_i *)
Definition c1 (evd : Q * Q * Q) : contrast := mkC [fst (fst evd)] [[snd (fst evd)]] (snd evd).
Lemma c_sum_scalar x r :
  c_sum (c1 x) (map c1 r) =
  mkC [fold_left Qplus (map (fun y => fst (fst y)) r) (fst (fst x))]
      [[fold_left Qplus (map (fun y => snd (fst y)) r) (snd (fst x))]]
      (fold_left Qplus (map snd r) (snd x)).
Proof.
  unfold c_sum. revert x; induction r as [|y r IH]; intros x; simpl; [destruct x as [[e v] d]; reflexivity|].
  change (c_add (c1 x) (c1 y)) with (c1 (fst (fst x) + fst (fst y), snd (fst x) + snd (fst y), snd x + snd y)).
  rewrite IH. reflexivity.
Qed.

(* every summand counts: the sum of k contrasts differs from `first + last`
   (the shape of the accumulation bug) as soon as a middle summand is not null *)
Lemma c_sum_three_not_first_plus_last :
  c_dof (c_sum (c1 (1, 1, 1)) [c1 (1, 1, 1); c1 (1, 1, 1)]) == 3 /\
  ~ c_dof (c_add (c1 (1, 1, 1)) (c1 (1, 1, 1))) == 3.
Proof. split; vm_compute; [reflexivity|discriminate]. Qed.
