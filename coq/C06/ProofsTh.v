(* C06 - fdr_threshold: the returned value is the largest sorted p-value lying
   strictly below its step-up line alpha*(k+1)/n, or alpha/n when there is none. *)
From Coq Require Import List Bool Arith Lia QArith Qminmax Lqa.
From NV.C06 Require Import Model.
Import ListNotations.
Open Scope Q_scope.

(* x is critical at 0-based rank k: sp_values[k] < p_corr * (k+1) *)
Definition critical (pc : Q) (sp : list Q) (k : nat) : Prop :=
  (k < length sp)%nat /\ nth k sp 0 < pc * qnat (S k).

Lemma critical_from_in pc s sp x :
  In x (critical_from pc s sp) <-> exists j, (j < length sp)%nat /\ x = nth j sp 0 /\ x < pc * qnat (S (s + j)).
Proof.
  revert s; induction sp as [|y r IH]; intros s; simpl.
  - split; [tauto|]. intros [j [H _]]. lia.
  - destruct (Qle_bool (pc * qnat (S s)) y) eqn:E.
    + rewrite IH. split.
      * intros [j [H1 [H2 H3]]]. exists (S j). split; [lia|]. split; [exact H2|].
        replace (s + S j)%nat with (S s + j)%nat by lia. exact H3.
      * intros [[|j] [H1 [H2 H3]]].
        -- exfalso. subst x. rewrite Nat.add_0_r in H3. apply Qle_bool_iff in E.
           apply (Qlt_irrefl y). eapply Qlt_le_trans; eassumption.
        -- exists j. split; [lia|]. split; [exact H2|].
           replace (S s + j)%nat with (s + S j)%nat by lia. exact H3.
    + simpl. rewrite IH. split.
      * intros [<-|[j [H1 [H2 H3]]]].
        -- exists 0%nat. split; [lia|]. split; [reflexivity|]. rewrite Nat.add_0_r.
           apply Qnot_le_lt. intro H. apply Qle_bool_iff in H. congruence.
        -- exists (S j). split; [lia|]. split; [exact H2|].
           replace (s + S j)%nat with (S s + j)%nat by lia. exact H3.
      * intros [[|j] [H1 [H2 H3]]]; [left; symmetry; exact H2|].
        right. exists j. split; [lia|]. split; [exact H2|].
        replace (S s + j)%nat with (s + S j)%nat by lia. exact H3.
Qed.

Lemma qmax_cases x y : Qmax x y = x \/ Qmax x y = y.
Proof. unfold Qmax, GenericMinMax.gmax. destruct (x ?= y); auto. Qed.

Lemma qmax_list_spec d l :
  (qmax_list d l = d \/ In (qmax_list d l) l) /\ d <= qmax_list d l /\
  forall x, In x l -> x <= qmax_list d l.
Proof.
  revert d; induction l as [|y l IH]; intros d; simpl.
  - split; [left; reflexivity|]. split; [apply Qle_refl|tauto].
  - destruct (IH (Qmax d y)) as [H1 [H2 H3]]. split; [|split].
    + destruct H1 as [H1|H1]; [|right; right; exact H1].
      rewrite H1. destruct (qmax_cases d y) as [E|E]; rewrite E; [left; reflexivity|right; left; reflexivity].
    + eapply Qle_trans; [apply Q.le_max_l|exact H2].
    + intros x [<-|Hx]; [eapply Qle_trans; [apply Q.le_max_r|exact H2]|apply H3; exact Hx].
Qed.

Lemma fdr_threshold_with_spec order p alpha :
  let sp := gather p order in
  let pc := alpha / qnat (length p) in
  let T := fdr_threshold_with order p alpha in
  ((forall k, ~ critical pc sp k) -> T = pc) /\
  ((exists k, critical pc sp k) ->
     (exists k, critical pc sp k /\ T = nth k sp 0) /\
     (forall k, critical pc sp k -> nth k sp 0 <= T)).
Proof.
  cbv zeta. unfold fdr_threshold_with.
  set (sp := gather p order). set (pc := alpha / qnat (length p)).
  assert (IN := fun x => critical_from_in pc 0 sp x).
  destruct (critical_from pc 0 sp) as [|x r] eqn:E.
  - split; [reflexivity|]. intros [k [H1 H2]]. exfalso.
    apply (proj2 (IN (nth k sp 0))). exists k. split; [exact H1|]. split; [reflexivity|exact H2].
  - split.
    + intros Hno. exfalso. destruct (proj1 (IN x) (or_introl eq_refl)) as [j [H1 [H2 H3]]].
      apply (Hno j). split; [exact H1|]. rewrite <- H2. exact H3.
    + intros _. destruct (qmax_list_spec x r) as [H1 [H2 H3]]. split.
      * assert (Hin : In (qmax_list x r) (x :: r)) by (destruct H1 as [-> | H1]; [left; reflexivity|right; exact H1]).
        destruct (proj1 (IN _) Hin) as [j [J1 [J2 J3]]]. exists j. split; [|exact J2].
        split; [exact J1|]. rewrite <- J2. exact J3.
      * intros k [K1 K2].
        assert (Hin : In (nth k sp 0) (x :: r)).
        { apply (proj2 (IN _)). exists k. split; [exact K1|]. split; [reflexivity|exact K2]. }
        destruct Hin as [<-|Hin]; [exact H2|apply H3; exact Hin].
Qed.
