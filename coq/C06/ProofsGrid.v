(* C06 - proofs about the stride trick of the 'tmin' branch (ModelGrid.v): it reads exactly the
   diagonal of the (dim, dim) leading block, at the same voxel, for every dim and every voxel
   array.  No axioms. *)
From Coq Require Import List Arith Lia.
From NV.C06 Require Import Model ModelGrid.
Import ListNotations.

Lemma nth_nil_d : forall A n (d : A), nth n [] d = d.
Proof. intros A n d. destruct n; reflexivity. Qed.

Lemma nth_map_seq_gen : forall A (f : nat -> A) n j d, j < n -> nth j (map f (seq 0 n)) d = f j.
Proof.
  intros A f n j d H.
  rewrite nth_indep with (d' := f 0) by (now rewrite map_length, seq_length).
  rewrite map_nth, seq_nth by exact H. reflexivity.
Qed.

(* element j of l[k :: s] is l[k + j*s] *)
Lemma stride_nth : forall A (d : A) p l k j,
  nth j (stride_from (S p) k l) d = nth (k + j * S p) l d.
Proof.
  intros A d p l. induction l as [|x r IH]; intros k j.
  - cbn [stride_from]. now rewrite !nth_nil_d.
  - cbn [stride_from]. destruct k as [|k'].
    + destruct j as [|j'].
      * reflexivity.
      * cbn [Nat.pred]. change (nth (S j') (x :: stride_from (S p) p r) d) with (nth j' (stride_from (S p) p r) d).
        rewrite IH. replace (0 + S j' * S p) with (S (p + j' * S p)) by lia. reflexivity.
    + rewrite IH. replace (S k' + j * S p) with (S (k' + j * S p)) by lia. reflexivity.
Qed.

Lemma stride_len : forall A p (l : list A) k j,
  j < length (stride_from (S p) k l) <-> k + j * S p < length l.
Proof.
  intros A p l. induction l as [|x r IH]; intros k j.
  - cbn [stride_from length]. lia.
  - cbn [stride_from]. destruct k as [|k'].
    + cbn [length Nat.pred]. destruct j as [|j'].
      * lia.
      * specialize (IH p j'). lia.
    + cbn [length]. specialize (IH k' j). lia.
Qed.

Lemma stride_map : forall A B (f : A -> B) s l k,
  map f (stride_from s k l) = stride_from s k (map f l).
Proof.
  intros A B f s l. induction l as [|x r IH]; intros k.
  - reflexivity.
  - cbn [stride_from map]. destruct k as [|k'].
    + cbn [map]. now rewrite IH.
    + apply IH.
Qed.

Lemma concat_uniform_length : forall A n (M : list (list A)),
  (forall r, In r M -> length r = n) -> length (concat M) = length M * n.
Proof.
  intros A n M. induction M as [|r M IH]; intros H.
  - reflexivity.
  - cbn [concat length]. rewrite app_length, IH by (intros r' Hr; apply H; now right).
    rewrite (H r) by now left. lia.
Qed.

Lemma concat_uniform_nth : forall A (d : A) n (M : list (list A)),
  (forall r, In r M -> length r = n) ->
  forall i j, j < n -> nth (i * n + j) (concat M) d = nth j (nth i M []) d.
Proof.
  intros A d n M. induction M as [|r M IH]; intros H i j Hj.
  - cbn [concat]. now rewrite !nth_nil_d.
  - assert (Hr : length r = n) by (apply H; now left).
    cbn [concat]. destruct i as [|i'].
    + cbn [nth]. rewrite app_nth1 by lia. reflexivity.
    + cbn [nth]. rewrite app_nth2 by lia.
      replace (S i' * n + j - length r) with (i' * n + j) by lia.
      apply IH; [intros r' Hr'; apply H; now right|exact Hj].
Qed.

(* (G1) the stride trick reads the diagonal: for every dim x dim array of blocks *)
Lemma vdiag_blocks_is_diag : forall A (d : A) dim (V : list (list A)),
  length V = dim -> (forall r, In r V -> length r = dim) ->
  vdiag_blocks dim V = diag_spec d dim V.
Proof.
  intros A d dim V HV Hrows. unfold vdiag_blocks, diag_spec.
  assert (HL : length (concat V) = dim * dim) by (rewrite (concat_uniform_length A dim V Hrows), HV; reflexivity).
  assert (Hlen : length (stride_from (S dim) 0 (concat V)) = dim).
  { pose proof (stride_len A dim (concat V) 0) as S0. rewrite HL in S0.
    set (L := length (stride_from (S dim) 0 (concat V))) in *.
    destruct (lt_eq_lt_dec L dim) as [[Hlt|Heq]|Hgt].
    - exfalso. pose proof (S0 L) as [_ B]. assert (0 + L * S dim < dim * dim) by nia. apply B in H. lia.
    - exact Heq.
    - exfalso. pose proof (S0 dim) as [B _]. apply B in Hgt. nia. }
  apply nth_ext with (d := d) (d' := d).
  - now rewrite Hlen, map_length, seq_length.
  - intros i Hi. rewrite Hlen in Hi. rewrite stride_nth, nth_map_seq_gen by exact Hi.
    replace (0 + i * S dim) with (i * dim + i) by lia.
    apply concat_uniform_nth; assumption.
Qed.

(* (G2) selecting a voxel commutes with the stride trick: no voxel is moved *)
Lemma vdiag_voxel_slice : forall F (d : F) v dim (V : list (list (list F))),
  vdiag dim (voxel_slice d v V) = voxel_col d v (vdiag_blocks dim V).
Proof.
  intros F d v dim V. unfold vdiag, voxel_slice, voxel_col, vdiag_blocks.
  rewrite stride_map, concat_map. reflexivity.
Qed.

(* (G3) the grid statistic is, voxel by voxel, the one-voxel conjunction statistic *)
Lemma tmin_grid_voxelwise : forall F (Op : ops F) (d : F) E V b tiny nvox v,
  v < nvox ->
  nth v (g_tmin_grid Op d E V b tiny nvox) None =
  g_tmin Op (voxel_col d v E) (voxel_slice d v V) b tiny.
Proof.
  intros F Op d E V b tiny nvox v Hv. unfold g_tmin_grid, g_tmin.
  rewrite nth_map_seq_gen by exact Hv.
  replace (length (voxel_col d v E)) with (length E) by (unfold voxel_col; now rewrite map_length).
  rewrite vdiag_voxel_slice. reflexivity.
Qed.

(* with (G1): the variance used for row i at voxel v is variance[i, i, v] *)
Lemma vdiag_voxel_entry : forall F (d : F) v dim (V : list (list (list F))),
  length V = dim -> (forall r, In r V -> length r = dim) ->
  forall i, i < dim ->
  nth i (vdiag dim (voxel_slice d v V)) d = nth v (nth i (nth i V []) []) d.
Proof.
  intros F d v dim V HV Hrows i Hi.
  rewrite vdiag_voxel_slice, (vdiag_blocks_is_diag _ [] dim V HV Hrows).
  unfold voxel_col, diag_spec. rewrite map_map, nth_map_seq_gen by exact Hi. reflexivity.
Qed.
