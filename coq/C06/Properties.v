(* C06 - property theorems only (each closed by a short script over lemmas of
   Proofs*.v), `Print Assumptions` after each. *)
From Coq Require Import List Bool Arith Lia QArith Qminmax Sorting Permutation.
From NV.Lib Require Import SlotAlg.
From NV.C06 Require Import Model Proofs.
Import ListNotations.
Open Scope Q_scope.

(* ================================================================== FDR *)
(* (F1) fdr() returns, for EVERY p-vector accepted by check_p_values and at
   every position i, the Benjamini-Hochberg step-up value
       q_i = min { min(1, n * v / #{j : p_j <= v}) : v in p, v >= p_i }
   (is_bh states: lower bound of that set, and attained in it).  The spec
   mentions no sorting, no cumulative minimum, no inverse permutation. *)
Theorem fdr_is_BH :
  forall p out, fdr p = Some out ->
  length out = length p /\
  forall i, (i < length p)%nat -> is_bh p (nth i p 0) (nth i out 0).
Proof.
  intros p out H. unfold fdr in H. destruct (check_p p) eqn:C; [|discriminate].
  injection H as <-. destruct (check_p_nonneg p C) as [NN _].
  assert (S := argsort_q_sorts p). split.
  - rewrite fdr_with_length. destruct S as [P _]. rewrite (Permutation_length P). apply seq_length.
  - intros i Hi. apply fdr_with_is_bh; assumption.
Qed.
Print Assumptions fdr_is_BH.

(* (F2) numpy's argsort is not stable: ANY permutation that sorts p gives the
   same output, so the model's choice of sorting algorithm is immaterial. *)
Theorem fdr_order_independent :
  forall p order1 order2, nonneg p -> sorts order1 p -> sorts order2 p ->
  forall i, (i < length p)%nat ->
  nth i (fdr_with order1 p) 0 == nth i (fdr_with order2 p) 0.
Proof.
  intros p o1 o2 NN S1 S2 i Hi.
  apply (is_bh_unique p (nth i p 0)); apply fdr_with_is_bh; assumption.
Qed.
Print Assumptions fdr_order_independent.

(* (F3) values lie in [0,1] and are never below the p-value *)
Theorem fdr_in_unit_interval :
  forall p out, fdr p = Some out ->
  forall i, (i < length p)%nat -> 0 <= nth i out 0 <= 1 /\ nth i p 0 <= nth i out 0.
Proof.
  intros p out H i Hi. destruct (fdr_is_BH p out H) as [_ B]. specialize (B i Hi).
  unfold fdr in H. destruct (check_p p) eqn:C; [|discriminate].
  destruct (check_p_nonneg p C) as [NN [L1 _]]. split.
  - eapply is_bh_unit; eassumption.
  - eapply is_bh_ge_p; eassumption.
Qed.
Print Assumptions fdr_in_unit_interval.

(* (F4) monotone: a smaller p-value never gets a larger FDR value (ties get equal values) *)
Theorem fdr_monotone :
  forall p out, fdr p = Some out ->
  forall i j, (i < length p)%nat -> (j < length p)%nat ->
  nth i p 0 <= nth j p 0 -> nth i out 0 <= nth j out 0.
Proof.
  intros p out H i j Hi Hj Hij. destruct (fdr_is_BH p out H) as [_ B].
  eapply is_bh_mono; [exact Hij|apply B; exact Hi|apply B; exact Hj].
Qed.
Print Assumptions fdr_monotone.

(* (F5) permutation equivariance: rearranging the input rearranges the output
   the same way (the FDR value travels with the p-value) *)
Theorem fdr_perm_equivariant :
  forall p p' out out', Permutation p p' -> fdr p = Some out -> fdr p' = Some out' ->
  forall i k, (i < length p)%nat -> (k < length p')%nat ->
  nth i p 0 == nth k p' 0 -> nth i out 0 == nth k out' 0.
Proof.
  intros p p' out out' P H H' i k Hi Hk E.
  destruct (fdr_is_BH p out H) as [_ B]. destruct (fdr_is_BH p' out' H') as [_ B'].
  apply (is_bh_unique p' (nth k p' 0)); [|apply B'; exact Hk].
  eapply is_bh_perm; [exact P|exact E|apply B; exact Hi].
Qed.
Print Assumptions fdr_perm_equivariant.

(* (F6) input validation: a result is produced exactly for non-empty vectors inside [0,1] *)
Theorem fdr_defined_iff :
  forall p, (exists out, fdr p = Some out) <-> (p <> [] /\ forall v, In v p -> 0 <= v <= 1).
Proof.
  intros p. unfold fdr. split.
  - intros [out H]. destruct (check_p p) eqn:C; [|discriminate].
    destruct (check_p_nonneg p C) as [NN [L1 NE]]. split; [exact NE|]. intros v Hv. split; auto.
  - intros [NE H]. assert (C : check_p p = true).
    { unfold check_p. destruct p as [|x p]; [congruence|]. apply forallb_forall. intros v Hv.
      unfold in_unit. destruct (H v Hv) as [H0 H1]. apply andb_true_iff. split; apply Qle_bool_iff; assumption. }
    rewrite C. eexists. reflexivity.
Qed.
Print Assumptions fdr_defined_iff.

(* non-vacuity: a vector with ties, a zero and a one *)
Example fdr_example :
  option_map (map Qred) (fdr [1#2; 1#2; 0; 1; 1#4]) = Some [5#8; 5#8; 0; 1; 5#8].
Proof. vm_compute. reflexivity. Qed.
Print Assumptions fdr_example.

(* ================================================================== contrasts *)
From Coq Require Import Reals Lra Qreals String.
From NV.Lib Require Import RingMat.
From NV.Generated Require Import ZClip.
From NV.C06 Require Import ModelR ProofsR Quad.
Open Scope R_scope.

(* (C1) the t statistic is the effect (minus the baseline) over its standard
   error: t * sd = effect - baseline with sd = sqrt(max(variance, tiny)) > 0, and
   sd is the square root of the variance whenever variance >= tiny. *)
Theorem t_is_effect_over_sd :
  forall e b v tiny, 0 < tiny ->
  0 < sqrt (Rmax v tiny) /\ tstat e b v tiny * sqrt (Rmax v tiny) = e - b /\
  (tiny <= v -> tstat e b v tiny = (e - b) / sqrt v /\ sqrt v * sqrt v = v).
Proof.
  intros e b v tiny H. split; [apply sd_pos; exact H|]. split; [apply t_times_sd; exact H|].
  apply ProofsR.t_is_effect_over_sd. exact H.
Qed.
Print Assumptions t_is_effect_over_sd.

(* (C2) a one-row F contrast is the square of the t statistic; in closed form effect^2/variance *)
Theorem F_one_row_is_t_squared :
  forall e b v tiny,
  f1stat e b v tiny = tstat e b v tiny * tstat e b v tiny /\
  (0 < tiny -> tiny <= v -> f1stat e b v tiny = (e - b) * (e - b) / v).
Proof.
  intros e b v tiny. split; [apply f1_is_t_squared|apply f1_closed_form].
Qed.
Print Assumptions F_one_row_is_t_squared.

(* (C2') the same identity for LikelihoodModelResults.Tcontrast/Fcontrast: with
   v = c cov c' > 0, dispersion > 0 and invv any inverse of v (inv is an oracle),
   Fcontrast's F (q = 1) equals Tcontrast's t squared, and t = effect / sd. *)
Theorem results_F_one_row_is_T_squared :
  forall ctheta v invv disp, 0 < v -> 0 < disp -> invv * v = 1 ->
  Tres ctheta v disp = ctheta / sqrt (v * disp) /\
  F1res ctheta invv disp = Tres ctheta v disp * Tres ctheta v disp.
Proof.
  intros ctheta v invv disp Hv Hd Hi. split;
    [apply Tres_is_effect_over_sd; assumption|apply F1res_is_T_squared; assumption].
Qed.
Print Assumptions results_F_one_row_is_T_squared.

(* (C3) F is unchanged by an invertible recombination of the contrast rows:
   over ANY commutative ring, for effect e and covariance V (q x q), an
   invertible M with transpose Mt, and ANY two-sided inverses W of V and W' of
   M V Mt (the LAPACK inverse is an oracle), the quadratic forms agree:
   (M e)' W' (M e) = e' W e.  F = quad / q with the same q on both sides. *)
Theorem F_rowspace_invariant :
  forall (K : Type) (r0 r1 : K) (radd rmul rsub : K -> K -> K) (ropp : K -> K),
  ring_theory r0 r1 radd rmul rsub ropp (@eq K) ->
  forall q (M N Mt V W V' W' : list (list K)) (e : list K),
  List.length e = q ->
  List.length M = q -> rows_len q M -> List.length N = q -> rows_len q N ->
  List.length V = q -> rows_len q V -> List.length W = q -> rows_len q Mt ->
  inv_on K r0 radd rmul q M N -> inv_on K r0 radd rmul q V W ->
  transpose_of K r0 radd rmul q M Mt ->
  V' = mm r0 radd rmul q (mm r0 radd rmul q M V) Mt ->
  inv_on K r0 radd rmul q V' W' ->
  quad K r0 radd rmul W' (mv r0 radd rmul M e) = quad K r0 radd rmul W e.
Proof. exact quad_recombine. Qed.
Print Assumptions F_rowspace_invariant.

Theorem F_independent_of_inverse_oracle :
  forall (K : Type) (r0 r1 : K) (radd rmul rsub : K -> K -> K) (ropp : K -> K),
  ring_theory r0 r1 radd rmul rsub ropp (@eq K) ->
  forall q (V W1 W2 : list (list K)) (e : list K),
  List.length e = q -> List.length W2 = q ->
  inv_on K r0 radd rmul q V W1 -> inv_on K r0 radd rmul q V W2 ->
  quad K r0 radd rmul W1 e = quad K r0 radd rmul W2 e.
Proof. intros K r0 r1 radd rmul rsub ropp _. apply quad_inverse_unique. Qed.
Print Assumptions F_independent_of_inverse_oracle.

(* (C4) adding contrasts adds effects, variances and degrees of freedom *)
Theorem contrast_add_fields :
  forall e1 e2 v1 v2 d1 d2,
  c_add (mkC [e1] [[v1]] d1) (mkC [e2] [[v2]] d2) = mkC [(e1 + e2)%Q] [[(v1 + v2)%Q]] (d1 + d2)%Q /\
  forall a b, c_dof (c_add a b) = (c_dof a + c_dof b)%Q /\
              List.length (c_eff (c_add a b)) = Nat.min (List.length (c_eff a)) (List.length (c_eff b)).
Proof.
  intros. split; [reflexivity|]. intros a b. split; [reflexivity|].
  unfold c_add. simpl. generalize (c_eff a) (c_eff b).
  induction l as [|x l IH]; intros [|y l']; simpl; try reflexivity. now rewrite IH.
Qed.
Print Assumptions contrast_add_fields.

(* (C5) scaling a contrast by k > 0 (effect*k, variance*k^2, baseline 0) leaves t
   unchanged provided the `tiny` floor is inactive before and after... *)
Theorem contrast_scale_invariant :
  forall e v tiny k, 0 < k -> 0 < tiny -> tiny <= v -> tiny <= v * (k * k) ->
  tstat (e * k) 0 (v * (k * k)) tiny = tstat e 0 v tiny.
Proof. exact t_scale_invariant. Qed.
Print Assumptions contrast_scale_invariant.

(* ... and the clause "scaling by a positive factor leaves t unchanged" of the
   property statement is FALSE as quantified (zero variance included): below the
   floor the statistic scales with k.  Finding scale/variance-below-tiny. *)
Theorem contrast_scale_invariant_refuted :
  exists e v tiny k, 0 < k /\ 0 < tiny /\ 0 <= v /\
  tstat (e * k) 0 (v * (k * k)) tiny <> tstat e 0 v tiny.
Proof.
  exists 1, 0, 1, 2. repeat split; try lra. exact t_scale_floor_counterexample.
Qed.
Print Assumptions contrast_scale_invariant_refuted.

(* (C6) tmin-conjunction is the minimum of the per-row t statistics *)
Theorem tmin_is_min_of_t :
  forall es V b tiny s, tmin es V b tiny = Some s ->
  let ts := g_tstats Rops es (vdiag (List.length es) V) b tiny in
  In s ts /\ forall t, In t ts -> s <= t.
Proof. exact tmin_is_min. Qed.
Print Assumptions tmin_is_min_of_t.

(* (C7) the clipping constants translated from utils.py lie strictly inside
   (0,1), the finite domain of the normal quantile, and the default floors are positive *)
Theorem clip_constants_inside_unit_interval :
  (0 < z_lo)%Q /\ (z_lo <= z_hi)%Q /\ (z_hi < 1)%Q /\ z_quantile_fn = ("norm", "isf")%string /\
  (0 < fmri_def_tiny)%Q /\ (0 < labs_def_tiny)%Q /\ fmri_def_dofmax = labs_def_dofmax /\ fmri_def_tiny = labs_def_tiny.
Proof.
  repeat split; try (apply Qlt_alt; vm_compute; reflexivity);
    try (apply Qle_bool_iff; vm_compute; reflexivity); vm_compute; reflexivity.
Qed.
Print Assumptions clip_constants_inside_unit_interval.

(* (C8) both implementations take upper tails: Student sf for t / tmin, Fisher sf for F *)
Theorem pvalue_tails_are_survival_functions :
  fmri_pvalue_calls = [("t", "sf", 2%nat); ("f", "sf", 3%nat)]%string /\
  labs_pvalue_calls = [("t", "sf", 2%nat); ("f", "sf", 3%nat)]%string.
Proof. vm_compute. split; reflexivity. Qed.
Print Assumptions pvalue_tails_are_survival_functions.

(* (C9) p in [0,1]; z finite and non-decreasing in the statistic for EVERY
   statistic, through the actual clipping constants, for any tail functions
   satisfying the stated oracle contracts; NaN statistic -> p = 1/2, z = 0. *)
Theorem z_score_finite_and_monotone :
  forall (sf : R -> R) (isf : R -> xreal),
  (forall x, 0 <= sf x <= 1) -> (forall x y, x <= y -> sf y <= sf x) ->
  (forall p, 0 < p < 1 -> exists z, isf p = Fin z) ->
  (forall p q zp zq, 0 < p -> p <= q -> q < 1 -> isf p = Fin zp -> isf q = Fin zq -> zq <= zp) ->
  let lo := Q2R z_lo in let hi := Q2R z_hi in
  (forall stat, 0 <= p_value sf stat <= 1) /\
  (forall stat, exists z, z_score sf isf lo hi stat = Fin z) /\
  (forall s1 s2, s1 <= s2 -> exists z1 z2,
      z_score sf isf lo hi (Some s1) = Fin z1 /\ z_score sf isf lo hi (Some s2) = Fin z2 /\ z1 <= z2) /\
  (forall s, lo <= sf s <= hi -> z_score sf isf lo hi (Some s) = isf (p_value sf (Some s))) /\
  p_value sf None = 1 / 2 /\ z_score sf isf lo hi None = Fin 0.
Proof.
  intros sf isf H1 H2 H3 H4 lo hi.
  destruct clip_constants_inside_unit_interval as [A [B [C _]]].
  assert (A' : 0 < lo) by (unfold lo; replace 0 with (Q2R 0) by (unfold Q2R; simpl; lra); apply Qlt_Rlt; exact A).
  assert (B' : lo <= hi) by (unfold lo, hi; apply Qle_Rle; exact B).
  assert (C' : hi < 1) by (unfold hi; replace 1 with (Q2R 1) by (unfold Q2R; simpl; lra); apply Qlt_Rlt; exact C).
  split; [intros stat; apply p_value_unit; exact H1|].
  split; [intros stat; apply z_finite; assumption|].
  split; [intros s1 s2 H; apply z_monotone; assumption|].
  split; [intros s H; apply z_is_quantile_of_p; exact H|].
  split; reflexivity.
Qed.
Print Assumptions z_score_finite_and_monotone.

(* the oracle contracts of (C9) are satisfiable *)
Example tail_contracts_satisfiable :
  exists (sf : R -> R) (isf : R -> xreal),
  (forall x, 0 <= sf x <= 1) /\ (forall x y, x <= y -> sf y <= sf x) /\
  (forall p, 0 < p < 1 -> exists z, isf p = Fin z) /\
  (forall p q zp zq, 0 < p -> p <= q -> q < 1 -> isf p = Fin zp -> isf q = Fin zq -> zq <= zp).
Proof. exists toy_sf, toy_isf. exact toy_contracts. Qed.
Print Assumptions tail_contracts_satisfiable.

(* (C10) labs.glm.contrast agrees with fmri.glm.Contrast on multi-row F contrasts
   (after /repo 552d8de removed the element-wise floor on the covariance matrix;
   finding F/labs-negative-covariance, fixed).  labs computes the quadratic form
   through a Cholesky factorisation (fff_mahalanobis: dpotrf, dtrsv, sum of
   squares), fmri through the LAPACK inverse.  Over ANY commutative ring: if
   S = L L^t, L y = d, L nonsingular, and W is ANY two-sided inverse of S, then
   sum y_i^2 = d' W d; hence labs F = fmri F = e' V^-1 e / q (same division by q). *)
From NV.C06 Require Import Exec.
Theorem labs_F_is_mahalanobis_over_q :
  forall (K : Type) (r0 r1 : K) (radd rmul rsub : K -> K -> K) (ropp : K -> K),
  ring_theory r0 r1 radd rmul rsub ropp (@eq K) ->
  forall (divq : K -> K) q (V W L Lt : list (list K)) (d y : list K),
  List.length d = q -> List.length y = q -> List.length W = q -> List.length Lt = q ->
  rows_len q L ->
  inv_on K r0 radd rmul q V W ->
  transpose_of K r0 radd rmul q L Lt ->
  (forall z, List.length z = q -> mv r0 radd rmul V z = mv r0 radd rmul L (mv r0 radd rmul Lt z)) ->
  (forall a b, List.length a = q -> List.length b = q -> mv r0 radd rmul L a = mv r0 radd rmul L b -> a = b) ->
  mv r0 radd rmul L y = d ->
  dot r0 radd rmul y y = quad K r0 radd rmul W d /\
  labs_F K r0 radd rmul divq y = fmri_F K r0 radd rmul divq W d.
Proof.
  intros K r0 r1 radd rmul rsub ropp Rth divq q V W L Lt d y H1 H2 H3 H4 H5 H6 H7 H8 H9 H10. split.
  - eapply chol_quad_is_quad; eassumption.
  - eapply labs_F_is_fmri_F; eassumption.
Qed.
Print Assumptions labs_F_is_mahalanobis_over_q.

(* the former failing input of the finding, on the executable Q instances: V has a
   negative covariance; both routes give 3/2 *)
Example labs_F_former_witness :
  let e := [1#1; 2#1]%Q in let V := [[2#1; -1#1]; [-1#1; 3#1]]%Q in
  let W := [[3#5; 1#5]; [1#5; 2#5]]%Q in
  (* V = L D L^t scaled to a rational Cholesky-like factor is not available (sqrt 2); use
     the inverse route for the value and the solved system of a perfect-square sibling for the Cholesky route *)
  is_inverse_q V W = true /\ Qred (fstat_q e 0 W) = (3#2)%Q /\
  let V2 := [[4#1; -2#1]; [-2#1; 10#1]]%Q in let L2 := [[2#1; 0]; [-1#1; 3#1]]%Q in
  let W2 := [[5#18; 1#18]; [1#18; 1#9]]%Q in let y2 := [1#2; 5#6]%Q in
  is_inverse_q V2 W2 = true /\ labs_solve_ok V2 L2 y2 e 0 = true /\
  Qeq_bool (labs_fstat_q y2) (fstat_q e 0 W2) = true.
Proof. vm_compute. repeat split; reflexivity. Qed.
Print Assumptions labs_F_former_witness.

(* ================================================================== fdr_threshold *)
From NV.C06 Require Import ProofsTh.
Open Scope Q_scope.
(* (F7) fdr_threshold returns alpha/n when no sorted p-value lies strictly below
   its step-up line alpha*(k+1)/n; otherwise it returns a critical p-value that
   is >= every critical p-value (the Benjamini-Hochberg rejection threshold). *)
Theorem fdr_threshold_spec :
  forall p alpha T, fdr_threshold p alpha = Some T ->
  let sp := gather p (argsort_q p) in
  let pc := alpha / qnat (List.length p) in
  sorts (argsort_q p) p /\
  ((forall k, ~ critical pc sp k) -> T = pc) /\
  ((exists k, critical pc sp k) ->
     (exists k, critical pc sp k /\ T = nth k sp 0) /\
     (forall k, critical pc sp k -> nth k sp 0 <= T)).
Proof.
  intros p alpha T H. unfold fdr_threshold in H. destruct (check_p p); [|discriminate].
  injection H as <-. cbv zeta. split; [apply argsort_q_sorts|].
  exact (fdr_threshold_with_spec (argsort_q p) p alpha).
Qed.
Print Assumptions fdr_threshold_spec.

(* (F8) fdr and fdr_threshold are mutually consistent: for alpha <= 1 and whenever
   some sorted p-value lies below its step-up line, the hypotheses rejected at FDR
   level alpha (fdr < alpha) are exactly those with p <= fdr_threshold(p, alpha). *)
From NV.C06 Require Import ProofsLk ProofsSc.
Close Scope R_scope.
Open Scope Q_scope.
Theorem fdr_below_alpha_iff_below_threshold :
  forall p alpha out T, fdr p = Some out -> fdr_threshold p alpha = Some T -> alpha <= 1 ->
  (exists k, critical (alpha / qnat (List.length p)) (gather p (argsort_q p)) k) ->
  forall i, (i < List.length p)%nat -> (nth i out 0 < alpha <-> nth i p 0 <= T).
Proof.
  intros p alpha out T H1 H2 Ha Hex i Hi. unfold fdr in H1. unfold fdr_threshold in H2.
  destruct (check_p p) eqn:C; [|discriminate]. injection H1 as <-. injection H2 as <-.
  destruct (check_p_nonneg p C) as [NN _].
  apply fdr_lt_alpha_iff; try assumption. apply argsort_q_sorts.
Qed.
Print Assumptions fdr_below_alpha_iff_below_threshold.

(* (F9) the reordering step as written in the source - the sequence of assignments
   inverse_order[order[k]] = k for k = 0..n-1 on arange(n) - is the position
   function used by the model, for every permutation `order`; so fdr computed with
   the literal scatter is the same function. *)
Theorem scatter_is_inverse_permutation :
  forall (order : list nat) (p : list Q), Permutation order (seq 0 (List.length p)) ->
  scatter order = inverse_order order /\ fdr_with_scatter order p = fdr_with order p.
Proof.
  intros order p P. split; [eapply scatter_is_inverse_order; exact P|apply fdr_with_scatter_eq; exact P].
Qed.
Print Assumptions scatter_is_inverse_permutation.

(* ================================================================== the cache of a Contrast object *)
From NV.C06 Require Import ProofsM.
(* (S1) as coded (fmri.glm.Contrast and labs.glm.contrast share this logic): for
   EVERY sequence of stat / p_value / z_score calls at arbitrary baselines mixed
   with scalar multiplications and additions, every stat() and every p_value()
   result is the value computed from the object's current contents at the
   requested baseline (run_pure). *)
Theorem contrast_cache_stat_and_p_always_pure :
  forall c ops, Forall2 stat_p_ok (run false (init_state c) ops) (run_pure c ops).
Proof. intros c ops. apply (run_stat_p_pure false ops (init_state c)). apply inv_st_init. Qed.
Print Assumptions contrast_cache_stat_and_p_always_pure.

(* (S2) as coded: if stat() is never called directly (only p_value / z_score / * / +),
   z_score() too is always the pure value. *)
Theorem contrast_cache_pure_without_direct_stat :
  forall c ops, no_direct_stat ops ->
  Forall2 obs_equiv (run false (init_state c) ops) (run_pure c ops).
Proof.
  intros c ops H. apply (run_all_pure false ops (or_intror H) (init_state c));
    [apply inv_st_init|apply inv_pv_init].
Qed.
Print Assumptions contrast_cache_pure_without_direct_stat.

(* (S3) the invalidation is necessary (former finding state/stale-baseline/*/z_score,
   fixed in /repo f45494e): in the machine WITHOUT it (flag false, the code before the
   fix), p_value(0); stat(1); z_score(1) returns the z-score of baseline 0. *)
Theorem contrast_cache_without_invalidation_counterexample :
  exists c ops, ~ Forall2 obs_equiv (run false (init_state c) ops) (run_pure c ops).
Proof.
  exists (CBase 0), [OPval 0; OStat 1; OZ 1]. simpl. intros H.
  inversion H as [|? ? ? ? _ H1]; subst. inversion H1 as [|? ? ? ? _ H2]; subst.
  inversion H2 as [|? ? ? ? H3 _]; subst. simpl in H3. destruct H3 as [[_ E] _]. simpl in E. discriminate.
Qed.
Print Assumptions contrast_cache_without_invalidation_counterexample.

(* (S4) the machine with the invalidation (stat() drops the cached p-value; /repo f45494e):
   every observable of every operation sequence is the pure value. *)
Theorem contrast_cache_fixed_all_pure :
  forall c ops, Forall2 obs_equiv (run true (init_state c) ops) (run_pure c ops).
Proof.
  intros c ops. apply (run_all_pure true ops (or_introl eq_refl) (init_state c));
    [apply inv_st_init|apply inv_pv_init].
Qed.
Print Assumptions contrast_cache_fixed_all_pure.

(* (S5) the CURRENT source: the flags `stat() contains self.p_value_ = None` /
   `self._pvalue = None` translated from nipy/modalities/fmri/glm.py and
   nipy/labs/glm/glm.py (harness/translate/zclip.py) are both true, and for the
   machine with these flags EVERY observable (stat, p_value, z_score) of EVERY
   operation sequence (calls at arbitrary baselines, k*c, c*k, c+d, repeated calls)
   is the value computed from the object's current contents at the requested
   baseline.  Removing either assignment from the source breaks this proof. *)
Theorem contrast_cache_current_source_all_pure :
  fmri_stat_drops_pvalue = true /\ labs_stat_drops_pvalue = true /\
  forall c ops,
  Forall2 obs_equiv (run fmri_stat_drops_pvalue (init_state c) ops) (run_pure c ops) /\
  Forall2 obs_equiv (run labs_stat_drops_pvalue (init_state c) ops) (run_pure c ops).
Proof.
  assert (E1 : fmri_stat_drops_pvalue = true) by (vm_compute; reflexivity).
  assert (E2 : labs_stat_drops_pvalue = true) by (vm_compute; reflexivity).
  split; [exact E1|]. split; [exact E2|]. intros c ops. rewrite E1, E2.
  split; apply contrast_cache_fixed_all_pure.
Qed.
Print Assumptions contrast_cache_current_source_all_pure.

(* ================================================================== Tcontrast / Fcontrast options *)
Close Scope Q_scope.
Open Scope R_scope.
(* (R1) for EVERY store subset and EVERY dispersion argument (None, or any caller value d):
   a stored t is effect * pos_recipr(sqrt(c cov c' * d_eff)) with d_eff the caller's
   dispersion when given and self.dispersion otherwise - in particular the same t
   whether or not 'sd' / 'effect' are stored, t * sd = effect whenever both are
   stored (v, d_eff > 0), and fields that are not requested are None. *)
Theorem Tcontrast_options :
  forall st_t st_e st_sd ctheta v dc ds,
  let m := g_Tcontrast Rops st_t st_e st_sd ctheta v dc ds in
  let d := eff_disp dc ds in
  (st_t = true -> r_t m = Some (Tres ctheta v d)) /\
  (st_t = true -> r_t m = r_t (g_Tcontrast Rops true true true ctheta v dc ds)) /\
  (st_e = true -> r_effect m = Some ctheta) /\
  (st_sd = true -> r_sd m = Some (sqrt (v * d))) /\
  (st_t = false -> r_t m = None) /\ (st_e = false -> r_effect m = None) /\ (st_sd = false -> r_sd m = None) /\
  (0 < v -> 0 < d -> Tres ctheta v d * sqrt (v * d) = ctheta) /\
  (dc = None -> d = ds) /\ (forall x, dc = Some x -> d = x).
Proof.
  intros st_t st_e st_sd ctheta v dc ds m d. unfold m, g_Tcontrast. fold d.
  repeat split; try (intros ->; reflexivity).
  - intros Hv Hd. rewrite Tres_is_effect_over_sd by assumption.
    assert (P : 0 < sqrt (v * d)) by (apply sqrt_lt_R0; nra). field. lra.
  - intros x ->. reflexivity.
Qed.
Print Assumptions Tcontrast_options.

(* (R2) Fcontrast with a caller dispersion / a caller invcov: one-row F = t^2 of the Tcontrast
   evaluated with the SAME dispersion argument, for any inverse invv of v *)
Theorem Fcontrast_options_one_row :
  forall ctheta v invv dc ds, 0 < v -> 0 < eff_disp dc ds -> invv * v = 1 ->
  g_Fcontrast1 Rops ctheta invv dc ds =
  Tres ctheta v (eff_disp dc ds) * Tres ctheta v (eff_disp dc ds).
Proof. intros. unfold g_Fcontrast1. apply F1res_is_T_squared; assumption. Qed.
Print Assumptions Fcontrast_options_one_row.

(* ================================================================== fixed effects: sums of any number of contrasts *)
From NV.C06 Require Import ProofsFx.
Close Scope R_scope.
Open Scope Q_scope.
(* (X1) for ANY number of sessions, with any subset of them null: the accumulation loop of
   FMRILinearModel.contrast returns the left-to-right sum of ALL non-null session contrasts
   (None when every session is null), and effect / variance / dof of a sum of k contrasts are
   the k-fold sums of the summands' effects / variances / dofs. *)
Theorem fixed_effects_is_sum_of_all_sessions :
  forall sessions,
  fixed_effects sessions = match non_null sessions with [] => None | c :: r => Some (c_sum c r) end /\
  forall c r,
  c_eff (c_sum c r) = fold_left vaddq (map c_eff r) (c_eff c) /\
  c_var (c_sum c r) = fold_left maddq (map c_var r) (c_var c) /\
  c_dof (c_sum c r) = fold_left Qplus (map c_dof r) (c_dof c).
Proof.
  intros sessions. split; [apply fixed_effects_is_sum|]. intros c r.
  split; [apply c_sum_eff|]. split; [apply c_sum_var|apply c_sum_dof].
Qed.
Print Assumptions fixed_effects_is_sum_of_all_sessions.

(* (X2) one row, one voxel: sum of k contrasts (e_i, v_i, d_i) = (sum e_i, sum v_i, sum d_i);
   non-vacuity: three unit summands have dof 3, `first + last` has not. *)
Theorem contrast_sum_scalar :
  (forall x r, c_sum (c1 x) (map c1 r) =
     mkC [fold_left Qplus (map (fun y => fst (fst y)) r) (fst (fst x))]
         [[fold_left Qplus (map (fun y => snd (fst y)) r) (snd (fst x))]]
         (fold_left Qplus (map snd r) (snd x))) /\
  c_dof (c_sum (c1 (1, 1, 1)) [c1 (1, 1, 1); c1 (1, 1, 1)]) == 3 /\
  ~ c_dof (c_add (c1 (1, 1, 1)) (c1 (1, 1, 1))) == 3.
Proof. split; [exact c_sum_scalar|exact c_sum_three_not_first_plus_last]. Qed.
Print Assumptions contrast_sum_scalar.

(* ================================================================== voxel grids *)
From NV.C06 Require Import ModelGrid ProofsGrid.

(* (G1) `variance.reshape([dim**2] + grid)[::dim+1]` IS the diagonal, for EVERY dim and every
   dim x dim array whose entries are numbers (one voxel) or whole voxel arrays (any grid shape):
   entry i of the strided selection is variance[i, i] - the formerly sampled-only
   `stride = diagonal` step of the tmin-conjunction statistic. *)
Theorem tmin_stride_trick_is_diagonal :
  forall (A : Type) (d : A) (dim : nat) (V : list (list A)),
  List.length V = dim -> (forall r, In r V -> List.length r = dim) ->
  vdiag_blocks dim V = diag_spec d dim V /\
  List.length (vdiag_blocks dim V) = dim /\
  forall i, (i < dim)%nat -> nth i (vdiag_blocks dim V) d = nth i (nth i V []) d.
Proof.
  intros A d dim V HV Hrows. pose proof (vdiag_blocks_is_diag A d dim V HV Hrows) as E.
  split; [exact E|]. rewrite E. unfold diag_spec. split.
  - now rewrite map_length, seq_length.
  - intros i Hi. now rewrite nth_map_seq_gen.
Qed.
Print Assumptions tmin_stride_trick_is_diagonal.

(* (G2) on a voxel array of ANY shape (v = C-order index of the voxel, nvox = number of voxels)
   the conjunction statistic computed on the whole array is, voxel by voxel, the one-voxel
   statistic g_tmin of effect[:, v] and variance[:, :, v], and the variance that divides row i
   at voxel v is variance[i, i, v]: no voxel is exchanged with another one (the grid shape does
   not enter).  Generic in the number type (holds at Q and at R). *)
Theorem tmin_grid_is_voxelwise :
  forall (F : Type) (Op : ops F) (d : F) E V b tiny nvox,
  (forall v, (v < nvox)%nat ->
     nth v (g_tmin_grid Op d E V b tiny nvox) None =
     g_tmin Op (voxel_col d v E) (voxel_slice d v V) b tiny) /\
  (forall v dim, List.length V = dim -> (forall r, In r V -> List.length r = dim) ->
     forall i, (i < dim)%nat ->
     nth i (vdiag dim (voxel_slice d v V)) d = nth v (nth i (nth i V []) []) d).
Proof.
  intros F Op d E V b tiny nvox. split.
  - intros v Hv. now apply tmin_grid_voxelwise.
  - intros v dim HV Hrows i Hi. now apply vdiag_voxel_entry.
Qed.
Print Assumptions tmin_grid_is_voxelwise.

(* (G3) selecting a voxel commutes with the stride trick (unconditional) *)
Theorem tmin_stride_commutes_with_voxel_selection :
  forall (F : Type) (d : F) v dim (V : list (list (list F))),
  vdiag dim (voxel_slice d v V) = voxel_col d v (vdiag_blocks dim V).
Proof. exact vdiag_voxel_slice. Qed.
Print Assumptions tmin_stride_commutes_with_voxel_selection.

(* non-vacuity: a 2 x 2 contrast on a 2 x 2 voxel grid (blocks = the four voxels in C order):
   the selected blocks are V[0][0] and V[1][1] with their voxels in place; taking the voxels of
   the transposed grid (what `np.diagonal(variance).T` does) is a different array. *)
Example tmin_grid_example :
  vdiag_blocks 2 [[[1; 2; 3; 4]; [0; 0; 0; 0]]; [[9; 9; 9; 9]; [5; 6; 7; 8]]]%nat
    = [[1; 2; 3; 4]; [5; 6; 7; 8]]%nat /\
  vdiag 2 (voxel_slice 0%nat 1 [[[1; 2; 3; 4]; [0; 0; 0; 0]]; [[9; 9; 9; 9]; [5; 6; 7; 8]]]%nat) = [2; 6]%nat /\
  vdiag_blocks 2 [[[1; 2; 3; 4]; [0; 0; 0; 0]]; [[9; 9; 9; 9]; [5; 6; 7; 8]]]%nat
    <> [[1; 3; 2; 4]; [5; 7; 6; 8]]%nat /\
  vdiag 3 [[1; 2; 3]; [4; 5; 6]; [7; 8; 9]]%nat = [1; 5; 9]%nat.
Proof. repeat split; try reflexivity. intros H; discriminate H. Qed.
