(* C06 - the F statistic's quadratic form e' V^{-1} e over an arbitrary
   commutative ring (RingMat): invariance under an invertible recombination
   of the contrast rows, e -> M e, V -> M V M'.  The inverse returned by
   LAPACK is an oracle: ANY two-sided inverse (by action) is allowed. *)
From Coq Require Import List Arith Lia Ring.
From NV.Lib Require Import RingMat.
Import ListNotations.

Section Quad.
  Variable R : Type.
  Variables (r0 r1 : R) (radd rmul rsub : R -> R -> R) (ropp : R -> R).
  Hypothesis Rth : ring_theory r0 r1 radd rmul rsub ropp (@eq R).
  Add Ring Rring2 : Rth.

  Local Notation dot := (dot r0 radd rmul).
  Local Notation mv := (mv r0 radd rmul).
  Local Notation vm := (vm r0 radd rmul).
  Local Notation mm := (mm r0 radd rmul).
  Local Notation unit_vec := (unit_vec r0 r1).

  Let dot_comm' := dot_comm R r0 r1 radd rmul rsub ropp Rth.
  Let dot_unit' := dot_unit R r0 r1 radd rmul rsub ropp Rth.
  Let dot_vm' := dot_vm R r0 r1 radd rmul rsub ropp Rth.
  Let mv_mm' := mv_mm R r0 r1 radd rmul rsub ropp Rth.
  Let vm_length' := vm_length R r0 radd rmul.

  (* multiple_mahalanobis for one sample: sum_ij e_i e_j W_ij with W = inv(V) *)
  Definition quad (W : list (list R)) (e : list R) : R := dot e (mv W e).

  (* W is a two-sided inverse of V on vectors of length q *)
  Definition inv_on (q : nat) (V W : list (list R)) : Prop :=
    forall x, length x = q -> mv V (mv W x) = x /\ mv W (mv V x) = x.

  (* Mt acts as the transpose of M (np.transpose): Mt x = x M *)
  Definition transpose_of (q : nat) (M Mt : list (list R)) : Prop :=
    forall x, length x = q -> mv Mt x = vm q x M.

  Lemma unit_vec_length n k : length (unit_vec n k) = n.
  Proof. unfold RingMat.unit_vec. now rewrite map_length, seq_length. Qed.

  Lemma vec_ext_dot n (a b : list R) :
    length a = n -> length b = n ->
    (forall x, length x = n -> dot a x = dot b x) -> a = b.
  Proof.
    intros La Lb H. apply nth_ext with (d := r0) (d' := r0); [congruence|].
    intros k Hk. rewrite La in Hk.
    rewrite <- (dot_unit' n k a Hk).
    rewrite <- (dot_unit' n k b Hk).
    rewrite (dot_comm' (unit_vec n k) a).
    rewrite (dot_comm' (unit_vec n k) b).
    apply H. apply unit_vec_length.
  Qed.

  Theorem quad_recombine q (M N Mt V W V' W' : list (list R)) (e : list R) :
    length e = q ->
    length M = q -> rows_len q M -> length N = q -> rows_len q N ->
    length V = q -> rows_len q V -> length W = q -> rows_len q Mt ->
    inv_on q M N -> inv_on q V W ->
    transpose_of q M Mt ->
    V' = mm q (mm q M V) Mt ->
    inv_on q V' W' ->
    quad W' (mv M e) = quad W e.
  Proof.
    intros Le LM RM LN RN LV RV LW RMt IM IV TM EV IV'.
    set (y := mv W e).
    assert (Ly : length y = q) by (unfold y; rewrite (mv_length R r0 radd rmul); exact LW).
    assert (HVy : mv V y = e) by (apply (IV e Le)).
    set (y' := vm q y N).
    assert (Ly' : length y' = q) by (unfold y'; apply vm_length'; exact RN).
    (* M' (N' y) = y *)
    assert (HMt : mv Mt y' = y).
    { rewrite (TM y' Ly').
      apply (vec_ext_dot q).
      - apply vm_length'; exact RM.
      - exact Ly.
      - intros x Lx.
        rewrite (dot_vm' q y' M x RM).
        unfold y'. rewrite (dot_vm' q y N (mv M x) RN).
        destruct (IM x Lx) as [_ H2]. now rewrite H2. }
    assert (HV'y' : mv V' y' = mv M e).
    { rewrite EV.
      rewrite (mv_mm' q (mm q M V) Mt y' RMt).
      rewrite (mv_mm' q M V (mv Mt y') RV).
      now rewrite HMt, HVy. }
    assert (HW' : mv W' (mv M e) = y').
    { rewrite <- HV'y'. apply (IV' y' Ly'). }
    unfold quad. rewrite HW'. fold y.
    rewrite (dot_comm' (mv M e) y').
    unfold y'. rewrite (dot_vm' q y N (mv M e) RN).
    destruct (IM e Le) as [_ H2]. rewrite H2.
    apply dot_comm'.
  Qed.

  (* the inverse is unique by action, so the quadratic form does not depend on
     which inverse the LAPACK oracle returns *)
  Theorem quad_inverse_unique q (V W1 W2 : list (list R)) (e : list R) :
    length e = q -> length W2 = q -> inv_on q V W1 -> inv_on q V W2 -> quad W1 e = quad W2 e.
  Proof.
    intros Le LW IV1 IV2. unfold quad. f_equal.
    destruct (IV2 e Le) as [H _]. rewrite <- H at 1.
    assert (L : length (mv W2 e) = q) by (rewrite (mv_length R r0 radd rmul); exact LW).
    apply (IV1 _ L).
  Qed.


  (* ---------------------------------------------------------------- the two implementations *)
  Variable divq : R -> R.      (* division by dim (the number of contrast rows) *)

  (* fmri.glm: multiple_mahalanobis(d, V) / dim with W the inverse returned by LAPACK *)
  Definition fmri_F (W : list (list R)) (d : list R) : R := divq (quad W d).
  (* labs.glm: fff_mahalanobis(d, V) / dim with y the result of the triangular solve L y = d *)
  Definition labs_F (y : list R) : R := divq (dot y y).

  (* Cholesky route = inverse route: if S = L L^t (dpotrf), L y = d (dtrsv), L is
     nonsingular (injective; dpotrf succeeds only with a positive diagonal), then
     sum y_i^2 = d' W d for ANY two-sided inverse W of S. *)
  Theorem chol_quad_is_quad q (V W L Lt : list (list R)) (d y : list R) :
    length d = q -> length y = q -> length W = q -> length Lt = q ->
    rows_len q L ->
    inv_on q V W ->
    transpose_of q L Lt ->
    (forall z, length z = q -> mv V z = mv L (mv Lt z)) ->
    (forall a b, length a = q -> length b = q -> mv L a = mv L b -> a = b) ->
    mv L y = d ->
    dot y y = quad W d.
  Proof.
    intros Ld Ly LW LLt RL IV TL HV Linj Hy.
    set (z := mv W d).
    assert (Lz : length z = q) by (unfold z; rewrite (mv_length R r0 radd rmul); exact LW).
    assert (HVz : mv V z = d) by (apply (IV d Ld)).
    assert (E : mv Lt z = y).
    { apply Linj; [rewrite (mv_length R r0 radd rmul); exact LLt|exact Ly|].
      rewrite <- (HV z Lz), HVz. symmetry. exact Hy. }
    unfold quad. fold z. rewrite <- Hy at 1.
    rewrite (dot_comm' (mv L y) z).
    rewrite <- (dot_vm' q z L y RL).
    rewrite <- (TL z Lz). now rewrite E.
  Qed.

  Corollary labs_F_is_fmri_F q (V W L Lt : list (list R)) (d y : list R) :
    length d = q -> length y = q -> length W = q -> length Lt = q ->
    rows_len q L ->
    inv_on q V W ->
    transpose_of q L Lt ->
    (forall z, length z = q -> mv V z = mv L (mv Lt z)) ->
    (forall a b, length a = q -> length b = q -> mv L a = mv L b -> a = b) ->
    mv L y = d ->
    labs_F y = fmri_F W d.
  Proof.
    intros. unfold labs_F, fmri_F. f_equal. eapply chol_quad_is_quad; eassumption.
  Qed.
End Quad.
