(* C06 - lemmas over the reals about the contrast statistics of Model.v/ModelR.v *)
From Coq Require Import List Reals Lra.
From NV.C06 Require Import Model ModelR.
Import ListNotations.
Open Scope R_scope.

Lemma tstat_unfold e b v tiny : tstat e b v tiny = (e - b) / sqrt (Rmax v tiny).
Proof. reflexivity. Qed.

Lemma sd_pos v tiny : 0 < tiny -> 0 < sqrt (Rmax v tiny).
Proof.
  intros H. apply sqrt_lt_R0. eapply Rlt_le_trans; [exact H|apply Rmax_r].
Qed.

(* t times the standard error is the effect (the floor keeps the denominator positive) *)
Lemma t_times_sd e b v tiny : 0 < tiny ->
  tstat e b v tiny * sqrt (Rmax v tiny) = e - b.
Proof.
  intros H. rewrite tstat_unfold. assert (P := sd_pos v tiny H). field. lra.
Qed.

Lemma t_is_effect_over_sd e b v tiny : 0 < tiny -> tiny <= v ->
  tstat e b v tiny = (e - b) / sqrt v /\ sqrt v * sqrt v = v.
Proof.
  intros H Hv. rewrite tstat_unfold. rewrite Rmax_left by exact Hv. split; [reflexivity|].
  apply sqrt_sqrt. lra.
Qed.

Lemma f1_is_t_squared e b v tiny : f1stat e b v tiny = tstat e b v tiny * tstat e b v tiny.
Proof. reflexivity. Qed.

(* one-row F equals effect^2 / variance: no square root left *)
Lemma f1_closed_form e b v tiny : 0 < tiny -> tiny <= v ->
  f1stat e b v tiny = (e - b) * (e - b) / v.
Proof.
  intros H Hv. rewrite f1_is_t_squared.
  destruct (t_is_effect_over_sd e b v tiny H Hv) as [-> Hs].
  assert (P : 0 < sqrt v) by (apply sqrt_lt_R0; lra).
  rewrite <- Hs at 3. field. lra.
Qed.

(* __rmul__ by k > 0: effect * k, variance * k^2; t is unchanged as long as the
   `tiny` floor is inactive before and after *)
Lemma t_scale_invariant e v tiny k : 0 < k -> 0 < tiny -> tiny <= v -> tiny <= v * (k * k) ->
  tstat (e * k) 0 (v * (k * k)) tiny = tstat e 0 v tiny.
Proof.
  intros Hk Ht Hv Hkv. rewrite !tstat_unfold.
  rewrite (Rmax_left v tiny Hv), (Rmax_left _ tiny Hkv).
  rewrite sqrt_mult by nra. rewrite sqrt_square by lra.
  assert (P : 0 < sqrt v) by (apply sqrt_lt_R0; lra).
  field. split; lra.
Qed.

(* ... and it is NOT unchanged when the variance is below the floor *)
Lemma t_scale_floor_counterexample :
  tstat (1 * 2) 0 (0 * (2 * 2)) 1 <> tstat 1 0 0 1.
Proof.
  rewrite !tstat_unfold. rewrite Rmult_0_l. rewrite Rmax_right by lra. rewrite sqrt_1. lra.
Qed.

(* ------------------------------------------------------------ model.py: Tcontrast / Fcontrast, one row *)
Lemma pos_recipr_pos x : 0 < x -> pos_recipr x = / x.
Proof.
  intros H. unfold pos_recipr, g_pos_recipr. simpl. unfold Rltb.
  destruct (Rlt_dec 0 x) as [_|N]; [|contradiction]. unfold Rdiv. ring.
Qed.

Lemma pos_recipr_nonpos x : x <= 0 -> pos_recipr x = 0.
Proof.
  intros H. unfold pos_recipr, g_pos_recipr. simpl. unfold Rltb.
  destruct (Rlt_dec 0 x) as [P|_]; [lra|reflexivity].
Qed.

Lemma Tres_is_effect_over_sd ctheta v disp : 0 < v -> 0 < disp ->
  Tres ctheta v disp = ctheta / sqrt (v * disp).
Proof.
  intros Hv Hd. unfold Tres, g_T, g_T_sd. simpl. fold pos_recipr.
  rewrite pos_recipr_pos by (apply sqrt_lt_R0; nra). reflexivity.
Qed.

Lemma F1res_is_T_squared ctheta v invv disp : 0 < v -> 0 < disp -> invv * v = 1 ->
  F1res ctheta invv disp = Tres ctheta v disp * Tres ctheta v disp.
Proof.
  intros Hv Hd Hi. rewrite Tres_is_effect_over_sd by assumption.
  unfold F1res, g_F1. simpl. fold pos_recipr. rewrite pos_recipr_pos by lra.
  assert (P : 0 < sqrt (v * disp)) by (apply sqrt_lt_R0; nra).
  assert (S : sqrt (v * disp) * sqrt (v * disp) = v * disp) by (apply sqrt_sqrt; nra).
  assert (E : invv = / v) by (apply Rmult_eq_reg_r with v; [rewrite Hi; field; lra|lra]).
  rewrite E.
  replace (ctheta / sqrt (v * disp) * (ctheta / sqrt (v * disp)))
    with (ctheta * ctheta / (sqrt (v * disp) * sqrt (v * disp))) by (field; lra).
  rewrite S. field. split; lra.
Qed.

(* ------------------------------------------------------------ tmin *)
Lemma min_list_le d l : g_min_list Rops d l <= d /\ forall x, In x l -> g_min_list Rops d l <= x.
Proof.
  revert d; induction l as [|y l IH]; intros d; simpl.
  - split; [lra|tauto].
  - destruct (IH (Rmin d y)) as [H1 H2]. split.
    + eapply Rle_trans; [exact H1|apply Rmin_l].
    + intros x [->|Hx]; [eapply Rle_trans; [exact H1|apply Rmin_r]|apply H2; exact Hx].
Qed.

Lemma min_list_in d l : g_min_list Rops d l = d \/ In (g_min_list Rops d l) l.
Proof.
  revert d; induction l as [|y l IH]; intros d; simpl; [left; reflexivity|].
  destruct (IH (Rmin d y)) as [H|H].
  - rewrite H. unfold Rmin. destruct (Rle_dec d y); [left; reflexivity|right; left; reflexivity].
  - right; right; exact H.
Qed.

Lemma tmin_is_min es V b tiny s : tmin es V b tiny = Some s ->
  let ts := g_tstats Rops es (vdiag (length es) V) b tiny in
  In s ts /\ forall t, In t ts -> s <= t.
Proof.
  unfold tmin, g_tmin. intros H. cbv zeta.
  destruct (g_tstats Rops es (vdiag (length es) V) b tiny) as [|t r]; [discriminate|].
  injection H as <-. destruct (min_list_le t r) as [H1 H2]. split.
  - destruct (min_list_in t r) as [E|E]; [left; symmetry; exact E|right; exact E].
  - intros x [<-|Hx]; [exact H1|apply H2; exact Hx].
Qed.

(* ------------------------------------------------------------ p-value and z-score *)
Lemma clip_bounds lo hi p : lo <= hi -> lo <= clipR lo hi p <= hi.
Proof.
  intros H. unfold clipR, g_clip. simpl. split.
  - apply Rmin_glb; [apply Rmax_r|exact H].
  - apply Rmin_r.
Qed.

Lemma clip_mono lo hi p q : p <= q -> clipR lo hi p <= clipR lo hi q.
Proof.
  intros H. unfold clipR, g_clip. simpl.
  apply Rle_min_compat_r. apply Rle_max_compat_r. exact H.
Qed.

Lemma clip_id lo hi p : lo <= p <= hi -> clipR lo hi p = p.
Proof.
  intros [H1 H2]. unfold clipR, g_clip. simpl. rewrite Rmax_left by exact H1. apply Rmin_left. exact H2.
Qed.

Section Pipeline.
  Variable sf : R -> R.
  Variable isf : R -> xreal.
  Variables lo hi : R.
  (* oracle contracts (scipy): a survival function is antitone with values in [0,1];
     the normal quantile is finite and antitone strictly inside (0,1) *)
  Hypothesis sf_range : forall x, 0 <= sf x <= 1.
  Hypothesis sf_anti : forall x y, x <= y -> sf y <= sf x.
  Hypothesis isf_finite : forall p, 0 < p < 1 -> exists z, isf p = Fin z.
  Hypothesis isf_anti : forall p q zp zq, 0 < p -> p <= q -> q < 1 ->
                                          isf p = Fin zp -> isf q = Fin zq -> zq <= zp.
  (* the clipping constants lie strictly inside isf's finite domain *)
  Hypothesis lo_pos : 0 < lo.
  Hypothesis lo_le_hi : lo <= hi.
  Hypothesis hi_lt_1 : hi < 1.

  Lemma p_value_unit stat : 0 <= p_value sf stat <= 1.
  Proof. destruct stat as [s|]; simpl; [apply sf_range|lra]. Qed.

  Lemma z_finite stat : exists z, z_score sf isf lo hi stat = Fin z.
  Proof.
    destruct stat as [s|]; simpl; [|exists 0; reflexivity].
    destruct (clip_bounds lo hi (sf s) lo_le_hi) as [H1 H2]. apply isf_finite. lra.
  Qed.

  Lemma z_monotone s1 s2 : s1 <= s2 ->
    exists z1 z2, z_score sf isf lo hi (Some s1) = Fin z1 /\
                  z_score sf isf lo hi (Some s2) = Fin z2 /\ z1 <= z2.
  Proof.
    intros H.
    destruct (z_finite (Some s1)) as [z1 E1]. destruct (z_finite (Some s2)) as [z2 E2].
    exists z1, z2. split; [exact E1|]. split; [exact E2|].
    simpl in E1, E2.
    destruct (clip_bounds lo hi (sf s2) lo_le_hi) as [A1 A2].
    destruct (clip_bounds lo hi (sf s1) lo_le_hi) as [B1 B2].
    apply (isf_anti (clipR lo hi (sf s2)) (clipR lo hi (sf s1))); try assumption; try lra.
    apply clip_mono. apply sf_anti. exact H.
  Qed.

  (* inside [lo,hi] the clip is invisible: z is exactly the normal quantile of the p-value *)
  Lemma z_is_quantile_of_p s : lo <= sf s <= hi ->
    z_score sf isf lo hi (Some s) = isf (p_value sf (Some s)).
  Proof. intros H. simpl. now rewrite clip_id. Qed.

  Lemma nan_branches : p_value sf None = 1 / 2 /\ z_score sf isf lo hi None = Fin 0.
  Proof. split; reflexivity. Qed.
End Pipeline.

(* the Section hypotheses are satisfiable (non-vacuity): a piecewise-linear tail pair *)
Definition toy_sf (x : R) : R := Rmax 0 (Rmin 1 ((1 - x) / 2)).
Definition toy_isf (p : R) : xreal := Fin (1 - 2 * p).

Lemma toy_contracts :
  (forall x, 0 <= toy_sf x <= 1) /\ (forall x y, x <= y -> toy_sf y <= toy_sf x) /\
  (forall p, 0 < p < 1 -> exists z, toy_isf p = Fin z) /\
  (forall p q zp zq, 0 < p -> p <= q -> q < 1 -> toy_isf p = Fin zp -> toy_isf q = Fin zq -> zq <= zp).
Proof.
  unfold toy_sf, toy_isf. repeat split.
  - apply Rmax_l.
  - apply Rmax_lub; [lra|apply Rmin_l].
  - intros x y H. apply Rle_max_compat_l. apply Rle_min_compat_l. lra.
  - intros p _. eexists; reflexivity.
  - intros p q zp zq _ H _ E1 E2. injection E1 as <-. injection E2 as <-. lra.
Qed.
