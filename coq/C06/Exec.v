(* C06 - comparison helpers used by the vm_compute correspondence files the
   harness generates (no model content). *)
From Coq Require Import List Bool QArith Qabs Qminmax.
From NV.Lib Require Import Harness.
From NV.C06 Require Import Model.
Import ListNotations.
Open Scope Q_scope.

Definition qclose (tol a b : Q) : bool := Qle_bool (Qabs (a - b)) tol.

(* |a - b| <= tol * max(1, |b|) *)
Definition qrelclose (tol a b : Q) : bool :=
  Qle_bool (Qabs (a - b)) (tol * (if Qle_bool (Qabs b) 1 then 1 else Qabs b)).

Definition fdr_close (tol : Q) (p out : list Q) : bool :=
  match fdr p with
  | Some m => list_eqb (qclose tol) m out
  | None => false
  end.

(* ------------------------------------------------------------------ *)
(* Q instance of the generic contrast definitions.  np.sqrt is an oracle: the
   harness passes the table of (argument, np.sqrt(argument)) pairs it observed
   and `sqrt_tbl_ok` checks the defining contract s >= 0, s*s = x exactly.   *)
Definition sqrt_tbl (tbl : list (Q * Q)) (x : Q) : Q :=
  match find (fun xs => Qeq_bool (fst xs) x) tbl with
  | Some xs => snd xs
  | None => 0
  end.
Definition sqrt_tbl_ok (tbl : list (Q * Q)) : bool :=
  forallb (fun xs => Qeq_bool (snd xs * snd xs) (fst xs) && Qle_bool 0 (snd xs)) tbl.
Definition Qltb (x y : Q) : bool := negb (Qle_bool y x).
Definition Qops (tbl : list (Q * Q)) : ops Q :=
  mkOps Q 0 1 Qplus Qminus Qmult Qdiv Qmax Qmin Qltb (sqrt_tbl tbl).

Definition qmat_eqb' := list_eqb (list_eqb Qeq_bool).
Definition c_eqb (a b : contrast) : bool :=
  list_eqb Qeq_bool (c_eff a) (c_eff b) && qmat_eqb' (c_var a) (c_var b) && Qeq_bool (c_dof a) (c_dof b).

(* multi-row F: multiple_mahalanobis(effect - baseline, variance) / dim, with the
   inverse W supplied by the harness (exact rational inverse) and checked V W = I *)
From NV.Lib Require Import RingMat.
Open Scope Q_scope.
Definition qdot := dot 0%Q Qplus Qmult.
Definition qmv := mv 0%Q Qplus Qmult.
Definition qmm := mm 0%Q Qplus Qmult.
Definition qid (n : nat) : list (list Q) := mid 0%Q 1%Q n.
Definition is_inverse_q (V W : list (list Q)) : bool :=
  qmat_eqb' (qmm (length V) V W) (qid (length V)) && qmat_eqb' (qmm (length V) W V) (qid (length V)).
Definition fstat_q (e : list Q) (b : Q) (W : list (list Q)) : Q :=
  let d := map (fun x => x - b) e in
  qdot d (qmv W d) / inject_Z (Z.of_nat (length e)).

(* sqrt oracle contract up to a relative tolerance (used where the argument is not a perfect square) *)
Definition sqrt_tbl_close (tol : Q) (tbl : list (Q * Q)) : bool :=
  forallb (fun xs => qrelclose tol (snd xs * snd xs) (fst xs) && Qle_bool 0 (snd xs)) tbl.

(* labs route (fff_mahalanobis): Cholesky factor L and the solution y of L y = d are
   supplied by the harness (exact rationals) and checked here: L lower triangular
   with positive diagonal, L L^t = V, L y = effect - baseline. *)
Fixpoint lower_posdiag_from (i : nat) (L : list (list Q)) : bool :=
  match L with
  | [] => true
  | row :: rest =>
      Qltb 0 (nth i row 0) && forallb (fun x => Qeq_bool x 0) (skipn (S i) row)
      && lower_posdiag_from (S i) rest
  end.
Definition qtrans (A : list (list Q)) : list (list Q) := mtrans 0%Q (length A) A.
Definition chol_ok (V L : list (list Q)) : bool :=
  lower_posdiag_from 0 L && qmat_eqb' (qmm (length V) L (qtrans L)) V.
Definition labs_solve_ok (V L : list (list Q)) (y e : list Q) (b : Q) : bool :=
  chol_ok V L && list_eqb Qeq_bool (qmv L y) (map (fun x => x - b) e).
Definition labs_fstat_q (y : list Q) : Q := qdot y y / inject_Z (Z.of_nat (length y)).

(* ------------------------------------------------------------------ *)
(* Cache machine correspondence.  For every step the harness passes the set of
   (contents, baseline) tags whose from-scratch value equals what the
   implementation returned (None: nothing to compare - a new object was made, or
   the call raised); the model's predicted tag must be in that set. *)
Fixpoint cexp_eqb (a b : cexp) : bool :=
  match a, b with
  | CBase i, CBase j => Nat.eqb i j
  | CMul k c, CMul k' c' => Qeq_bool k k' && cexp_eqb c c'
  | CAdd x y, CAdd x' y' => cexp_eqb x x' && cexp_eqb y y'
  | _, _ => false
  end.
Definition tag_eqb (a b : tag) : bool := cexp_eqb (fst a) (fst b) && Qeq_bool (snd a) (snd b).
Definition obs_match (o : obs) (m : option (list tag)) : bool :=
  match m with
  | None => true
  | Some ms =>
      match o with
      | ObStat t => existsb (tag_eqb t) ms
      | ObP t => existsb (tag_eqb t) ms
      | ObZ pt _ => existsb (tag_eqb pt) ms
      | ObNew => true
      end
  end.
Fixpoint all_match (os : list obs) (ms : list (option (list tag))) : bool :=
  match os, ms with
  | [], [] => true
  | o :: os', m :: ms' => obs_match o m && all_match os' ms'
  | _, _ => false
  end.
Definition machine_agrees (stat_drops_p : bool) (ops : list cop) (observed : list (option (list tag))) : bool :=
  all_match (run stat_drops_p (init_state (CBase 0)) ops) observed.

(* Tcontrast options: every stored field close to the model's, every non-stored field None on both sides *)
Definition oq_close (tol : Q) (a b : option Q) : bool :=
  match a, b with
  | Some x, Some y => qrelclose tol x y
  | None, None => true
  | _, _ => false
  end.
Definition tres_close (tol : Q) (m : tres Q) (t e sd : option Q) : bool :=
  oq_close tol (r_t m) t && oq_close tol (r_effect m) e && oq_close tol (r_sd m) sd.

(* fixed effects: field-wise comparison with a relative tolerance (the implementation adds floats) *)
Definition c_close (tol : Q) (a b : contrast) : bool :=
  list_eqb (qrelclose tol) (c_eff a) (c_eff b) && list_eqb (list_eqb (qrelclose tol)) (c_var a) (c_var b)
  && qrelclose tol (c_dof a) (c_dof b).
Definition oc_close (tol : Q) (a : option contrast) (b : option contrast) : bool :=
  match a, b with Some x, Some y => c_close tol x y | None, None => true | _, _ => false end.
Definition oc_eqb (a : option contrast) (b : option contrast) : bool :=
  match a, b with Some x, Some y => c_eqb x y | None, None => true | _, _ => false end.
