(* C06 - lemmas about the FDR model (Model.v): the code's sort / cumulative
   minimum / inverse-order scatter computes the Benjamini-Hochberg step-up
   value, whichever sorting permutation argsort returns. *)
From Coq Require Import List Bool Arith Lia QArith Qminmax Lqa Sorting Mergesort Orders Permutation.
From NV.Lib Require Import SlotAlg.
From NV.C06 Require Import Model.
Import ListNotations.
Open Scope Q_scope.

(* ------------------------------------------------------------ arithmetic *)
Lemma qnat_le a b : (a <= b)%nat -> qnat a <= qnat b.
Proof. intros H. unfold qnat. rewrite <- Zle_Qle. apply Nat2Z.inj_le. exact H. Qed.

Lemma qnat_pos a : (0 < a)%nat -> 0 < qnat a.
Proof. intros H. unfold qnat. replace 0 with (inject_Z 0) by reflexivity. rewrite <- Zlt_Qlt. lia. Qed.

Lemma qnat_nonneg a : 0 <= qnat a.
Proof. unfold qnat. replace 0 with (inject_Z 0) by reflexivity. rewrite <- Zle_Qle. lia. Qed.

Lemma div_mono_num N a b C : 0 <= N -> 0 < C -> a <= b -> N * a / C <= N * b / C.
Proof.
  intros HN HC Hab. unfold Qdiv. apply Qmult_le_compat_r.
  - rewrite (Qmult_comm N a), (Qmult_comm N b). apply Qmult_le_compat_r; assumption.
  - apply Qlt_le_weak. apply Qinv_lt_0_compat. exact HC.
Qed.

Lemma div_anti_den X c1 c2 : 0 <= X -> 0 < c1 -> c1 <= c2 -> X / c2 <= X / c1.
Proof.
  intros HX H1 H12.
  assert (H2 : 0 < c2) by (eapply Qlt_le_trans; eassumption).
  apply Qle_shift_div_r; [exact H2|].
  assert (Hq : 0 <= X / c1).
  { unfold Qdiv. apply Qmult_le_0_compat; [exact HX|]. apply Qlt_le_weak, Qinv_lt_0_compat, H1. }
  assert (E : X == X / c1 * c1) by (field; intro E0; rewrite E0 in H1; apply (Qlt_irrefl 0 H1)).
  rewrite E at 1. rewrite (Qmult_comm (X / c1) c1), (Qmult_comm (X / c1) c2).
  apply Qmult_le_compat_r; assumption.
Qed.

Lemma qmin1_mono a b : a <= b -> Qmin 1 a <= Qmin 1 b.
Proof. intros H. apply Q.min_le_compat_l. exact H. Qed.

(* ------------------------------------------------------------ lists *)
Lemma map_nth_seq {A} (l : list A) d : map (fun i => nth i l d) (seq 0 (length l)) = l.
Proof.
  apply nth_ext with (d := d) (d' := d).
  - now rewrite map_length, seq_length.
  - intros i Hi. rewrite map_length, seq_length in Hi.
    rewrite nth_indep with (d' := nth 0%nat l d) by (now rewrite map_length, seq_length).
    rewrite (map_nth (fun i => nth i l d)), seq_nth by exact Hi. reflexivity.
Qed.

Lemma gather_length p order : length (gather p order) = length order.
Proof. apply map_length. Qed.

Lemma gather_nth p order k : (k < length order)%nat -> nth k (gather p order) 0 = nth (nth k order 0%nat) p 0.
Proof.
  intros H. unfold gather.
  rewrite nth_indep with (d' := (fun o => nth o p 0) 0%nat) by (now rewrite map_length).
  apply (map_nth (fun o => nth o p 0)).
Qed.

Lemma gather_perm p order : Permutation order (seq 0 (length p)) -> Permutation (gather p order) p.
Proof.
  intros P. unfold gather.
  eapply Permutation_trans; [apply Permutation_map; exact P|].
  rewrite (map_nth_seq p 0). apply Permutation_refl.
Qed.

Lemma order_facts (p : list Q) (order : list nat) :
  Permutation order (seq 0 (length p)) ->
  length order = length p /\ NoDup order /\ (forall i, (i < length p)%nat -> In i order) /\
  (forall k, (k < length p)%nat -> (nth k order 0 < length p)%nat).
Proof.
  intros P.
  assert (L : length order = length p) by (rewrite (Permutation_length P); apply seq_length).
  split; [exact L|]. split; [|split].
  - eapply Permutation_NoDup; [apply Permutation_sym; exact P|apply seq_NoDup].
  - intros i Hi. eapply Permutation_in; [apply Permutation_sym; exact P|]. apply in_seq. lia.
  - intros k Hk. assert (H : In (nth k order 0%nat) (seq 0 (length p))).
    { eapply Permutation_in; [exact P|]. apply nth_In. lia. }
    apply in_seq in H. lia.
Qed.

(* ------------------------------------------------------------ count_le *)
Lemma count_le_perm v p p' : Permutation p p' -> count_le v p = count_le v p'.
Proof.
  unfold count_le. intros P. induction P as [|x l l' P IH|x y l|l l' l'' P1 IH1 P2 IH2]; simpl.
  - reflexivity.
  - destruct (Qle_bool x v); simpl; congruence.
  - destruct (Qle_bool x v), (Qle_bool y v); simpl; reflexivity.
  - congruence.
Qed.

Lemma count_le_length v p : (count_le v p <= length p)%nat.
Proof.
  unfold count_le. induction p as [|x p IH]; simpl; [lia|].
  destruct (Qle_bool x v); simpl; lia.
Qed.

Lemma sorted_nth_le l : StronglySorted Qle l ->
  forall a b, (a <= b)%nat -> (b < length l)%nat -> nth a l 0 <= nth b l 0.
Proof.
  induction 1 as [|x l S IH F]; intros a b Hab Hb; simpl in Hb; [lia|].
  destruct a as [|a], b as [|b]; simpl; try lia.
  - apply Qle_refl.
  - rewrite Forall_forall in F. apply F. apply nth_In. lia.
  - apply IH; lia.
Qed.

(* in a sorted list the elements <= v are exactly the first count_le v entries *)
Lemma sorted_count_A l v : StronglySorted Qle l ->
  forall k, (k < count_le v l)%nat -> nth k l 0 <= v.
Proof.
  induction 1 as [|x l S IH F]; intros k Hk; unfold count_le in *; simpl in *; [lia|].
  destruct (Qle_bool x v) eqn:E.
  - simpl in Hk. destruct k as [|k]; [apply Qle_bool_iff; exact E|]. apply IH. lia.
  - exfalso.
    assert (Z : filter (fun y => Qle_bool y v) l = []).
    { clear IH Hk S. induction l as [|y l IHl]; [reflexivity|]. simpl.
      inversion F as [|? ? Hy Fl]; subst.
      destruct (Qle_bool y v) eqn:Ey.
      - apply Qle_bool_iff in Ey. assert (Hxv : x <= v) by (eapply Qle_trans; eassumption).
        apply Qle_bool_iff in Hxv. congruence.
      - apply IHl. exact Fl. }
    rewrite Z in Hk. simpl in Hk. lia.
Qed.

Lemma sorted_count_B l v : StronglySorted Qle l ->
  forall k, (k < length l)%nat -> nth k l 0 <= v -> (k < count_le v l)%nat.
Proof.
  induction 1 as [|x l S IH F]; intros k Hk Hv; unfold count_le in *; simpl in *; [lia|].
  assert (Hx : x <= v).
  { destruct k as [|k]; [exact Hv|]. eapply Qle_trans; [|exact Hv].
    rewrite Forall_forall in F. apply F. apply nth_In. lia. }
  apply Qle_bool_iff in Hx. rewrite Hx. simpl.
  destruct k as [|k]; [lia|]. apply Nat.succ_lt_mono in Hk. specialize (IH k Hk Hv). lia.
Qed.

(* ------------------------------------------------------------ raw / sufmin *)
Lemma raw_from_length n s sp : length (raw_from n s sp) = length sp.
Proof. revert s; induction sp as [|x r IH]; intros s; simpl; [reflexivity|]. now rewrite IH. Qed.

Lemma raw_from_nth n s sp k : (k < length sp)%nat ->
  nth k (raw_from n s sp) 0 = bh_raw n (s + k) (nth k sp 0).
Proof.
  revert s k; induction sp as [|x r IH]; intros s k Hk; simpl in Hk; [lia|].
  destruct k as [|k]; simpl.
  - now rewrite Nat.add_0_r.
  - rewrite IH by lia. f_equal. lia.
Qed.

Lemma sufmin_length l : length (sufmin l) = length l.
Proof. induction l as [|x r IH]; simpl; [reflexivity|]. now rewrite IH. Qed.

Lemma sufmin_lower l : forall k k', (k <= k')%nat -> (k' < length l)%nat ->
  nth k (sufmin l) 0 <= nth k' l 0.
Proof.
  induction l as [|x r IH]; intros k k' Hk Hk'; simpl in Hk'; [lia|].
  cbn [sufmin]. cbv zeta.
  destruct k as [|k].
  - cbn [nth]. destruct k' as [|k'].
    + cbn [nth]. destruct (sufmin r) as [|m s]; [apply Qle_refl|apply Q.le_min_r].
    + cbn [nth]. assert (H0 : nth 0 (sufmin r) 0 <= nth k' r 0) by (apply IH; lia).
      destruct (sufmin r) as [|m s] eqn:E.
      * exfalso. assert (L := sufmin_length r). rewrite E in L. simpl in L. lia.
      * cbn [nth] in H0. eapply Qle_trans; [apply Q.le_min_l|exact H0].
  - destruct k' as [|k']; [lia|]. cbn [nth]. apply IH; lia.
Qed.

Lemma sufmin_attained l : forall k, (k < length l)%nat ->
  exists k', (k <= k')%nat /\ (k' < length l)%nat /\ nth k (sufmin l) 0 == nth k' l 0.
Proof.
  induction l as [|x r IH]; intros k Hk; simpl in Hk; [lia|].
  cbn [sufmin]. cbv zeta.
  destruct k as [|k].
  - cbn [nth]. destruct (sufmin r) as [|m s] eqn:E.
    + exists 0%nat. simpl. split; [lia|split; [lia|apply Qeq_refl]].
    + destruct (Q.min_spec m x) as [[Hlt Hm]|[Hle Hm]].
      * assert (Hr : (0 < length r)%nat).
        { assert (L := sufmin_length r). rewrite E in L. simpl in L. lia. }
        destruct (IH 0%nat Hr) as [k' [H1 [H2 H3]]]. try rewrite E in H3. cbn [nth] in H3.
        exists (S k'). simpl. split; [lia|split; [lia|rewrite Hm; exact H3]].
      * exists 0%nat. simpl. split; [lia|split; [lia|exact Hm]].
  - cbn [nth]. destruct (IH k) as [k' [H1 [H2 H3]]]; [lia|].
    exists (S k'). simpl. split; [lia|split; [lia|exact H3]].
Qed.

(* ------------------------------------------------------------ inverse order *)
Lemma inverse_order_nth order i : (i < length order)%nat ->
  nth i (inverse_order order) 0%nat = index_of i order.
Proof. intros H. unfold inverse_order. now rewrite nth_map_seq. Qed.

Lemma fdr_with_length order p : length (fdr_with order p) = length order.
Proof. unfold fdr_with, inverse_order. now rewrite !map_length, seq_length. Qed.

Lemma fdr_with_nth order p i : (i < length order)%nat ->
  nth i (fdr_with order p) 0 =
  nth (index_of i order) (sufmin (raw_from (length p) 0 (gather p order))) 0.
Proof.
  intros H. unfold fdr_with.
  rewrite nth_indep with (d' := (fun k => nth k (sufmin (raw_from (length p) 0 (gather p order))) 0) 0%nat)
    by (unfold inverse_order; now rewrite !map_length, seq_length).
  rewrite (map_nth (fun k => nth k (sufmin (raw_from (length p) 0 (gather p order))) 0)).
  now rewrite inverse_order_nth.
Qed.

(* ------------------------------------------------------------ main theorem *)
Definition nonneg (p : list Q) : Prop := forall v, In v p -> 0 <= v.
Definition sorts (order : list nat) (p : list Q) : Prop :=
  Permutation order (seq 0 (length p)) /\ StronglySorted Qle (gather p order).

Lemma fdr_with_is_bh p order i :
  nonneg p -> sorts order p -> (i < length p)%nat ->
  is_bh p (nth i p 0) (nth i (fdr_with order p) 0).
Proof.
  intros NN [P S] Hi.
  destruct (order_facts p order P) as [L [ND [Hall Hrange]]].
  set (sp := gather p order) in *.
  assert (Lsp : length sp = length p) by (unfold sp; rewrite gather_length; exact L).
  assert (Psp : Permutation sp p) by (apply gather_perm; exact P).
  set (raw := raw_from (length p) 0 sp).
  assert (Lraw : length raw = length p) by (unfold raw; rewrite raw_from_length; exact Lsp).
  set (pos := index_of i order).
  destruct (index_of_In i order (Hall i Hi)) as [Hpos Hposv]. fold pos in Hpos, Hposv.
  assert (Hsp_pos : nth pos sp 0 = nth i p 0).
  { unfold sp. rewrite gather_nth by exact Hpos. now rewrite Hposv. }
  assert (Hout : nth i (fdr_with order p) 0 = nth pos (sufmin raw) 0).
  { rewrite fdr_with_nth by lia. reflexivity. }
  rewrite Hout.
  (* lower-bound half, stated for later reuse *)
  assert (Lower : forall v, In v p -> nth i p 0 <= v -> nth pos (sufmin raw) 0 <= bh_val p v).
  { intros v Hv Huv.
    remember (count_le v p) as c eqn:Ec.
    assert (Hc : c = count_le v sp) by (rewrite Ec; symmetry; apply count_le_perm; exact Psp).
    assert (Hposc : (pos < c)%nat).
    { rewrite Hc. apply sorted_count_B; [exact S|lia|rewrite Hsp_pos; exact Huv]. }
    assert (Hcn : (c <= length p)%nat) by (rewrite Ec; apply count_le_length).
    destruct c as [|k]; [lia|].
    assert (Hk : nth k sp 0 <= v) by (apply sorted_count_A; [exact S|rewrite <- Hc; lia]).
    eapply Qle_trans; [apply (sufmin_lower raw pos k); lia|].
    unfold raw. rewrite raw_from_nth by lia. simpl plus.
    unfold bh_val, bh_raw. rewrite <- Ec.
    apply qmin1_mono. apply div_mono_num; [apply qnat_nonneg|apply qnat_pos; lia|exact Hk]. }
  split; [exact Lower|].
  destruct (sufmin_attained raw pos) as [k [Hk1 [Hk2 Hk3]]]; [lia|].
  set (v := nth k sp 0).
  assert (Hvin : In v p).
  { eapply Permutation_in; [exact Psp|]. apply nth_In. lia. }
  assert (Huv : nth i p 0 <= v).
  { rewrite <- Hsp_pos. apply sorted_nth_le; [exact S|exact Hk1|lia]. }
  exists v. split; [exact Hvin|]. split; [exact Huv|].
  apply Qle_antisym; [apply Lower; assumption|].
  rewrite Hk3. unfold raw. rewrite raw_from_nth by lia. simpl plus. fold v.
  unfold bh_val, bh_raw. apply qmin1_mono.
  assert (Hkc : (k < count_le v p)%nat).
  { rewrite <- (count_le_perm v sp p Psp). apply sorted_count_B; [exact S|lia|apply Qle_refl]. }
  apply div_anti_den.
  - apply Qmult_le_0_compat; [apply qnat_nonneg|apply NN; exact Hvin].
  - apply qnat_pos. lia.
  - apply qnat_le. lia.
Qed.

(* ------------------------------------------------------------ consequences of the spec *)
Lemma is_bh_unique p u x y : is_bh p u x -> is_bh p u y -> x == y.
Proof.
  intros [Lx [vx [Hx1 [Hx2 Hx3]]]] [Ly [vy [Hy1 [Hy2 Hy3]]]].
  apply Qle_antisym.
  - rewrite Hy3. apply Lx; assumption.
  - rewrite Hx3. apply Ly; assumption.
Qed.

Lemma bh_val_perm p p' v : Permutation p p' -> bh_val p v = bh_val p' v.
Proof.
  intros P. unfold bh_val. now rewrite (Permutation_length P), (count_le_perm v p p' P).
Qed.

Lemma is_bh_perm p p' u u' x : Permutation p p' -> u == u' -> is_bh p u x -> is_bh p' u' x.
Proof.
  intros P E [Lx [v [H1 [H2 H3]]]]. split.
  - intros w Hw Huw. rewrite <- (bh_val_perm p p' w P). apply Lx.
    + eapply Permutation_in; [apply Permutation_sym; exact P|exact Hw].
    + rewrite E. exact Huw.
  - exists v. split; [eapply Permutation_in; eassumption|]. split.
    + rewrite <- E. exact H2.
    + rewrite <- (bh_val_perm p p' v P). exact H3.
Qed.

Lemma is_bh_mono p u u' x x' : u <= u' -> is_bh p u x -> is_bh p u' x' -> x <= x'.
Proof.
  intros Huu [Lx _] [_ [v [H1 [H2 H3]]]]. rewrite H3. apply Lx; [exact H1|].
  eapply Qle_trans; eassumption.
Qed.

Lemma count_le_pos v p : In v p -> (0 < count_le v p)%nat.
Proof.
  unfold count_le. induction p as [|x p IH]; simpl; [tauto|]. intros [->|H].
  - assert (E : Qle_bool v v = true) by (apply Qle_bool_iff, Qle_refl). rewrite E. simpl. lia.
  - destruct (Qle_bool x v); simpl; [lia|apply IH; exact H].
Qed.

Lemma is_bh_unit p u x : nonneg p -> is_bh p u x -> 0 <= x <= 1.
Proof.
  intros NN [_ [v [H1 [H2 H3]]]]. rewrite H3. unfold bh_val. split.
  - apply Q.min_glb; [discriminate|].
    unfold Qdiv. apply Qmult_le_0_compat.
    + apply Qmult_le_0_compat; [apply qnat_nonneg|apply NN; exact H1].
    + apply Qlt_le_weak, Qinv_lt_0_compat, qnat_pos, count_le_pos, H1.
  - apply Q.le_min_l.
Qed.

(* never below the p-value itself (n / rank >= 1) *)
Lemma is_bh_ge_p p u x : nonneg p -> (forall v, In v p -> v <= 1) -> is_bh p u x -> u <= x.
Proof.
  intros NN Hle1 [_ [v [H1 [H2 H3]]]]. rewrite H3. unfold bh_val.
  apply Q.min_glb.
  - eapply Qle_trans; [exact H2|apply Hle1; exact H1].
  - eapply Qle_trans; [exact H2|].
    assert (Hc := count_le_pos v p H1). assert (Hn := count_le_length v p).
    apply Qle_shift_div_l; [apply qnat_pos; exact Hc|].
    rewrite Qmult_comm. apply Qmult_le_compat_r; [apply qnat_le; exact Hn|apply NN; exact H1].
Qed.

(* ------------------------------------------------------------ the executable argsort is a valid `order` *)
Lemma combine_seq_snd (p : list Q) s : map snd (combine p (seq s (length p))) = seq s (length p).
Proof. revert s; induction p as [|x p IH]; intros s; simpl; [reflexivity|]. now rewrite IH. Qed.

Lemma combine_seq_fst (p : list Q) s :
  Forall (fun xi => (s <= snd xi)%nat /\ nth (snd xi - s) p 0 = fst xi) (combine p (seq s (length p))).
Proof.
  revert s; induction p as [|x p IH]; intros s; simpl; constructor.
  - simpl. split; [lia|]. now rewrite Nat.sub_diag.
  - specialize (IH (S s)). eapply Forall_impl; [|exact IH]. intros [y j] [H1 H2]. simpl in *.
    split; [lia|]. replace (j - s)%nat with (S (j - S s)) by lia. exact H2.
Qed.

Lemma leb_trans : Transitive (fun x y => is_true (QIdx.leb x y)).
Proof.
  intros x y z. unfold is_true, QIdx.leb. rewrite !Qle_bool_iff. apply Qle_trans.
Qed.

Lemma sorted_pairs_gather (p : list Q) (r : list (Q * nat)) :
  StronglySorted (fun x y => is_true (QIdx.leb x y)) r ->
  Forall (fun xi => nth (snd xi) p 0 = fst xi) r ->
  StronglySorted Qle (map (fun x => nth (snd x) p 0) r).
Proof.
  induction 1 as [|a r SS IH Fa]; intros F; simpl; constructor.
  - apply IH. inversion F; assumption.
  - inversion F as [|? ? Ha Fr]; subst. rewrite Forall_forall in *.
    intros y Hy. apply in_map_iff in Hy. destruct Hy as [b [<- Hb]].
    rewrite Ha, (Fr b Hb). apply Qle_bool_iff. apply Fa. exact Hb.
Qed.

Lemma argsort_q_sorts p : sorts (argsort_q p) p.
Proof.
  unfold sorts, argsort_q.
  set (l := combine p (seq 0 (length p))).
  assert (P : Permutation l (QSort.sort l)) by apply QSort.Permuted_sort.
  split.
  - rewrite <- (combine_seq_snd p 0). fold l. apply Permutation_sym. apply Permutation_map. exact P.
  - assert (SS : StronglySorted (fun x y => is_true (QIdx.leb x y)) (QSort.sort l)).
    { apply QSort.StronglySorted_sort. exact leb_trans. }
    assert (F : Forall (fun xi => nth (snd xi) p 0 = fst xi) (QSort.sort l)).
    { apply Forall_forall. intros xi Hxi.
      assert (Hin : In xi l) by (eapply Permutation_in; [apply Permutation_sym; exact P|exact Hxi]).
      assert (F0 := combine_seq_fst p 0). fold l in F0. rewrite Forall_forall in F0.
      destruct (F0 xi Hin) as [_ H]. now rewrite Nat.sub_0_r in H. }
    unfold gather. rewrite map_map. apply sorted_pairs_gather; assumption.
Qed.

Lemma check_p_nonneg p : check_p p = true -> nonneg p /\ (forall v, In v p -> v <= 1) /\ p <> [].
Proof.
  unfold check_p. destruct p as [|x p]; [discriminate|]. intros H.
  rewrite forallb_forall in H. repeat split.
  - intros v Hv. specialize (H v Hv). unfold in_unit in H. apply andb_true_iff in H.
    apply Qle_bool_iff. tauto.
  - intros v Hv. specialize (H v Hv). unfold in_unit in H. apply andb_true_iff in H.
    apply Qle_bool_iff. tauto.
  - discriminate.
Qed.
