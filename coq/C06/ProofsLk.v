(* C06 - fdr and fdr_threshold are consistent: for alpha <= 1 and a non-empty
   critical set, fdr(p)[i] < alpha  <->  p[i] <= fdr_threshold(p, alpha). *)
From Coq Require Import List Bool Arith Lia QArith Qminmax Lqa Sorting Permutation.
From NV.Lib Require Import SlotAlg.
From NV.C06 Require Import Model Proofs ProofsTh.
Import ListNotations.
Open Scope Q_scope.

Lemma div_lt_to_mul a b c : 0 < c -> a / c < b -> a < b * c.
Proof.
  intros Hc H.
  assert (E : a == a / c * c) by (field; intro E0; rewrite E0 in Hc; apply (Qlt_irrefl 0 Hc)).
  rewrite E. apply Qmult_lt_compat_r; assumption.
Qed.

Lemma mul_lt_to_div a b c : 0 < c -> a < b * c -> a / c < b.
Proof. intros Hc H. apply Qlt_shift_div_r; assumption. Qed.

Lemma fdr_lt_alpha_iff order p alpha i :
  nonneg p -> sorts order p -> (i < length p)%nat -> alpha <= 1 ->
  (exists k, critical (alpha / qnat (length p)) (gather p order) k) ->
  (nth i (fdr_with order p) 0 < alpha <-> nth i p 0 <= fdr_threshold_with order p alpha).
Proof.
  intros NN So Hi Ha1 Hex.
  assert (B := fdr_with_is_bh p order i NN So Hi).
  destruct So as [P SS].
  destruct (order_facts p order P) as [L [ND [Hall Hrange]]].
  set (sp := gather p order) in *. set (n := length p) in *.
  set (pc := alpha / qnat n) in *.
  assert (Lsp : length sp = n) by (unfold sp; rewrite gather_length; exact L).
  assert (Psp : Permutation sp p) by (apply gather_perm; exact P).
  assert (HN : 0 < qnat n) by (apply qnat_pos; unfold n; lia).
  assert (Npc : qnat n * pc == alpha).
  { unfold pc. field. intro E0. rewrite E0 in HN. apply (Qlt_irrefl 0 HN). }
  destruct (fdr_threshold_with_spec order p alpha) as [_ Sp]. cbv zeta in Sp.
  fold sp n pc in Sp. destruct (Sp Hex) as [[k [[Kn Kc] KT]] Kmax]. clear Sp.
  set (T := fdr_threshold_with order p alpha) in *.
  set (x := nth i (fdr_with order p) 0) in *.
  destruct B as [Lower [v [Hv [Huv Hxv]]]].
  split.
  - (* fdr_i < alpha -> p_i <= T *)
    intros Hx. rewrite Hxv in Hx. unfold bh_val in Hx. fold n in Hx.
    apply Q.min_lt_iff in Hx. destruct Hx as [Hx|Hx].
    { exfalso. apply (Qlt_irrefl 1). eapply Qlt_le_trans; eassumption. }
    assert (Hc := count_le_pos v p Hv).
    remember (count_le v p) as c eqn:Ec.
    assert (Hcsp : c = count_le v sp) by (rewrite Ec; symmetry; apply count_le_perm; exact Psp).
    assert (Hcn : (c <= n)%nat) by (rewrite Ec; apply count_le_length).
    destruct c as [|k']; [lia|].
    assert (H1 : qnat n * v < alpha * qnat (S k')) by (apply div_lt_to_mul; [apply qnat_pos; lia|exact Hx]).
    assert (H2 : v < pc * qnat (S k')).
    { apply Qmult_lt_l with (z := qnat n); [exact HN|].
      rewrite Qmult_assoc, Npc. exact H1. }
    (* v sits at some position j <= k' of the sorted vector *)
    assert (Hvsp : In v sp) by (eapply Permutation_in; [apply Permutation_sym; exact Psp|exact Hv]).
    destruct (In_nth sp v 0 Hvsp) as [j [Hj Ej]].
    assert (Hjc : (j < S k')%nat).
    { rewrite Hcsp. apply sorted_count_B; [exact SS|exact Hj|rewrite Ej; apply Qle_refl]. }
    assert (Hk'v : nth k' sp 0 <= v) by (apply sorted_count_A; [exact SS|rewrite <- Hcsp; lia]).
    assert (Hvk' : v <= nth k' sp 0).
    { rewrite <- Ej. apply sorted_nth_le; [exact SS|lia|lia]. }
    assert (Crit : critical pc sp k').
    { split; [lia|]. eapply Qle_lt_trans; [exact Hk'v|exact H2]. }
    eapply Qle_trans; [exact Huv|]. eapply Qle_trans; [exact Hvk'|]. apply Kmax. exact Crit.
  - (* p_i <= T -> fdr_i < alpha *)
    intros HpT. rewrite KT in HpT.
    set (w := nth k sp 0) in *.
    assert (Hw : In w p) by (eapply Permutation_in; [exact Psp|apply nth_In; exact Kn]).
    assert (Hx := Lower w Hw HpT). unfold bh_val in Hx. fold n in Hx.
    assert (Hkc : (k < count_le w p)%nat).
    { rewrite <- (count_le_perm w sp p Psp). apply sorted_count_B; [exact SS|exact Kn|apply Qle_refl]. }
    eapply Qle_lt_trans; [exact Hx|].
    eapply Qle_lt_trans; [apply Q.le_min_r|].
    eapply Qle_lt_trans.
    + apply (div_anti_den (qnat n * w) (qnat (S k)) (qnat (count_le w p))).
      * apply Qmult_le_0_compat; [apply qnat_nonneg|apply NN; exact Hw].
      * apply qnat_pos. lia.
      * apply qnat_le. lia.
    + apply mul_lt_to_div; [apply qnat_pos; lia|].
      rewrite <- Npc. rewrite <- Qmult_assoc.
      apply Qmult_lt_l; [exact HN|]. exact Kc.
Qed.
