(* C06 - executable model (over Q) of
     nipy/algorithms/statistics/empirical_pvalue.py : check_p_values, fdr, fdr_threshold
     nipy/algorithms/statistics/utils.py            : z_score (the clip in front of norm.isf)
     nipy/modalities/fmri/glm.py                    : Contrast.stat / p_value / z_score / __add__ / __rmul__
     nipy/labs/glm/glm.py                           : contrast (the twin class)
   Definitions only; proofs are in Proofs*.v.  Transcendental pieces (sqrt,
   t/F/normal tails) are NOT here: the executable model takes the value the
   oracle returned as an argument and checks the oracle's defining equation
   (sd * sd == max(variance, tiny)); the theorems about them are in ModelR.v
   over the reals with the tails as Section variables. *)
From Coq Require Import List Bool Arith Lia QArith Qminmax Sorting Mergesort Orders Permutation.
From NV.Lib Require Import SlotAlg.
Import ListNotations.
Open Scope Q_scope.

(* ------------------------------------------------------------------ *)
(* check_p_values: every value inside [0,1]; the empty vector raises
   (p_values.min() of an empty array), NaN raises.                     *)
Definition in_unit (x : Q) : bool := Qle_bool 0 x && Qle_bool x 1.
Definition check_p (p : list Q) : bool :=
  match p with [] => false | _ => forallb in_unit p end.

(* ------------------------------------------------------------------ *)
(* p_values.argsort(): numpy's default sort is not stable, so the theorems
   are stated for ANY permutation `order` that sorts p (Proofs.v:
   fdr_order_independent).  The executable instance sorts the pairs
   (value, index) with the standard library merge sort.                *)
Module QIdx <: TotalLeBool.
  Definition t := (Q * nat)%type.
  Definition leb (x y : t) : bool := Qle_bool (fst x) (fst y).
  Theorem leb_total : forall x y, leb x y = true \/ leb y x = true.
  Proof.
    intros x y. unfold leb. rewrite !Qle_bool_iff.
    destruct (Qlt_le_dec (fst y) (fst x)) as [H|H]; [right; apply Qlt_le_weak; exact H|left; exact H].
  Qed.
End QIdx.
Module QSort := Sort QIdx.

Definition argsort_q (p : list Q) : list nat :=
  map snd (QSort.sort (combine p (seq 0 (length p)))).

(* p_values[order] *)
Definition gather (p : list Q) (order : list nat) : list Q := map (fun o => nth o p 0) order.

Definition qnat (n : nat) : Q := inject_Z (Z.of_nat n).

(* np.minimum(1, n_samples * sp_values / np.arange(1, n_samples + 1)), entry k (0-based) *)
Definition bh_raw (n k : nat) (x : Q) : Q := Qmin 1 (qnat n * x / qnat (S k)).
Fixpoint raw_from (n k : nat) (sp : list Q) : list Q :=
  match sp with
  | [] => []
  | x :: r => bh_raw n k x :: raw_from n (S k) r
  end.

(* for i in range(n - 1, 0, -1): q[i - 1] = min(q[i], q[i - 1])   (cumulative minimum from the end) *)
Fixpoint sufmin (l : list Q) : list Q :=
  match l with
  | [] => []
  | x :: r => let s := sufmin r in
              (match s with [] => x | m :: _ => Qmin m x end) :: s
  end.

(* inverse_order = arange(n); inverse_order[order] = arange(n): position of i in order *)
Definition inverse_order (order : list nat) : list nat :=
  map (fun i => index_of i order) (seq 0 (length order)).

(* the same scatter written as the sequence of assignments inverse_order[order[k]] = k *)
Fixpoint upd (l : list nat) (i v : nat) : list nat :=
  match l, i with
  | [], _ => []
  | _ :: r, O => v :: r
  | x :: r, S i' => x :: upd r i' v
  end.
Definition scatter (order : list nat) : list nat :=
  fold_left (fun inv k => upd inv (nth k order 0%nat) k) (seq 0 (length order)) (seq 0 (length order)).

Definition fdr_with (order : list nat) (p : list Q) : list Q :=
  let n := length p in
  let q := sufmin (raw_from n 0 (gather p order)) in
  map (fun k => nth k q 0) (inverse_order order).

Definition fdr (p : list Q) : option (list Q) :=
  if check_p p then Some (fdr_with (argsort_q p) p) else None.

(* the planted-bug shapes of DESIGN.md, used only in non-vacuity examples:
   result differs from fdr on a concrete vector *)
Definition fdr_with_scatter (order : list nat) (p : list Q) : list Q :=
  let n := length p in
  let q := sufmin (raw_from n 0 (gather p order)) in
  map (fun k => nth k q 0) (scatter order).

(* ------------------------------------------------------------------ *)
(* fdr_threshold(p_values, alpha) *)
Fixpoint critical_from (pc : Q) (k : nat) (sp : list Q) : list Q :=
  match sp with
  | [] => []
  | x :: r => if Qle_bool (pc * qnat (S k)) x then critical_from pc (S k) r
              else x :: critical_from pc (S k) r
  end.
Fixpoint qmax_list (d : Q) (l : list Q) : Q :=
  match l with [] => d | x :: r => qmax_list (Qmax d x) r end.

Definition fdr_threshold_with (order : list nat) (p : list Q) (alpha : Q) : Q :=
  let n := length p in
  let pc := alpha / qnat n in
  match critical_from pc 0 (gather p order) with
  | [] => pc
  | x :: r => qmax_list x r
  end.
Definition fdr_threshold (p : list Q) (alpha : Q) : option Q :=
  if check_p p then Some (fdr_threshold_with (argsort_q p) p alpha) else None.

(* ------------------------------------------------------------------ *)
(* Specification side: Benjamini-Hochberg step-up value, written without any
   sorting.  count_le v p = #{j : p_j <= v} is the rank of v (largest rank
   among ties). *)
Definition count_le (v : Q) (p : list Q) : nat := length (filter (fun x => Qle_bool x v) p).
Definition bh_val (p : list Q) (v : Q) : Q := Qmin 1 (qnat (length p) * v / qnat (count_le v p)).

(* x is the minimum of { bh_val p v : v in p, u <= v } *)
Definition is_bh (p : list Q) (u x : Q) : Prop :=
  (forall v, In v p -> u <= v -> x <= bh_val p v) /\
  (exists v, In v p /\ u <= v /\ x == bh_val p v).

(* executable BH reference (quadratic), for cross-checking the spec itself against
   an independent Python implementation in the harness *)
Definition bh_ref (p : list Q) : list Q :=
  map (fun u => fold_left (fun acc v => if Qle_bool u v then Qmin acc (bh_val p v) else acc) p 1) p.

(* ------------------------------------------------------------------ *)
(* utils.z_score: np.minimum(np.maximum(pvalue, 1.e-300), 1. - TINY) *)
Definition clip (lo hi p : Q) : Q := Qmin (Qmax p lo) hi.


(* ================================================================== *)
(* Contrast statistics.  The definitions are generic in the number type so
   that the SAME Gallina terms are (a) evaluated over Q in the correspondence
   (Exec.v: square roots are supplied by the harness from np.sqrt and checked
   by s*s == x) and (b) reasoned about over the reals with the real square
   root (ModelR.v / ProofsR.v).                                          *)
Record ops (F : Type) := mkOps {
  o_zero : F; o_one : F;
  o_add : F -> F -> F; o_sub : F -> F -> F; o_mul : F -> F -> F; o_div : F -> F -> F;
  o_max : F -> F -> F; o_min : F -> F -> F;
  o_ltb : F -> F -> bool;
  o_sqrt : F -> F }.
Arguments o_zero {F}. Arguments o_one {F}. Arguments o_add {F}. Arguments o_sub {F}.
Arguments o_mul {F}. Arguments o_div {F}. Arguments o_max {F}. Arguments o_min {F}.
Arguments o_ltb {F}. Arguments o_sqrt {F}.

Section Generic.
  Context {F : Type} (Op : ops F).

  (* Contrast.stat, dim == 1:  (effect - baseline) / sqrt(maximum(variance, tiny)) *)
  Definition g_tstat (e b v tiny : F) : F :=
    o_div Op (o_sub Op e b) (o_sqrt Op (o_max Op v tiny)).
  (* contrast_type == 'F', dim == 1:  stat ** 2 *)
  Definition g_f1stat (e b v tiny : F) : F :=
    let t := g_tstat e b v tiny in o_mul Op t t.

  (* tmin-conjunction: vdiag = variance.reshape(dim**2, n)[::dim+1]; stat = ((effect-b)/sqrt(max(vdiag,tiny))).min(0) *)
  Fixpoint stride_from {A} (s k : nat) (l : list A) : list A :=
    match l with
    | [] => []
    | x :: r => match k with
                | O => x :: stride_from s (Nat.pred s) r
                | S k' => stride_from s k' r
                end
    end.
  Definition vdiag (dim : nat) (V : list (list F)) : list F := stride_from (S dim) 0 (concat V).
  Fixpoint g_tstats (es vs : list F) (b tiny : F) : list F :=
    match es, vs with
    | e :: es', v :: vs' => g_tstat e b v tiny :: g_tstats es' vs' b tiny
    | _, _ => []
    end.
  Fixpoint g_min_list (d : F) (l : list F) : F :=
    match l with [] => d | x :: r => g_min_list (o_min Op d x) r end.
  Definition g_tmin (es : list F) (V : list (list F)) (b tiny : F) : option F :=
    match g_tstats es (vdiag (length es) V) b tiny with
    | [] => None
    | t :: r => Some (g_min_list t r)
    end.

  (* utils.z_score: np.minimum(np.maximum(pvalue, lo), hi) *)
  Definition g_clip (lo hi p : F) : F := o_min Op (o_max Op p lo) hi.

  (* np.minimum(self.dof, self.dofmax) *)
  Definition g_eff_dof (dof dofmax : F) : F := o_min Op dof dofmax.

  (* algorithms.utils.matrices.pos_recipr *)
  Definition g_pos_recipr (x : F) : F :=
    if o_ltb Op (o_zero Op) x then o_div Op (o_one Op) x else o_zero Op.

  (* LikelihoodModelResults.Tcontrast (one voxel): effect = c.theta, v = c cov c', sd = sqrt(v * dispersion) *)
  Definition g_T_sd (v disp : F) : F := o_sqrt Op (o_mul Op v disp).
  Definition g_T (ctheta v disp : F) : F := o_mul Op ctheta (g_pos_recipr (g_T_sd v disp)).
  (* LikelihoodModelResults.Fcontrast with one row (q = 1): invcov = inv(v) *)
  Definition g_F1 (ctheta invv disp : F) : F :=
    o_mul Op (o_mul Op (o_mul Op invv ctheta) ctheta) (g_pos_recipr (o_mul Op (o_one Op) disp)).
End Generic.

(* LikelihoodModelResults.Tcontrast with its options (one voxel):
     store      - which of 't', 'effect', 'sd' are kept (the others are None)
     dispersion - the caller's value, None -> self.dispersion   (vcov: `if dispersion is None: dispersion = self.dispersion`)
   effect is computed when 't' or 'effect' is stored, sd when 't' or 'sd' is stored,
   and BOTH with the same effective dispersion. *)
Record tres (F : Type) := mkT { r_t : option F; r_effect : option F; r_sd : option F }.
Arguments mkT {F}. Arguments r_t {F}. Arguments r_effect {F}. Arguments r_sd {F}.
Definition eff_disp {F : Type} (caller : option F) (self : F) : F :=
  match caller with Some d => d | None => self end.
Definition g_Tcontrast {F : Type} (Op : ops F) (st_t st_e st_sd : bool)
           (ctheta v : F) (disp_caller : option F) (disp_self : F) : tres F :=
  let d := eff_disp disp_caller disp_self in
  mkT (if st_t then Some (g_T Op ctheta v d) else None)
      (if st_e then Some ctheta else None)
      (if st_sd then Some (g_T_sd Op v d) else None).
(* Fcontrast with the caller's dispersion (one row; invv = inverse of c cov c', computed or passed as invcov=) *)
Definition g_Fcontrast1 {F : Type} (Op : ops F) (ctheta invv : F) (disp_caller : option F) (disp_self : F) : F :=
  g_F1 Op ctheta invv (eff_disp disp_caller disp_self).

(* ------------------------------------------------------------------ *)
(* Contrast.__add__ / __rmul__ (one voxel): effect vector, variance matrix, dof *)
Record contrast := mkC { c_eff : list Q; c_var : list (list Q); c_dof : Q }.

Fixpoint vaddq (a b : list Q) : list Q :=
  match a, b with
  | x :: a', y :: b' => (x + y) :: vaddq a' b'
  | _, _ => []
  end.
Fixpoint maddq (a b : list (list Q)) : list (list Q) :=
  match a, b with
  | x :: a', y :: b' => vaddq x y :: maddq a' b'
  | _, _ => []
  end.
Definition c_add (a b : contrast) : contrast :=
  mkC (vaddq (c_eff a) (c_eff b)) (maddq (c_var a) (c_var b)) (c_dof a + c_dof b).
(* effect * scalar, variance * scalar ** 2, dof *)
Definition c_scale (k : Q) (a : contrast) : contrast :=
  mkC (map (fun x => x * k) (c_eff a)) (map (map (fun x => x * (k * k))) (c_var a)) (c_dof a).

(* Multi-row F (one voxel), both implementations, as coded after /repo 552d8de:
     fmri.glm.Contrast.stat : multiple_mahalanobis(effect - baseline, variance) / dim
                              = sum_ij d_i d_j W_ij / dim,  W = LAPACK getrf/getri inverse of the variance
     labs.glm.contrast.stat : mahalanobis(effect - baseline, variance) / dim       (no floor on the matrix)
                              fff_mahalanobis: dpotrf  S = L L^t;  dtrsv  y = L^-1 d;  ssd(y) = sum y_i^2
   The ring-generic definitions and the theorem that the two agree are in Quad.v
   (fmri_F, labs_F); the Q instances used by the correspondence are in Exec.v. *)

(* ================================================================== *)
(* The cache of a Contrast object as a small state machine (identical logic in
   fmri.glm.Contrast and labs.glm.contrast):
     stat(b):     self.baseline = b; self.stat_ = <computed at b>           (p_value_ is NOT invalidated)
     p_value(b):  if stat_ is None or baseline != b: stat_ = stat(b)
                  p_value_ = tail(stat_)
     z_score(b):  if p_value_ is None or baseline != b: p_value_ = p_value(b)
                  z = isf(clip(p_value_)), masked with isnan(stat_)
     __rmul__/__add__: a NEW object, empty cache, baseline 0.
   Values are pure functions of (contents, baseline), so the model tracks only the
   TAG (contents, baseline) each cached / returned array was computed from.
   `fixed = true` is the repaired machine (stat() drops the cached p-value).     *)
Inductive cexp := CBase (i : nat) | CMul (k : Q) (c : cexp) | CAdd (a b : cexp).
Definition tag := (cexp * Q)%type.
Record cstate := mkS { s_c : cexp; s_bl : Q; s_st : option tag; s_pv : option tag }.
Inductive cop := OStat (b : Q) | OPval (b : Q) | OZ (b : Q) | OMul (k : Q) | OAdd (other : cexp).
Inductive obs := ObStat (t : tag) | ObP (t : tag) | ObZ (pt mt : tag) | ObNew.

Definition init_state (c : cexp) : cstate := mkS c 0 None None.

Definition do_stat (fixed : bool) (b : Q) (s : cstate) : cstate :=
  mkS (s_c s) b (Some (s_c s, b)) (if fixed then None else s_pv s).
Definition need (cache : option tag) (bl b : Q) : bool :=
  match cache with None => true | Some _ => negb (Qeq_bool bl b) end.
Definition tag_or (o : option tag) (d : tag) : tag := match o with Some t => t | None => d end.
Definition do_p (fixed : bool) (b : Q) (s : cstate) : cstate * tag :=
  let s1 := if need (s_st s) (s_bl s) b then do_stat fixed b s else s in
  let t := tag_or (s_st s1) (s_c s1, b) in
  (mkS (s_c s1) (s_bl s1) (s_st s1) (Some t), t).
Definition do_z (fixed : bool) (b : Q) (s : cstate) : cstate * obs :=
  let s1 := if need (s_pv s) (s_bl s) b then fst (do_p fixed b s) else s in
  (s1, ObZ (tag_or (s_pv s1) (s_c s1, b)) (tag_or (s_st s1) (s_c s1, b))).

Definition step (fixed : bool) (s : cstate) (o : cop) : cstate * obs :=
  match o with
  | OStat b => (do_stat fixed b s, ObStat (s_c s, b))
  | OPval b => let r := do_p fixed b s in (fst r, ObP (snd r))
  | OZ b => do_z fixed b s
  | OMul k => (init_state (CMul k (s_c s)), ObNew)
  | OAdd other => (init_state (CAdd (s_c s) other), ObNew)
  end.

Fixpoint run (fixed : bool) (s : cstate) (ops : list cop) : list obs :=
  match ops with
  | [] => []
  | o :: r => let sr := step fixed s o in snd sr :: run fixed (fst sr) r
  end.

(* what a correct (cache-free) object reports: everything computed from the current contents at the requested baseline *)
Fixpoint run_pure (c : cexp) (ops : list cop) : list obs :=
  match ops with
  | [] => []
  | OStat b :: r => ObStat (c, b) :: run_pure c r
  | OPval b :: r => ObP (c, b) :: run_pure c r
  | OZ b :: r => ObZ (c, b) (c, b) :: run_pure c r
  | OMul k :: r => ObNew :: run_pure (CMul k c) r
  | OAdd o :: r => ObNew :: run_pure (CAdd c o) r
  end.

Definition tag_equiv (a b : tag) : Prop := fst a = fst b /\ snd a == snd b.
Definition obs_equiv (a b : obs) : Prop :=
  match a, b with
  | ObStat t, ObStat u => tag_equiv t u
  | ObP t, ObP u => tag_equiv t u
  | ObZ p m, ObZ p' m' => tag_equiv p p' /\ tag_equiv m m'
  | ObNew, ObNew => True
  | _, _ => False
  end.

(* ------------------------------------------------------------------ *)
(* Sums of any number of contrasts (fixed effects).
   c1 + c2 + ... + ck is evaluated left to right: fold of __add__.
   FMRILinearModel.contrast accumulates the session contrasts in a loop, skipping the
   sessions whose contrast vector is null:
       contrast_ = None
       for glm, con in zip(self.glms, contrasts):
           if np.all(con == 0): warn(...)
           elif contrast_ is None: contrast_ = glm.contrast(con, ...)
           else: contrast_ = contrast_ + glm.contrast(con, ...)                         *)
Definition c_sum (c : contrast) (r : list contrast) : contrast := fold_left c_add r c.
Fixpoint fixed_effects_from (acc : option contrast) (sessions : list (option contrast)) : option contrast :=
  match sessions with
  | [] => acc
  | None :: r => fixed_effects_from acc r
  | Some c :: r => fixed_effects_from (Some (match acc with None => c | Some a => c_add a c end)) r
  end.
Definition fixed_effects (sessions : list (option contrast)) : option contrast :=
  fixed_effects_from None sessions.
(* the non-null sessions, in order *)
Fixpoint non_null (sessions : list (option contrast)) : list contrast :=
  match sessions with
  | [] => []
  | None :: r => non_null r
  | Some c :: r => c :: non_null r
  end.
