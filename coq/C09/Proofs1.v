(* C09 proofs, part 1: algebra of the translated weight/offset expressions,
   the FLOOR/UROUND macros, the inside test and array bounds. *)
From Coq Require Import ZArith QArith Qround Qabs List Bool Lia Lqa Ring.
From NV.Lib Require Import C09Base.
From NV.Generated Require Import JointHist.
From NV.C09 Require Import Model.
Import ListNotations.
Close Scope Q_scope.
Open Scope Z_scope.

(* ------------------------------------------------------------------ weights over any commutative ring *)
Section RingWeights.
  Variable R : Type.
  Variables (rO rI : R) (radd rmul rsub : R -> R -> R) (ropp : R -> R).
  Hypothesis Rth : ring_theory rO rI radd rmul rsub ropp (@eq R).
  Add Ring Rring : Rth.
  Notation "a + b" := (radd a b). Notation "a * b" := (rmul a b). Notation "a - b" := (rsub a b).

  (* trilinear weights of the 8 cube corners, corner (a,b,c) in the order
     (0,0,0) (0,0,1) (0,1,0) (0,1,1) (1,0,0) (1,0,1) (1,1,0) (1,1,1); w* is the
     weight of the floor side *)
  Definition tril (wx wy wz : R) : list R :=
    [wx * wy * wz; wx * wy * (rI - wz); wx * (rI - wy) * wz; wx * (rI - wy) * (rI - wz);
     (rI - wx) * wy * wz; (rI - wx) * wy * (rI - wz); (rI - wx) * (rI - wy) * wz;
     (rI - wx) * (rI - wy) * (rI - wz)].

  Lemma weights_trilinear_ring : forall nx ny nz Tx Ty Tz,
    gen_weights R rO rI radd rmul rsub nx ny nz Tx Ty Tz = tril (nx - Tx) (ny - Ty) (nz - Tz).
  Proof.
    intros. cbv [gen_weights tril].
    repeat (apply f_equal2; [ring|]). reflexivity.
  Qed.

  Lemma weights_sum_one_ring : forall nx ny nz Tx Ty Tz,
    fold_right radd rO (gen_weights R rO rI radd rmul rsub nx ny nz Tx Ty Tz) = rI.
  Proof. intros. cbv [gen_weights fold_right]. ring. Qed.
End RingWeights.

(* the same over Q (Qeq), for the instance the model runs *)
Definition trilQ (wx wy wz : Q) : list Q :=
  [wx * wy * wz; wx * wy * (1 - wz); wx * (1 - wy) * wz; wx * (1 - wy) * (1 - wz);
   (1 - wx) * wy * wz; (1 - wx) * wy * (1 - wz); (1 - wx) * (1 - wy) * wz;
   (1 - wx) * (1 - wy) * (1 - wz)]%Q.

Lemma qweights_trilinear : forall nx ny nz Tx Ty Tz,
  Forall2 Qeq (qweights nx ny nz Tx Ty Tz)
              (trilQ (inject_Z nx - Tx) (inject_Z ny - Ty) (inject_Z nz - Tz)).
Proof. intros. cbv [qweights gen_weights trilQ]. repeat constructor; ring. Qed.

Lemma qweights_sum_one : forall nx ny nz Tx Ty Tz, (qsum (qweights nx ny nz Tx Ty Tz) == 1)%Q.
Proof. intros. cbv [qweights gen_weights qsum]. ring. Qed.

Lemma qweights_length : forall nx ny nz Tx Ty Tz, length (qweights nx ny nz Tx Ty Tz) = 8%nat.
Proof. reflexivity. Qed.

Lemma trilQ_nonneg : forall wx wy wz, (0 <= wx <= 1 -> 0 <= wy <= 1 -> 0 <= wz <= 1 ->
  Forall (fun w => 0 <= w) (trilQ wx wy wz))%Q.
Proof.
  intros wx wy wz Hx Hy Hz. unfold trilQ.
  repeat constructor; repeat apply Qmult_le_0_compat; lra.
Qed.

Lemma Forall2_Qeq_nonneg : forall l1 l2, Forall2 Qeq l1 l2 -> Forall (fun w => (0 <= w)%Q) l2 ->
  Forall (fun w => (0 <= w)%Q) l1.
Proof.
  intros l1 l2 H. induction H as [|a b l1 l2 Hab _ IH]; intros Hn; constructor; inversion Hn as [|? ? Hb Hl]; subst.
  - rewrite Hab. exact Hb.
  - apply IH. exact Hl.
Qed.

Lemma qweights_nonneg : forall nx ny nz Tx Ty Tz,
  (0 <= inject_Z nx - Tx <= 1 -> 0 <= inject_Z ny - Ty <= 1 -> 0 <= inject_Z nz - Tz <= 1 ->
   Forall (fun w => 0 <= w) (qweights nx ny nz Tx Ty Tz))%Q.
Proof.
  intros. eapply Forall2_Qeq_nonneg; [apply qweights_trilinear | apply trilQ_nonneg; assumption].
Qed.

(* ------------------------------------------------------------------ the macros *)
Lemma c_FLOOR_is_floor : forall a, c_FLOOR a = Qfloor a.
Proof.
  intros a. unfold c_FLOOR. destruct (qltb (0 # 1) a) eqn:E.
  - apply qltb_spec in E. apply c_int_nonneg. lra.
  - apply qltb_false in E. rewrite (c_int_nonpos a) by lra.
    destruct (Qeq_bool (inject_Z (Qceiling a) - a) (0 # 1)) eqn:Eq; cbn [negb].
    + apply Qeq_bool_iff in Eq.
      assert (Ha : (a == inject_Z (Qceiling a))%Q) by lra.
      rewrite Ha at 2. symmetry. apply Qfloor_Z.
    + assert (Hne : ~ (inject_Z (Qceiling a) - a == 0)%Q).
      { intro Hc. apply Qeq_bool_iff in Hc. unfold Qeq_bool in *. congruence. }
      pose proof (Qfloor_le a) as H1. pose proof (Qlt_floor a) as H2.
      pose proof (Qle_ceiling a) as H3. pose proof (Qceiling_lt a) as H4.
      assert (A : (inject_Z (Qceiling a - 1) < inject_Z (Qfloor a + 1))%Q) by lra.
      rewrite <- Zlt_Qlt in A.
      assert (B : Qfloor a <= Qceiling a).
      { rewrite Zle_Qle. lra. }
      assert (C : Qceiling a <> Qfloor a).
      { intro Hc. apply Hne. rewrite Hc in *. lra. }
      lia.
Qed.

(* for a >= 0: UROUND is rounding to nearest, ties upward *)
Lemma c_UROUND_nonneg : forall a, (0 <= a)%Q -> c_UROUND a = Qfloor (a + (1 # 2)).
Proof. intros a H. unfold c_UROUND. apply c_int_nonneg. lra. Qed.

(* ------------------------------------------------------------------ inside test *)
Lemma inside_spec : forall i Tx Ty Tz d0 d1 d2,
  gen_inside i Tx Ty Tz d0 d1 d2 = true <->
  (0 <= i /\ ((inject_Z (-1) < Tx)%Q /\ (Tx < inject_Z (d0 - 2))%Q) /\
             ((inject_Z (-1) < Ty)%Q /\ (Ty < inject_Z (d1 - 2))%Q) /\
             ((inject_Z (-1) < Tz)%Q /\ (Tz < inject_Z (d2 - 2))%Q)).
Proof.
  intros. unfold gen_inside, gen_dimJX, gen_dimJY, gen_dimJZ.
  rewrite !andb_true_iff, !qltb_spec, Z.leb_le. cbn [Z.opp]. tauto.
Qed.

Lemma floor_plus1_range : forall T d, (inject_Z (-1) < T)%Q -> (T < inject_Z (d - 2))%Q ->
  0 <= Qfloor T + 1 <= d - 2 /\ (0 < inject_Z (Qfloor T + 1) - T /\ inject_Z (Qfloor T + 1) - T <= 1)%Q.
Proof.
  intros T d H1 H2.
  pose proof (Qfloor_le T) as F1. pose proof (Qlt_floor T) as F2.
  assert (A : (inject_Z (-1) < inject_Z (Qfloor T + 1))%Q) by lra.
  assert (B : (inject_Z (Qfloor T) < inject_Z (d - 2))%Q) by lra.
  rewrite <- Zlt_Qlt in A, B.
  split; [lia|].
  rewrite inject_Z_plus in F2 |- *. change (inject_Z 1) with 1%Q in *.
  change (inject_Z (-1)) with (-1)%Q in H1. split; lra.
Qed.

Lemma gen_nx_floor : forall T, gen_nx T = Qfloor T + 1.
Proof. intros. unfold gen_nx. now rewrite c_FLOOR_is_floor. Qed.
Lemma gen_ny_floor : forall T, gen_ny T = Qfloor T + 1.
Proof. intros. unfold gen_ny. now rewrite c_FLOOR_is_floor. Qed.
Lemma gen_nz_floor : forall T, gen_nz T = Qfloor T + 1.
Proof. intros. unfold gen_nz. now rewrite c_FLOOR_is_floor. Qed.

(* ------------------------------------------------------------------ offsets = cube corners *)
Definition flat (d1 d2 x y z : Z) : Z := (x * d1 + y) * d2 + z.

Lemma offsets_corners : forall d0 d1 d2 nx ny nz,
  gen_offsets d0 d1 d2 (gen_off d0 d1 d2 nx ny nz) =
  [flat d1 d2 nx ny nz; flat d1 d2 nx ny (nz + 1); flat d1 d2 nx (ny + 1) nz; flat d1 d2 nx (ny + 1) (nz + 1);
   flat d1 d2 (nx + 1) ny nz; flat d1 d2 (nx + 1) ny (nz + 1); flat d1 d2 (nx + 1) (ny + 1) nz;
   flat d1 d2 (nx + 1) (ny + 1) (nz + 1)].
Proof.
  intros. cbv [gen_offsets gen_off flat].
  repeat (apply f_equal2; [ring|]). reflexivity.
Qed.

Lemma flat_in_bounds : forall d0 d1 d2 x y z, 0 <= x < d0 -> 0 <= y < d1 -> 0 <= z < d2 ->
  0 <= flat d1 d2 x y z < d0 * d1 * d2.
Proof.
  intros d0 d1 d2 x y z Hx Hy Hz. unfold flat.
  assert (A : 0 <= x * d1 + y <= d0 * d1 - 1) by nia.
  assert (B : (x * d1 + y) * d2 <= (d0 * d1 - 1) * d2) by (apply Z.mul_le_mono_nonneg_r; lia).
  split; [nia|]. replace (d0 * d1 * d2) with ((d0 * d1 - 1) * d2 + d2) by ring. lia.
Qed.

Definition vox_wf_coords (d0 d1 d2 : Z) (v : vox) : Prop :=
  0 <= gen_nx (vx v) <= d0 - 2 /\ 0 <= gen_ny (vy v) <= d1 - 2 /\ 0 <= gen_nz (vz v) <= d2 - 2.

Lemma inside_coords : forall d0 d1 d2 v, vox_inside d0 d1 d2 v = true ->
  0 <= vi v /\ vox_wf_coords d0 d1 d2 v /\
  (0 <= inject_Z (gen_nx (vx v)) - vx v <= 1 /\ 0 <= inject_Z (gen_ny (vy v)) - vy v <= 1 /\
   0 <= inject_Z (gen_nz (vz v)) - vz v <= 1)%Q.
Proof.
  intros d0 d1 d2 v H. unfold vox_inside in H. apply inside_spec in H.
  destruct H as (Hi & (X1 & X2) & (Y1 & Y2) & (Z1 & Z2)).
  destruct (floor_plus1_range _ _ X1 X2) as (A1 & A2 & A3).
  destruct (floor_plus1_range _ _ Y1 Y2) as (B1 & B2 & B3).
  destruct (floor_plus1_range _ _ Z1 Z2) as (C1 & C2 & C3).
  unfold vox_wf_coords. rewrite gen_nx_floor, gen_ny_floor, gen_nz_floor.
  repeat split; try lia; lra.
Qed.

(* every J read of an inside voxel is inside the padded array *)
Lemma inside_reads_in_bounds : forall d0 d1 d2 v, vox_inside d0 d1 d2 v = true ->
  Forall (fun q => 0 <= q < d0 * d1 * d2) (gen_offsets d0 d1 d2 (vox_off d0 d1 d2 v)).
Proof.
  intros d0 d1 d2 v H. apply inside_coords in H. destruct H as (_ & (Hx & Hy & Hz) & _).
  unfold vox_off. rewrite offsets_corners.
  repeat (apply Forall_cons; [apply flat_in_bounds; lia|]). apply Forall_nil.
Qed.

Lemma inside_weights_nonneg : forall d0 d1 d2 v, vox_inside d0 d1 d2 v = true ->
  Forall (fun w => (0 <= w)%Q)
    (qweights (gen_nx (vx v)) (gen_ny (vy v)) (gen_nz (vz v)) (vx v) (vy v) (vz v)).
Proof.
  intros d0 d1 d2 v H. apply inside_coords in H. destruct H as (_ & _ & Hx & Hy & Hz).
  apply qweights_nonneg; assumption.
Qed.

(* integer coordinates: all the weight goes to corner (0,0,0) *)
Lemma integer_coords_weights : forall x y z : Z,
  Forall2 Qeq (qweights (gen_nx (inject_Z x)) (gen_ny (inject_Z y)) (gen_nz (inject_Z z))
                        (inject_Z x) (inject_Z y) (inject_Z z))
              [1; 0; 0; 0; 0; 0; 0; 0]%Q.
Proof.
  intros. rewrite gen_nx_floor, gen_ny_floor, gen_nz_floor, !Qfloor_Z.
  cbv [qweights gen_weights]. rewrite !inject_Z_plus. cbn [inject_Z].
  repeat constructor; ring.
Qed.
