From Coq Require Import ZArith QArith List Bool Lia Lqa.
From NV.Lib Require Import C09Base.
From NV.C09 Require Import Model ModelLoss.
Import ListNotations.
Close Scope Q_scope.

Lemma nonzeroQ_ge : forall tiny x, (tiny <= nonzeroQ tiny x)%Q.
Proof.
  intros tiny x. unfold nonzeroQ. destruct (Qle_bool tiny x) eqn:E.
  - apply Qle_bool_iff; exact E.
  - apply Qle_refl.
Qed.

Lemma nonzeroQ_small : forall tiny x, (x < tiny)%Q -> nonzeroQ tiny x = tiny.
Proof.
  intros tiny x H. unfold nonzeroQ. destruct (Qle_bool tiny x) eqn:E; [|reflexivity].
  apply Qle_bool_iff in E. exfalso. apply (Qlt_irrefl x). eapply Qlt_le_trans; eauto.
Qed.

Lemma nonzeroQ_big : forall tiny x, (tiny <= x)%Q -> nonzeroQ tiny x = x.
Proof.
  intros tiny x H. unfold nonzeroQ. apply Qle_bool_iff in H. rewrite H. reflexivity.
Qed.

(* ---- columns of colsum *)
Lemma colsum_nth : forall q nc j, Forall (fun r => length r = nc) q -> (j < nc)%nat ->
  (nth j (colsum q nc) 0 == col_total q j)%Q.
Proof.
  intros q nc j F Hj. induction F as [|r R Hr F IH]; unfold col_total; cbn [colsum map qsum].
  - rewrite nth_repeat. reflexivity.
  - fold (col_total R j).
    assert (L : length (colsum R nc) = nc).
    { clear -F. induction F as [|r R Hr F IH]; cbn [colsum].
      - apply repeat_length.
      - rewrite map_length, combine_length, IH, Hr. apply Nat.min_id. }
    rewrite <- IH.
    assert (E : forall (a b : list Q) (k : nat), length a = length b -> (k < length a)%nat ->
               nth k (map (fun p => (fst p + snd p)%Q) (combine a b)) 0%Q = (nth k a 0 + nth k b 0)%Q).
    { clear. induction a as [|x a IHa]; intros [|y b] k Hl Hk; cbn in *; try lia.
      destruct k as [|k]; [reflexivity|]. apply IHa; lia. }
    rewrite E; [reflexivity | lia | lia].
Qed.

(* ---- entry of loss_arg *)
Lemma div_row_nth : forall tiny qI ri row j, length row = length qI -> (j < length row)%nat ->
  nth j (div_row tiny qI ri row) 0%Q = loss_cell tiny (nth j row 0%Q) (nth j qI 0%Q) ri.
Proof.
  intros tiny qI ri row. revert qI. induction row as [|x row IH]; intros [|c qI] j Hl Hj; cbn in *; try lia.
  destruct j as [|j]; [reflexivity|]. apply IH; lia.
Qed.

Lemma colsum_len : forall q nc, Forall (fun r => length r = nc) q -> length (colsum q nc) = nc.
Proof.
  intros q nc F. induction F as [|r R Hr F IH]; cbn [colsum].
  - apply repeat_length.
  - rewrite map_length, combine_length, IH, Hr. apply Nat.min_id.
Qed.

Lemma loss_arg_entry : forall tiny nc q i j,
  Forall (fun r => length r = nc) q -> (i < length q)%nat -> (j < nc)%nat ->
  nth j (nth i (loss_arg tiny nc q) []) 0%Q =
    loss_cell tiny (nth j (nth i q []) 0%Q) (nth j (colsum q nc) 0%Q) (qsum (nth i q [])).
Proof.
  intros tiny nc q i j F Hi Hj. unfold loss_arg.
  set (qI := colsum q nc).
  assert (LqI : length qI = nc) by (apply colsum_len; exact F).
  change (@nil Q) with ((fun row => div_row tiny qI (qsum row) row) []) at 1.
  rewrite map_nth.
  assert (Lr : length (nth i q []) = nc).
  { rewrite Forall_forall in F. apply F. apply nth_In. exact Hi. }
  apply div_row_nth; lia.
Qed.

Lemma loss_arg_shape : forall tiny nc q, Forall (fun r => length r = nc) q ->
  length (loss_arg tiny nc q) = length q /\ Forall (fun r => length r = nc) (loss_arg tiny nc q).
Proof.
  intros tiny nc q F. unfold loss_arg. split; [apply map_length|].
  pose proof (colsum_len q nc F) as L.
  rewrite Forall_forall in *. intros r Hr. apply in_map_iff in Hr. destruct Hr as [row [E Hin]]. subst r.
  unfold div_row. rewrite map_length, combine_length, L, (F row Hin). apply Nat.min_id.
Qed.

(* (T1) every entry of the array handed to log is the floored ratio q_ij / (col_j row_i) *)
Lemma dist2loss_arg_spec_l : forall tiny nc q, Forall (fun r => length r = nc) q ->
  length (loss_arg tiny nc q) = length q /\ Forall (fun r => length r = nc) (loss_arg tiny nc q) /\
  forall i j, (i < length q)%nat -> (j < nc)%nat ->
    exists c, (c == col_total q j)%Q /\
      nth j (nth i (loss_arg tiny nc q) []) 0%Q =
        nonzeroQ tiny ((nth j (nth i q []) 0 / nonzeroQ tiny c) / nonzeroQ tiny (qsum (nth i q [])))%Q.
Proof.
  intros tiny nc q F. destruct (loss_arg_shape tiny nc q F) as [A B]. split; [exact A|]. split; [exact B|].
  intros i j Hi Hj. exists (nth j (colsum q nc) 0%Q). split.
  - apply colsum_nth; assumption.
  - rewrite loss_arg_entry by assumption. reflexivity.
Qed.

(* (T2) the argument of log is always >= TINY > 0, and a cell to which the model gives probability 0 gets EXACTLY TINY:
   its loss is -log(TINY), it is never skipped. A positive cell whose marginals are >= TINY and whose ratio is >= TINY
   gets the plain ratio. *)
Lemma loss_cell_ge : forall tiny a c r, (tiny <= loss_cell tiny a c r)%Q.
Proof. intros. unfold loss_cell. apply nonzeroQ_ge. Qed.

Lemma loss_cell_zero : forall tiny a c r, (0 < tiny)%Q -> (a == 0)%Q -> loss_cell tiny a c r = tiny.
Proof.
  intros tiny a c r Ht Ha. unfold loss_cell. apply nonzeroQ_small.
  assert (E : (a / nonzeroQ tiny c / nonzeroQ tiny r == 0)%Q).
  { rewrite Ha. unfold Qdiv. ring. }
  rewrite E. exact Ht.
Qed.

Lemma dist2loss_floor_l : forall tiny nc q i j, (0 < tiny)%Q ->
  Forall (fun r => length r = nc) q -> (i < length q)%nat -> (j < nc)%nat ->
  let a := nth j (nth i (loss_arg tiny nc q) []) 0%Q in
  (0 < a)%Q /\ (tiny <= a)%Q /\
  ((nth j (nth i q []) 0 == 0)%Q -> a = tiny) /\
  (forall c ri, c = nth j (colsum q nc) 0%Q -> ri = qsum (nth i q []) ->
     (tiny <= c)%Q -> (tiny <= ri)%Q -> (tiny <= nth j (nth i q []) 0 / c / ri)%Q ->
     a = (nth j (nth i q []) 0 / c / ri)%Q).
Proof.
  intros tiny nc q i j Ht F Hi Hj a. subst a. rewrite loss_arg_entry by assumption.
  split; [|split; [|split]].
  - eapply Qlt_le_trans; [exact Ht | apply loss_cell_ge].
  - apply loss_cell_ge.
  - intros Hz. apply loss_cell_zero; assumption.
  - intros c ri Hc Hr H1 H2 H3. subst c ri. unfold loss_cell.
    rewrite (nonzeroQ_big tiny (nth j (colsum q nc) 0%Q)) by assumption.
    rewrite (nonzeroQ_big tiny (qsum (nth i q []))) by assumption.
    apply nonzeroQ_big. assumption.
Qed.

(* (T3) the measure is the mean log-likelihood ratio *)
Lemma dot_row_neg : forall f h a, (dot_row (fun x => - f x) h a == - dot_row f h a)%Q.
Proof.
  intros f h. unfold dot_row. induction h as [|x h IH]; intros [|y a]; cbn [combine map qsum]; try ring.
  rewrite IH. cbn [fst snd]. ring.
Qed.

Lemma dotf_neg : forall f H A, (dotf (fun x => - f x) H A == - dotf f H A)%Q.
Proof.
  intros f H. unfold dotf. induction H as [|h H IH]; intros [|a A]; cbn [combine map qsum]; try ring.
  rewrite IH. cbn [fst snd]. rewrite dot_row_neg. ring.
Qed.

Lemma measure_call_mean : forall logf tiny renorm H A,
  (measure_call logf tiny renorm H A ==
   if renorm then dotf logf H A else dotf logf H A / nonzeroQ tiny (total H))%Q.
Proof.
  intros logf tiny renorm H A. unfold measure_call. cbv zeta.
  pose proof (dotf_neg logf H A) as E.
  destruct renorm; rewrite E; [ring|]. unfold Qdiv. ring.
Qed.

(* weight on zero-probability cells: with a log oracle that is negative at TINY, one count on such a cell of a
   one-row histogram costs log(TINY) *)
Lemma dot_row_app : forall f h1 a1 h2 a2, length h1 = length a1 ->
  (dot_row f (h1 ++ h2) (a1 ++ a2) == dot_row f h1 a1 + dot_row f h2 a2)%Q.
Proof.
  intros f h1. unfold dot_row. induction h1 as [|x h1 IH]; intros [|y a1] h2 a2 Hl; cbn in Hl; try lia.
  - cbn [app combine map qsum]. ring.
  - cbn [app combine map qsum fst snd]. rewrite IH by lia. ring.
Qed.
