(* C09 proofs, part 5: the rational similarity measures are the textbook
   (centred) formulas evaluated on H. *)
From Coq Require Import ZArith QArith Qround Qabs List Bool Lia Lqa Field.
From NV.Lib Require Import C09Base.
From NV.Generated Require Import JointHist.
From NV.C09 Require Import Model Proofs4.
Import ListNotations.
Close Scope Q_scope.
Open Scope Z_scope.

Definition sqdev (m : Q) (k : Z) : Q := ((inject_Z k - m) * (inject_Z k - m))%Q.

Lemma wsum_quad : forall a b c l k,
  (wsum_from k (fun j => a * inject_Z (j * j) + b * inject_Z j + c) l
   == a * wsum_from k sqq l + b * wsum_from k idq l + c * qsum l)%Q.
Proof.
  intros a b c l. induction l as [|x l IH]; intros k; cbn [wsum_from qsum]; [ring|].
  rewrite IH. unfold idq, sqq. ring.
Qed.

Lemma wsum_ext : forall p q l k, (forall j, (p j == q j)%Q) -> (wsum_from k p l == wsum_from k q l)%Q.
Proof. intros p q l k H. apply wsum_ext_range. intros j _. apply H. Qed.

Lemma wsum_sqdev : forall m l k,
  (wsum_from k (sqdev m) l == wsum_from k sqq l - 2 * m * wsum_from k idq l + m * m * qsum l)%Q.
Proof.
  intros m l k.
  rewrite (wsum_ext (sqdev m) (fun j => 1 * inject_Z (j * j) + (- (2) * m) * inject_Z j + m * m)%Q).
  - rewrite wsum_quad. ring.
  - intros j. unfold sqdev. rewrite inject_Z_mult. ring.
Qed.

(* E[x^2] - E[x]^2 = E[(x - E x)^2] for any weights with non-zero total *)
Lemma variance_identity : forall l, ~ (qsum l == 0)%Q ->
  let m := (wsum_from 0 idq l / qsum l)%Q in
  (wsum_from 0 sqq l / qsum l - m * m == wsum_from 0 (sqdev m) l / qsum l)%Q.
Proof. intros l Hn m. rewrite wsum_sqdev. subst m. field. exact Hn. Qed.

(* ------------------------------------------------------------------ double sums over the rows of H *)
Fixpoint dsum_from (r : Z) (f : Z -> Z -> Q) (R : list (list Q)) : Q :=
  match R with [] => 0%Q | row :: rest => (wsum_from 0 (f r) row + dsum_from (r + 1) f rest)%Q end.

Lemma dsum_ext : forall f g R r, (forall i j, (f i j == g i j)%Q) -> (dsum_from r f R == dsum_from r g R)%Q.
Proof.
  intros f g R. induction R as [|row R IH]; intros r H; cbn [dsum_from]; [reflexivity|].
  rewrite (wsum_ext (f r) (g r)) by (intros j; apply H). rewrite IH by exact H. reflexivity.
Qed.

Lemma dsum_poly : forall a b d e g h R r,
  (dsum_from r (fun i j => a * inject_Z (i * j) + b * inject_Z i + d * inject_Z j + e
                           + g * inject_Z (j * j) + h * inject_Z (i * i)) R
   == a * wsum_from r idq (map (wsum_from 0 idq) R) + b * wsum_from r idq (map qsum R)
      + d * qsum (map (wsum_from 0 idq) R) + e * qsum (map qsum R)
      + g * qsum (map (wsum_from 0 sqq) R) + h * wsum_from r sqq (map qsum R))%Q.
Proof.
  intros a b d e g h R. induction R as [|row R IH]; intros r; cbn [dsum_from map wsum_from qsum]; [ring|].
  rewrite IH.
  rewrite (wsum_ext _ (fun j => g * inject_Z (j * j) + (a * inject_Z r + d) * inject_Z j
                                + (b * inject_Z r + e + h * inject_Z (r * r)))%Q).
  - rewrite wsum_quad. unfold idq, sqq. ring.
  - intros j. rewrite inject_Z_mult. ring.
Qed.

Lemma rows_sum : forall nc nr H, length H = (nr * nc)%nat -> (qsum (map qsum (rows nc nr H)) == qsum H)%Q.
Proof.
  intros nc nr. induction nr as [|nr IH]; intros H HL; cbn [rows map qsum].
  - destruct H; [reflexivity|discriminate].
  - rewrite IH.
    + symmetry. apply firstn_skipn_sum.
    + rewrite skipn_length. lia.
Qed.

(* means, variances and covariance of the joint histogram, centred form;
   I = column index, J = row index as in similarity_measures.py *)
Definition Hmean_I (R : list (list Q)) (N : Q) : Q := (dsum_from 0 (fun _ j => inject_Z j) R / N)%Q.
Definition Hmean_J (R : list (list Q)) (N : Q) : Q := (dsum_from 0 (fun i _ => inject_Z i) R / N)%Q.
Definition Hvar_I (R : list (list Q)) (N : Q) : Q := (dsum_from 0 (fun _ j => sqdev (Hmean_I R N) j) R / N)%Q.
Definition Hvar_J (R : list (list Q)) (N : Q) : Q := (dsum_from 0 (fun i _ => sqdev (Hmean_J R N) i) R / N)%Q.
Definition Hcov (R : list (list Q)) (N : Q) : Q :=
  (dsum_from 0 (fun i j => (inject_Z i - Hmean_J R N) * (inject_Z j - Hmean_I R N)) R / N)%Q.

Lemma cc_parts_centred : forall nr nc H, length H = (nr * nc)%nat -> ~ (qsum H == 0)%Q ->
  let R := rows nc nr H in let N := qsum H in
  let '(cIJ, vI, vJ) := cc_parts nr nc H in
  (cIJ == Hcov R N /\ vI == Hvar_I R N /\ vJ == Hvar_J R N)%Q.
Proof.
  intros nr nc H HL Hn R N. unfold cc_parts. fold R. fold N.
  pose proof (rows_sum nc nr H HL) as S1. fold R in S1. fold N in S1.
  assert (MI : (Hmean_I R N == qsum (map (wsum_from 0 idq) R) / N)%Q).
  { unfold Hmean_I.
    rewrite (dsum_ext _ (fun i j => 0 * inject_Z (i * j) + 0 * inject_Z i + 1 * inject_Z j + 0 + 0 * inject_Z (j * j) + 0 * inject_Z (i * i))%Q)
      by (intros; ring).
    rewrite dsum_poly. field. exact Hn. }
  assert (MJ : (Hmean_J R N == wsum_from 0 idq (map qsum R) / N)%Q).
  { unfold Hmean_J.
    rewrite (dsum_ext _ (fun i j => 0 * inject_Z (i * j) + 1 * inject_Z i + 0 * inject_Z j + 0 + 0 * inject_Z (j * j) + 0 * inject_Z (i * i))%Q)
      by (intros; ring).
    rewrite dsum_poly. field. exact Hn. }
  set (mI := Hmean_I R N) in *. set (mJ := Hmean_J R N) in *.
  repeat split.
  - unfold Hcov. fold mI. fold mJ.
    rewrite (dsum_ext _ (fun i j => 1 * inject_Z (i * j) + (- mI) * inject_Z i + (- mJ) * inject_Z j + mI * mJ + 0 * inject_Z (j * j) + 0 * inject_Z (i * i))%Q)
      by (intros; rewrite inject_Z_mult; ring).
    rewrite dsum_poly, S1. rewrite <- MI, <- MJ.
    assert (A : (qsum (map (wsum_from 0 idq) R) == mI * N)%Q) by (rewrite MI; field; exact Hn).
    assert (B : (wsum_from 0 idq (map qsum R) == mJ * N)%Q) by (rewrite MJ; field; exact Hn).
    rewrite A, B. field. exact Hn.
  - unfold Hvar_I. fold mI.
    rewrite (dsum_ext _ (fun i j => 0 * inject_Z (i * j) + 0 * inject_Z i + (- (2) * mI) * inject_Z j + mI * mI + 1 * inject_Z (j * j) + 0 * inject_Z (i * i))%Q)
      by (intros; unfold sqdev; rewrite !inject_Z_mult; ring).
    rewrite dsum_poly, S1. rewrite <- MI.
    assert (A : (qsum (map (wsum_from 0 idq) R) == mI * N)%Q) by (rewrite MI; field; exact Hn).
    rewrite A. field. exact Hn.
  - unfold Hvar_J. fold mJ.
    rewrite (dsum_ext _ (fun i j => 0 * inject_Z (i * j) + (- (2) * mJ) * inject_Z i + 0 * inject_Z j + mJ * mJ + 0 * inject_Z (j * j) + 1 * inject_Z (i * i))%Q)
      by (intros; unfold sqdev; rewrite !inject_Z_mult; ring).
    rewrite dsum_poly, S1. rewrite <- MJ.
    assert (B : (wsum_from 0 idq (map qsum R) == mJ * N)%Q) by (rewrite MJ; field; exact Hn).
    rewrite B. field. exact Hn.
Qed.

Lemma cc_formula : forall nr nc H, length H = (nr * nc)%nat -> ~ (qsum H == 0)%Q ->
  let R := rows nc nr H in let N := qsum H in
  (cc_rho2 nr nc H == Hcov R N * Hcov R N / (Hvar_I R N * Hvar_J R N))%Q.
Proof.
  intros nr nc H HL Hn R N. pose proof (cc_parts_centred nr nc H HL Hn) as P. cbv zeta in P. fold R in P. fold N in P.
  unfold cc_rho2. destruct (cc_parts nr nc H) as [[cIJ vI] vJ]. destruct P as (A & B & C).
  rewrite Qred_correct, A, B, C. reflexivity.
Qed.

(* ------------------------------------------------------------------ correlation ratio *)
Definition row_mean (row : list Q) : Q := (wsum_from 0 idq row / qsum row)%Q.
(* within-row sum of squares around the row mean *)
Definition ssw (row : list Q) : Q := wsum_from 0 (sqdev (row_mean row)) row.
Definition row_ok (tiny : Q) (row : list Q) : Prop := (tiny <= qsum row)%Q \/ Forall (fun x => (x == 0)%Q) row.

Lemma nonzeroQ_id : forall tiny x, (tiny <= x)%Q -> nonzeroQ tiny x = x.
Proof. intros tiny x H. unfold nonzeroQ. apply Qle_bool_iff in H. rewrite H. reflexivity. Qed.

Lemma wsum_zeros : forall p l k, Forall (fun x => (x == 0)%Q) l -> (wsum_from k p l == 0)%Q.
Proof.
  intros p l k H. revert k. induction H as [|x l Hx _ IH]; intros k; cbn [wsum_from]; [reflexivity|].
  rewrite Hx, IH. ring.
Qed.

Lemma qsum_zeros_list : forall l, Forall (fun x => (x == 0)%Q) l -> (qsum l == 0)%Q.
Proof. intros l H. induction H as [|x l Hx _ IH]; cbn [qsum]; [reflexivity|]. rewrite Hx, IH. ring. Qed.

Lemma row_var_ssw : forall tiny row, (0 < tiny)%Q -> row_ok tiny row ->
  let n := nonzeroQ tiny (qsum row) in
  (qsum row * (wsum_from 0 sqq row / n - (wsum_from 0 idq row / n) * (wsum_from 0 idq row / n)) == ssw row)%Q.
Proof.
  intros tiny row Ht [Hge | Hz] n; subst n.
  - rewrite nonzeroQ_id by exact Hge.
    assert (Hn : ~ (qsum row == 0)%Q) by lra.
    pose proof (variance_identity row Hn) as V. cbv zeta in V. fold (row_mean row) in V.
    unfold ssw. fold (row_mean row). rewrite V. field. exact Hn.
  - unfold ssw. rewrite (wsum_zeros (sqdev (row_mean row)) row 0 Hz).
    pose proof (qsum_zeros_list row Hz) as Z0.
    set (X := (_ - _)%Q). rewrite Z0. apply Qmult_0_l.
Qed.

Lemma colsum_length : forall R nc, (length (colsum R nc) <= nc)%nat /\ (Forall (fun r => length r = nc) R -> length (colsum R nc) = nc).
Proof.
  induction R as [|r R IH]; intros nc; cbn [colsum].
  - rewrite repeat_length. split; [lia|reflexivity].
  - destruct (IH nc) as [A B]. rewrite map_length, combine_length. split; [lia|].
    intros F. inversion F as [|? ? F1 F2]; subst. rewrite (B F2). lia.
Qed.

Lemma qsum_map_add : forall a b : list Q, length a = length b ->
  (qsum (map (fun p => fst p + snd p) (combine a b)) == qsum a + qsum b)%Q.
Proof.
  induction a as [|x a IH]; intros [|y b] HL; cbn [combine map qsum fst snd length] in *; try discriminate; [ring|].
  rewrite IH by congruence. ring.
Qed.

Lemma wsum_map_add : forall p (a b : list Q) k, length a = length b ->
  (wsum_from k p (map (fun q => fst q + snd q) (combine a b)) == wsum_from k p a + wsum_from k p b)%Q.
Proof.
  intros p. induction a as [|x a IH]; intros [|y b] k HL; cbn [combine map wsum_from fst snd length] in *; try discriminate; [ring|].
  rewrite IH by congruence. ring.
Qed.

Lemma colsum_sums : forall p R nc, Forall (fun r => length r = nc) R ->
  (wsum_from 0 p (colsum R nc) == qsum (map (wsum_from 0 p) R))%Q /\
  (qsum (colsum R nc) == qsum (map qsum R))%Q.
Proof.
  intros p R nc F. induction F as [|r R Hr F IH]; cbn [colsum map qsum].
  - split.
    + apply wsum_zeros. clear. induction nc; cbn [repeat]; constructor; [reflexivity|assumption].
    + apply qsum_zeros_list. clear. induction nc; cbn [repeat]; constructor; [reflexivity|assumption].
  - destruct IH as [A B]. destruct (colsum_length R nc) as [_ L]. specialize (L F).
    split.
    + rewrite wsum_map_add by congruence. rewrite A. reflexivity.
    + rewrite qsum_map_add by congruence. rewrite B. reflexivity.
Qed.

(* the correlation ratio of similarity_measures.py is 1 - SS_within / SS_total *)
Lemma cr_formula : forall tiny nr nc H,
  let R := rows nc nr H in
  let N := qsum (map qsum R) in
  let hI := colsum R nc in
  (0 < tiny)%Q -> Forall (fun r => length r = nc) R -> Forall (row_ok tiny) R ->
  (tiny <= N)%Q -> (tiny <= wsum_from 0 (sqdev (row_mean hI)) hI / N)%Q ->
  (cr_eta2 tiny nr nc H == 1 - qsum (map ssw R) / wsum_from 0 (sqdev (row_mean hI)) hI)%Q.
Proof.
  intros tiny nr nc H R N hI Ht FL Fok HN HV. unfold cr_eta2. fold R. fold hI. fold N.
  rewrite Qred_correct. rewrite (nonzeroQ_id tiny N HN).
  destruct (colsum_sums idq R nc FL) as [_ SN]. fold hI in SN. fold N in SN.
  assert (Nn : ~ (N == 0)%Q) by lra.
  assert (HIn : ~ (qsum hI == 0)%Q) by (rewrite SN; exact Nn).
  assert (RM : (row_mean hI == wsum_from 0 idq hI / N)%Q) by (unfold row_mean; rewrite SN; reflexivity).
  pose proof (wsum_sqdev (row_mean hI) hI 0) as WS.
  assert (V : (wsum_from 0 sqq hI / N - wsum_from 0 idq hI / N * (wsum_from 0 idq hI / N)
               == wsum_from 0 (sqdev (row_mean hI)) hI / N)%Q).
  { rewrite WS, SN, RM. field. exact Nn. }
  cbv zeta.
  rewrite (nonzeroQ_id tiny (wsum_from 0 sqq hI / N - wsum_from 0 idq hI / N * (wsum_from 0 idq hI / N))%Q) by (rewrite V; exact HV).
  rewrite V.
  assert (W : (qsum (map (fun p : Q * Q => fst p * snd p)
                 (combine (map qsum R)
                    (map (fun r => wsum_from 0 sqq r / nonzeroQ tiny (qsum r)
                                   - wsum_from 0 idq r / nonzeroQ tiny (qsum r) * (wsum_from 0 idq r / nonzeroQ tiny (qsum r))) R)))
               == qsum (map ssw R))%Q).
  { clear -Ht Fok. induction Fok as [|r R Hr _ IH]; cbn [map combine qsum fst snd]; [reflexivity|].
    rewrite IH. pose proof (row_var_ssw tiny r Ht Hr) as E. cbv zeta in E. rewrite E. reflexivity. }
  rewrite W. field. split; [|exact Nn].
  intro Z0. rewrite Z0 in HV. assert ((0 / N == 0)%Q) by (field; exact Nn). lra.
Qed.

(* ------------------------------------------------------------------ L1 correlation ratio
   crl1_eta2 is, literally, 1 - (sum_r n_r * s_r / nz(n)) / nz(s) with (n_r, _, s_r) = L1_moments(row r)
   and (n, _, s) = L1_moments(column sums); by l1_moments_spec n_r * s_r is the absolute deviation
   of row r around its weighted median *)
Lemma crl1_unfold : forall tiny nr nc H,
  let R := rows nc nr H in
  (crl1_eta2 tiny nr nc H ==
   1 - (qsum (map (fun r => qsum r * snd (l1_moments r)) R) / nonzeroQ tiny (fst (fst (l1_moments (colsum R nc)))))
       / nonzeroQ tiny (snd (l1_moments (colsum R nc))))%Q.
Proof.
  intros tiny nr nc H R. unfold crl1_eta2. fold R.
  destruct (l1_moments (colsum R nc)) as [[n m] s]. rewrite Qred_correct. cbn [fst snd].
  assert (E : map (fun p : Q * Q => (fst p * snd p)%Q) (combine (map qsum R) (map (fun m0 => snd m0) (map l1_moments R)))
              = map (fun r => (qsum r * snd (l1_moments r))%Q) R).
  { clear. induction R as [|r R IH]; cbn [map combine fst snd]; [reflexivity|]. rewrite IH. reflexivity. }
  rewrite E. reflexivity.
Qed.

Lemma row_absdev : forall r, (0 < qsum r)%Q ->
  exists m : nat, (m < length r)%nat /\
    ((1 # 2) * qsum r <= qsum (firstn (S m) r))%Q /\
    (forall t, (t < m)%nat -> (qsum (firstn (S t) r) < (1 # 2) * qsum r)%Q) /\
    (qsum r * snd (l1_moments r) == wsum_from 0 (absdev (Z.of_nat m)) r)%Q.
Proof.
  intros r Hp. destruct (l1_moments r) as [[N med] dev] eqn:E.
  destruct (l1_moments_spec r N med dev Hp E) as (_ & m & Hm & _ & H1 & H2 & H3).
  exists m. cbn [snd]. repeat split; try assumption. rewrite <- H3. ring.
Qed.
