(* C09 proofs, part 4: L1_moments - weighted median and mean absolute deviation. *)
From Coq Require Import ZArith QArith Qround Qabs List Bool Lia Lqa Field.
From NV.Lib Require Import C09Base.
From NV.Generated Require Import JointHist.
From NV.C09 Require Import Model.
Import ListNotations.
Close Scope Q_scope.
Open Scope Z_scope.

(* ------------------------------------------------------------------ weighted sums *)
Lemma qsum_app : forall a b, (qsum (a ++ b) == qsum a + qsum b)%Q.
Proof. induction a as [|x a IH]; intros b; cbn [app qsum]; [ring|]. rewrite IH. ring. Qed.

Lemma wsum_app : forall p a b k,
  (wsum_from k p (a ++ b) == wsum_from k p a + wsum_from (k + Z.of_nat (length a)) p b)%Q.
Proof.
  intros p a. induction a as [|x a IH]; intros b k; cbn [app wsum_from length].
  - replace (k + Z.of_nat 0) with k by lia. ring.
  - rewrite IH. replace (k + 1 + Z.of_nat (length a)) with (k + Z.of_nat (S (length a))) by lia. ring.
Qed.

Lemma wsum_ext_range : forall p q l k,
  (forall j, k <= j < k + Z.of_nat (length l) -> (p j == q j)%Q) ->
  (wsum_from k p l == wsum_from k q l)%Q.
Proof.
  intros p q l. induction l as [|x l IH]; intros k H; cbn [wsum_from]; [reflexivity|].
  cbn [length] in H. rewrite (H k) by lia. rewrite (IH (k + 1)); [reflexivity|].
  intros j Hj. apply H. lia.
Qed.

Lemma wsum_affine : forall a b l k,
  (wsum_from k (fun j => a * inject_Z j + b) l == a * wsum_from k idq l + b * qsum l)%Q.
Proof.
  intros a b l. induction l as [|x l IH]; intros k; cbn [wsum_from qsum]; [ring|].
  rewrite IH. unfold idq. ring.
Qed.

Lemma firstn_skipn_sum : forall n l, (qsum l == qsum (firstn n l) + qsum (skipn n l))%Q.
Proof. intros n l. rewrite <- (firstn_skipn n l) at 1. apply qsum_app. Qed.

(* ------------------------------------------------------------------ the two loops *)
Lemma l1_scan_spec : forall rest i cpdf dev lim m c d,
  l1_scan rest i cpdf dev lim = (m, c, d) ->
  exists n, (n <= length rest)%nat /\ m = i + Z.of_nat n /\
    (c == cpdf + qsum (firstn n rest))%Q /\
    (d == dev - wsum_from (i + 1) idq (firstn n rest))%Q /\
    (forall t, (t < n)%nat -> (cpdf + qsum (firstn t rest) < lim)%Q) /\
    (n = length rest \/ (lim <= c)%Q).
Proof.
  induction rest as [|b r IH]; intros i cpdf dev lim m c d E; cbn [l1_scan] in E.
  - inversion E; subst. exists 0%nat. cbn [firstn qsum wsum_from length].
    repeat split; try lia; try ring; try (left; reflexivity).
  - unfold gen_l1_cont in E. destruct (qltb cpdf lim) eqn:C.
    + apply qltb_spec in C. apply IH in E. destruct E as (n & Hn & Hm & Hc & Hd & Hlt & Hstop).
      exists (S n). cbn [firstn qsum wsum_from length]. unfold gen_l1_dcpdf, gen_l1_ddev1 in *.
      repeat split.
      * lia.
      * lia.
      * rewrite Hc. ring.
      * rewrite Hd. unfold idq. rewrite inject_Z_opp. replace (i + 1 + 1) with (i + 1 + 1) by lia. ring.
      * intros t Ht. destruct t as [|t]; cbn [firstn qsum]; [lra|].
        assert (Ht' : (t < n)%nat) by lia. specialize (Hlt t Ht'). lra.
      * destruct Hstop as [-> | Hs]; [left; reflexivity | right; exact Hs].
    + apply qltb_false in C. inversion E; subst. exists 0%nat. cbn [firstn qsum wsum_from].
      repeat split; try lia; try ring; try (right; lra).
Qed.

Lemma l1_tail_spec : forall rest i dev, (l1_tail rest i dev == dev + wsum_from i idq rest)%Q.
Proof.
  induction rest as [|b r IH]; intros i dev; cbn [l1_tail wsum_from]; [ring|].
  rewrite IH. unfold gen_l1_ddev3, idq. ring.
Qed.

(* |k - m| as a weight function *)
Definition absdev (m : Z) (k : Z) : Q := inject_Z (Z.abs (k - m)).

Lemma absdev_split : forall (m : nat) h, (m < length h)%nat ->
  (wsum_from 0 (absdev (Z.of_nat m)) h ==
   inject_Z (Z.of_nat m) * qsum (firstn (S m) h) - wsum_from 0 idq (firstn (S m) h)
   + wsum_from (Z.of_nat m + 1) idq (skipn (S m) h) - inject_Z (Z.of_nat m) * qsum (skipn (S m) h))%Q.
Proof.
  intros m h Hm. set (M := Z.of_nat m).
  rewrite <- (firstn_skipn (S m) h) at 1. rewrite wsum_app.
  assert (L : length (firstn (S m) h) = S m) by (apply firstn_length_le; lia).
  rewrite L. replace (0 + Z.of_nat (S m)) with (M + 1) by lia.
  rewrite (wsum_ext_range (absdev M) (fun j => (-1 # 1) * inject_Z j + inject_Z M)%Q (firstn (S m) h) 0).
  2:{ intros j Hj. rewrite L in Hj. unfold absdev. rewrite Z.abs_neq by lia.
      replace (- (j - M)) with (M + - j) by lia. rewrite inject_Z_plus, inject_Z_opp. ring. }
  rewrite (wsum_ext_range (absdev M) (fun j => 1 * inject_Z j + - inject_Z M)%Q (skipn (S m) h) (M + 1)).
  2:{ intros j Hj. unfold absdev. rewrite Z.abs_eq by lia.
      replace (j - M) with (j + - M) by lia. rewrite inject_Z_plus, inject_Z_opp. ring. }
  rewrite !wsum_affine. ring.
Qed.

(* L1_moments on ANY histogram with positive total (entries need not even be
   non-negative): total, weighted median = first index whose cumulative mass
   reaches half the total, deviation = mean absolute deviation around it *)
Lemma l1_moments_spec : forall h N med dev,
  (0 < qsum h)%Q -> l1_moments h = (N, med, dev) ->
  (N == qsum h)%Q /\
  exists m : nat, (m < length h)%nat /\ med = inject_Z (Z.of_nat m) /\
    ((1 # 2) * qsum h <= qsum (firstn (S m) h))%Q /\
    (forall t, (t < m)%nat -> (qsum (firstn (S t) h) < (1 # 2) * qsum h)%Q) /\
    (dev * qsum h == wsum_from 0 (absdev (Z.of_nat m)) h)%Q.
Proof.
  intros h N med dev Hpos E. unfold l1_moments in E.
  assert (T : l1_total h = qsum h).
  { unfold l1_total. f_equal. unfold gen_l1_dn. apply map_id. }
  rewrite T in E. unfold gen_l1_guard in E. change (inject_Z 0) with 0%Q in E.
  replace (qltb 0 (qsum h)) with true in E by (symmetry; now apply qltb_spec).
  destruct h as [|b0 rest]; [cbn in Hpos; lra|].
  destruct (l1_scan rest 0 (gen_l1_cpdf0 b0) 0%Q (gen_l1_lim (qsum (b0 :: rest)))) as [[m c] d] eqn:S.
  apply l1_scan_spec in S. destruct S as (n & Hn & Hm & Hc & Hd & Hlt & Hstop).
  unfold gen_l1_cpdf0, gen_l1_lim in *. assert (Hm' : m = Z.of_nat n) by lia. clear Hm. subst m.
  set (h := b0 :: rest) in *.
  assert (Hpre : (qsum (firstn (S n) h) == c)%Q) by (cbn [firstn qsum h]; rewrite Hc; ring).
  assert (Hlen : (n < length h)%nat) by (cbn [length h]; lia).
  assert (Htail : forall dv, ((if gen_l1_tailguard (gen_l1_med (Z.of_nat n)) (Z.of_nat (length h))
                  then l1_tail (skipn (Z.to_nat (gen_l1_med (Z.of_nat n))) h) (gen_l1_med (Z.of_nat n)) dv else dv)
                 == dv + wsum_from (Z.of_nat n + 1) idq (skipn (S n) h))%Q).
  { intros dv. unfold gen_l1_tailguard, gen_l1_med. replace (Z.to_nat (Z.of_nat n + 1)) with (S n) by lia.
    destruct (Z.of_nat n + 1 <? Z.of_nat (length h)) eqn:G.
    - apply l1_tail_spec.
    - apply Z.ltb_ge in G. rewrite skipn_all2 by lia. cbn [wsum_from]. ring. }
  change (Z.pos (Pos.of_succ_nat (length rest))) with (Z.of_nat (length h)) in E.
  change (b0 + qsum rest)%Q with (qsum h) in E.
  injection E as EN Emed Edev.
  split; [rewrite <- EN; reflexivity|]. exists n. split; [exact Hlen|]. split; [rewrite <- Emed; reflexivity|].
  split; [|split].
  - rewrite Hpre. destruct Hstop as [Hall | Hs]; [|exact Hs].
    (* scan exhausted: the cumulative mass is the total *)
    assert (Hc' : (c == qsum h)%Q).
    { rewrite Hc. subst n. rewrite firstn_all. cbn [h qsum]. ring. }
    rewrite Hc'. lra.
  - intros t Ht. specialize (Hlt t Ht). cbn [firstn qsum h]. exact Hlt.
  - rewrite <- Edev.
    pose proof (Htail (d + gen_l1_ddev2 c (qsum h) (gen_l1_median (Z.of_nat n)))%Q) as HT.
    match goal with |- (?X / ?D * ?SS == ?R)%Q =>
      assert (HX : (X == (d + gen_l1_ddev2 c (qsum h) (gen_l1_median (Z.of_nat n)))
                        + wsum_from (Z.of_nat n + 1) idq (skipn (S n) h))%Q) by exact HT;
      rewrite HX end.
    unfold gen_l1_div, gen_l1_ddev2, gen_l1_median.
    rewrite (absdev_split n h Hlen).
    pose proof (firstn_skipn_sum (S n) h) as Hsplit.
    assert (Hw : (wsum_from 0 idq (firstn (S n) h) == wsum_from (0 + 1) idq (firstn n rest))%Q).
    { cbn [firstn h wsum_from]. unfold idq at 1. cbn [inject_Z]. ring. }
    rewrite Hw. rewrite Hd. rewrite Hpre.
    assert (Hq : (qsum (skipn (S n) h) == qsum h - c)%Q) by lra.
    rewrite Hq. change (inject_Z 2) with 2%Q.
    change (b0 + qsum rest)%Q with (qsum h). field. lra.
Qed.
