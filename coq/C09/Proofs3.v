(* C09 proofs, part 3: the random-neighbour rule (specification under its
   implicit precondition, and the counterexamples without it). *)
From Coq Require Import ZArith QArith Qround Qabs List Bool Lia Lqa.
From NV.Lib Require Import C09Base.
From NV.Generated Require Import JointHist.
From NV.C09 Require Import Model Proofs1 Proofs2.
Import ListNotations.
Close Scope Q_scope.
Open Scope Z_scope.

Lemma rand_pick_spec : forall ws s draw k,
  Forall (fun w => (0 <= w)%Q) ws -> (s <= draw)%Q -> (draw < s + qsum ws)%Q ->
  exists m, (m < length ws)%nat /\ rand_pick ws s draw k = k + Z.of_nat m /\ (0 < nth m ws 0)%Q.
Proof.
  induction ws as [|w r IH]; intros s draw k Hw H1 H2; cbn [qsum] in H2.
  - lra.
  - inversion Hw as [|? ? Hw1 Hw2]; subst. cbn [rand_pick]. unfold gen_rand_dsum2, gen_rand_break.
    destruct (qltb draw (s + w)) eqn:E.
    + apply qltb_spec in E. exists 0%nat. cbn [length nth]. repeat split; [lia|lia|lra].
    + apply qltb_false in E.
      destruct (IH (s + w)%Q draw (k + 1) Hw2 E ltac:(lra)) as (m & Hm & Hp & Hn).
      exists (S m). cbn [length nth]. repeat split; [lia|rewrite Hp; lia|exact Hn].
Qed.

Lemma nth_firstn_lt : forall (A : Type) n m (l : list A) d, (m < n)%nat -> nth m (firstn n l) d = nth m l d.
Proof.
  intros A n. induction n as [|n IH]; intros m l d H; [lia|].
  destruct l as [|a l]; [destruct m; reflexivity|]. destruct m as [|m]; cbn; [reflexivity|]. apply IH. lia.
Qed.

Lemma new_buf_nth : forall nb buf m, (length nb <= 8)%nat -> (m < length nb)%nat ->
  nth m (new_buf nb buf) (-1) = fst (nth m nb (-1, 0%Q)).
Proof.
  intros nb buf m H8 Hm. unfold new_buf. rewrite nth_firstn_lt by lia.
  rewrite app_nth1 by (rewrite map_length; exact Hm).
  change (-1) with (fst (-1, 0%Q)) at 1. apply map_nth.
Qed.

(* the rule as documented: nothing when no buffered neighbour has positive
   weight; otherwise one unit in the bin of an actual neighbour of positive
   weight, whatever the stale part of the buffer holds *)
Lemma rand_sumW_eq : forall nb, rand_sumW nb = qsum (map snd nb).
Proof. reflexivity. Qed.

Lemma rand_skip_spec : forall s, gen_rand_skip s = true <-> ~ (0 < s)%Q.
Proof.
  intros s. unfold gen_rand_skip. change (0 # 1)%Q with 0%Q. rewrite negb_true_iff. split.
  - intros E. apply qltb_false in E. lra.
  - intros E. apply qltb_false. lra.
Qed.

Lemma rand_update_spec : forall i cJ nb u buf,
  (length nb <= 8)%nat -> Forall (fun p => (0 <= snd p)%Q) nb -> (0 <= u)%Q -> (u < 1)%Q ->
  (~ (0 < qsum (map snd nb))%Q /\ rand_updates i cJ nb u (new_buf nb buf) = []) \/
  ((0 < qsum (map snd nb))%Q /\
   exists p, In p nb /\ (0 < snd p)%Q /\
             rand_updates i cJ nb u (new_buf nb buf) = [(fst p + cJ * i, 1%Q)]).
Proof.
  intros i cJ nb u buf H8 Hw Hu0 Hu1. unfold rand_updates. rewrite rand_sumW_eq.
  destruct (gen_rand_skip (qsum (map snd nb))) eqn:Sk.
  - left. split; [now apply rand_skip_spec|reflexivity].
  - right. assert (Hs : (0 < qsum (map snd nb))%Q).
    { destruct (Qlt_le_dec 0 (qsum (map snd nb))) as [L|L]; [exact L|].
      assert (K : gen_rand_skip (qsum (map snd nb)) = true) by (apply rand_skip_spec; lra). congruence. }
    split; [exact Hs|]. unfold gen_rand_draw.
    set (S := qsum (map snd nb)) in *.
    assert (D0 : (0 <= S * u)%Q) by (apply Qmult_le_0_compat; lra).
    assert (D1 : (S * u < 0 + S)%Q).
    { setoid_replace (0 + S)%Q with (S * 1)%Q by ring. apply Qmult_lt_l; assumption. }
    assert (Hw' : Forall (fun w => (0 <= w)%Q) (map snd nb)).
    { apply Forall_forall. intros w Hin. apply in_map_iff in Hin. destruct Hin as (p & <- & Hp).
      rewrite Forall_forall in Hw. apply Hw. exact Hp. }
    destruct (rand_pick_spec (map snd nb) 0%Q (S * u)%Q 0 Hw' D0 D1) as (m & Hm & Hp & Hn).
    rewrite map_length in Hm. rewrite Hp.
    exists (nth m nb (-1, 0%Q)). split; [apply nth_In; exact Hm|]. split.
    + change 0%Q with (snd (-1, 0%Q)) in Hn at 2. rewrite map_nth in Hn. exact Hn.
    + unfold gen_rand_index, gen_rand_incr. cbn [inject_Z].
      replace (Z.to_nat (0 + Z.of_nat m)) with m by lia.
      rewrite new_buf_nth by assumption. reflexivity.
Qed.

(* one voxel of the interp<0 loop, for ALL inputs: either H is untouched, or
   exactly one in-range bin (row vi, column = value of a positive-weight
   neighbour) gains one unit and every other bin is unchanged *)
Lemma rand_step_spec : forall J d0 d1 d2 cI cJ H buf u us v,
  wfJ J cJ -> 0 <= cJ -> vi v < cI -> length H = Z.to_nat (cI * cJ) ->
  (0 <= u)%Q -> (u < 1)%Q ->
  let st' := rand_step J d0 d1 d2 cJ (H, buf, u :: us) v in
  let H' := fst (fst st') in
  (H' = H /\ snd st' = u :: us /\
   (vox_inside d0 d1 d2 v = false \/ ~ (0 < qsum (map snd (neigh J d0 d1 d2 v)))%Q)) \/
  (vox_inside d0 d1 d2 v = true /\ snd st' = us /\
   exists p, In p (neigh J d0 d1 d2 v) /\ (0 < snd p)%Q /\
     let k := fst p + cJ * vi v in
     0 <= fst p < cJ /\ 0 <= k < cI * cJ /\ H' = add_at k 1%Q H /\
     (getq H' k == getq H k + 1)%Q /\ (forall m, 0 <= m -> m <> k -> getq H' m = getq H m) /\
     (qsum H' == qsum H + 1)%Q).
Proof.
  intros J d0 d1 d2 cI cJ H buf u us v HJ Hc Hi HL Hu0 Hu1. cbv zeta. unfold rand_step.
  destruct (vox_inside d0 d1 d2 v) eqn:Hin; [|left; cbn; auto].
  pose proof (neigh_ok J d0 d1 d2 cJ v HJ Hc Hin) as Hnb.
  assert (Hw : Forall (fun p : Z * Q => (0 <= snd p)%Q) (neigh J d0 d1 d2 v)).
  { eapply Forall_impl; [|exact Hnb]. intros p [_ Hp]. exact Hp. }
  destruct (rand_update_spec (vi v) cJ (neigh J d0 d1 d2 v) u buf (neigh_length J d0 d1 d2 v) Hw Hu0 Hu1)
    as [[Hz E] | [Hs (p & Hp & Hpos & E)]].
  - left. rewrite rand_sumW_eq. replace (gen_rand_skip (qsum (map snd (neigh J d0 d1 d2 v)))) with true
      by (symmetry; now apply rand_skip_spec). cbn. auto.
  - right. rewrite rand_sumW_eq.
    replace (gen_rand_skip (qsum (map snd (neigh J d0 d1 d2 v)))) with false.
    2:{ symmetry. destruct (gen_rand_skip (qsum (map snd (neigh J d0 d1 d2 v)))) eqn:K; [|reflexivity].
        apply rand_skip_spec in K. contradiction. }
    rewrite E. cbn [fst snd apply_updates fold_left]. split; [reflexivity|]. split; [reflexivity|].
    exists p. split; [exact Hp|]. split; [exact Hpos|].
    rewrite Forall_forall in Hnb. destruct (Hnb p Hp) as [Hj _].
    destruct (inside_coords _ _ _ _ Hin) as (Hi0 & _).
    assert (Hk : 0 <= fst p + cJ * vi v < cI * cJ) by (apply hist_index_in_bounds; lia).
    assert (HkL : 0 <= fst p + cJ * vi v < Z.of_nat (length H)).
    { rewrite HL. assert (0 <= cI * cJ) by (apply Z.mul_nonneg_nonneg; lia). lia. }
    split; [exact Hj|]. split; [exact Hk|]. split; [reflexivity|]. split; [now apply add_at_get_same|].
    split; [intros m Hm Hne; apply add_at_get_other; [exact Hm|congruence]|now apply add_at_sum].
Qed.
