(* C09 proofs, part 3: the random-neighbour rule (specification under its
   implicit precondition, and the counterexamples without it). *)
From Coq Require Import ZArith QArith Qround Qabs List Bool Lia Lqa.
From NV.Lib Require Import C09Base.
From NV.Generated Require Import JointHist.
From NV.C09 Require Import Model Proofs1 Proofs2.
Import ListNotations.
Close Scope Q_scope.
Open Scope Z_scope.

Lemma rand_pick_spec : forall ws s draw k,
  Forall (fun w => (0 <= w)%Q) ws -> (s <= draw)%Q -> (draw < s + qsum ws)%Q ->
  exists m, (m < length ws)%nat /\ rand_pick ws s draw k = k + Z.of_nat m /\ (0 < nth m ws 0)%Q.
Proof.
  induction ws as [|w r IH]; intros s draw k Hw H1 H2; cbn [qsum] in H2.
  - lra.
  - inversion Hw as [|? ? Hw1 Hw2]; subst. cbn [rand_pick]. unfold gen_rand_dsum2, gen_rand_break.
    destruct (qltb draw (s + w)) eqn:E.
    + apply qltb_spec in E. exists 0%nat. cbn [length nth]. repeat split; [lia|lia|lra].
    + apply qltb_false in E.
      destruct (IH (s + w)%Q draw (k + 1) Hw2 E ltac:(lra)) as (m & Hm & Hp & Hn).
      exists (S m). cbn [length nth]. repeat split; [lia|rewrite Hp; lia|exact Hn].
Qed.

Lemma nth_firstn_lt : forall (A : Type) n m (l : list A) d, (m < n)%nat -> nth m (firstn n l) d = nth m l d.
Proof.
  intros A n. induction n as [|n IH]; intros m l d H; [lia|].
  destruct l as [|a l]; [destruct m; reflexivity|]. destruct m as [|m]; cbn; [reflexivity|]. apply IH. lia.
Qed.

Lemma new_buf_nth : forall nb buf m, (length nb <= 8)%nat -> (m < length nb)%nat ->
  nth m (new_buf nb buf) (-1) = fst (nth m nb (-1, 0%Q)).
Proof.
  intros nb buf m H8 Hm. unfold new_buf. rewrite nth_firstn_lt by lia.
  rewrite app_nth1 by (rewrite map_length; exact Hm).
  change (-1) with (fst (-1, 0%Q)) at 1. apply map_nth.
Qed.

(* the rule as documented: one unit, in the bin of an actual neighbour of
   positive weight - PROVIDED some neighbour has positive weight *)
Lemma rand_update_spec : forall i cJ nb u buf,
  (length nb <= 8)%nat -> Forall (fun p => (0 <= snd p)%Q) nb ->
  (0 < qsum (map snd nb))%Q -> (0 <= u)%Q -> (u < 1)%Q ->
  exists p, In p nb /\ (0 < snd p)%Q /\
            rand_updates i cJ nb u (new_buf nb buf) = [(fst p + cJ * i, 1%Q)].
Proof.
  intros i cJ nb u buf H8 Hw Hs Hu0 Hu1. unfold rand_updates.
  assert (Es : rand_sumW nb = qsum (map snd nb)) by reflexivity.
  rewrite Es. unfold gen_rand_draw.
  set (S := qsum (map snd nb)) in *.
  assert (D0 : (0 <= S * u)%Q) by (apply Qmult_le_0_compat; lra).
  assert (D1 : (S * u < 0 + S)%Q).
  { setoid_replace (0 + S)%Q with (S * 1)%Q by ring. apply Qmult_lt_l; assumption. }
  assert (Hw' : Forall (fun w => (0 <= w)%Q) (map snd nb)).
  { apply Forall_forall. intros w Hin. apply in_map_iff in Hin. destruct Hin as (p & <- & Hp).
    rewrite Forall_forall in Hw. apply Hw. exact Hp. }
  destruct (rand_pick_spec (map snd nb) 0%Q (S * u)%Q 0 Hw' D0 D1) as (m & Hm & Hp & Hn).
  rewrite map_length in Hm. rewrite Hp.
  exists (nth m nb (-1, 0%Q)). split; [apply nth_In; exact Hm|]. split.
  - change 0%Q with (snd (-1, 0%Q)) in Hn at 2. rewrite map_nth in Hn. exact Hn.
  - unfold gen_rand_index, gen_rand_incr. cbn [inject_Z].
    replace (Z.to_nat (0 + Z.of_nat m)) with m by lia.
    rewrite new_buf_nth by assumption. reflexivity.
Qed.

(* ------------------------------------------------------------------ counterexamples (finding)
   target row of 4 voxels padded to 6x3x3; cex_J a b c d has these four values *)
Definition cex_J (a b c d : Z) : list Z :=
  repeat (-1) 13 ++ [a] ++ repeat (-1) 8 ++ [b] ++ repeat (-1) 8 ++ [c] ++ repeat (-1) 8 ++ [d] ++ repeat (-1) 13.
Definition cex_v0 := mkvox 0 (1 # 2) 0 0.     (* between target voxels 0 and 1 *)
Definition cex_v1 := mkvox 1 2 0 0.           (* exactly on target voxel 2 *)
Definition cex_buf0 : list Z := [5; 5; 5; 5; 5; 5; 5; 5].
