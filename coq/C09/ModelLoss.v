(* C09: the distribution-model loss of similarity_measures.py.
   dist2loss(q):   qI = q.sum(0) (column sums), qJ = q.sum(1) (row sums), both of the ORIGINAL q;
                   q /= nonzero(qI)  (entry (i,j) divided by max(qI[j], TINY));
                   qT /= nonzero(qJ) (entry (i,j) divided by max(qJ[i], TINY));
                   return -np.log(nonzero(q)).
   SimilarityMeasure.__call__: total_loss = sum(H * loss(H)); /= nonzero(npoints(H)) unless renormalize; return -total_loss.
   SupervisedLikelihoodRatio.loss = dist2loss(dist).
   `loss_arg` is the array handed to np.log; np.log itself is an oracle (a function Q -> Q given to the model). *)
From Coq Require Import ZArith QArith List Bool Lia.
From NV.Lib Require Import C09Base.
From NV.C09 Require Import Model.
Import ListNotations.
Close Scope Q_scope.

Definition loss_cell (tiny qij cj ri : Q) : Q :=
  nonzeroQ tiny ((qij / nonzeroQ tiny cj) / nonzeroQ tiny ri)%Q.

Definition div_row (tiny : Q) (qI : list Q) (ri : Q) (row : list Q) : list Q :=
  map (fun p => loss_cell tiny (fst p) (snd p) ri) (combine row qI).

Definition loss_arg (tiny : Q) (nc : nat) (q : list (list Q)) : list (list Q) :=
  let qI := colsum q nc in
  map (fun row => div_row tiny qI (qsum row) row) q.

(* sum_ij H[i][j] * f(A[i][j]) *)
Definition dot_row (f : Q -> Q) (h a : list Q) : Q :=
  qsum (map (fun c => (fst c * f (snd c))%Q) (combine h a)).
Definition dotf (f : Q -> Q) (H A : list (list Q)) : Q :=
  qsum (map (fun p => dot_row f (fst p) (snd p)) (combine H A)).

Definition total (H : list (list Q)) : Q := qsum (map qsum H).

(* SimilarityMeasure.__call__ with loss = -log(A) *)
Definition measure_call (logf : Q -> Q) (tiny : Q) (renorm : bool) (H A : list (list Q)) : Q :=
  let total_loss := dotf (fun a => (- logf a)%Q) H A in
  (- (if renorm then total_loss else total_loss / nonzeroQ tiny (total H)))%Q.

Definition slr_value (logf : Q -> Q) (tiny : Q) (renorm : bool) (nc : nat) (H q : list (list Q)) : Q :=
  measure_call logf tiny renorm H (loss_arg tiny nc q).

(* mathematical column sum *)
Definition col_total (q : list (list Q)) (j : nat) : Q := qsum (map (fun r => nth j r 0%Q) q).
