(* C09 proofs, part 6: registering an image to itself under the identity gives
   a diagonal histogram (whole voxel loop, pv and tri). *)
From Coq Require Import ZArith QArith Qround Qabs List Bool Lia Lqa.
From NV.Lib Require Import C09Base.
From NV.Generated Require Import JointHist.
From NV.C09 Require Import Model Proofs1 Proofs2.
Import ListNotations.
Close Scope Q_scope.
Open Scope Z_scope.

(* v sits at integer coordinates (x,y,z) inside the (unpadded) target grid
   and the target holds v's own intensity there *)
Definition self_located (J : list Z) (d0 d1 d2 : Z) (v : vox) : Prop :=
  exists x y z : Z, vx v = inject_Z x /\ vy v = inject_Z y /\ vz v = inject_Z z /\
    0 <= x <= d0 - 3 /\ 0 <= y <= d1 - 3 /\ 0 <= z <= d2 - 3 /\
    getJ J (flat d1 d2 (x + 1) (y + 1) (z + 1)) = vi v.

Lemma self_inside : forall J d0 d1 d2 v, self_located J d0 d1 d2 v -> 0 <= vi v -> vox_inside d0 d1 d2 v = true.
Proof.
  intros J d0 d1 d2 v (x & y & z & Ex & Ey & Ez & Hx & Hy & Hz & _) Hi.
  unfold vox_inside. apply inside_spec. rewrite Ex, Ey, Ez.
  rewrite <- !Zlt_Qlt. lia.
Qed.

Lemma zero_tail : forall ws zs, Forall2 Qeq ws zs -> Forall (fun z => (z == 0)%Q) zs ->
  forall js : list Z, Forall (fun p : Z * Q => (snd p == 0)%Q) (combine js ws).
Proof.
  intros ws zs F. induction F as [|w z ws zs Hwz _ IH]; intros Hz js.
  - destruct js; constructor.
  - inversion Hz as [|? ? Hz0 Hz']; subst. destruct js as [|j js]; cbn [combine]; constructor.
    + cbn [snd]. rewrite Hwz. exact Hz0.
    + apply IH. exact Hz'.
Qed.

Lemma Forall_filter : forall (A : Type) (P : A -> Prop) f l, Forall P l -> Forall P (filter f l).
Proof.
  intros A P f l H. induction H as [|a l Ha _ IH]; cbn [filter]; [constructor|].
  destruct (f a); [constructor; assumption|assumption].
Qed.

Lemma qsum_zeros : forall l : list (Z * Q), Forall (fun p => (snd p == 0)%Q) l -> (qsum (map snd l) == 0)%Q.
Proof. intros l H. induction H as [|p l Hp _ IH]; cbn [map qsum]; [reflexivity|]. rewrite Hp, IH. ring. Qed.

Lemma filter_combine_head : forall (f : Z * Q -> bool) a b js ws, f (a, b) = true ->
  filter f (combine (a :: js) (b :: ws)) = (a, b) :: filter f (combine js ws).
Proof. intros f a b js ws H. cbn [combine filter]. rewrite H. reflexivity. Qed.

(* the buffered neighbour list of a self-located voxel: itself with weight 1,
   then only zero weights *)
Lemma self_neigh : forall J d0 d1 d2 v, self_located J d0 d1 d2 v -> 0 <= vi v ->
  exists w0 rest, neigh J d0 d1 d2 v = (vi v, w0) :: rest /\ (w0 == 1)%Q /\
                  Forall (fun p => (snd p == 0)%Q) rest.
Proof.
  intros J d0 d1 d2 v (x & y & z & Ex & Ey & Ez & Hx & Hy & Hz & HJ) Hi.
  unfold neigh, candidates, vox_off. rewrite Ex, Ey, Ez.
  pose proof (integer_coords_weights x y z) as W.
  rewrite offsets_corners.
  rewrite gen_nx_floor, gen_ny_floor, gen_nz_floor, !Qfloor_Z in *.
  remember (qweights (x + 1) (y + 1) (z + 1) (inject_Z x) (inject_Z y) (inject_Z z)) as ws eqn:Ews.
  inversion W as [|w0 o ws' zs' E0 W' Eq1 Eq2]. clear W. subst o zs'.
  cbn [map]. rewrite HJ.
  rewrite filter_combine_head by (cbn [fst]; unfold gen_append_cond; lia).
  eexists. eexists. split; [reflexivity|]. split; [exact E0|].
  apply Forall_filter. eapply zero_tail; [exact W'|]. repeat constructor.
Qed.

Lemma add_at_get_zero : forall k w H m, (w == 0)%Q -> 0 <= m -> (getq (add_at k w H) m == getq H m)%Q.
Proof.
  intros k w H m Hw Hm. destruct (Z.eq_dec k m) as [->|Hne].
  - destruct (Z_lt_dec m (Z.of_nat (length H))) as [L|L].
    + rewrite add_at_get_same by lia. rewrite Hw. ring.
    + unfold add_at. replace ((0 <=? m) && (m <? Z.of_nat (length H))) with false by lia. reflexivity.
  - rewrite add_at_get_other by assumption. reflexivity.
Qed.

Lemma apply_zero_updates : forall us H m, Forall (fun p : Z * Q => (snd p == 0)%Q) us -> 0 <= m ->
  (getq (apply_updates us H) m == getq H m)%Q.
Proof.
  induction us as [|u us IH]; intros H m Hz Hm; cbn [apply_updates fold_left]; [reflexivity|].
  inversion Hz as [|? ? Hu Hus]; subst.
  change (fold_left (fun H p => add_at (fst p) (snd p) H) us (add_at (fst u) (snd u) H))
    with (apply_updates us (add_at (fst u) (snd u) H)).
  rewrite IH by assumption. apply add_at_get_zero; assumption.
Qed.

Lemma uround_of_int : forall q i, 0 <= i -> (q == inject_Z i)%Q -> c_UROUND q = i.
Proof.
  intros q i Hi Hq. rewrite c_UROUND_nonneg.
  2:{ rewrite Hq. change 0%Q with (inject_Z 0). rewrite <- Zle_Qle. exact Hi. }
  pose proof (Qfloor_le (q + (1 # 2))) as F1. pose proof (Qlt_floor (q + (1 # 2))) as F2.
  assert (A : (inject_Z (Qfloor (q + (1 # 2))) < inject_Z (i + 1))%Q).
  { rewrite inject_Z_plus. change (inject_Z 1) with 1%Q. lra. }
  assert (B : (inject_Z i < inject_Z (Qfloor (q + (1 # 2)) + 1))%Q) by lra.
  rewrite <- Zlt_Qlt in A, B. lia.
Qed.

(* effect of one self-located voxel: one unit on the diagonal bin, all other bins keep their value *)
Lemma self_step : forall m J d0 d1 d2 c H v,
  self_located J d0 d1 d2 v -> 0 <= vi v < c -> length H = Z.to_nat (c * c) ->
  let k := vi v + c * vi v in
  (getq (step m J d0 d1 d2 c H v) k == getq H k + 1)%Q /\
  (forall b, 0 <= b -> b <> k -> (getq (step m J d0 d1 d2 c H v) b == getq H b)%Q).
Proof.
  intros m J d0 d1 d2 c H v Hs Hi HL k.
  assert (Hk : 0 <= k < Z.of_nat (length H)).
  { rewrite HL. assert (0 <= k < c * c) by (apply hist_index_in_bounds; lia). lia. }
  unfold step. rewrite (self_inside J d0 d1 d2 v Hs) by lia.
  destruct (self_neigh J d0 d1 d2 v Hs ltac:(lia)) as (w0 & rest & -> & Hw0 & Hrest).
  destruct m; cbn [updates].
  - (* pv *)
    unfold pv_updates. cbn [map fst snd apply_updates fold_left].
    change (gen_pv_index (vi v) c (vi v)) with k. change (gen_pv_incr (vi v) w0) with w0.
    set (us := map (fun p : Z * Q => (gen_pv_index (fst p) c (vi v), gen_pv_incr (fst p) (snd p))) rest).
    change (fold_left (fun H p => add_at (fst p) (snd p) H) us (add_at k w0 H)) with (apply_updates us (add_at k w0 H)).
    assert (Hus : Forall (fun p : Z * Q => (snd p == 0)%Q) us).
    { subst us. apply Forall_forall. intros p Hp. apply in_map_iff in Hp. destruct Hp as (q & <- & Hq).
      rewrite Forall_forall in Hrest. cbn [snd]. unfold gen_pv_incr. apply Hrest. exact Hq. }
    split.
    + rewrite apply_zero_updates by (try assumption; lia). rewrite add_at_get_same by exact Hk. rewrite Hw0. reflexivity.
    + intros b Hb Hne. rewrite apply_zero_updates by assumption. rewrite add_at_get_other by (try assumption; congruence). reflexivity.
  - (* tri *)
    assert (Hsum : (tri_sumW ((vi v, w0) :: rest) == 1)%Q).
    { unfold tri_sumW. cbn [map qsum fst snd]. unfold gen_tri_dsum at 1.
      assert (Z0 : (qsum (map (fun p : Z * Q => gen_tri_dsum (fst p) (snd p)) rest) == 0)%Q).
      { clear -Hrest. induction Hrest as [|p l Hp _ IH]; cbn [map qsum]; [reflexivity|]. unfold gen_tri_dsum at 1. rewrite Hp, IH. ring. }
      rewrite Z0, Hw0. ring. }
    assert (Hjm : (tri_jm ((vi v, w0) :: rest) == inject_Z (vi v))%Q).
    { unfold tri_jm. cbn [map qsum fst snd]. unfold gen_tri_djm at 1.
      assert (Z0 : (qsum (map (fun p : Z * Q => gen_tri_djm (fst p) (snd p)) rest) == 0)%Q).
      { clear -Hrest. induction Hrest as [|p l Hp _ IH]; cbn [map qsum]; [reflexivity|]. unfold gen_tri_djm at 1. rewrite Hp, IH. ring. }
      rewrite Z0, Hw0. ring. }
    unfold tri_updates, gen_tri_guard. change (0 # 1)%Q with 0%Q.
    replace (qltb 0 (tri_sumW ((vi v, w0) :: rest))) with true by (symmetry; apply qltb_spec; lra).
    unfold gen_tri_index, gen_tri_norm, gen_tri_incr. cbn [inject_Z].
    rewrite (uround_of_int _ (vi v)); [|lia|].
    2:{ rewrite Hjm, Hsum. field. }
    fold k. cbn [apply_updates fold_left fst snd]. split.
    + apply add_at_get_same. exact Hk.
    + intros b Hb Hne. rewrite add_at_get_other by (try assumption; congruence). reflexivity.
Qed.

Lemma self_voxel_mass : forall m J d0 d1 d2 c v, self_located J d0 d1 d2 v ->
  (voxel_mass m J d0 d1 d2 c v == if 0 <=? vi v then 1 else 0)%Q.
Proof.
  intros m J d0 d1 d2 c v Hs. unfold voxel_mass. destruct (0 <=? vi v) eqn:E.
  - apply Z.leb_le in E. rewrite (self_inside J d0 d1 d2 v Hs E).
    destruct (self_neigh J d0 d1 d2 v Hs E) as (w0 & rest & -> & Hw0 & Hrest).
    destruct m; cbn [updates].
    + rewrite pv_updates_mass. cbn [map qsum snd]. rewrite (qsum_zeros rest Hrest), Hw0. ring.
    + rewrite tri_mass.
      assert (Hsum : (tri_sumW ((vi v, w0) :: rest) == 1)%Q).
      { unfold tri_sumW. cbn [map qsum fst snd]. unfold gen_tri_dsum at 1.
        assert (Z0 : (qsum (map (fun p : Z * Q => gen_tri_dsum (fst p) (snd p)) rest) == 0)%Q).
        { clear -Hrest. induction Hrest as [|p l Hp _ IH]; cbn [map qsum]; [reflexivity|]. unfold gen_tri_dsum at 1. rewrite Hp, IH. ring. }
        rewrite Z0, Hw0. ring. }
      replace (qltb 0 (tri_sumW ((vi v, w0) :: rest))) with true by (symmetry; apply qltb_spec; lra). reflexivity.
  - apply Z.leb_gt in E. rewrite negative_not_inside by exact E. reflexivity.
Qed.

Definition offdiag_zero (c : Z) (H : list Q) : Prop :=
  forall i j, 0 <= i < c -> 0 <= j < c -> i <> j -> (getq H (j + c * i) == 0)%Q.

Lemma bin_injective : forall c i j i' j', 0 <= j < c -> 0 <= j' < c -> j + c * i = j' + c * i' -> i = i' /\ j = j'.
Proof. intros c i j i' j' Hj Hj' E. assert (i = i') by nia. subst. lia. Qed.

Lemma getq_repeat0 : forall n k, (getq (repeat 0%Q n) k == 0)%Q.
Proof.
  intros n k. unfold getq. generalize (Z.to_nat k). induction n as [|n IH]; intros [|t]; cbn [repeat nth]; try reflexivity. apply IH.
Qed.

Fixpoint count_nonneg (vs : list vox) : Z :=
  match vs with [] => 0 | v :: r => (if 0 <=? vi v then 1 else 0) + count_nonneg r end.

Lemma identity_diagonal : forall m J d0 d1 d2 c vs,
  wfJ J c -> 0 <= c -> Forall (fun v => vi v < c) vs -> Forall (self_located J d0 d1 d2) vs ->
  offdiag_zero c (joint_hist m J d0 d1 d2 c c vs) /\
  (qsum (joint_hist m J d0 d1 d2 c c vs) == inject_Z (count_nonneg vs))%Q.
Proof.
  intros m J d0 d1 d2 c vs HJ Hc Hv Hs. split.
  - unfold joint_hist.
    assert (G : forall vs H, Forall (fun v => vi v < c) vs -> Forall (self_located J d0 d1 d2) vs ->
                length H = Z.to_nat (c * c) -> offdiag_zero c H ->
                offdiag_zero c (fold_left (step m J d0 d1 d2 c) vs H)).
    { clear vs Hv Hs. induction vs as [|v vs IH]; intros H Hv Hs HL Hod; cbn [fold_left]; [exact Hod|].
      inversion Hv as [|? ? Hv1 Hv2]; subst. inversion Hs as [|? ? Hs1 Hs2]; subst.
      apply IH; try assumption.
      - rewrite step_length. exact HL.
      - destruct (Z_lt_dec (vi v) 0) as [Neg|Pos].
        + rewrite outside_no_change by (now apply negative_not_inside). exact Hod.
        + destruct (self_step m J d0 d1 d2 c H v Hs1 ltac:(lia) HL) as [_ Hoth].
          intros i j Hi Hj Hne. rewrite Hoth.
          * apply Hod; assumption.
          * assert (0 <= c * i) by (apply Z.mul_nonneg_nonneg; lia). lia.
          * intro E. apply bin_injective in E; [|lia|lia]. lia. }
    apply G; try assumption.
    + unfold hist0. apply repeat_length.
    + intros i j _ _ _. unfold hist0. apply getq_repeat0.
  - rewrite (joint_hist_mass m J d0 d1 d2 c c vs HJ Hc Hv).
    clear Hv. induction Hs as [|v vs Hs1 _ IH]; cbn [map qsum count_nonneg]; [reflexivity|].
    rewrite IH, (self_voxel_mass m J d0 d1 d2 c v Hs1), inject_Z_plus.
    destruct (0 <=? vi v); reflexivity.
Qed.
