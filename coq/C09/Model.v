(* C09 - executable model of nipy/algorithms/registration/joint_histogram.c
   (voxel loop of joint_histogram(), the three update rules, L1_moments) and of
   the rational similarity measures of similarity_measures.py.

   Every arithmetic expression, index expression, test and guard comes from
   NV.Generated.JointHist, which is re-translated from /repo's C text on every
   run; this file only supplies the control skeleton (loops, buffers).
   doubles are modelled as exact rationals (the correspondence uses inputs on
   which every double operation of the C code is exact). *)
From Coq Require Import ZArith QArith Qround Qabs List Bool Lia.
From NV.Lib Require Import C09Base.
From NV.Generated Require Import JointHist.
Import ListNotations.
Close Scope Q_scope.
Open Scope Z_scope.

(* one source voxel: clamped intensity and transformed coordinates *)
Record vox := mkvox { vi : Z; vx : Q; vy : Q; vz : Q }.

(* J : the padded target volume, C-contiguous, dims d0 d1 d2 *)
Definition getJ (J : list Z) (q : Z) : Z := nth (Z.to_nat q) J (-1).

Definition qweights (nx ny nz : Z) (Tx Ty Tz : Q) : list Q :=
  gen_weights Q 0%Q 1%Q Qplus Qmult Qminus (inject_Z nx) (inject_Z ny) (inject_Z nz) Tx Ty Tz.

Definition vox_off (d0 d1 d2 : Z) (v : vox) : Z :=
  gen_off d0 d1 d2 (gen_nx (vx v)) (gen_ny (vy v)) (gen_nz (vz v)).

(* the eight (J value, weight) candidates in source order *)
Definition candidates (J : list Z) (d0 d1 d2 : Z) (v : vox) : list (Z * Q) :=
  combine (map (getJ J) (gen_offsets d0 d1 d2 (vox_off d0 d1 d2 v)))
          (qweights (gen_nx (vx v)) (gen_ny (vy v)) (gen_nz (vz v)) (vx v) (vy v) (vz v)).

(* APPEND_NEIGHBOR: the buffers Jnn/W after the eight macro calls *)
Definition neigh (J : list Z) (d0 d1 d2 : Z) (v : vox) : list (Z * Q) :=
  filter (fun p => gen_append_cond (fst p)) (candidates J d0 d1 d2 v).

(* an update = (flat index into H, increment) *)
Definition pv_updates (i clampJ : Z) (nb : list (Z * Q)) : list (Z * Q) :=
  map (fun p => (gen_pv_index (fst p) clampJ i, gen_pv_incr (fst p) (snd p))) nb.

Definition tri_sumW (nb : list (Z * Q)) : Q := qsum (map (fun p => gen_tri_dsum (fst p) (snd p)) nb).
Definition tri_jm (nb : list (Z * Q)) : Q := qsum (map (fun p => gen_tri_djm (fst p) (snd p)) nb).

Definition tri_updates (i clampJ : Z) (nb : list (Z * Q)) : list (Z * Q) :=
  if gen_tri_guard (tri_sumW nb)
  then [(gen_tri_index (gen_tri_norm (tri_jm nb) (tri_sumW nb)) clampJ i, gen_tri_incr)]
  else [].

(* second loop of _rand_interpolation: value of k at loop exit *)
Fixpoint rand_pick (ws : list Q) (sumW draw : Q) (k : Z) : Z :=
  match ws with
  | [] => k
  | w :: r => let s := (sumW + gen_rand_dsum2 w)%Q in
              if gen_rand_break s draw then k else rand_pick r s draw (k + 1)
  end.

Definition rand_sumW (nb : list (Z * Q)) : Q := qsum (map (fun p => gen_rand_dsum1 (snd p)) nb).

(* buf = contents of the 8-slot buffer Jnn when _rand_interpolation runs: its
   first nn slots hold the neighbours, the others whatever they held before.
   Early return when no buffered weight is positive (no draw is consumed). *)
Definition rand_updates (i clampJ : Z) (nb : list (Z * Q)) (u : Q) (buf : list Z) : list (Z * Q) :=
  if gen_rand_skip (rand_sumW nb) then [] else
  let draw := gen_rand_draw (rand_sumW nb) u in
  let k := rand_pick (map snd nb) 0%Q draw 0 in
  [(gen_rand_index (fun q => nth (Z.to_nat q) buf (-1)) k clampJ i, gen_rand_incr)].

Definition apply_updates (us : list (Z * Q)) (H : list Q) : list Q :=
  fold_left (fun H p => add_at (fst p) (snd p) H) us H.

Inductive mode := PV | TRI.

Definition updates (m : mode) (i clampJ : Z) (nb : list (Z * Q)) : list (Z * Q) :=
  match m with PV => pv_updates i clampJ nb | TRI => tri_updates i clampJ nb end.

Definition vox_inside (d0 d1 d2 : Z) (v : vox) : bool :=
  gen_inside (vi v) (vx v) (vy v) (vz v) d0 d1 d2.

(* body of the while loop for one source voxel (interp = 0 / interp > 0) *)
Definition step (m : mode) (J : list Z) (d0 d1 d2 clampJ : Z) (H : list Q) (v : vox) : list Q :=
  if vox_inside d0 d1 d2 v
  then apply_updates (updates m (vi v) clampJ (neigh J d0 d1 d2 v)) H
  else H.

Definition hist0 (clampI clampJ : Z) : list Q := repeat 0%Q (Z.to_nat (clampI * clampJ)).

(* memset + loop over source voxels *)
Definition joint_hist (m : mode) (J : list Z) (d0 d1 d2 clampI clampJ : Z) (vs : list vox) : list Q :=
  fold_left (step m J d0 d1 d2 clampJ) vs (hist0 clampI clampJ).

(* interp < 0: the state also holds the Jnn buffer (it lives across voxels and
   is never cleared) and the remaining stream of prng_double() values *)
Definition new_buf (nb : list (Z * Q)) (buf : list Z) : list Z :=
  firstn 8 (map fst nb ++ skipn (length nb) buf).

Definition rand_step (J : list Z) (d0 d1 d2 clampJ : Z) (st : list Q * list Z * list Q) (v : vox)
  : list Q * list Z * list Q :=
  let '(H, buf, us) := st in
  if vox_inside d0 d1 d2 v then
    let nb := neigh J d0 d1 d2 v in
    let buf' := new_buf nb buf in
    if gen_rand_skip (rand_sumW nb) then (H, buf', us)     (* prng_double is not called *)
    else match us with
         | u :: us' => (apply_updates (rand_updates (vi v) clampJ nb u buf') H, buf', us')
         | [] => (H, buf', [])
         end
  else st.

(* buf0: the (uninitialised) stack contents of Jnn at function entry *)
Definition joint_hist_rand (J : list Z) (d0 d1 d2 clampI clampJ : Z) (vs : list vox)
           (draws : list Q) (buf0 : list Z) : list Q :=
  fst (fst (fold_left (rand_step J d0 d1 d2 clampJ) vs (hist0 clampI clampJ, buf0, draws))).

(* ------------------------------------------------------------ L1_moments *)
Fixpoint l1_scan (rest : list Q) (i : Z) (cpdf dev lim : Q) : Z * Q * Q :=
  match rest with
  | [] => (i, cpdf, dev)     (* the C loop would read past the array here; see l1_scan_stops *)
  | b :: r => if gen_l1_cont cpdf lim
              then l1_scan r (i + 1) (cpdf + gen_l1_dcpdf b)%Q (dev + gen_l1_ddev1 (i + 1) b)%Q lim
              else (i, cpdf, dev)
  end.

Fixpoint l1_tail (rest : list Q) (i : Z) (dev : Q) : Q :=
  match rest with
  | [] => dev
  | b :: r => l1_tail r (i + 1) (dev + gen_l1_ddev3 i b)%Q
  end.

Definition l1_total (h : list Q) : Q := qsum (map gen_l1_dn h).

(* returns (n, median, dev) *)
Definition l1_moments (h : list Q) : Q * Q * Q :=
  let n := l1_total h in
  if gen_l1_guard n then
    match h with
    | [] => (n, 0%Q, 0%Q)
    | b0 :: rest =>
        let lim := gen_l1_lim n in
        let '(i, cpdf, dev) := l1_scan rest 0 (gen_l1_cpdf0 b0) 0%Q lim in
        let median := gen_l1_median i in
        let dev := (dev + gen_l1_ddev2 cpdf n median)%Q in
        let med := gen_l1_med i in
        let dev := if gen_l1_tailguard med (Z.of_nat (length h))
                   then l1_tail (skipn (Z.to_nat med) h) med dev else dev in
        (n, median, (dev / gen_l1_div n)%Q)
    end
  else (n, 0%Q, 0%Q).

(* ------------------------------------------------------------ similarity measures
   H is clampI x clampJ, row-major, H[i][j]; similarity_measures.py indexes
   self.J, self.I = np.indices(shape): J = row index, I = column index. *)
Definition nonzeroQ (tiny x : Q) : Q := if Qle_bool tiny x then x else tiny.  (* np.maximum(x, TINY) *)

Fixpoint rows (nc : nat) (nr : nat) (H : list Q) : list (list Q) :=
  match nr with O => [] | S k => firstn nc H :: rows nc k (skipn nc H) end.

Fixpoint wsum_from (k : Z) (p : Z -> Q) (l : list Q) : Q :=   (* sum_c p(k + c) * l[c] *)
  match l with [] => 0%Q | x :: r => (p k * x + wsum_from (k + 1) p r)%Q end.

Definition idq (k : Z) : Q := inject_Z k.
Definition sqq (k : Z) : Q := inject_Z (k * k).

Fixpoint colsum (rs : list (list Q)) (nc : nat) : list Q :=
  match rs with
  | [] => repeat 0%Q nc
  | r :: rest => map (fun p => (fst p + snd p)%Q) (combine r (colsum rest nc))
  end.

(* CorrelationCoefficient.__call__ without renormalisation, up to the sqrt:
   rho2 = cIJ^2 / (vI*vJ) *)
Definition cc_parts (nr nc : nat) (H : list Q) : Q * Q * Q :=
  let R := rows nc nr H in
  let npts := qsum H in
  let rowtot := map qsum R in
  let mI := (qsum (map (wsum_from 0 idq) R) / npts)%Q in          (* sum H * I / npts, I = column *)
  let mJ := (wsum_from 0 idq rowtot / npts)%Q in                   (* J = row *)
  let vI := (qsum (map (wsum_from 0 sqq) R) / npts - mI * mI)%Q in
  let vJ := (wsum_from 0 sqq rowtot / npts - mJ * mJ)%Q in
  let cIJ := (wsum_from 0 idq (map (wsum_from 0 idq) R) / npts - mI * mJ)%Q in
  (cIJ, vI, vJ).

Definition cc_rho2 (nr nc : nat) (H : list Q) : Q :=
  let '(cIJ, vI, vJ) := cc_parts nr nc H in Qred (cIJ * cIJ / (vI * vJ)).

(* CorrelationRatio.__call__ without renormalisation *)
Definition cr_eta2 (tiny : Q) (nr nc : nat) (H : list Q) : Q :=
  let R := rows nc nr H in
  let npts_J := map qsum R in
  let mI_J := map (fun r => (wsum_from 0 idq r / nonzeroQ tiny (qsum r))%Q) R in
  let vI_J := map (fun r => let m := (wsum_from 0 idq r / nonzeroQ tiny (qsum r))%Q in
                            (wsum_from 0 sqq r / nonzeroQ tiny (qsum r) - m * m)%Q) R in
  let npts := qsum npts_J in
  let tmp := nonzeroQ tiny npts in
  let hI := colsum R nc in
  let mI := (wsum_from 0 idq hI / tmp)%Q in
  let vI := (wsum_from 0 sqq hI / tmp - mI * mI)%Q in
  let mean_vI_J := (qsum (map (fun p => (fst p * snd p)%Q) (combine npts_J vI_J)) / tmp)%Q in
  Qred (1 - mean_vI_J / nonzeroQ tiny vI).

(* CorrelationRatioL1.__call__ without renormalisation *)
Definition crl1_eta2 (tiny : Q) (nr nc : nat) (H : list Q) : Q :=
  let R := rows nc nr H in
  let moments := map l1_moments R in
  let sI_J := map (fun m => snd m) moments in
  let hI := colsum R nc in
  let hJ := map qsum R in
  let '(npts, mI, sI) := l1_moments hI in
  let mean_sI_J := (qsum (map (fun p => (fst p * snd p)%Q) (combine hJ sI_J)) / nonzeroQ tiny npts)%Q in
  Qred (1 - mean_sI_J / nonzeroQ tiny sI).

(* harness comparison helpers *)
Definition qclose (tol a b : Q) : bool := Qle_bool (Qabs (a - b)) tol.
