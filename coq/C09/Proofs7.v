(* C09 proofs, part 7: clamp (range, order, mask), bounding box, sub-grid affine. *)
From Coq Require Import ZArith QArith Qround List Bool Lia Lqa Ring.
From NV.Lib Require Import C09Base.
From NV.C09 Require Import ModelPy.
Import ListNotations.
Close Scope Q_scope.
Open Scope Z_scope.

Lemma rhe_cases : forall q, let f := Qfloor q in
  (inject_Z f <= q)%Q /\ (q < inject_Z f + 1)%Q /\
  ((rhe q = f /\ (q - inject_Z f <= 1 # 2)%Q /\ ((q - inject_Z f == 1 # 2)%Q -> Z.even f = true)) \/
   (rhe q = f + 1 /\ (1 # 2 <= q - inject_Z f)%Q /\ ((q - inject_Z f == 1 # 2)%Q -> Z.even f = false))).
Proof.
  intros q f. pose proof (Qfloor_le q) as F1. pose proof (Qlt_floor q) as F2. fold f in F1, F2.
  rewrite inject_Z_plus in F2. change (inject_Z 1) with 1%Q in F2.
  split; [exact F1|]. split; [exact F2|]. unfold rhe. fold f.
  destruct (qltb (q - inject_Z f) (1 # 2)) eqn:A.
  - apply qltb_spec in A. left. split; [reflexivity|split; [lra|intros E; lra]].
  - apply qltb_false in A. destruct (qltb (1 # 2) (q - inject_Z f)) eqn:B.
    + apply qltb_spec in B. right. split; [reflexivity|split; [lra|intros E; lra]].
    + apply qltb_false in B. destruct (Z.even f) eqn:Ev.
      * left. split; [reflexivity|split; [lra|intros _; reflexivity]].
      * right. split; [reflexivity|split; [lra|intros _; reflexivity]].
Qed.

Lemma rhe_mono : forall x y, (x <= y)%Q -> rhe x <= rhe y.
Proof.
  intros x y H.
  destruct (rhe_cases x) as (X1 & X2 & X3). destruct (rhe_cases y) as (Y1 & Y2 & Y3).
  pose proof (Qfloor_resp_le x y H) as FL.
  destruct (Z.eq_dec (Qfloor x) (Qfloor y)) as [E|NE].
  - rewrite E in *.
    destruct X3 as [(-> & Xa & Xb) | (-> & Xa & Xb)]; destruct Y3 as [(-> & Ya & Yb) | (-> & Ya & Yb)]; try lia.
    (* x rounds up, y rounds down, same floor: impossible *)
    exfalso.
    assert (Ex : (x - inject_Z (Qfloor y) == 1 # 2)%Q) by lra.
    assert (Ey : (y - inject_Z (Qfloor y) == 1 # 2)%Q) by lra.
    specialize (Xb Ex). specialize (Yb Ey). congruence.
  - assert (Qfloor x + 1 <= Qfloor y) by lia.
    destruct X3 as [(-> & _) | (-> & _)]; destruct Y3 as [(-> & _) | (-> & _)]; lia.
Qed.

Lemma rhe_int : forall k, rhe (inject_Z k) = k.
Proof.
  intros k. unfold rhe. rewrite Qfloor_Z.
  replace (qltb (inject_Z k - inject_Z k) (1 # 2)) with true; [reflexivity|].
  symmetry. apply qltb_spec. lra.
Qed.

Lemma rhe_range : forall q M, (0 <= q)%Q -> (q <= inject_Z M)%Q -> 0 <= rhe q <= M.
Proof.
  intros q M H0 H1. split.
  - rewrite <- (rhe_int 0). apply rhe_mono. exact H0.
  - rewrite <- (rhe_int M). apply rhe_mono. exact H1.
Qed.

Lemma clamp_scale_mono : forall bins xmin xmax x y, 1 <= bins -> (xmin < xmax)%Q -> (x <= y)%Q ->
  (inject_Z (bins - 1) / (xmax - xmin) * (x - xmin) <= inject_Z (bins - 1) / (xmax - xmin) * (y - xmin))%Q.
Proof.
  intros bins xmin xmax x y Hb Hd Hxy.
  assert (A : (0 <= inject_Z (bins - 1) / (xmax - xmin))%Q).
  { apply Qle_shift_div_l; [lra|]. rewrite Qmult_0_l. change 0%Q with (inject_Z 0). rewrite <- Zle_Qle. lia. }
  rewrite !(Qmult_comm (inject_Z (bins - 1) / (xmax - xmin))).
  apply Qmult_le_compat_r; [lra|exact A].
Qed.

Lemma clamp_val_order : forall bins xmin xmax x y, 1 <= bins -> (xmin < xmax)%Q -> (x <= y)%Q ->
  clamp_val bins xmin xmax x <= clamp_val bins xmin xmax y.
Proof. intros. unfold clamp_val. apply rhe_mono. now apply clamp_scale_mono. Qed.

Lemma clamp_val_ends : forall bins xmin xmax, (xmin < xmax)%Q ->
  clamp_val bins xmin xmax xmin = 0 /\ clamp_val bins xmin xmax xmax = bins - 1.
Proof.
  intros bins xmin xmax Hd. unfold clamp_val. split.
  - rewrite <- (rhe_int 0) at 1. apply Z.le_antisymm; apply rhe_mono; ring_simplify; lra.
  - assert (E : (inject_Z (bins - 1) / (xmax - xmin) * (xmax - xmin) == inject_Z (bins - 1))%Q) by (field; lra).
    rewrite <- (rhe_int (bins - 1)) at 2. apply Z.le_antisymm; apply rhe_mono; rewrite E; lra.
Qed.

Lemma clamp_val_range : forall bins xmin xmax x, 1 <= bins -> (xmin < xmax)%Q -> (xmin <= x)%Q -> (x <= xmax)%Q ->
  0 <= clamp_val bins xmin xmax x <= bins - 1.
Proof.
  intros bins xmin xmax x Hb Hd H0 H1. destruct (clamp_val_ends bins xmin xmax Hd) as [E0 E1].
  rewrite <- E0 at 1. rewrite <- E1. split; apply clamp_val_order; assumption.
Qed.

Lemma qmin_l_le : forall l d, (qmin_l d l <= d)%Q /\ Forall (fun x => (qmin_l d l <= x)%Q) l.
Proof.
  induction l as [|x l IH]; intros d; cbn [qmin_l]; [split; [lra|constructor]|].
  destruct (IH d) as [A B]. destruct (Qle_bool x (qmin_l d l)) eqn:E.
  - apply Qle_bool_iff in E. split; [lra|]. constructor; [lra|].
    eapply Forall_impl; [|exact B]. intros a Ha. cbv beta in Ha. lra.
  - assert (E' : ~ (x <= qmin_l d l)%Q) by (intro C; apply Qle_bool_iff in C; congruence).
    split; [exact A|]. constructor; [lra|exact B].
Qed.

Lemma qmax_l_ge : forall l d, (d <= qmax_l d l)%Q /\ Forall (fun x => (x <= qmax_l d l)%Q) l.
Proof.
  induction l as [|x l IH]; intros d; cbn [qmax_l]; [split; [lra|constructor]|].
  destruct (IH d) as [A B]. destruct (Qle_bool (qmax_l d l) x) eqn:E.
  - apply Qle_bool_iff in E. split; [lra|]. constructor; [lra|].
    eapply Forall_impl; [|exact B]. intros a Ha. cbv beta in Ha. lra.
  - assert (E' : ~ (qmax_l d l <= x)%Q) by (intro C; apply Qle_bool_iff in C; congruence).
    split; [exact A|]. constructor; [lra|exact B].
Qed.

Lemma nth_map_const : forall (A : Type) (c d : Z) (l : list A) i, (i < length l)%nat ->
  nth i (map (fun _ => c) l) d = c.
Proof. intros A c d l. induction l as [|x l IH]; intros [|i] H; cbn in *; try lia. apply IH. lia. Qed.

(* clamp as a whole: masked-out entries are -1; selected entries are in
   0..bins-1 and ordered like the input values *)
Lemma clamp_model_spec : forall bins xs mask, 1 <= bins -> length xs = length mask ->
  let ys := clamp_model bins xs mask in
  length ys = length xs /\
  forall i j, (i < length xs)%nat -> (j < length xs)%nat ->
    (nth i mask false = false -> nth i ys 0 = -1) /\
    (nth i mask false = true -> nth j mask false = true ->
     (exists a b, In a (selected xs mask) /\ In b (selected xs mask) /\ (a < b)%Q) ->
     0 <= nth i ys 0 <= bins - 1 /\
     ((nth i xs 0 <= nth j xs 0)%Q -> nth i ys 0 <= nth j ys 0)).
Proof.
  intros bins xs mask Hb HL ys. subst ys. unfold clamp_model.
  destruct (selected xs mask) as [|s0 srest] eqn:Sel.
  - split; [apply map_length|]. intros i j Hi Hj. split.
    + intros _. apply nth_map_const. exact Hi.
    + intros _ _ (a & b & [] & _).
  - set (lo := qmin_l s0 srest). set (hi := qmax_l s0 srest).
    assert (Lc : length (combine xs mask) = length xs) by (rewrite combine_length; lia).
    split; [rewrite map_length; exact Lc|]. intros i j Hi Hj.
    assert (N : forall k, (k < length xs)%nat ->
              nth k (map (clamp_entry bins lo hi) (combine xs mask)) 0 = clamp_entry bins lo hi (nth k xs 0%Q, nth k mask false)).
    { intros k Hk. rewrite (nth_indep _ 0 (clamp_entry bins lo hi (0%Q, false))) by (rewrite map_length, Lc; exact Hk).
      rewrite map_nth, combine_nth by exact HL. reflexivity. }
    rewrite !N by assumption. unfold clamp_entry. cbn [fst snd]. split.
    + intros ->. reflexivity.
    + intros Mi Mj (a & b & Ha & Hb' & Hab). rewrite Mi, Mj.
      assert (Bnd : forall k, (k < length xs)%nat -> nth k mask false = true -> (lo <= nth k xs 0 <= hi)%Q).
      { intros k Hk Mk.
        assert (Ik : In (nth k xs 0%Q) (s0 :: srest)).
        { rewrite <- Sel. unfold selected. apply in_map_iff. exists (nth k xs 0%Q, nth k mask false). split; [reflexivity|].
          apply filter_In. split; [|exact Mk]. rewrite <- combine_nth by exact HL. apply nth_In. rewrite Lc. exact Hk. }
        destruct (qmin_l_le srest s0) as [A1 A2]. destruct (qmax_l_ge srest s0) as [B1 B2]. fold lo in A1, A2. fold hi in B1, B2.
        rewrite Forall_forall in A2, B2. destruct Ik as [<- | Ik]; [lra|]. specialize (A2 _ Ik). specialize (B2 _ Ik). lra. }
      assert (Hlohi : (lo < hi)%Q).
      { destruct (qmin_l_le srest s0) as [A1 A2]. destruct (qmax_l_ge srest s0) as [B1 B2]. fold lo in A1, A2. fold hi in B1, B2.
        rewrite Forall_forall in A2, B2.
        assert (La : (lo <= a)%Q) by (destruct Ha as [<- | Ha]; [lra | apply A2; exact Ha]).
        assert (Ub : (b <= hi)%Q) by (destruct Hb' as [<- | Hb']; [lra | apply B2; exact Hb']).
        lra. }
      destruct (Bnd i Hi Mi) as [I0 I1]. split.
      * apply clamp_val_range; assumption.
      * intros Hle. apply clamp_val_order; assumption.
Qed.

(* ------------------------------------------------------------------ bounding box *)
Lemma zmin_l_spec : forall l d, zmin_l d l <= d /\ Forall (fun x => zmin_l d l <= x) l /\ In (zmin_l d l) (d :: l).
Proof.
  induction l as [|x l IH]; intros d; cbn [zmin_l]; [repeat split; [lia|constructor|left; reflexivity]|].
  destruct (IH d) as (A & B & C). repeat split; [lia| |].
  - constructor; [lia|]. eapply Forall_impl; [|exact B]. intros a Ha. cbv beta in Ha. lia.
  - destruct (Z.min_spec x (zmin_l d l)) as [[_ ->] | [_ ->]]; [right; left; reflexivity|].
    destruct C as [C|C]; [left; exact C | right; right; exact C].
Qed.

Lemma zmax_l_spec : forall l d, d <= zmax_l d l /\ Forall (fun x => x <= zmax_l d l) l /\ In (zmax_l d l) (d :: l).
Proof.
  induction l as [|x l IH]; intros d; cbn [zmax_l]; [repeat split; [lia|constructor|left; reflexivity]|].
  destruct (IH d) as (A & B & C). repeat split; [lia| |].
  - constructor; [lia|]. eapply Forall_impl; [|exact B]. intros a Ha. cbv beta in Ha. lia.
  - destruct (Z.max_spec x (zmax_l d l)) as [[_ ->] | [_ ->]]; [|right; left; reflexivity].
    destruct C as [C|C]; [left; exact C | right; right; exact C].
Qed.

(* per axis: the box [corner, corner+size) contains every masked coordinate
   and both of its end faces touch the mask (it is the smallest one) *)
Lemma bbox_axis_spec : forall c0 cs, let '(corner, size) := bbox_axis c0 cs in
  Forall (fun c => corner <= c < corner + size) (c0 :: cs) /\
  In corner (c0 :: cs) /\ In (corner + size - 1) (c0 :: cs).
Proof.
  intros c0 cs. unfold bbox_axis.
  destruct (zmin_l_spec cs c0) as (A & B & C). destruct (zmax_l_spec cs c0) as (A' & B' & C').
  split; [|split].
  - constructor; [lia|]. rewrite Forall_forall in *. intros c Hc. specialize (B c Hc). specialize (B' c Hc). lia.
  - exact C.
  - replace (zmin_l c0 cs + (zmax_l c0 cs + 1 - zmin_l c0 cs) - 1) with (zmax_l c0 cs) by lia. exact C'.
Qed.

(* ------------------------------------------------------------------ sub-grid affine *)
Section SubgridSpec.
  Variable R : Type.
  Variables (rO rI : R) (radd rmul rsub : R -> R -> R) (ropp : R -> R).
  Hypothesis Rth : ring_theory rO rI radd rmul rsub ropp (@eq R).
  Add Ring RringS : Rth.

  (* voxel v of the sub-grid is voxel start + step*v of the image, row by row *)
  Lemma sg_row_spec : forall (r : row4 R) s1 s2 s3 o1 o2 o3 v1 v2 v3,
    app_row R radd rmul (sg_row R radd rmul r s1 s2 s3 o1 o2 o3) v1 v2 v3
    = app_row R radd rmul r (radd o1 (rmul s1 v1)) (radd o2 (rmul s2 v2)) (radd o3 (rmul s3 v3)).
  Proof. intros [[[a b] c] t] s1 s2 s3 o1 o2 o3 v1 v2 v3. cbn [sg_row app_row]. ring. Qed.
End SubgridSpec.

(* ------------------------------------------------------------------ optimisation bookkeeping *)
From NV.Generated Require Import OptimizeBook.
From NV.C09 Require Import ModelOpt.

Lemma optimize_not_worse : forall (P : Type) (sim : P -> Q) (run : (P -> Q) -> P -> list P * P),
  (forall f x0, (f (snd (run f x0)) <= f x0)%Q) ->
  forall x0, (sim x0 <= sim (optimize_result P sim run gen_optimize_binding x0))%Q.
Proof.
  intros P sim run contract x0. unfold optimize_result, gen_optimize_binding.
  set (c := opt_cost P sim). specialize (contract c x0).
  assert (Hc : forall p, c p = (- sim p)%Q) by reflexivity.
  rewrite !Hc in contract. lra.
Qed.

(* the contract alone does not make "keep the last evaluated point" correct *)
Lemma in_place_last_can_be_worse :
  exists (sim : Z -> Q) (run : (Z -> Q) -> Z -> list Z * Z),
    (forall f x0, (f (snd (run f x0)) <= f x0)%Q) /\
    (sim (optimize_result Z sim run InPlaceLast 0%Z) < sim 0%Z)%Q.
Proof.
  exists (fun p => (- inject_Z (p * p))%Q), (fun f x0 => ([x0; x0 + 1], x0)).
  split; [intros f x0; cbn [snd]; lra|]. vm_compute. reflexivity.
Qed.

(* ------------------------------------------------------------------ field of view *)
Lemma nth_map_seq_z : forall (f : nat -> Z) n j d, (j < n)%nat -> nth j (map f (seq 0 n)) d = f j.
Proof.
  intros f n j d H. rewrite nth_indep with (d' := f 0%nat) by (now rewrite map_length, seq_length).
  rewrite map_nth, seq_nth by exact H. reflexivity.
Qed.

Lemma slice_indices_spec : forall n start stop step, 0 < step -> 0 <= start ->
  let l := slice_indices n start stop step in
  (forall k, (k < length l)%nat -> nth k l 0 = start + Z.of_nat k * step) /\
  Forall (fun i => start <= i < Z.min stop n) l /\
  (forall k, start + Z.of_nat k * step < Z.min stop n -> (k < length l)%nat).
Proof.
  intros n start stop step Hs H0 l. subst l. unfold slice_indices, slice_len.
  set (hi := Z.min stop n).
  destruct (hi <=? start) eqn:E.
  - apply Z.leb_le in E. cbn [Z.to_nat seq map length]. repeat split; try (intros; lia); try constructor; try (intros k Hk; nia).
  - apply Z.leb_gt in E. set (L := (hi - start + step - 1) / step).
    assert (HL : step * L <= hi - start + step - 1 < step * L + step).
    { unfold L. pose proof (Z.div_mod (hi - start + step - 1) step ltac:(lia)) as D.
      pose proof (Z.mod_pos_bound (hi - start + step - 1) step Hs) as M. lia. }
    assert (L0 : 0 <= L) by nia.
    rewrite map_length, seq_length. split; [|split].
    + intros k Hk. apply (nth_map_seq_z (fun k0 => start + Z.of_nat k0 * step)). exact Hk.
    + apply Forall_forall. intros i Hi. apply in_map_iff in Hi. destruct Hi as (k & <- & Hk). apply in_seq in Hk.
      assert (Z.of_nat k < L) by lia. nia.
    + intros k Hk. assert (Z.of_nat k < L) by nia. lia.
Qed.

Lemma ideal_spacing_post : forall fuel data n0 n1 n2 np s0 s1 s2 r0 r1 r2,
  ideal_spacing_loop fuel data n0 n1 n2 np s0 s1 s2 = Some (r0, r1, r2) ->
  count_sub data n0 n1 n2 r0 r1 r2 <= np /\ s0 <= r0 /\ s1 <= r1 /\ s2 <= r2 /\
  (r0 - s0) + (r1 - s1) + (r2 - s2) <= Z.of_nat fuel.
Proof.
  induction fuel as [|f IH]; intros data n0 n1 n2 np s0 s1 s2 r0 r1 r2 E; cbn [ideal_spacing_loop] in E.
  - destruct (count_sub data n0 n1 n2 s0 s1 s2 <=? np) eqn:C; [|discriminate].
    apply Z.leb_le in C. inversion E; subst. lia.
  - destruct (count_sub data n0 n1 n2 s0 s1 s2 <=? np) eqn:C.
    + apply Z.leb_le in C. inversion E; subst. lia.
    + destruct (pick_dir n0 n1 n2 s0 s1 s2 =? 0); [|destruct (pick_dir n0 n1 n2 s0 s1 s2 =? 1)];
        apply IH in E; lia.
Qed.
