(* C09 - property theorems only.  `gen_*` / `c_*` are the definitions
   translated from /repo's joint_histogram.c on every run
   (NV.Generated.JointHist); Model.v adds the loop skeleton. *)
From Coq Require Import ZArith QArith Qround List Bool Lia Lqa Ring.
From NV.Lib Require Import C09Base Harness.
From NV.Generated Require Import JointHist OptimizeBook.
From NV.C09 Require Import Model ModelPy ModelOpt Proofs1 Proofs2 Proofs3 Proofs4 Proofs5 Proofs6 Proofs7 ModelLoss Proofs8.
Import ListNotations.
Close Scope Q_scope.
Open Scope Z_scope.

(* (1) In EVERY commutative ring the eight weight expressions of the C text
   are the trilinear products, in the corner order (0,0,0) (0,0,1) ... (1,1,1)
   of the eight offsets. *)
Theorem weights_are_trilinear :
  forall (R : Type) (rO rI : R) (radd rmul rsub : R -> R -> R) (ropp : R -> R),
  ring_theory rO rI radd rmul rsub ropp (@eq R) ->
  forall nx ny nz Tx Ty Tz,
  gen_weights R rO rI radd rmul rsub nx ny nz Tx Ty Tz
  = tril R rI rmul rsub (rsub nx Tx) (rsub ny Ty) (rsub nz Tz).
Proof. exact weights_trilinear_ring. Qed.
Print Assumptions weights_are_trilinear.

Theorem weights_sum_to_one :
  forall (R : Type) (rO rI : R) (radd rmul rsub : R -> R -> R) (ropp : R -> R),
  ring_theory rO rI radd rmul rsub ropp (@eq R) ->
  forall nx ny nz Tx Ty Tz,
  fold_right radd rO (gen_weights R rO rI radd rmul rsub nx ny nz Tx Ty Tz) = rI.
Proof. exact weights_sum_one_ring. Qed.
Print Assumptions weights_sum_to_one.

(* over Q, for the instance the model runs: non-negative when 0 <= n - T <= 1 *)
Theorem weights_nonneg : forall nx ny nz Tx Ty Tz,
  (0 <= inject_Z nx - Tx <= 1)%Q -> (0 <= inject_Z ny - Ty <= 1)%Q -> (0 <= inject_Z nz - Tz <= 1)%Q ->
  Forall (fun w => (0 <= w)%Q) (qweights nx ny nz Tx Ty Tz) /\ (qsum (qweights nx ny nz Tx Ty Tz) == 1)%Q.
Proof. intros. split; [now apply qweights_nonneg | apply qweights_sum_one]. Qed.
Print Assumptions weights_nonneg.

(* (2) The FLOOR macro is the mathematical floor for every rational, UROUND is
   round-half-up on non-negative arguments. *)
Theorem floor_macro_is_floor : forall a, c_FLOOR a = Qfloor a.
Proof. exact c_FLOOR_is_floor. Qed.
Print Assumptions floor_macro_is_floor.

Theorem uround_macro_rounds_half_up : forall a, (0 <= a)%Q -> c_UROUND a = Qfloor (a + (1 # 2)).
Proof. exact c_UROUND_nonneg. Qed.
Print Assumptions uround_macro_rounds_half_up.

(* (3) The eight offsets are the eight corners (nx+a, ny+b, nz+c) of the cell
   in the C-contiguous padded array. *)
Theorem offsets_are_corners : forall d0 d1 d2 nx ny nz,
  gen_offsets d0 d1 d2 (gen_off d0 d1 d2 nx ny nz) =
  [flat d1 d2 nx ny nz; flat d1 d2 nx ny (nz + 1); flat d1 d2 nx (ny + 1) nz; flat d1 d2 nx (ny + 1) (nz + 1);
   flat d1 d2 (nx + 1) ny nz; flat d1 d2 (nx + 1) ny (nz + 1); flat d1 d2 (nx + 1) (ny + 1) nz;
   flat d1 d2 (nx + 1) (ny + 1) (nz + 1)].
Proof. exact offsets_corners. Qed.
Print Assumptions offsets_are_corners.

(* (4) The inside test: i >= 0 and -1 < T < (unpadded dim), strictly. *)
Theorem inside_test_spec : forall i Tx Ty Tz d0 d1 d2,
  gen_inside i Tx Ty Tz d0 d1 d2 = true <->
  (0 <= i /\ ((inject_Z (-1) < Tx)%Q /\ (Tx < inject_Z (d0 - 2))%Q) /\
             ((inject_Z (-1) < Ty)%Q /\ (Ty < inject_Z (d1 - 2))%Q) /\
             ((inject_Z (-1) < Tz)%Q /\ (Tz < inject_Z (d2 - 2))%Q)).
Proof. exact inside_spec. Qed.
Print Assumptions inside_test_spec.

(* (5) Memory safety, reads: a voxel passing the inside test reads J only
   inside the padded array, and its eight weights are non-negative. *)
Theorem inside_implies_in_bounds : forall d0 d1 d2 v, vox_inside d0 d1 d2 v = true ->
  Forall (fun q => 0 <= q < d0 * d1 * d2) (gen_offsets d0 d1 d2 (vox_off d0 d1 d2 v)) /\
  Forall (fun w => (0 <= w)%Q)
    (qweights (gen_nx (vx v)) (gen_ny (vy v)) (gen_nz (vz v)) (vx v) (vy v) (vz v)).
Proof.
  intros d0 d1 d2 v H. split; [now apply inside_reads_in_bounds | now apply (inside_weights_nonneg d0 d1 d2)].
Qed.
Print Assumptions inside_implies_in_bounds.

(* (6) Memory safety, writes (pv and tri): with target values below clampJ and
   source intensity below clampI, every H index written is inside
   clampI*clampJ. *)
Theorem hist_writes_in_bounds : forall m J d0 d1 d2 cI cJ v,
  wfJ J cJ -> 0 <= cJ -> vi v < cI -> vox_inside d0 d1 d2 v = true ->
  Forall (fun p => 0 <= fst p < cI * cJ) (updates m (vi v) cJ (neigh J d0 d1 d2 v)).
Proof.
  intros m J d0 d1 d2 cI cJ v HJ Hc Hi Hin.
  destruct (inside_coords _ _ _ _ Hin) as (Hi0 & _).
  apply updates_in_bounds; [lia|exact Hc|]. now apply neigh_ok.
Qed.
Print Assumptions hist_writes_in_bounds.

(* (7) Partial-volume rule: one inside voxel adds exactly the weights of its
   non-padding neighbours (in row vi), which is within [0,1] and is 1 when no
   neighbour is padding. *)
Theorem pv_mass : forall J d0 d1 d2 cI cJ H v,
  wfJ J cJ -> 0 <= cJ -> vi v < cI -> length H = Z.to_nat (cI * cJ) -> vox_inside d0 d1 d2 v = true ->
  (qsum (step PV J d0 d1 d2 cJ H v) == qsum H + qsum (map snd (neigh J d0 d1 d2 v)))%Q /\
  (0 <= qsum (map snd (neigh J d0 d1 d2 v)) <= 1)%Q /\
  (Forall (fun p => 0 <= fst p) (candidates J d0 d1 d2 v) -> (qsum (map snd (neigh J d0 d1 d2 v)) == 1)%Q).
Proof.
  intros J d0 d1 d2 cI cJ H v HJ Hc Hi HL Hin. split; [|split].
  - rewrite (step_mass PV J d0 d1 d2 cI cJ H v) by assumption.
    unfold voxel_mass. rewrite Hin. cbn [updates]. rewrite pv_updates_mass. reflexivity.
  - now apply neigh_mass.
  - apply neigh_mass_full.
Qed.
Print Assumptions pv_mass.

(* (8) Trilinear rule: exactly one unit when some buffered weight is positive,
   nothing otherwise; the unit goes to row vi, column round-half-up of the
   weighted mean, which is a valid column. *)
Theorem tri_mass : forall J d0 d1 d2 cI cJ v,
  wfJ J cJ -> 0 <= cJ -> vi v < cI -> vox_inside d0 d1 d2 v = true ->
  let nb := neigh J d0 d1 d2 v in
  (tri_updates (vi v) cJ nb = [] /\ ~ (0 < tri_sumW nb)%Q) \/
  (exists k, tri_updates (vi v) cJ nb = [(k + cJ * vi v, 1%Q)] /\ (0 < tri_sumW nb)%Q /\
             k = c_UROUND (tri_jm nb / tri_sumW nb) /\ 0 <= k < cJ).
Proof.
  intros J d0 d1 d2 cI cJ v HJ Hc Hi Hin nb.
  pose proof (neigh_ok J d0 d1 d2 cJ v HJ Hc Hin) as Hnb. fold nb in Hnb.
  unfold tri_updates. destruct (gen_tri_guard (tri_sumW nb)) eqn:G.
  - right. unfold gen_tri_guard in G. apply qltb_spec in G. eexists. split; [reflexivity|].
    split; [exact G|]. split; [reflexivity|].
    assert (Hpos : 0 < cJ).
    { destruct (Z.eq_dec cJ 0) as [E|E]; [|lia]. exfalso. subst cJ.
      destruct nb as [|p nb']; [unfold tri_sumW in G; cbn in G; lra|].
      inversion Hnb as [|? ? [Hp _] _]; subst. lia. }
    unfold gen_tri_norm. apply tri_bin_range; assumption.
  - left. split; [reflexivity|]. unfold gen_tri_guard in G. apply qltb_false in G. lra.
Qed.
Print Assumptions tri_mass.

(* (9) Random rule, for ALL inputs (the C code now returns early when no
   buffered neighbour has positive weight): the update list is empty exactly
   when no neighbour has positive weight, otherwise it is one unit in the bin
   of an actual neighbour with positive weight - whatever the stale part of
   the Jnn buffer holds. *)
Theorem rand_mass : forall i cJ nb u buf,
  (length nb <= 8)%nat -> Forall (fun p => (0 <= snd p)%Q) nb -> (0 <= u)%Q -> (u < 1)%Q ->
  (~ (0 < qsum (map snd nb))%Q /\ rand_updates i cJ nb u (new_buf nb buf) = []) \/
  ((0 < qsum (map snd nb))%Q /\
   exists p, In p nb /\ (0 < snd p)%Q /\
             rand_updates i cJ nb u (new_buf nb buf) = [(fst p + cJ * i, 1%Q)]).
Proof. exact rand_update_spec. Qed.
Print Assumptions rand_mass.

(* (9') One iteration of the interp<0 loop on any voxel, any histogram, any
   buffer content, any draw in [0,1): either H and the random stream are
   untouched (voxel fails the inside test, or no neighbour of positive weight),
   or one draw is consumed and exactly one in-range bin - row vi, column = the
   value of a positive-weight neighbour - gains one unit while every other
   bin is unchanged.  (Before fix d23fc29 this clause was refuted: the unit
   went to a stale buffer slot when no neighbour had positive weight.) *)
Theorem rand_step_adds_one_unit_or_nothing : forall J d0 d1 d2 cI cJ H buf u us v,
  wfJ J cJ -> 0 <= cJ -> vi v < cI -> length H = Z.to_nat (cI * cJ) ->
  (0 <= u)%Q -> (u < 1)%Q ->
  let st' := rand_step J d0 d1 d2 cJ (H, buf, u :: us) v in
  let H' := fst (fst st') in
  (H' = H /\ snd st' = u :: us /\
   (vox_inside d0 d1 d2 v = false \/ ~ (0 < qsum (map snd (neigh J d0 d1 d2 v)))%Q)) \/
  (vox_inside d0 d1 d2 v = true /\ snd st' = us /\
   exists p, In p (neigh J d0 d1 d2 v) /\ (0 < snd p)%Q /\
     let k := fst p + cJ * vi v in
     0 <= fst p < cJ /\ 0 <= k < cI * cJ /\ H' = add_at k 1%Q H /\
     (getq H' k == getq H k + 1)%Q /\ (forall m, 0 <= m -> m <> k -> getq H' m = getq H m) /\
     (qsum H' == qsum H + 1)%Q).
Proof. exact rand_step_spec. Qed.
Print Assumptions rand_step_adds_one_unit_or_nothing.

(* regression of the former counterexamples: target row [1,0,-1,-1] resp.
   [1,0,-1,3] padded to 6x3x3, voxels at x = 1/2 and x = 2: only the first one
   contributes now, for any stale buffer content *)
Example rand_former_counterexamples :
  let J1 := repeat (-1) 13 ++ [1] ++ repeat (-1) 8 ++ [0] ++ repeat (-1) 8 ++ [-1] ++ repeat (-1) 8 ++ [-1] ++ repeat (-1) 13 in
  let J2 := repeat (-1) 13 ++ [1] ++ repeat (-1) 8 ++ [0] ++ repeat (-1) 8 ++ [-1] ++ repeat (-1) 8 ++ [3] ++ repeat (-1) 13 in
  let vs := [mkvox 0 (1 # 2) 0 0; mkvox 1 2 0 0] in
  map Qred (joint_hist_rand J1 6 3 3 2 2 vs [1 # 4; 1 # 4]%Q [5; 5; 5; 5; 5; 5; 5; 5]) = [0; 1; 0; 0]%Q /\
  map Qred (joint_hist_rand J2 6 3 3 2 4 vs [1 # 4; 1 # 4]%Q [5; 5; 5; 5; 5; 5; 5; 5]) = [0; 1; 0; 0; 0; 0; 0; 0]%Q.
Proof. cbv zeta. split; vm_compute; reflexivity. Qed.

(* (10) Only non-negative source voxels whose image is strictly inside
   (-1, dim) contribute: any other voxel leaves H untouched, in every mode. *)
Theorem only_inside_nonneg_contribute : forall m J d0 d1 d2 cJ H v,
  (vi v < 0 \/
   (vx v <= inject_Z (-1) \/ inject_Z (d0 - 2) <= vx v \/ vy v <= inject_Z (-1) \/ inject_Z (d1 - 2) <= vy v \/
    vz v <= inject_Z (-1) \/ inject_Z (d2 - 2) <= vz v)%Q) ->
  step m J d0 d1 d2 cJ H v = H /\
  forall buf us, rand_step J d0 d1 d2 cJ (H, buf, us) v = (H, buf, us).
Proof.
  intros m J d0 d1 d2 cJ H v Hout.
  assert (E : vox_inside d0 d1 d2 v = false).
  { destruct Hout as [Hn | Hg]; [now apply negative_not_inside | now apply out_of_grid_not_inside]. }
  split; [now apply outside_no_change|]. intros buf us. unfold rand_step. now rewrite E.
Qed.
Print Assumptions only_inside_nonneg_contribute.

(* (11) Whole loop (pv, tri), any number of voxels: the histogram has
   clampI*clampJ entries, its total mass is the sum of the per-voxel masses
   (each in [0,1]; 0 for voxels failing the inside test), hence never exceeds
   the number of voxels passing the inside test: no mass is created. *)
Theorem hist_total_mass : forall m J d0 d1 d2 cI cJ vs,
  wfJ J cJ -> 0 <= cJ -> Forall (fun v => vi v < cI) vs ->
  length (joint_hist m J d0 d1 d2 cI cJ vs) = Z.to_nat (cI * cJ) /\
  (qsum (joint_hist m J d0 d1 d2 cI cJ vs) == qsum (map (voxel_mass m J d0 d1 d2 cJ) vs))%Q /\
  (0 <= qsum (joint_hist m J d0 d1 d2 cI cJ vs))%Q /\
  (qsum (joint_hist m J d0 d1 d2 cI cJ vs) <= inject_Z (n_inside d0 d1 d2 vs))%Q.
Proof.
  intros m J d0 d1 d2 cI cJ vs HJ Hc Hv.
  pose proof (joint_hist_mass m J d0 d1 d2 cI cJ vs HJ Hc Hv) as E.
  destruct (masses_le_inside m J d0 d1 d2 cJ vs) as [A B].
  split; [apply joint_hist_length|]. split; [exact E|]. rewrite E. split; assumption.
Qed.
Print Assumptions hist_total_mass.

(* (12) Identity self-registration, whole voxel loop, pv and tri, any number
   of voxels: if every source voxel sits at integer coordinates inside the
   target grid and the target holds the voxel's own (clamped) intensity there,
   then every off-diagonal bin of the joint histogram is 0 and the total mass
   (= the trace) is the number of non-negative source voxels. *)
Theorem identity_self_registration_diagonal : forall m J d0 d1 d2 c vs,
  wfJ J c -> 0 <= c -> Forall (fun v => vi v < c) vs -> Forall (self_located J d0 d1 d2) vs ->
  (forall i j, 0 <= i < c -> 0 <= j < c -> i <> j ->
     (getq (joint_hist m J d0 d1 d2 c c vs) (j + c * i) == 0)%Q) /\
  (qsum (joint_hist m J d0 d1 d2 c c vs) == inject_Z (count_nonneg vs))%Q.
Proof. exact identity_diagonal. Qed.
Print Assumptions identity_self_registration_diagonal.

Theorem identity_weights : forall x y z : Z,
  Forall2 Qeq (qweights (gen_nx (inject_Z x)) (gen_ny (inject_Z y)) (gen_nz (inject_Z z))
                        (inject_Z x) (inject_Z y) (inject_Z z))
              [1; 0; 0; 0; 0; 0; 0; 0]%Q.
Proof. exact integer_coords_weights. Qed.
Print Assumptions identity_weights.

(* (13) L1_moments (expressions translated from the C text) on ANY histogram
   with positive total mass - in particular every non-empty non-negative one:
   it returns the total, the weighted median = FIRST index whose cumulative
   mass reaches half the total, and the mean absolute deviation around that
   median: dev * total = sum_k h_k |k - median|. *)
Theorem L1_moments_spec : forall h N med dev,
  (0 < qsum h)%Q -> l1_moments h = (N, med, dev) ->
  (N == qsum h)%Q /\
  exists m : nat, (m < length h)%nat /\ med = inject_Z (Z.of_nat m) /\
  ((1 # 2) * qsum h <= qsum (firstn (S m) h))%Q /\
  (forall t, (t < m)%nat -> (qsum (firstn (S t) h) < (1 # 2) * qsum h)%Q) /\
  (dev * qsum h == wsum_from 0 (absdev (Z.of_nat m)) h)%Q.
Proof. exact l1_moments_spec. Qed.
Print Assumptions L1_moments_spec.

(* (14) Correlation coefficient: the E[xy]-E[x]E[y] form of
   CorrelationCoefficient.__call__ equals cov^2 / (var_I var_J) with the
   centred double sums over H (I = column, J = row). *)
Theorem cc_formula : forall nr nc H, length H = (nr * nc)%nat -> ~ (qsum H == 0)%Q ->
  let R := rows nc nr H in let N := qsum H in
  (cc_rho2 nr nc H == Hcov R N * Hcov R N / (Hvar_I R N * Hvar_J R N))%Q.
Proof. exact Proofs5.cc_formula. Qed.
Print Assumptions cc_formula.

(* (15) Correlation ratio: 1 - (within-row sum of squares) / (total sum of
   squares of the column marginal), whenever no `nonzero` clamp is active
   (every row is empty or has mass >= tiny, total mass and total variance >= tiny). *)
Theorem cr_formula : forall tiny nr nc H,
  let R := rows nc nr H in
  let N := qsum (map qsum R) in
  let hI := colsum R nc in
  (0 < tiny)%Q -> Forall (fun r => length r = nc) R -> Forall (row_ok tiny) R ->
  (tiny <= N)%Q -> (tiny <= wsum_from 0 (sqdev (row_mean hI)) hI / N)%Q ->
  (cr_eta2 tiny nr nc H == 1 - qsum (map ssw R) / wsum_from 0 (sqdev (row_mean hI)) hI)%Q.
Proof. exact Proofs5.cr_formula. Qed.
Print Assumptions cr_formula.

(* (16) L1 correlation ratio: 1 - (sum_r n_r s_r / n) / s where n_r s_r is the
   absolute deviation of row r around its weighted median (first index
   reaching half the row mass), s the same for the column marginal. *)
Theorem crl1_formula : forall tiny nr nc H,
  let R := rows nc nr H in
  (crl1_eta2 tiny nr nc H ==
   1 - (qsum (map (fun r => qsum r * snd (l1_moments r)) R) / nonzeroQ tiny (fst (fst (l1_moments (colsum R nc)))))
       / nonzeroQ tiny (snd (l1_moments (colsum R nc))))%Q /\
  forall r, (0 < qsum r)%Q ->
    exists m : nat, (m < length r)%nat /\
  ((1 # 2) * qsum r <= qsum (firstn (S m) r))%Q /\
  (forall t, (t < m)%nat -> (qsum (firstn (S t) r) < (1 # 2) * qsum r)%Q) /\
  (qsum r * snd (l1_moments r) == wsum_from 0 (absdev (Z.of_nat m)) r)%Q.
Proof. intros tiny nr nc H R. split; [apply crl1_unfold | exact row_absdev]. Qed.
Print Assumptions crl1_formula.

(* (17) clamp (float branch of _clamp, np.round = half to even): masked-out
   voxels get -1; selected voxels get a value in 0..bins-1, the map is order
   preserving, the minimum goes to 0 and the maximum to bins-1. *)
Theorem clamp_range_order_mask : forall bins xs mask, 1 <= bins -> length xs = length mask ->
  let ys := clamp_model bins xs mask in
  length ys = length xs /\
  forall i j, (i < length xs)%nat -> (j < length xs)%nat ->
    (nth i mask false = false -> nth i ys 0 = -1) /\
  (nth i mask false = true -> nth j mask false = true ->
     (exists a b, In a (selected xs mask) /\ In b (selected xs mask) /\ (a < b)%Q) ->
     0 <= nth i ys 0 <= bins - 1 /\
     ((nth i xs 0 <= nth j xs 0)%Q -> nth i ys 0 <= nth j ys 0)).
Proof. exact clamp_model_spec. Qed.
Print Assumptions clamp_range_order_mask.

Theorem clamp_extremes : forall bins xmin xmax, (xmin < xmax)%Q ->
  clamp_val bins xmin xmax xmin = 0 /\ clamp_val bins xmin xmax xmax = bins - 1.
Proof. exact clamp_val_ends. Qed.
Print Assumptions clamp_extremes.

(* (18) smallest_bounding_box, per axis: the box contains every masked
   coordinate and both end faces touch the mask. *)
Theorem smallest_bounding_box_spec : forall c0 cs, let '(corner, size) := bbox_axis c0 cs in
  Forall (fun c => corner <= c < corner + size) (c0 :: cs) /\
  In corner (c0 :: cs) /\ In (corner + size - 1) (c0 :: cs).
Proof. exact bbox_axis_spec. Qed.
Print Assumptions smallest_bounding_box_spec.

(* (19) subgrid_affine(affine, slices), in every commutative ring, row by row:
   voxel v of the sub-grid is voxel start + step*v of the image. *)
Theorem subgrid_affine_spec :
  forall (R : Type) (rO rI : R) (radd rmul rsub : R -> R -> R) (ropp : R -> R),
  ring_theory rO rI radd rmul rsub ropp (@eq R) ->
  forall (r : row4 R) s1 s2 s3 o1 o2 o3 v1 v2 v3,
  app_row R radd rmul (sg_row R radd rmul r s1 s2 s3 o1 o2 o3) v1 v2 v3
  = app_row R radd rmul r (radd o1 (rmul s1 v1)) (radd o2 (rmul s2 v2)) (radd o3 (rmul s3 v3)).
Proof. exact sg_row_spec. Qed.
Print Assumptions subgrid_affine_spec.

(* (19') Field of view: slice(corner, corner+size, spacing) on an axis of
   length n selects exactly the image indices corner + k*spacing below
   min(corner+size, n) - the k-th voxel of the block is image voxel
   corner + k*spacing (what subgrid_affine_spec needs as `start`, `step`). *)
Theorem fov_slice_spec : forall n start stop step, 0 < step -> 0 <= start ->
  let l := slice_indices n start stop step in
  (forall k, (k < length l)%nat -> nth k l 0 = start + Z.of_nat k * step) /\
  Forall (fun i => start <= i < Z.min stop n) l /\
  (forall k, start + Z.of_nat k * step < Z.min stop n -> (k < length l)%nat).
Proof. exact slice_indices_spec. Qed.
Print Assumptions fov_slice_spec.

(* ideal_spacing: when the loop stops, the sub-sampled block has at most
   npoints non-negative voxels and no spacing factor decreased. *)
Theorem ideal_spacing_spec : forall fuel data n0 n1 n2 np s0 s1 s2 r0 r1 r2,
  ideal_spacing_loop fuel data n0 n1 n2 np s0 s1 s2 = Some (r0, r1, r2) ->
  count_sub data n0 n1 n2 r0 r1 r2 <= np /\ s0 <= r0 /\ s1 <= r1 /\ s2 <= r2 /\
  (r0 - s0) + (r1 - s1) + (r2 - s2) <= Z.of_nat fuel.
Proof. exact ideal_spacing_post. Qed.
Print Assumptions ideal_spacing_spec.

(* (20) Optimisation clause, bookkeeping part.  `gen_optimize_binding` is
   translated from HistogramRegistration.optimize on every run: it says whether
   the optimiser's return value is written back into the transform
   (`Tv.param = fmin(...)`) or discarded.  PARTIAL: the optimiser itself is an
   oracle; ASSUMING its contract "the returned point has cost <= the cost at
   x0" (sampled by the harness for every optimizer x measure), the transform
   returned by optimize has similarity >= that of the starting transform.
   With the result discarded (parameters of the LAST cost evaluation kept) the
   same contract does not give the clause (second statement). *)
Theorem optimize_not_worse_partial :
  forall (P : Type) (sim : P -> Q) (run : (P -> Q) -> P -> list P * P),
  (forall f x0, (f (snd (run f x0)) <= f x0)%Q) ->
  forall x0, (sim x0 <= sim (optimize_result P sim run gen_optimize_binding x0))%Q.
Proof. exact optimize_not_worse. Qed.
Print Assumptions optimize_not_worse_partial.

Example optimize_in_place_last_can_be_worse :
  exists (sim : Z -> Q) (run : (Z -> Q) -> Z -> list Z * Z),
    (forall f x0, (f (snd (run f x0)) <= f x0)%Q) /\
    (sim (optimize_result Z sim run InPlaceLast 0%Z) < sim 0%Z)%Q.
Proof. exact in_place_last_can_be_worse. Qed.

(* non-vacuity: a voxel at (1/2, 1/4, 0) in a 2x2x2 target (padded 4x4x4) *)
Example pv_example :
  let J := map Z.of_nat (seq 0 64) in
  vox_inside 4 4 4 (mkvox 1 (1 # 2) (1 # 4) 0) = true /\
  map (fun p => (fst p, Qred (snd p))) (neigh J 4 4 4 (mkvox 1 (1 # 2) (1 # 4) 0)) =
    [(21, (3 # 8)%Q); (22, 0%Q); (25, (1 # 8)%Q); (26, 0%Q); (37, (3 # 8)%Q); (38, 0%Q); (41, (1 # 8)%Q); (42, 0%Q)].
Proof. cbv zeta. split; vm_compute; reflexivity. Qed.

Open Scope Q_scope.

(* ---------------------------------------------------------------- dist2loss / supervised likelihood ratio
   (similarity_measures.py: dist2loss, SimilarityMeasure.__call__, SupervisedLikelihoodRatio.loss; ModelLoss.v).
   np.log is an oracle: `logf` is universally quantified. *)

(* (21) For every rectangular model q (any shape, any rational entries): the array handed to log has the shape of q and
   its entry (i,j) is max(TINY, (q_ij / max(TINY, col_j)) / max(TINY, row_i)), where col_j is the column sum and row_i the
   row sum of the ORIGINAL q. *)
Theorem dist2loss_arg_spec : forall tiny nc q, Forall (fun r => length r = nc) q ->
  length (loss_arg tiny nc q) = length q /\ Forall (fun r => length r = nc) (loss_arg tiny nc q) /\
  forall i j, (i < length q)%nat -> (j < nc)%nat ->
    exists c, (c == col_total q j)%Q /\
      nth j (nth i (loss_arg tiny nc q) []) 0%Q =
        nonzeroQ tiny ((nth j (nth i q []) 0 / nonzeroQ tiny c) / nonzeroQ tiny (qsum (nth i q [])))%Q.
Proof. exact dist2loss_arg_spec_l. Qed.
Print Assumptions dist2loss_arg_spec.

(* (22) The log is only ever evaluated at values >= TINY > 0 (the loss is finite); a cell to which the model gives
   probability 0 is given EXACTLY TINY (its loss is -log(TINY): impossible intensity pairs are penalised, never skipped);
   a cell whose marginals and ratio are >= TINY is given the plain ratio q_ij / col_j / row_i. *)
Theorem dist2loss_floor : forall tiny nc q i j, (0 < tiny)%Q ->
  Forall (fun r => length r = nc) q -> (i < length q)%nat -> (j < nc)%nat ->
  let a := nth j (nth i (loss_arg tiny nc q) []) 0%Q in
  (0 < a)%Q /\ (tiny <= a)%Q /\
  ((nth j (nth i q []) 0 == 0)%Q -> a = tiny) /\
  (forall c ri, c = nth j (colsum q nc) 0%Q -> ri = qsum (nth i q []) ->
     (tiny <= c)%Q -> (tiny <= ri)%Q -> (tiny <= nth j (nth i q []) 0 / c / ri)%Q ->
     a = (nth j (nth i q []) 0 / c / ri)%Q).
Proof. exact dist2loss_floor_l. Qed.
Print Assumptions dist2loss_floor.

(* (23) SimilarityMeasure.__call__ with loss -log(A), for EVERY log function, histogram and A (any shapes): the value is
   sum_ij H_ij log(A_ij), divided by max(TINY, sum H) unless renormalize; with A = loss_arg q this is the supervised
   log-likelihood ratio. *)
Theorem slr_is_mean_log_ratio : forall logf tiny renorm nc H q,
  (slr_value logf tiny renorm nc H q ==
   if renorm then dotf logf H (loss_arg tiny nc q)
   else dotf logf H (loss_arg tiny nc q) / nonzeroQ tiny (total H))%Q.
Proof. intros. apply measure_call_mean. Qed.
Print Assumptions slr_is_mean_log_ratio.

(* non-vacuity: a diagonal model; the two impossible pairs sit exactly on the floor *)
Example dist2loss_example :
  qmat_eqb (loss_arg (1 # 1024) 2 [[1 # 2; 0]; [0; 1 # 2]]) [[2; 1 # 1024]; [1 # 1024; 2]] = true /\
  Qeq_bool (slr_value (fun x => x - 2) (1 # 1024) false 2 [[3; 1]; [0; 4]] [[1 # 2; 0]; [0; 1 # 2]])
           (((1 # 1024) - 2) / 8) = true.
Proof. split; vm_compute; reflexivity. Qed.
