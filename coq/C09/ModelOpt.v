(* C09 - bookkeeping of HistogramRegistration.optimize: which parameter vector
   the returned transform carries.  The optimiser itself (scipy.optimize /
   fmin_steepest) is an oracle: `run f x0` = (points at which it evaluated f, in
   order; point it returns). *)
From Coq Require Import ZArith QArith List.
From NV.Lib Require Import C09Base.
From NV.Generated Require Import OptimizeBook.
Import ListNotations.

Section Optimize.
  Variable P : Type.                           (* parameter vectors tc *)
  Variable sim : P -> Q.                       (* self._eval of the chain with these parameters *)
  Variable run : (P -> Q) -> P -> list P * P.

  (* def cost(tc): Tv.param = tc; return -self._eval(Tv) *)
  Definition opt_cost (p : P) : Q := if gen_cost_negates_similarity then (- sim p)%Q else sim p.

  (* Tv.param when optimize returns Tv.optimizable: every cost evaluation
     overwrote it (gen_cost_sets_param); afterwards either the optimiser's
     result is written back or nothing more happens *)
  Definition optimize_result (b : opt_binding) (x0 : P) : P :=
    let tr := run opt_cost x0 in
    match b with
    | FminReturn => snd tr
    | InPlaceLast => if gen_cost_sets_param then last (fst tr) x0 else x0
    end.
End Optimize.
