(* C09 - models of the Python helpers of histogram_registration.py / affine.py:
   _clamp / clamp, smallest_bounding_box, slices2aff / subgrid_affine. *)
From Coq Require Import ZArith QArith Qround List Bool Lia.
From NV.Lib Require Import C09Base.
Import ListNotations.
Close Scope Q_scope.
Open Scope Z_scope.

(* np.round on a double: round half to even *)
Definition rhe (q : Q) : Z :=
  let f := Qfloor q in
  let r := (q - inject_Z f)%Q in
  if qltb r (1 # 2) then f else if qltb (1 # 2) r then f + 1 else if Z.even f then f else f + 1.

(* _clamp, general branch: a = dmax / d; y = round(a * (x - xmin)), dmax = bins - 1 *)
Definition clamp_val (bins : Z) (xmin xmax x : Q) : Z :=
  rhe (inject_Z (bins - 1) / (xmax - xmin) * (x - xmin)).

Fixpoint qmin_l (d : Q) (l : list Q) : Q :=
  match l with [] => d | x :: r => let m := qmin_l d r in if Qle_bool x m then x else m end.
Fixpoint qmax_l (d : Q) (l : list Q) : Q :=
  match l with [] => d | x :: r => let m := qmax_l d r in if Qle_bool m x then x else m end.

Definition selected (xs : list Q) (mask : list bool) : list Q :=
  map fst (filter (fun p => snd p) (combine xs mask)).

Definition clamp_entry (bins : Z) (lo hi : Q) (p : Q * bool) : Z :=
  if snd p then clamp_val bins lo hi (fst p) else -1.

(* clamp(x, bins, mask) for non-integer dtype (what HistogramRegistration uses: get_fdata is float) *)
Definition clamp_model (bins : Z) (xs : list Q) (mask : list bool) : list Z :=
  match selected xs mask with
  | [] => map (fun _ => -1) xs
  | s0 :: srest =>
      let lo := qmin_l s0 srest in let hi := qmax_l s0 srest in
      map (clamp_entry bins lo hi) (combine xs mask)
  end.

(* integer dtype with dynamic d = xmax - xmin <= bins - 1: y = x - xmin, bins := d + 1 *)
Definition clamp_int_entry (lo : Z) (p : Z * bool) : Z := if snd p then fst p - lo else -1.

(* smallest_bounding_box on the list of masked voxel coordinates (np.where(msk > 0)) *)
Fixpoint zmin_l (d : Z) (l : list Z) : Z := match l with [] => d | x :: r => Z.min x (zmin_l d r) end.
Fixpoint zmax_l (d : Z) (l : list Z) : Z := match l with [] => d | x :: r => Z.max x (zmax_l d r) end.
Definition bbox_axis (c0 : Z) (cs : list Z) : Z * Z :=       (* (corner, size) *)
  let lo := zmin_l c0 cs in (lo, zmax_l c0 cs + 1 - lo).

(* slices2aff + subgrid_affine for 3 slices: np.dot(affine, [[s1,0,0,o1],[0,s2,0,o2],[0,0,s3,o3],[0,0,0,1]])
   on the top three rows of a 4x4 affine whose last row is [0,0,0,1] *)
Section Subgrid.
  Variable R : Type.
  Variables (rO rI : R) (radd rmul : R -> R -> R).
  Notation "a + b" := (radd a b). Notation "a * b" := (rmul a b).
  Definition row4 := (R * R * R * R)%type.
  Definition sg_row (r : row4) (s1 s2 s3 o1 o2 o3 : R) : row4 :=
    let '(a, b, c, t) := r in (a * s1, b * s2, c * s3, a * o1 + b * o2 + c * o3 + t).
  Definition app_row (r : row4) (v1 v2 v3 : R) : R :=
    let '(a, b, c, t) := r in a * v1 + b * v2 + c * v3 + t.
End Subgrid.

Definition sg_matrix_q (rows3 : list (Q * Q * Q * Q)) (s1 s2 s3 o1 o2 o3 : Q) : list (list Q) :=
  map (fun r => let '(a, b, c, t) := sg_row Q Qplus Qmult r s1 s2 s3 o1 o2 o3 in map Qred [a; b; c; t]) rows3
  ++ [[0; 0; 0; 1]%Q].

(* ------------------------------------------------------------------ field of view
   _slicer(corner, size, spacing)[axis] = slice(corner, size + corner, spacing) applied to an axis of
   length n: the image indices it selects *)
Definition slice_len (n start stop step : Z) : Z :=
  let hi := Z.min stop n in if hi <=? start then 0 else (hi - start + step - 1) / step.
Definition slice_indices (n start stop step : Z) : list Z :=
  map (fun k => start + Z.of_nat k * step) (seq 0 (Z.to_nat (slice_len n start stop step))).

(* (data >= 0).sum() of data[::s0, ::s1, ::s2], data C-contiguous with dims n0 n1 n2 *)
Definition count_sub (data : list Z) (n0 n1 n2 s0 s1 s2 : Z) : Z :=
  let xs := slice_indices n0 0 n0 s0 in let ys := slice_indices n1 0 n1 s1 in let zs := slice_indices n2 0 n2 s2 in
  fold_left (fun acc x => fold_left (fun acc y => fold_left (fun acc z =>
     if 0 <=? nth (Z.to_nat ((x * n1 + y) * n2 + z)) data (-1) then acc + 1 else acc) zs acc) ys acc) xs 0.

(* ideal_spacing: ddims = dims / spacing compared as exact rationals (a/b >= c/d <-> a*d >= c*b, b,d > 0) *)
Definition pick_dir (n0 n1 n2 s0 s1 s2 : Z) : Z :=
  if (n1 * s0 <=? n0 * s1) && (n2 * s0 <=? n0 * s2) then 0
  else if (n0 * s1 <? n1 * s0) && (n2 * s1 <=? n1 * s2) then 1 else 2.

Fixpoint ideal_spacing_loop (fuel : nat) (data : list Z) (n0 n1 n2 npoints s0 s1 s2 : Z) : option (Z * Z * Z) :=
  if count_sub data n0 n1 n2 s0 s1 s2 <=? npoints then Some (s0, s1, s2)
  else match fuel with
       | O => None
       | S f => let d := pick_dir n0 n1 n2 s0 s1 s2 in
                if d =? 0 then ideal_spacing_loop f data n0 n1 n2 npoints (s0 + 1) s1 s2
                else if d =? 1 then ideal_spacing_loop f data n0 n1 n2 npoints s0 (s1 + 1) s2
                else ideal_spacing_loop f data n0 n1 n2 npoints s0 s1 (s2 + 1)
       end.

(* set_fov: the block of image voxel indices per axis (the SAME slices give _from_data and, through
   subgrid_affine, _from_affine) *)
Definition fov_axis (n corner size spacing : Z) : list Z := slice_indices n corner (size + corner) spacing.
