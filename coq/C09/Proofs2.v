(* C09 proofs, part 2: every H write is inside the histogram; per-voxel mass
   of the three update rules; mass of the whole voxel loop. *)
From Coq Require Import ZArith QArith Qround Qabs List Bool Lia Lqa.
From NV.Lib Require Import C09Base.
From NV.Generated Require Import JointHist.
From NV.C09 Require Import Model Proofs1.
Import ListNotations.
Close Scope Q_scope.
Open Scope Z_scope.

(* well-formed padded target: every entry is below clampJ (entries < 0 are padding/mask) *)
Definition wfJ (J : list Z) (clampJ : Z) : Prop := Forall (fun j => j < clampJ) J.

Lemma getJ_lt : forall J cJ q, wfJ J cJ -> 0 <= cJ -> getJ J q < cJ.
Proof.
  intros J cJ q HJ Hc. unfold getJ.
  destruct (nth_in_or_default (Z.to_nat q) J (-1)) as [Hin | Hd].
  - unfold wfJ in HJ. rewrite Forall_forall in HJ. apply HJ. exact Hin.
  - rewrite Hd. lia.
Qed.

Lemma map_snd_combine : forall (A B : Type) (l1 : list A) (l2 : list B),
  length l1 = length l2 -> map snd (combine l1 l2) = l2.
Proof.
  intros A B l1. induction l1 as [|a l1 IH]; intros [|b l2] H; cbn in *; try congruence.
  f_equal. apply IH. congruence.
Qed.

Lemma candidates_weights : forall J d0 d1 d2 v,
  map snd (candidates J d0 d1 d2 v) =
  qweights (gen_nx (vx v)) (gen_ny (vy v)) (gen_nz (vz v)) (vx v) (vy v) (vz v).
Proof. intros. unfold candidates. apply map_snd_combine. reflexivity. Qed.

Lemma candidates_length : forall J d0 d1 d2 v, length (candidates J d0 d1 d2 v) = 8%nat.
Proof. reflexivity. Qed.

Lemma filter_length_le' : forall (A : Type) (f : A -> bool) l, (length (filter f l) <= length l)%nat.
Proof. intros A f l. induction l as [|a l IH]; cbn; [lia|]. destruct (f a); cbn; lia. Qed.

Lemma neigh_length : forall J d0 d1 d2 v, (length (neigh J d0 d1 d2 v) <= 8)%nat.
Proof. intros. unfold neigh. rewrite <- (candidates_length J d0 d1 d2 v). apply filter_length_le'. Qed.

(* what is known of every buffered neighbour of an inside voxel *)
Definition nb_ok (cJ : Z) (p : Z * Q) : Prop := 0 <= fst p < cJ /\ (0 <= snd p)%Q.

Lemma neigh_ok : forall J d0 d1 d2 cJ v, wfJ J cJ -> 0 <= cJ -> vox_inside d0 d1 d2 v = true ->
  Forall (nb_ok cJ) (neigh J d0 d1 d2 v).
Proof.
  intros J d0 d1 d2 cJ v HJ Hc Hin. apply Forall_forall. intros [j w] Hp.
  unfold neigh in Hp. apply filter_In in Hp. destruct Hp as [Hc1 Hc2]. cbn [fst] in Hc2.
  unfold gen_append_cond in Hc2. apply Z.leb_le in Hc2.
  unfold nb_ok. cbn [fst snd]. split.
  - split; [exact Hc2|]. unfold candidates in Hc1. apply in_combine_l in Hc1.
    apply in_map_iff in Hc1. destruct Hc1 as (q & <- & _). apply getJ_lt; assumption.
  - pose proof (inside_weights_nonneg d0 d1 d2 v Hin) as Hw. rewrite Forall_forall in Hw. apply Hw.
    rewrite <- (candidates_weights J d0 d1 d2 v). apply in_map_iff. exists (j, w). split; [reflexivity|exact Hc1].
Qed.

(* ------------------------------------------------------------------ index arithmetic *)
Lemma hist_index_in_bounds : forall j cJ i cI, 0 <= j < cJ -> 0 <= i < cI -> 0 <= j + cJ * i < cI * cJ.
Proof.
  intros j cJ i cI Hj Hi. split; [nia|].
  assert (cJ * i <= cJ * (cI - 1)) by (apply Z.mul_le_mono_nonneg_l; lia). nia.
Qed.

Lemma pv_updates_in_bounds : forall i cI cJ nb, 0 <= i < cI -> Forall (nb_ok cJ) nb ->
  Forall (fun p => 0 <= fst p < cI * cJ) (pv_updates i cJ nb).
Proof.
  intros i cI cJ nb Hi Hnb. unfold pv_updates. apply Forall_forall. intros p Hp.
  apply in_map_iff in Hp. destruct Hp as (x & <- & Hx). rewrite Forall_forall in Hnb.
  destruct (Hnb x Hx) as [Hj _]. cbn [fst]. unfold gen_pv_index. apply hist_index_in_bounds; assumption.
Qed.

Lemma pv_updates_mass : forall i cJ nb, map snd (pv_updates i cJ nb) = map snd nb.
Proof. intros. unfold pv_updates. rewrite map_map. apply map_ext. intros a. reflexivity. Qed.

(* weighted mean of values in [0, M] with non-negative weights *)
Lemma tri_jm_bounds : forall M nb, 0 <= M -> Forall (nb_ok (M + 1)) nb ->
  (0 <= tri_jm nb /\ tri_jm nb <= inject_Z M * tri_sumW nb /\ 0 <= tri_sumW nb)%Q.
Proof.
  intros M nb HM H. induction H as [|[j w] nb [Hj Hw] _ IH]; unfold tri_jm, tri_sumW in *; cbn [map qsum fst snd] in *.
  - lra.
  - destruct IH as (I1 & I2 & I3). unfold gen_tri_djm, gen_tri_dsum in *. cbn [fst snd] in *.
    assert (A : (0 <= w * inject_Z j)%Q).
    { apply Qmult_le_0_compat; [exact Hw|]. change 0%Q with (inject_Z 0). rewrite <- Zle_Qle. lia. }
    assert (B : (w * inject_Z j <= inject_Z M * w)%Q).
    { setoid_replace (w * inject_Z j)%Q with (inject_Z j * w)%Q by ring.
      apply Qmult_le_compat_r; [|exact Hw]. rewrite <- Zle_Qle. lia. }
    repeat split; lra.
Qed.

Lemma uround_range : forall x M, 0 <= M -> (0 <= x)%Q -> (x <= inject_Z M)%Q -> 0 <= c_UROUND x <= M.
Proof.
  intros x M HM H0 H1. rewrite c_UROUND_nonneg by exact H0.
  pose proof (Qfloor_le (x + (1 # 2))) as F1.
  assert (F0 : Qfloor 0 <= Qfloor (x + (1 # 2))) by (apply Qfloor_resp_le; lra).
  change (Qfloor 0) with 0 in F0.
  assert (A : (inject_Z (Qfloor (x + (1 # 2))) < inject_Z (M + 1))%Q).
  { rewrite inject_Z_plus. change (inject_Z 1) with 1%Q. lra. }
  rewrite <- Zlt_Qlt in A. lia.
Qed.

Lemma tri_updates_shape : forall i cJ nb,
  tri_updates i cJ nb = [] \/
  exists k, tri_updates i cJ nb = [(k + cJ * i, 1%Q)] /\ (0 < tri_sumW nb)%Q /\
            k = c_UROUND (tri_jm nb / tri_sumW nb).
Proof.
  intros i cJ nb. unfold tri_updates. destruct (gen_tri_guard (tri_sumW nb)) eqn:G; [right|left; reflexivity].
  unfold gen_tri_guard in G. apply qltb_spec in G.
  eexists. split; [|split; [exact G|reflexivity]].
  unfold gen_tri_index, gen_tri_norm, gen_tri_incr. reflexivity.
Qed.

Lemma tri_bin_range : forall cJ nb, 0 < cJ -> Forall (nb_ok cJ) nb -> (0 < tri_sumW nb)%Q ->
  0 <= c_UROUND (tri_jm nb / tri_sumW nb) < cJ.
Proof.
  intros cJ nb Hc Hnb Hs.
  replace cJ with ((cJ - 1) + 1) in Hnb by lia.
  destruct (tri_jm_bounds (cJ - 1) nb ltac:(lia) Hnb) as (A & B & _).
  assert (R : 0 <= c_UROUND (tri_jm nb / tri_sumW nb) <= cJ - 1).
  { apply uround_range; [lia| |].
    - apply Qle_shift_div_l; [exact Hs|lra].
    - apply Qle_shift_div_r; [exact Hs|exact B]. }
  lia.
Qed.

Lemma tri_updates_in_bounds : forall i cI cJ nb, 0 <= i < cI -> 0 <= cJ -> Forall (nb_ok cJ) nb ->
  Forall (fun p => 0 <= fst p < cI * cJ) (tri_updates i cJ nb).
Proof.
  intros i cI cJ nb Hi Hc Hnb. destruct (tri_updates_shape i cJ nb) as [-> | (k & -> & Hs & ->)]; [constructor|].
  constructor; [|constructor]. cbn [fst].
  assert (Hpos : 0 < cJ).
  { destruct (Z.eq_dec cJ 0) as [E|E]; [|lia]. exfalso. subst cJ.
    destruct nb as [|p nb]; [unfold tri_sumW in Hs; cbn in Hs; lra|].
    inversion Hnb as [|? ? [Hp _] _]; subst. lia. }
  apply hist_index_in_bounds; [|exact Hi]. apply tri_bin_range; assumption.
Qed.

Lemma updates_in_bounds : forall m i cI cJ nb, 0 <= i < cI -> 0 <= cJ -> Forall (nb_ok cJ) nb ->
  Forall (fun p => 0 <= fst p < cI * cJ) (updates m i cJ nb).
Proof.
  intros [|] i cI cJ nb Hi Hc Hnb; cbn [updates]; [apply pv_updates_in_bounds | apply tri_updates_in_bounds]; assumption.
Qed.

(* ------------------------------------------------------------------ mass *)
Lemma apply_updates_length : forall us H, length (apply_updates us H) = length H.
Proof.
  induction us as [|u us IH]; intros H; cbn; [reflexivity|].
  unfold apply_updates in IH. rewrite IH. apply add_at_length.
Qed.

Lemma apply_updates_sum : forall us H, Forall (fun p => 0 <= fst p < Z.of_nat (length H)) us ->
  (qsum (apply_updates us H) == qsum H + qsum (map snd us))%Q.
Proof.
  induction us as [|u us IH]; intros H Hb; cbn [apply_updates fold_left map qsum].
  - ring.
  - inversion Hb as [|? ? Hu Hus]; subst.
    change (fold_left (fun H p => add_at (fst p) (snd p) H) us (add_at (fst u) (snd u) H))
      with (apply_updates us (add_at (fst u) (snd u) H)).
    rewrite IH by (rewrite add_at_length; exact Hus).
    rewrite add_at_sum by exact Hu. ring.
Qed.

Lemma filter_sum_le : forall (f : Z * Q -> bool) l, Forall (fun p => (0 <= snd p)%Q) l ->
  (0 <= qsum (map snd (filter f l)) /\ qsum (map snd (filter f l)) <= qsum (map snd l))%Q.
Proof.
  intros f l H. induction H as [|p l Hp _ IH]; cbn [filter map qsum]; [lra|].
  cbv beta in Hp. destruct IH as [I1 I2]. destruct (f p); cbn [map qsum]; lra.
Qed.

Lemma filter_all : forall (A : Type) (f : A -> bool) l, Forall (fun p => f p = true) l -> filter f l = l.
Proof. intros A f l H. induction H as [|p l Hp _ IH]; cbn; [reflexivity|]. rewrite Hp, IH. reflexivity. Qed.

(* mass that one inside voxel can deliver: the weights of its non-padding neighbours *)
Lemma neigh_mass : forall J d0 d1 d2 v, vox_inside d0 d1 d2 v = true ->
  (0 <= qsum (map snd (neigh J d0 d1 d2 v)) /\ qsum (map snd (neigh J d0 d1 d2 v)) <= 1)%Q.
Proof.
  intros J d0 d1 d2 v Hin. unfold neigh.
  assert (Hw : Forall (fun p : Z * Q => (0 <= snd p)%Q) (candidates J d0 d1 d2 v)).
  { apply Forall_forall. intros p Hp. pose proof (inside_weights_nonneg d0 d1 d2 v Hin) as H.
    rewrite Forall_forall in H. apply H. rewrite <- (candidates_weights J d0 d1 d2 v). now apply in_map. }
  destruct (filter_sum_le (fun p => gen_append_cond (fst p)) _ Hw) as [A B].
  rewrite candidates_weights, qweights_sum_one in B. split; assumption.
Qed.

Lemma neigh_mass_full : forall J d0 d1 d2 v,
  Forall (fun p => 0 <= fst p) (candidates J d0 d1 d2 v) ->
  (qsum (map snd (neigh J d0 d1 d2 v)) == 1)%Q.
Proof.
  intros J d0 d1 d2 v H. unfold neigh. rewrite filter_all.
  - rewrite candidates_weights. apply qweights_sum_one.
  - eapply Forall_impl; [|exact H]. intros p Hp. unfold gen_append_cond. apply Z.leb_le. exact Hp.
Qed.

Definition voxel_mass (m : mode) (J : list Z) (d0 d1 d2 cJ : Z) (v : vox) : Q :=
  if vox_inside d0 d1 d2 v then qsum (map snd (updates m (vi v) cJ (neigh J d0 d1 d2 v))) else 0%Q.

Lemma step_length : forall m J d0 d1 d2 cJ H v, length (step m J d0 d1 d2 cJ H v) = length H.
Proof. intros. unfold step. destruct (vox_inside d0 d1 d2 v); [apply apply_updates_length|reflexivity]. Qed.

Lemma step_mass : forall m J d0 d1 d2 cI cJ H v,
  wfJ J cJ -> 0 <= cJ -> vi v < cI -> length H = Z.to_nat (cI * cJ) ->
  (qsum (step m J d0 d1 d2 cJ H v) == qsum H + voxel_mass m J d0 d1 d2 cJ v)%Q.
Proof.
  intros m J d0 d1 d2 cI cJ H v HJ Hc Hi HL. unfold step, voxel_mass.
  destruct (vox_inside d0 d1 d2 v) eqn:Hin; [|ring].
  apply apply_updates_sum.
  destruct (inside_coords _ _ _ _ Hin) as (Hi0 & _).
  pose proof (neigh_ok J d0 d1 d2 cJ v HJ Hc Hin) as Hnb.
  pose proof (updates_in_bounds m (vi v) cI cJ _ (conj Hi0 Hi) Hc Hnb) as Hb.
  eapply Forall_impl; [|exact Hb]. intros p Hp. cbv beta in Hp. rewrite HL.
  assert (0 <= cI * cJ) by (apply Z.mul_nonneg_nonneg; lia). lia.
Qed.

Lemma qsum_repeat0 : forall n, (qsum (repeat 0%Q n) == 0)%Q.
Proof. induction n as [|n IH]; cbn [repeat qsum]; [reflexivity|]. rewrite IH. ring. Qed.

Lemma fold_step_mass : forall m J d0 d1 d2 cI cJ vs H,
  wfJ J cJ -> 0 <= cJ -> Forall (fun v => vi v < cI) vs -> length H = Z.to_nat (cI * cJ) ->
  (qsum (fold_left (step m J d0 d1 d2 cJ) vs H) == qsum H + qsum (map (voxel_mass m J d0 d1 d2 cJ) vs))%Q.
Proof.
  intros m J d0 d1 d2 cI cJ vs. induction vs as [|v vs IH]; intros H HJ Hc Hv HL; cbn [fold_left map qsum].
  - ring.
  - inversion Hv as [|? ? Hv1 Hv2]; subst.
    rewrite IH; try assumption.
    + rewrite (step_mass m J d0 d1 d2 cI cJ H v) by assumption. ring.
    + rewrite step_length. exact HL.
Qed.

Lemma joint_hist_length : forall m J d0 d1 d2 cI cJ vs,
  length (joint_hist m J d0 d1 d2 cI cJ vs) = Z.to_nat (cI * cJ).
Proof.
  intros. unfold joint_hist.
  assert (G : forall vs H, length (fold_left (step m J d0 d1 d2 cJ) vs H) = length H).
  { induction vs0 as [|v vs0 IH]; intros H; cbn [fold_left]; [reflexivity|]. rewrite IH. apply step_length. }
  rewrite G. unfold hist0. apply repeat_length.
Qed.

Lemma joint_hist_mass : forall m J d0 d1 d2 cI cJ vs,
  wfJ J cJ -> 0 <= cJ -> Forall (fun v => vi v < cI) vs ->
  (qsum (joint_hist m J d0 d1 d2 cI cJ vs) == qsum (map (voxel_mass m J d0 d1 d2 cJ) vs))%Q.
Proof.
  intros m J d0 d1 d2 cI cJ vs HJ Hc Hv. unfold joint_hist.
  rewrite (fold_step_mass m J d0 d1 d2 cI cJ vs) by (try assumption; unfold hist0; apply repeat_length).
  unfold hist0. rewrite qsum_repeat0. ring.
Qed.

Lemma tri_mass : forall i cJ nb,
  (qsum (map snd (tri_updates i cJ nb)) == if qltb 0 (tri_sumW nb) then 1 else 0)%Q.
Proof.
  intros i cJ nb. unfold tri_updates, gen_tri_guard.
  change (0 # 1)%Q with 0%Q.
  destruct (qltb 0 (tri_sumW nb)); cbn [map snd qsum]; unfold gen_tri_incr; cbn [inject_Z]; ring.
Qed.

Lemma voxel_mass_bounds : forall m J d0 d1 d2 cJ v,
  (0 <= voxel_mass m J d0 d1 d2 cJ v /\ voxel_mass m J d0 d1 d2 cJ v <= 1)%Q.
Proof.
  intros m J d0 d1 d2 cJ v. unfold voxel_mass. destruct (vox_inside d0 d1 d2 v) eqn:Hin; [|lra].
  destruct m; cbn [updates].
  - rewrite pv_updates_mass. apply neigh_mass. exact Hin.
  - rewrite tri_mass. destruct (qltb 0 (tri_sumW (neigh J d0 d1 d2 v))); lra.
Qed.

Definition n_inside (d0 d1 d2 : Z) (vs : list vox) : Z := Z.of_nat (length (filter (vox_inside d0 d1 d2) vs)).

Lemma masses_le_inside : forall m J d0 d1 d2 cJ vs,
  (0 <= qsum (map (voxel_mass m J d0 d1 d2 cJ) vs) /\
   qsum (map (voxel_mass m J d0 d1 d2 cJ) vs) <= inject_Z (n_inside d0 d1 d2 vs))%Q.
Proof.
  intros m J d0 d1 d2 cJ vs. unfold n_inside. induction vs as [|v vs IH]; cbn [map qsum filter length].
  - change (inject_Z (Z.of_nat 0)) with 0%Q. lra.
  - pose proof (voxel_mass_bounds m J d0 d1 d2 cJ v) as B.
    unfold voxel_mass in *. destruct (vox_inside d0 d1 d2 v) eqn:Hin.
    + cbn [length]. rewrite Nat2Z.inj_succ, <- Z.add_1_r, inject_Z_plus. change (inject_Z 1) with 1%Q. lra.
    + lra.
Qed.

(* a voxel that fails the inside test leaves H untouched, whatever the mode *)
Lemma outside_no_change : forall m J d0 d1 d2 cJ H v, vox_inside d0 d1 d2 v = false ->
  step m J d0 d1 d2 cJ H v = H.
Proof. intros. unfold step. now rewrite H0. Qed.

Lemma negative_not_inside : forall d0 d1 d2 v, vi v < 0 -> vox_inside d0 d1 d2 v = false.
Proof.
  intros d0 d1 d2 v H. destruct (vox_inside d0 d1 d2 v) eqn:E; [|reflexivity].
  apply inside_coords in E. lia.
Qed.

Lemma out_of_grid_not_inside : forall d0 d1 d2 v,
  (vx v <= inject_Z (-1) \/ inject_Z (d0 - 2) <= vx v \/ vy v <= inject_Z (-1) \/ inject_Z (d1 - 2) <= vy v \/
   vz v <= inject_Z (-1) \/ inject_Z (d2 - 2) <= vz v)%Q -> vox_inside d0 d1 d2 v = false.
Proof.
  intros d0 d1 d2 v H. destruct (vox_inside d0 d1 d2 v) eqn:E; [|reflexivity].
  unfold vox_inside in E. apply inside_spec in E. lra.
Qed.
