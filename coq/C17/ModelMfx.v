(* C17 - executable model of nipy/algorithms/statistics/mixed_effects_stat.py
   (MixedEffectsModel: fit, _one_step, log-likelihood-free part) for ONE test
   column (the code treats the n_tests columns independently: every operation
   is elementwise or a reduction over axis 0, and pinv_X is shared).

   The model object is a record of the attributes the methods assign
   (beta_, Y_, V2); None = attribute not yet set (fresh object).  `fit` is the
   statement sequence of the source:

       self.beta_ = np.dot(self.pinv_X, Y)
       self.Y_    = np.dot(self.X, self.beta_)
       self.V2    = np.mean((Y - self.Y_) ** 2, 0)
       for i in range(self.n_iter): self._one_step(Y, V1)

   and `_one_step` reads self.V2, self.Y_ from the object:

       prec = 1. / (self.V2 + V1)
       Y_   = prec * (self.V2 * Y + V1 * self.Y_)
       cvar = V1 * self.V2 * prec
       self.beta_ = np.dot(self.pinv_X, Y_)
       self.Y_    = np.dot(self.X, self.beta_)
       self.V2    = np.mean((Y_ - self.Y_) ** 2, 0) + cvar.mean(0)

   pinv_X (numpy.linalg.pinv, LAPACK) is an oracle: its value P is an argument.
   Every stored number goes through Qred (value-preserving) to keep the exact
   rationals small when the model is executed. *)
From Coq Require Import List Bool ZArith QArith Lia.
From NV.C17 Require Import Model.
Import ListNotations.
Open Scope Q_scope.

Fixpoint dot (a b : list Q) : Q :=
  match a, b with x :: a', y :: b' => x * y + dot a' b' | _, _ => 0 end.
Definition mv (M : list (list Q)) (v : list Q) : list Q := map (fun r => Qred (dot r v)) M.
Fixpoint map2 {A B C} (f : A -> B -> C) (a : list A) (b : list B) : list C :=
  match a, b with x :: a', y :: b' => f x y :: map2 f a' b' | _, _ => [] end.
Definition qmean (v : list Q) : Q := qsum v / qlen v.
Definition sqdiff (a b : Q) : Q := (a - b) * (a - b).

Record mfx_obj := mk_obj { o_beta : option (list Q); o_fit : option (list Q); o_V2 : option Q }.
Definition fresh_obj : mfx_obj := mk_obj None None None.
Definition set_beta (o : mfx_obj) b := mk_obj (Some b) (o_fit o) (o_V2 o).
Definition set_fit (o : mfx_obj) f := mk_obj (o_beta o) (Some f) (o_V2 o).
Definition set_V2 (o : mfx_obj) v := mk_obj (o_beta o) (o_fit o) (Some v).

(* E step, per sample: posterior mean and variance *)
Definition e_mean (v2 y v1 f : Q) : Q := (1 / (v2 + v1)) * (v2 * y + v1 * f).
Definition e_cvar (v2 v1 : Q) : Q := v1 * v2 * (1 / (v2 + v1)).

(* None = AttributeError (self.V2 / self.Y_ read before assignment) *)
Definition one_step (P X : list (list Q)) (Y V1 : list Q) (o : mfx_obj) : option mfx_obj :=
  match o_V2 o, o_fit o with
  | Some v2, Some f =>
      let Z := map2 (fun y vf => Qred (e_mean v2 y (fst vf) (snd vf))) Y (combine V1 f) in
      let cvar := map (e_cvar v2) V1 in
      let o1 := set_beta o (mv P Z) in
      let beta := mv P Z in
      let o2 := set_fit o1 (mv X beta) in
      let f' := mv X beta in
      Some (set_V2 o2 (Qred (qmean (map2 sqdiff Z f') + qmean cvar)))
  | _, _ => None
  end.

Fixpoint iter_steps (n : nat) (step : mfx_obj -> option mfx_obj) (o : option mfx_obj) : option mfx_obj :=
  match n with
  | O => o
  | S k => iter_steps k step (match o with Some s => step s | None => None end)
  end.

Definition fit_method (P X : list (list Q)) (n_iter : nat) (o : mfx_obj) (Y V1 : list Q) : option mfx_obj :=
  let o1 := set_beta o (mv P Y) in
  let beta := mv P Y in
  let o2 := set_fit o1 (mv X beta) in
  let f := mv X beta in
  let o3 := set_V2 o2 (Qred (qmean (map2 sqdiff Y f))) in
  iter_steps n_iter (one_step P X Y V1) (Some o3).

(* results for the harness *)
Definition fit_beta (r : option mfx_obj) : list Q := match r with Some o => match o_beta o with Some b => b | None => [] end | None => [] end.
Definition fit_V2 (r : option mfx_obj) : Q := match r with Some o => match o_V2 o with Some v => v | None => -(1) end | None => -(1) end.

(* -------------------------------------------------------------------------
   nipy/algorithms/statistics/onesample.py: estimate_mean (one column)
     W = pos_recipr(sd**2); effect = sum(Y W)/sum(W);
     scale = sum(W (Y-effect)^2)/(n-1); var_total = scale * pos_recipr(sum W);
     t = effect * pos_recipr(sqrt(var_total))                                 *)
Definition pos_recipr (x : Q) : Q := if Qlt_le_dec 0 x then 1 / x else 0.
Definition em_weights (sd : list Q) : list Q := map (fun s => pos_recipr (s * s)) sd.
Definition em_effect (Y sd : list Q) : Q := dot Y (em_weights sd) / qsum (em_weights sd).
Definition em_scale2 (Y sd : list Q) : Q :=
  qsum (map2 (fun y w => w * sqdiff y (em_effect Y sd)) Y (em_weights sd)) / (qlen Y - 1).
Definition em_var_total (Y sd : list Q) : Q := em_scale2 Y sd * pos_recipr (qsum (em_weights sd)).

(* -------------------------------------------------------------------------
   lib/fff/fff_onesample_stat.c: Gaussian MFX (student_mfx, mean_gauss_mfx)
   _fff_onesample_gmfx_EM(&m, &v, x, var, niter, constraint), as repaired by 4a6ea55:

     if (!constraint) v1 = fff_vector_ssd(x, &m1, 0)/n;          (m1 = mean)
     else { m1 = *m; v1 = fff_vector_ssd(x, &m1, 1)/n; }         (fixed offset m1 = value passed in)
     while (iter < niter) { m0 = m1; v0 = v1; if (!constraint) m1 = 0; v1 = 0;
       for i: aux = 1/(var_i + v0); mi = (v0 x_i + var_i m0) aux; vi = aux var_i v0;
              if (!constraint) { m1 += mi; v1 += vi + mi^2; } else v1 += vi + (mi - m0)^2;
       v1 /= n;  if (!constraint) { m1 /= n; v1 -= m1^2; } }
     *m = m1; *v = v1;

   `m_in` is the value the caller stores in *m before the call (the baseline in
   _fff_onesample_LR_gmfx; ignored in unconstrained mode).  x and var are the
   logical element sequences; the strides of the two fff_vectors are a
   memory-layout matter checked by the harness (layout/* oracles). *)
Definition ssd_fixed (x : list Q) (m : Q) : Q :=
  let mean := qsum x / qlen x in
  qsum (map (fun v => v * v) x) + qlen x * ((m - mean) * (m - mean) - mean * mean).

Definition gm_mi (m0 v0 xi si : Q) : Q := (v0 * xi + si * m0) * (1 / (si + v0)).
Definition gm_vi (v0 si : Q) : Q := (1 / (si + v0)) * si * v0.
(* constrained accumulation term: vi + (mi - m0)^2 *)
Definition gm_cterm (m0 v0 xi si : Q) : Q :=
  gm_vi v0 si + (gm_mi m0 v0 xi si - m0) * (gm_mi m0 v0 xi si - m0).

Definition gmfx_init (constraint : bool) (m_in : Q) (x : list Q) : Q * Q :=
  if constraint then (m_in, Qred (ssd_fixed x m_in / qlen x))
  else (Qred (qsum x / qlen x), Qred (vec_ssd x / qlen x)).

Definition gmfx_step (constraint : bool) (x var : list Q) (st : Q * Q) : Q * Q :=
  let '(m0, v0) := st in
  if constraint then (m0, Qred (qsum (map2 (gm_cterm m0 v0) x var) / qlen x))
  else
    let mi := map2 (gm_mi m0 v0) x var in
    let vi := map (gm_vi v0) var in
    let m1 := Qred (qsum mi / qlen x) in
    (m1, Qred (qsum (map2 (fun a b => b + a * a) mi vi) / qlen x - m1 * m1)).

Fixpoint gmfx_iter (n : nat) (constraint : bool) (x var : list Q) (st : Q * Q) : Q * Q :=
  match n with O => st | S k => gmfx_iter k constraint x var (gmfx_step constraint x var st) end.

Definition gmfx_em (niter : nat) (constraint : bool) (m_in : Q) (x var : list Q) : Q * Q :=
  gmfx_iter niter constraint x var (gmfx_init constraint m_in x).

(* mean_gauss_mfx + base *)
Definition gmfx_mean (niter : nat) (x var : list Q) : Q := fst (gmfx_em niter false 0 x var).
(* the mean under H0 as _fff_onesample_LR_gmfx obtains it: _fff_onesample_gmfx_EM(&base, &v0, ..., 1) *)
Definition student_mfx_null_mean (niter : nat) (base : Q) (x var : list Q) : Q := fst (gmfx_em niter true base x var).
Definition student_mfx_null_var (niter : nat) (base : Q) (x var : list Q) : Q := snd (gmfx_em niter true base x var).

(* -------------------------------------------------------------------------
   lib/fff/fff_glm_twolevel.c: fff_glm_twolevel_EM_init / _EM_run (one observation vector)

     init: b = 0; s2 = +inf
     run, per iteration:
       z = X b
       w2 = 1/ENSURE_POSITIVE(s2)
       for i: w1 = 1/ENSURE_POSITIVE(vy_i); vz_i = 1/(w1+w2); z_i = vz_i (w1 y_i + w2 z_i)
       b = PpiX z
       Qz = X b - z
       s2 = (fff_vector_ssd(Qz, &m = 0, fixed_offset = 1) + sum(vz)) / n     (sum of squares about 0)

   s2 : option Q, None = +infinity (1/inf = 0).  FFF_ENSURE_POSITIVE(a) = a > 1e-50 ? a : 1e-50.
   PpiX (projected pseudo-inverse, computed by the caller) is an argument. *)
Definition TINY : Q := Qmake 1 (10 ^ 50).
Definition ens_pos (a : Q) : Q := if Qlt_le_dec TINY a then a else TINY.

Record glm2_state := mk_glm2 { g_b : list Q; g_s2 : option Q }.

Definition glm2_init (p : nat) : glm2_state := mk_glm2 (repeat 0 p) None.

Definition glm2_w2 (s2 : option Q) : Q := match s2 with None => 0 | Some v => 1 / ens_pos v end.
Definition glm2_vz (w2 vyi : Q) : Q := 1 / (1 / ens_pos vyi + w2).
Definition glm2_z (w2 yi vyi fi : Q) : Q := glm2_vz w2 vyi * ((1 / ens_pos vyi) * yi + w2 * fi).

Definition glm2_step (P X : list (list Q)) (y vy : list Q) (st : glm2_state) : glm2_state :=
  let f := mv X (g_b st) in
  let w2 := glm2_w2 (g_s2 st) in
  let vz := map (fun v => Qred (glm2_vz w2 v)) vy in
  let z := map2 (fun yi vf => Qred (glm2_z w2 yi (fst vf) (snd vf))) y (combine vy f) in
  let b := mv P z in
  let Qz := map2 (fun a c => a - c) (mv X b) z in
  mk_glm2 b (Some (Qred ((ssd_fixed Qz 0 + qsum vz) / qlen y))).

Fixpoint glm2_iter (n : nat) (P X : list (list Q)) (y vy : list Q) (st : glm2_state) : glm2_state :=
  match n with O => st | S k => glm2_iter k P X y vy (glm2_step P X y vy st) end.

Definition glm2_run (P X : list (list Q)) (niter : nat) (y vy : list Q) : glm2_state :=
  glm2_iter niter P X y vy (glm2_init (length P)).
Definition glm2_s2 (st : glm2_state) : Q := match g_s2 st with Some v => v | None => -(1) end.

(* -------------------------------------------------------------------------
   _fff_onesample_laplace (fff_onesample_stat.c:235-260); sqrt and log abstract

     med = median(x); s = SAD(x, med)/n; s0 = SAD(x, base)/n; s0 = FFF_MAX(s0, s);
     sign = SIGN(med - base); if (sign == 0) return 0;
     t = sqrt(2 n log(s0/s)); finite ? sign t : sign inf

   fff_vector_median: middle element (odd n) / mean of the two middle elements (even n). *)
Fixpoint ins_le (v : Q) (l : list Q) : list Q :=
  match l with [] => [v] | w :: r => if Qlt_le_dec w v then w :: ins_le v r else v :: l end.
Definition sort_le (l : list Q) : list Q := fold_right ins_le [] l.
Definition lib_median (x : list Q) : Q :=
  let s := sort_le x in let n := length x in
  if Nat.odd n then nth (n / 2) s 0 else (1 # 2) * (nth (n / 2 - 1) s 0 + nth (n / 2) s 0).
Definition sad (x : list Q) (m : Q) : Q := qsum (map (fun v => qabs' (v - m)) x).
Definition qmax' (a b : Q) : Q := if Qlt_le_dec b a then a else b.      (* FFF_MAX(a,b) = a > b ? a : b *)
Definition laplace_ratio (x : list Q) (base : Q) : Q :=
  let s := sad x (lib_median x) / qlen x in qmax' (sad x base / qlen x) s / s.
Definition os_laplace (sqrtq lnq : Q -> Q) (x : list Q) (base : Q) : xval :=
  let med := lib_median x in
  let s := sad x med / qlen x in
  if Qeq_bool (qsign (med - base)) 0 then Fin 0
  else if Qeq_bool s 0 then (if Qlt_le_dec 0 (med - base) then PosInf else NegInf)   (* log(s0/0) = inf *)
  else Fin (qsign (med - base) * sqrtq (2 * qlen x * lnq (laplace_ratio x base))).
