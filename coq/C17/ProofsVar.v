(* C17 - estimate_varatio: the random-effects variance is an even function of
   the data for every number of EM iterations, and its starting value (the
   sample variance) does not depend on a common shift of the data. *)
From Coq Require Import List Bool ZArith QArith Qminmax Lqa Lia.
From NV.C17 Require Import Model ModelMfx ModelVar.
Import ListNotations.
Local Open Scope Q_scope.

Lemma qsum_cons : forall x l, qsum (x :: l) = x + qsum l.
Proof. reflexivity. Qed.

Lemma qlen_map : forall (f : Q -> Q) Y, qlen (map f Y) = qlen Y.
Proof. intros. unfold qlen. rewrite map_length. reflexivity. Qed.

Lemma qlen_cons : forall x l, qlen (x :: l) == 1 + qlen l.
Proof.
  intros. unfold qlen. cbn [length]. rewrite Nat2Z.inj_succ. unfold Z.succ.
  rewrite inject_Z_plus. ring.
Qed.

Lemma qlen_cons_nz : forall x l, ~ qlen (x :: l) == 0.
Proof. intros x l. unfold qlen, Qeq, inject_Z. cbn [Qnum Qden length]. lia. Qed.

Lemma dot_opp_r : forall w a, dot w (map Qopp a) == - dot w a.
Proof.
  induction w as [|x w IH]; intros [|y a]; cbn [map dot]; try lra. rewrite IH. ring.
Qed.

Lemma qsum_opp : forall Y, qsum (map Qopp Y) == - qsum Y.
Proof.
  induction Y as [|y Y IH]; cbn [map]. reflexivity. rewrite !qsum_cons, IH. ring.
Qed.

Lemma qmean_opp : forall Y, qmean (map Qopp Y) == - qmean Y.
Proof. intros. unfold qmean. rewrite qlen_map, qsum_opp. unfold Qdiv. ring. Qed.

Lemma vr_ssd_flip : forall Y m m', m' == - m -> vr_ssd (map Qopp Y) m' == vr_ssd Y m.
Proof.
  unfold vr_ssd. induction Y as [|y Y IH]; intros m m' H; cbn [map]. reflexivity.
  rewrite !qsum_cons, (IH m m' H). unfold sqdiff. rewrite H. ring.
Qed.

Lemma vr_sigma0_even : forall Y, vr_sigma0 (map Qopp Y) = vr_sigma0 Y.
Proof.
  intros. unfold vr_sigma0. apply Qred_complete. rewrite qlen_map.
  rewrite (vr_ssd_flip Y (qmean Y) (qmean (map Qopp Y)) (qmean_opp Y)). reflexivity.
Qed.

Lemma vr_rss_flip : forall W Y m m', m' == - m -> vr_rss W (map Qopp Y) m' == vr_rss W Y m.
Proof.
  unfold vr_rss. induction W as [|w W IH]; intros [|y Y] m m' H; cbn [map map2]; try reflexivity.
  rewrite !qsum_cons, (IH Y m m' H), H. ring.
Qed.

Lemma vr_step_even : forall Y Sm s, vr_step (map Qopp Y) Sm s = vr_step Y Sm s.
Proof.
  intros. unfold vr_step. cbv zeta. apply Qred_complete. rewrite qlen_map.
  rewrite (vr_rss_flip (vr_W Sm s) Y (pos_recipr (qsum (vr_W Sm s)) * dot (vr_W Sm s) Y)
                       (pos_recipr (qsum (vr_W Sm s)) * dot (vr_W Sm s) (map Qopp Y))).
  - reflexivity.
  - rewrite dot_opp_r. ring.
Qed.

Lemma vr_iter_even : forall n Y Sm s, vr_iter n (map Qopp Y) Sm s = vr_iter n Y Sm s.
Proof.
  induction n as [|n IH]; intros Y Sm s; cbn [vr_iter]. reflexivity.
  rewrite vr_step_even. apply IH.
Qed.

Lemma vr_random_even : forall sred n Y sd,
  vr_random sred n (map Qopp Y) sd = vr_random sred n Y sd.
Proof. intros. unfold vr_random. rewrite vr_iter_even, vr_sigma0_even. reflexivity. Qed.

Lemma vr_ratio_even : forall sred n df Y sd,
  vr_ratio sred n df (map Qopp Y) sd = vr_ratio sred n df Y sd.
Proof. intros. unfold vr_ratio. rewrite vr_random_even. reflexivity. Qed.

(* ------------------------------------------------------------ common shift *)
Definition shiftq (c : Q) (Y : list Q) : list Q := map (fun y => y + c) Y.

Lemma qsum_shift : forall c Y, qsum (shiftq c Y) == qsum Y + c * qlen Y.
Proof.
  intros c. unfold shiftq. induction Y as [|y Y IH]; cbn [map].
  - unfold qlen. cbn. ring.
  - rewrite !qsum_cons, IH, qlen_cons. ring.
Qed.

Lemma qmean_shift : forall c y Y, qmean (shiftq c (y :: Y)) == qmean (y :: Y) + c.
Proof.
  intros. unfold qmean. rewrite qsum_shift. unfold shiftq. rewrite qlen_map.
  field. apply qlen_cons_nz.
Qed.

Lemma vr_ssd_shift : forall c Y m m', m' == m + c -> vr_ssd (shiftq c Y) m' == vr_ssd Y m.
Proof.
  intros c. unfold vr_ssd, shiftq. induction Y as [|y Y IH]; intros m m' H; cbn [map]. reflexivity.
  rewrite !qsum_cons, (IH m m' H). unfold sqdiff. rewrite H. ring.
Qed.

Lemma vr_sigma0_shift : forall c Y, vr_sigma0 (shiftq c Y) = vr_sigma0 Y.
Proof.
  intros c [|y Y]. reflexivity.
  unfold vr_sigma0. apply Qred_complete.
  rewrite (vr_ssd_shift c (y :: Y) (qmean (y :: Y)) (qmean (shiftq c (y :: Y))) (qmean_shift c y Y)).
  unfold shiftq. rewrite qlen_map. reflexivity.
Qed.

(* before any iteration the estimate is the unbiased sample variance minus minS *)
Lemma vr_random_0 : forall sred Y sd,
  vr_random sred 0 Y sd == vr_ssd Y (qmean Y) / (qlen Y - 1) - qminl (vr_S sd) * sred.
Proof. intros. unfold vr_random, vr_sigma0, vr_minS. cbn [vr_iter]. rewrite Qred_correct. reflexivity. Qed.

(* ------------------------------------------------------------ shift: every EM update *)
Lemma pos_recipr_nonneg : forall x, 0 <= pos_recipr x.
Proof.
  intros x. unfold pos_recipr. destruct (Qlt_le_dec 0 x) as [H|H]; [|lra].
  unfold Qdiv. rewrite Qmult_1_l. apply Qlt_le_weak, Qinv_lt_0_compat, H.
Qed.

Lemma vr_W_nonneg : forall Sm s, Forall (fun w => 0 <= w) (vr_W Sm s).
Proof.
  intros Sm s. unfold vr_W. induction Sm as [|a Sm IH]; cbn [map]; constructor.
  apply pos_recipr_nonneg. exact IH.
Qed.

Lemma qsum_nonneg : forall W, Forall (fun w => 0 <= w) W -> 0 <= qsum W.
Proof.
  intros W H. induction H as [|w W Hw HW IH]. unfold qsum; cbn; lra.
  rewrite qsum_cons. lra.
Qed.

Lemma vr_rss_zero : forall W, Forall (fun w => 0 <= w) W -> qsum W <= 0 ->
  forall Y m, vr_rss W Y m == 0.
Proof.
  intros W H. induction H as [|w W Hw HW IH]; intros Hs [|y Y] m; unfold vr_rss; cbn [map2]; try reflexivity.
  rewrite qsum_cons in Hs. pose proof (qsum_nonneg W HW) as Hn.
  assert (Hw0 : w == 0) by lra. assert (Hs' : qsum W <= 0) by lra.
  rewrite qsum_cons. fold (vr_rss W Y m). rewrite (IH Hs' Y m), Hw0. ring.
Qed.

Lemma dot_shift : forall c W Y, length W = length Y ->
  dot W (shiftq c Y) == dot W Y + c * qsum W.
Proof.
  intros c. unfold shiftq. induction W as [|w W IH]; intros [|y Y] HL; cbn [length] in HL; try discriminate; cbn [map dot].
  - unfold qsum; cbn; ring.
  - rewrite qsum_cons, IH by lia. ring.
Qed.

Lemma vr_rss_shift : forall c W Y m m', m' == m + c -> vr_rss W (shiftq c Y) m' == vr_rss W Y m.
Proof.
  intros c. unfold vr_rss, shiftq. induction W as [|w W IH]; intros [|y Y] m m' H; cbn [map map2]; try reflexivity.
  rewrite !qsum_cons, (IH Y m m' H), H. ring.
Qed.

Lemma vr_step_shift : forall c Y Sm s, length Sm = length Y ->
  vr_step (shiftq c Y) Sm s = vr_step Y Sm s.
Proof.
  intros c Y Sm s HL. unfold vr_step. cbv zeta. apply Qred_complete.
  assert (HLW : length (vr_W Sm s) = length Y) by (unfold vr_W; rewrite map_length; exact HL).
  pose proof (vr_W_nonneg Sm s) as Hnn.
  set (W := vr_W Sm s) in *.
  replace (qlen (shiftq c Y)) with (qlen Y) by (unfold shiftq; rewrite qlen_map; reflexivity).
  destruct (Qlt_le_dec 0 (qsum W)) as [Hp|Hz].
  - rewrite (vr_rss_shift c W Y (pos_recipr (qsum W) * dot W Y) (pos_recipr (qsum W) * dot W (shiftq c Y))).
    + reflexivity.
    + rewrite (dot_shift c W Y HLW). unfold pos_recipr.
      destruct (Qlt_le_dec 0 (qsum W)) as [Hp'|Hz']; [|lra]. field. lra.
  - rewrite (vr_rss_zero W Hnn Hz (shiftq c Y)), (vr_rss_zero W Hnn Hz Y). reflexivity.
Qed.

Lemma vr_iter_shift : forall c n Y Sm s, length Sm = length Y ->
  vr_iter n (shiftq c Y) Sm s = vr_iter n Y Sm s.
Proof.
  intros c. induction n as [|n IH]; intros Y Sm s HL; cbn [vr_iter]. reflexivity.
  rewrite (vr_step_shift c Y Sm s HL). apply IH, HL.
Qed.

Lemma vr_random_shift : forall c sred n Y sd, length sd = length Y ->
  vr_random sred n (shiftq c Y) sd = vr_random sred n Y sd.
Proof.
  intros c sred n Y sd HL. unfold vr_random. rewrite vr_sigma0_shift, vr_iter_shift. reflexivity.
  unfold vr_Sm, vr_S. rewrite !map_length. exact HL.
Qed.
