(* C17 - fff_permutation: the array program refines the factorial-number-system
   (Lehmer) reading, which is a bijection [0, n!) -> permutations of 0..n-1. *)
From Coq Require Import List Bool ZArith NArith Lia Permutation Arith.
From NV.C17 Require Import Model.
Import ListNotations.

(* ---------------------------------------------------------------- lists *)
Lemma firstn_len_app {A} (a b : list A) : firstn (length a) (a ++ b) = a.
Proof.
  rewrite firstn_app, Nat.sub_diag, firstn_all. simpl. now rewrite app_nil_r.
Qed.

Lemma skipn_len_app {A} (a b : list A) k : skipn (length a + k) (a ++ b) = skipn k b.
Proof. induction a as [|x a IH]; simpl; auto. Qed.

Lemma split_nth {A} (d : A) : forall k (l : list A), k < length l ->
  l = firstn k l ++ nth k l d :: skipn (S k) l.
Proof.
  induction k as [|k IH]; intros [|x l] H; simpl in *; try lia; auto.
  f_equal. apply IH. lia.
Qed.

Lemma remove_nth_length {A} k (l : list A) : k < length l -> length (remove_nth k l) = length l - 1.
Proof.
  intros H. unfold remove_nth. rewrite app_length, firstn_length, skipn_length. lia.
Qed.

Lemma remove_nth_perm {A} (d : A) k (l : list A) : k < length l ->
  Permutation (nth k l d :: remove_nth k l) l.
Proof.
  intros H. unfold remove_nth. rewrite (split_nth d k l H) at 4.
  apply Permutation_middle.
Qed.

Lemma remove_nth_nodup {A} k (l : list A) : k < length l -> NoDup l -> NoDup (remove_nth k l).
Proof.
  intros H ND. destruct l as [|d l0] eqn:E; [simpl in H; lia|]. rewrite <- E in *.
  rewrite (split_nth d k l H) in ND. apply NoDup_remove_1 in ND. exact ND.
Qed.

(* ---------------------------------------------------------------- one loop body *)
Lemma step_array : forall (pre rest : list nat) ir,
  ir < length rest ->
  store (memmove (pre ++ rest) (S (length pre)) (length pre) ir) (length pre)
        (nth (ir + length pre) (pre ++ rest) 0)
  = pre ++ nth ir rest 0 :: remove_nth ir rest.
Proof.
  intros pre rest ir H.
  rewrite (Nat.add_comm ir), app_nth2_plus.
  destruct rest as [|r0 rest'] eqn:E; [simpl in H; lia|]. rewrite <- E in *.
  assert (M : memmove (pre ++ rest) (S (length pre)) (length pre) ir
              = pre ++ r0 :: remove_nth ir rest).
  { unfold memmove, remove_nth.
    replace (S (length pre)) with (length pre + 1) by lia.
    rewrite firstn_app_2.
    replace (length pre) with (length pre + 0) at 1 by lia.
    rewrite skipn_len_app. simpl skipn at 1.
    rewrite <- Nat.add_assoc, skipn_len_app.
    rewrite E at 1. simpl firstn at 1. rewrite <- app_assoc. simpl. reflexivity. }
  rewrite M. unfold store. rewrite firstn_len_app.
  replace (S (length pre)) with (length pre + 1) by lia.
  rewrite skipn_len_app. reflexivity.
Qed.

(* ---------------------------------------------------------------- refinement *)
Lemma mod_to_nat_lt : forall m nc, N.to_nat (m mod N.of_nat (S nc)) < S nc.
Proof.
  intros m nc. assert (H := N.mod_lt m (N.of_nat (S nc))). lia.
Qed.

Lemma perm_loop_lehmer : forall nc pre rest m, length rest = nc ->
  perm_loop nc (length pre) (pre ++ rest) m = pre ++ lehmer rest nc m.
Proof.
  induction nc as [|nc IH]; intros pre rest m L.
  - destruct rest; [reflexivity|discriminate].
  - cbn [perm_loop lehmer].
    set (ir := N.to_nat (m mod N.of_nat (S nc))).
    assert (Hir : ir < length rest) by (rewrite L; apply mod_to_nat_lt).
    rewrite step_array by exact Hir.
    replace (pre ++ nth ir rest 0 :: remove_nth ir rest)
      with ((pre ++ [nth ir rest 0]) ++ remove_nth ir rest) by (rewrite <- app_assoc; reflexivity).
    replace (S (length pre)) with (length (pre ++ [nth ir rest 0])) by (rewrite app_length; simpl; lia).
    rewrite IH by (rewrite remove_nth_length by exact Hir; lia).
    rewrite <- app_assoc. reflexivity.
Qed.

Lemma fff_permutation_lehmer : forall n m, fff_permutation n m = lehmer (seq 0 n) n m.
Proof.
  intros n m. unfold fff_permutation.
  apply (perm_loop_lehmer n [] (seq 0 n) m). apply seq_length.
Qed.

(* ---------------------------------------------------------------- validity *)
Lemma lehmer_perm : forall nc rest m, length rest = nc -> Permutation (lehmer rest nc m) rest.
Proof.
  induction nc as [|nc IH]; intros rest m L.
  - destruct rest; [constructor|discriminate].
  - cbn [lehmer]. set (ir := N.to_nat (m mod N.of_nat (S nc))).
    assert (Hir : ir < length rest) by (rewrite L; apply mod_to_nat_lt).
    eapply Permutation_trans; [|apply (remove_nth_perm 0 ir rest Hir)].
    constructor. apply IH. rewrite remove_nth_length by exact Hir. lia.
Qed.

Lemma lehmer_identity : forall nc rest, length rest = nc -> lehmer rest nc 0%N = rest.
Proof.
  induction nc as [|nc IH]; intros rest L.
  - destruct rest; [reflexivity|discriminate].
  - destruct rest as [|a rest]; [discriminate|].
    cbn [lehmer]. rewrite N.mod_0_l, N.div_0_l by lia.
    simpl. f_equal. apply IH. simpl in L. lia.
Qed.

(* ---------------------------------------------------------------- bijection *)
Lemma lehmer_injective : forall nc rest m1 m2, length rest = nc -> NoDup rest ->
  (m1 < factN nc)%N -> (m2 < factN nc)%N ->
  lehmer rest nc m1 = lehmer rest nc m2 -> m1 = m2.
Proof.
  induction nc as [|nc IH]; intros rest m1 m2 L ND H1 H2 E.
  - simpl in H1, H2. lia.
  - cbn [lehmer factN] in *.
    set (b := N.of_nat (S nc)) in *.
    assert (Hb : b <> 0%N) by (unfold b; lia).
    set (i1 := N.to_nat (m1 mod b)) in *. set (i2 := N.to_nat (m2 mod b)) in *.
    assert (Hi1 : i1 < length rest) by (rewrite L; apply mod_to_nat_lt).
    assert (Hi2 : i2 < length rest) by (rewrite L; apply mod_to_nat_lt).
    injection E as Eh Et.
    assert (Ei : i1 = i2).
    { eapply NoDup_nth; eauto. }
    rewrite Ei in Et.
    assert (Ed : (m1 / b = m2 / b)%N).
    { apply (IH (remove_nth i2 rest)); auto.
      - rewrite remove_nth_length by exact Hi2. lia.
      - apply remove_nth_nodup; auto.
      - apply N.div_lt_upper_bound; auto.
      - apply N.div_lt_upper_bound; auto. }
    assert (Em : (m1 mod b = m2 mod b)%N) by (unfold i1, i2 in Ei; lia).
    rewrite (N.div_mod m1 b Hb), (N.div_mod m2 b Hb). congruence.
Qed.

Lemma lehmer_surjective : forall nc rest t, length rest = nc -> Permutation t rest ->
  exists m, (m < factN nc)%N /\ lehmer rest nc m = t.
Proof.
  induction nc as [|nc IH]; intros rest t L P.
  - destruct rest; [|discriminate]. apply Permutation_sym, Permutation_nil in P. subst t.
    exists 0%N. split; [reflexivity|reflexivity].
  - assert (Lt : length t = S nc) by (rewrite (Permutation_length P); exact L).
    destruct t as [|a t']; [discriminate|].
    assert (Ha : In a rest) by (eapply Permutation_in; [exact P|left; reflexivity]).
    destruct (In_nth rest a 0 Ha) as [ir [Hir Hn]].
    assert (P' : Permutation t' (remove_nth ir rest)).
    { apply Permutation_cons_inv with (a := a).
      eapply Permutation_trans; [exact P|].
      apply Permutation_sym. rewrite <- Hn. apply remove_nth_perm. exact Hir. }
    destruct (IH (remove_nth ir rest) t') as [m' [Hm' El]]; auto.
    { rewrite remove_nth_length by exact Hir. lia. }
    set (b := N.of_nat (S nc)).
    assert (Hb : b <> 0%N) by (unfold b; lia).
    assert (Hirb : (N.of_nat ir < b)%N) by (unfold b; lia).
    exists (N.of_nat ir + m' * b)%N. split.
    + cbn [factN]. fold b. nia.
    + cbn [lehmer]. fold b.
      rewrite N.mod_add by exact Hb. rewrite N.mod_small by exact Hirb.
      rewrite N.div_add by exact Hb. rewrite N.div_small by exact Hirb.
      rewrite Nat2N.id, N.add_0_l, Hn, El. reflexivity.
Qed.

(* magics that differ by a multiple of n! give the same permutation *)
Lemma lehmer_periodic : forall nc rest m q,
  lehmer rest nc (m + q * factN nc)%N = lehmer rest nc m.
Proof.
  induction nc as [|nc IH]; intros rest m q; [reflexivity|].
  cbn [lehmer factN]. set (b := N.of_nat (S nc)).
  assert (Hb : b <> 0%N) by (unfold b; lia).
  replace (m + q * (b * factN nc))%N with (m + (q * factN nc) * b)%N by lia.
  rewrite N.mod_add, N.div_add by exact Hb.
  rewrite IH. reflexivity.
Qed.

(* ---------------------------------------------------------------- statements *)
Lemma perm_is_perm : forall n m, Permutation (fff_permutation n m) (seq 0 n).
Proof. intros. rewrite fff_permutation_lehmer. apply lehmer_perm, seq_length. Qed.

Lemma perm_identity : forall n, fff_permutation n 0%N = seq 0 n.
Proof. intros. rewrite fff_permutation_lehmer. apply lehmer_identity, seq_length. Qed.

Lemma perm_injective : forall n m1 m2, (m1 < factN n)%N -> (m2 < factN n)%N ->
  fff_permutation n m1 = fff_permutation n m2 -> m1 = m2.
Proof.
  intros n m1 m2 H1 H2. rewrite !fff_permutation_lehmer.
  apply lehmer_injective; auto using seq_length, seq_NoDup.
Qed.

Lemma perm_surjective : forall n t, Permutation t (seq 0 n) ->
  exists m, (m < factN n)%N /\ fff_permutation n m = t.
Proof.
  intros n t P. destruct (lehmer_surjective n (seq 0 n) t (seq_length _ _) P) as [m [H E]].
  exists m. rewrite fff_permutation_lehmer. auto.
Qed.

Lemma perm_periodic : forall n m q, fff_permutation n (m + q * factN n)%N = fff_permutation n m.
Proof. intros. rewrite !fff_permutation_lehmer. apply lehmer_periodic. Qed.
