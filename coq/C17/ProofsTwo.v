(* C17 - fff_twosample_permutation: the magic number is decoded as
     magic = sum_{j<i} C(n1,j) C(n2,j) + magic1 + C(n1,i) * magic2
   with i the number of exchanged subjects, magic1 < C(n1,i) selecting the
   subjects leaving group 1 and magic2 < C(n2,i) those leaving group 2. *)
From Coq Require Import List Bool ZArith NArith Lia Arith Permutation.
From NV.C17 Require Import Model ProofsPerm ProofsComb.
Import ListNotations.

(* (i+1) C(n,i+1) = (n-i) C(n,i) *)
Lemma binom_next : forall n i,
  (N.of_nat (S i) * binom n (S i) = N.of_nat (n - i) * binom n i)%N.
Proof.
  induction n as [|n IH]; intros i.
  - rewrite binom_small by lia. cbn [Nat.sub N.of_nat]. lia.
  - destruct i as [|j].
    + assert (E := IH 0). rewrite binom_n_0 in E. rewrite binom_S_S, !binom_n_0.
      rewrite Nat.sub_0_r in *. rewrite !Nat2N.inj_succ in *. lia.
    + assert (E1 := IH (S j)). assert (E2 := IH j).
      rewrite (binom_S_S n (S j)), (binom_S_S n j).
      destruct (le_lt_dec (S j) n) as [L|L].
      * replace (S n - S j) with (S (n - S j)) by lia.
        replace (n - j) with (S (n - S j)) in E2 by lia.
        rewrite !Nat2N.inj_succ in *.
        generalize dependent (binom n (S (S j))). generalize dependent (binom n (S j)).
        generalize dependent (binom n j). generalize dependent (N.of_nat (n - S j)).
        generalize dependent (N.of_nat j).
        intros nj d a b E2 c E1. nia.
      * rewrite (binom_small n (S j)), (binom_small n (S (S j))) by lia.
        replace (S n - S j) with 0 by lia. cbn [N.of_nat]. lia.
Qed.

Lemma ts_step_c : forall n i,
  (binom n i * N.of_nat (n - i) / N.of_nat (S i))%N = binom n (S i).
Proof.
  intros n i. rewrite (N.mul_comm (binom n i)), <- binom_next, N.mul_comm.
  apply N.div_mul. lia.
Qed.

Section TS.
Variables n1 n2 : nat.
Local Notation cum := (ts_cum n1 n2).
Local Notation mn := (Nat.min n1 n2).

Lemma cum_mono : forall i j, i <= j -> (cum i <= cum j)%N.
Proof.
  intros i j H. induction H as [|j H IH]; [lia|]. cbn [ts_cum]. lia.
Qed.

Lemma cum_S : forall i, cum (S i) = (cum i + binom n1 i * binom n2 i)%N.
Proof. reflexivity. Qed.

Lemma cum_beyond : cum (S (S mn)) = cum (S mn).
Proof.
  rewrite (cum_S (S mn)).
  destruct (Nat.min_dec n1 n2) as [E|E]; rewrite E.
  - rewrite (binom_small n1 (S n1)) by lia. lia.
  - rewrite (binom_small n2 (S n2)) by lia. lia.
Qed.

Lemma ts_loop_found : forall steps i i' magic,
  i <= i' < i + steps -> (cum i' <= magic < cum (S i'))%N ->
  ts_loop steps i n1 n2 false magic (cum i) (cum (S i)) (binom n1 i) (binom n2 i)
  = mk_ts i' (magic - cum i')%N (binom n1 i') (binom n2 i') (cum (S i')).
Proof.
  induction steps as [|s IH]; intros i i' magic Hi Hm; [lia|].
  cbn [ts_loop negb andb]. cbv zeta.
  destruct (N.ltb_spec magic (cum (S i))) as [Lt|Ge].
  - assert (i' = i).
    { destruct (Nat.eq_dec i' i) as [E|NE]; [exact E|].
      assert (M := cum_mono (S i) i' ltac:(lia)). lia. }
    subst i'. reflexivity.
  - assert (i' <> i) by (intros ->; lia).
    rewrite !ts_step_c. rewrite <- (cum_S (S i)).
    apply IH; [lia|exact Hm].
Qed.

Lemma ts_loop_notfound : forall steps i magic inf,
  inf = true \/ (cum (i + steps) <= magic)%N ->
  ts_loop steps i n1 n2 inf magic (cum i) (cum (S i)) (binom n1 i) (binom n2 i)
  = mk_ts (i + steps) magic (binom n1 (i + steps)) (binom n2 (i + steps)) (cum (S (i + steps))).
Proof.
  induction steps as [|s IH]; intros i magic inf H.
  - cbn [ts_loop]. rewrite Nat.add_0_r. reflexivity.
  - cbn [ts_loop]. cbv zeta.
    assert (C : (negb inf && (magic <? cum (S i))%N) = false).
    { destruct H as [->|H]; [reflexivity|].
      destruct inf; [reflexivity|]. cbn [negb andb]. apply N.ltb_ge.
      assert (M := cum_mono (S i) (i + S s) ltac:(lia)). lia. }
    rewrite C. rewrite !ts_step_c. rewrite <- (cum_S (S i)).
    rewrite IH by (destruct H as [H|H]; [left; exact H|right; replace (S i + s) with (i + S s) by lia; exact H]).
    replace (S i + s) with (i + S s) by lia. reflexivity.
Qed.

Definition ts_total : N := cum (S mn).

Lemma ts_start : forall inf magic,
  ts_loop (S mn) 0 n1 n2 inf magic 0%N 1%N 1%N 1%N
  = ts_loop (S mn) 0 n1 n2 inf magic (cum 0) (cum 1) (binom n1 0) (binom n2 0).
Proof. intros. cbn [ts_cum]. rewrite !binom_n_0. reflexivity. Qed.

Lemma ts_count_mode : forall magic, fff_twosample_permutation n1 n2 true magic = TsCount ts_total.
Proof.
  intros magic. unfold fff_twosample_permutation. rewrite ts_start.
  rewrite ts_loop_notfound by (left; reflexivity).
  cbn [ts_cumr ts_magic orb Nat.add]. rewrite cum_beyond. reflexivity.
Qed.

Lemma ts_count_spec : ts_count n1 n2 = ts_total.
Proof. unfold ts_count. rewrite ts_count_mode. reflexivity. Qed.

Lemma ts_out_of_range : forall magic, (ts_total <= magic)%N ->
  fff_twosample_permutation n1 n2 false magic = TsCount ts_total.
Proof.
  intros magic H. unfold fff_twosample_permutation. rewrite ts_start.
  rewrite ts_loop_notfound by (right; exact H).
  cbn [ts_cumr ts_magic orb Nat.add]. rewrite cum_beyond.
  fold ts_total. destruct (N.leb_spec ts_total magic); [reflexivity|lia].
Qed.

Lemma ts_perm_spec : forall i r, i <= mn -> (r < binom n1 i * binom n2 i)%N ->
  fff_twosample_permutation n1 n2 false (cum i + r)%N
  = TsPerm i (fff_combination i n1 (r mod binom n1 i)%N) (fff_combination i n2 (r / binom n1 i)%N).
Proof.
  intros i r Hi Hr. unfold fff_twosample_permutation. rewrite ts_start.
  rewrite (ts_loop_found (S mn) 0 i) by (rewrite ?cum_S; lia).
  cbn [ts_cumr ts_magic ts_c1 ts_i orb].
  replace (cum i + r - cum i)%N with r by lia.
  destruct (N.leb_spec (cum (S i)) r) as [B|B]; [rewrite cum_S in B; lia|].
  assert (P : (0 < binom n1 i)%N) by (apply binom_pos; lia).
  rewrite (N.mod_eq r (binom n1 i)) by lia.
  rewrite (N.mul_comm (binom n1 i)). reflexivity.
Qed.

Lemma ts_decompose : forall magic, (magic < ts_total)%N ->
  exists i r, i <= mn /\ (r < binom n1 i * binom n2 i)%N /\ magic = (cum i + r)%N.
Proof.
  intros magic. unfold ts_total. generalize mn. induction n as [|n IH]; intros H.
  - exists 0, magic. cbn in *. repeat split; lia.
  - destruct (N.lt_ge_cases magic (cum (S n))) as [L|G].
    + destruct (IH L) as [i [r [A [B C]]]]. exists i, r. repeat split; auto.
    + exists (S n), (magic - cum (S n))%N. rewrite (cum_S (S n)) in H. repeat split; lia.
Qed.

Lemma ts_parts_bound : forall i r, (r < binom n1 i * binom n2 i)%N ->
  (r mod binom n1 i < binom n1 i)%N /\ (r / binom n1 i < binom n2 i)%N.
Proof.
  intros i r H.
  assert (P : (binom n1 i <> 0)%N) by (intros E; rewrite E in H; lia).
  split; [apply N.mod_lt; exact P|apply N.div_lt_upper_bound; [exact P|exact H]].
Qed.

(* magic 0 exchanges nobody *)
Lemma ts_identity : fff_twosample_permutation n1 n2 false 0%N
  = TsPerm 0 (fff_combination 0 n1 0%N) (fff_combination 0 n2 0%N).
Proof.
  assert (E := ts_perm_spec 0 0%N ltac:(lia)). rewrite !binom_n_0 in E.
  cbn [ts_cum N.add] in E. rewrite E by lia. reflexivity.
Qed.

(* injectivity of the decoding on [0, total) *)
Lemma ts_injective : forall m m', fits_uint n1 -> fits_uint n2 -> nowrap n1 mn -> nowrap n2 mn ->
  (m < ts_total)%N -> (m' < ts_total)%N ->
  fff_twosample_permutation n1 n2 false m = fff_twosample_permutation n1 n2 false m' -> m = m'.
Proof.
  intros m m' F1 F2 NW1 NW2 H H' E.
  destruct (ts_decompose m H) as [i [r [Hi [Hr ->]]]].
  destruct (ts_decompose m' H') as [i' [r' [Hi' [Hr' ->]]]].
  rewrite !ts_perm_spec in E by auto. injection E as Ei E1 E2. subst i'.
  destruct (ts_parts_bound i r Hr) as [A B]. destruct (ts_parts_bound i r' Hr') as [A' B'].
  assert (P : (binom n1 i <> 0)%N) by lia.
  apply comb_injective in E1; auto; try lia; [|apply (nowrap_mono n1 mn); auto].
  apply comb_injective in E2; auto; try lia; [|apply (nowrap_mono n2 mn); auto].
  rewrite (N.div_mod r (binom n1 i) P), (N.div_mod r' (binom n1 i) P). congruence.
Qed.

(* surjectivity: every (i, S1, S2) is produced by a magic below the total *)
Lemma ts_surjective : forall i l1 l2, fits_uint n1 -> fits_uint n2 -> nowrap n1 mn -> nowrap n2 mn ->
  i <= mn -> length l1 = i -> incr_in 0%N (N.of_nat n1) l1 -> length l2 = i -> incr_in 0%N (N.of_nat n2) l2 ->
  exists m, (m < ts_total)%N /\ fff_twosample_permutation n1 n2 false m = TsPerm i (Some l1) (Some l2).
Proof.
  intros i l1 l2 F1 F2 NW1 NW2 Hi L1 I1 L2 I2.
  destruct (comb_surjective i n1 l1) as [m1 [B1 E1]]; auto; try lia; [apply (nowrap_mono n1 mn); auto|].
  destruct (comb_surjective i n2 l2) as [m2 [B2 E2]]; auto; try lia; [apply (nowrap_mono n2 mn); auto|].
  assert (P : (binom n1 i <> 0)%N) by lia.
  exists (cum i + (m1 + m2 * binom n1 i))%N. split.
  - unfold ts_total. assert (M := cum_mono (S i) (S mn) ltac:(lia)). rewrite cum_S in M. nia.
  - rewrite ts_perm_spec by (auto; nia).
    rewrite N.mod_add, N.mod_small, N.div_add, N.div_small, N.add_0_l by auto.
    rewrite E1, E2. reflexivity.
Qed.

End TS.

(* ---------------------------------------------------------------- apply_permutation *)
Lemma store_length {A} (x : list A) i v : i < length x -> length (store x i v) = length x.
Proof.
  intros H. unfold store. rewrite app_length, firstn_length. cbn [length]. rewrite skipn_length. lia.
Qed.

Lemma store_at {A} : forall (u : A) (l1 l2 : list A) k v, length l1 = k ->
  store (l1 ++ u :: l2) k v = l1 ++ v :: l2.
Proof.
  intros u l1 l2 k v Hk. unfold store. subst k. rewrite firstn_len_app.
  replace (S (length l1)) with (length l1 + 1) by lia. rewrite skipn_len_app. reflexivity.
Qed.

Lemma nth_at {A} (d : A) : forall (u : A) (l1 l2 : list A) k, length l1 = k -> nth k (l1 ++ u :: l2) d = u.
Proof.
  intros u l1 l2 k Hk. subst k. rewrite app_nth2 by lia. rewrite Nat.sub_diag. reflexivity.
Qed.

Lemma decompose2 {A} (d : A) : forall (y : list A) p q, p < q -> q < length y ->
  exists pre mid post u v, y = pre ++ u :: mid ++ v :: post /\ length pre = p /\ length (pre ++ u :: mid) = q.
Proof.
  intros y p q Hpq Hq.
  assert (Y1 := split_nth d p y ltac:(lia)).
  set (post := skipn (S p) y) in *.
  assert (Hq' : q - S p < length post) by (unfold post; rewrite skipn_length; lia).
  assert (Y2 := split_nth d (q - S p) post Hq').
  exists (firstn p y), (firstn (q - S p) post), (skipn (S (q - S p)) post), (nth p y d), (nth (q - S p) post d).
  split; [rewrite <- Y2; exact Y1|].
  split; [rewrite firstn_length; lia|].
  rewrite app_length. cbn [length]. rewrite !firstn_length. lia.
Qed.

Lemma swap_two {A} (d : A) : forall pre mid post (u v : A) p q,
  length pre = p -> length (pre ++ u :: mid) = q ->
  let y := pre ++ u :: mid ++ v :: post in
  swap d y p q = pre ++ v :: mid ++ u :: post /\ swap d y q p = pre ++ v :: mid ++ u :: post.
Proof.
  intros pre mid post u v p q Hp Hq y.
  assert (Y' : y = (pre ++ u :: mid) ++ v :: post) by (unfold y; rewrite <- app_assoc; reflexivity).
  assert (Np : nth p y d = u) by (unfold y; apply nth_at; exact Hp).
  assert (Nq : nth q y d = v) by (rewrite Y'; apply nth_at; exact Hq).
  unfold swap. rewrite Np, Nq. split.
  - unfold y at 1. rewrite (store_at u pre _ p v Hp).
    replace (pre ++ v :: mid ++ v :: post) with ((pre ++ v :: mid) ++ v :: post) by (rewrite <- app_assoc; reflexivity).
    rewrite (store_at v (pre ++ v :: mid) post q u) by (rewrite app_length in *; cbn [length] in *; lia).
    rewrite <- app_assoc. reflexivity.
  - rewrite Y' at 1. rewrite (store_at v (pre ++ u :: mid) post q u Hq).
    rewrite <- app_assoc. cbn [app]. rewrite (store_at u pre _ p v Hp). reflexivity.
Qed.

Lemma swap_perm {A} (d : A) (x : list A) a b : a < length x -> b < length x ->
  Permutation (swap d x a b) x.
Proof.
  intros Ha Hb.
  destruct (Nat.eq_dec a b) as [->|NE].
  { unfold swap. assert (S1 : store x b (nth b x d) = x).
    { unfold store. symmetry. apply split_nth. exact Hb. }
    rewrite !S1. apply Permutation_refl. }
  assert (P : forall pre mid post (u v : A),
             Permutation (pre ++ v :: mid ++ u :: post) (pre ++ u :: mid ++ v :: post)).
  { intros pre mid post u v. apply Permutation_app_head.
    change (Permutation ((v :: mid) ++ u :: post) ((u :: mid) ++ v :: post)).
    eapply Permutation_trans; [apply Permutation_sym, Permutation_middle|].
    eapply Permutation_trans; [|apply Permutation_middle]. cbn [app]. apply perm_swap. }
  destruct (lt_dec a b) as [L|L].
  - destruct (decompose2 d x a b L Hb) as [pre [mid [post [u [v [Y [Lp Lq]]]]]]].
    destruct (swap_two d pre mid post u v a b Lp Lq) as [E _]. rewrite Y at 1. cbv zeta in E. rewrite E.
    rewrite Y at 1. apply P.
  - assert (L' : b < a) by lia.
    destruct (decompose2 d x b a L' Ha) as [pre [mid [post [u [v [Y [Lp Lq]]]]]]].
    destruct (swap_two d pre mid post u v b a Lp Lq) as [_ E]. rewrite Y at 1. cbv zeta in E. rewrite E.
    rewrite Y at 1. apply P.
Qed.

Lemma swap_length {A} (d : A) (x : list A) a b : a < length x -> b < length x ->
  length (swap d x a b) = length x.
Proof. intros Ha Hb. apply Permutation_length, swap_perm; auto. Qed.

Lemma apply_swaps_perm {A} (d : A) : forall idx1 idx2 (px : list A) n1,
  Forall (fun a => N.to_nat a < n1) idx1 -> Forall (fun b => n1 + N.to_nat b < length px) idx2 ->
  n1 <= length px ->
  Permutation (apply_swaps d px n1 idx1 idx2) px.
Proof.
  induction idx1 as [|a r1 IH]; intros [|b r2] px n1 F1 F2 Ln; cbn [apply_swaps]; try apply Permutation_refl.
  inversion F1 as [|a' r1' Ha F1']; subst. inversion F2 as [|b' r2' Hb F2']; subst.
  assert (SP := swap_perm d px (N.to_nat a) (n1 + N.to_nat b) ltac:(lia) Hb).
  eapply Permutation_trans; [|exact SP].
  assert (SL := Permutation_length SP).
  apply IH; auto; [|lia].
  rewrite SL. exact F2'.
Qed.

Lemma incr_in_forall : forall l lo hi, incr_in lo hi l -> Forall (fun a => (a < hi)%N) l.
Proof.
  induction l as [|a r IH]; intros lo hi H; constructor; cbn in H; [lia|].
  apply (IH (a + 1)%N). tauto.
Qed.

(* the permuted pooled sample is a rearrangement of x1 ++ x2 *)
Lemma apply_permutation_perm {A} (d : A) : forall (x1 x2 : list A) idx1 idx2,
  incr_in 0%N (N.of_nat (length x1)) idx1 -> incr_in 0%N (N.of_nat (length x2)) idx2 ->
  Permutation (fff_twosample_apply_permutation d x1 x2 idx1 idx2) (x1 ++ x2).
Proof.
  intros x1 x2 idx1 idx2 I1 I2. unfold fff_twosample_apply_permutation.
  apply apply_swaps_perm.
  - eapply Forall_impl; [|apply (incr_in_forall _ _ _ I1)]. intros a Ha. cbn beta in *. lia.
  - eapply Forall_impl; [|apply (incr_in_forall _ _ _ I2)]. intros a Ha. cbn beta in *.
    rewrite app_length. lia.
  - rewrite app_length. lia.
Qed.

Lemma apply_permutation_identity {A} (d : A) : forall (x1 x2 : list A),
  fff_twosample_apply_permutation d x1 x2 [] [] = x1 ++ x2.
Proof. reflexivity. Qed.

(* the relabelling commutes with every per-subject map: data and first-level variances handed to
   fff_twosample_apply_permutation are the two projections of ONE relabelled list of (value, variance) subjects *)
Lemma store_map {A B} (f : A -> B) : forall x i v, store (map f x) i (f v) = map f (store x i v).
Proof. intros. unfold store. rewrite map_app, firstn_map. cbn [map]. rewrite skipn_map. reflexivity. Qed.

Lemma swap_map {A B} (f : A -> B) (d : A) : forall x a b, swap (f d) (map f x) a b = map f (swap d x a b).
Proof. intros. unfold swap. rewrite !(map_nth f). rewrite !store_map. reflexivity. Qed.

Lemma apply_swaps_map {A B} (f : A -> B) (d : A) : forall idx1 idx2 px n1,
  apply_swaps (f d) (map f px) n1 idx1 idx2 = map f (apply_swaps d px n1 idx1 idx2).
Proof.
  induction idx1 as [|a r1 IH]; intros [|b r2] px n1; cbn [apply_swaps]; try reflexivity.
  rewrite swap_map. apply IH.
Qed.

Lemma apply_permutation_map {A B} (f : A -> B) (d : A) : forall s1 s2 idx1 idx2,
  fff_twosample_apply_permutation (f d) (map f s1) (map f s2) idx1 idx2
  = map f (fff_twosample_apply_permutation d s1 s2 idx1 idx2).
Proof.
  intros. unfold fff_twosample_apply_permutation. rewrite map_length, <- map_app. apply apply_swaps_map.
Qed.
