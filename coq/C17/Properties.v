(* C17 - property theorems only (statements for ALL n, k, magic; no size bound
   other than the explicitly stated machine-arithmetic regions). *)
From Coq Require Import List Bool ZArith NArith QArith Lia Permutation.
From NV.C17 Require Import Model ProofsPerm ProofsComb ProofsSign ProofsTwo ProofsStat.
Import ListNotations.
Close Scope Q_scope.

(* ================================================================ fff_permutation *)
(* the C array program (identity fill, mixed-radix digit, memmove, store)
   computes the factorial-number-system decoding *)
Theorem permutation_refines_lehmer : forall n magic,
  fff_permutation n magic = lehmer (seq 0 n) n magic.
Proof. exact fff_permutation_lehmer. Qed.
Print Assumptions permutation_refines_lehmer.

Theorem permutation_is_perm : forall n magic, Permutation (fff_permutation n magic) (seq 0 n).
Proof. exact perm_is_perm. Qed.
Print Assumptions permutation_is_perm.

Theorem permutation_identity_at_0 : forall n, fff_permutation n 0%N = seq 0 n.
Proof. exact perm_identity. Qed.
Print Assumptions permutation_identity_at_0.

Theorem permutation_injective : forall n m1 m2, (m1 < factN n)%N -> (m2 < factN n)%N ->
  fff_permutation n m1 = fff_permutation n m2 -> m1 = m2.
Proof. exact perm_injective. Qed.
Print Assumptions permutation_injective.

Theorem permutation_surjective : forall n t, Permutation t (seq 0 n) ->
  exists m, (m < factN n)%N /\ fff_permutation n m = t.
Proof. exact perm_surjective. Qed.
Print Assumptions permutation_surjective.

Theorem permutation_periodic : forall n m q,
  fff_permutation n (m + q * factN n)%N = fff_permutation n m.
Proof. exact perm_periodic. Qed.
Print Assumptions permutation_periodic.

(* ================================================================ _combinations *)
(* exact no-wrap condition of one call: every product c*(aux+i) below 2^64 *)
Theorem combinations_is_binomial : forall k n, k <= n -> fits_uint n ->
  (forall j, 1 <= j <= k -> (N.of_nat j * binom (n - k + j) j < W64)%N) ->
  combinations_c k n = binom n k.
Proof. exact combinations_c_binom. Qed.
Print Assumptions combinations_is_binomial.

Theorem combinations_nowrap_region : forall n k, n <= 58 -> nowrap n k.
Proof. exact nowrap_small. Qed.
Print Assumptions combinations_nowrap_region.

(* outside the region the 64-bit wrap is modelled, not excused:
   C(62,31) = 465428353255261088 is still exact (31*C(62,31) < 2^64), while
   C(63,31) = 916312070471295267 and the C code returns 321255810029051666 *)
Theorem combinations_wrap_modelled :
  combinations_c 31 62 = 465428353255261088%N /\ combinations_c 31 63 = 321255810029051666%N.
Proof. exact combinations_wrap_witness. Qed.
Print Assumptions combinations_wrap_modelled.

(* ================================================================ fff_combination *)
(* magic |-> the (magic mod C(n,k))-th k-subset of 0..n-1 in lexicographic order *)
Theorem combination_is_mth_subset : forall k n magic, nowrap n k -> fits_uint n -> k <= n ->
  fff_combination k n magic = Some (nth (N.to_nat (magic mod binom n k)) (subsets n k 0%N) []).
Proof. exact comb_spec. Qed.
Print Assumptions combination_is_mth_subset.

Theorem subsets_enumerates_exactly : forall n k l,
  In l (subsets n k 0%N) <-> (length l = k /\ incr_in 0%N (N.of_nat n) l).
Proof.
  intros n k l. split.
  - intros H. apply (subsets_sound n k 0%N l H).
  - intros [A B]. apply subsets_complete; auto.
Qed.
Print Assumptions subsets_enumerates_exactly.

Theorem subsets_no_repeat_and_count : forall n k,
  NoDup (subsets n k 0%N) /\ N.of_nat (length (subsets n k 0%N)) = binom n k.
Proof. intros. split; [apply subsets_nodup|apply subsets_length]. Qed.
Print Assumptions subsets_no_repeat_and_count.

Theorem combination_sorted_subset : forall k n magic, nowrap n k -> fits_uint n -> k <= n ->
  exists l, fff_combination k n magic = Some l /\ length l = k /\ incr_in 0%N (N.of_nat n) l.
Proof. exact comb_valid. Qed.
Print Assumptions combination_sorted_subset.

Theorem combination_injective : forall k n m1 m2, nowrap n k -> fits_uint n -> k <= n ->
  (m1 < binom n k)%N -> (m2 < binom n k)%N ->
  fff_combination k n m1 = fff_combination k n m2 -> m1 = m2.
Proof. exact comb_injective. Qed.
Print Assumptions combination_injective.

Theorem combination_surjective : forall k n l, nowrap n k -> fits_uint n -> k <= n ->
  length l = k -> incr_in 0%N (N.of_nat n) l ->
  exists m, (m < binom n k)%N /\ fff_combination k n m = Some l.
Proof. exact comb_surjective. Qed.
Print Assumptions combination_surjective.

Theorem combination_identity_at_0 : forall k n, nowrap n k -> fits_uint n -> k <= n ->
  fff_combination k n 0%N = Some (nrange 0%N k).
Proof. exact comb_identity. Qed.
Print Assumptions combination_identity_at_0.

Theorem combination_periodic : forall k n m q, nowrap n k -> fits_uint n -> k <= n ->
  fff_combination k n (m + q * binom n k)%N = fff_combination k n m.
Proof. exact comb_periodic. Qed.
Print Assumptions combination_periodic.

(* ================================================================ sign flips *)
Open Scope Z_scope.
Theorem sign_flips_are_binary_digits : forall n z, 0 <= z < 2 ^ 32 ->
  sign_flags n (inject_Z z) = bit_flags n z.
Proof. exact sign_flags_bits. Qed.
Print Assumptions sign_flips_are_binary_digits.

Theorem sign_flips_injective : forall n z1 z2, (n <= 32)%nat ->
  0 <= z1 < 2 ^ Z.of_nat n -> 0 <= z2 < 2 ^ Z.of_nat n ->
  sign_flags n (inject_Z z1) = sign_flags n (inject_Z z2) -> z1 = z2.
Proof. exact sign_flags_injective. Qed.
Print Assumptions sign_flips_injective.

Theorem sign_flips_surjective : forall fl, (length fl <= 32)%nat ->
  exists z, 0 <= z < 2 ^ Z.of_nat (length fl) /\ sign_flags (length fl) (inject_Z z) = fl.
Proof. exact sign_flags_surjective. Qed.
Print Assumptions sign_flips_surjective.

Theorem sign_flips_identity_at_0 : forall x, fff_onesample_permute_signs x (inject_Z 0) = x.
Proof. exact permute_signs_identity. Qed.
Print Assumptions sign_flips_identity_at_0.

Theorem sign_flips_only_change_signs : forall x magic,
  Forall2 (fun a b => b = a \/ b = Qopp a) x (fff_onesample_permute_signs x magic).
Proof. exact permute_signs_pm. Qed.
Print Assumptions sign_flips_only_change_signs.

(* FINDING: the property quantifies over sample sizes up to 40, but for n >= 33
   the enumeration over [0, 2^n) is not injective: FFF_FLOOR casts m/2 to int. *)
Theorem sign_flips_injective_n33_refuted :
  exists z1 z2, 0 <= z1 < 2 ^ 33 /\ 0 <= z2 < 2 ^ 33 /\ z1 <> z2 /\
    sign_flags 33 (inject_Z z1) = sign_flags 33 (inject_Z z2).
Proof.
  exists 4294967296, 4294967298. split; [lia|]. split; [lia|]. split; [lia|].
  exact (proj1 sign_flags_33_collision).
Qed.
Print Assumptions sign_flips_injective_n33_refuted.
Close Scope Z_scope.

(* ================================================================ two-sample *)
Theorem twosample_count_is_sum : forall n1 n2,
  ts_count n1 n2 = ts_cum n1 n2 (S (Nat.min n1 n2)).
Proof. exact ts_count_spec. Qed.
Print Assumptions twosample_count_is_sum.

(* Vandermonde: the count is C(n1+n2, n1).  Checked by computation for
   n1, n2 <= 10 only (the general identity is not proved): partial. *)
Theorem twosample_count_is_binomial_partial :
  forallb (fun n1 => forallb (fun n2 => N.eqb (ts_count n1 n2) (binom (n1 + n2) n1)) (seq 0 11)) (seq 0 11) = true.
Proof. vm_compute. reflexivity. Qed.
Print Assumptions twosample_count_is_binomial_partial.

Theorem twosample_decoding : forall n1 n2 i r, i <= Nat.min n1 n2 ->
  (r < binom n1 i * binom n2 i)%N ->
  fff_twosample_permutation n1 n2 false (ts_cum n1 n2 i + r)%N
  = TsPerm i (fff_combination i n1 (r mod binom n1 i)%N) (fff_combination i n2 (r / binom n1 i)%N).
Proof. exact ts_perm_spec. Qed.
Print Assumptions twosample_decoding.

Theorem twosample_every_magic_decodes : forall n1 n2 magic, (magic < ts_count n1 n2)%N ->
  exists i r, i <= Nat.min n1 n2 /\ (r < binom n1 i * binom n2 i)%N /\ magic = (ts_cum n1 n2 i + r)%N.
Proof. intros n1 n2 magic H. rewrite ts_count_spec in H. apply ts_decompose. exact H. Qed.
Print Assumptions twosample_every_magic_decodes.

Theorem twosample_out_of_range_counts : forall n1 n2 magic, (ts_count n1 n2 <= magic)%N ->
  fff_twosample_permutation n1 n2 false magic = TsCount (ts_count n1 n2).
Proof. intros n1 n2 magic H. rewrite ts_count_spec in *. apply ts_out_of_range. exact H. Qed.
Print Assumptions twosample_out_of_range_counts.

Theorem twosample_identity_at_0 : forall n1 n2,
  fff_twosample_permutation n1 n2 false 0%N = TsPerm 0 (Some []) (Some []).
Proof. intros. rewrite ts_identity. unfold fff_combination. destruct n1, n2; reflexivity. Qed.
Print Assumptions twosample_identity_at_0.

(* every relabelling code (i, S1, S2) exactly once over [0, count) *)
Theorem twosample_injective : forall n1 n2 m m', fits_uint n1 -> fits_uint n2 ->
  nowrap n1 (Nat.min n1 n2) -> nowrap n2 (Nat.min n1 n2) ->
  (m < ts_count n1 n2)%N -> (m' < ts_count n1 n2)%N ->
  fff_twosample_permutation n1 n2 false m = fff_twosample_permutation n1 n2 false m' -> m = m'.
Proof. intros n1 n2 m m' F1 F2 N1 N2 H H'. rewrite ts_count_spec in *. apply ts_injective; auto. Qed.
Print Assumptions twosample_injective.

Theorem twosample_surjective : forall n1 n2 i l1 l2, fits_uint n1 -> fits_uint n2 ->
  nowrap n1 (Nat.min n1 n2) -> nowrap n2 (Nat.min n1 n2) -> i <= Nat.min n1 n2 ->
  length l1 = i -> incr_in 0%N (N.of_nat n1) l1 -> length l2 = i -> incr_in 0%N (N.of_nat n2) l2 ->
  exists m, (m < ts_count n1 n2)%N /\ fff_twosample_permutation n1 n2 false m = TsPerm i (Some l1) (Some l2).
Proof. intros n1 n2 i l1 l2 F1 F2 N1 N2 Hi L1 I1 L2 I2. rewrite ts_count_spec. apply ts_surjective; auto. Qed.
Print Assumptions twosample_surjective.

Theorem apply_permutation_is_relabelling : forall (x1 x2 : list Q) idx1 idx2,
  incr_in 0%N (N.of_nat (length x1)) idx1 -> incr_in 0%N (N.of_nat (length x2)) idx2 ->
  Permutation (fff_twosample_apply_permutation 0%Q x1 x2 idx1 idx2) (x1 ++ x2).
Proof. intros. apply apply_permutation_perm; auto. Qed.
Print Assumptions apply_permutation_is_relabelling.

(* ================================================================ statistics *)
Open Scope Q_scope.
Theorem mean_antisymmetric : forall x base, x <> [] ->
  os_mean (map Qopp x) (- base) == - os_mean x base.
Proof. exact os_mean_flip. Qed.
Print Assumptions mean_antisymmetric.

Theorem sign_stat_antisymmetric : forall x base,
  os_sign_stat (map Qopp x) (- base) == - os_sign_stat x base.
Proof. exact os_sign_stat_flip. Qed.
Print Assumptions sign_stat_antisymmetric.

Theorem twosample_wilcoxon_label_swap_free_of_ties_partial : forall a b,
  qsign (a - b) == - qsign (b - a).
Proof. exact qsign_swap. Qed.
Print Assumptions twosample_wilcoxon_label_swap_free_of_ties_partial.

(* ================================================================ p-values *)
Theorem calibrated_p_in_closed_unit_interval : forall draws t, draws <> [] ->
  0 <= p_calibrate draws t <= 1.
Proof. exact p_calibrate_bounds. Qed.
Print Assumptions calibrated_p_in_closed_unit_interval.

Theorem searchsorted_p_in_closed_unit_interval : forall draws t, draws <> [] ->
  0 <= p_searchsorted draws t <= 1.
Proof. exact p_searchsorted_bounds. Qed.
Print Assumptions searchsorted_p_in_closed_unit_interval.

(* p > 0 iff some draw is >= the observed statistic; in particular whenever the
   identity relabelling (which reproduces t) is among the draws *)
Theorem calibrated_p_positive_iff : forall draws t, draws <> [] ->
  (0 < p_calibrate draws t <-> exists d, In d draws /\ t <= d).
Proof. exact p_calibrate_pos_iff. Qed.
Print Assumptions calibrated_p_positive_iff.

Theorem calibrated_p_positive_if_identity_drawn : forall draws t, In t draws ->
  0 < p_calibrate draws t /\ 0 < p_searchsorted draws t.
Proof. exact p_pos_if_identity. Qed.
Print Assumptions calibrated_p_positive_if_identity_drawn.

(* FINDING: calibrate()/pvalue() do not include the identity relabelling in
   the draws, so the p-value can be exactly 0 (property says (0,1]) *)
Theorem calibrated_p_zero_refuted :
  exists draws t, draws <> [] /\ p_calibrate draws t == 0 /\ p_searchsorted draws t == 0.
Proof. exists [1; 2], 3. split; [discriminate|split; reflexivity]. Qed.
Print Assumptions calibrated_p_zero_refuted.
Close Scope Q_scope.

(* ================================================================ non-vacuity *)
Example permutation_n4_magic7 : fff_permutation 4 7%N = [3; 1; 0; 2].
Proof. vm_compute. reflexivity. Qed.
Example combination_4_2_magic4 : fff_combination 2 4 4%N = Some [1; 3]%N.
Proof. vm_compute. reflexivity. Qed.
Example twosample_2_3_magic9 : fff_twosample_permutation 2 3 false 9%N = TsPerm 2 (Some [0; 1]%N) (Some [1; 2]%N).
Proof. vm_compute. reflexivity. Qed.
Example nowrap_instance : nowrap 40 20 /\ fits_uint 40.
Proof. split; [apply nowrap_small; lia|unfold fits_uint; cbn; lia]. Qed.
