(* C17 - property theorems only (statements for ALL n, k, magic; no size bound
   other than the explicitly stated machine-arithmetic regions). *)
From Coq Require Import List Bool ZArith NArith QArith Qround Lqa Lia Permutation.
From Coq Require Import Sorted.
From NV.C17 Require Import Model ModelMfx ModelVar ProofsPerm ProofsComb ProofsSign ProofsTwo ProofsVand ProofsStat ProofsMfx ProofsVar.
Import ListNotations.
Close Scope Q_scope.

(* ================================================================ fff_permutation *)
(* the C array program (identity fill, mixed-radix digit, memmove, store)
   computes the factorial-number-system decoding *)
Theorem permutation_refines_lehmer : forall n magic,
  fff_permutation n magic = lehmer (seq 0 n) n magic.
Proof. exact fff_permutation_lehmer. Qed.
Print Assumptions permutation_refines_lehmer.

Theorem permutation_is_perm : forall n magic, Permutation (fff_permutation n magic) (seq 0 n).
Proof. exact perm_is_perm. Qed.
Print Assumptions permutation_is_perm.

Theorem permutation_identity_at_0 : forall n, fff_permutation n 0%N = seq 0 n.
Proof. exact perm_identity. Qed.
Print Assumptions permutation_identity_at_0.

Theorem permutation_injective : forall n m1 m2, (m1 < factN n)%N -> (m2 < factN n)%N ->
  fff_permutation n m1 = fff_permutation n m2 -> m1 = m2.
Proof. exact perm_injective. Qed.
Print Assumptions permutation_injective.

Theorem permutation_surjective : forall n t, Permutation t (seq 0 n) ->
  exists m, (m < factN n)%N /\ fff_permutation n m = t.
Proof. exact perm_surjective. Qed.
Print Assumptions permutation_surjective.

Theorem permutation_periodic : forall n m q,
  fff_permutation n (m + q * factN n)%N = fff_permutation n m.
Proof. exact perm_periodic. Qed.
Print Assumptions permutation_periodic.

(* ================================================================ _combinations *)
(* exact no-wrap condition of one call: every product c*(aux+i) below 2^64 *)
Theorem combinations_is_binomial : forall k n, k <= n -> fits_uint n ->
  (forall j, 1 <= j <= k -> (N.of_nat j * binom (n - k + j) j < W64)%N) ->
  combinations_c k n = binom n k.
Proof. exact combinations_c_binom. Qed.
Print Assumptions combinations_is_binomial.

Theorem combinations_nowrap_region : forall n k, n <= 58 -> nowrap n k.
Proof. exact nowrap_small. Qed.
Print Assumptions combinations_nowrap_region.

(* outside the region the 64-bit wrap is modelled, not excused:
   C(62,31) = 465428353255261088 is still exact (31*C(62,31) < 2^64), while
   C(63,31) = 916312070471295267 and the C code returns 321255810029051666 *)
Theorem combinations_wrap_modelled :
  combinations_c 31 62 = 465428353255261088%N /\ combinations_c 31 63 = 321255810029051666%N.
Proof. exact combinations_wrap_witness. Qed.
Print Assumptions combinations_wrap_modelled.

(* ================================================================ fff_combination *)
(* magic |-> the (magic mod C(n,k))-th k-subset of 0..n-1 in lexicographic order *)
Theorem combination_is_mth_subset : forall k n magic, nowrap n k -> fits_uint n -> k <= n ->
  fff_combination k n magic = Some (nth (N.to_nat (magic mod binom n k)) (subsets n k 0%N) []).
Proof. exact comb_spec. Qed.
Print Assumptions combination_is_mth_subset.

Theorem subsets_enumerates_exactly : forall n k l,
  In l (subsets n k 0%N) <-> (length l = k /\ incr_in 0%N (N.of_nat n) l).
Proof.
  intros n k l. split.
  - intros H. apply (subsets_sound n k 0%N l H).
  - intros [A B]. apply subsets_complete; auto.
Qed.
Print Assumptions subsets_enumerates_exactly.

Theorem subsets_no_repeat_and_count : forall n k,
  NoDup (subsets n k 0%N) /\ N.of_nat (length (subsets n k 0%N)) = binom n k.
Proof. intros. split; [apply subsets_nodup|apply subsets_length]. Qed.
Print Assumptions subsets_no_repeat_and_count.

Theorem combination_sorted_subset : forall k n magic, nowrap n k -> fits_uint n -> k <= n ->
  exists l, fff_combination k n magic = Some l /\ length l = k /\ incr_in 0%N (N.of_nat n) l.
Proof. exact comb_valid. Qed.
Print Assumptions combination_sorted_subset.

Theorem combination_injective : forall k n m1 m2, nowrap n k -> fits_uint n -> k <= n ->
  (m1 < binom n k)%N -> (m2 < binom n k)%N ->
  fff_combination k n m1 = fff_combination k n m2 -> m1 = m2.
Proof. exact comb_injective. Qed.
Print Assumptions combination_injective.

Theorem combination_surjective : forall k n l, nowrap n k -> fits_uint n -> k <= n ->
  length l = k -> incr_in 0%N (N.of_nat n) l ->
  exists m, (m < binom n k)%N /\ fff_combination k n m = Some l.
Proof. exact comb_surjective. Qed.
Print Assumptions combination_surjective.

Theorem combination_identity_at_0 : forall k n, nowrap n k -> fits_uint n -> k <= n ->
  fff_combination k n 0%N = Some (nrange 0%N k).
Proof. exact comb_identity. Qed.
Print Assumptions combination_identity_at_0.

Theorem combination_periodic : forall k n m q, nowrap n k -> fits_uint n -> k <= n ->
  fff_combination k n (m + q * binom n k)%N = fff_combination k n m.
Proof. exact comb_periodic. Qed.
Print Assumptions combination_periodic.

(* ================================================================ sign flips *)
(* Model = the current C (floor on doubles, fix 6262c59).  Q with the true
   floor is exact for every finite, non-subnormal double magic; the only role
   of the double format is which magics exist: all integers of magnitude
   <= 2^53 do (double_exact_int), 2^53+1 does not. *)
Open Scope Z_scope.
(* every integer magic, any sign, any size, any n: flag i = binary digit i
   (two's complement digits for negative magics) *)
Theorem sign_flips_are_binary_digits : forall n z,
  sign_flags n (inject_Z z) = bit_flags n z.
Proof. exact sign_flags_bits. Qed.
Print Assumptions sign_flips_are_binary_digits.

(* arbitrary (non-integer) magic, as the C computes it: subject 0 is flipped
   iff magic/2 is not an integer, the others follow the digits of floor(magic/2) *)
Theorem sign_flips_any_magic : forall n (m : Q),
  sign_flags (S n) m
  = (if Qeq_bool (m / 2) (inject_Z (Qfloor (m / 2))) then false else true)
      :: bit_flags n (Qfloor (m / 2)).
Proof. exact sign_flags_any. Qed.
Print Assumptions sign_flips_any_magic.

Theorem sign_flips_injective : forall n z1 z2,
  0 <= z1 < 2 ^ Z.of_nat n -> 0 <= z2 < 2 ^ Z.of_nat n ->
  sign_flags n (inject_Z z1) = sign_flags n (inject_Z z2) -> z1 = z2.
Proof. exact sign_flags_injective. Qed.
Print Assumptions sign_flips_injective.

Theorem sign_flips_surjective : forall fl,
  exists z, 0 <= z < 2 ^ Z.of_nat (length fl) /\ sign_flags (length fl) (inject_Z z) = fl.
Proof. exact sign_flags_surjective. Qed.
Print Assumptions sign_flips_surjective.

(* full-strength statement for the doubles: for every n <= 53 each magic of
   [0, 2^n) is an exactly representable double (<= 2^53), distinct magics give
   distinct patterns, and every pattern of length n is produced *)
Theorem sign_flips_bijective_upto_53_subjects : forall n, (n <= 53)%nat ->
  (forall z, 0 <= z < 2 ^ Z.of_nat n -> double_exact_int z) /\
  (forall z1 z2, 0 <= z1 < 2 ^ Z.of_nat n -> 0 <= z2 < 2 ^ Z.of_nat n ->
     sign_flags n (inject_Z z1) = sign_flags n (inject_Z z2) -> z1 = z2) /\
  (forall fl, length fl = n ->
     exists z, 0 <= z < 2 ^ Z.of_nat n /\ double_exact_int z /\ sign_flags n (inject_Z z) = fl).
Proof. exact sign_flags_bijective_53. Qed.
Print Assumptions sign_flips_bijective_upto_53_subjects.

(* for n >= 54 the range [0,2^n) contains integers that are not doubles *)
Theorem sign_flips_double_gap_above_53 : ~ double_exact_int (2 ^ 53 + 1).
Proof. exact double_gap. Qed.
Print Assumptions sign_flips_double_gap_above_53.

Theorem sign_flips_identity_at_0 : forall x, fff_onesample_permute_signs x (inject_Z 0) = x.
Proof. exact permute_signs_identity. Qed.
Print Assumptions sign_flips_identity_at_0.

Theorem sign_flips_only_change_signs : forall x magic,
  Forall2 (fun a b => b = a \/ b = Qopp a) x (fff_onesample_permute_signs x magic).
Proof. exact permute_signs_pm. Qed.
Print Assumptions sign_flips_only_change_signs.

Example sign_flips_examples :
  sign_flags 4 (inject_Z (-1)) = [true; true; true; true] /\
  sign_flags 4 (Qmake 5 2) = [true; true; false; false] /\
  sign_flags 34 (inject_Z 4294967296) = bit_flags 34 4294967296.
Proof. exact sign_flags_examples. Qed.
Close Scope Z_scope.

(* ================================================================ two-sample *)
Theorem twosample_count_is_sum : forall n1 n2,
  ts_count n1 n2 = ts_cum n1 n2 (S (Nat.min n1 n2)).
Proof. exact ts_count_spec. Qed.
Print Assumptions twosample_count_is_sum.

(* Vandermonde, for all n1, n2: the number of relabellings the C enumerates is
   C(n1+n2, n1), the number of ways to choose group 1 among n1+n2 subjects *)
Theorem twosample_count_is_binomial : forall n1 n2, ts_count n1 n2 = binom (n1 + n2) n1.
Proof. exact ts_count_vandermonde. Qed.
Print Assumptions twosample_count_is_binomial.

Theorem twosample_decoding : forall n1 n2 i r, i <= Nat.min n1 n2 ->
  (r < binom n1 i * binom n2 i)%N ->
  fff_twosample_permutation n1 n2 false (ts_cum n1 n2 i + r)%N
  = TsPerm i (fff_combination i n1 (r mod binom n1 i)%N) (fff_combination i n2 (r / binom n1 i)%N).
Proof. exact ts_perm_spec. Qed.
Print Assumptions twosample_decoding.

Theorem twosample_every_magic_decodes : forall n1 n2 magic, (magic < ts_count n1 n2)%N ->
  exists i r, i <= Nat.min n1 n2 /\ (r < binom n1 i * binom n2 i)%N /\ magic = (ts_cum n1 n2 i + r)%N.
Proof. intros n1 n2 magic H. rewrite ts_count_spec in H. apply ts_decompose. exact H. Qed.
Print Assumptions twosample_every_magic_decodes.

Theorem twosample_out_of_range_counts : forall n1 n2 magic, (ts_count n1 n2 <= magic)%N ->
  fff_twosample_permutation n1 n2 false magic = TsCount (ts_count n1 n2).
Proof. intros n1 n2 magic H. rewrite ts_count_spec in *. apply ts_out_of_range. exact H. Qed.
Print Assumptions twosample_out_of_range_counts.

Theorem twosample_identity_at_0 : forall n1 n2,
  fff_twosample_permutation n1 n2 false 0%N = TsPerm 0 (Some []) (Some []).
Proof. intros. rewrite ts_identity. unfold fff_combination. destruct n1, n2; reflexivity. Qed.
Print Assumptions twosample_identity_at_0.

(* every relabelling code (i, S1, S2) exactly once over [0, count) *)
Theorem twosample_injective : forall n1 n2 m m', fits_uint n1 -> fits_uint n2 ->
  nowrap n1 (Nat.min n1 n2) -> nowrap n2 (Nat.min n1 n2) ->
  (m < ts_count n1 n2)%N -> (m' < ts_count n1 n2)%N ->
  fff_twosample_permutation n1 n2 false m = fff_twosample_permutation n1 n2 false m' -> m = m'.
Proof. intros n1 n2 m m' F1 F2 N1 N2 H H'. rewrite ts_count_spec in *. apply ts_injective; auto. Qed.
Print Assumptions twosample_injective.

Theorem twosample_surjective : forall n1 n2 i l1 l2, fits_uint n1 -> fits_uint n2 ->
  nowrap n1 (Nat.min n1 n2) -> nowrap n2 (Nat.min n1 n2) -> i <= Nat.min n1 n2 ->
  length l1 = i -> incr_in 0%N (N.of_nat n1) l1 -> length l2 = i -> incr_in 0%N (N.of_nat n2) l2 ->
  exists m, (m < ts_count n1 n2)%N /\ fff_twosample_permutation n1 n2 false m = TsPerm i (Some l1) (Some l2).
Proof. intros n1 n2 i l1 l2 F1 F2 N1 N2 Hi L1 I1 L2 I2. rewrite ts_count_spec. apply ts_surjective; auto. Qed.
Print Assumptions twosample_surjective.

Theorem apply_permutation_is_relabelling : forall (x1 x2 : list Q) idx1 idx2,
  incr_in 0%N (N.of_nat (length x1)) idx1 -> incr_in 0%N (N.of_nat (length x2)) idx2 ->
  Permutation (fff_twosample_apply_permutation 0%Q x1 x2 idx1 idx2) (x1 ++ x2).
Proof. intros. apply apply_permutation_perm; auto. Qed.
Print Assumptions apply_permutation_is_relabelling.

(* first-level variances travel with their subjects: for subjects given as (value, variance) pairs, the
   permuted data vector and the permuted variance vector are the two projections of one relabelled list *)
Theorem apply_permutation_variances_follow_subjects : forall (s1 s2 : list (Q * Q)) idx1 idx2,
  fff_twosample_apply_permutation 0%Q (map fst s1) (map fst s2) idx1 idx2
    = map fst (fff_twosample_apply_permutation (0%Q, 0%Q) s1 s2 idx1 idx2) /\
  fff_twosample_apply_permutation 0%Q (map snd s1) (map snd s2) idx1 idx2
    = map snd (fff_twosample_apply_permutation (0%Q, 0%Q) s1 s2 idx1 idx2).
Proof.
  intros. split.
  - exact (apply_permutation_map fst (0%Q, 0%Q) s1 s2 idx1 idx2).
  - exact (apply_permutation_map snd (0%Q, 0%Q) s1 s2 idx1 idx2).
Qed.
Print Assumptions apply_permutation_variances_follow_subjects.

(* ================================================================ statistics *)
Open Scope Q_scope.
Theorem mean_antisymmetric : forall x base, x <> [] ->
  os_mean (map Qopp x) (- base) == - os_mean x base.
Proof. exact os_mean_flip. Qed.
Print Assumptions mean_antisymmetric.

Theorem sign_stat_antisymmetric : forall x base,
  os_sign_stat (map Qopp x) (- base) == - os_sign_stat x base.
Proof. exact os_sign_stat_flip. Qed.
Print Assumptions sign_stat_antisymmetric.

(* fff_vector_ssd's Koenig formula  sum x^2 - n m^2  is the sum of squared deviations *)
Theorem ssd_is_sum_of_squared_deviations : forall x, x <> [] ->
  vec_ssd x == qsum (map (fun v => (v - qsum x / qlen x) * (v - qsum x / qlen x)) x).
Proof. exact vec_ssd_def. Qed.
Print Assumptions ssd_is_sum_of_squared_deviations.

(* Student, sqrt abstract (only assumed to respect ==):
   t = sqrt(n-1) (m - base) / sqrt(ssd/n)  with the library's normalisation *)
Theorem student_def : forall (sqrtq : Q -> Q), (forall a b, a == b -> sqrtq a == sqrtq b) ->
  forall x base, x <> [] ->
  let m := qsum x / qlen x in
  let ssd := qsum (map (fun v => (v - m) * (v - m)) x) in
  let aux := sqrtq (qlen x - 1) * (m - base) in
  let std := sqrtq (ssd / qlen x) in
  ~ aux == 0 -> ~ std == 0 -> xeq (os_student sqrtq x base) (Fin (aux / std)).
Proof. exact os_student_def. Qed.
Print Assumptions student_def.

Theorem student_zero_when_mean_is_base : forall (sqrtq : Q -> Q) x base,
  sqrtq (qlen x - 1) * (qsum x / qlen x - base) == 0 -> os_student sqrtq x base = Fin 0.
Proof. exact os_student_zero. Qed.
Print Assumptions student_zero_when_mean_is_base.

Theorem student_antisymmetric : forall (sqrtq : Q -> Q), (forall a b, a == b -> sqrtq a == sqrtq b) ->
  forall x base, xeq (os_student sqrtq (map Qopp x) (- base)) (xopp (os_student sqrtq x base)).
Proof. exact os_student_flip. Qed.
Print Assumptions student_antisymmetric.

(* Wilcoxon signed rank: the residuals are rearranged in non-decreasing |x - base|
   (position = rank), t = sum rank * sign / n^2 *)
Theorem wilcoxon_def : forall x base,
  let r := sort_abs (map (fun v => v - base) x) in
  Permutation r (map (fun v => v - base) x) /\ Sorted abs_le r /\
  os_wilcoxon x base = rank_sign_sum 1 r / (qlen x * qlen x).
Proof. exact os_wilcoxon_uses_ranks. Qed.
Print Assumptions wilcoxon_def.

Theorem wilcoxon_antisymmetric : forall x base,
  os_wilcoxon (map Qopp x) (- base) == - os_wilcoxon x base.
Proof. exact os_wilcoxon_flip. Qed.
Print Assumptions wilcoxon_antisymmetric.

(* two-sample Wilcoxon: swapping the labels of equally sized groups negates it
   (for n1 <> n2 the two normalisers 1/n2 and 1/n1 differ: w(x2,x1) n1 = - w(x1,x2) n2) *)
Theorem twosample_wilcoxon_label_swap_antisymmetric : forall x1 x2, qlen x1 == qlen x2 ->
  ts_wilcoxon x2 x1 == - ts_wilcoxon x1 x2.
Proof. exact ts_wilcoxon_swap. Qed.
Print Assumptions twosample_wilcoxon_label_swap_antisymmetric.

(* ================================================================ mixed effects (mixed_effects_stat.py) *)
(* MixedEffectsModel.fit is a function of (pinv_X, X, n_iter, Y, V1) only: the
   estimates an object already holds (none, or those of an earlier fit of any
   sample and shape) have no influence *)
Theorem mfx_fit_history_independent : forall P X n o o' Y V1,
  fit_method P X n o Y V1 = fit_method P X n o' Y V1.
Proof. exact fit_history_independent. Qed.
Print Assumptions mfx_fit_history_independent.

Theorem mfx_fit_after_any_fit_is_fresh_fit : forall P X n o YA V1A YB V1B o1,
  fit_method P X n o YA V1A = Some o1 ->
  fit_method P X n o1 YB V1B = fit_method P X n fresh_obj YB V1B.
Proof. exact fit_sequence. Qed.
Print Assumptions mfx_fit_after_any_fit_is_fresh_fit.

Theorem mfx_fit_idempotent : forall P X n o Y V1 o1,
  fit_method P X n o Y V1 = Some o1 -> fit_method P X n o1 Y V1 = Some o1.
Proof. exact fit_idempotent. Qed.
Print Assumptions mfx_fit_idempotent.

Theorem mfx_fit_total : forall P X n o Y V1,
  exists o', fit_method P X n o Y V1 = Some o'
             /\ o_V2 o' <> None /\ o_fit o' <> None /\ o_beta o' <> None.
Proof. exact fit_total. Qed.
Print Assumptions mfx_fit_total.

(* n_iter + 1 iterations = n_iter iterations followed by one more EM step *)
Theorem mfx_fit_is_n_iter_steps : forall P X n o Y V1,
  fit_method P X (S n) o Y V1
  = match fit_method P X n o Y V1 with Some s => one_step P X Y V1 s | None => None end.
Proof. exact fit_unfold_S. Qed.
Print Assumptions mfx_fit_is_n_iter_steps.

(* the E step is the posterior of the two-level Gaussian model *)
Theorem mfx_estep_is_gaussian_posterior : forall v2 y v1 f, 0 < v1 -> 0 < v2 ->
  e_mean v2 y v1 f == f + (v2 / (v2 + v1)) * (y - f) /\ e_cvar v2 v1 == 1 / (1 / v1 + 1 / v2).
Proof. intros. split; [apply e_mean_is_shrinkage; lra|apply e_cvar_is_harmonic; assumption]. Qed.
Print Assumptions mfx_estep_is_gaussian_posterior.

Theorem mfx_estep_shrinks_towards_fit : forall v2 y v1 f, 0 <= v1 -> 0 <= v2 -> 0 < v2 + v1 -> f <= y ->
  f <= e_mean v2 y v1 f <= y.
Proof. exact e_mean_between. Qed.
Print Assumptions mfx_estep_shrinks_towards_fit.

Theorem estimate_mean_effect_antisymmetric : forall Y sd,
  em_effect (map Qopp Y) sd == - em_effect Y sd.
Proof. exact em_effect_flip. Qed.
Print Assumptions estimate_mean_effect_antisymmetric.

(* ================================================================ estimate_varatio (onesample.py) *)
(* the random-effects variance (and the variance ratio) returned after ANY
   number of iterations is an even function of the data: negating every
   subject's effect changes nothing (a variance has no sign to flip).  Leibniz
   equality: the model keeps the running variance in canonical form. *)
Theorem varatio_random_even : forall sred niter Y sd,
  vr_random sred niter (map Qopp Y) sd = vr_random sred niter Y sd.
Proof. exact vr_random_even. Qed.
Print Assumptions varatio_random_even.

Theorem varatio_ratio_even : forall sred niter df Y sd,
  vr_ratio sred niter df (map Qopp Y) sd = vr_ratio sred niter df Y sd.
Proof. exact vr_ratio_even. Qed.
Print Assumptions varatio_ratio_even.

(* adding one constant to every subject's effect leaves the estimate unchanged,
   for every number of iterations, every sd (zero and negative weights' worth
   included: when no subject has a positive weight the update does not look at
   the data at all) and every Sreduction; Y and sd of the same length, as the
   source requires (W.shape = Y.shape) *)
Theorem varatio_random_shift_invariant : forall c sred niter Y sd,
  length sd = length Y ->
  vr_random sred niter (shiftq c Y) sd = vr_random sred niter Y sd.
Proof. exact vr_random_shift. Qed.
Print Assumptions varatio_random_shift_invariant.

(* with niter = 0 the estimate is the unbiased sample variance minus
   Sreduction * (smallest first-level variance) *)
Theorem varatio_no_iteration_is_sample_variance : forall sred Y sd,
  (vr_random sred 0 Y sd == vr_ssd Y (qmean Y) / (qlen Y - 1) - qminl (vr_S sd) * sred)%Q.
Proof. exact vr_random_0. Qed.
Print Assumptions varatio_no_iteration_is_sample_variance.

(* non-vacuity: the estimate does depend on the data (doubling the spread
   changes it) while the flipped and the shifted sample give the same value;
   a variance taken about 0 instead of the mean would not be shift invariant *)
Example varatio_depends_on_spread_only :
  let s := (99 # 100)%Q in let sd := [1; 1; 2]%Q in
  Qeq_bool (vr_random s 2 [0; 1; 3]%Q sd) (vr_random s 2 [0; 2; 6]%Q sd) = false /\
  Qeq_bool (vr_random s 2 [0; -1; -3]%Q sd) (vr_random s 2 [0; 1; 3]%Q sd) = true /\
  Qeq_bool (vr_random s 2 [5; 6; 8]%Q sd) (vr_random s 2 [0; 1; 3]%Q sd) = true /\
  Qeq_bool (vr_ssd [5; 6; 8]%Q 0) (vr_ssd [0; 1; 3]%Q 0) = false.
Proof. vm_compute. repeat split; reflexivity. Qed.

(* non-vacuity: a fit that resumes from existing estimates would violate it *)
Example mfx_warm_start_would_depend_on_history :
  let P := [[1#2; 1#2]] in let X := [[1]; [1]] in
  exists oA, fit_method P X 1 fresh_obj [4; 8] [1; 1] = Some oA /\
  Qeq_bool (fit_V2 (fit_warm P X 1 oA [0; 1] [1; 1])) (fit_V2 (fit_warm P X 1 fresh_obj [0; 1] [1; 1])) = false /\
  Qeq_bool (fit_V2 (fit_method P X 1 oA [0; 1] [1; 1])) (fit_V2 (fit_method P X 1 fresh_obj [0; 1] [1; 1])) = true.
Proof. exact warm_start_depends_on_history. Qed.

(* ================================================================ Gaussian MFX (lib/fff, student_mfx / mean_gauss_mfx) *)
(* the C one-sample EM step and MixedEffectsModel's EM step for the one-sample design coincide *)
Theorem gmfx_em_step_is_mixed_effects_step : forall x var m0 v0, x <> [] -> length x = length var ->
  let Z := map2 (gm_mi m0 v0) x var in
  let cvar := map (gm_vi v0) var in
  let st := gmfx_step false x var (m0, v0) in
  fst st == qmean Z /\
  snd st == qmean (map (fun z => sqdiff z (qmean Z)) Z) + qmean cvar.
Proof. exact gmfx_step_is_mixed_effects_step. Qed.
Print Assumptions gmfx_em_step_is_mixed_effects_step.

Theorem gmfx_posterior_mean_is_estep : forall m0 v0 xi si, gm_mi m0 v0 xi si == e_mean v0 xi si m0.
Proof. exact gm_mi_is_e_mean. Qed.
Print Assumptions gmfx_posterior_mean_is_estep.

(* student_mfx is the likelihood ratio of H0: mean = base: the constrained fit keeps the
   mean at the baseline handed over by _fff_onesample_LR_gmfx (repaired by 4a6ea55) ... *)
Theorem student_mfx_null_mean_is_base : forall n base x var, student_mfx_null_mean n base x var = base.
Proof. exact gmfx_constrained_mean_is_input. Qed.
Print Assumptions student_mfx_null_mean_is_base.

(* ... and the variance under H0 depends on the data only through x - base: a common shift of
   data and baseline leaves its initial value and every EM update unchanged *)
Theorem student_mfx_null_variance_init_shift_invariant : forall x m c, x <> [] ->
  snd (gmfx_init true (m + c) (map (fun a => a + c) x)) == snd (gmfx_init true m x).
Proof. exact gmfx_constrained_init_shift. Qed.
Print Assumptions student_mfx_null_variance_init_shift_invariant.

Theorem student_mfx_null_variance_step_shift_invariant : forall m0 v0 c x var,
  Forall (fun s => ~ s + v0 == 0) var ->
  snd (gmfx_step true (map (fun a => a + c) x) var (m0 + c, v0)) == snd (gmfx_step true x var (m0, v0)).
Proof. exact gmfx_constrained_step_shift. Qed.
Print Assumptions student_mfx_null_variance_step_shift_invariant.

(* the initial constrained variance is the mean squared deviation from the baseline *)
Theorem student_mfx_null_variance_init_def : forall x m, x <> [] ->
  ssd_fixed x m == qsum (map (fun v => (v - m) * (v - m)) x).
Proof. exact ssd_fixed_is_sqdev. Qed.
Print Assumptions student_mfx_null_variance_init_def.

(* ================================================================ fff_glm_twolevel EM (two-sample student_mfx, glm_twolevel.pyx) *)
Theorem glm_twolevel_estep_is_gaussian_posterior : forall s2 yi vyi fi, TINY < s2 -> TINY < vyi ->
  glm2_z (glm2_w2 (Some s2)) yi vyi fi == e_mean s2 yi vyi fi /\
  glm2_vz (glm2_w2 (Some s2)) vyi == e_cvar s2 vyi.
Proof. exact glm2_estep_is_posterior. Qed.
Print Assumptions glm_twolevel_estep_is_gaussian_posterior.

Theorem glm_twolevel_first_estep_returns_data : forall yi vyi fi, TINY < vyi ->
  glm2_z (glm2_w2 None) yi vyi fi == yi /\ glm2_vz (glm2_w2 None) vyi == vyi.
Proof. exact glm2_first_estep. Qed.
Print Assumptions glm_twolevel_first_estep_returns_data.

(* M step: s2 = (1/n) [ sum (z - Xb)^2 + sum vz ] - squares about 0; centring them would differ *)
Theorem glm_twolevel_variance_update_is_uncentred : forall r, r <> [] ->
  ssd_fixed r 0 == qsum (map (fun v => v * v) r).
Proof. exact glm2_s2_is_uncentred. Qed.
Print Assumptions glm_twolevel_variance_update_is_uncentred.

Example glm_twolevel_centred_update_would_differ : ~ vec_ssd [1; 2] == ssd_fixed [1; 2] 0.
Proof. exact glm2_centred_would_differ. Qed.

(* ================================================================ Laplace statistic: the clamp s0 = max(s0, s) *)
Theorem laplace_log_argument_ge_1 : forall x base, 0 < sad x (lib_median x) / qlen x ->
  1 <= laplace_ratio x base.
Proof. exact laplace_ratio_ge_1. Qed.
Print Assumptions laplace_log_argument_ge_1.

Theorem laplace_sqrt_argument_nonneg : forall (lnq : Q -> Q), (forall a, 1 <= a -> 0 <= lnq a) ->
  forall x base, 0 < sad x (lib_median x) / qlen x -> 0 <= 2 * qlen x * lnq (laplace_ratio x base).
Proof. exact laplace_sqrt_arg_nonneg. Qed.
Print Assumptions laplace_sqrt_argument_nonneg.

(* ================================================================ p-values *)
Theorem calibrated_p_in_closed_unit_interval : forall draws t, draws <> [] ->
  0 <= p_calibrate draws t <= 1.
Proof. exact p_calibrate_bounds. Qed.
Print Assumptions calibrated_p_in_closed_unit_interval.

Theorem searchsorted_p_in_closed_unit_interval : forall draws t, draws <> [] ->
  0 <= p_searchsorted draws t <= 1.
Proof. exact p_searchsorted_bounds. Qed.
Print Assumptions searchsorted_p_in_closed_unit_interval.

(* p > 0 iff some draw is >= the observed statistic; in particular whenever the
   identity relabelling (which reproduces t) is among the draws *)
Theorem calibrated_p_positive_iff : forall draws t, draws <> [] ->
  (0 < p_calibrate draws t <-> exists d, In d draws /\ t <= d).
Proof. exact p_calibrate_pos_iff. Qed.
Print Assumptions calibrated_p_positive_iff.

Theorem calibrated_p_positive_if_identity_drawn : forall draws t, In t draws ->
  0 < p_calibrate draws t /\ 0 < p_searchsorted draws t.
Proof. exact p_pos_if_identity. Qed.
Print Assumptions calibrated_p_positive_if_identity_drawn.

(* FINDING: calibrate()/pvalue() do not include the identity relabelling in
   the draws, so the p-value can be exactly 0 (property says (0,1]) *)
Theorem calibrated_p_zero_refuted :
  exists draws t, draws <> [] /\ p_calibrate draws t == 0 /\ p_searchsorted draws t == 0.
Proof. exists [1; 2], 3. split; [discriminate|split; reflexivity]. Qed.
Print Assumptions calibrated_p_zero_refuted.
Close Scope Q_scope.

(* ================================================================ non-vacuity *)
Example permutation_n4_magic7 : fff_permutation 4 7%N = [3; 1; 0; 2].
Proof. vm_compute. reflexivity. Qed.
Example combination_4_2_magic4 : fff_combination 2 4 4%N = Some [1; 3]%N.
Proof. vm_compute. reflexivity. Qed.
Example twosample_2_3_magic9 : fff_twosample_permutation 2 3 false 9%N = TsPerm 2 (Some [0; 1]%N) (Some [1; 2]%N).
Proof. vm_compute. reflexivity. Qed.
Example nowrap_instance : nowrap 40 20 /\ fits_uint 40.
Proof. split; [apply nowrap_small; lia|unfold fits_uint; cbn; lia]. Qed.
