(* C17 - _combinations and fff_combination.
   * the running product/division of _combinations is exact and equals the
     binomial coefficient whenever no product reaches 2^64;
   * in that region fff_combination(k, n, magic) is the (magic mod C(n,k))-th
     k-subset of {0..n-1} in lexicographic order, which yields validity,
     injectivity and surjectivity on [0, C(n,k)). *)
From Coq Require Import List Bool ZArith NArith Lia Arith.
From NV.C17 Require Import Model.
Import ListNotations.

(* ---------------------------------------------------------------- binomials *)
Lemma binom_n_0 : forall n, binom n 0 = 1%N.
Proof. destruct n; reflexivity. Qed.

Lemma binom_S_S : forall n k, binom (S n) (S k) = (binom n k + binom n (S k))%N.
Proof. reflexivity. Qed.

Lemma binom_small : forall n k, n < k -> binom n k = 0%N.
Proof.
  induction n as [|n IH]; intros [|k] H; try lia; [reflexivity|].
  rewrite binom_S_S, !IH by lia. reflexivity.
Qed.

Lemma binom_pos : forall n k, k <= n -> (0 < binom n k)%N.
Proof.
  induction n as [|n IH]; intros [|k] H; try lia; try (cbn; lia).
  rewrite binom_S_S. assert (0 < binom n k)%N by (apply IH; lia). lia.
Qed.

Lemma binom_pos_inv : forall n k, (0 < binom n k)%N -> k <= n.
Proof.
  intros n k H. destruct (le_lt_dec k n) as [L|L]; [exact L|].
  rewrite binom_small in H by exact L. lia.
Qed.

(* (k+1) C(n+1,k+1) = (n+1) C(n,k) *)
Lemma binom_absorb : forall n k,
  (N.of_nat (S k) * binom (S n) (S k) = N.of_nat (S n) * binom n k)%N.
Proof.
  induction n as [|n IH]; intros k.
  - destruct k as [|k]; cbn; lia.
  - rewrite (binom_S_S (S n) k).
    assert (E1 := IH k).
    destruct k as [|k].
    + rewrite !binom_n_0 in *. lia.
    + assert (E2 := IH k).
      assert (Pb := binom_S_S n k).
      rewrite !Nat2N.inj_succ in *.
      generalize dependent (binom (S n) (S (S k))). generalize dependent (binom (S n) (S k)).
      generalize dependent (binom n (S k)). generalize dependent (binom n k).
      intros a b c Pb E2 d E1. subst c. nia.
Qed.

Lemma binom_le_pow2 : forall n k, (binom n k <= 2 ^ N.of_nat n)%N.
Proof.
  induction n as [|n IH]; intros [|k]; try (cbn; lia).
  rewrite binom_S_S. assert (A := IH k). assert (B := IH (S k)).
  rewrite Nat2N.inj_succ, N.pow_succ_r'. lia.
Qed.

(* ---------------------------------------------------------------- _combinations *)
Lemma comb_loop_binom : forall s j a,
  (forall t, 1 <= t <= s -> (N.of_nat (j + t) * binom (a + j + t) (j + t) < W64)%N) ->
  comb_loop s (N.of_nat j + 1)%N (N.of_nat a) (binom (a + j) j) = binom (a + j + s) (j + s).
Proof.
  induction s as [|s IH]; intros j a H.
  - cbn. rewrite !Nat.add_0_r. reflexivity.
  - cbn [comb_loop].
    assert (H1 := H 1 ltac:(lia)).
    replace (j + 1) with (S j) in H1 by lia. replace (a + j + 1) with (S (a + j)) in H1 by lia.
    assert (Ab := binom_absorb (a + j) j).
    assert (Pp := binom_pos (a + j) j ltac:(lia)).
    assert (Small : (N.of_nat a + (N.of_nat j + 1) < W64)%N).
    { rewrite Ab in H1. rewrite Nat2N.inj_succ, Nat2N.inj_add in H1. nia. }
    rewrite (N.mod_small _ _ Small).
    assert (Pr : (binom (a + j) j * (N.of_nat a + (N.of_nat j + 1))
                  = N.of_nat (S j) * binom (S (a + j)) (S j))%N).
    { rewrite Ab. rewrite Nat2N.inj_succ, Nat2N.inj_add. lia. }
    rewrite Pr, (N.mod_small _ _ H1).
    replace (N.of_nat j + 1)%N with (N.of_nat (S j)) by lia.
    rewrite N.mul_comm, N.div_mul by lia.
    replace (N.of_nat (S j) + 1)%N with (N.of_nat (S j) + 1)%N by reflexivity.
    replace (S (a + j)) with (a + S j) by lia.
    rewrite IH.
    + f_equal; lia.
    + intros t Ht. specialize (H (S t) ltac:(lia)).
      replace (S j + t) with (j + S t) by lia. replace (a + S j + t) with (a + j + S t) by lia.
      exact H.
Qed.

Definition fits_uint (n : nat) : Prop := (N.of_nat n < 2 ^ 32)%N.

Lemma combinations_c_binom : forall k n, k <= n -> fits_uint n ->
  (forall j, 1 <= j <= k -> (N.of_nat j * binom (n - k + j) j < W64)%N) ->
  combinations_c k n = binom n k.
Proof.
  intros k n L F H. unfold combinations_c.
  assert (Ea : Z.to_N ((Z.of_nat n - Z.of_nat k) mod W32) = N.of_nat (n - k)).
  { unfold fits_uint in F. rewrite Z.mod_small.
    - lia.
    - unfold W32. split; [lia|]. assert (Z.of_nat n < 2 ^ 32)%Z by lia. lia. }
  rewrite Ea.
  assert (E : comb_loop k 1%N (N.of_nat (n - k)) 1%N = binom n k).
  { assert (E0 := comb_loop_binom k 0 (n - k)).
    cbn [Nat.add N.of_nat N.add] in E0. rewrite ?Nat.add_0_r in E0. rewrite binom_n_0 in E0.
    replace (n - k + k) with n in E0 by lia. apply E0.
    intros t Ht. apply H. exact Ht. }
  rewrite E. assert (P := binom_pos n k L). lia.
Qed.

Lemma nowrap_mono : forall n k n' k', nowrap n k -> n' <= n -> k' <= k -> nowrap n' k'.
Proof. unfold nowrap. intros n k n' k' H Ln Lk a b Ha Hb Hab. apply H; lia. Qed.

Lemma combinations_c_nowrap : forall k n, nowrap n k -> fits_uint n -> k <= n ->
  combinations_c k n = binom n k.
Proof.
  intros k n NW F L. apply combinations_c_binom; auto.
  intros j Hj. apply NW; lia.
Qed.

(* the exact no-wrap condition of one call is k * C(n,k) < 2^64 (the last
   product); the whole-walk region contains every n <= 58 *)
Lemma nowrap_small : forall n k, n <= 58 -> nowrap n k.
Proof.
  intros n k Hn n' k' Ln Lk Lkn.
  assert (B := binom_le_pow2 n' k').
  assert (P : (2 ^ N.of_nat n' <= 2 ^ 58)%N) by (apply N.pow_le_mono_r; lia).
  assert (K : (N.of_nat k' <= 58)%N) by lia.
  unfold W64.
  apply N.le_lt_trans with (58 * 2 ^ 58)%N; [|reflexivity].
  apply N.mul_le_mono; lia.
Qed.

(* ---------------------------------------------------------------- subsets *)
Fixpoint incr_in (lo hi : N) (l : list N) : Prop :=
  match l with
  | [] => True
  | a :: r => (lo <= a < hi)%N /\ incr_in (a + 1)%N hi r
  end.

Fixpoint nrange (i : N) (k : nat) : list N :=
  match k with O => [] | S k' => i :: nrange (i + 1)%N k' end.

Lemma incr_in_weaken : forall l lo lo' hi, (lo' <= lo)%N -> incr_in lo hi l -> incr_in lo' hi l.
Proof. intros [|a r] lo lo' hi H I; cbn in *; auto. destruct I as [[A B] C]. split; [lia|exact C]. Qed.

Lemma incr_in_hi : forall l lo hi hi', hi = hi' -> incr_in lo hi l -> incr_in lo hi' l.
Proof. intros; subst; auto. Qed.

Lemma subsets_length : forall nn kk i, N.of_nat (length (subsets nn kk i)) = binom nn kk.
Proof.
  induction nn as [|nn IH]; intros [|kk] i; try reflexivity.
  cbn [subsets]. rewrite app_length, map_length, binom_S_S, <- (IH kk (i + 1)%N), <- (IH (S kk) (i + 1)%N). lia.
Qed.

Lemma subsets_sound : forall nn kk i l, In l (subsets nn kk i) ->
  length l = kk /\ incr_in i (i + N.of_nat nn)%N l.
Proof.
  induction nn as [|nn IH]; intros [|kk] i l H; cbn [subsets] in H.
  - destruct H as [<-|[]]. split; [reflexivity|exact I].
  - destruct H.
  - destruct H as [<-|[]]. split; [reflexivity|exact I].
  - apply in_app_or in H. destruct H as [H|H].
    + apply in_map_iff in H. destruct H as [r [<- Hr]].
      destruct (IH kk (i + 1)%N r Hr) as [L Inc]. split; [cbn; lia|].
      cbn [incr_in]. split; [lia|]. eapply incr_in_hi; [|exact Inc]. lia.
    + destruct (IH (S kk) (i + 1)%N l H) as [L Inc]. split; [exact L|].
      eapply incr_in_weaken with (lo := (i + 1)%N); [lia|].
      eapply incr_in_hi; [|exact Inc]. lia.
Qed.

Lemma subsets_complete : forall nn kk i l, length l = kk -> incr_in i (i + N.of_nat nn)%N l ->
  In l (subsets nn kk i).
Proof.
  induction nn as [|nn IH]; intros [|kk] i l L Inc.
  - destruct l; [left; reflexivity|discriminate].
  - destruct l as [|a r]; [discriminate|]. cbn in Inc. lia.
  - destruct l; [left; reflexivity|discriminate].
  - destruct l as [|a r]; [discriminate|]. cbn [incr_in] in Inc. destruct Inc as [[A B] C].
    cbn [subsets]. apply in_or_app.
    destruct (N.eq_dec a i) as [E|E].
    + left. subst a. apply in_map. apply IH; [cbn in L; lia|].
      eapply incr_in_hi; [|exact C]. lia.
    + right. apply IH; [exact L|]. cbn [incr_in]. split; [lia|].
      eapply incr_in_hi; [|exact C]. lia.
Qed.

Lemma nodup_app {A} : forall (a b : list A), NoDup a -> NoDup b ->
  (forall x, In x a -> ~ In x b) -> NoDup (a ++ b).
Proof.
  induction a as [|x a IH]; intros b Na Nb D; [exact Nb|].
  inversion Na as [|x' a' Hx Na']; subst. cbn. constructor.
  - intros H. apply in_app_or in H. destruct H as [H|H]; [auto|]. apply (D x); [left; reflexivity|exact H].
  - apply IH; auto. intros y Hy. apply D. right. exact Hy.
Qed.

Lemma nodup_map_cons {A} (i : A) : forall l : list (list A), NoDup l -> NoDup (map (cons i) l).
Proof.
  induction l as [|x l IH]; intros N; [constructor|].
  inversion N as [|x' l' Hx Nl]; subst. cbn. constructor; auto.
  intros H. apply in_map_iff in H. destruct H as [y [E Hy]]. injection E as ->. auto.
Qed.

Lemma subsets_nodup : forall nn kk i, NoDup (subsets nn kk i).
Proof.
  induction nn as [|nn IH]; intros [|kk] i; cbn [subsets].
  - constructor; [intros []|constructor].
  - constructor.
  - constructor; [intros []|constructor].
  - apply nodup_app; [apply nodup_map_cons, IH|apply IH|].
    intros x Hx Hx2. apply in_map_iff in Hx. destruct Hx as [r [<- Hr]].
    apply subsets_sound in Hx2. destruct Hx2 as [_ Inc]. cbn in Inc. lia.
Qed.

Lemma subsets_first : forall nn kk i, kk <= nn -> nth 0 (subsets nn kk i) [] = nrange i kk.
Proof.
  induction nn as [|nn IH]; intros [|kk] i L; try reflexivity; try lia.
  cbn [subsets nrange].
  assert (Len : 0 < length (subsets nn kk (i + 1)%N)).
  { assert (P := binom_pos nn kk ltac:(lia)). rewrite <- (subsets_length nn kk (i + 1)%N) in P. lia. }
  rewrite app_nth1 by (rewrite map_length; exact Len).
  rewrite (nth_indep _ [] (i :: []) ) by (rewrite map_length; exact Len).
  rewrite (map_nth (cons i)). rewrite IH by lia. reflexivity.
Qed.

(* ---------------------------------------------------------------- the walk *)
Lemma comb_walk_nth : forall nn kk m i, nowrap nn kk -> fits_uint nn ->
  (m < binom nn kk)%N ->
  comb_walk nn kk m i = Some (nth (N.to_nat m) (subsets nn kk i) []).
Proof.
  induction nn as [|nn IH]; intros [|kk] m i NW F Hm.
  - cbn in *. replace m with 0%N by lia. reflexivity.
  - cbn in Hm. lia.
  - rewrite binom_n_0 in Hm. replace m with 0%N by lia. reflexivity.
  - assert (Lk : S kk <= S nn) by (apply binom_pos_inv; lia).
    assert (F' : fits_uint nn) by (unfold fits_uint in *; lia).
    cbn [comb_walk subsets].
    rewrite (combinations_c_nowrap kk nn) by (auto; try lia; eapply nowrap_mono; eauto).
    assert (LA := subsets_length nn kk (i + 1)%N).
    rewrite binom_S_S in Hm.
    destruct (N.ltb_spec m (binom nn kk)) as [Lt|Ge].
    + rewrite IH; auto; [|eapply nowrap_mono; eauto].
      cbn [option_map]. f_equal.
      rewrite app_nth1 by (rewrite map_length; lia).
      rewrite (nth_indep (map (cons i) (subsets nn kk (i + 1)%N)) [] (i :: [])) by (rewrite map_length; lia).
      rewrite (map_nth (cons i)). reflexivity.
    + rewrite IH; auto; [|eapply nowrap_mono; eauto|lia].
      f_equal. rewrite app_nth2 by (rewrite map_length; lia).
      rewrite map_length. f_equal. lia.
Qed.

(* ---------------------------------------------------------------- statements *)
Lemma comb_spec : forall k n magic, nowrap n k -> fits_uint n -> k <= n ->
  fff_combination k n magic
  = Some (nth (N.to_nat (magic mod binom n k)) (subsets n k 0%N) []).
Proof.
  intros k n magic NW F L. unfold fff_combination.
  rewrite combinations_c_nowrap by auto.
  apply comb_walk_nth; auto.
  apply N.mod_lt. assert (P := binom_pos n k L). lia.
Qed.

Lemma comb_valid : forall k n magic, nowrap n k -> fits_uint n -> k <= n ->
  exists l, fff_combination k n magic = Some l /\ length l = k /\ incr_in 0%N (N.of_nat n) l.
Proof.
  intros k n magic NW F L. rewrite comb_spec by auto.
  eexists. split; [reflexivity|].
  apply (subsets_sound n k 0%N). apply nth_In.
  assert (P := binom_pos n k L).
  assert (M := N.mod_lt magic (binom n k) ltac:(lia)).
  assert (LA := subsets_length n k 0%N).
  set (b := binom n k) in *. set (r := (magic mod b)%N) in *. lia.
Qed.

Lemma comb_injective : forall k n m1 m2, nowrap n k -> fits_uint n -> k <= n ->
  (m1 < binom n k)%N -> (m2 < binom n k)%N ->
  fff_combination k n m1 = fff_combination k n m2 -> m1 = m2.
Proof.
  intros k n m1 m2 NW F L H1 H2 E. rewrite !comb_spec in E by auto.
  rewrite !N.mod_small in E by auto. injection E as E.
  assert (LA := subsets_length n k 0%N).
  assert (N.to_nat m1 = N.to_nat m2); [|lia].
  eapply (proj1 (NoDup_nth (subsets n k 0%N) [])); [apply subsets_nodup| | |exact E]; lia.
Qed.

Lemma comb_surjective : forall k n l, nowrap n k -> fits_uint n -> k <= n ->
  length l = k -> incr_in 0%N (N.of_nat n) l ->
  exists m, (m < binom n k)%N /\ fff_combination k n m = Some l.
Proof.
  intros k n l NW F L Ll Inc.
  assert (HIn : In l (subsets n k 0%N)) by (apply subsets_complete; auto).
  destruct (In_nth _ _ [] HIn) as [j [Hj Ej]].
  assert (LA := subsets_length n k 0%N).
  exists (N.of_nat j). split; [lia|].
  rewrite comb_spec by auto. rewrite N.mod_small by lia. rewrite Nat2N.id, Ej. reflexivity.
Qed.

Lemma comb_identity : forall k n, nowrap n k -> fits_uint n -> k <= n ->
  fff_combination k n 0%N = Some (nrange 0%N k).
Proof.
  intros k n NW F L. rewrite comb_spec by auto.
  assert (P := binom_pos n k L).
  rewrite N.mod_0_l by lia. cbn [N.to_nat]. rewrite subsets_first by exact L. reflexivity.
Qed.

Lemma comb_periodic : forall k n m q, nowrap n k -> fits_uint n -> k <= n ->
  fff_combination k n (m + q * binom n k)%N = fff_combination k n m.
Proof.
  intros k n m q NW F L. rewrite !comb_spec by auto.
  assert (P := binom_pos n k L). rewrite N.mod_add by lia. reflexivity.
Qed.

(* the modelled wrap is real: first (n, k) pair on the diagonal k = n/2 where
   the C result differs from the binomial coefficient *)
Lemma combinations_wrap_witness :
  combinations_c 31 62 = 465428353255261088%N /\ combinations_c 31 63 = 321255810029051666%N.
Proof. split; vm_compute; reflexivity. Qed.
