(* C17 - statistics (antisymmetry under x -> -x, base -> -base) and the
   p-value formulas of permutation_test.py. *)
From Coq Require Import List Bool ZArith NArith QArith Lqa Lia.
From NV.C17 Require Import Model.
Import ListNotations.
Local Open Scope Q_scope.

Lemma qsum_opp : forall x, qsum (map Qopp x) == - qsum x.
Proof. induction x as [|v x IH]; cbn [map qsum fold_right]; [lra|]. fold (qsum (map Qopp x)). fold (qsum x). lra. Qed.

Lemma qlen_map : forall (f : Q -> Q) x, qlen (map f x) = qlen x.
Proof. intros. unfold qlen. rewrite map_length. reflexivity. Qed.

Lemma os_mean_flip : forall x base, x <> [] ->
  os_mean (map Qopp x) (- base) == - os_mean x base.
Proof.
  intros x base _. unfold os_mean. rewrite qlen_map, qsum_opp. unfold Qdiv. ring.
Qed.

Lemma qsign_swap : forall a b, qsign (a - b) == - qsign (b - a).
Proof.
  intros a b. unfold qsign.
  destruct (Qlt_le_dec 0 (a - b)); destruct (Qlt_le_dec 0 (b - a));
  destruct (Qlt_le_dec (a - b) 0); destruct (Qlt_le_dec (b - a) 0); lra.
Qed.

Lemma sign_counts_flip : forall x base,
  sign_counts (map Qopp x) (- base) = (snd (sign_counts x base), fst (sign_counts x base)).
Proof.
  induction x as [|v x IH]; intros base; [reflexivity|].
  cbn [map sign_counts]. rewrite IH.
  destruct (sign_counts x base) as [rp rm]. cbn [fst snd].
  destruct (Qlt_le_dec 0 (- v - - base)) as [A|A]; destruct (Qlt_le_dec 0 (v - base)) as [B|B];
  try (exfalso; lra).
  - destruct (Qlt_le_dec (v - base) 0) as [C|C]; [reflexivity|exfalso; lra].
  - destruct (Qlt_le_dec (- v - - base) 0) as [C|C]; [reflexivity|exfalso; lra].
  - destruct (Qlt_le_dec (- v - - base) 0) as [C|C]; destruct (Qlt_le_dec (v - base) 0) as [D|D];
    try (exfalso; lra); reflexivity.
Qed.

Lemma os_sign_stat_flip : forall x base,
  os_sign_stat (map Qopp x) (- base) == - os_sign_stat x base.
Proof.
  intros x base. unfold os_sign_stat. rewrite sign_counts_flip, qlen_map.
  destruct (sign_counts x base) as [rp rm]. cbn [fst snd]. unfold Qdiv. ring.
Qed.

(* ---------------------------------------------------------------- p-values *)
Lemma frac_bounds : forall k n : nat, (k <= n)%nat -> (0 < n)%nat ->
  0 <= inject_Z (Z.of_nat k) / inject_Z (Z.of_nat n) <= 1.
Proof.
  intros k n H Hn.
  assert (Pn : 0 < inject_Z (Z.of_nat n)) by (change 0 with (inject_Z 0); rewrite <- ?Zlt_Qlt; lia).
  assert (Pk : 0 <= inject_Z (Z.of_nat k)) by (change 0 with (inject_Z 0); rewrite <- Zle_Qle; lia).
  assert (Kn : inject_Z (Z.of_nat k) <= inject_Z (Z.of_nat n)) by (rewrite <- Zle_Qle; lia).
  split.
  - apply Qle_shift_div_l; [exact Pn|lra].
  - apply Qle_shift_div_r; [exact Pn|lra].
Qed.

Lemma frac_pos : forall k n : nat, (0 < k)%nat -> (0 < n)%nat ->
  0 < inject_Z (Z.of_nat k) / inject_Z (Z.of_nat n).
Proof.
  intros k n Hk Hn.
  assert (Pn : 0 < inject_Z (Z.of_nat n)) by (change 0 with (inject_Z 0); rewrite <- ?Zlt_Qlt; lia).
  assert (Pk : 0 < inject_Z (Z.of_nat k)) by (change 0 with (inject_Z 0); rewrite <- ?Zlt_Qlt; lia).
  apply Qlt_shift_div_l; [exact Pn|lra].
Qed.

Lemma frac_lt1 : forall k n : nat, (k < n)%nat ->
  inject_Z (Z.of_nat k) / inject_Z (Z.of_nat n) < 1.
Proof.
  intros k n H.
  assert (Pn : 0 < inject_Z (Z.of_nat n)) by (change 0 with (inject_Z 0); rewrite <- ?Zlt_Qlt; lia).
  assert (Kn : inject_Z (Z.of_nat k) < inject_Z (Z.of_nat n)) by (change 0 with (inject_Z 0); rewrite <- ?Zlt_Qlt; lia).
  apply Qlt_shift_div_r; [exact Pn|lra].
Qed.

Lemma filter_len_le {A} (f : A -> bool) : forall l, (length (filter f l) <= length l)%nat.
Proof. induction l as [|a l IH]; cbn; [lia|]. destruct (f a); cbn; lia. Qed.

Lemma filter_len_pos {A} (f : A -> bool) : forall l,
  (0 < length (filter f l))%nat <-> exists a, In a l /\ f a = true.
Proof.
  induction l as [|a l IH]; cbn.
  - split; [lia|intros [a [[] _]]].
  - destruct (f a) eqn:E; cbn.
    + split; [intros _; exists a; auto|lia].
    + rewrite IH. split; intros [b [Hb Fb]].
      * exists b; auto.
      * destruct Hb as [<-|Hb]; [congruence|exists b; auto].
Qed.

Lemma filter_len_lt {A} (f : A -> bool) : forall l a, In a l -> f a = false ->
  (length (filter f l) < length l)%nat.
Proof.
  induction l as [|b l IH]; intros a H F; [destruct H|]. destruct H as [<-|H]; cbn.
  - rewrite F. assert (L := filter_len_le f l). lia.
  - destruct (f b); cbn; [|assert (L := filter_len_le f l); lia].
    assert (L := IH a H F). lia.
Qed.

Lemma nonempty_len {A} : forall l : list A, l <> [] -> (0 < length l)%nat.
Proof. intros [|a l] H; [congruence|cbn; lia]. Qed.

Lemma p_calibrate_bounds : forall draws t, draws <> [] -> 0 <= p_calibrate draws t <= 1.
Proof.
  intros draws t H. unfold p_calibrate, qlen, count_ge.
  apply frac_bounds; [apply filter_len_le|apply nonempty_len; exact H].
Qed.

Lemma p_searchsorted_bounds : forall draws t, draws <> [] -> 0 <= p_searchsorted draws t <= 1.
Proof.
  intros draws t H. unfold p_searchsorted, qlen, count_lt.
  assert (B := frac_bounds _ _ (filter_len_le (fun d => if Qlt_le_dec d t then true else false) draws)
                           (nonempty_len _ H)).
  lra.
Qed.

Lemma p_calibrate_pos_iff : forall draws t, draws <> [] ->
  (0 < p_calibrate draws t <-> exists d, In d draws /\ t <= d).
Proof.
  intros draws t H. unfold p_calibrate, qlen, count_ge.
  set (f := fun d : Q => if Qlt_le_dec d t then false else true).
  assert (Ln := nonempty_len _ H).
  split.
  - intros P.
    assert (K : (0 < length (filter f draws))%nat).
    { destruct (length (filter f draws)) eqn:E; [|lia]. exfalso.
      unfold Qdiv in P. assert (Z0 : inject_Z (Z.of_nat 0) == 0) by reflexivity. rewrite Z0 in P. lra. }
    apply filter_len_pos in K. destruct K as [d [Hd Fd]]. exists d. split; [exact Hd|].
    unfold f in Fd. destruct (Qlt_le_dec d t); [discriminate|assumption].
  - intros [d [Hd Le]]. apply frac_pos; [|exact Ln].
    apply filter_len_pos. exists d. split; [exact Hd|].
    unfold f. destruct (Qlt_le_dec d t); [exfalso; lra|reflexivity].
Qed.

Lemma p_pos_if_identity : forall draws t, In t draws ->
  0 < p_calibrate draws t /\ 0 < p_searchsorted draws t.
Proof.
  intros draws t H.
  assert (NE : draws <> []) by (intros ->; destruct H).
  split.
  - apply p_calibrate_pos_iff; [exact NE|]. exists t. split; [exact H|lra].
  - unfold p_searchsorted, qlen, count_lt.
    set (f := fun d : Q => if Qlt_le_dec d t then true else false).
    assert (L : (length (filter f draws) < length draws)%nat).
    { apply (filter_len_lt f draws t H). unfold f. destruct (Qlt_le_dec t t); [exfalso; lra|reflexivity]. }
    assert (B := frac_lt1 _ _ L). lra.
Qed.

(* ================================================================ Student *)
Lemma qlen_cons : forall v x, qlen (v :: x) == qlen x + 1.
Proof.
  intros v x. unfold qlen. cbn [length]. rewrite Nat2Z.inj_succ. unfold Z.succ.
  rewrite inject_Z_plus. reflexivity.
Qed.

Lemma qlen_pos : forall x, x <> [] -> 0 < qlen x.
Proof.
  intros x H. unfold qlen. change 0 with (inject_Z 0). rewrite <- Zlt_Qlt.
  assert (L := nonempty_len x H). lia.
Qed.

(* Koenig: sum (v-c)^2 = sum v^2 - 2 c sum v + n c^2 *)
Lemma qsum_sqdev : forall x c,
  qsum (map (fun v => (v - c) * (v - c)) x)
  == qsum (map (fun v => v * v) x) - 2 * c * qsum x + qlen x * (c * c).
Proof.
  induction x as [|v x IH]; intros c.
  - unfold qlen. cbn. ring.
  - cbn [map qsum fold_right].
    fold (qsum (map (fun v => (v - c) * (v - c)) x)). fold (qsum (map (fun v => v * v) x)). fold (qsum x).
    rewrite IH, qlen_cons. ring.
Qed.

(* fff_vector_ssd(x, &m, 0) = sum of squared deviations from the mean *)
Lemma vec_ssd_def : forall x, x <> [] ->
  vec_ssd x == qsum (map (fun v => (v - qsum x / qlen x) * (v - qsum x / qlen x)) x).
Proof.
  intros x H. rewrite qsum_sqdev. unfold vec_ssd.
  assert (P := qlen_pos x H). field. lra.
Qed.

Definition xeq (a b : xval) : Prop :=
  match a, b with
  | Fin p, Fin q => p == q
  | PosInf, PosInf => True
  | NegInf, NegInf => True
  | _, _ => False
  end.

Definition student_core (aux std : Q) : xval :=
  if Qeq_bool (qsign aux) 0 then Fin 0
  else if Qeq_bool std 0 then (if Qlt_le_dec 0 aux then PosInf else NegInf)
  else Fin (aux / std).

Lemma qsign_opp : forall a b, a == - b -> qsign a == - qsign b.
Proof.
  intros a b H. unfold qsign.
  destruct (Qlt_le_dec 0 a); destruct (Qlt_le_dec 0 b);
  destruct (Qlt_le_dec a 0); destruct (Qlt_le_dec b 0); lra.
Qed.

Lemma qsign_zero_iff : forall a, qsign a == 0 <-> a == 0.
Proof.
  intros a. unfold qsign. destruct (Qlt_le_dec 0 a); destruct (Qlt_le_dec a 0); split; intros; lra.
Qed.

Lemma student_core_flip : forall aux std aux' std', aux' == - aux -> std' == std ->
  xeq (student_core aux' std') (xopp (student_core aux std)).
Proof.
  intros aux std aux' std' Ha Hs. unfold student_core.
  assert (Sg := qsign_opp aux' aux Ha).
  destruct (Qeq_bool (qsign aux') 0) eqn:E1; destruct (Qeq_bool (qsign aux) 0) eqn:E2.
  - cbn. lra.
  - apply Qeq_bool_eq in E1. apply Qeq_bool_neq in E2. exfalso. apply E2. lra.
  - apply Qeq_bool_eq in E2. apply Qeq_bool_neq in E1. exfalso. apply E1. lra.
  - apply Qeq_bool_neq in E1. apply Qeq_bool_neq in E2.
    assert (N1 : ~ aux' == 0) by (intros Z; apply E1; apply qsign_zero_iff; exact Z).
    destruct (Qeq_bool std' 0) eqn:E3; destruct (Qeq_bool std 0) eqn:E4.
    + destruct (Qlt_le_dec 0 aux'); destruct (Qlt_le_dec 0 aux); cbn; auto; lra.
    + apply Qeq_bool_eq in E3. apply Qeq_bool_neq in E4. exfalso. apply E4. lra.
    + apply Qeq_bool_eq in E4. apply Qeq_bool_neq in E3. exfalso. apply E3. lra.
    + cbn. unfold Qdiv. rewrite Ha, Hs. ring.
Qed.

Lemma qsum_sq_opp : forall x, qsum (map (fun v => v * v) (map Qopp x)) == qsum (map (fun v => v * v) x).
Proof.
  induction x as [|v x IH]; [reflexivity|]. cbn [map qsum fold_right].
  fold (qsum (map (fun v => v * v) (map Qopp x))). fold (qsum (map (fun v => v * v) x)). rewrite IH. ring.
Qed.

Lemma vec_ssd_opp : forall x, vec_ssd (map Qopp x) == vec_ssd x.
Proof.
  intros x. unfold vec_ssd. rewrite qlen_map, qsum_sq_opp, qsum_opp. unfold Qdiv. ring.
Qed.

Section Student.
Variable sqrtq : Q -> Q.
Hypothesis sqrt_proper : forall a b, a == b -> sqrtq a == sqrtq b.

Lemma os_student_core : forall x base,
  os_student sqrtq x base
  = student_core (sqrtq (qlen x - 1) * (qsum x / qlen x - base)) (sqrtq (vec_ssd x / qlen x)).
Proof. reflexivity. Qed.

(* the definition, with the library's normalisation sqrt(n-1) (m-base) / sqrt(ssd/n),
   ssd = sum of squared deviations from the sample mean *)
Lemma os_student_def : forall x base, x <> [] ->
  let m := qsum x / qlen x in
  let ssd := qsum (map (fun v => (v - m) * (v - m)) x) in
  let aux := sqrtq (qlen x - 1) * (m - base) in
  let std := sqrtq (ssd / qlen x) in
  ~ aux == 0 -> ~ std == 0 -> xeq (os_student sqrtq x base) (Fin (aux / std)).
Proof.
  intros x base H m ssd aux std Na Ns. rewrite os_student_core. fold m. fold aux.
  assert (Es : sqrtq (vec_ssd x / qlen x) == std).
  { unfold std. apply sqrt_proper. rewrite (vec_ssd_def x H). reflexivity. }
  unfold student_core.
  destruct (Qeq_bool (qsign aux) 0) eqn:E1.
  { apply Qeq_bool_eq in E1. exfalso. apply Na. apply qsign_zero_iff. exact E1. }
  destruct (Qeq_bool (sqrtq (vec_ssd x / qlen x)) 0) eqn:E2.
  { apply Qeq_bool_eq in E2. exfalso. apply Ns. rewrite <- Es. exact E2. }
  cbn. unfold Qdiv. rewrite Es. reflexivity.
Qed.

Lemma os_student_zero : forall x base,
  sqrtq (qlen x - 1) * (qsum x / qlen x - base) == 0 -> os_student sqrtq x base = Fin 0.
Proof.
  intros x base Z. rewrite os_student_core. unfold student_core.
  destruct (Qeq_bool (qsign (sqrtq (qlen x - 1) * (qsum x / qlen x - base))) 0) eqn:E; [reflexivity|].
  apply Qeq_bool_neq in E. exfalso. apply E. apply qsign_zero_iff. exact Z.
Qed.

Lemma os_student_flip : forall x base,
  xeq (os_student sqrtq (map Qopp x) (- base)) (xopp (os_student sqrtq x base)).
Proof.
  intros x base. rewrite !os_student_core. apply student_core_flip.
  - rewrite qlen_map, qsum_opp. unfold Qdiv. ring.
  - apply sqrt_proper. rewrite qlen_map, vec_ssd_opp. reflexivity.
Qed.
End Student.

(* ================================================================ Wilcoxon *)
From Coq Require Import Permutation Sorted.

Lemma ins_abs_perm : forall v l, Permutation (ins_abs v l) (v :: l).
Proof.
  induction l as [|w r IH]; cbn [ins_abs]; [apply Permutation_refl|].
  destruct (Qlt_le_dec (qabs' v) (qabs' w)); [apply Permutation_refl|].
  eapply Permutation_trans; [apply perm_skip, IH|apply perm_swap].
Qed.

Lemma sort_abs_perm : forall l, Permutation (sort_abs l) l.
Proof.
  induction l as [|v l IH]; [constructor|]. unfold sort_abs in *. cbn [fold_right].
  eapply Permutation_trans; [apply ins_abs_perm|]. constructor. exact IH.
Qed.

Definition abs_le (a b : Q) : Prop := qabs' a <= qabs' b.

Lemma ins_abs_hd : forall v l a, abs_le a v -> HdRel abs_le a l -> HdRel abs_le a (ins_abs v l).
Proof.
  intros v [|w r] a Hv Hl; cbn [ins_abs]; [constructor; exact Hv|].
  destruct (Qlt_le_dec (qabs' v) (qabs' w)); constructor; [exact Hv|]. inversion Hl; assumption.
Qed.

Lemma ins_abs_sorted : forall v l, Sorted abs_le l -> Sorted abs_le (ins_abs v l).
Proof.
  induction l as [|w r IH]; intros S; cbn [ins_abs]; [repeat constructor|].
  inversion S as [|w' r' Sr Hr]; subst.
  destruct (Qlt_le_dec (qabs' v) (qabs' w)) as [L|G].
  - constructor; [exact S|]. constructor. unfold abs_le. lra.
  - constructor; [apply IH; exact Sr|]. apply ins_abs_hd; [exact G|exact Hr].
Qed.

Lemma sort_abs_sorted : forall l, Sorted abs_le (sort_abs l).
Proof.
  induction l as [|v l IH]; [constructor|]. unfold sort_abs in *. cbn [fold_right].
  apply ins_abs_sorted. exact IH.
Qed.

Definition Ropp (a b : Q) : Prop := a == - b.

Lemma qabs_Ropp : forall a b, Ropp a b -> qabs' a == qabs' b.
Proof.
  intros a b H. unfold Ropp in H. unfold qabs'.
  destruct (Qlt_le_dec 0 a); destruct (Qlt_le_dec 0 b); lra.
Qed.

Lemma ins_abs_Ropp : forall v v' l l', Ropp v v' -> Forall2 Ropp l l' ->
  Forall2 Ropp (ins_abs v l) (ins_abs v' l').
Proof.
  intros v v' l l' Hv F. induction F as [|w w' r r' Hw F IH]; cbn [ins_abs].
  - constructor; [exact Hv|constructor].
  - assert (A := qabs_Ropp _ _ Hv). assert (B := qabs_Ropp _ _ Hw).
    destruct (Qlt_le_dec (qabs' v) (qabs' w)); destruct (Qlt_le_dec (qabs' v') (qabs' w')); try (exfalso; lra).
    + constructor; [exact Hv|]. constructor; assumption.
    + constructor; [exact Hw|exact IH].
Qed.

Lemma sort_abs_Ropp : forall l l', Forall2 Ropp l l' -> Forall2 Ropp (sort_abs l) (sort_abs l').
Proof.
  intros l l' F. induction F as [|v v' r r' Hv F IH]; [constructor|].
  unfold sort_abs in *. cbn [fold_right]. apply ins_abs_Ropp; assumption.
Qed.

Lemma rank_sum_Ropp : forall l l', Forall2 Ropp l l' -> forall k,
  rank_sign_sum k l == - rank_sign_sum k l'.
Proof.
  intros l l' F. induction F as [|v v' r r' Hv F IH]; intros k; cbn [rank_sign_sum]; [lra|].
  rewrite (IH (k + 1)%Z), (qsign_opp v v' Hv). ring.
Qed.

Lemma resid_Ropp : forall x base,
  Forall2 Ropp (map (fun v => v - - base) (map Qopp x)) (map (fun v => v - base) x).
Proof.
  induction x as [|v x IH]; intros base; cbn [map]; constructor; [|apply IH].
  unfold Ropp. ring.
Qed.

(* the sorted residuals are a rearrangement of x - base in non-decreasing |.|:
   position i (1-based) is the rank of |x - base| used by the statistic *)
Lemma os_wilcoxon_uses_ranks : forall x base,
  let r := sort_abs (map (fun v => v - base) x) in
  Permutation r (map (fun v => v - base) x) /\ Sorted abs_le r /\
  os_wilcoxon x base = rank_sign_sum 1 r / (qlen x * qlen x).
Proof. intros x base r. split; [apply sort_abs_perm|split; [apply sort_abs_sorted|reflexivity]]. Qed.

Lemma os_wilcoxon_flip : forall x base,
  os_wilcoxon (map Qopp x) (- base) == - os_wilcoxon x base.
Proof.
  intros x base. unfold os_wilcoxon. rewrite qlen_map.
  rewrite (rank_sum_Ropp _ _ (sort_abs_Ropp _ _ (resid_Ropp x base)) 1%Z).
  unfold Qdiv. ring.
Qed.

(* two-sample Wilcoxon with equal group sizes changes sign under label swap *)
Lemma qsum_map_ext : forall (f g : Q -> Q) l, (forall a, f a == g a) -> qsum (map f l) == qsum (map g l).
Proof.
  intros f g l H. induction l as [|a l IH]; [reflexivity|]. cbn [map qsum fold_right].
  fold (qsum (map f l)). fold (qsum (map g l)). rewrite IH, H. reflexivity.
Qed.

Lemma qsum_scale : forall (f : Q -> Q) c l, qsum (map (fun a => f a * c) l) == qsum (map f l) * c.
Proof.
  intros f c l. induction l as [|a l IH]; cbn [map qsum fold_right]; [ring|].
  fold (qsum (map (fun a => f a * c) l)). fold (qsum (map f l)). rewrite IH. ring.
Qed.

Lemma qsum_plus : forall (f g : Q -> Q) l, qsum (map (fun a => f a + g a) l) == qsum (map f l) + qsum (map g l).
Proof.
  intros f g l. induction l as [|a l IH]; cbn [map qsum fold_right]; [ring|].
  fold (qsum (map (fun a => f a + g a) l)). fold (qsum (map f l)). fold (qsum (map g l)). rewrite IH. ring.
Qed.

Lemma qsum_const0 : forall (l : list Q), qsum (map (fun _ => 0) l) == 0.
Proof. induction l as [|a l IH]; cbn [map qsum fold_right]; [reflexivity|]. fold (qsum (map (fun _ : Q => 0) l)). rewrite IH. ring. Qed.

(* double sum exchange: sum_a sum_b h a b = sum_b sum_a h a b *)
Lemma qsum_exchange : forall (h : Q -> Q -> Q) l1 l2,
  qsum (map (fun a => qsum (map (fun b => h a b) l2)) l1)
  == qsum (map (fun b => qsum (map (fun a => h a b) l1)) l2).
Proof.
  intros h l1. induction l1 as [|a l1 IH]; intros l2.
  - cbn [map qsum fold_right]. rewrite qsum_const0. reflexivity.
  - cbn [map qsum fold_right].
    fold (qsum (map (fun a0 => qsum (map (fun b => h a0 b) l2)) l1)).
    rewrite IH. rewrite <- qsum_plus. apply qsum_map_ext. intros b. reflexivity.
Qed.

Lemma ts_wilcoxon_swap : forall x1 x2, qlen x1 == qlen x2 ->
  ts_wilcoxon x2 x1 == - ts_wilcoxon x1 x2.
Proof.
  intros x1 x2 L. unfold ts_wilcoxon. unfold Qdiv.
  rewrite (qsum_scale (fun a => qsum (map (fun b => qsign (a - b)) x1)) (/ qlen x1) x2).
  rewrite (qsum_scale (fun a => qsum (map (fun b => qsign (a - b)) x2)) (/ qlen x2) x1).
  rewrite (qsum_exchange (fun a b => qsign (a - b)) x2 x1).
  rewrite (qsum_map_ext (fun b => qsum (map (fun a => qsign (a - b)) x2))
                        (fun b => qsum (map (fun a => qsign (b - a)) x2) * - (1)) x1).
  - rewrite qsum_scale, L. ring.
  - intros b. rewrite <- qsum_scale. apply qsum_map_ext. intros a. rewrite (qsign_swap a b). ring.
Qed.
