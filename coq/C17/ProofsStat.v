(* C17 - statistics (antisymmetry under x -> -x, base -> -base) and the
   p-value formulas of permutation_test.py. *)
From Coq Require Import List Bool ZArith NArith QArith Lqa Lia.
From NV.C17 Require Import Model.
Import ListNotations.
Local Open Scope Q_scope.

Lemma qsum_opp : forall x, qsum (map Qopp x) == - qsum x.
Proof. induction x as [|v x IH]; cbn [map qsum fold_right]; [lra|]. fold (qsum (map Qopp x)). fold (qsum x). lra. Qed.

Lemma qlen_map : forall (f : Q -> Q) x, qlen (map f x) = qlen x.
Proof. intros. unfold qlen. rewrite map_length. reflexivity. Qed.

Lemma os_mean_flip : forall x base, x <> [] ->
  os_mean (map Qopp x) (- base) == - os_mean x base.
Proof.
  intros x base _. unfold os_mean. rewrite qlen_map, qsum_opp. unfold Qdiv. ring.
Qed.

Lemma qsign_swap : forall a b, qsign (a - b) == - qsign (b - a).
Proof.
  intros a b. unfold qsign.
  destruct (Qlt_le_dec 0 (a - b)); destruct (Qlt_le_dec 0 (b - a));
  destruct (Qlt_le_dec (a - b) 0); destruct (Qlt_le_dec (b - a) 0); lra.
Qed.

Lemma sign_counts_flip : forall x base,
  sign_counts (map Qopp x) (- base) = (snd (sign_counts x base), fst (sign_counts x base)).
Proof.
  induction x as [|v x IH]; intros base; [reflexivity|].
  cbn [map sign_counts]. rewrite IH.
  destruct (sign_counts x base) as [rp rm]. cbn [fst snd].
  destruct (Qlt_le_dec 0 (- v - - base)) as [A|A]; destruct (Qlt_le_dec 0 (v - base)) as [B|B];
  try (exfalso; lra).
  - destruct (Qlt_le_dec (v - base) 0) as [C|C]; [reflexivity|exfalso; lra].
  - destruct (Qlt_le_dec (- v - - base) 0) as [C|C]; [reflexivity|exfalso; lra].
  - destruct (Qlt_le_dec (- v - - base) 0) as [C|C]; destruct (Qlt_le_dec (v - base) 0) as [D|D];
    try (exfalso; lra); reflexivity.
Qed.

Lemma os_sign_stat_flip : forall x base,
  os_sign_stat (map Qopp x) (- base) == - os_sign_stat x base.
Proof.
  intros x base. unfold os_sign_stat. rewrite sign_counts_flip, qlen_map.
  destruct (sign_counts x base) as [rp rm]. cbn [fst snd]. unfold Qdiv. ring.
Qed.

(* ---------------------------------------------------------------- p-values *)
Lemma frac_bounds : forall k n : nat, (k <= n)%nat -> (0 < n)%nat ->
  0 <= inject_Z (Z.of_nat k) / inject_Z (Z.of_nat n) <= 1.
Proof.
  intros k n H Hn.
  assert (Pn : 0 < inject_Z (Z.of_nat n)) by (change 0 with (inject_Z 0); rewrite <- ?Zlt_Qlt; lia).
  assert (Pk : 0 <= inject_Z (Z.of_nat k)) by (change 0 with (inject_Z 0); rewrite <- Zle_Qle; lia).
  assert (Kn : inject_Z (Z.of_nat k) <= inject_Z (Z.of_nat n)) by (rewrite <- Zle_Qle; lia).
  split.
  - apply Qle_shift_div_l; [exact Pn|lra].
  - apply Qle_shift_div_r; [exact Pn|lra].
Qed.

Lemma frac_pos : forall k n : nat, (0 < k)%nat -> (0 < n)%nat ->
  0 < inject_Z (Z.of_nat k) / inject_Z (Z.of_nat n).
Proof.
  intros k n Hk Hn.
  assert (Pn : 0 < inject_Z (Z.of_nat n)) by (change 0 with (inject_Z 0); rewrite <- ?Zlt_Qlt; lia).
  assert (Pk : 0 < inject_Z (Z.of_nat k)) by (change 0 with (inject_Z 0); rewrite <- ?Zlt_Qlt; lia).
  apply Qlt_shift_div_l; [exact Pn|lra].
Qed.

Lemma frac_lt1 : forall k n : nat, (k < n)%nat ->
  inject_Z (Z.of_nat k) / inject_Z (Z.of_nat n) < 1.
Proof.
  intros k n H.
  assert (Pn : 0 < inject_Z (Z.of_nat n)) by (change 0 with (inject_Z 0); rewrite <- ?Zlt_Qlt; lia).
  assert (Kn : inject_Z (Z.of_nat k) < inject_Z (Z.of_nat n)) by (change 0 with (inject_Z 0); rewrite <- ?Zlt_Qlt; lia).
  apply Qlt_shift_div_r; [exact Pn|lra].
Qed.

Lemma filter_len_le {A} (f : A -> bool) : forall l, (length (filter f l) <= length l)%nat.
Proof. induction l as [|a l IH]; cbn; [lia|]. destruct (f a); cbn; lia. Qed.

Lemma filter_len_pos {A} (f : A -> bool) : forall l,
  (0 < length (filter f l))%nat <-> exists a, In a l /\ f a = true.
Proof.
  induction l as [|a l IH]; cbn.
  - split; [lia|intros [a [[] _]]].
  - destruct (f a) eqn:E; cbn.
    + split; [intros _; exists a; auto|lia].
    + rewrite IH. split; intros [b [Hb Fb]].
      * exists b; auto.
      * destruct Hb as [<-|Hb]; [congruence|exists b; auto].
Qed.

Lemma filter_len_lt {A} (f : A -> bool) : forall l a, In a l -> f a = false ->
  (length (filter f l) < length l)%nat.
Proof.
  induction l as [|b l IH]; intros a H F; [destruct H|]. destruct H as [<-|H]; cbn.
  - rewrite F. assert (L := filter_len_le f l). lia.
  - destruct (f b); cbn; [|assert (L := filter_len_le f l); lia].
    assert (L := IH a H F). lia.
Qed.

Lemma nonempty_len {A} : forall l : list A, l <> [] -> (0 < length l)%nat.
Proof. intros [|a l] H; [congruence|cbn; lia]. Qed.

Lemma p_calibrate_bounds : forall draws t, draws <> [] -> 0 <= p_calibrate draws t <= 1.
Proof.
  intros draws t H. unfold p_calibrate, qlen, count_ge.
  apply frac_bounds; [apply filter_len_le|apply nonempty_len; exact H].
Qed.

Lemma p_searchsorted_bounds : forall draws t, draws <> [] -> 0 <= p_searchsorted draws t <= 1.
Proof.
  intros draws t H. unfold p_searchsorted, qlen, count_lt.
  assert (B := frac_bounds _ _ (filter_len_le (fun d => if Qlt_le_dec d t then true else false) draws)
                           (nonempty_len _ H)).
  lra.
Qed.

Lemma p_calibrate_pos_iff : forall draws t, draws <> [] ->
  (0 < p_calibrate draws t <-> exists d, In d draws /\ t <= d).
Proof.
  intros draws t H. unfold p_calibrate, qlen, count_ge.
  set (f := fun d : Q => if Qlt_le_dec d t then false else true).
  assert (Ln := nonempty_len _ H).
  split.
  - intros P.
    assert (K : (0 < length (filter f draws))%nat).
    { destruct (length (filter f draws)) eqn:E; [|lia]. exfalso.
      unfold Qdiv in P. assert (Z0 : inject_Z (Z.of_nat 0) == 0) by reflexivity. rewrite Z0 in P. lra. }
    apply filter_len_pos in K. destruct K as [d [Hd Fd]]. exists d. split; [exact Hd|].
    unfold f in Fd. destruct (Qlt_le_dec d t); [discriminate|assumption].
  - intros [d [Hd Le]]. apply frac_pos; [|exact Ln].
    apply filter_len_pos. exists d. split; [exact Hd|].
    unfold f. destruct (Qlt_le_dec d t); [exfalso; lra|reflexivity].
Qed.

Lemma p_pos_if_identity : forall draws t, In t draws ->
  0 < p_calibrate draws t /\ 0 < p_searchsorted draws t.
Proof.
  intros draws t H.
  assert (NE : draws <> []) by (intros ->; destruct H).
  split.
  - apply p_calibrate_pos_iff; [exact NE|]. exists t. split; [exact H|lra].
  - unfold p_searchsorted, qlen, count_lt.
    set (f := fun d : Q => if Qlt_le_dec d t then true else false).
    assert (L : (length (filter f draws) < length draws)%nat).
    { apply (filter_len_lt f draws t H). unfold f. destruct (Qlt_le_dec t t); [exfalso; lra|reflexivity]. }
    assert (B := frac_lt1 _ _ L). lra.
Qed.
