(* C17 - MixedEffectsModel: the fit is a function of (pinv_X, X, n_iter, Y, V1)
   only (history independence, idempotence, never an AttributeError), and one
   E step is the Gaussian posterior of the two-level model. *)
From Coq Require Import List Bool ZArith QArith Lqa Lia.
From NV.C17 Require Import Model ModelMfx ProofsStat.
Import ListNotations.
Local Open Scope Q_scope.

(* whatever the object held before - nothing, or the estimates of an earlier
   fit of any shape - fit gives the same result *)
Lemma fit_history_independent : forall P X n o o' Y V1,
  fit_method P X n o Y V1 = fit_method P X n o' Y V1.
Proof. intros. reflexivity. Qed.

Lemma fit_is_fresh_fit : forall P X n o Y V1,
  fit_method P X n o Y V1 = fit_method P X n fresh_obj Y V1.
Proof. intros. reflexivity. Qed.

Lemma one_step_some : forall P X Y V1 o, o_V2 o <> None -> o_fit o <> None ->
  exists o', one_step P X Y V1 o = Some o' /\ o_V2 o' <> None /\ o_fit o' <> None /\ o_beta o' <> None.
Proof.
  intros P X Y V1 o Hv Hf. unfold one_step.
  destruct (o_V2 o) as [v2|]; [|congruence]. destruct (o_fit o) as [f|]; [|congruence].
  eexists. split; [reflexivity|]. cbn. repeat split; discriminate.
Qed.

Lemma iter_steps_some : forall P X Y V1 n o, o_V2 o <> None -> o_fit o <> None -> o_beta o <> None ->
  exists o', iter_steps n (one_step P X Y V1) (Some o) = Some o'
             /\ o_V2 o' <> None /\ o_fit o' <> None /\ o_beta o' <> None.
Proof.
  induction n as [|n IH]; intros o Hv Hf Hb.
  - exists o. cbn. auto.
  - cbn [iter_steps]. destruct (one_step_some P X Y V1 o Hv Hf) as [o1 [E [A [B C]]]].
    rewrite E. apply IH; assumption.
Qed.

(* fit never raises AttributeError and leaves all three estimates set *)
Lemma fit_total : forall P X n o Y V1,
  exists o', fit_method P X n o Y V1 = Some o'
             /\ o_V2 o' <> None /\ o_fit o' <> None /\ o_beta o' <> None.
Proof. intros. unfold fit_method. apply iter_steps_some; cbn; discriminate. Qed.

(* fitting again (same or any other sample) on the fitted object = fresh fit;
   in particular refitting the same sample is idempotent *)
Lemma fit_idempotent : forall P X n o Y V1 o1,
  fit_method P X n o Y V1 = Some o1 -> fit_method P X n o1 Y V1 = Some o1.
Proof. intros P X n o Y V1 o1 H. rewrite <- H. reflexivity. Qed.

Lemma fit_sequence : forall P X n o YA V1A YB V1B o1,
  fit_method P X n o YA V1A = Some o1 ->
  fit_method P X n o1 YB V1B = fit_method P X n fresh_obj YB V1B.
Proof. intros. reflexivity. Qed.

(* the number of EM steps is exactly n_iter, each one the same function *)
Lemma fit_unfold_S : forall P X n o Y V1,
  fit_method P X (S n) o Y V1
  = match fit_method P X n o Y V1 with Some s => one_step P X Y V1 s | None => None end.
Proof.
  intros. unfold fit_method.
  generalize (Some (set_V2 (set_fit (set_beta o (mv P Y)) (mv X (mv P Y)))
                    (Qred (qmean (map2 sqdiff Y (mv X (mv P Y))))))).
  induction n as [|n IH]; intros s; [reflexivity|].
  cbn [iter_steps]. rewrite <- IH. reflexivity.
Qed.

(* E step = posterior of the two-level Gaussian model y = f + e2 + e1,
   e2 ~ N(0, V2), e1 ~ N(0, V1): mean f + V2/(V1+V2) (y - f), variance 1/(1/V1 + 1/V2) *)
Lemma e_mean_is_shrinkage : forall v2 y v1 f, 0 < v2 + v1 ->
  e_mean v2 y v1 f == f + (v2 / (v2 + v1)) * (y - f).
Proof. intros. unfold e_mean. field. lra. Qed.

Lemma e_cvar_is_harmonic : forall v2 v1, 0 < v1 -> 0 < v2 ->
  e_cvar v2 v1 == 1 / (1 / v1 + 1 / v2).
Proof. intros. unfold e_cvar. field. repeat split; lra. Qed.

Lemma e_mean_between : forall v2 y v1 f, 0 <= v1 -> 0 <= v2 -> 0 < v2 + v1 -> f <= y ->
  f <= e_mean v2 y v1 f <= y.
Proof.
  intros v2 y v1 f H1 H2 H3 H4. rewrite e_mean_is_shrinkage by exact H3.
  assert (A : 0 <= v2 / (v2 + v1)) by (apply Qle_shift_div_l; lra).
  assert (B : v2 / (v2 + v1) <= 1) by (apply Qle_shift_div_r; lra).
  split; nra.
Qed.

(* with no first-level variance the E step returns the data, cvar = 0 *)
Lemma e_step_no_first_level : forall v2 y f, 0 < v2 -> e_mean v2 y 0 f == y /\ e_cvar v2 0 == 0.
Proof. intros. unfold e_mean, e_cvar. split; field; lra. Qed.

(* estimate_mean: the effect is the weighted mean with weights 1/sd^2 and is
   antisymmetric under negation of the data *)
Lemma dot_opp : forall a w, dot (map Qopp a) w == - dot a w.
Proof.
  induction a as [|x a IH]; intros [|y w]; cbn [map dot]; try lra. rewrite IH. ring.
Qed.

Lemma em_effect_flip : forall Y sd, em_effect (map Qopp Y) sd == - em_effect Y sd.
Proof. intros. unfold em_effect. rewrite dot_opp. unfold Qdiv. ring. Qed.

(* non-vacuity of history independence: the "warm start" variant of fit (skip the
   initialisation when V2 is already set) is NOT history independent *)
Definition fit_warm (P X : list (list Q)) (n_iter : nat) (o : mfx_obj) (Y V1 : list Q) : option mfx_obj :=
  match o_V2 o with
  | Some _ => iter_steps n_iter (one_step P X Y V1) (Some o)
  | None => fit_method P X n_iter o Y V1
  end.

Lemma warm_start_depends_on_history :
  let P := [[1#2; 1#2]] in let X := [[1]; [1]] in
  exists oA, fit_method P X 1 fresh_obj [4; 8] [1; 1] = Some oA /\
  Qeq_bool (fit_V2 (fit_warm P X 1 oA [0; 1] [1; 1])) (fit_V2 (fit_warm P X 1 fresh_obj [0; 1] [1; 1])) = false /\
  Qeq_bool (fit_V2 (fit_method P X 1 oA [0; 1] [1; 1])) (fit_V2 (fit_method P X 1 fresh_obj [0; 1] [1; 1])) = true.
Proof. cbv zeta. eexists. split; [vm_compute; reflexivity|split; vm_compute; reflexivity]. Qed.

(* ================================================================ Gaussian MFX of lib/fff *)
Lemma qsum_map2_plus : forall (a b : list Q),
  length a = length b ->
  qsum (map2 (fun x y => y + x * x) a b) == qsum b + qsum (map (fun x => x * x) a).
Proof.
  induction a as [|x a IH]; intros [|y b] L; try discriminate; cbn [map2 map qsum fold_right]; [lra|].
  fold (qsum (map2 (fun x y => y + x * x) a b)). fold (qsum b). fold (qsum (map (fun x => x * x) a)).
  rewrite IH by (cbn in L; lia). ring.
Qed.

Lemma map2_length {A B C} (f : A -> B -> C) : forall a b, length a = length b -> length (map2 f a b) = length a.
Proof. induction a as [|x a IH]; intros [|y b] L; try discriminate; cbn; auto. Qed.

Lemma qmean_sqdev : forall z, z <> [] ->
  qsum (map (fun v => sqdiff v (qsum z / qlen z)) z) / qlen z
  == qsum (map (fun v => v * v) z) / qlen z - (qsum z / qlen z) * (qsum z / qlen z).
Proof.
  intros z H. unfold sqdiff. rewrite qsum_sqdev. assert (P := qlen_pos z H). field. lra.
Qed.

(* One unconstrained C EM step is the MixedEffectsModel EM step for the one-sample design
   (X = ones, pinv_X = 1/n): posterior means Z, beta = mean Z, V2 = mean (Z - beta)^2 + mean cvar *)
Lemma gmfx_step_is_mixed_effects_step : forall x var m0 v0, x <> [] -> length x = length var ->
  let Z := map2 (gm_mi m0 v0) x var in
  let cvar := map (gm_vi v0) var in
  let st := gmfx_step false x var (m0, v0) in
  fst st == qmean Z /\
  snd st == qmean (map (fun z => sqdiff z (qmean Z)) Z) + qmean cvar.
Proof.
  intros x var m0 v0 Hx L Z cvar st.
  assert (LZ : length Z = length x) by (apply map2_length; exact L).
  assert (QZ : qlen Z = qlen x) by (unfold qlen; rewrite LZ; reflexivity).
  assert (Qc : qlen cvar = qlen x) by (unfold qlen, cvar; rewrite map_length, L; reflexivity).
  assert (NZ : Z <> []) by (intros E; rewrite E in LZ; destruct x; [congruence|discriminate]).
  unfold st, gmfx_step. cbn [fst snd]. fold Z. fold cvar.
  rewrite !Qred_correct. unfold qmean. rewrite QZ, Qc. split; [reflexivity|].
  rewrite qsum_map2_plus by (unfold cvar; rewrite map_length, LZ; exact L).
  assert (K := qmean_sqdev Z NZ). rewrite QZ in K. rewrite qlen_map, QZ. rewrite K.
  assert (P := qlen_pos x Hx). field. lra.
Qed.

Lemma gm_mi_is_e_mean : forall m0 v0 xi si, gm_mi m0 v0 xi si == e_mean v0 xi si m0.
Proof. intros. unfold gm_mi, e_mean. assert (si + v0 == v0 + si) by ring. rewrite H. ring. Qed.

(* the constrained fit keeps the mean at the value passed in (the baseline) *)
Lemma gmfx_constrained_mean_is_input : forall n m_in x var, fst (gmfx_em n true m_in x var) = m_in.
Proof.
  intros n m_in x var. unfold gmfx_em.
  assert (G : forall k st, fst (gmfx_iter k true x var st) = fst st).
  { induction k as [|k IH]; intros [m v]; cbn [gmfx_iter]; [reflexivity|].
    rewrite IH. reflexivity. }
  rewrite G. reflexivity.
Qed.

(* the baseline is honoured: shifting data and baseline by the same amount leaves the
   constrained variance update and its initial value unchanged *)
Lemma gm_mi_shift : forall m0 v0 xi si c, ~ si + v0 == 0 ->
  gm_mi (m0 + c) v0 (xi + c) si == gm_mi m0 v0 xi si + c.
Proof. intros. unfold gm_mi. field. exact H. Qed.

Lemma gm_cterm_shift : forall m0 v0 xi si c, ~ si + v0 == 0 ->
  gm_cterm (m0 + c) v0 (xi + c) si == gm_cterm m0 v0 xi si.
Proof. intros. unfold gm_cterm. rewrite gm_mi_shift by exact H. ring. Qed.

Lemma csum_shift : forall m0 v0 c x var, Forall (fun s => ~ s + v0 == 0) var ->
  qsum (map2 (gm_cterm (m0 + c) v0) (map (fun a => a + c) x) var) == qsum (map2 (gm_cterm m0 v0) x var).
Proof.
  intros m0 v0 c. induction x as [|a x IH]; intros [|s var] F; cbn [map map2 qsum fold_right]; try reflexivity.
  inversion F as [|s' var' Hs F']; subst.
  fold (qsum (map2 (gm_cterm (m0 + c) v0) (map (fun a => a + c) x) var)). fold (qsum (map2 (gm_cterm m0 v0) x var)).
  rewrite IH by exact F'. rewrite gm_cterm_shift by exact Hs. reflexivity.
Qed.

Lemma gmfx_constrained_step_shift : forall m0 v0 c x var, Forall (fun s => ~ s + v0 == 0) var ->
  snd (gmfx_step true (map (fun a => a + c) x) var (m0 + c, v0)) == snd (gmfx_step true x var (m0, v0)).
Proof.
  intros. unfold gmfx_step. cbn [snd]. rewrite !Qred_correct, qlen_map, csum_shift by assumption. reflexivity.
Qed.

Lemma qsum_shift : forall x c, qsum (map (fun a => a + c) x) == qsum x + qlen x * c.
Proof.
  induction x as [|a x IH]; intros c; [unfold qlen; cbn; ring|].
  cbn [map qsum fold_right]. fold (qsum (map (fun a => a + c) x)). fold (qsum x). rewrite IH, qlen_cons. ring.
Qed.

Lemma ssd_fixed_is_sqdev : forall x m, x <> [] -> ssd_fixed x m == qsum (map (fun v => (v - m) * (v - m)) x).
Proof.
  intros x m H. rewrite qsum_sqdev. unfold ssd_fixed. assert (P := qlen_pos x H). field. lra.
Qed.

Lemma qsum_sqdev_shift : forall x m c,
  qsum (map (fun v => (v - (m + c)) * (v - (m + c))) (map (fun a => a + c) x)) == qsum (map (fun v => (v - m) * (v - m)) x).
Proof.
  induction x as [|a x IH]; intros m c; [reflexivity|]. cbn [map qsum fold_right].
  fold (qsum (map (fun v => (v - (m + c)) * (v - (m + c))) (map (fun a => a + c) x))).
  fold (qsum (map (fun v => (v - m) * (v - m)) x)). rewrite IH. ring.
Qed.

Lemma gmfx_constrained_init_shift : forall x m c, x <> [] ->
  snd (gmfx_init true (m + c) (map (fun a => a + c) x)) == snd (gmfx_init true m x).
Proof.
  intros x m c H. unfold gmfx_init. cbn [snd]. rewrite !Qred_correct, qlen_map.
  assert (H' : map (fun a => a + c) x <> []) by (destruct x; [congruence|discriminate]).
  rewrite (ssd_fixed_is_sqdev _ _ H'), (ssd_fixed_is_sqdev _ _ H), qsum_sqdev_shift. reflexivity.
Qed.

(* ================================================================ fff_glm_twolevel EM *)
(* with finite, non-degenerate variances the E step is the same Gaussian posterior as
   MixedEffectsModel's (e_mean / e_cvar), written with precisions *)
Lemma ens_pos_id : forall a, TINY < a -> ens_pos a = a.
Proof. intros a H. unfold ens_pos. destruct (Qlt_le_dec TINY a); [reflexivity|lra]. Qed.

Lemma tiny_pos : 0 < TINY.
Proof. reflexivity. Qed.

Lemma glm2_estep_is_posterior : forall s2 yi vyi fi, TINY < s2 -> TINY < vyi ->
  glm2_z (glm2_w2 (Some s2)) yi vyi fi == e_mean s2 yi vyi fi /\
  glm2_vz (glm2_w2 (Some s2)) vyi == e_cvar s2 vyi.
Proof.
  intros s2 yi vyi fi H1 H2. assert (T := tiny_pos).
  unfold glm2_z, glm2_vz, glm2_w2, e_mean, e_cvar. rewrite !ens_pos_id by assumption.
  split; field; repeat split; lra.
Qed.

(* first iteration (s2 = +inf): the posterior is the observation itself *)
Lemma glm2_first_estep : forall yi vyi fi, TINY < vyi ->
  glm2_z (glm2_w2 None) yi vyi fi == yi /\ glm2_vz (glm2_w2 None) vyi == vyi.
Proof.
  intros yi vyi fi H. assert (T := tiny_pos).
  unfold glm2_z, glm2_vz, glm2_w2. rewrite !ens_pos_id by assumption. split; field; lra.
Qed.

(* the variance update uses the sum of squares of the residuals about 0 (not about their mean) *)
Lemma glm2_s2_is_uncentred : forall r, r <> [] -> ssd_fixed r 0 == qsum (map (fun v => v * v) r).
Proof.
  intros r H. rewrite (ssd_fixed_is_sqdev r 0 H). apply qsum_map_ext. intros a. ring.
Qed.

Lemma glm2_centred_would_differ :
  let r := [1; 2] in ~ vec_ssd r == ssd_fixed r 0.
Proof. cbv zeta. vm_compute. discriminate. Qed.

(* ================================================================ Laplace: the clamp *)
Lemma laplace_ratio_ge_1 : forall x base, 0 < sad x (lib_median x) / qlen x -> 1 <= laplace_ratio x base.
Proof.
  intros x base H. unfold laplace_ratio.
  set (s := sad x (lib_median x) / qlen x) in *. set (s0 := sad x base / qlen x).
  apply Qle_shift_div_l; [exact H|]. unfold qmax'. destruct (Qlt_le_dec s s0); lra.
Qed.

Section Laplace.
Variables sqrtq lnq : Q -> Q.
Hypothesis ln_nonneg : forall a, 1 <= a -> 0 <= lnq a.
(* hence the argument of sqrt is never negative (no NaN), whatever the baseline *)
Lemma laplace_sqrt_arg_nonneg : forall x base, 0 < sad x (lib_median x) / qlen x ->
  0 <= 2 * qlen x * lnq (laplace_ratio x base).
Proof.
  intros x base H. assert (L := ln_nonneg _ (laplace_ratio_ge_1 x base H)).
  assert (N : 0 <= qlen x). { unfold qlen. change 0 with (inject_Z 0). rewrite <- Zle_Qle. lia. }
  nra.
Qed.
End Laplace.
