(* C17 - fff_onesample_permute_signs (floor on doubles, fix 6262c59):
   for EVERY integer magic the flip flags are its binary digits (two's
   complement digits when negative), hence a bijection [0,2^n) <-> sign
   patterns for every n; all of [0,2^n) are exactly representable doubles
   for n <= 53.  For an arbitrary rational magic the first flag says whether
   magic/2 is an integer and the rest are the digits of floor(magic/2). *)
From Coq Require Import List Bool ZArith NArith QArith Qround Lqa Lia.
From NV.C17 Require Import Model.
Import ListNotations.
Close Scope Q_scope.
Local Open Scope Z_scope.

Lemma half_Q : forall z, (inject_Z z / 2)%Q = (Qmake (z * 1) 2).
Proof. reflexivity. Qed.

Lemma floor_half : forall z, Qfloor (inject_Z z / 2) = z / 2.
Proof. intros z. rewrite half_Q. unfold Qfloor. rewrite Z.mul_1_r. reflexivity. Qed.

Lemma frac_half : forall z,
  (if Qlt_le_dec 0 (inject_Z z / 2 - inject_Z (z / 2)) then true else false) = Z.odd z.
Proof.
  intros z. rewrite half_Q.
  assert (D := Z.div2_odd z). rewrite Z.div2_div in D.
  destruct (Qlt_le_dec 0 ((Qmake (z * 1) 2) - inject_Z (z / 2))) as [P|NP].
  - unfold Qlt, Qminus, Qplus, Qopp, inject_Z in P. cbn [Qnum Qden] in P.
    destruct (Z.odd z); [reflexivity|]. cbn [Z.b2z] in D.
    generalize dependent (z / 2). intros q D P. exfalso. lia.
  - unfold Qle, Qminus, Qplus, Qopp, inject_Z in NP. cbn [Qnum Qden] in NP.
    destruct (Z.odd z); [|reflexivity]. cbn [Z.b2z] in D.
    generalize dependent (z / 2). intros q D NP. exfalso. lia.
Qed.

Lemma bit_flags_S : forall n z, bit_flags (S n) z = Z.odd z :: bit_flags n (z / 2).
Proof.
  intros n z. unfold bit_flags. cbn [seq map]. f_equal.
  rewrite <- seq_shift, map_map. apply map_ext. intros i.
  rewrite Z.div2_bits by lia. f_equal. lia.
Qed.

(* every integer magic, of either sign and any size *)
Lemma sign_flags_bits : forall n z, sign_flags n (inject_Z z) = bit_flags n z.
Proof.
  induction n as [|n IH]; intros z; [reflexivity|].
  rewrite bit_flags_S. cbn [sign_flags].
  rewrite floor_half, frac_half. f_equal. apply IH.
Qed.

(* arbitrary rational magic: one step, then integer digits *)
Lemma sign_flags_any : forall n (m : Q),
  sign_flags (S n) m
  = (if Qeq_bool (m / 2) (inject_Z (Qfloor (m / 2))) then false else true)
      :: bit_flags n (Qfloor (m / 2)).
Proof.
  intros n m. cbn [sign_flags]. rewrite sign_flags_bits. f_equal.
  assert (L := Qfloor_le (m / 2)%Q).
  destruct (Qlt_le_dec 0 (m / 2 - inject_Z (Qfloor (m / 2)))) as [P|NP].
  - destruct (Qeq_bool (m / 2) (inject_Z (Qfloor (m / 2)))) eqn:E; [|reflexivity].
    apply Qeq_bool_eq in E. exfalso. lra.
  - destruct (Qeq_bool (m / 2) (inject_Z (Qfloor (m / 2)))) eqn:E; [reflexivity|].
    apply Qeq_bool_neq in E. exfalso. apply E. lra.
Qed.

Lemma bit_flags_injective : forall n z1 z2, 0 <= z1 < 2 ^ Z.of_nat n -> 0 <= z2 < 2 ^ Z.of_nat n ->
  bit_flags n z1 = bit_flags n z2 -> z1 = z2.
Proof.
  induction n as [|n IH]; intros z1 z2 H1 H2 E.
  - cbn in H1, H2. lia.
  - rewrite !bit_flags_S in E. injection E as Eo Er.
    rewrite Nat2Z.inj_succ, Z.pow_succ_r in H1, H2 by lia.
    assert (Eq : z1 / 2 = z2 / 2).
    { apply IH; auto; Z.div_mod_to_equations; lia. }
    rewrite (Z.div2_odd z1), (Z.div2_odd z2), !Z.div2_div, Eo, Eq. reflexivity.
Qed.

Lemma bit_flags_surjective : forall fl, exists z,
  0 <= z < 2 ^ Z.of_nat (length fl) /\ bit_flags (length fl) z = fl.
Proof.
  induction fl as [|b fl IH].
  - exists 0. split; [cbn; lia|reflexivity].
  - destruct IH as [z' [Hz E]]. exists (Z.b2z b + 2 * z').
    cbn [length]. rewrite Nat2Z.inj_succ, Z.pow_succ_r by lia. split.
    + destruct b; cbn [Z.b2z]; lia.
    + rewrite bit_flags_S. f_equal.
      * rewrite Z.odd_add_mul_2. destruct b; reflexivity.
      * replace ((Z.b2z b + 2 * z') / 2) with z'; [exact E|].
        destruct b; cbn [Z.b2z]; Z.div_mod_to_equations; lia.
Qed.

(* ---------------------------------------------------------------- statements *)
Lemma sign_flags_injective : forall n z1 z2,
  0 <= z1 < 2 ^ Z.of_nat n -> 0 <= z2 < 2 ^ Z.of_nat n ->
  sign_flags n (inject_Z z1) = sign_flags n (inject_Z z2) -> z1 = z2.
Proof.
  intros n z1 z2 H1 H2 E. rewrite !sign_flags_bits in E. eapply bit_flags_injective; eauto.
Qed.

Lemma sign_flags_surjective : forall fl,
  exists z, 0 <= z < 2 ^ Z.of_nat (length fl) /\ sign_flags (length fl) (inject_Z z) = fl.
Proof.
  intros fl. destruct (bit_flags_surjective fl) as [z [Hz E]].
  exists z. split; [exact Hz|]. rewrite sign_flags_bits. exact E.
Qed.

(* the magics of [0, 2^n) are exactly representable doubles up to n = 53 *)
Lemma range_double_exact : forall n z, (n <= 53)%nat -> 0 <= z < 2 ^ Z.of_nat n -> double_exact_int z.
Proof.
  intros n z Hn Hz. unfold double_exact_int.
  assert (P : 2 ^ Z.of_nat n <= 2 ^ 53) by (apply Z.pow_le_mono_r; lia).
  rewrite Z.abs_eq by lia. lia.
Qed.

Lemma sign_flags_bijective_53 : forall n, (n <= 53)%nat ->
  (forall z, 0 <= z < 2 ^ Z.of_nat n -> double_exact_int z) /\
  (forall z1 z2, 0 <= z1 < 2 ^ Z.of_nat n -> 0 <= z2 < 2 ^ Z.of_nat n ->
     sign_flags n (inject_Z z1) = sign_flags n (inject_Z z2) -> z1 = z2) /\
  (forall fl, length fl = n ->
     exists z, 0 <= z < 2 ^ Z.of_nat n /\ double_exact_int z /\ sign_flags n (inject_Z z) = fl).
Proof.
  intros n Hn. split; [|split].
  - intros z Hz. eapply range_double_exact; eauto.
  - apply sign_flags_injective.
  - intros fl L. destruct (sign_flags_surjective fl) as [z [Hz E]]. rewrite L in *.
    exists z. split; [exact Hz|]. split; [eapply range_double_exact; eauto|exact E].
Qed.

(* beyond 2^53 not every integer is a double: 2^53 + 1 is the first gap *)
Lemma double_gap : ~ double_exact_int (2 ^ 53 + 1).
Proof. unfold double_exact_int. rewrite Z.abs_eq by lia. lia. Qed.

Lemma sign_flags_zero : forall n, sign_flags n (inject_Z 0) = repeat false n.
Proof.
  intros n. rewrite sign_flags_bits.
  unfold bit_flags. generalize 0%nat. induction n as [|n IH]; intros s; [reflexivity|].
  cbn [seq map repeat]. rewrite Z.testbit_0_l, IH. reflexivity.
Qed.

Lemma apply_flags_false : forall x, apply_flags (repeat false (length x)) x = x.
Proof. induction x as [|v x IH]; [reflexivity|]. cbn. rewrite IH. reflexivity. Qed.

Lemma permute_signs_identity : forall x, fff_onesample_permute_signs x (inject_Z 0) = x.
Proof. intros x. unfold fff_onesample_permute_signs. rewrite sign_flags_zero. apply apply_flags_false. Qed.

Lemma apply_flags_pm : forall fl x, length fl = length x ->
  Forall2 (fun a b => b = a \/ b = Qopp a) x (apply_flags fl x).
Proof.
  induction fl as [|f fl IH]; intros [|v x] L; try discriminate; cbn; constructor.
  - destruct f; auto.
  - apply IH. cbn in L. lia.
Qed.

Lemma sign_flags_length : forall n m, length (sign_flags n m) = n.
Proof. induction n as [|n IH]; intros m; cbn; [reflexivity|]. rewrite IH. reflexivity. Qed.

Lemma permute_signs_pm : forall x magic,
  Forall2 (fun a b => b = a \/ b = Qopp a) x (fff_onesample_permute_signs x magic).
Proof. intros. apply apply_flags_pm. apply sign_flags_length. Qed.

(* all-ones magic -1 flips everybody; a non-integer magic always flips subject 0 *)
Lemma sign_flags_examples :
  sign_flags 4 (inject_Z (-1)) = [true; true; true; true] /\
  sign_flags 4 (Qmake 5 2) = [true; true; false; false] /\
  sign_flags 34 (inject_Z 4294967296) = bit_flags 34 4294967296.
Proof. repeat split; vm_compute; reflexivity. Qed.
