(* C17 - fff_onesample_permute_signs: for integer magics below 2^32 the flip
   flags are the binary digits of the magic (bijection [0,2^n) <-> patterns for
   n <= 32); at and above 2^32 the (int) cast inside FFF_FLOOR overflows and the
   enumeration stops being injective (refuted clause, with witness). *)
From Coq Require Import List Bool ZArith NArith QArith Qround Lia.
From NV.C17 Require Import Model.
Import ListNotations.
Close Scope Q_scope.
Local Open Scope Z_scope.

Definition TWO32 : Z := 4294967296.

Lemma half_Q : forall z, (inject_Z z / 2)%Q = (Qmake (z * 1) 2).
Proof. reflexivity. Qed.

Lemma floor_half : forall z, 0 <= z < TWO32 -> fff_floor (inject_Z z / 2) = z / 2.
Proof.
  intros z [H0 H1]. unfold TWO32 in H1. rewrite half_Q. unfold fff_floor.
  destruct (Qlt_le_dec 0 (Qmake (z * 1) 2)) as [P|NP].
  - unfold cast_int, trunc0. cbn [Qnum Qden]. rewrite Z.mul_1_r.
    rewrite Z.quot_div_nonneg by lia.
    assert (R : ((INT_MIN <=? z / 2) && (z / 2 <? INT_MAX1))%bool = true).
    { apply andb_true_intro. unfold INT_MIN, INT_MAX1.
      change (2 ^ 31) with 2147483648.
      split; [apply Z.leb_le|apply Z.ltb_lt]; Z.div_mod_to_equations; lia. }
    rewrite R. reflexivity.
  - unfold Qle in NP. cbn [Qnum Qden] in NP. assert (z = 0) by lia. subst z. reflexivity.
Qed.

Lemma frac_half : forall z, 0 <= z ->
  (if Qlt_le_dec 0 (inject_Z z / 2 - inject_Z (z / 2)) then true else false) = Z.odd z.
Proof.
  intros z H0. rewrite half_Q.
  assert (D := Z.div2_odd z). rewrite Z.div2_div in D.
  destruct (Qlt_le_dec 0 ((Qmake (z * 1) 2) - inject_Z (z / 2))) as [P|NP].
  - unfold Qlt, Qminus, Qplus, Qopp, inject_Z in P. cbn [Qnum Qden] in P.
    destruct (Z.odd z); [reflexivity|]. cbn [Z.b2z] in D.
    generalize dependent (z / 2). intros q D P. exfalso. lia.
  - unfold Qle, Qminus, Qplus, Qopp, inject_Z in NP. cbn [Qnum Qden] in NP.
    destruct (Z.odd z); [|reflexivity]. cbn [Z.b2z] in D.
    generalize dependent (z / 2). intros q D NP. exfalso. lia.
Qed.

Lemma bit_flags_S : forall n z, bit_flags (S n) z = Z.odd z :: bit_flags n (z / 2).
Proof.
  intros n z. unfold bit_flags. cbn [seq map]. f_equal.
  rewrite <- seq_shift, map_map. apply map_ext. intros i.
  rewrite Z.div2_bits by lia. f_equal. lia.
Qed.

Lemma sign_flags_bits : forall n z, 0 <= z < TWO32 ->
  sign_flags n (inject_Z z) = bit_flags n z.
Proof.
  induction n as [|n IH]; intros z H; [reflexivity|].
  rewrite bit_flags_S. cbn [sign_flags].
  rewrite floor_half by exact H. rewrite frac_half by lia.
  f_equal. apply IH. unfold TWO32 in *. Z.div_mod_to_equations. lia.
Qed.

Lemma bit_flags_injective : forall n z1 z2, 0 <= z1 < 2 ^ Z.of_nat n -> 0 <= z2 < 2 ^ Z.of_nat n ->
  bit_flags n z1 = bit_flags n z2 -> z1 = z2.
Proof.
  induction n as [|n IH]; intros z1 z2 H1 H2 E.
  - cbn in H1, H2. lia.
  - rewrite !bit_flags_S in E. injection E as Eo Er.
    rewrite Nat2Z.inj_succ, Z.pow_succ_r in H1, H2 by lia.
    assert (Eq : z1 / 2 = z2 / 2).
    { apply IH; auto; Z.div_mod_to_equations; lia. }
    rewrite (Z.div2_odd z1), (Z.div2_odd z2), !Z.div2_div, Eo, Eq. reflexivity.
Qed.

Lemma bit_flags_surjective : forall fl, exists z,
  0 <= z < 2 ^ Z.of_nat (length fl) /\ bit_flags (length fl) z = fl.
Proof.
  induction fl as [|b fl IH].
  - exists 0. split; [cbn; lia|reflexivity].
  - destruct IH as [z' [Hz E]]. exists (Z.b2z b + 2 * z').
    cbn [length]. rewrite Nat2Z.inj_succ, Z.pow_succ_r by lia. split.
    + destruct b; cbn [Z.b2z]; lia.
    + rewrite bit_flags_S. f_equal.
      * rewrite Z.odd_add_mul_2. destruct b; reflexivity.
      * replace ((Z.b2z b + 2 * z') / 2) with z'; [exact E|].
        destruct b; cbn [Z.b2z]; Z.div_mod_to_equations; lia.
Qed.

Lemma pow_le_two32 : forall n, (n <= 32)%nat -> 2 ^ Z.of_nat n <= TWO32.
Proof.
  intros n H. unfold TWO32. change 4294967296 with (2 ^ 32).
  apply Z.pow_le_mono_r; lia.
Qed.

(* ---------------------------------------------------------------- statements *)
Lemma sign_flags_injective : forall n z1 z2, (n <= 32)%nat ->
  0 <= z1 < 2 ^ Z.of_nat n -> 0 <= z2 < 2 ^ Z.of_nat n ->
  sign_flags n (inject_Z z1) = sign_flags n (inject_Z z2) -> z1 = z2.
Proof.
  intros n z1 z2 Hn H1 H2 E. assert (P := pow_le_two32 n Hn).
  rewrite !sign_flags_bits in E by lia. eapply bit_flags_injective; eauto.
Qed.

Lemma sign_flags_surjective : forall fl, (length fl <= 32)%nat ->
  exists z, 0 <= z < 2 ^ Z.of_nat (length fl) /\ sign_flags (length fl) (inject_Z z) = fl.
Proof.
  intros fl Hn. destruct (bit_flags_surjective fl) as [z [Hz E]].
  exists z. split; [exact Hz|]. assert (P := pow_le_two32 _ Hn).
  rewrite sign_flags_bits by lia. exact E.
Qed.

Lemma sign_flags_zero : forall n, sign_flags n (inject_Z 0) = repeat false n.
Proof.
  intros n. rewrite sign_flags_bits by (unfold TWO32; lia).
  unfold bit_flags. generalize 0%nat. induction n as [|n IH]; intros s; [reflexivity|].
  cbn [seq map repeat]. rewrite Z.testbit_0_l, IH. reflexivity.
Qed.

Lemma apply_flags_false : forall x, apply_flags (repeat false (length x)) x = x.
Proof. induction x as [|v x IH]; [reflexivity|]. cbn. rewrite IH. reflexivity. Qed.

Lemma permute_signs_identity : forall x, fff_onesample_permute_signs x (inject_Z 0) = x.
Proof. intros x. unfold fff_onesample_permute_signs. rewrite sign_flags_zero. apply apply_flags_false. Qed.

Lemma apply_flags_pm : forall fl x, length fl = length x ->
  Forall2 (fun a b => b = a \/ b = Qopp a) x (apply_flags fl x).
Proof.
  induction fl as [|f fl IH]; intros [|v x] L; try discriminate; cbn; constructor.
  - destruct f; auto.
  - apply IH. cbn in L. lia.
Qed.

Lemma sign_flags_length : forall n m, length (sign_flags n m) = n.
Proof. induction n as [|n IH]; intros m; cbn; [reflexivity|]. rewrite IH. reflexivity. Qed.

Lemma permute_signs_pm : forall x magic,
  Forall2 (fun a b => b = a \/ b = Qopp a) x (fff_onesample_permute_signs x magic).
Proof. intros. apply apply_flags_pm. apply sign_flags_length. Qed.

(* the defect: 33 subjects, magics 2^32 and 2^32+2 give one and the same pattern
   (and flip subject 0 although both magics are even) *)
Lemma sign_flags_33_collision :
  sign_flags 33 (inject_Z 4294967296) = sign_flags 33 (inject_Z 4294967298)
  /\ nth 0 (sign_flags 33 (inject_Z 4294967296)) false = true.
Proof. split; vm_compute; reflexivity. Qed.
