(* C17 - Vandermonde: the number of two-sample relabellings counted by
   fff_twosample_permutation, sum_{i<=min(n1,n2)} C(n1,i) C(n2,i), is C(n1+n2, n1). *)
From Coq Require Import List Bool ZArith NArith Lia Arith.
From NV.C17 Require Import Model ProofsComb ProofsTwo.
Import ListNotations.

Fixpoint vsum (f : nat -> N) (U : nat) : N :=
  match U with O => f 0 | S u => (vsum f u + f (S u))%N end.

Lemma vsum_ext : forall f g U, (forall i, i <= U -> f i = g i) -> vsum f U = vsum g U.
Proof.
  induction U as [|U IH]; intros H; cbn [vsum]; [apply H; lia|].
  rewrite IH by (intros; apply H; lia). rewrite (H (S U)) by lia. reflexivity.
Qed.

Lemma vsum_add : forall f g U, vsum (fun i => (f i + g i)%N) U = (vsum f U + vsum g U)%N.
Proof. induction U as [|U IH]; cbn [vsum]; [reflexivity|]. rewrite IH. lia. Qed.

Lemma vsum_shift : forall f U, vsum f (S U) = (f O + vsum (fun i => f (S i)) U)%N.
Proof.
  induction U as [|U IH]; [reflexivity|].
  change (vsum f (S (S U))) with (vsum f (S U) + f (S (S U)))%N.
  rewrite IH. cbn [vsum]. lia.
Qed.

(* sum_{i=0}^{U} C(n1,i) C(n2,i+d) = C(n1+n2, n1+d)   for U >= n1 *)
Lemma vandermonde_shifted : forall n1 d n2 U, n1 <= U ->
  vsum (fun i => (binom n1 i * binom n2 (i + d))%N) U = binom (n1 + n2) (n1 + d).
Proof.
  induction n1 as [|n1 IH]; intros d n2 U HU.
  - cbn [Nat.add]. induction U as [|U IHU]; cbn [vsum].
    + rewrite binom_n_0. cbn [Nat.add]. lia.
    + rewrite IHU by lia. rewrite (binom_small 0 (S U)) by lia. lia.
  - destruct U as [|U]; [lia|].
    rewrite vsum_shift. rewrite binom_n_0. cbn [Nat.add].
    rewrite (vsum_ext _ (fun i => (binom n1 i * binom n2 (i + S d) + binom n1 (S i) * binom n2 (S i + d))%N)).
    2:{ intros i _. cbv beta. rewrite binom_S_S. replace (i + S d) with (S i + d) by lia. cbn [Nat.add]. lia. }
    rewrite vsum_add.
    rewrite (IH (S d) n2 U) by lia.
    assert (E := IH d n2 (S U) ltac:(lia)). rewrite vsum_shift in E. rewrite binom_n_0 in E. cbn [Nat.add] in E.
    replace (n1 + S d) with (S (n1 + d)) by lia.
    rewrite (binom_S_S (n1 + n2) (n1 + d)). cbn [Nat.add]. lia.
Qed.

Lemma cum_is_vsum : forall n1 n2 U,
  ts_cum n1 n2 (S U) = vsum (fun i => (binom n1 i * binom n2 i)%N) U.
Proof.
  induction U as [|U IH]; [cbn; lia|].
  rewrite (cum_S n1 n2 (S U)), IH. reflexivity.
Qed.

Lemma cum_stable : forall n1 n2 U, Nat.min n1 n2 <= U ->
  ts_cum n1 n2 (S U) = ts_cum n1 n2 (S (Nat.min n1 n2)).
Proof.
  intros n1 n2 U H. induction H as [|U H IH]; [reflexivity|].
  rewrite (cum_S n1 n2 (S U)), IH.
  destruct (Nat.min_dec n1 n2) as [E|E]; rewrite E in *.
  - rewrite (binom_small n1 (S U)) by lia. lia.
  - rewrite (binom_small n2 (S U)) by lia. lia.
Qed.

Lemma ts_count_vandermonde : forall n1 n2, ts_count n1 n2 = binom (n1 + n2) n1.
Proof.
  intros n1 n2. rewrite ts_count_spec. unfold ts_total.
  rewrite <- (cum_stable n1 n2 (Nat.max n1 n2)) by lia.
  rewrite cum_is_vsum.
  rewrite (vsum_ext _ (fun i => (binom n1 i * binom n2 (i + 0))%N)) by (intros; rewrite Nat.add_0_r; reflexivity).
  rewrite vandermonde_shifted by lia. rewrite Nat.add_0_r. reflexivity.
Qed.
