(* C17 - executable models (definitions only).

   Part A  enumeration codes of lib/fff/fff_gen_stats.c, fff_onesample_stat.c
           (fff_onesample_permute_signs) and fff_twosample_stat.c
           (fff_twosample_permutation / fff_twosample_apply_permutation)
   Part B  one- and two-sample statistics over Q (sqrt abstract)
   Part C  p-value formulas of nipy/labs/group/permutation_test.py

   Conventions: magic numbers are N (unbounded); the C types are modelled
   where they matter: `unsigned long` products in `_combinations` are reduced
   mod 2^64, `unsigned int` subtraction mod 2^32; doubles that hold exact
   values (halving, floor) are modelled by Q.  (FFF_FLOOR and its (int) cast
   are no longer used by fff_onesample_permute_signs since fix 6262c59.) *)
From Coq Require Import List Bool ZArith NArith QArith Qround Lia.
Import ListNotations.
Close Scope Q_scope.

(* ------------------------------------------------------------------ A.1
   fff_permutation (fff_gen_stats.c:14-41)

     for(i=0, xi=x; i<n; i++, xi++) *xi = i;
     for(i=0, nc=n; i<n; i++, nc--) {
       ir = m % nc;  m = m / nc;  j = ir + i;
       tmp = x[j];  xi = x + i;
       memmove(xi+1, xi, ir*sizeof(unsigned int));
       *xi = tmp; }                                                        *)

(* memmove on an array held as a list: copy len cells from src to dst *)
Definition memmove {A} (x : list A) (dst src len : nat) : list A :=
  firstn dst x ++ firstn len (skipn src x) ++ skipn (dst + len) x.

Definition store {A} (x : list A) (i : nat) (v : A) : list A :=
  firstn i x ++ v :: skipn (S i) x.

(* nc = n - i is the structurally decreasing argument *)
Fixpoint perm_loop (nc i : nat) (x : list nat) (m : N) : list nat :=
  match nc with
  | O => x
  | S nc' =>
      let ir := N.to_nat (m mod N.of_nat nc) in
      let m' := (m / N.of_nat nc)%N in
      let j := ir + i in
      let tmp := nth j x 0 in
      let x1 := memmove x (S i) i ir in
      perm_loop nc' (S i) (store x1 i tmp) m'
  end.

Definition fff_permutation (n : nat) (magic : N) : list nat :=
  perm_loop n 0 (seq 0 n) magic.

(* abstract reading: digit ir of the factorial number system (least
   significant digit first, radix n, n-1, ..., 1) selects the ir-th smallest
   of the values not yet used *)
Definition remove_nth {A} (k : nat) (l : list A) : list A := firstn k l ++ skipn (S k) l.

Fixpoint lehmer (rest : list nat) (nc : nat) (m : N) : list nat :=
  match nc with
  | O => []
  | S nc' =>
      let ir := N.to_nat (m mod N.of_nat nc) in
      nth ir rest 0 :: lehmer (remove_nth ir rest) nc' (m / N.of_nat nc)%N
  end.

Fixpoint factN (n : nat) : N :=
  match n with O => 1%N | S k => (N.of_nat (S k) * factN k)%N end.

(* ------------------------------------------------------------------ A.2
   _combinations (fff_gen_stats.c:49-61)

     unsigned long c, i, aux;
     aux = n - k;                         (unsigned int subtraction)
     for (i=1, c=1; i<=k; i++) { c *= (aux+i); c /= i; }
     return FFF_MAX(c, 1);                                                  *)
Definition W64 : N := (2 ^ 64)%N.
Definition W32 : Z := (2 ^ 32)%Z.

Fixpoint comb_loop (steps : nat) (i aux c : N) : N :=
  match steps with
  | O => c
  | S s => comb_loop s (i + 1)%N aux ((((c * ((aux + i) mod W64)) mod W64) / i)%N)
  end.

Definition combinations_c (k n : nat) : N :=
  let aux := Z.to_N ((Z.of_nat n - Z.of_nat k) mod W32)%Z in
  N.max (comb_loop k 1%N aux 1%N) 1%N.

(* binomial coefficient by Pascal's rule: the specification *)
Fixpoint binom (n k : nat) : N :=
  match k with
  | O => 1%N
  | S k' => match n with
            | O => 0%N
            | S n' => (binom n' k' + binom n' k)%N
            end
  end.

(* ------------------------------------------------------------------ A.3
   fff_combination (fff_gen_stats.c:63-99)

     c = _combinations(k, n);  m = magic % c;
     i = 0; kk = k; nn = n;
     while (kk > 0) {
       nn--;  c = _combinations(kk-1, nn);
       if (m < c) { *bx = i; bx++; kk--; } else m = m - c;
       i++; }

   `nn` is the structurally decreasing argument.  None: the walk asked for
   nn-- at nn = 0 (the C would wrap the unsigned counter) - outside the
   modelled domain; proved unreachable for k <= n in the no-wrap region. *)
Fixpoint comb_walk (nn kk : nat) (m i : N) : option (list N) :=
  match kk with
  | O => Some []
  | S kk' =>
      match nn with
      | O => None
      | S nn' =>
          let c := combinations_c kk' nn' in
          if (m <? c)%N then option_map (cons i) (comb_walk nn' kk' m (i + 1)%N)
          else comb_walk nn' kk (m - c)%N (i + 1)%N
      end
  end.

Definition fff_combination (k n : nat) (magic : N) : option (list N) :=
  let c := combinations_c k n in
  comb_walk n k (magic mod c)%N 0%N.

(* specification: all kk-subsets of [i, i+nn) as increasing lists, in
   lexicographic order *)
Fixpoint subsets (nn kk : nat) (i : N) : list (list N) :=
  match kk with
  | O => [[]]
  | S kk' =>
      match nn with
      | O => []
      | S nn' => map (cons i) (subsets nn' kk' (i + 1)%N) ++ subsets nn' kk (i + 1)%N
      end
  end.

(* the region in which no `c *= (aux+i)` of any call made by
   fff_combination(k, n, .) exceeds 2^64 *)
Definition nowrap (n k : nat) : Prop :=
  forall n' k', n' <= n -> k' <= k -> k' <= n' -> (N.of_nat k' * binom n' k' < W64)%N.

(* ------------------------------------------------------------------ A.4
   fff_onesample_permute_signs (fff_onesample_stat.c:1281-1298)

     m = magic;
     for (i=0; i<n; i++) { aux = m/2; m = floor(aux); aux -= m;
                           xx[i] = (aux > 0) ? -x[i] : x[i]; }

   (libm floor on doubles.)  For every finite double m, m/2 is exact unless it
   underflows (|m| < 2^-1021), floor(aux) is exact and so is aux - floor(aux)
   (a value in [0,1) on aux's own grid).  Q with the true floor `Qfloor` is
   therefore an exact model of the doubles for EVERY finite magic that is 0
   or has |magic| >= 2^-1021: integers, non-integers, negative values and
   values >= 2^53 (which are even integers) alike.  What the doubles restrict
   is only WHICH magics exist: every integer of magnitude <= 2^53 is a
   double, 2^53 + 1 is not (double_exact_int).  Not modelled: inf, nan,
   subnormal magics. *)
Definition double_exact_int (z : Z) : Prop := (Z.abs z <= 2 ^ 53)%Z.

(* flip flags for n values *)
Fixpoint sign_flags (n : nat) (m : Q) : list bool :=
  match n with
  | O => []
  | S n' =>
      let aux := (m / 2)%Q in
      let m' := inject_Z (Qfloor aux) in
      let d := (aux - m')%Q in
      (if Qlt_le_dec 0 d then true else false) :: sign_flags n' m'
  end.

Fixpoint apply_flags (fl : list bool) (x : list Q) : list Q :=
  match fl, x with
  | f :: fl', v :: x' => (if f then Qopp v else v) :: apply_flags fl' x'
  | _, _ => []
  end.

Definition fff_onesample_permute_signs (x : list Q) (magic : Q) : list Q :=
  apply_flags (sign_flags (length x) magic) x.

(* specification for integer magics: flag i = binary digit i (two's
   complement digits for a negative magic) *)
Definition bit_flags (n : nat) (z : Z) : list bool :=
  map (fun i => Z.testbit z (Z.of_nat i)) (seq 0 n).

(* ------------------------------------------------------------------ A.5
   fff_twosample_permutation (fff_twosample_stat.c:301-352)

     n = MIN(n1,n2); cuml=0; cumr=1; c1=1; c2=1;
     if (idx1==NULL || idx2==NULL) *magic = +inf;
     for(i=0; i<=n; i++) {
       if ( *magic<cumr) { *magic -= cuml; break; }
       aux = i+1; c1 *= (n1-i); c1 /= aux; c2 *= (n2-i); c2 /= aux;
       cuml = cumr; cumr += c1*c2; }
     if ( *magic >= cumr) { *magic = cumr; return 0; }
     magic2 = floor( *magic/c1); magic1 = *magic - magic2*c1;
     fff_combination(idx1, i, n1, magic1); fff_combination(idx2, i, n2, magic2);
     return i;

   The doubles hold integers; the model uses exact N arithmetic, which is
   what the doubles compute while every intermediate is below 2^53
   (c1*(n1-i), c2*(n2-i), cumr; see ts_exact53).  `inf` = pre-computation
   mode (magic = +infinity). *)
Record ts_state := mk_ts { ts_i : nat; ts_magic : N; ts_c1 : N; ts_c2 : N; ts_cumr : N }.

Fixpoint ts_loop (steps i n1 n2 : nat) (inf : bool) (magic cuml cumr c1 c2 : N) : ts_state :=
  match steps with
  | O => mk_ts i magic c1 c2 cumr
  | S s =>
      if (negb inf && (magic <? cumr)%N) then mk_ts i (magic - cuml)%N c1 c2 cumr
      else
        let aux := N.of_nat (S i) in
        let c1' := ((c1 * N.of_nat (n1 - i)) / aux)%N in
        let c2' := ((c2 * N.of_nat (n2 - i)) / aux)%N in
        ts_loop s (S i) n1 n2 inf magic cumr (cumr + c1' * c2')%N c1' c2'
  end.

Inductive ts_result :=
| TsCount (total : N)                                   (* *magic = cumr; return 0 *)
| TsPerm (i : nat) (idx1 idx2 : option (list N)).

Definition fff_twosample_permutation (n1 n2 : nat) (inf : bool) (magic : N) : ts_result :=
  let st := ts_loop (S (Nat.min n1 n2)) 0 n1 n2 inf magic 0%N 1%N 1%N 1%N in
  if (inf || (ts_cumr st <=? ts_magic st)%N) then TsCount (ts_cumr st)
  else
    let magic2 := (ts_magic st / ts_c1 st)%N in
    let magic1 := (ts_magic st - magic2 * ts_c1 st)%N in
    TsPerm (ts_i st) (fff_combination (ts_i st) n1 magic1) (fff_combination (ts_i st) n2 magic2).

(* count_permutations(n1, n2) of twosample.pyx *)
Definition ts_count (n1 n2 : nat) : N :=
  match fff_twosample_permutation n1 n2 true 0%N with TsCount t => t | _ => 0%N end.

(* specification of the cumulative bounds: sum_{j<i} C(n1,j) C(n2,j) *)
Fixpoint ts_cum (n1 n2 i : nat) : N :=
  match i with O => 0%N | S j => (ts_cum n1 n2 j + binom n1 j * binom n2 j)%N end.

(* every intermediate double is an integer below 2^53 *)
Definition ts_exact53 (n1 n2 : nat) : Prop :=
  (N.of_nat (Nat.max n1 n2) * binom (n1 + n2) n1 < 2 ^ 53)%N.

(* fff_twosample_apply_permutation (fff_twosample_stat.c:363-404):
   px = x1 ++ x2; for j<i: swap px[idx1[j]] and px[n1 + idx2[j]] *)
Definition swap {A} (d : A) (x : list A) (a b : nat) : list A :=
  store (store x a (nth b x d)) b (nth a x d).

Fixpoint apply_swaps {A} (d : A) (px : list A) (n1 : nat) (idx1 idx2 : list N) : list A :=
  match idx1, idx2 with
  | a :: r1, b :: r2 => apply_swaps d (swap d px (N.to_nat a) (n1 + N.to_nat b)) n1 r1 r2
  | _, _ => px
  end.

Definition fff_twosample_apply_permutation {A} (d : A) (x1 x2 : list A) (idx1 idx2 : list N) : list A :=
  apply_swaps d (x1 ++ x2) (length x1) idx1 idx2.

(* ------------------------------------------------------------------ B
   statistics over Q; sqrt enters as a parameter of the functions that use it *)
Open Scope Q_scope.

Definition qsum (x : list Q) : Q := fold_right Qplus 0 x.
Definition qlen (x : list Q) : Q := inject_Z (Z.of_nat (length x)).
Definition qsign (a : Q) : Q := if Qlt_le_dec 0 a then 1 else if Qlt_le_dec a 0 then -(1) else 0.
Definition qabs' (a : Q) : Q := if Qlt_le_dec 0 a then a else - a.

(* extended value: the C returns +-inf when the spread is zero *)
Inductive xval := Fin (q : Q) | PosInf | NegInf.
Definition xopp (v : xval) : xval :=
  match v with Fin q => Fin (- q) | PosInf => NegInf | NegInf => PosInf end.

(* _fff_onesample_mean: sum(x)/n - base *)
Definition os_mean (x : list Q) (base : Q) : Q := qsum x / qlen x - base.

(* fff_vector_ssd(x, &m, 0): m = sum/n; ssd = sum x^2 - n m^2 *)
Definition vec_ssd (x : list Q) : Q :=
  let m := qsum x / qlen x in qsum (map (fun v => v * v) x) - qlen x * (m * m).

(* _fff_onesample_student: std = sqrt(ssd/n); aux = sqrt(n-1)*(m-base);
   sign(aux)=0 -> 0; aux/std (+-inf when std = 0) *)
Definition os_student (sqrtq : Q -> Q) (x : list Q) (base : Q) : xval :=
  let m := qsum x / qlen x in
  let std := sqrtq (vec_ssd x / qlen x) in
  let aux := sqrtq (qlen x - 1) * (m - base) in
  if Qeq_bool (qsign aux) 0 then Fin 0
  else if Qeq_bool std 0 then (if Qlt_le_dec 0 aux then PosInf else NegInf)
  else Fin (aux / std).

(* _fff_onesample_sign_stat: (rp - rm)/n with zeros counted half/half *)
Fixpoint sign_counts (x : list Q) (base : Q) : Q * Q :=
  match x with
  | [] => (0, 0)
  | v :: r =>
      let '(rp, rm) := sign_counts r base in
      let aux := v - base in
      if Qlt_le_dec 0 aux then (rp + 1, rm)
      else if Qlt_le_dec aux 0 then (rp, rm + 1)
      else (rp + (1#2), rm + (1#2))
  end.
Definition os_sign_stat (x : list Q) (base : Q) : Q :=
  let '(rp, rm) := sign_counts x base in (rp - rm) / qlen x.

(* _fff_onesample_wilcoxon: residuals sorted by absolute value; sum of
   rank * sign; divided by n^2.  The C sorts with qsort (order of equal
   absolute values unspecified); the model sorts by stable insertion. *)
Fixpoint ins_abs (v : Q) (l : list Q) : list Q :=
  match l with
  | [] => [v]
  | w :: r => if Qlt_le_dec (qabs' v) (qabs' w) then v :: l else w :: ins_abs v r
  end.
Definition sort_abs (l : list Q) : list Q := fold_right ins_abs [] l.
Fixpoint rank_sign_sum (rank : Z) (l : list Q) : Q :=
  match l with [] => 0 | v :: r => inject_Z rank * qsign v + rank_sign_sum (rank + 1) r end.
Definition os_wilcoxon (x : list Q) (base : Q) : Q :=
  rank_sign_sum 1 (sort_abs (map (fun v => v - base) x)) / (qlen x * qlen x).

(* _fff_twosample_wilcoxon: sum_i (sum_j sign(x1_i - x2_j)) / n2 *)
Definition ts_wilcoxon (x1 x2 : list Q) : Q :=
  qsum (map (fun a => qsum (map (fun b => qsign (a - b)) x2) / qlen x2) x1).

(* _fff_twosample_student: (m1-m2) / sqrt((ssd1+ssd2)/max(n1+n2-2,1));
   the C computes naux as unsigned int: `naux<=0` is `naux==0` *)
Definition ts_student (sqrtq : Q -> Q) (x1 x2 : list Q) : xval :=
  let m1 := qsum x1 / qlen x1 in
  let m2 := qsum x2 / qlen x2 in
  let naux := (Z.of_nat (length x1) + Z.of_nat (length x2) - 2)%Z in
  let naux' := if (naux =? 0)%Z then 1%Z else naux in
  let s := sqrtq ((vec_ssd x1 + vec_ssd x2) / inject_Z naux') in
  if Qlt_le_dec 0 s then Fin ((m1 - m2) * (1 / s))
  else (* aux = +inf; t = (m1-m2)*inf *)
    if Qlt_le_dec 0 (m1 - m2) then PosInf else if Qlt_le_dec (m1 - m2) 0 then NegInf else Fin 0 (* C: nan *).

(* ------------------------------------------------------------------ C
   permutation_test.py
     calibrate (l.435-473, 539):  p = #{j : perm_T[j] >= T} / nmagic
     pvalue   (l.565-571), pseudo p-values (l.267, 288):
                                  p = 1 - searchsorted(sorted draws, T, 'left') / ndraws
   searchsorted(a, v, 'left') on sorted a = #{a_j < v}                        *)
Definition count_ge (draws : list Q) (t : Q) : nat :=
  length (filter (fun d => if Qlt_le_dec d t then false else true) draws).
Definition count_lt (draws : list Q) (t : Q) : nat :=
  length (filter (fun d => if Qlt_le_dec d t then true else false) draws).

Definition p_calibrate (draws : list Q) (t : Q) : Q :=
  inject_Z (Z.of_nat (count_ge draws t)) / qlen draws.
Definition p_searchsorted (draws : list Q) (t : Q) : Q :=
  1 - inject_Z (Z.of_nat (count_lt draws t)) / qlen draws.
