(* C17 - executable model of nipy/algorithms/statistics/onesample.py:
   estimate_varatio (l.97-140) for ONE column (every operation of the source is
   elementwise or a reduction over axis 0):

       W = pos_recipr(sd**2);  S = 1. / W
       R = Y - Y.mean(0);      sigma2 = (R**2).sum(0) / (nsubject - 1)
       minS = S.min(0) * Sreduction;   Sm = S - minS
       for _ in range(niter):
           Sms = Sm + sigma2;  W = pos_recipr(Sms);  Winv = pos_recipr(W.sum(0))
           mu = Winv * (W*Y).sum(0);   R = W * (Y - mu)
           ptrS = 1 + (Sm * W).sum(0) - (Sm * W**2).sum(0) * Winv
           sigma2 = (sigma2 * ptrS + (sigma2**2) * (R**2).sum(0)) / nsubject
       sigma2 = sigma2 - minS
       fixed = dot(df, S) / df.sum();  ratio = sigma2 / fixed;  random = sigma2

   Sreduction (the float 0.99) is an argument `sred` (the harness passes the
   exact rational value of the double).  The model is exact rational arithmetic:
   it corresponds to the code for sd without zeros (sd = 0 gives S = inf in the
   code, 1/0 = 0 in Q) - the harness compares on non-zero sd only.  The running
   variance goes through Qred (value preserving; canonical form). *)
From Coq Require Import List Bool ZArith QArith Qminmax Lia.
From NV.C17 Require Import Model ModelMfx.
Import ListNotations.
Open Scope Q_scope.

Definition qminl (l : list Q) : Q :=
  match l with [] => 0 | x :: r => fold_left Qmin r x end.

Definition vr_S (sd : list Q) : list Q := map (fun s => 1 / pos_recipr (s * s)) sd.
Definition vr_minS (sred : Q) (sd : list Q) : Q := qminl (vr_S sd) * sred.
Definition vr_Sm (sred : Q) (sd : list Q) : list Q :=
  map (fun s => s - vr_minS sred sd) (vr_S sd).

(* sigma2 before the loop: the unbiased sample variance *)
Definition vr_ssd (Y : list Q) (m : Q) : Q := qsum (map (fun y => sqdiff y m) Y).
Definition vr_sigma0 (Y : list Q) : Q := Qred (vr_ssd Y (qmean Y) / (qlen Y - 1)).

(* (R**2).sum(0) with R = W * (Y - mu) *)
Definition vr_rss (W Y : list Q) (mu : Q) : Q :=
  qsum (map2 (fun w y => (w * (y - mu)) * (w * (y - mu))) W Y).

Definition vr_W (Sm : list Q) (s2 : Q) : list Q := map (fun s => pos_recipr (s + s2)) Sm.

Definition vr_step (Y Sm : list Q) (s2 : Q) : Q :=
  let W := vr_W Sm s2 in
  let Winv := pos_recipr (qsum W) in
  let mu := Winv * dot W Y in
  let ptrS := 1 + dot Sm W - qsum (map2 (fun s w => s * (w * w)) Sm W) * Winv in
  Qred ((s2 * ptrS + (s2 * s2) * vr_rss W Y mu) / qlen Y).

Fixpoint vr_iter (n : nat) (Y Sm : list Q) (s2 : Q) : Q :=
  match n with O => s2 | S n' => vr_iter n' Y Sm (vr_step Y Sm s2) end.

Definition vr_random (sred : Q) (niter : nat) (Y sd : list Q) : Q :=
  vr_iter niter Y (vr_Sm sred sd) (vr_sigma0 Y) - vr_minS sred sd.
Definition vr_fixed (df sd : list Q) : Q := dot df (vr_S sd) / qsum df.
Definition vr_ratio (sred : Q) (niter : nat) (df Y sd : list Q) : Q :=
  vr_random sred niter Y sd / vr_fixed df sd.
