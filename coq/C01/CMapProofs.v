From Coq Require Import String.
From Coq Require Import List Arith Lia Bool ZArith Permutation Ring.
From NV.Lib Require Import RingMat.
From NV.C01 Require Import Model Proofs CMap.
Import ListNotations.

Section CMapProofs.
  Variable R : Type.
  Variables (r0 r1 : R) (radd rmul rsub : R -> R -> R) (ropp : R -> R).
  Variable reqb : R -> R -> bool.
  Hypothesis Rth : ring_theory r0 r1 radd rmul rsub ropp (@eq R).
  Hypothesis reqb_spec : forall x y, reqb x y = true <-> x = y.

  Local Notation vec := (list R).
  Local Notation CMap := (cmap R).
  Local Notation Happly := (happly r0 r1 radd rmul).

  (* sequential application of the forward functions, rightmost first *)
  Fixpoint cm_apply_seq (rev_maps : list CMap) (x : vec) : vec :=
    match rev_maps with
    | [] => x
    | c :: rest => cm_apply_seq rest (cfun c x)
    end.

  Lemma cm_compose_from_apply rest : forall cur c,
    cm_compose_from R cur rest = Ok c ->
    cdom c = cdom cur /\ forall x, cfun c x = cm_apply_seq rest (cfun cur x).
  Proof.
    induction rest as [|f rest IH]; intros cur c H; cbn [cm_compose_from] in H.
    - injection H as <-. split; [reflexivity|]. intros x. reflexivity.
    - destruct (cs_eqb (cdom f) (crng cur)); [|discriminate].
      destruct (IH _ _ H) as [Hd Hf]. cbn [cdom cfun] in Hd, Hf.
      split; [exact Hd|]. intros x. now rewrite Hf.
  Qed.

  Theorem cm_compose_apply maps c :
    cm_compose R maps = Ok c ->
    exists lastM, In lastM maps /\ cdom c = cdom lastM /\
      forall x, cfun c x = cm_apply_seq (rev maps) x.
  Proof.
    unfold cm_compose. intros H. destruct (rev maps) as [|lastM rest] eqn:Hr; [discriminate|].
    destruct (cm_compose_from_apply _ _ _ H) as [Hd Hf].
    exists lastM. split; [apply in_rev; rewrite Hr; now left|]. split; [exact Hd|].
    intros x. rewrite Hf. reflexivity.
  Qed.

  Theorem cm_compose_refuses_mismatch f g :
    cs_eqb (cdom f) (crng g) = false -> cm_compose R [f; g] = Err EValue.
  Proof.
    intros Hne. unfold cm_compose. cbn [rev app cm_compose_from cm_identity crng cdom].
    destruct (cs_eqb (cdom g) (cdom g)); [|reflexivity].
    cbn [crng]. now rewrite Hne.
  Qed.

  Theorem cm_reorder_domain_named c order b (g : nat -> R) :
    cm_reordered_domain R r0 r1 radd rmul c order = Ok b ->
    cfun b (map g order) = cfun c (map g (seq 0 (cs_ndim (cdom c)))) /\
    cnames (cdom b) = map (fun i => nth i (cnames (cdom c)) EmptyString) order /\
    crng b = crng c /\ Permutation order (seq 0 (cs_ndim (cdom c))).
  Proof.
    unfold cm_reordered_domain. set (n := cs_ndim (cdom c)).
    destruct (is_perm n order) eqn:Hp; [|discriminate]. cbn [negb].
    assert (P := is_perm_Permutation _ _ Hp).
    assert (Hlen : length order = n) by (rewrite (Permutation_length P); apply seq_length).
    destruct (natl_eqb order (seq 0 n)) eqn:Hid.
    - intros H. injection H as <-. apply natl_eqb_eq in Hid. rewrite Hid.
      split; [reflexivity|]. split; [unfold n, cs_ndim; now rewrite map_nth_seq_id|].
      split; [reflexivity|apply Permutation_refl].
    - unfold bind.
      destruct (mk_cs (map (fun i => nth i (cnames (cdom c)) EmptyString) order) (cname (cdom c)) (cdt (cdom c)))
        as [nd|e] eqn:Hcs; [|discriminate].
      intros H. injection H as <-. cbn [cfun cdom crng].
      destruct (mk_cs_ok _ _ _ _ Hcs) as [Hn1 _].
      split; [|split; [exact Hn1|split; [reflexivity|exact P]]].
      f_equal.
      rewrite (happly_hom_embed R r0 r1 radd rmul rsub ropp Rth)
        by (try apply scat_rows_len; try rewrite map_length; auto).
      now apply (mv_scat R r0 r1 radd rmul rsub ropp Rth).
  Qed.

  Theorem cm_reorder_range_named c order b x :
    cm_reordered_range R r0 r1 radd rmul c order = Ok b ->
    length (cfun c x) = cs_ndim (crng c) ->
    cfun b x = map (fun o => nth o (cfun c x) r0) order /\
    cnames (crng b) = map (fun i => nth i (cnames (crng c)) EmptyString) order /\
    cdom b = cdom c /\ Permutation order (seq 0 (cs_ndim (crng c))).
  Proof.
    unfold cm_reordered_range. set (n := cs_ndim (crng c)).
    destruct (is_perm n order) eqn:Hp; [|discriminate]. cbn [negb].
    assert (P := is_perm_Permutation _ _ Hp).
    destruct (natl_eqb order (seq 0 n)) eqn:Hid.
    - intros H Hy. injection H as <-. apply natl_eqb_eq in Hid. rewrite Hid.
      split; [rewrite <- Hy; now rewrite map_nth_seq_id|].
      split; [unfold n, cs_ndim; now rewrite map_nth_seq_id|].
      split; [reflexivity|apply Permutation_refl].
    - unfold bind.
      destruct (mk_cs (map (fun i => nth i (cnames (crng c)) EmptyString) order) (cname (crng c)) (cdt (crng c)))
        as [nr|e] eqn:Hcs; [|discriminate].
      intros H Hy. injection H as <-. cbn [cfun cdom crng].
      destruct (mk_cs_ok _ _ _ _ Hcs) as [Hn1 _].
      split; [|split; [exact Hn1|split; [reflexivity|exact P]]].
      rewrite (happly_hom_embed R r0 r1 radd rmul rsub ropp Rth) by (try apply sel_rows_len; auto).
      apply (mv_sel R r0 r1 radd rmul rsub ropp Rth).
      apply Forall_forall. intros o Ho.
      assert (Hin : In o (seq 0 n)) by (eapply Permutation_in; [exact P|exact Ho]).
      apply in_seq in Hin. lia.
  Qed.

  Theorem cm_rename_domain_relabels c nn b :
    cm_renamed_domain R c nn = Ok b ->
    cfun b = cfun c /\ cnames (cdom b) = rename_list (cnames (cdom c)) nn /\ crng b = crng c.
  Proof.
    unfold cm_renamed_domain. destruct (negb _); [discriminate|]. unfold bind.
    destruct (mk_cs _ _ _) as [nd|e] eqn:Hcs; [|discriminate].
    intros H. injection H as <-. destruct (mk_cs_ok _ _ _ _ Hcs) as [Hn _]. auto.
  Qed.

  Theorem cm_rename_range_relabels c nn b :
    cm_renamed_range R c nn = Ok b ->
    cfun b = cfun c /\ cnames (crng b) = rename_list (cnames (crng c)) nn /\ cdom b = cdom c.
  Proof.
    unfold cm_renamed_range. destruct (negb _); [discriminate|]. unfold bind.
    destruct (mk_cs _ _ _) as [nr|e] eqn:Hcs; [|discriminate].
    intros H. injection H as <-. destruct (mk_cs_ok _ _ _ _ Hcs) as [Hn _]. auto.
  Qed.

  Theorem cm_product2_blockwise a b inn outn p x y :
    cm_product R [a; b] inn outn = Ok p ->
    length x = cs_ndim (cdom a) ->
    cfun p (x ++ y) = cfun a x ++ cfun b (firstn (cs_ndim (cdom b)) y) /\
    cnames (cdom p) = cnames (cdom a) ++ cnames (cdom b) /\
    cnames (crng p) = cnames (crng a) ++ cnames (crng b).
  Proof.
    unfold cm_product. cbn [flat_map fold_right]. rewrite !app_nil_r. unfold bind.
    destruct (mk_cs (cnames (cdom a) ++ cnames (cdom b)) inn _) as [d|e] eqn:Hd; [|discriminate].
    destruct (mk_cs (cnames (crng a) ++ cnames (crng b)) outn _) as [r|e] eqn:Hr; [|discriminate].
    intros H Hx. injection H as <-. cbn [cfun cdom crng cm_product_fun].
    destruct (mk_cs_ok _ _ _ _ Hd) as [Hd1 _]. destruct (mk_cs_ok _ _ _ _ Hr) as [Hr1 _].
    split; [|split; assumption].
    rewrite <- Hx, firstn_app, Nat.sub_diag, firstn_all, skipn_app, Nat.sub_diag, skipn_all. cbn [firstn skipn].
    now rewrite !app_nil_r.
  Qed.

  Theorem cm_inverse_swaps_and_undoes c ci :
    cm_inverse R c = Some ci ->
    cdom ci = crng c /\ crng ci = cdom c /\
    (forall finv, cinv c = Some finv -> (forall x, finv (cfun c x) = x) -> forall x, cfun ci (cfun c x) = x).
  Proof.
    unfold cm_inverse. destruct (cinv c) as [fi|] eqn:E; [|discriminate].
    intros H. injection H as <-. cbn [cdom crng cfun]. repeat split; auto.
    intros finv Hf Hid x. injection Hf as <-. apply Hid.
  Qed.

  (* a CoordinateMap made from an AffineTransform evaluates like it *)
  Theorem as_coordinate_map_agrees a ainv x :
    cfun (cm_of_aff R r0 r1 radd rmul a ainv) x = Happly (amat a) x /\
    cdom (cm_of_aff R r0 r1 radd rmul a ainv) = adom a /\ crng (cm_of_aff R r0 r1 radd rmul a ainv) = arng a.
  Proof. repeat split. Qed.
End CMapProofs.
