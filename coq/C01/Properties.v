(* C01 - property theorems.  The generic statements hold over every
   commutative ring with decidable (Leibniz) equality - integers, canonical
   rationals, polynomial (symbolic) entries; they are instantiated at Z, the
   instance the correspondence check evaluates against the implementation. *)
From Coq Require Import String.
From Coq Require Import List Arith Lia Bool ZArith Permutation Ring.
From NV.Lib Require Import RingMat.
From NV.C01 Require Import Model Exec Proofs ProofsZ CMap CMapProofs Axes AxesProofs ProductN Batch.
Import ListNotations.

Section Generic.
  Variable R : Type.
  Variables (r0 r1 : R) (radd rmul rsub : R -> R -> R) (ropp : R -> R).
  Variable reqb : R -> R -> bool.
  Hypothesis Rth : ring_theory r0 r1 radd rmul rsub ropp (@eq R).
  Hypothesis reqb_spec : forall x y, reqb x y = true <-> x = y.

  Local Notation WFr := (WF R r0 r1).
  Local Notation Apply := (apply R r0 r1 radd rmul).
  Local Notation Happly := (happly r0 r1 radd rmul).
  Local Notation Compose := (compose R r0 r1 radd rmul reqb).

  (* Evaluating a composition of ANY finite chain of maps = applying them one after the other. *)
  Theorem compose_apply : forall affs c,
    Forall WFr affs -> Compose affs = Ok c ->
    WFr c /\
    exists lastA, last affs lastA = lastA /\ In lastA affs /\
      cnames (adom c) = cnames (adom lastA) /\ cname (adom c) = cname (adom lastA) /\
      forall x, length x = cs_ndim (adom lastA) ->
        Apply c x = Ok (apply_seq R r0 r1 radd rmul (rev affs) x).
  Proof. exact (compose_apply_gen R r0 r1 radd rmul rsub ropp reqb Rth reqb_spec). Qed.

  Theorem compose_refuses_mismatched_systems : forall f g,
    WFr g -> cs_eqb (adom f) (arng g) = false -> exists e, Compose [f; g] = Err e.
  Proof. exact (compose_refuses_mismatch R r0 r1 radd rmul reqb). Qed.

  Theorem compose_only_raises_value_errors : forall rest cur e,
    compose_from R r0 r1 radd rmul reqb cur rest = Err e -> e = EValue.
  Proof. exact (compose_errors_are_value_errors R r0 r1 radd rmul reqb). Qed.

  (* Reordering the input coordinates with ANY permutation: every named input tuple
     still maps to the same output values. *)
  Theorem reordered_domain_preserves_named_mapping : forall a order b (g : nat -> R),
    WFr a -> reordered_domain R r0 r1 radd rmul reqb a order = Ok b ->
    Apply b (map g order) = Apply a (map g (seq 0 (cs_ndim (adom a)))) /\
    cnames (adom b) = map (fun i => nth i (cnames (adom a)) EmptyString) order /\
    cnames (arng b) = cnames (arng a) /\ Permutation order (seq 0 (cs_ndim (adom a))).
  Proof. exact (reorder_domain_named R r0 r1 radd rmul rsub ropp reqb Rth reqb_spec). Qed.

  Theorem reordered_range_preserves_named_mapping : forall a order b x,
    WFr a -> reordered_range R r0 r1 radd rmul reqb a order = Ok b -> length x = cs_ndim (adom a) ->
    Apply b x = Ok (map (fun o => nth o (Happly (amat a) x) r0) order) /\
    cnames (arng b) = map (fun i => nth i (cnames (arng a)) EmptyString) order /\
    cnames (adom b) = cnames (adom a) /\ Permutation order (seq 0 (cs_ndim (arng a))).
  Proof. exact (reorder_range_named R r0 r1 radd rmul rsub ropp reqb Rth reqb_spec). Qed.

  Theorem renamed_domain_only_relabels : forall a nn b x,
    WFr a -> renamed_domain R r0 r1 radd rmul reqb a nn = Ok b -> length x = cs_ndim (adom a) ->
    Apply b x = Apply a x /\
    cnames (adom b) = rename_list (cnames (adom a)) nn /\ cnames (arng b) = cnames (arng a).
  Proof. exact (rename_domain_relabels R r0 r1 radd rmul rsub ropp reqb Rth reqb_spec). Qed.

  Theorem renamed_range_only_relabels : forall a nn b x,
    WFr a -> renamed_range R r0 r1 radd rmul reqb a nn = Ok b -> length x = cs_ndim (adom a) ->
    Apply b x = Apply a x /\
    cnames (arng b) = rename_list (cnames (arng a)) nn /\ cnames (adom b) = cnames (adom a).
  Proof. exact (rename_range_relabels R r0 r1 radd rmul rsub ropp reqb Rth reqb_spec). Qed.

  (* An inverse map (built around whatever matrix the linear-algebra oracle returned)
     undoes its map whenever that matrix is a two-sided inverse; the systems are swapped. *)
  Theorem inverse_undoes_map : forall a Minv b x y,
    WFr a -> inverse_with R r0 r1 reqb a Minv = Ok b ->
    mm r0 radd rmul (S (cs_ndim (adom a))) Minv (amat a) = mid r0 r1 (S (cs_ndim (adom a))) ->
    mm r0 radd rmul (S (cs_ndim (arng a))) (amat a) Minv = mid r0 r1 (S (cs_ndim (arng a))) ->
    length x = cs_ndim (adom a) -> length y = cs_ndim (arng a) ->
    Happly (amat b) (Happly (amat a) x) = x /\ Happly (amat a) (Happly (amat b) y) = y /\
    cnames (adom b) = cnames (arng a) /\ cnames (arng b) = cnames (adom a).
  Proof. exact (inverse_undoes R r0 r1 radd rmul rsub ropp reqb Rth reqb_spec). Qed.

  (* A product map acts independently on each block of coordinates. *)
  Theorem product_acts_blockwise : forall a b inn outn p x y,
    WFr a -> WFr b -> product R r0 r1 reqb [a; b] inn outn = Ok p ->
    length x = cs_ndim (adom a) -> length y = cs_ndim (adom b) ->
    Apply p (x ++ y) = Ok (Happly (amat a) x ++ Happly (amat b) y) /\
    cnames (adom p) = cnames (adom a) ++ cnames (adom b) /\
    cnames (arng p) = cnames (arng a) ++ cnames (arng b).
  Proof. exact (product2_blockwise R r0 r1 radd rmul rsub ropp reqb Rth reqb_spec). Qed.

  Theorem append_axis_leaves_rest_untouched : forall a iname oname start step b x t,
    WFr a -> append_io_dim R r0 r1 reqb a iname oname start step = Ok b -> length x = cs_ndim (adom a) ->
    Apply b (x ++ [t]) = Ok (Happly (amat a) x ++ [radd (rmul step t) start]).
  Proof. exact (append_io_dim_apply R r0 r1 radd rmul rsub ropp reqb Rth reqb_spec). Qed.

  Theorem shifted_domain_origin_apply : forall a d nm b x,
    WFr a -> shifted_domain_origin R r0 r1 radd rmul reqb a d nm = Ok b -> length x = cs_ndim (adom a) ->
    Apply b x = Apply a (vadd radd x d) /\ cnames (adom b) = cnames (adom a) /\ cname (adom b) = nm /\
    cnames (arng b) = cnames (arng a).
  Proof. exact (shift_domain_apply R r0 r1 radd rmul rsub ropp reqb Rth reqb_spec). Qed.

  Theorem shifted_range_origin_apply : forall a d nm b x,
    WFr a -> shifted_range_origin R r0 r1 radd rmul ropp reqb a d nm = Ok b -> length x = cs_ndim (adom a) ->
    Apply b x = Ok (vadd radd (Happly (amat a) x) (map ropp d)) /\ cnames (arng b) = cnames (arng a) /\
    cname (arng b) = nm /\ cnames (adom b) = cnames (adom a).
  Proof. exact (shift_range_apply R r0 r1 radd rmul rsub ropp reqb Rth reqb_spec). Qed.
  (* Dropping an orthogonal axis pair (input i, output o): every remaining output is the same
     function of the remaining inputs - for every value of the dropped input - and the names
     that remain are exactly the others, in order. *)
  Theorem drop_axis_leaves_rest_untouched : forall a i o f b x,
    WFr a -> drop_io_dim R r0 r1 reqb a (Some i) (Some o) f = Ok b ->
    i < cs_ndim (adom a) -> o < cs_ndim (arng a) -> length x = cs_ndim (adom a) ->
    Apply b (drop_nth i x) = Ok (drop_nth o (Happly (amat a) x)) /\
    cnames (adom b) = drop_nth i (cnames (adom a)) /\ cnames (arng b) = drop_nth o (cnames (arng a)).
  Proof. exact (drop_io_dim_both R r0 r1 radd rmul rsub ropp reqb Rth reqb_spec). Qed.

  (* ... and the dropped output was a function of the dropped input alone *)
  Theorem dropped_axis_pair_is_isolated : forall a i o f b x,
    WFr a -> drop_io_dim R r0 r1 reqb a (Some i) (Some o) f = Ok b ->
    i < cs_ndim (adom a) -> o < cs_ndim (arng a) -> length x = cs_ndim (adom a) ->
    nth o (Happly (amat a) x) r0 =
      radd (rmul (nth i (nth o (amat a) []) r0) (nth i x r0)) (last (nth o (amat a) []) r0).
  Proof. exact (drop_io_dim_pair_isolated R r0 r1 radd rmul rsub ropp reqb Rth reqb_spec). Qed.

  (* an output axis that no input drives: the other outputs are untouched *)
  Theorem drop_output_only_leaves_rest_untouched : forall a o f b x,
    WFr a -> drop_io_dim R r0 r1 reqb a None (Some o) f = Ok b -> o < cs_ndim (arng a) ->
    length x = cs_ndim (adom a) ->
    Apply b x = Ok (drop_nth o (Happly (amat a) x)) /\
    cnames (adom b) = cnames (adom a) /\ cnames (arng b) = drop_nth o (cnames (arng a)).
  Proof. exact (drop_io_dim_output_only R r0 r1 radd rmul reqb reqb_spec). Qed.

  (* an input axis that drives no output: the map is untouched on the points where that input is 0 *)
  Theorem drop_input_only_leaves_rest_untouched : forall a i f b x,
    WFr a -> drop_io_dim R r0 r1 reqb a (Some i) None f = Ok b -> i < cs_ndim (adom a) ->
    length x = cs_ndim (adom a) -> nth i x r0 = r0 ->
    Apply b (drop_nth i x) = Ok (Happly (amat a) x) /\
    cnames (adom b) = drop_nth i (cnames (adom a)) /\ cnames (arng b) = cnames (arng a).
  Proof. exact (drop_io_dim_input_only R r0 r1 radd rmul rsub ropp reqb Rth reqb_spec). Qed.
  (* a product of ANY number of maps acts independently on each block of coordinates *)
  Theorem product_of_any_number_of_maps_acts_blockwise : forall affs inn outn p xs,
    Forall WFr affs -> product R r0 r1 reqb affs inn outn = Ok p -> blocks_ok R affs xs ->
    Apply p (concat xs) = Ok (blockwise R r0 r1 radd rmul affs xs) /\
    cnames (adom p) = flat_map (fun a => cnames (adom a)) affs /\
    cnames (arng p) = flat_map (fun a => cnames (arng a)) affs.
  Proof. exact (productN_blockwise R r0 r1 radd rmul rsub ropp reqb Rth reqb_spec). Qed.
  (* Evaluation on a batch of points of ANY shape (..., nin): the value at every batch position is
     the map applied to the point at that position (rows in C order, whatever the leading shape) *)
  Theorem batch_evaluation_is_pointwise : forall a rows flat out,
    WFr a -> batch_apply R r0 r1 radd rmul a rows flat = Ok out ->
    chunks (cs_ndim (arng a)) rows out =
      map (Happly (amat a)) (chunks (cs_ndim (adom a)) rows flat) /\
    forall k, k < rows ->
      nth k (chunks (cs_ndim (arng a)) rows out) [] =
      Happly (amat a) (nth k (chunks (cs_ndim (adom a)) rows flat) []).
  Proof. exact (batch_apply_pointwise R r0 r1 radd rmul). Qed.
End Generic.

Print Assumptions compose_apply.
Print Assumptions compose_refuses_mismatched_systems.
Print Assumptions reordered_domain_preserves_named_mapping.
Print Assumptions reordered_range_preserves_named_mapping.
Print Assumptions renamed_domain_only_relabels.
Print Assumptions renamed_range_only_relabels.
Print Assumptions inverse_undoes_map.
Print Assumptions product_acts_blockwise.
Print Assumptions append_axis_leaves_rest_untouched.
Print Assumptions shifted_domain_origin_apply.
Print Assumptions shifted_range_origin_apply.
Print Assumptions product_of_any_number_of_maps_acts_blockwise.
Print Assumptions batch_evaluation_is_pointwise.
Print Assumptions drop_axis_leaves_rest_untouched.
Print Assumptions dropped_axis_pair_is_isolated.
Print Assumptions drop_output_only_leaves_rest_untouched.
Print Assumptions drop_input_only_leaves_rest_untouched.

(* ---- which axis pair an axis id names (io_axis_indices / axmap); `ornts` is nibabel's
   io_orientation column, the only oracle ---- *)
Theorem axis_index_names_that_input_axis : forall ins outs ornts j,
  j < length ins -> io_axis_indices ins outs ornts (AxInt (Z.of_nat j)) = AxOk (Some j) (nth j ornts None).
Proof. exact io_axis_int_in_range. Qed.
Print Assumptions axis_index_names_that_input_axis.

Theorem negative_axis_index_counts_from_last_input : forall ins outs ornts j,
  j < length ins ->
  io_axis_indices ins outs ornts (AxInt (Z.of_nat j - Z.of_nat (length ins))) = AxOk (Some j) (nth j ornts None).
Proof. exact io_axis_int_negative. Qed.
Print Assumptions negative_axis_index_counts_from_last_input.

Theorem axis_index_out_of_range_refused : forall ins outs ornts z,
  (z < - Z.of_nat (length ins) \/ Z.of_nat (length ins) <= z)%Z ->
  io_axis_indices ins outs ornts (AxInt z) = AxErrKey.
Proof. exact io_axis_int_out_of_range. Qed.
Print Assumptions axis_index_out_of_range_refused.

Theorem input_axis_name_same_as_its_index : forall ins outs ornts s j,
  str_index s ins = Some j -> str_index s outs = None ->
  io_axis_indices ins outs ornts (AxName s) = io_axis_indices ins outs ornts (AxInt (Z.of_nat j)).
Proof. exact io_axis_input_name. Qed.
Print Assumptions input_axis_name_same_as_its_index.

Theorem output_axis_name_finds_the_input_driving_it : forall ins outs ornts s o,
  str_index s ins = None -> str_index s outs = Some o ->
  exists i, io_axis_indices ins outs ornts (AxName s) = AxOk i (Some o) /\
    match i with
    | Some i' => nth i' ornts None = Some o /\ forall j, j < i' -> nth j ornts None <> Some o
    | None => forall j, nth j ornts None <> Some o
    end.
Proof. exact io_axis_output_name. Qed.
Print Assumptions output_axis_name_finds_the_input_driving_it.

Theorem shared_axis_name_must_correspond : forall ins outs ornts s i o,
  str_index s ins = Some i -> str_index s outs = Some o ->
  io_axis_indices ins outs ornts (AxName s) =
    if onat_eqb (nth i ornts None) (Some o) then AxOk (Some i) (Some o) else AxErrAxis.
Proof. exact io_axis_shared_name. Qed.
Print Assumptions shared_axis_name_must_correspond.

Theorem unknown_axis_name_refused : forall ins outs ornts s,
  str_index s ins = None -> str_index s outs = None -> io_axis_indices ins outs ornts (AxName s) = AxErrAxis.
Proof. exact io_axis_unknown_name. Qed.
Print Assumptions unknown_axis_name_refused.


(* ------------------------------------------------------------------------
   General (non-affine) CoordinateMap: the forward function is ARBITRARY. *)
Section GenericCMap.
  Variable R : Type.
  Variables (r0 r1 : R) (radd rmul rsub : R -> R -> R) (ropp : R -> R).
  Hypothesis Rth : ring_theory r0 r1 radd rmul rsub ropp (@eq R).

  Theorem cmap_compose_apply : forall maps c,
    cm_compose R maps = Ok c ->
    exists lastM, In lastM maps /\ cdom c = cdom lastM /\
      forall x, cfun c x = cm_apply_seq R (rev maps) x.
  Proof. exact (cm_compose_apply R). Qed.

  Theorem cmap_compose_refuses_mismatched_systems : forall f g,
    cs_eqb (cdom f) (crng g) = false -> cm_compose R [f; g] = Err EValue.
  Proof. exact (cm_compose_refuses_mismatch R). Qed.

  Theorem cmap_reordered_domain_preserves_named_mapping : forall c order b (g : nat -> R),
    cm_reordered_domain R r0 r1 radd rmul c order = Ok b ->
    cfun b (map g order) = cfun c (map g (seq 0 (cs_ndim (cdom c)))) /\
    cnames (cdom b) = map (fun i => nth i (cnames (cdom c)) EmptyString) order /\
    crng b = crng c /\ Permutation order (seq 0 (cs_ndim (cdom c))).
  Proof. exact (cm_reorder_domain_named R r0 r1 radd rmul rsub ropp Rth). Qed.

  Theorem cmap_reordered_range_preserves_named_mapping : forall c order b x,
    cm_reordered_range R r0 r1 radd rmul c order = Ok b ->
    length (cfun c x) = cs_ndim (crng c) ->
    cfun b x = map (fun o => nth o (cfun c x) r0) order /\
    cnames (crng b) = map (fun i => nth i (cnames (crng c)) EmptyString) order /\
    cdom b = cdom c /\ Permutation order (seq 0 (cs_ndim (crng c))).
  Proof. exact (cm_reorder_range_named R r0 r1 radd rmul rsub ropp Rth). Qed.

  Theorem cmap_renamed_domain_only_relabels : forall c nn b,
    cm_renamed_domain R c nn = Ok b ->
    cfun b = cfun c /\ cnames (cdom b) = rename_list (cnames (cdom c)) nn /\ crng b = crng c.
  Proof. exact (cm_rename_domain_relabels R). Qed.

  Theorem cmap_renamed_range_only_relabels : forall c nn b,
    cm_renamed_range R c nn = Ok b ->
    cfun b = cfun c /\ cnames (crng b) = rename_list (cnames (crng c)) nn /\ cdom b = cdom c.
  Proof. exact (cm_rename_range_relabels R). Qed.

  Theorem cmap_product_acts_blockwise : forall a b inn outn p x y,
    cm_product R [a; b] inn outn = Ok p ->
    length x = cs_ndim (cdom a) ->
    cfun p (x ++ y) = cfun a x ++ cfun b (firstn (cs_ndim (cdom b)) y) /\
    cnames (cdom p) = cnames (cdom a) ++ cnames (cdom b) /\
    cnames (crng p) = cnames (crng a) ++ cnames (crng b).
  Proof. exact (cm_product2_blockwise R). Qed.

  Theorem cmap_inverse_swaps_and_undoes : forall c ci,
    cm_inverse R c = Some ci ->
    cdom ci = crng c /\ crng ci = cdom c /\
    (forall finv, cinv c = Some finv -> (forall x, finv (cfun c x) = x) -> forall x, cfun ci (cfun c x) = x).
  Proof. exact (cm_inverse_swaps_and_undoes R). Qed.

  Theorem as_coordinate_map_agrees_with_affine : forall a ainv x,
    cfun (cm_of_aff R r0 r1 radd rmul a ainv) x = happly r0 r1 radd rmul (amat a) x /\
    cdom (cm_of_aff R r0 r1 radd rmul a ainv) = adom a /\ crng (cm_of_aff R r0 r1 radd rmul a ainv) = arng a.
  Proof. exact (as_coordinate_map_agrees R r0 r1 radd rmul). Qed.
End GenericCMap.

Print Assumptions cmap_compose_apply.
Print Assumptions cmap_compose_refuses_mismatched_systems.
Print Assumptions cmap_reordered_domain_preserves_named_mapping.
Print Assumptions cmap_reordered_range_preserves_named_mapping.
Print Assumptions cmap_renamed_domain_only_relabels.
Print Assumptions cmap_renamed_range_only_relabels.
Print Assumptions cmap_product_acts_blockwise.
Print Assumptions cmap_inverse_swaps_and_undoes.
Print Assumptions as_coordinate_map_agrees_with_affine.

(* Every map produced by ANY finite program of operations (compose / product / reorder /
   rename / inverse / shift-origin / append-drop-axis) is a well-formed affine map:
   matrix shape = coordinate counts + 1, bottom row 0..0 1, coherent dtypes. *)
Theorem wf_preserved_by_every_program : forall ops env,
  Forall ZWF env ->
  (forall env', length env <= length env' -> Forall (fun o => op_ok env' o) ops) ->
  Forall ZWF (env_after env ops).
Proof. exact program_wf. Qed.
Print Assumptions wf_preserved_by_every_program.

(* the constructor establishes the invariant (so every implementation object the
   correspondence feeds to the model satisfies the theorems' hypotheses) *)
Theorem constructor_establishes_wf : forall d r mdt M a, zmk_aff d r mdt M = Ok a -> ZWF a.
Proof. exact zmk_wf. Qed.
Print Assumptions constructor_establishes_wf.

(* ---- non-vacuity: concrete maps meeting the hypotheses ---- *)
Open Scope string_scope.
Definition ex_dom := {| cnames := ["i"; "j"; "k"]; cname := "in"; cdt := 1 |}.
Definition ex_rng := {| cnames := ["x"; "y"]; cname := "out"; cdt := 1 |}.
Definition ex_M : list (list Z) := [[1; 2; 0; 5]; [0; -1; 3; 7]; [0; 0; 0; 1]]%Z.

Example ex_three_in_two_out :
  exists a, zmk_aff ex_dom ex_rng 1 ex_M = Ok a /\ ZWF a /\ zapply a [1; 1; 1]%Z = Ok [8; 9]%Z.
Proof.
  destruct (zmk_aff ex_dom ex_rng 1 ex_M) as [a|] eqn:E; [|vm_compute in E; discriminate].
  exists a. split; [reflexivity|]. split; [now apply zmk_wf in E|].
  vm_compute in E. injection E as <-. reflexivity.
Qed.

(* a 3-cycle reorder of the domain: names and columns move together *)
Example ex_three_cycle_reorder :
  match zmk_aff ex_dom ex_rng 1 ex_M with
  | Ok a => match zreordered_domain a [1; 2; 0] with
            | Ok b => cnames (adom b) = ["j"; "k"; "i"] /\
                      zapply b [20; 30; 10]%Z = zapply a [10; 20; 30]%Z
            | Err _ => False end
  | Err _ => False end.
Proof. vm_compute. split; reflexivity. Qed.

Example ex_mismatch_refused :
  match zmk_aff ex_dom ex_rng 1 ex_M with
  | Ok a => zcompose [a; a] = Err EValue
  | Err _ => False end.
Proof. vm_compute. reflexivity. Qed.

(* dropping the last input axis of a 4 -> 3 map by the negative index -1: 'l' and the 't' it drives go *)
Definition ex4_dom := {| cnames := ["i"; "j"; "k"; "l"]; cname := "in"; cdt := 1 |}.
Definition ex4_rng := {| cnames := ["x"; "y"; "t"]; cname := "out"; cdt := 1 |}.
Definition ex4_M : list (list Z) := [[0; 2; 0; 0; 10]; [0; 0; 3; 0; 20]; [0; 0; 0; 5; 30]; [0; 0; 0; 0; 1]]%Z.
Example ex_drop_last_by_negative_index :
  match zmk_aff ex4_dom ex4_rng 1 ex4_M with
  | Ok a => match drop_by_id Z 0%Z 1%Z Z.eqb a (AxInt (-1)) [None; Some 0; Some 1; Some 2] true with
            | Some (Ok b) => cnames (adom b) = ["i"; "j"; "k"] /\ cnames (arng b) = ["x"; "y"] /\
                             zapply b [1; 2; 3]%Z = Ok [14; 29]%Z /\ ZWF a
            | _ => False end
  | Err _ => False end.
Proof.
  destruct (zmk_aff ex4_dom ex4_rng 1 ex4_M) as [a|] eqn:E; [|vm_compute in E; discriminate].
  assert (W := zmk_wf _ _ _ _ _ E). vm_compute in E. injection E as <-. vm_compute. auto.
Qed.
