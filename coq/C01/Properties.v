From NV.C01 Require Import Model Exec.
