(* C01 - Z instance of the model and a small program language used by the
   correspondence check (evaluated with vm_compute). *)
From Coq Require Import String.
From Coq Require Import List Arith Bool ZArith.
From NV.Lib Require Import RingMat Harness.
From NV.C01 Require Import Model.
Import ListNotations.

Definition zaff := aff Z.
Definition zmk_aff := mk_aff Z 0%Z 1%Z Z.eqb.
Definition zapply := apply Z 0%Z 1%Z Z.add Z.mul.
Definition zcompose := compose Z 0%Z 1%Z Z.add Z.mul Z.eqb.
Definition zproduct := product Z 0%Z 1%Z Z.eqb.
Definition zreordered_domain := reordered_domain Z 0%Z 1%Z Z.add Z.mul Z.eqb.
Definition zreordered_range := reordered_range Z 0%Z 1%Z Z.add Z.mul Z.eqb.
Definition zrenamed_domain := renamed_domain Z 0%Z 1%Z Z.add Z.mul Z.eqb.
Definition zrenamed_range := renamed_range Z 0%Z 1%Z Z.add Z.mul Z.eqb.
Definition zshifted_domain_origin := shifted_domain_origin Z 0%Z 1%Z Z.add Z.mul Z.eqb.
Definition zshifted_range_origin := shifted_range_origin Z 0%Z 1%Z Z.add Z.mul Z.opp Z.eqb.
Definition zinverse_with := inverse_with Z 0%Z 1%Z Z.eqb.
Definition zappend_io_dim := append_io_dim Z 0%Z 1%Z Z.eqb.
Definition zdrop_io_dim := drop_io_dim Z 0%Z 1%Z Z.eqb.

Inductive op :=
| OCompose (srcs : list nat)
| OProduct (srcs : list nat)
| OReorderDom (src : nat) (order : list nat)
| OReorderRng (src : nat) (order : list nat)
| OReorderDomNames (src : nat) (order : list string)
| OReorderRngNames (src : nat) (order : list string)
| ORenameDom (src : nat) (nn : list (string * string))
| ORenameRng (src : nat) (nn : list (string * string))
| OShiftDom (src : nat) (d : list Z) (name : string)
| OShiftRng (src : nat) (d : list Z) (name : string)
| OInverse (src : nat) (Minv : list (list Z))
| OAppend (src : nat) (iname oname : string) (start step : Z)
| ODrop (src : nat) (i o : option nat) (fix0 : bool).

Definition dummy : zaff := Build_aff {| cnames := []; cname := ""; cdt := 0 |} {| cnames := []; cname := ""; cdt := 0 |} [].
Definition get (env : list zaff) (k : nat) : zaff := nth k env dummy.

Definition step (env : list zaff) (o : op) : res zaff :=
  match o with
  | OCompose srcs => zcompose (map (get env) srcs)
  | OProduct srcs => zproduct (map (get env) srcs) "product" "product"
  | OReorderDom s order => zreordered_domain (get env s) order
  | OReorderRng s order => zreordered_range (get env s) order
  | OReorderDomNames s order =>
      bind (resolve_names (cnames (adom (get env s))) order) (zreordered_domain (get env s))
  | OReorderRngNames s order =>
      bind (resolve_names (cnames (arng (get env s))) order) (zreordered_range (get env s))
  | ORenameDom s nn => zrenamed_domain (get env s) nn
  | ORenameRng s nn => zrenamed_range (get env s) nn
  | OShiftDom s d nm => zshifted_domain_origin (get env s) d nm
  | OShiftRng s d nm => zshifted_range_origin (get env s) d nm
  | OInverse s Minv => zinverse_with (get env s) Minv
  | OAppend s i o st sp => zappend_io_dim (get env s) i o st sp
  | ODrop s i o f => zdrop_io_dim (get env s) i o f
  end.

(* every successful step appends its result to the environment *)
Fixpoint run (env : list zaff) (ops : list op) : list (res zaff) :=
  match ops with
  | [] => []
  | o :: rest =>
    let r := step env o in
    r :: run (match r with Ok a => env ++ [a] | Err _ => env end) rest
  end.

Definition cs_same (a b : csys) : bool := cs_eqb a b.
Definition aff_eqb (a b : zaff) : bool :=
  cs_same (adom a) (adom b) && cs_same (arng a) (arng b) && zmat_eqb (amat a) (amat b).
Definition err_eqb (a b : err) : bool :=
  match a, b with EValue, EValue | EAxis, EAxis | ECoordSys, ECoordSys => true | _, _ => false end.
Definition res_eqb (a b : res zaff) : bool :=
  match a, b with
  | Ok x, Ok y => aff_eqb x y
  | Err e, Err f => err_eqb e f
  | _, _ => false
  end.
Definition run_agrees (env : list zaff) (ops : list op) (expected : list (res zaff)) : bool :=
  list_eqb res_eqb (run env ops) expected.

(* point evaluation *)
Definition apply_agrees (a : zaff) (x y : list Z) : bool :=
  match zapply a x with Ok v => zlist_eqb v y | Err _ => false end.

Fixpoint zip_eqb (a b : list (res zaff)) : list bool :=
  match a, b with
  | x :: a', y :: b' => res_eqb x y :: zip_eqb a' b'
  | _, _ => []
  end.
Definition run_diff (env : list zaff) (ops : list op) (expected : list (res zaff)) : list bool :=
  zip_eqb (run env ops) expected.

(* ---------------------------------------------------------------- general CoordinateMap (Z instance) *)
From NV.C01 Require Import CMap.
Definition zcm := cmap Z.
Definition zcm_of (a : zaff) : zcm := cm_of_aff Z 0%Z 1%Z Z.add Z.mul a None.

Inductive cop :=
| CReorderDom (order : list nat)
| CReorderRng (order : list nat)
| CRenameDom (nn : list (string * string))
| CRenameRng (nn : list (string * string))
| CComposeLeft (other : zaff)     (* compose(other_as_cmap, current) *)
| CComposeRight (other : zaff)    (* compose(current, other_as_cmap) *)
| CProductWith (other : zaff).

Definition cm_step (c : zcm) (o : cop) : res zcm :=
  match o with
  | CReorderDom order => cm_reordered_domain Z 0%Z 1%Z Z.add Z.mul c order
  | CReorderRng order => cm_reordered_range Z 0%Z 1%Z Z.add Z.mul c order
  | CRenameDom nn => cm_renamed_domain Z c nn
  | CRenameRng nn => cm_renamed_range Z c nn
  | CComposeLeft other => cm_compose Z [zcm_of other; c]
  | CComposeRight other => cm_compose Z [c; zcm_of other]
  | CProductWith other => cm_product Z [c; zcm_of other] "product" "product"
  end.

Fixpoint cm_run (c : zcm) (ops : list cop) : res zcm :=
  match ops with
  | [] => Ok c
  | o :: rest => bind (cm_step c o) (fun c' => cm_run c' rest)
  end.

(* expected: None = the implementation refused somewhere in the chain;
   Some (domain names, range names, value at x) otherwise *)
Definition cm_chain_agrees (a : zaff) (ops : list cop) (x : list Z)
           (expected : option (list string * list string * list Z)) : bool :=
  match cm_run (zcm_of a) ops, expected with
  | Err _, None => true
  | Ok c, Some (dn, rn, y) =>
      strl_eqb (cnames (cdom c)) dn && strl_eqb (cnames (crng c)) rn &&
      match cm_apply Z c x with Ok v => zlist_eqb v y | Err _ => false end
  | _, _ => false
  end.

(* ---------------------------------------------------------------- axis identification (Z instance) *)
From NV.C01 Require Import Axes.
Definition zfix0 := fix0 Z 0%Z 1%Z Z.eqb.
Definition zdrop_by_id := drop_by_id Z 0%Z 1%Z Z.eqb.
Definition io_axis_agrees (ins outs : list string) (ornts : list (option nat)) (ax : axis_id)
           (expected : axres) : bool :=
  axres_eqb (io_axis_indices ins outs ornts ax) expected.
Definition fix0_agrees (M E : list (list Z)) : bool := zmat_eqb (zfix0 M) E.
(* expected: None = KeyError *)
Definition drop_id_agrees (a : zaff) (ax : axis_id) (ornts : list (option nat)) (f : bool)
           (expected : option (res zaff)) : bool :=
  match zdrop_by_id a ax ornts f, expected with
  | None, None => true
  | Some r, Some e => res_eqb r e
  | _, _ => false
  end.

(* ---------------------------------------------------------------- batches of points (Z instance) *)
From NV.C01 Require Import Batch.
Definition zbatch_apply := batch_apply Z 0%Z 1%Z Z.add Z.mul.
(* expected: None = CoordinateSystemError *)
Definition batch_agrees (a : zaff) (rows : nat) (flat : list Z) (expected : option (list Z)) : bool :=
  match zbatch_apply a rows flat, expected with
  | Ok v, Some e => zlist_eqb v e
  | Err _, None => true
  | _, _ => false
  end.
