(* C01 - lemmas about the coordinate-map model, over any commutative ring. *)
From Coq Require Import String.
From Coq Require Import List Arith Lia Bool ZArith Permutation Ring.
From NV.Lib Require Import RingMat.
From NV.C01 Require Import Model.
Import ListNotations.

Section Proofs.
  Variable R : Type.
  Variables (r0 r1 : R) (radd rmul rsub : R -> R -> R) (ropp : R -> R).
  Variable reqb : R -> R -> bool.
  Hypothesis Rth : ring_theory r0 r1 radd rmul rsub ropp (@eq R).
  Hypothesis reqb_spec : forall x y, reqb x y = true <-> x = y.
  Add Ring Rring : Rth.

  Local Notation mat := (list (list R)).
  Local Notation vec := (list R).
  Local Notation Aff := (aff R).
  Local Notation Mid := (mid r0 r1).
  Local Notation Mm := (mm r0 radd rmul).
  Local Notation Mv := (mv r0 radd rmul).
  Local Notation Happly := (happly r0 r1 radd rmul).
  Local Notation WfAff := (wf_aff r0 r1).
  Local Notation MkAff := (mk_aff R r0 r1 reqb).
  Local Notation Apply := (apply R r0 r1 radd rmul).
  Local Notation Compose := (compose R r0 r1 radd rmul reqb).
  Local Notation ComposeFrom := (compose_from R r0 r1 radd rmul reqb).

  (* the well-formedness invariant of an affine map *)
  Definition WFm (a : Aff) : Prop :=
    WfAff (cs_ndim (arng a)) (cs_ndim (adom a)) (amat a).
  Definition WF (a : Aff) : Prop := WFm a /\ cdt (adom a) = cdt (arng a).

  Lemma vec_eqb_eq a b : vec_eqb R reqb a b = true -> a = b.
  Proof.
    revert b; induction a as [|x a IH]; intros [|y b]; simpl; intros H; try discriminate; auto.
    apply andb_true_iff in H. destruct H as [H1 H2]. apply reqb_spec in H1. subst.
    f_equal. now apply IH.
  Qed.

  Lemma cs_retype_ndim c dt : cs_ndim (cs_retype c dt) = cs_ndim c.
  Proof. reflexivity. Qed.

  (* what a successful constructor call guarantees *)
  Lemma mk_aff_ok d r mdt M a :
    MkAff d r mdt M = Ok a ->
    amat a = M /\ cnames (adom a) = cnames d /\ cnames (arng a) = cnames r /\
    cname (adom a) = cname d /\ cname (arng a) = cname r /\ cdt (adom a) = cdt (arng a) /\ WF a.
  Proof.
    unfold mk_aff. intros H.
    destruct (Nat.eqb (length M) (S (cs_ndim r)) &&
              forallb (fun row => Nat.eqb (length row) (S (cs_ndim d))) M) eqn:Hs; [|discriminate].
    cbn [negb] in H.
    destruct (vec_eqb R reqb (last M []) (bottom_row r0 r1 (cs_ndim d))) eqn:Hb; [|discriminate].
    cbn [negb] in H. injection H as <-. cbn [amat adom arng cnames cname cdt cs_retype].
    repeat split; try reflexivity.
    unfold WFm. cbn [amat adom arng]. unfold cs_ndim in *. cbn [cnames cs_retype] in *.
    apply andb_true_iff in Hs. destruct Hs as [Hl Hr]. apply Nat.eqb_eq in Hl.
    apply vec_eqb_eq in Hb.
    assert (HM : M <> []) by (intro E; subst; discriminate).
    exists (removelast M). split; [|split].
    - cbn [cs_retype cnames]. rewrite <- Hb. now apply app_removelast_last.
    - assert (E := app_removelast_last [] HM). apply (f_equal (@length _)) in E.
      rewrite app_length in E. cbn [length] in E. cbn [cs_retype cnames]. rewrite Hl in E. rewrite Nat.add_1_r in E. now injection E.
    - unfold rows_len. apply Forall_forall. intros row Hin.
      rewrite forallb_forall in Hr. apply Nat.eqb_eq, Hr.
      rewrite (app_removelast_last [] HM). apply in_or_app. now left.
  Qed.

  Lemma apply_ok (a : Aff) x : length x = cs_ndim (adom a) -> Apply a x = Ok (Happly (amat a) x).
  Proof. intros H. unfold apply. now rewrite H, Nat.eqb_refl. Qed.

  Lemma strl_eqb_eq a b : strl_eqb a b = true -> a = b.
  Proof.
    revert b; induction a as [|x a IH]; intros [|y b]; simpl; intros H; try discriminate; auto.
    apply andb_true_iff in H. destruct H as [H1 H2]. apply String.eqb_eq in H1. subst.
    f_equal. now apply IH.
  Qed.

  Lemma cs_eqb_ndim a b : cs_eqb a b = true -> cs_ndim a = cs_ndim b.
  Proof.
    unfold cs_eqb, cs_ndim. intros H. apply andb_true_iff in H. destruct H as [H _].
    apply andb_true_iff in H. destruct H as [H _]. now rewrite (strl_eqb_eq _ _ H).
  Qed.

  (* sequential application, rightmost map first *)
  Fixpoint apply_seq (rev_affs : list Aff) (x : vec) : vec :=
    match rev_affs with
    | [] => x
    | a :: rest => apply_seq rest (Happly (amat a) x)
    end.

  Lemma compose_from_apply rest : forall cur c,
    WF cur -> Forall WF rest ->
    ComposeFrom cur rest = Ok c ->
    WF c /\ cnames (adom c) = cnames (adom cur) /\ cname (adom c) = cname (adom cur) /\
    forall x, length x = cs_ndim (adom cur) ->
      Happly (amat c) x = apply_seq rest (Happly (amat cur) x).
  Proof.
    induction rest as [|f rest IH]; intros cur c Hcur Hrest H.
    - cbn [compose_from] in H. injection H as <-. split; [exact Hcur|]. split; [reflexivity|]. split; [reflexivity|].
      intros x _. reflexivity.
    - cbn [compose_from] in H.
      destruct (cs_eqb (adom f) (arng cur)) eqn:Hg; [|discriminate].
      unfold bind in H.
      destruct (MkAff (adom cur) (arng f) (Nat.max (aff_dt R f) (aff_dt R cur))
                      (Mm (S (cs_ndim (adom cur))) (amat f) (amat cur))) as [cur'|e] eqn:Hm; [|discriminate].
      inversion Hrest as [|? ? Hf Hrest']; subst.
      destruct (mk_aff_ok _ _ _ _ _ Hm) as [Em [En1 [En2 [Ec1 [Ec2 [_ Hwf']]]]]].
      destruct (IH cur' c Hwf' Hrest' H) as [Hc [Hn [Hcn Happ]]].
      split; [exact Hc|]. split; [congruence|]. split; [congruence|].
      intros x Hx.
      assert (Hnd : cs_ndim (adom cur') = cs_ndim (adom cur)) by (unfold cs_ndim; now rewrite En1).
      rewrite Happ by (rewrite Hnd; exact Hx). cbn [apply_seq]. f_equal.
      rewrite Em. destruct Hf as [Hf _], Hcur as [Hcur _]. unfold WFm in Hf, Hcur.
      rewrite (cs_eqb_ndim _ _ Hg) in Hf.
      now apply (happly_mm R r0 r1 radd rmul rsub ropp Rth) with (nout := cs_ndim (arng f)) (nmid := cs_ndim (arng cur)).
  Qed.

  Lemma mid_mk_aff_id d mdt c x :
    MkAff d d mdt (Mid (S (cs_ndim d))) = Ok c -> length x = cs_ndim d -> Happly (amat c) x = x.
  Proof.
    intros H Hx. destruct (mk_aff_ok _ _ _ _ _ H) as [Em _]. rewrite Em.
    now apply (happly_mid R r0 r1 radd rmul rsub ropp Rth).
  Qed.

  (* compose_apply: evaluating a composition = applying the maps one after the other *)
  Theorem compose_apply_gen affs c :
    Forall WF affs -> Compose affs = Ok c ->
    WF c /\
    (exists lastA, last affs lastA = lastA /\ In lastA affs /\
       cnames (adom c) = cnames (adom lastA) /\ cname (adom c) = cname (adom lastA) /\
       forall x, length x = cs_ndim (adom lastA) ->
         Apply c x = Ok (apply_seq (rev affs) x)).
  Proof.
    intros Hwf H. unfold compose in H.
    destruct (rev affs) as [|lastA rest] eqn:Hrev; [discriminate|].
    unfold bind in H.
    destruct (MkAff (adom lastA) (adom lastA) (aff_dt R lastA) (Mid (S (cs_ndim (adom lastA))))) as [cur|e] eqn:Hm;
      [|discriminate].
    destruct (mk_aff_ok _ _ _ _ _ Hm) as [Em [En1 [En2 [Ec1 [Ec2 [_ Hwfc]]]]]].
    assert (Hrw : Forall WF (lastA :: rest)).
    { rewrite <- Hrev. apply Forall_forall. intros a Ha. rewrite Forall_forall in Hwf.
      apply Hwf. now apply in_rev. }
    destruct (compose_from_apply (lastA :: rest) cur c Hwfc Hrw H) as [Hc [Hn [Hcn Happ]]].
    split; [exact Hc|]. exists lastA.
    assert (Hin : In lastA affs) by (apply in_rev; rewrite Hrev; now left).
    assert (Hlast : last affs lastA = lastA).
    { assert (E : affs = rev rest ++ [lastA]).
      { rewrite <- (rev_involutive affs), Hrev. reflexivity. }
      rewrite E. apply last_last. }
    split; [exact Hlast|]. split; [exact Hin|].
    split; [congruence|]. split; [congruence|].
    intros x Hx.
    assert (Hnd : cs_ndim (adom cur) = cs_ndim (adom lastA)) by (unfold cs_ndim; now rewrite En1).
    assert (Hndc : cs_ndim (adom c) = cs_ndim (adom lastA)) by (unfold cs_ndim; rewrite Hn; exact Hnd).
    rewrite apply_ok by (rewrite Hndc; exact Hx). f_equal.
    rewrite Happ by (rewrite Hnd; exact Hx).
    now rewrite (mid_mk_aff_id _ _ _ _ Hm Hx).
  Qed.

  (* binary special case in the usual notation *)
  Corollary compose2_apply f g c x :
    WF f -> WF g -> Compose [f; g] = Ok c -> length x = cs_ndim (adom g) ->
    Apply c x = Ok (Happly (amat f) (Happly (amat g) x)).
  Proof.
    intros Hf Hg H Hx.
    destruct (compose_apply_gen [f; g] c (Forall_cons _ Hf (Forall_cons _ Hg (Forall_nil _))) H)
      as [_ [lastA [Hl [_ [_ [_ Happ]]]]]].
    cbn [last] in Hl. subst lastA. now rewrite Happ by exact Hx.
  Qed.


  (* ------------------------------------------------------------ helpers *)
  Local Notation Dot := (dot r0 radd rmul).

  Lemma happly_hom_embed n (P : mat) x :
    rows_len n P -> length x = n ->
    Happly (hom_embed R r0 r1 n P) x = Mv P x.
  Proof.
    intros HP Hx. unfold happly, hom_embed, mv, hom. rewrite map_app, map_map. cbn [map].
    rewrite removelast_last. apply map_ext_in. intros row Hin.
    unfold rows_len in HP. rewrite Forall_forall in HP.
    rewrite (dot_app R r0 r1 radd rmul rsub ropp Rth) by (rewrite (HP _ Hin); auto).
    cbn [dot]. ring.
  Qed.

  Lemma hom_embed_wf n m (P : mat) :
    length P = m -> rows_len n P -> WfAff m n (hom_embed R r0 r1 n P).
  Proof.
    intros Hl HP. exists (map (fun row => row ++ [r0]) P). split; [reflexivity|]. split.
    - now rewrite map_length.
    - unfold rows_len in *. apply Forall_forall. intros row Hin. apply in_map_iff in Hin.
      destruct Hin as [r' [<- Hr']]. rewrite Forall_forall in HP. rewrite app_length, (HP _ Hr'). simpl. lia.
  Qed.

  Lemma nat_in_In i l : nat_in i l = true <-> In i l.
  Proof.
    induction l as [|x l IH]; simpl; [split; [discriminate|tauto]|].
    rewrite orb_true_iff, Nat.eqb_eq, IH. tauto.
  Qed.

  Lemma is_perm_Permutation n order : is_perm n order = true -> Permutation order (seq 0 n).
  Proof.
    unfold is_perm. intros H. apply andb_true_iff in H. destruct H as [Hl Hall].
    apply Nat.eqb_eq in Hl. rewrite forallb_forall in Hall.
    apply Permutation_sym. apply NoDup_Permutation_bis.
    - apply seq_NoDup.
    - rewrite seq_length. lia.
    - intros i Hi. apply nat_in_In. now apply Hall.
  Qed.

  Lemma natl_eqb_eq a b : natl_eqb a b = true -> a = b.
  Proof.
    revert b; induction a as [|x a IH]; intros [|y b]; simpl; intros H; try discriminate; auto.
    apply andb_true_iff in H. destruct H as [H1 H2]. apply Nat.eqb_eq in H1. subst.
    f_equal. now apply IH.
  Qed.

  Lemma mk_cs_ok names name dt c : mk_cs names name dt = Ok c -> cnames c = names /\ cname c = name /\ cdt c = dt.
  Proof. unfold mk_cs. destruct (str_nodup names); [|discriminate]. intros H. injection H as <-. auto. Qed.

  Lemma scat_rows_len n order : length order = n -> rows_len n (scat_mat r0 r1 n order).
  Proof.
    intros H. unfold rows_len, scat_mat. apply Forall_forall. intros row Hin.
    apply in_map_iff in Hin. destruct Hin as [j [<- _]]. now rewrite map_length.
  Qed.

  Lemma sel_rows_len n order : rows_len n (sel_mat r0 r1 n order).
  Proof.
    unfold rows_len, sel_mat. apply Forall_forall. intros row Hin.
    apply in_map_iff in Hin. destruct Hin as [j [<- _]]. unfold unit_vec. now rewrite map_length, seq_length.
  Qed.

  Lemma map_nth_seq_id {A} (l : list A) d : map (fun i => nth i l d) (seq 0 (length l)) = l.
  Proof.
    apply nth_ext with (d := d) (d' := d).
    - now rewrite map_length, seq_length.
    - intros i Hi. rewrite map_length, seq_length in Hi.
      rewrite nth_indep with (d' := (fun i => nth i l d) 0) by (rewrite map_length, seq_length; exact Hi).
      now rewrite (map_nth (fun i => nth i l d)), seq_nth by exact Hi.
  Qed.

  (* ------------------------------------------------------------ reordering *)
  (* old input axis j carries value g j; the reordered map receives, on its axis i
     (named like old axis order[i]), the value g (order[i]) - and returns the same outputs *)
  Theorem reorder_domain_named a order b (g : nat -> R) :
    WF a -> reordered_domain R r0 r1 radd rmul reqb a order = Ok b ->
    Apply b (map g order) = Apply a (map g (seq 0 (cs_ndim (adom a)))) /\
    cnames (adom b) = map (fun i => nth i (cnames (adom a)) EmptyString) order /\
    cnames (arng b) = cnames (arng a) /\ Permutation order (seq 0 (cs_ndim (adom a))).
  Proof.
    intros Hwf H. unfold reordered_domain in H.
    set (n := cs_ndim (adom a)) in *.
    destruct (is_perm n order) eqn:Hp; [|discriminate]. cbn [negb] in H.
    assert (P := is_perm_Permutation _ _ Hp).
    assert (Hlen : length order = n) by (rewrite (Permutation_length P); apply seq_length).
    destruct (natl_eqb order (seq 0 n)) eqn:Hid.
    - injection H as <-. apply natl_eqb_eq in Hid. rewrite Hid.
      split; [reflexivity|]. split; [unfold n, cs_ndim; now rewrite map_nth_seq_id|].
      split; [reflexivity|]. apply Permutation_refl.
    - unfold bind in H.
      destruct (mk_cs (map (fun i => nth i (cnames (adom a)) EmptyString) order) (cname (adom a)) (cdt (adom a)))
        as [nd|e] eqn:Hcs; [|discriminate].
      destruct (MkAff nd (adom a) (cdt (adom a)) (hom_embed R r0 r1 n (scat_mat r0 r1 n order))) as [A|e] eqn:HA;
        [|discriminate].
      destruct (mk_cs_ok _ _ _ _ Hcs) as [Hnd1 [Hnd2 Hnd3]].
      destruct (mk_aff_ok _ _ _ _ _ HA) as [EA [EAn1 [EAn2 [_ [_ [EAdt HwfA]]]]]].
      assert (HWA : WF A) by exact HwfA.
      assert (HndA : cs_ndim (adom A) = n).
      { unfold cs_ndim. rewrite EAn1, Hnd1, map_length. exact Hlen. }
      destruct (compose_apply_gen [a; A] b (Forall_cons _ Hwf (Forall_cons _ HWA (Forall_nil _))) H)
        as [_ [lastA [Hl [_ [Hn1 [_ Happ]]]]]].
      cbn [last] in Hl. subst lastA.
      split; [|split; [|split]].
      + rewrite Happ by (rewrite map_length, HndA; exact Hlen). cbn [rev app apply_seq].
        rewrite apply_ok by (rewrite map_length, seq_length; reflexivity). f_equal. f_equal.
        rewrite EA. rewrite happly_hom_embed by (try apply scat_rows_len; try rewrite map_length; auto).
        now apply (mv_scat R r0 r1 radd rmul rsub ropp Rth).
      + rewrite Hn1, EAn1. exact Hnd1.
      + (* range names come from a through the last mk_aff of the composition *)
        unfold compose in H. cbn [rev app] in H. unfold bind in H.
        destruct (MkAff (adom A) (adom A) (aff_dt R A) (Mid (S (cs_ndim (adom A))))) as [c0|e0]; [|discriminate].
        cbn [compose_from] in H.
        destruct (cs_eqb (adom A) (arng c0)); [|discriminate]. unfold bind in H.
        destruct (MkAff (adom c0) (arng A) (Nat.max (aff_dt R A) (aff_dt R c0))
                        (Mm (S (cs_ndim (adom c0))) (amat A) (amat c0))) as [c1|e1]; [|discriminate].
        cbn [compose_from] in H.
        destruct (cs_eqb (adom a) (arng c1)); [|discriminate]. unfold bind in H.
        destruct (MkAff (adom c1) (arng a) (Nat.max (aff_dt R a) (aff_dt R c1))
                        (Mm (S (cs_ndim (adom c1))) (amat a) (amat c1))) as [c2|e2] eqn:H2; [|discriminate].
        cbn [compose_from] in H. injection H as <-.
        now destruct (mk_aff_ok _ _ _ _ _ H2) as [_ [_ [E _]]].
      + exact P.
  Qed.

  Lemma compose2_systems f g b :
    Compose [f; g] = Ok b ->
    cnames (arng b) = cnames (arng f) /\ cname (arng b) = cname (arng f) /\
    cnames (adom b) = cnames (adom g) /\ cname (adom b) = cname (adom g) /\
    cs_ndim (adom f) = cs_ndim (arng g).
  Proof.
    intros H. unfold compose in H. cbn [rev app] in H. unfold bind in H.
    destruct (MkAff (adom g) (adom g) (aff_dt R g) (Mid (S (cs_ndim (adom g))))) as [c0|e0] eqn:H0; [|discriminate].
    cbn [compose_from] in H.
    destruct (cs_eqb (adom g) (arng c0)); [|discriminate]. unfold bind in H.
    destruct (MkAff (adom c0) (arng g) (Nat.max (aff_dt R g) (aff_dt R c0))
                    (Mm (S (cs_ndim (adom c0))) (amat g) (amat c0))) as [c1|e1] eqn:H1; [|discriminate].
    cbn [compose_from] in H.
    destruct (cs_eqb (adom f) (arng c1)) eqn:Hg; [|discriminate]. unfold bind in H.
    destruct (MkAff (adom c1) (arng f) (Nat.max (aff_dt R f) (aff_dt R c1))
                    (Mm (S (cs_ndim (adom c1))) (amat f) (amat c1))) as [c2|e2] eqn:H2; [|discriminate].
    cbn [compose_from] in H. injection H as <-.
    destruct (mk_aff_ok _ _ _ _ _ H0) as [_ [A1 [_ [A2 _]]]].
    destruct (mk_aff_ok _ _ _ _ _ H1) as [_ [B1 [B2 [B3 [B4 _]]]]].
    destruct (mk_aff_ok _ _ _ _ _ H2) as [_ [C1 [C2 [C3 [C4 _]]]]].
    repeat split; try congruence.
    rewrite (cs_eqb_ndim _ _ Hg). unfold cs_ndim. now rewrite B2.
  Qed.

  Theorem reorder_range_named a order b x :
    WF a -> reordered_range R r0 r1 radd rmul reqb a order = Ok b -> length x = cs_ndim (adom a) ->
    Apply b x = Ok (map (fun o => nth o (Happly (amat a) x) r0) order) /\
    cnames (arng b) = map (fun i => nth i (cnames (arng a)) EmptyString) order /\
    cnames (adom b) = cnames (adom a) /\ Permutation order (seq 0 (cs_ndim (arng a))).
  Proof.
    intros Hwf H Hx. unfold reordered_range in H.
    set (n := cs_ndim (arng a)) in *.
    destruct (is_perm n order) eqn:Hp; [|discriminate]. cbn [negb] in H.
    assert (P := is_perm_Permutation _ _ Hp).
    assert (Hlen : length order = n) by (rewrite (Permutation_length P); apply seq_length).
    assert (Hy : length (Happly (amat a) x) = n).
    { destruct Hwf as [Hm _]. eapply happly_length; exact Hm. }
    destruct (natl_eqb order (seq 0 n)) eqn:Hid.
    - injection H as <-. apply natl_eqb_eq in Hid. rewrite Hid.
      split; [|split; [|split]].
      + rewrite apply_ok by exact Hx. f_equal. rewrite <- Hy. now rewrite map_nth_seq_id.
      + unfold n, cs_ndim. now rewrite map_nth_seq_id.
      + reflexivity.
      + apply Permutation_refl.
    - unfold bind in H.
      destruct (mk_cs (map (fun i => nth i (cnames (arng a)) EmptyString) order) (cname (arng a)) (cdt (arng a)))
        as [nr|e] eqn:Hcs; [|discriminate].
      destruct (MkAff (arng a) nr (cdt (arng a)) (hom_embed R r0 r1 n (sel_mat r0 r1 n order))) as [A|e] eqn:HA;
        [|discriminate].
      destruct (mk_cs_ok _ _ _ _ Hcs) as [Hnr1 [Hnr2 Hnr3]].
      destruct (mk_aff_ok _ _ _ _ _ HA) as [EA [EAn1 [EAn2 [_ [_ [EAdt HWA]]]]]].
      assert (HndA : cs_ndim (adom A) = n) by (unfold cs_ndim; now rewrite EAn1).
      destruct (compose2_systems _ _ _ H) as [S1 [_ [S3 _]]].
      split; [|split; [|split]].
      + rewrite (compose2_apply A a b x HWA Hwf H Hx). f_equal.
        rewrite EA. rewrite happly_hom_embed by (try apply sel_rows_len; auto).
        apply (mv_sel R r0 r1 radd rmul rsub ropp Rth).
        apply Forall_forall. intros o Ho.
        assert (In o (seq 0 n)) by (eapply Permutation_in; [exact P|exact Ho]).
        apply in_seq in H0. lia.
      + rewrite S1, EAn2. exact Hnr1.
      + exact S3.
      + exact P.
  Qed.

  (* ------------------------------------------------------------ renaming *)
  Theorem rename_domain_relabels a nn b x :
    WF a -> renamed_domain R r0 r1 radd rmul reqb a nn = Ok b -> length x = cs_ndim (adom a) ->
    Apply b x = Apply a x /\
    cnames (adom b) = rename_list (cnames (adom a)) nn /\ cnames (arng b) = cnames (arng a).
  Proof.
    intros Hwf H Hx. unfold renamed_domain in H.
    destruct (forallb (fun kv => str_in (fst kv) (cnames (adom a))) nn); [|discriminate]. cbn [negb] in H.
    unfold bind in H.
    destruct (mk_cs (rename_list (cnames (adom a)) nn) (cname (adom a)) (cdt (adom a))) as [nd|e] eqn:Hcs; [|discriminate].
    destruct (MkAff nd (adom a) 1 (Mid (S (cs_ndim (adom a))))) as [I|e] eqn:HI; [|discriminate].
    destruct (mk_cs_ok _ _ _ _ Hcs) as [Hnd1 _].
    destruct (mk_aff_ok _ _ _ _ _ HI) as [EI [EIn1 [EIn2 [_ [_ [_ HWI]]]]]].
    assert (HndI : cs_ndim (adom I) = cs_ndim (adom a)).
    { unfold cs_ndim. rewrite EIn1, Hnd1. unfold rename_list. now rewrite map_length. }
    destruct (compose2_systems _ _ _ H) as [S1 [_ [S3 _]]].
    split; [|split].
    - rewrite (compose2_apply a I b x Hwf HWI H) by (rewrite HndI; exact Hx).
      rewrite apply_ok by exact Hx. f_equal. f_equal. rewrite EI.
      now apply (happly_mid R r0 r1 radd rmul rsub ropp Rth).
    - rewrite S3, EIn1. exact Hnd1.
    - exact S1.
  Qed.

  Theorem rename_range_relabels a nn b x :
    WF a -> renamed_range R r0 r1 radd rmul reqb a nn = Ok b -> length x = cs_ndim (adom a) ->
    Apply b x = Apply a x /\
    cnames (arng b) = rename_list (cnames (arng a)) nn /\ cnames (adom b) = cnames (adom a).
  Proof.
    intros Hwf H Hx. unfold renamed_range in H.
    destruct (forallb (fun kv => str_in (fst kv) (cnames (arng a))) nn); [|discriminate]. cbn [negb] in H.
    unfold bind in H.
    destruct (mk_cs (rename_list (cnames (arng a)) nn) (cname (arng a)) (cdt (arng a))) as [nr|e] eqn:Hcs; [|discriminate].
    destruct (MkAff (arng a) nr 1 (Mid (S (cs_ndim (arng a))))) as [I|e] eqn:HI; [|discriminate].
    destruct (mk_cs_ok _ _ _ _ Hcs) as [Hnr1 _].
    destruct (mk_aff_ok _ _ _ _ _ HI) as [EI [EIn1 [EIn2 [_ [_ [_ HWI]]]]]].
    destruct (compose2_systems _ _ _ H) as [S1 [_ [S3 _]]].
    split; [|split].
    - rewrite (compose2_apply I a b x HWI Hwf H Hx).
      rewrite apply_ok by exact Hx. f_equal. rewrite EI.
      apply (happly_mid R r0 r1 radd rmul rsub ropp Rth).
      destruct Hwf as [Hm _]. eapply happly_length; exact Hm.
    - rewrite S1, EIn2. exact Hnr1.
    - exact S3.
  Qed.

  (* ------------------------------------------------------------ inverse *)
  (* Minv is whatever the linear-algebra oracle returned; if it is a two-sided
     inverse of the matrix, the resulting map undoes the map, and the systems are swapped *)
  Theorem inverse_undoes a Minv b x y :
    WF a -> inverse_with R r0 r1 reqb a Minv = Ok b ->
    Mm (S (cs_ndim (adom a))) Minv (amat a) = Mid (S (cs_ndim (adom a))) ->
    Mm (S (cs_ndim (arng a))) (amat a) Minv = Mid (S (cs_ndim (arng a))) ->
    length x = cs_ndim (adom a) -> length y = cs_ndim (arng a) ->
    Happly (amat b) (Happly (amat a) x) = x /\ Happly (amat a) (Happly (amat b) y) = y /\
    cnames (adom b) = cnames (arng a) /\ cnames (arng b) = cnames (adom a).
  Proof.
    intros [Hwf _] H Hl Hr Hx Hy. unfold inverse_with in H.
    destruct (mk_aff_ok _ _ _ _ _ H) as [Eb [En1 [En2 [_ [_ [_ [Hwb _]]]]]]].
    unfold WFm in Hwb. rewrite Eb in *.
    assert (D1 : cs_ndim (adom b) = cs_ndim (arng a)) by (unfold cs_ndim; now rewrite En1).
    assert (D2 : cs_ndim (arng b) = cs_ndim (adom a)) by (unfold cs_ndim; now rewrite En2).
    rewrite D1, D2 in Hwb.
    split; [|split; [|split]]; auto.
    - rewrite <- (happly_mm R r0 r1 radd rmul rsub ropp Rth) with (nout := cs_ndim (adom a)) (nmid := cs_ndim (arng a))
        (nin := cs_ndim (adom a)) by assumption.
      rewrite Hl. now apply (happly_mid R r0 r1 radd rmul rsub ropp Rth).
    - rewrite <- (happly_mm R r0 r1 radd rmul rsub ropp Rth) with (nout := cs_ndim (arng a)) (nmid := cs_ndim (adom a))
        (nin := cs_ndim (arng a)) by assumption.
      rewrite Hr. now apply (happly_mid R r0 r1 radd rmul rsub ropp Rth).
  Qed.

  (* ------------------------------------------------------------ shifting the origin *)
  Local Notation Vadd := (vadd radd).

  Lemma removelast_unit_vec n i : removelast (unit_vec r0 r1 (S n) i) = unit_vec r0 r1 n i.
  Proof. unfold unit_vec. rewrite seq_S, map_app. cbn [map]. apply removelast_last. Qed.

  Lemma vadd_nth x v i : length x = length v -> i < length x ->
    nth i (Vadd x v) r0 = radd (nth i x r0) (nth i v r0).
  Proof.
    revert v i; induction x as [|a x IH]; intros [|b v] i Hl Hi; simpl in *; try lia; try discriminate.
    destruct i; [reflexivity|]. apply IH; lia.
  Qed.

  Lemma shift_mat_apply n v x :
    length x = n -> length v = n -> Happly (shift_mat R r0 r1 n v) x = Vadd x v.
  Proof.
    intros Hx Hv. unfold happly, shift_mat, mv, hom. rewrite map_app, map_map. cbn [map].
    rewrite removelast_last.
    apply nth_ext with (d := r0) (d' := r0).
    - rewrite map_length, combine_length, seq_length, (vadd_length R radd) by congruence. lia.
    - intros i Hi. rewrite map_length, combine_length, seq_length, Hv, Nat.min_id in Hi.
      set (F := fun iv : nat * R => Dot (removelast (unit_vec r0 r1 (S n) (fst iv)) ++ [snd iv]) (x ++ [r1])).
      rewrite nth_indep with (d' := F (0, r0)) by (rewrite map_length, combine_length, seq_length, Hv, Nat.min_id; exact Hi).
      rewrite (map_nth F), combine_nth by (rewrite seq_length; congruence).
      rewrite seq_nth by exact Hi. unfold F. cbn [fst snd Nat.add].
      rewrite removelast_unit_vec.
      rewrite (dot_app R r0 r1 radd rmul rsub ropp Rth) by (unfold unit_vec; rewrite map_length, seq_length; congruence).
      rewrite (dot_unit R r0 r1 radd rmul rsub ropp Rth) by exact Hi.
      rewrite vadd_nth by congruence. cbn [dot]. ring.
  Qed.

  Theorem shift_domain_apply a d nm b x :
    WF a -> shifted_domain_origin R r0 r1 radd rmul reqb a d nm = Ok b -> length x = cs_ndim (adom a) ->
    Apply b x = Apply a (Vadd x d) /\ cnames (adom b) = cnames (adom a) /\ cname (adom b) = nm /\
    cnames (arng b) = cnames (arng a).
  Proof.
    intros Hwf H Hx. unfold shifted_domain_origin in H.
    destruct (Nat.eqb (length d) (cs_ndim (adom a))) eqn:Hd; [|discriminate]. cbn [negb] in H.
    apply Nat.eqb_eq in Hd. unfold bind in H.
    destruct (mk_cs (cnames (adom a)) nm (cdt (adom a))) as [nd|e] eqn:Hcs; [|discriminate].
    destruct (MkAff nd (adom a) (cdt (adom a)) (shift_mat R r0 r1 (cs_ndim (adom a)) d)) as [S|e] eqn:HS; [|discriminate].
    destruct (mk_cs_ok _ _ _ _ Hcs) as [Hnd1 [Hnd2 _]].
    destruct (mk_aff_ok _ _ _ _ _ HS) as [ES [ESn1 [ESn2 [ESc1 [_ [_ HWS]]]]]].
    assert (HndS : cs_ndim (adom S) = cs_ndim (adom a)) by (unfold cs_ndim; now rewrite ESn1, Hnd1).
    destruct (compose2_systems _ _ _ H) as [S1 [_ [S3 [S4 _]]]].
    split; [|split; [|split]].
    - rewrite (compose2_apply a S b x Hwf HWS H) by (rewrite HndS; exact Hx).
      rewrite apply_ok by (rewrite (vadd_length R radd); congruence). f_equal. f_equal.
      rewrite ES. now apply shift_mat_apply.
    - now rewrite S3, ESn1.
    - now rewrite S4, ESc1.
    - exact S1.
  Qed.

  Theorem shift_range_apply a d nm b x :
    WF a -> shifted_range_origin R r0 r1 radd rmul ropp reqb a d nm = Ok b -> length x = cs_ndim (adom a) ->
    Apply b x = Ok (Vadd (Happly (amat a) x) (map ropp d)) /\ cnames (arng b) = cnames (arng a) /\
    cname (arng b) = nm /\ cnames (adom b) = cnames (adom a).
  Proof.
    intros Hwf H Hx. unfold shifted_range_origin in H.
    destruct (Nat.eqb (length d) (cs_ndim (arng a))) eqn:Hd; [|discriminate]. cbn [negb] in H.
    apply Nat.eqb_eq in Hd. unfold bind in H.
    destruct (mk_cs (cnames (arng a)) nm (cdt (arng a))) as [nr|e] eqn:Hcs; [|discriminate].
    destruct (MkAff (arng a) nr (cdt (arng a)) (shift_mat R r0 r1 (cs_ndim (arng a)) (map ropp d))) as [S|e] eqn:HS;
      [|discriminate].
    destruct (mk_cs_ok _ _ _ _ Hcs) as [Hnr1 [Hnr2 _]].
    destruct (mk_aff_ok _ _ _ _ _ HS) as [ES [ESn1 [ESn2 [_ [ESc2 [_ HWS]]]]]].
    destruct (compose2_systems _ _ _ H) as [S1 [S2 [S3 _]]].
    split; [|split; [|split]].
    - rewrite (compose2_apply S a b x HWS Hwf H Hx). f_equal. rewrite ES.
      apply shift_mat_apply; [|now rewrite map_length].
      destruct Hwf as [Hm _]. eapply happly_length; exact Hm.
    - now rewrite S1, ESn2.
    - now rewrite S2, ESc2.
    - exact S3.
  Qed.

  (* ------------------------------------------------------------ refusal *)
  Lemma cs_eqb_retype_same c d : cs_eqb c (cs_retype d (cdt d)) = cs_eqb c d.
  Proof. reflexivity. Qed.

  Lemma compose_errors_are_value_errors : forall rest cur e,
    ComposeFrom cur rest = Err e -> e = EValue.
  Proof.
    induction rest as [|f rest IH]; intros cur e H; cbn [compose_from] in H; [discriminate|].
    destruct (cs_eqb (adom f) (arng cur)); [|now injection H as <-].
    unfold bind in H.
    destruct (MkAff (adom cur) (arng f) (Nat.max (aff_dt R f) (aff_dt R cur))
                    (Mm (S (cs_ndim (adom cur))) (amat f) (amat cur))) as [c|e'] eqn:Hm.
    - now apply (IH c).
    - injection H as <-. unfold mk_aff in Hm.
      destruct (negb _) in Hm; [now injection Hm as <-|].
      destruct (negb _) in Hm; [now injection Hm as <-|discriminate].
  Qed.

  (* Maps whose coordinate systems do not match are refused rather than composed *)
  Theorem compose_refuses_mismatch f g :
    WF g -> cs_eqb (adom f) (arng g) = false -> exists e, Compose [f; g] = Err e.
  Proof.
    intros [Hg Hdt] Hne.
    destruct (Compose [f; g]) as [b|e] eqn:H; [|now exists e].
    exfalso. unfold compose in H. cbn [rev app] in H. unfold bind in H.
    destruct (MkAff (adom g) (adom g) (aff_dt R g) (Mid (S (cs_ndim (adom g))))) as [c0|e0] eqn:H0; [|discriminate].
    cbn [compose_from] in H.
    destruct (cs_eqb (adom g) (arng c0)); [|discriminate]. unfold bind in H.
    destruct (MkAff (adom c0) (arng g) (Nat.max (aff_dt R g) (aff_dt R c0))
                    (Mm (S (cs_ndim (adom c0))) (amat g) (amat c0))) as [c1|e1] eqn:H1; [|discriminate].
    cbn [compose_from] in H.
    destruct (cs_eqb (adom f) (arng c1)) eqn:Hgd; [|discriminate].
    (* arng c1 is arng g retyped with a dtype equal to g's own *)
    unfold mk_aff in H0, H1.
    destruct (negb _) in H0; [discriminate|]. destruct (negb _) in H0; [discriminate|]. injection H0 as <-.
    destruct (negb _) in H1; [discriminate|]. destruct (negb _) in H1; [discriminate|]. injection H1 as <-.
    cbn [arng adom aff_dt cdt cs_retype] in Hgd.
    unfold aff_dt in Hgd. rewrite Hdt in Hgd.
    rewrite !Nat.max_id in Hgd.
    unfold cs_eqb in Hgd, Hne. cbn [cnames cname cdt cs_retype] in Hgd. rewrite Hne in Hgd. discriminate.
  Qed.

  (* ------------------------------------------------------------ product *)
  Lemma block_row_dot row k p q pre x post :
    length row = S k -> length pre = p -> length x = k -> length post = q ->
    Dot (vzero r0 p ++ removelast row ++ vzero r0 q ++ [last row r0]) (pre ++ x ++ post ++ [r1])
    = Dot row (x ++ [r1]).
  Proof.
    intros Hr Hp Hx Hq.
    assert (Hrow : row = removelast row ++ [last row r0]).
    { apply app_removelast_last. intro E; subst; discriminate. }
    assert (Hl : length (removelast row) = k).
    { apply (f_equal (@length _)) in Hrow. rewrite app_length in Hrow. cbn [length] in Hrow.
      rewrite Hr, Nat.add_1_r in Hrow. now injection Hrow. }
    rewrite (dot_app R r0 r1 radd rmul rsub ropp Rth) by (rewrite (vzero_length R r0); congruence).
    rewrite (dot_vzero_l R r0 r1 radd rmul rsub ropp Rth).
    rewrite (dot_app R r0 r1 radd rmul rsub ropp Rth) by congruence.
    rewrite (dot_app R r0 r1 radd rmul rsub ropp Rth) by (rewrite (vzero_length R r0); congruence).
    rewrite (dot_vzero_l R r0 r1 radd rmul rsub ropp Rth).
    rewrite Hrow at 3.
    rewrite (dot_app R r0 r1 radd rmul rsub ropp Rth) by congruence.
    ring.
  Qed.

  Lemma top_rows_spec nout nin (M : mat) :
    WfAff nout nin M -> length (top_rows R M) = nout /\ rows_len (S nin) (top_rows R M) /\
    forall x, length x = nin -> Happly M x = Mv (top_rows R M) (hom r1 x).
  Proof.
    intros [top [-> [Ht Hr]]]. unfold top_rows. rewrite removelast_last. repeat split; auto.
    intros x Hx. unfold happly, mv. rewrite map_app. cbn [map]. now rewrite removelast_last.
  Qed.

  Theorem product2_blockwise a b inn outn p x y :
    WF a -> WF b -> product R r0 r1 reqb [a; b] inn outn = Ok p ->
    length x = cs_ndim (adom a) -> length y = cs_ndim (adom b) ->
    Apply p (x ++ y) = Ok (Happly (amat a) x ++ Happly (amat b) y) /\
    cnames (adom p) = cnames (adom a) ++ cnames (adom b) /\
    cnames (arng p) = cnames (arng a) ++ cnames (arng b).
  Proof.
    intros [Ha _] [Hb _] H Hx Hy. unfold product in H. cbn [fold_right flat_map] in H.
    rewrite !app_nil_r, !Nat.add_0_r in H. unfold bind in H.
    destruct (mk_cs (cnames (adom a) ++ cnames (adom b)) inn _) as [d|e] eqn:Hd; [|discriminate].
    destruct (mk_cs (cnames (arng a) ++ cnames (arng b)) outn _) as [r|e] eqn:Hr; [|discriminate].
    destruct (mk_cs_ok _ _ _ _ Hd) as [Hd1 _]. destruct (mk_cs_ok _ _ _ _ Hr) as [Hr1 _].
    destruct (mk_aff_ok _ _ _ _ _ H) as [Ep [En1 [En2 _]]].
    split; [|split; congruence].
    assert (Hnd : cs_ndim (adom p) = cs_ndim (adom a) + cs_ndim (adom b)).
    { unfold cs_ndim. now rewrite En1, Hd1, app_length. }
    rewrite apply_ok by (rewrite app_length, Hnd; congruence). f_equal.
    rewrite Ep. unfold happly at 1, mv. rewrite map_app. cbn [map]. rewrite removelast_last.
    cbn [product_rows]. rewrite app_nil_r, map_app, !map_map.
    destruct (top_rows_spec _ _ _ Ha) as [La [Ra Aa]]. destruct (top_rows_spec _ _ _ Hb) as [Lb [Rb Ab]].
    rewrite (Aa x Hx), (Ab y Hy). unfold mv. f_equal.
    - apply map_ext_in. intros row Hin. unfold rows_len in Ra. rewrite Forall_forall in Ra.
      unfold hom. rewrite <- app_assoc.
      replace (cs_ndim (adom a) + cs_ndim (adom b) - cs_ndim (adom a)) with (cs_ndim (adom b)) by lia.
      change (x ++ y ++ [r1]) with (x ++ y ++ [r1]).
      rewrite <- (app_nil_l (x ++ y ++ [r1])).
      apply (block_row_dot row (cs_ndim (adom a)) 0 (cs_ndim (adom b)) [] x y); auto.
    - apply map_ext_in. intros row Hin. unfold rows_len in Rb. rewrite Forall_forall in Rb.
      unfold hom. rewrite <- app_assoc. cbn [Nat.add].
      replace (cs_ndim (adom a) + cs_ndim (adom b) - cs_ndim (adom a) - cs_ndim (adom b)) with 0 by lia.
      replace (x ++ y ++ [r1]) with (x ++ y ++ [] ++ [r1]) by reflexivity.
      apply (block_row_dot row (cs_ndim (adom b)) (cs_ndim (adom a)) 0 x y []); auto.
  Qed.

  (* append_io_dim: the appended axis acts as step * t + start and leaves the rest untouched *)
  Theorem append_io_dim_apply a iname oname start step b x t :
    WF a -> append_io_dim R r0 r1 reqb a iname oname start step = Ok b -> length x = cs_ndim (adom a) ->
    Apply b (x ++ [t]) = Ok (Happly (amat a) x ++ [radd (rmul step t) start]).
  Proof.
    intros Hwf H Hx. unfold append_io_dim in H. unfold bind in H.
    destruct (mk_cs [iname] EmptyString 1) as [d|e] eqn:Hd; [|discriminate].
    destruct (mk_cs [oname] EmptyString 1) as [r|e] eqn:Hr; [|discriminate].
    destruct (MkAff d r 0 [[step; start]; [r0; r1]]) as [ex|e] eqn:He; [|discriminate].
    destruct (mk_cs_ok _ _ _ _ Hd) as [Hd1 _].
    destruct (mk_aff_ok _ _ _ _ _ He) as [Ee [Een1 [_ [_ [_ [_ Hwe]]]]]].
    assert (Hnd : cs_ndim (adom ex) = 1) by (unfold cs_ndim; now rewrite Een1, Hd1).
    destruct (product2_blockwise a ex _ _ b x [t] Hwf Hwe H Hx) as [Happ _]; [now rewrite Hnd|].
    rewrite Happ. f_equal. f_equal. rewrite Ee. unfold happly, mv, hom. cbn. f_equal. ring.
  Qed.
End Proofs.
