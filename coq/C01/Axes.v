(* C01 - axis identification around drop_io_dim:
   io_axis_indices, axmap and _fix0 of nipy/core/reference/coordinate_map.py.
   The only oracle is nibabel's io_orientation: `ornts` is its first column
   (for each input axis the output axis it drives, None for NaN).
   Executable definitions only. *)
From Coq Require Import String.
From Coq Require Import List Arith Lia Bool ZArith.
From NV.Lib Require Import RingMat.
From NV.C01 Require Import Model.
Import ListNotations.

(* axis_id: a Python int (may be negative) or a str *)
Inductive axis_id := AxInt (z : Z) | AxName (s : string).
(* (in_dim, out_dim) | AxisError | KeyError (integer outside the input axes) *)
Inductive axres := AxOk (i o : option nat) | AxErrAxis | AxErrKey.

Definition onat_eqb (a b : option nat) : bool :=
  match a, b with
  | Some x, Some y => Nat.eqb x y
  | None, None => true
  | _, _ => false
  end.

(* axmap 'out2in': ornts.index(o) if o in ornts else None *)
Fixpoint ornt_index (o : nat) (ornts : list (option nat)) : option nat :=
  match ornts with
  | [] => None
  | x :: r => if onat_eqb x (Some o) then Some 0 else option_map S (ornt_index o r)
  end.

(* axmap 'in2out': ornts[i] *)
Definition ornt_out (i : nat) (ornts : list (option nat)) : option nat := nth i ornts None.

Definition io_axis_indices (ins outs : list string) (ornts : list (option nat)) (ax : axis_id) : axres :=
  match ax with
  | AxInt z =>
      (* in_dim = axis_id if axis_id >= 0 else len(in_dims) + axis_id ; then in2out_map[in_dim] *)
      let zi := if (0 <=? z)%Z then z else (Z.of_nat (length ins) + z)%Z in
      if (zi <? 0)%Z then AxErrKey
      else let i := Z.to_nat zi in
           if Nat.ltb i (length ins) then AxOk (Some i) (ornt_out i ornts) else AxErrKey
  | AxName s =>
      match str_index s ins with
      | Some i =>
          let o := ornt_out i ornts in
          match str_index s outs with
          | Some o' => if onat_eqb o (Some o') then AxOk (Some i) o else AxErrAxis
          | None => AxOk (Some i) o
          end
      | None =>
          match str_index s outs with
          | Some o => AxOk (ornt_index o ornts) (Some o)
          | None => AxErrAxis
          end
      end
  end.

Fixpoint set_nth {A} (k : nat) (v : A) (l : list A) : list A :=
  match l, k with
  | [], _ => []
  | _ :: r, O => v :: r
  | x :: r, S k' => x :: set_nth k' v r
  end.

Section AxesModel.
  Variable R : Type.
  Variables (r0 r1 : R).
  Variable reqb : R -> R -> bool.
  Local Notation mat := (list (list R)).
  Local Notation Aff := (aff R).

  (* _fix0: exactly one all-zero row and one all-zero column in the linear part -> put a 1 there *)
  Definition zero_rows (L : mat) : list nat :=
    filter (fun k => forallb (is_zero R r0 reqb) (nth k L [])) (seq 0 (length L)).
  Definition zero_cols (nin : nat) (L : mat) : list nat :=
    filter (fun j => forallb (fun row => is_zero R r0 reqb (nth j row r0)) L) (seq 0 nin).
  Definition fix0 (M : mat) : mat :=
    let L := lin_part R M in
    let nin := pred (length (hd [] M)) in
    match zero_rows L, zero_cols nin L with
    | [zr], [zc] => set_nth zr (set_nth zc r1 (nth zr M [])) M
    | _, _ => M
    end.

  (* drop_io_dim(cm, axis_id, fix0) : None stands for the KeyError *)
  Definition drop_by_id (a : Aff) (ax : axis_id) (ornts : list (option nat)) (f : bool) : option (res Aff) :=
    match io_axis_indices (cnames (adom a)) (cnames (arng a)) ornts ax with
    | AxOk i o => Some (drop_io_dim R r0 r1 reqb a i o f)
    | AxErrAxis => Some (Err EAxis)
    | AxErrKey => None
    end.
End AxesModel.

Definition axres_eqb (a b : axres) : bool :=
  match a, b with
  | AxOk i o, AxOk i' o' => onat_eqb i i' && onat_eqb o o'
  | AxErrAxis, AxErrAxis => true
  | AxErrKey, AxErrKey => true
  | _, _ => false
  end.
