(* C01 - coordinate systems and affine coordinate maps as in
   nipy/core/reference/coordinate_map.py, over an arbitrary commutative ring.
   Executable definitions only. *)
From Coq Require Import String.
From Coq Require Import List Arith Lia Bool ZArith Permutation.
From NV.Lib Require Import RingMat.
Import ListNotations.

(* error kinds (the harness maps Python exception classes to these) *)
Inductive err := EValue | EAxis | ECoordSys.
Inductive res (A : Type) := Ok (a : A) | Err (e : err).
Arguments Ok {A} a.
Arguments Err {A} e.
Definition bind {A B} (r : res A) (f : A -> res B) : res B :=
  match r with Ok a => f a | Err e => Err e end.

(* CoordinateSystem: coordinate names, system name, dtype tag
   (0 = integer, 1 = float, 2 = object: safe_dtype is the maximum) *)
Record csys := { cnames : list string; cname : string; cdt : nat }.

Fixpoint str_in (s : string) (l : list string) : bool :=
  match l with [] => false | x :: r => String.eqb x s || str_in s r end.
Fixpoint str_nodup (l : list string) : bool :=
  match l with [] => true | x :: r => negb (str_in x r) && str_nodup r end.
Fixpoint strl_eqb (a b : list string) : bool :=
  match a, b with
  | [], [] => true
  | x :: a', y :: b' => String.eqb x y && strl_eqb a' b'
  | _, _ => false
  end.
Fixpoint str_index (s : string) (l : list string) : option nat :=
  match l with
  | [] => None
  | x :: r => if String.eqb x s then Some 0 else option_map S (str_index s r)
  end.

(* CoordinateSystem.__init__ : names must be distinct *)
Definition mk_cs (names : list string) (name : string) (dt : nat) : res csys :=
  if str_nodup names then Ok {| cnames := names; cname := name; cdt := dt |} else Err EValue.

(* CoordinateSystem.__eq__ : composite dtype (names + scalar dtype) and name *)
Definition cs_eqb (a b : csys) : bool :=
  strl_eqb (cnames a) (cnames b) && String.eqb (cname a) (cname b) && Nat.eqb (cdt a) (cdt b).
Definition cs_ndim (a : csys) : nat := length (cnames a).
Definition cs_retype (a : csys) (dt : nat) : csys := {| cnames := cnames a; cname := cname a; cdt := dt |}.

Fixpoint nat_in (n : nat) (l : list nat) : bool :=
  match l with [] => false | x :: r => Nat.eqb x n || nat_in n r end.
Fixpoint natl_eqb (a b : list nat) : bool :=
  match a, b with
  | [], [] => true
  | x :: a', y :: b' => Nat.eqb x y && natl_eqb a' b'
  | _, _ => false
  end.
(* order is a permutation of 0..n-1 *)
Definition is_perm (n : nat) (order : list nat) : bool :=
  Nat.eqb (length order) n && forallb (fun i => nat_in i order) (seq 0 n).

Section Model.
  Variable R : Type.
  Variables (r0 r1 : R) (radd rmul rsub : R -> R -> R) (ropp : R -> R).
  Variable reqb : R -> R -> bool.

  Local Notation mat := (list (list R)).
  Local Notation vec := (list R).
  Local Notation Mid := (mid r0 r1).
  Local Notation Mm := (mm r0 radd rmul).
  Local Notation Happly := (happly r0 r1 radd rmul).

  Fixpoint vec_eqb (a b : vec) : bool :=
    match a, b with
    | [], [] => true
    | x :: a', y :: b' => reqb x y && vec_eqb a' b'
    | _, _ => false
    end.

  Record aff := { adom : csys; arng : csys; amat : mat }.

  (* AffineTransform.__init__ : dtype unification, shape check, bottom-row check *)
  Definition mk_aff (dom rng : csys) (mdt : nat) (M : mat) : res aff :=
    let dt := Nat.max mdt (Nat.max (cdt dom) (cdt rng)) in
    let nin := cs_ndim dom in
    let nout := cs_ndim rng in
    if negb (Nat.eqb (length M) (S nout) && forallb (fun row => Nat.eqb (length row) (S nin)) M)
    then Err EValue
    else if negb (vec_eqb (last M []) (bottom_row r0 r1 nin)) then Err EValue
    else Ok {| adom := cs_retype dom dt; arng := cs_retype rng dt; amat := M |}.

  Definition aff_dt (a : aff) : nat := cdt (adom a).

  (* AffineTransform.__call__ on one point: CoordinateSystem._checked_values gate *)
  Definition apply (a : aff) (x : vec) : res vec :=
    if Nat.eqb (length x) (cs_ndim (adom a)) then Ok (Happly (amat a) x) else Err ECoordSys.

  (* _compose_affines: right-to-left fold over the argument list, guarded *)
  Fixpoint compose_from (cur : aff) (rev_affs : list aff) : res aff :=
    match rev_affs with
    | [] => Ok cur
    | c :: rest =>
      if cs_eqb (adom c) (arng cur) then
        bind (mk_aff (adom cur) (arng c) (Nat.max (aff_dt c) (aff_dt cur))
                     (Mm (S (cs_ndim (adom cur))) (amat c) (amat cur)))
             (fun cur' => compose_from cur' rest)
      else Err EValue
    end.

  Definition compose (affs : list aff) : res aff :=
    match rev affs with
    | [] => Err EValue
    | lastA :: _ =>
      bind (mk_aff (adom lastA) (adom lastA) (aff_dt lastA) (Mid (S (cs_ndim (adom lastA)))))
           (fun cur => compose_from cur (rev affs))
    end.

  (* to_matvec *)
  Definition top_rows (M : mat) : mat := removelast M.
  Definition lin_part (M : mat) : mat := map (fun row => removelast row) (top_rows M).
  Definition trans_part (M : mat) : vec := map (fun row => last row r0) (top_rows M).

  (* _product_affines: block-diagonal fill plus translation column *)
  Fixpoint product_rows (affs : list aff) (before after : nat) : mat :=
    match affs with
    | [] => []
    | a :: rest =>
      let nin := cs_ndim (adom a) in
      map (fun row => vzero r0 before ++ removelast row ++ vzero r0 (after - nin) ++ [last row r0])
          (top_rows (amat a))
      ++ product_rows rest (before + nin) (after - nin)
    end.

  Definition product (affs : list aff) (in_name out_name : string) : res aff :=
    let nin := fold_right (fun a s => cs_ndim (adom a) + s) 0 affs in
    let dt := fold_right (fun a s => Nat.max (aff_dt a) s) 0 affs in
    let M := product_rows affs 0 nin ++ [bottom_row r0 r1 nin] in
    bind (mk_cs (flat_map (fun a => cnames (adom a)) affs) in_name dt) (fun d =>
    bind (mk_cs (flat_map (fun a => cnames (arng a)) affs) out_name dt) (fun r =>
    mk_aff d r dt M)).

  (* homogeneous permutation matrices *)
  Definition hom_embed (n : nat) (P : mat) : mat :=
    map (fun row => row ++ [r0]) P ++ [bottom_row r0 r1 n].

  (* reordered_domain(mapping, order) with integer order *)
  Definition reordered_domain (a : aff) (order : list nat) : res aff :=
    let n := cs_ndim (adom a) in
    if negb (is_perm n order) then Err EValue
    else if natl_eqb order (seq 0 n) then Ok a
    else
      let newnames := map (fun i => nth i (cnames (adom a)) EmptyString) order in
      bind (mk_cs newnames (cname (adom a)) (cdt (adom a))) (fun nd =>
      bind (mk_aff nd (adom a) (cdt (adom a)) (hom_embed n (scat_mat r0 r1 n order))) (fun A =>
      compose [a; A])).

  (* reordered_range(mapping, order) *)
  Definition reordered_range (a : aff) (order : list nat) : res aff :=
    let n := cs_ndim (arng a) in
    if negb (is_perm n order) then Err EValue
    else if natl_eqb order (seq 0 n) then Ok a
    else
      let newnames := map (fun i => nth i (cnames (arng a)) EmptyString) order in
      bind (mk_cs newnames (cname (arng a)) (cdt (arng a))) (fun nr =>
      bind (mk_aff (arng a) nr (cdt (arng a)) (hom_embed n (sel_mat r0 r1 n order))) (fun A =>
      compose [A; a])).

  (* order given by names: [function_domain.index(s) for s in order] *)
  Fixpoint resolve_names (names : list string) (order : list string) : res (list nat) :=
    match order with
    | [] => Ok []
    | s :: rest =>
      match str_index s names with
      | None => Err EValue
      | Some i => bind (resolve_names names rest) (fun l => Ok (i :: l))
      end
    end.

  (* renamed_domain / renamed_range with a name->name association list
     (integer keys are resolved to names by the harness exactly as the code does) *)
  Fixpoint assoc (s : string) (l : list (string * string)) : option string :=
    match l with
    | [] => None
    | (k, v) :: r => if String.eqb k s then Some v else assoc s r
    end.
  Definition rename_list (names : list string) (nn : list (string * string)) : list string :=
    map (fun n => match assoc n nn with Some v => v | None => n end) names.

  Definition renamed_domain (a : aff) (nn : list (string * string)) : res aff :=
    if negb (forallb (fun kv => str_in (fst kv) (cnames (adom a))) nn) then Err EValue
    else
      bind (mk_cs (rename_list (cnames (adom a)) nn) (cname (adom a)) (cdt (adom a))) (fun nd =>
      bind (mk_aff nd (adom a) 1 (Mid (S (cs_ndim (adom a))))) (fun I =>
      compose [a; I])).

  Definition renamed_range (a : aff) (nn : list (string * string)) : res aff :=
    if negb (forallb (fun kv => str_in (fst kv) (cnames (arng a))) nn) then Err EValue
    else
      bind (mk_cs (rename_list (cnames (arng a)) nn) (cname (arng a)) (cdt (arng a))) (fun nr =>
      bind (mk_aff (arng a) nr 1 (Mid (S (cs_ndim (arng a))))) (fun I =>
      compose [I; a])).

  (* shift matrices: identity with last column set *)
  Definition shift_mat (n : nat) (v : vec) : mat :=
    map (fun iv => removelast (unit_vec r0 r1 (S n) (fst iv)) ++ [snd iv]) (combine (seq 0 n) v)
    ++ [bottom_row r0 r1 n].

  Definition shifted_domain_origin (a : aff) (d : vec) (new_origin : string) : res aff :=
    let n := cs_ndim (adom a) in
    if negb (Nat.eqb (length d) n) then Err EValue else
    bind (mk_cs (cnames (adom a)) new_origin (cdt (adom a))) (fun nd =>
    bind (mk_aff nd (adom a) (cdt (adom a)) (shift_mat n d)) (fun S =>
    compose [a; S])).

  Definition shifted_range_origin (a : aff) (d : vec) (new_origin : string) : res aff :=
    let n := cs_ndim (arng a) in
    if negb (Nat.eqb (length d) n) then Err EValue else
    bind (mk_cs (cnames (arng a)) new_origin (cdt (arng a))) (fun nr =>
    bind (mk_aff (arng a) nr (cdt (arng a)) (shift_mat n (map ropp d))) (fun S =>
    compose [S; a])).

  (* inverse around an oracle-supplied candidate inverse matrix *)
  Definition inverse_with (a : aff) (Minv : mat) : res aff :=
    mk_aff (arng a) (adom a) (Nat.max 1 (aff_dt a)) Minv.   (* npl.inv returns a float matrix *)

  (* append_io_dim: product with [[step, start], [0, 1]] *)
  Definition append_io_dim (a : aff) (in_name out_name : string) (start step : R) : res aff :=
    bind (mk_cs [in_name] EmptyString 1) (fun d =>
    bind (mk_cs [out_name] EmptyString 1) (fun r =>
    bind (mk_aff d r 0 [[step; start]; [r0; r1]]) (fun e =>
    product [a; e] "product" "product"))).

  (* drop_io_dim given the (in_dim, out_dim) pair that io_axis_indices returned (oracle);
     orth_axes test then row / column deletion *)
  Fixpoint drop_nth {A} (k : nat) (l : list A) : list A :=
    match l, k with
    | [], _ => []
    | _ :: r, O => r
    | x :: r, S k' => x :: drop_nth k' r
    end.
  Definition is_zero (x : R) : bool := reqb x r0.
  Definition orth_axes (i o : nat) (M : mat) (allow_zero : bool) : bool :=
    let L := lin_part M in
    let entry := nth i (nth o L []) r0 in
    (allow_zero || negb (is_zero entry)) &&
    forallb (fun jc => Nat.eqb (fst jc) i || is_zero (snd jc)) (combine (seq 0 (length (nth o L []))) (nth o L [])) &&
    forallb (fun kr => Nat.eqb (fst kr) o || is_zero (nth i (snd kr) r0)) (combine (seq 0 (length L)) L).

  Definition drop_io_dim (a : aff) (i o : option nat) (fix0 : bool) : res aff :=
    let ok := match i, o with Some i', Some o' => orth_axes i' o' (amat a) fix0 | _, _ => true end in
    if negb ok then Err EAxis else
    let M1 := match o with Some o' => drop_nth o' (amat a) | None => amat a end in
    let M2 := match i with Some i' => map (drop_nth i') M1 | None => M1 end in
    let dn := match i with Some i' => drop_nth i' (cnames (adom a)) | None => cnames (adom a) end in
    let rn := match o with Some o' => drop_nth o' (cnames (arng a)) | None => cnames (arng a) end in
    bind (mk_cs dn EmptyString 1) (fun d =>
    bind (mk_cs rn EmptyString 1) (fun r =>
    mk_aff d r (aff_dt a) M2)).

End Model.

Arguments Build_aff {R} adom arng amat.
Arguments adom {R} a.
Arguments arng {R} a.
Arguments amat {R} a.
