(* C01 - general (non-affine) CoordinateMap: a pair of coordinate systems, a
   forward function and an optional inverse function.  Operations as in
   nipy/core/reference/coordinate_map.py (_compose_cmaps, _product_cmaps,
   reordered_* / renamed_* through _as_coordinate_map of the permutation /
   identity AffineTransform, inverse). *)
From Coq Require Import String.
From Coq Require Import List Arith Lia Bool ZArith Permutation.
From NV.Lib Require Import RingMat.
From NV.C01 Require Import Model.
Import ListNotations.

Section CMap.
  Variable R : Type.
  Variables (r0 r1 : R) (radd rmul rsub : R -> R -> R) (ropp : R -> R).
  Variable reqb : R -> R -> bool.

  Local Notation vec := (list R).
  Local Notation Happly := (happly r0 r1 radd rmul).

  Record cmap := { cdom : csys; crng : csys; cfun : vec -> vec; cinv : option (vec -> vec) }.

  (* CoordinateMap.__call__ on one point *)
  Definition cm_apply (c : cmap) (x : vec) : res vec :=
    if Nat.eqb (length x) (cs_ndim (cdom c)) then Ok (cfun c x) else Err ECoordSys.

  (* _as_coordinate_map of an AffineTransform; the inverse (when the oracle produced one) is threaded in *)
  Definition cm_of_aff (a : aff R) (ainv : option (aff R)) : cmap :=
    {| cdom := adom a; crng := arng a; cfun := Happly (amat a);
       cinv := option_map (fun b => Happly (amat b)) ainv |}.

  Definition cm_identity (d : csys) : cmap :=
    {| cdom := d; crng := d; cfun := fun x => x; cinv := Some (fun x => x) |}.

  (* _compose_cmaps: right-to-left fold with the system-equality guard *)
  Fixpoint cm_compose_from (cur : cmap) (rev_maps : list cmap) : res cmap :=
    match rev_maps with
    | [] => Ok cur
    | c :: rest =>
      if cs_eqb (cdom c) (crng cur) then
        cm_compose_from
          {| cdom := cdom cur; crng := crng c;
             cfun := fun x => cfun c (cfun cur x);
             cinv := match cinv c, cinv cur with
                     | Some ci, Some cui => Some (fun y => cui (ci y))
                     | _, _ => None end |} rest
      else Err EValue
    end.
  Definition cm_compose (maps : list cmap) : res cmap :=
    match rev maps with
    | [] => Err EValue
    | lastM :: _ => cm_compose_from (cm_identity (cdom lastM)) (rev maps)
    end.

  (* _product_cmaps: the input is cut into consecutive blocks, each map acts on its block *)
  Fixpoint cm_product_fun (maps : list cmap) (x : vec) : vec :=
    match maps with
    | [] => []
    | c :: rest => cfun c (firstn (cs_ndim (cdom c)) x) ++ cm_product_fun rest (skipn (cs_ndim (cdom c)) x)
    end.
  Definition cm_product (maps : list cmap) (in_name out_name : string) : res cmap :=
    bind (mk_cs (flat_map (fun c => cnames (cdom c)) maps) in_name
                (fold_right (fun c s => Nat.max (cdt (cdom c)) s) 0 maps)) (fun d =>
    bind (mk_cs (flat_map (fun c => cnames (crng c)) maps) out_name
                (fold_right (fun c s => Nat.max (cdt (crng c)) s) 0 maps)) (fun r =>
    Ok {| cdom := d; crng := r; cfun := cm_product_fun maps; cinv := None |})).

  Definition cm_inverse (c : cmap) : option cmap :=
    match cinv c with
    | None => None
    | Some fi => Some {| cdom := crng c; crng := cdom c; cfun := fi; cinv := Some (cfun c) |}
    end.

  (* reordered_domain / reordered_range for a general CoordinateMap *)
  Definition cm_reordered_domain (c : cmap) (order : list nat) : res cmap :=
    let n := cs_ndim (cdom c) in
    if negb (is_perm n order) then Err EValue
    else if natl_eqb order (seq 0 n) then Ok c
    else
      let newnames := map (fun i => nth i (cnames (cdom c)) EmptyString) order in
      bind (mk_cs newnames (cname (cdom c)) (cdt (cdom c))) (fun nd =>
      Ok {| cdom := nd; crng := crng c;
            cfun := fun x => cfun c (Happly (hom_embed R r0 r1 n (scat_mat r0 r1 n order)) x);
            cinv := None |}).

  Definition cm_reordered_range (c : cmap) (order : list nat) : res cmap :=
    let n := cs_ndim (crng c) in
    if negb (is_perm n order) then Err EValue
    else if natl_eqb order (seq 0 n) then Ok c
    else
      let newnames := map (fun i => nth i (cnames (crng c)) EmptyString) order in
      bind (mk_cs newnames (cname (crng c)) (cdt (crng c))) (fun nr =>
      Ok {| cdom := cdom c; crng := nr;
            cfun := fun x => Happly (hom_embed R r0 r1 n (sel_mat r0 r1 n order)) (cfun c x);
            cinv := None |}).

  Definition cm_renamed_domain (c : cmap) (nn : list (string * string)) : res cmap :=
    if negb (forallb (fun kv => str_in (fst kv) (cnames (cdom c))) nn) then Err EValue
    else bind (mk_cs (rename_list (cnames (cdom c)) nn) (cname (cdom c)) (cdt (cdom c))) (fun nd =>
         Ok {| cdom := nd; crng := crng c; cfun := cfun c; cinv := cinv c |}).

  Definition cm_renamed_range (c : cmap) (nn : list (string * string)) : res cmap :=
    if negb (forallb (fun kv => str_in (fst kv) (cnames (crng c))) nn) then Err EValue
    else bind (mk_cs (rename_list (cnames (crng c)) nn) (cname (crng c)) (cdt (crng c))) (fun nr =>
         Ok {| cdom := cdom c; crng := nr; cfun := cfun c; cinv := cinv c |}).
End CMap.

Arguments cdom {R} c.
Arguments crng {R} c.
Arguments cfun {R} c.
Arguments cinv {R} c.
