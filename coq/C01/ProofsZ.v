(* C01 - the well-formedness invariant is preserved by every operation of the
   program language (Z instance), hence by every finite program. *)
From Coq Require Import String.
From Coq Require Import List Arith Lia Bool ZArith Permutation.
From NV.Lib Require Import RingMat.
From NV.C01 Require Import Model Exec Proofs.
Import ListNotations.

Definition ZWF (a : zaff) : Prop := WF Z 0%Z 1%Z a.

Lemma Zeqb_spec : forall x y : Z, Z.eqb x y = true <-> x = y.
Proof. intros. apply Z.eqb_eq. Qed.

Local Notation mkok := (mk_aff_ok Z 0%Z 1%Z Z.eqb Zeqb_spec).
Local Notation cgen := (compose_apply_gen Z 0%Z 1%Z Z.add Z.mul Z.sub Z.opp Z.eqb Zring_th Zeqb_spec).

Lemma zmk_wf d r mdt M a : zmk_aff d r mdt M = Ok a -> ZWF a.
Proof. intros H. now destruct (mkok _ _ _ _ _ H) as [_ [_ [_ [_ [_ [_ Hw]]]]]]. Qed.

Lemma zcompose_wf affs c : Forall ZWF affs -> zcompose affs = Ok c -> ZWF c.
Proof. intros Hw H. now destruct (cgen affs c Hw H) as [Hc _]. Qed.

Lemma dummy_or_env_wf env k : Forall ZWF env -> k < length env -> ZWF (get env k).
Proof. intros H Hk. rewrite Forall_forall in H. apply H. unfold get. now apply nth_In. Qed.

(* operations that read environment slots must name existing slots *)
Definition op_srcs (o : op) : list nat :=
  match o with
  | OCompose s | OProduct s => s
  | OReorderDom s _ | OReorderRng s _ | OReorderDomNames s _ | OReorderRngNames s _
  | ORenameDom s _ | ORenameRng s _ | OShiftDom s _ _ | OShiftRng s _ _ | OInverse s _
  | OAppend s _ _ _ _ | ODrop s _ _ _ => [s]
  end.
Definition op_ok (env : list zaff) (o : op) : Prop := Forall (fun k => k < length env) (op_srcs o).

Ltac bind_inv H :=
  repeat match type of H with
  | bind ?e _ = Ok _ => let x := fresh "v" in let E := fresh "E" in
        destruct e as [x|] eqn:E; cbn [bind] in H; [|discriminate]
  end.

Lemma step_wf env o a : Forall ZWF env -> op_ok env o -> step env o = Ok a -> ZWF a.
Proof.
  intros Henv Hok H. unfold op_ok in Hok.
  assert (Hget : forall s, In s (op_srcs o) -> ZWF (get env s)).
  { intros s Hs. rewrite Forall_forall in Hok. apply dummy_or_env_wf; auto. }
  destruct o; cbn [Exec.step op_srcs] in *.
  - (* compose *) eapply zcompose_wf; [|exact H]. apply Forall_forall. intros x Hx.
    apply in_map_iff in Hx. destruct Hx as [k [<- Hk]]. now apply Hget.
  - (* product *) unfold zproduct, product in H. bind_inv H. now apply zmk_wf in H.
  - (* reorder dom *) unfold zreordered_domain, reordered_domain in H.
    destruct (negb _) in H; [discriminate|]. destruct (natl_eqb _ _) in H.
    + injection H as <-. apply Hget. now left.
    + bind_inv H. eapply zcompose_wf; [|exact H].
      apply Forall_cons; [apply Hget; now left|apply Forall_cons; [now apply zmk_wf in E0|apply Forall_nil]].
  - unfold zreordered_range, reordered_range in H.
    destruct (negb _) in H; [discriminate|]. destruct (natl_eqb _ _) in H.
    + injection H as <-. apply Hget. now left.
    + bind_inv H. eapply zcompose_wf; [|exact H].
      apply Forall_cons; [now apply zmk_wf in E0|apply Forall_cons; [apply Hget; now left|apply Forall_nil]].
  - bind_inv H. unfold zreordered_domain, reordered_domain in H.
    destruct (negb _) in H; [discriminate|]. destruct (natl_eqb _ _) in H.
    + injection H as <-. apply Hget. now left.
    + bind_inv H. eapply zcompose_wf; [|exact H].
      apply Forall_cons; [apply Hget; now left|apply Forall_cons; [now apply zmk_wf in E1|apply Forall_nil]].
  - bind_inv H. unfold zreordered_range, reordered_range in H.
    destruct (negb _) in H; [discriminate|]. destruct (natl_eqb _ _) in H.
    + injection H as <-. apply Hget. now left.
    + bind_inv H. eapply zcompose_wf; [|exact H].
      apply Forall_cons; [now apply zmk_wf in E1|apply Forall_cons; [apply Hget; now left|apply Forall_nil]].
  - unfold zrenamed_domain, renamed_domain in H. destruct (negb _) in H; [discriminate|].
    bind_inv H. eapply zcompose_wf; [|exact H].
    apply Forall_cons; [apply Hget; now left|apply Forall_cons; [now apply zmk_wf in E0|apply Forall_nil]].
  - unfold zrenamed_range, renamed_range in H. destruct (negb _) in H; [discriminate|].
    bind_inv H. eapply zcompose_wf; [|exact H].
    apply Forall_cons; [now apply zmk_wf in E0|apply Forall_cons; [apply Hget; now left|apply Forall_nil]].
  - unfold zshifted_domain_origin, shifted_domain_origin in H. destruct (negb _) in H; [discriminate|].
    bind_inv H. eapply zcompose_wf; [|exact H].
    apply Forall_cons; [apply Hget; now left|apply Forall_cons; [now apply zmk_wf in E0|apply Forall_nil]].
  - unfold zshifted_range_origin, shifted_range_origin in H. destruct (negb _) in H; [discriminate|].
    bind_inv H. eapply zcompose_wf; [|exact H].
    apply Forall_cons; [now apply zmk_wf in E0|apply Forall_cons; [apply Hget; now left|apply Forall_nil]].
  - unfold zinverse_with, inverse_with in H. now apply zmk_wf in H.
  - unfold zappend_io_dim, append_io_dim in H. bind_inv H.
    unfold product in H. bind_inv H. now apply zmk_wf in H.
  - unfold zdrop_io_dim, drop_io_dim in H. destruct (negb _) in H; [discriminate|].
    bind_inv H. now apply zmk_wf in H.
Qed.

(* every map produced by a finite program is well formed *)
Fixpoint env_after (env : list zaff) (ops : list op) : list zaff :=
  match ops with
  | [] => env
  | o :: rest => env_after (match step env o with Ok a => env ++ [a] | Err _ => env end) rest
  end.

Lemma program_wf ops : forall env,
  Forall ZWF env ->
  (forall env', length env <= length env' -> Forall (fun o => op_ok env' o) ops) ->
  Forall ZWF (env_after env ops).
Proof.
  induction ops as [|o rest IH]; intros env Henv Hok; cbn [env_after]; [exact Henv|].
  assert (Ho : op_ok env o) by (specialize (Hok env (le_n _)); now inversion Hok).
  destruct (step env o) as [a|e] eqn:Hs.
  - apply IH.
    + apply Forall_app. split; [exact Henv|]. constructor; [|constructor].
      eapply step_wf; eauto.
    + intros env' Hl. rewrite app_length in Hl. cbn [length] in Hl.
      assert (H' := Hok env' ltac:(lia)). now inversion H'.
  - apply IH; [exact Henv|]. intros env' Hl. assert (H' := Hok env' Hl). now inversion H'.
Qed.
