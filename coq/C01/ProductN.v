(* C01 - the n-ary product acts blockwise (any number of factors). *)
From Coq Require Import String.
From Coq Require Import List Arith Lia Bool ZArith Ring.
From NV.Lib Require Import RingMat.
From NV.C01 Require Import Model Proofs.
Import ListNotations.

Section ProductN.
  Variable R : Type.
  Variables (r0 r1 : R) (radd rmul rsub : R -> R -> R) (ropp : R -> R).
  Variable reqb : R -> R -> bool.
  Hypothesis Rth : ring_theory r0 r1 radd rmul rsub ropp (@eq R).
  Hypothesis reqb_spec : forall x y, reqb x y = true <-> x = y.
  Add Ring RringN : Rth.

  Local Notation mat := (list (list R)).
  Local Notation vec := (list R).
  Local Notation Aff := (aff R).
  Local Notation Dot := (dot r0 radd rmul).
  Local Notation Happly := (happly r0 r1 radd rmul).
  Local Notation Apply := (apply R r0 r1 radd rmul).
  Local Notation WF := (WF R r0 r1).
  Local Notation WFm := (WFm R r0 r1).

  Definition total_in (affs : list Aff) : nat := fold_right (fun a s => cs_ndim (adom a) + s) 0 affs.
  (* the blocks of the argument, one per factor *)
  Definition blocks_ok (affs : list Aff) (xs : list vec) : Prop :=
    Forall2 (fun a x => length x = cs_ndim (adom a)) affs xs.
  Definition blockwise (affs : list Aff) (xs : list vec) : vec :=
    concat (map (fun ax => Happly (amat (fst ax)) (snd ax)) (combine affs xs)).

  Lemma blocks_length affs xs : blocks_ok affs xs -> length (concat xs) = total_in affs.
  Proof.
    induction 1 as [|a x affs xs Hx _ IH]; [reflexivity|].
    cbn [concat total_in fold_right]. rewrite app_length, Hx. f_equal. exact IH.
  Qed.

  Lemma product_rows_mv : forall affs xs pre,
    Forall WFm affs -> blocks_ok affs xs ->
    map (fun row => Dot row (pre ++ concat xs ++ [r1]))
        (product_rows R r0 affs (length pre) (total_in affs)) = blockwise affs xs.
  Proof.
    induction affs as [|a rest IH]; intros xs pre Hwf Hb.
    - inversion Hb; subst. reflexivity.
    - inversion Hb as [|? x ? xs' Hx Hb']; subst. inversion Hwf as [|? ? Ha Hrest]; subst.
      cbn [product_rows total_in fold_right]. unfold blockwise. cbn [combine map concat fst snd].
      rewrite map_app. f_equal.
      + destruct (top_rows_spec R r0 r1 radd rmul _ _ _ Ha) as [La [Ra Aa]].
        rewrite (Aa x Hx). unfold mv. rewrite map_map. apply map_ext_in. intros row Hin.
        unfold rows_len in Ra. rewrite Forall_forall in Ra.
        replace (cs_ndim (adom a) + fold_right (fun a0 s => cs_ndim (adom a0) + s) 0 rest - cs_ndim (adom a))
          with (total_in rest) by (unfold total_in; lia).
        cbn [concat]. rewrite <- app_assoc. unfold hom.
        apply (block_row_dot R r0 r1 radd rmul rsub ropp Rth row (cs_ndim (adom a)) (length pre) (total_in rest) pre x (concat xs'));
          auto. now apply blocks_length.
      + replace (cs_ndim (adom a) + fold_right (fun a0 s => cs_ndim (adom a0) + s) 0 rest - cs_ndim (adom a))
          with (total_in rest) by (unfold total_in; lia).
        replace (length pre + cs_ndim (adom a)) with (length (pre ++ x)) by (rewrite app_length; lia).
        cbn [concat]. replace (pre ++ (x ++ concat xs') ++ [r1]) with ((pre ++ x) ++ concat xs' ++ [r1])
          by (now rewrite <- !app_assoc).
        apply IH; assumption.
  Qed.

  (* a product of ANY number of maps acts independently on each block of coordinates,
     and its coordinate names are the concatenated names *)
  Theorem productN_blockwise affs inn outn p xs :
    Forall WF affs -> product R r0 r1 reqb affs inn outn = Ok p -> blocks_ok affs xs ->
    Apply p (concat xs) = Ok (blockwise affs xs) /\
    cnames (adom p) = flat_map (fun a => cnames (adom a)) affs /\
    cnames (arng p) = flat_map (fun a => cnames (arng a)) affs.
  Proof.
    intros Hwf H Hb. unfold product in H. unfold bind in H.
    destruct (mk_cs (flat_map (fun a : Aff => cnames (adom a)) affs) inn _) as [d|e] eqn:Hd; [|discriminate].
    destruct (mk_cs (flat_map (fun a : Aff => cnames (arng a)) affs) outn _) as [r|e] eqn:Hr; [|discriminate].
    destruct (mk_cs_ok _ _ _ _ Hd) as [Hd1 _]. destruct (mk_cs_ok _ _ _ _ Hr) as [Hr1 _].
    destruct (mk_aff_ok R r0 r1 reqb reqb_spec _ _ _ _ _ H) as [Ep [En1 [En2 _]]].
    split; [|split; congruence].
    assert (Hlen : forall l : list Aff, length (flat_map (fun a : Aff => cnames (adom a)) l) = total_in l).
    { induction l as [|a l IHl]; [reflexivity|]. cbn [flat_map total_in fold_right]. rewrite app_length.
      unfold cs_ndim. f_equal. exact IHl. }
    rewrite (apply_ok R r0 r1 radd rmul).
    2:{ unfold cs_ndim. rewrite En1, Hd1, Hlen. now apply blocks_length. }
    f_equal. rewrite Ep. unfold happly, mv, hom. rewrite map_app. cbn [map]. rewrite removelast_last.
    assert (Hwfm : Forall WFm affs) by (eapply Forall_impl; [|exact Hwf]; intros a [Ha _]; exact Ha).
    exact (product_rows_mv affs xs [] Hwfm Hb).
  Qed.
End ProductN.
