(* C01 - evaluation on a batch of points: CoordinateSystem._checked_values reshapes the
   (..., nin) array to rows in C order, the map is applied to every row, and the result is
   reshaped back to (..., nout).  Arrays are modelled by their C-order flat list. *)
From Coq Require Import String.
From Coq Require Import List Arith Lia Bool ZArith.
From NV.Lib Require Import RingMat.
From NV.C01 Require Import Model Proofs.
Import ListNotations.

(* the first `rows` rows of length n of a flat C-order list *)
Fixpoint chunks {A} (n rows : nat) (l : list A) : list (list A) :=
  match rows with
  | O => []
  | S r => firstn n l :: chunks n r (skipn n l)
  end.

Lemma chunks_length {A} n : forall rows (l : list A), length (chunks n rows l) = rows.
Proof. induction rows as [|r IH]; intros l; cbn [chunks length]; [reflexivity|]. now rewrite IH. Qed.

Lemma chunks_concat {A} n : forall (rs : list (list A)),
  Forall (fun r => length r = n) rs -> chunks n (length rs) (concat rs) = rs.
Proof.
  induction rs as [|r rs IH]; intros H; [reflexivity|].
  inversion H as [|? ? Hr Hrs]; subst. cbn [length chunks concat].
  rewrite firstn_app, Nat.sub_diag, firstn_all, firstn_O, app_nil_r.
  rewrite skipn_app, Nat.sub_diag, skipn_all. cbn [skipn app]. now rewrite IH.
Qed.

Section Batch.
  Variable R : Type.
  Variables (r0 r1 : R) (radd rmul : R -> R -> R).
  Local Notation Aff := (aff R).
  Local Notation Happly := (happly r0 r1 radd rmul).

  (* `rows` = product of the leading dimensions; the shape gate is shape[-1] == ndim *)
  Definition batch_apply (a : Aff) (rows : nat) (flat : list R) : res (list R) :=
    if Nat.eqb (length flat) (rows * cs_ndim (adom a))
    then Ok (concat (map (Happly (amat a)) (chunks (cs_ndim (adom a)) rows flat)))
    else Err ECoordSys.

  (* every row of the result is the map applied to the row at the same batch position *)
  Theorem batch_apply_pointwise a rows flat out :
    WF R r0 r1 a -> batch_apply a rows flat = Ok out ->
    chunks (cs_ndim (arng a)) rows out = map (Happly (amat a)) (chunks (cs_ndim (adom a)) rows flat) /\
    forall k, k < rows ->
      nth k (chunks (cs_ndim (arng a)) rows out) [] =
      Happly (amat a) (nth k (chunks (cs_ndim (adom a)) rows flat) []).
  Proof.
    intros [Hwf _] H. unfold batch_apply in H.
    destruct (Nat.eqb (length flat) (rows * cs_ndim (adom a))); [|discriminate]. injection H as <-.
    set (rs := chunks (cs_ndim (adom a)) rows flat).
    assert (E : chunks (cs_ndim (arng a)) rows (concat (map (Happly (amat a)) rs)) = map (Happly (amat a)) rs).
    { replace rows with (length (map (Happly (amat a)) rs)) at 1
        by (rewrite map_length; unfold rs; apply chunks_length).
      apply chunks_concat. apply Forall_forall. intros r Hin. apply in_map_iff in Hin.
      destruct Hin as [x [<- _]]. eapply happly_length. exact Hwf. }
    split; [exact E|]. intros k Hk. rewrite E.
    assert (Hl : k < length rs) by (unfold rs; now rewrite chunks_length).
    rewrite (nth_indep _ [] (Happly (amat a) []))
      by (now rewrite map_length).
    now rewrite map_nth.
  Qed.
End Batch.
