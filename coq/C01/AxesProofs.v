(* C01 - lemmas about axis identification and drop_io_dim, over any commutative ring. *)
From Coq Require Import String.
From Coq Require Import List Arith Lia Bool ZArith Ring.
From NV.Lib Require Import RingMat.
From NV.C01 Require Import Model Proofs Axes.
Import ListNotations.

(* ------------------------------------------------------------ list surgery *)
Lemma drop_nth_length {A} i : forall (l : list A), i < length l -> length (drop_nth i l) = pred (length l).
Proof.
  induction i as [|i IH]; intros [|x l] H; cbn [length] in *; try lia; cbn [drop_nth]; [reflexivity|].
  cbn [length]. rewrite IH by lia. destruct l; cbn [length] in *; lia.
Qed.

Lemma drop_nth_app {A} i : forall (l l2 : list A), i < length l -> drop_nth i (l ++ l2) = drop_nth i l ++ l2.
Proof.
  induction i as [|i IH]; intros [|x l] l2 H; cbn [length] in *; try lia; cbn [drop_nth app]; [reflexivity|].
  f_equal. apply IH. lia.
Qed.

Lemma drop_nth_map {A B} (f : A -> B) i : forall l, drop_nth i (map f l) = map f (drop_nth i l).
Proof.
  induction i as [|i IH]; intros [|x l]; cbn [drop_nth map]; try reflexivity. f_equal. apply IH.
Qed.

Lemma in_drop_nth {A} o : forall (l : list A) r, In r (drop_nth o l) -> exists k, k <> o /\ nth_error l k = Some r.
Proof.
  induction o as [|o IH]; intros [|x l] r H; cbn [drop_nth] in H; try contradiction.
  - apply In_nth_error in H. destruct H as [k Hk]. exists (S k). split; [lia|exact Hk].
  - destruct H as [<-|H].
    + exists 0. split; [lia|reflexivity].
    + destruct (IH l r H) as [k [Hk1 Hk2]]. exists (S k). split; [lia|exact Hk2].
Qed.

Lemma in_combine_seq {A} : forall (l : list A) s k r,
  nth_error l k = Some r -> In (s + k, r) (combine (seq s (length l)) l).
Proof.
  induction l as [|x l IH]; intros s k r H; [destruct k; discriminate|].
  cbn [length seq combine]. destruct k as [|k]; cbn [nth_error] in H.
  - injection H as ->. left. f_equal. lia.
  - right. replace (s + S k) with (S s + k) by lia. now apply IH.
Qed.

Lemma nth_removelast {A} (d : A) : forall l i, i < pred (length l) -> nth i (removelast l) d = nth i l d.
Proof.
  induction l as [|x l IH]; intros i H; [cbn in H; lia|].
  destruct l as [|y l]; [cbn in H; lia|].
  cbn [removelast]. destruct i as [|i]; [reflexivity|].
  cbn [nth]. apply IH. cbn [length] in *. lia.
Qed.

Lemma nth_map_lt {A B} (f : A -> B) d d' : forall l k, k < length l -> nth k (map f l) d' = f (nth k l d).
Proof.
  induction l as [|x l IH]; intros [|k] H; cbn [length map nth] in *; try lia; [reflexivity|]. apply IH. lia.
Qed.

(* ------------------------------------------------------------ io_axis_indices (no ring involved) *)
Lemma str_index_lt s : forall l i, str_index s l = Some i -> i < length l.
Proof.
  induction l as [|x l IH]; intros i H; cbn [str_index] in H; [discriminate|].
  destruct (String.eqb x s).
  - injection H as <-. cbn. lia.
  - destruct (str_index s l) as [j|]; [|discriminate]. injection H as <-. cbn [length]. specialize (IH j eq_refl). lia.
Qed.

Lemma str_index_nth s : forall l i, str_index s l = Some i -> nth i l EmptyString = s.
Proof.
  induction l as [|x l IH]; intros i H; cbn [str_index] in H; [discriminate|].
  destruct (String.eqb x s) eqn:E.
  - injection H as <-. now apply String.eqb_eq in E.
  - destruct (str_index s l) as [j|]; [|discriminate]. injection H as <-. cbn [nth]. now apply IH.
Qed.

Lemma onat_eqb_eq a b : onat_eqb a b = true <-> a = b.
Proof.
  destruct a as [x|], b as [y|]; cbn; split; intros H; try discriminate; try reflexivity.
  - apply Nat.eqb_eq in H. now subst.
  - injection H as ->. apply Nat.eqb_refl.
Qed.

Lemma ornt_index_sound o : forall ornts i, ornt_index o ornts = Some i -> nth i ornts None = Some o.
Proof.
  induction ornts as [|x r IH]; intros i H; cbn [ornt_index] in H; [discriminate|].
  destruct (onat_eqb x (Some o)) eqn:E.
  - injection H as <-. now apply onat_eqb_eq in E.
  - destruct (ornt_index o r) as [j|]; [|discriminate]. injection H as <-. cbn [nth]. now apply IH.
Qed.

Lemma ornt_index_first o : forall ornts i, ornt_index o ornts = Some i ->
  forall j, j < i -> nth j ornts None <> Some o.
Proof.
  induction ornts as [|x r IH]; intros i H j Hj; cbn [ornt_index] in H; [discriminate|].
  destruct (onat_eqb x (Some o)) eqn:E.
  - injection H as <-. lia.
  - destruct (ornt_index o r) as [k|] eqn:Ek; [|discriminate]. injection H as <-.
    destruct j as [|j]; cbn [nth].
    + intros ->. now rewrite (proj2 (onat_eqb_eq _ _) eq_refl) in E.
    + apply (IH k eq_refl). lia.
Qed.

Lemma ornt_index_none o : forall ornts, ornt_index o ornts = None -> forall j, nth j ornts None <> Some o.
Proof.
  induction ornts as [|x r IH]; intros H j; cbn [ornt_index] in H.
  - destruct j; discriminate.
  - destruct (onat_eqb x (Some o)) eqn:E; [discriminate|].
    destruct (ornt_index o r) eqn:Ek; [discriminate|].
    destruct j as [|j]; cbn [nth].
    + intros ->. now rewrite (proj2 (onat_eqb_eq _ _) eq_refl) in E.
    + now apply IH.
Qed.

(* a non-negative in-range integer names that input axis *)
Lemma io_axis_int_in_range ins outs ornts j :
  j < length ins -> io_axis_indices ins outs ornts (AxInt (Z.of_nat j)) = AxOk (Some j) (nth j ornts None).
Proof.
  intros H. unfold io_axis_indices, ornt_out.
  destruct (0 <=? Z.of_nat j)%Z eqn:E; [|apply Z.leb_gt in E; lia].
  destruct (Z.of_nat j <? 0)%Z eqn:E2; [apply Z.ltb_lt in E2; lia|].
  rewrite Nat2Z.id. destruct (Nat.ltb j (length ins)) eqn:E3; [reflexivity|]. apply Nat.ltb_ge in E3. lia.
Qed.

(* a negative integer counts from the last INPUT axis *)
Lemma io_axis_int_negative ins outs ornts j :
  j < length ins ->
  io_axis_indices ins outs ornts (AxInt (Z.of_nat j - Z.of_nat (length ins))) = AxOk (Some j) (nth j ornts None).
Proof.
  intros H. unfold io_axis_indices, ornt_out.
  destruct (0 <=? Z.of_nat j - Z.of_nat (length ins))%Z eqn:E; [apply Z.leb_le in E; lia|].
  replace (Z.of_nat (length ins) + (Z.of_nat j - Z.of_nat (length ins)))%Z with (Z.of_nat j) by lia.
  destruct (Z.of_nat j <? 0)%Z eqn:E2; [apply Z.ltb_lt in E2; lia|].
  rewrite Nat2Z.id. destruct (Nat.ltb j (length ins)) eqn:E3; [reflexivity|]. apply Nat.ltb_ge in E3. lia.
Qed.

(* integers outside [-nin, nin) are refused *)
Lemma io_axis_int_out_of_range ins outs ornts z :
  (z < - Z.of_nat (length ins) \/ Z.of_nat (length ins) <= z)%Z ->
  io_axis_indices ins outs ornts (AxInt z) = AxErrKey.
Proof.
  intros H. unfold io_axis_indices.
  destruct (0 <=? z)%Z eqn:E.
  - apply Z.leb_le in E. destruct (z <? 0)%Z eqn:E2; [reflexivity|].
    destruct (Nat.ltb (Z.to_nat z) (length ins)) eqn:E3; [|reflexivity]. apply Nat.ltb_lt in E3. lia.
  - apply Z.leb_gt in E. destruct (Z.of_nat (length ins) + z <? 0)%Z eqn:E2; [reflexivity|].
    apply Z.ltb_ge in E2. lia.
Qed.

(* the name of an input axis (not also an output name) identifies the same pair as its index *)
Lemma io_axis_input_name ins outs ornts s j :
  str_index s ins = Some j -> str_index s outs = None ->
  io_axis_indices ins outs ornts (AxName s) = io_axis_indices ins outs ornts (AxInt (Z.of_nat j)).
Proof.
  intros Hi Ho. rewrite io_axis_int_in_range by (eapply str_index_lt; eauto).
  unfold io_axis_indices, ornt_out. now rewrite Hi, Ho.
Qed.

(* the name of an output axis (not an input name): the input found really drives that output,
   and it is the first such input; None only when no input drives it *)
Lemma io_axis_output_name ins outs ornts s o :
  str_index s ins = None -> str_index s outs = Some o ->
  exists i, io_axis_indices ins outs ornts (AxName s) = AxOk i (Some o) /\
    match i with
    | Some i' => nth i' ornts None = Some o /\ forall j, j < i' -> nth j ornts None <> Some o
    | None => forall j, nth j ornts None <> Some o
    end.
Proof.
  intros Hi Ho. unfold io_axis_indices. rewrite Hi, Ho. exists (ornt_index o ornts). split; [reflexivity|].
  destruct (ornt_index o ornts) as [i'|] eqn:E.
  - split; [now apply ornt_index_sound|now apply ornt_index_first].
  - now apply ornt_index_none.
Qed.

(* a name shared by input and output is accepted only if the two axes correspond *)
Lemma io_axis_shared_name ins outs ornts s i o :
  str_index s ins = Some i -> str_index s outs = Some o ->
  io_axis_indices ins outs ornts (AxName s) =
    if onat_eqb (nth i ornts None) (Some o) then AxOk (Some i) (Some o) else AxErrAxis.
Proof.
  intros Hi Ho. unfold io_axis_indices, ornt_out. rewrite Hi, Ho.
  destruct (onat_eqb (nth i ornts None) (Some o)) eqn:E; [|reflexivity].
  apply onat_eqb_eq in E. now rewrite E.
Qed.

Lemma io_axis_unknown_name ins outs ornts s :
  str_index s ins = None -> str_index s outs = None -> io_axis_indices ins outs ornts (AxName s) = AxErrAxis.
Proof. intros Hi Ho. unfold io_axis_indices. now rewrite Hi, Ho. Qed.

(* ------------------------------------------------------------ drop_io_dim *)
Section AxesProofs.
  Variable R : Type.
  Variables (r0 r1 : R) (radd rmul rsub : R -> R -> R) (ropp : R -> R).
  Variable reqb : R -> R -> bool.
  Hypothesis Rth : ring_theory r0 r1 radd rmul rsub ropp (@eq R).
  Hypothesis reqb_spec : forall x y, reqb x y = true <-> x = y.
  Add Ring Rring2 : Rth.

  Local Notation mat := (list (list R)).
  Local Notation vec := (list R).
  Local Notation Aff := (aff R).
  Local Notation Dot := (dot r0 radd rmul).
  Local Notation Happly := (happly r0 r1 radd rmul).
  Local Notation MkAff := (mk_aff R r0 r1 reqb).
  Local Notation Apply := (apply R r0 r1 radd rmul).
  Local Notation Drop := (drop_io_dim R r0 r1 reqb).
  Local Notation WF := (WF R r0 r1).

  Lemma dot_drop_nth i : forall (r y : vec),
    Dot r y = radd (Dot (drop_nth i r) (drop_nth i y)) (rmul (nth i r r0) (nth i y r0)).
  Proof.
    induction i as [|i IH]; intros [|a r] [|b y]; cbn [drop_nth dot nth]; try ring.
    - rewrite (dot_nil_r R r0 radd rmul). ring.
    - rewrite (IH r y). ring.
  Qed.

  (* happly only looks at the rows above the last one *)
  Lemma happly_top (top : mat) (last_row : vec) (x : vec) :
    Happly (top ++ [last_row]) x = map (fun r => Dot r (x ++ [r1])) top.
  Proof.
    unfold happly, mv, hom. rewrite map_app. cbn [map]. now rewrite removelast_last.
  Qed.

  Lemma orth_axes_col_zero i o (top : mat) (last_row : vec) nin allow r :
    rows_len (S nin) top -> i < nin ->
    orth_axes R r0 reqb i o (top ++ [last_row]) allow = true ->
    In r (drop_nth o top) -> nth i r r0 = r0.
  Proof.
    intros Hrl Hi Ho Hin. unfold orth_axes in Ho.
    apply andb_true_iff in Ho. destruct Ho as [_ Hc].
    unfold lin_part, top_rows in Hc. rewrite removelast_last in Hc.
    destruct (in_drop_nth o top r Hin) as [k [Hk Hn]].
    rewrite forallb_forall in Hc.
    assert (Hn' : nth_error (map (fun row : list R => removelast row) top) k = Some (removelast r))
      by (rewrite nth_error_map, Hn; reflexivity).
    specialize (Hc _ (in_combine_seq _ 0 k _ Hn')). cbn [fst snd] in Hc.
    apply orb_true_iff in Hc. destruct Hc as [Hc|Hc].
    - apply Nat.eqb_eq in Hc. cbn in Hc. lia.
    - unfold is_zero in Hc. apply reqb_spec in Hc.
      assert (Hlen : length r = S nin).
      { unfold rows_len in Hrl. rewrite Forall_forall in Hrl. apply Hrl. eapply nth_error_In; eauto. }
      rewrite <- (nth_removelast r0 r i); [exact Hc|]. rewrite Hlen. cbn. exact Hi.
  Qed.

  (* both axes identified: after dropping input axis i and output axis o, every remaining output
     is the same function of the remaining inputs, whatever value the dropped input had *)
  Theorem drop_io_dim_both a i o f b x :
    WF a -> Drop a (Some i) (Some o) f = Ok b ->
    i < cs_ndim (adom a) -> o < cs_ndim (arng a) -> length x = cs_ndim (adom a) ->
    Apply b (drop_nth i x) = Ok (drop_nth o (Happly (amat a) x)) /\
    cnames (adom b) = drop_nth i (cnames (adom a)) /\ cnames (arng b) = drop_nth o (cnames (arng a)).
  Proof.
    intros [[top [Em [Ht Hrl]]] _] H Hi Ho Hx. unfold drop_io_dim in H.
    destruct (orth_axes R r0 reqb i o (amat a) f) eqn:Horth; cbn [negb] in H; [|discriminate].
    unfold bind in H.
    destruct (mk_cs (drop_nth i (cnames (adom a))) EmptyString 1) as [d|e] eqn:Hd; [|discriminate].
    destruct (mk_cs (drop_nth o (cnames (arng a))) EmptyString 1) as [r|e] eqn:Hr; [|discriminate].
    destruct (mk_cs_ok _ _ _ _ Hd) as [Hd1 _]. destruct (mk_cs_ok _ _ _ _ Hr) as [Hr1 _].
    destruct (mk_aff_ok R r0 r1 reqb reqb_spec _ _ _ _ _ H) as [Eb [Ebd [Ebr _]]].
    split; [|split; congruence].
    unfold cs_ndim in *.
    rewrite (apply_ok R r0 r1 radd rmul).
    2:{ unfold cs_ndim. rewrite Ebd, Hd1. rewrite (drop_nth_length i x) by lia.
        rewrite (drop_nth_length i (cnames (adom a))) by lia. now rewrite Hx. }
    f_equal. rewrite Em in Horth. rewrite Eb, Em.
    rewrite (drop_nth_app o top) by lia. rewrite map_app. cbn [map].
    rewrite !happly_top. rewrite drop_nth_map, map_map.
    apply map_ext_in. intros row Hin.
    rewrite (dot_drop_nth i row (x ++ [r1])).
    rewrite (orth_axes_col_zero i o top _ _ f row Hrl Hi Horth Hin).
    rewrite drop_nth_app by lia. ring.
  Qed.

  (* ... and the dropped output depended on the dropped input alone *)
  Theorem drop_io_dim_pair_isolated a i o f b x :
    WF a -> Drop a (Some i) (Some o) f = Ok b ->
    i < cs_ndim (adom a) -> o < cs_ndim (arng a) -> length x = cs_ndim (adom a) ->
    nth o (Happly (amat a) x) r0 =
      radd (rmul (nth i (nth o (amat a) []) r0) (nth i x r0)) (last (nth o (amat a) []) r0).
  Proof.
    intros [[top [Em [Ht Hrl]]] _] H Hi Ho Hx. unfold drop_io_dim in H.
    destruct (orth_axes R r0 reqb i o (amat a) f) eqn:Horth; cbn [negb] in H; [|discriminate].
    clear H. unfold cs_ndim in *. rewrite Em in *. rewrite happly_top.
    rewrite app_nth1 by lia.
    assert (Hrow : length (nth o top []) = S (length (cnames (adom a)))).
    { unfold rows_len in Hrl. rewrite Forall_forall in Hrl. apply Hrl. apply nth_In. lia. }
    replace (nth o (map (fun r => Dot r (x ++ [r1])) top) r0) with (Dot (nth o top []) (x ++ [r1])).
    2:{ symmetry. apply (nth_map_lt (fun r => Dot r (x ++ [r1])) [] r0 top o). lia. }
    set (row := nth o top []) in *.
    (* row o has zeros everywhere except column i (and the translation column) *)
    unfold orth_axes in Horth. apply andb_true_iff in Horth. destruct Horth as [Horth _].
    apply andb_true_iff in Horth. destruct Horth as [_ Hz].
    unfold lin_part, top_rows in Hz. rewrite removelast_last in Hz.
    assert (E : nth o (map (fun r : list R => removelast r) top) [] = removelast row).
    { apply (nth_map_lt (fun r : list R => removelast r) [] [] top o). change (o < @length (RingMat.vec R) top). rewrite Ht. exact Ho. }
    rewrite E in Hz. rewrite forallb_forall in Hz.
    assert (Hzero : forall j, j < length (removelast row) -> j <> i -> nth j (removelast row) r0 = r0).
    { intros j Hj Hji.
      assert (Hne : nth_error (removelast row) j = Some (nth j (removelast row) r0)) by (apply nth_error_nth'; exact Hj).
      specialize (Hz _ (in_combine_seq _ 0 j _ Hne)). cbn [fst snd] in Hz.
      apply orb_true_iff in Hz. destruct Hz as [Hz|Hz].
      - apply Nat.eqb_eq in Hz. cbn in Hz. lia.
      - unfold is_zero in Hz. now apply reqb_spec in Hz. }
    assert (Hrne : row <> []) by (intro E0; rewrite E0 in Hrow; discriminate).
    rewrite (app_removelast_last r0 Hrne) at 1.
    assert (Hrl' : length (removelast row) = length x).
    { assert (E2 := app_removelast_last r0 Hrne). apply (f_equal (@length _)) in E2.
      rewrite app_length in E2. cbn [length] in E2. lia. }
    rewrite (dot_app R r0 r1 radd rmul rsub ropp Rth) by exact Hrl'.
    cbn [dot].
    assert (Hsingle : forall (v y : vec), length v = length y ->
              (forall j, j < length v -> j <> i -> nth j v r0 = r0) ->
              Dot v y = rmul (nth i v r0) (nth i y r0)).
    { clear -Rth. intros v. revert i. induction v as [|a v IH]; intros i [|b y] Hl Hzv; try discriminate.
      - destruct i; cbn; ring.
      - cbn [dot]. destruct i as [|i].
        + cbn [nth]. rewrite (IH (length v + 1) y).
          * rewrite (nth_overflow v) by lia. ring.
          * cbn in Hl. lia.
          * intros j Hj _. apply (Hzv (S j)); cbn [length]; lia.
        + cbn [nth]. rewrite (IH i y).
          * assert (Ha : a = r0) by (apply (Hzv 0); cbn [length]; lia). rewrite Ha. ring.
          * cbn in Hl. lia.
          * intros j Hj Hji. apply (Hzv (S j)); cbn [length]; lia. }
    rewrite (Hsingle (removelast row) x Hrl' Hzero).
    rewrite nth_removelast by (rewrite Hrow; cbn; lia).
    ring.
  Qed.

  (* only an output axis identified (no input drives it): the other outputs are untouched *)
  Theorem drop_io_dim_output_only a o f b x :
    WF a -> Drop a None (Some o) f = Ok b -> o < cs_ndim (arng a) -> length x = cs_ndim (adom a) ->
    Apply b x = Ok (drop_nth o (Happly (amat a) x)) /\
    cnames (adom b) = cnames (adom a) /\ cnames (arng b) = drop_nth o (cnames (arng a)).
  Proof.
    intros [[top [Em [Ht Hrl]]] _] H Ho Hx. unfold drop_io_dim in H. cbn [negb] in H. unfold bind in H.
    destruct (mk_cs (cnames (adom a)) EmptyString 1) as [d|e] eqn:Hd; [|discriminate].
    destruct (mk_cs (drop_nth o (cnames (arng a))) EmptyString 1) as [r|e] eqn:Hr; [|discriminate].
    destruct (mk_cs_ok _ _ _ _ Hd) as [Hd1 _]. destruct (mk_cs_ok _ _ _ _ Hr) as [Hr1 _].
    destruct (mk_aff_ok R r0 r1 reqb reqb_spec _ _ _ _ _ H) as [Eb [Ebd [Ebr _]]].
    split; [|split; congruence].
    rewrite (apply_ok R r0 r1 radd rmul) by (unfold cs_ndim in *; congruence).
    f_equal. unfold cs_ndim in *. rewrite Eb, Em. rewrite (drop_nth_app o top) by lia.
    rewrite !happly_top. now rewrite drop_nth_map.
  Qed.

  (* only an input axis identified (it drives no output): on points whose dropped coordinate
     is 0 every output is untouched *)
  Theorem drop_io_dim_input_only a i f b x :
    WF a -> Drop a (Some i) None f = Ok b -> i < cs_ndim (adom a) -> length x = cs_ndim (adom a) ->
    nth i x r0 = r0 ->
    Apply b (drop_nth i x) = Ok (Happly (amat a) x) /\
    cnames (adom b) = drop_nth i (cnames (adom a)) /\ cnames (arng b) = cnames (arng a).
  Proof.
    intros [[top [Em [Ht Hrl]]] _] H Hi Hx Hxi. unfold drop_io_dim in H. cbn [negb] in H. unfold bind in H.
    destruct (mk_cs (drop_nth i (cnames (adom a))) EmptyString 1) as [d|e] eqn:Hd; [|discriminate].
    destruct (mk_cs (cnames (arng a)) EmptyString 1) as [r|e] eqn:Hr; [|discriminate].
    destruct (mk_cs_ok _ _ _ _ Hd) as [Hd1 _]. destruct (mk_cs_ok _ _ _ _ Hr) as [Hr1 _].
    destruct (mk_aff_ok R r0 r1 reqb reqb_spec _ _ _ _ _ H) as [Eb [Ebd [Ebr _]]].
    split; [|split; congruence].
    unfold cs_ndim in *.
    rewrite (apply_ok R r0 r1 radd rmul).
    2:{ unfold cs_ndim. rewrite Ebd, Hd1. rewrite (drop_nth_length i x) by lia.
        rewrite (drop_nth_length i (cnames (adom a))) by lia. now rewrite Hx. }
    f_equal. rewrite Eb, Em. rewrite map_app. cbn [map]. rewrite !happly_top, map_map.
    apply map_ext_in. intros row Hin.
    rewrite (dot_drop_nth i row (x ++ [r1])).
    rewrite drop_nth_app by lia. rewrite app_nth1 by lia. rewrite Hxi. ring.
  Qed.
End AxesProofs.
