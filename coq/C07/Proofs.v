(* C07 - lemmas, part 1: vector algebra over Q up to ==, scatter-add, cumsum,
   truncated convolution, linear interpolation; superposition and causality. *)
From Coq Require Import String.
From Coq Require Import List ZArith QArith Qabs Bool Lia Lqa Setoid Morphisms.
From NV.C07 Require Import Model.
Import ListNotations.
Open Scope Q_scope.

(* ------------------------------------------------------------ normalised arithmetic *)
Lemma qadd_eq a b : qadd a b == a + b.  Proof. apply Qred_correct. Qed.
Lemma qsub_eq a b : qsub a b == a - b.  Proof. apply Qred_correct. Qed.
Lemma qmul_eq a b : qmul a b == a * b.  Proof. apply Qred_correct. Qed.
Lemma qdiv_eq a b : qdiv a b == a / b.  Proof. apply Qred_correct. Qed.
Global Instance qadd_m : Proper (Qeq ==> Qeq ==> Qeq) qadd.
Proof. intros a b H c d H'. rewrite !qadd_eq, H, H'. reflexivity. Qed.
Global Instance qmul_m : Proper (Qeq ==> Qeq ==> Qeq) qmul.
Proof. intros a b H c d H'. rewrite !qmul_eq, H, H'. reflexivity. Qed.
Global Instance qdiv_m : Proper (Qeq ==> Qeq ==> Qeq) qdiv.
Proof. intros a b H c d H'. rewrite !qdiv_eq, H, H'. reflexivity. Qed.
Ltac qn := rewrite ?qadd_eq, ?qsub_eq, ?qmul_eq, ?qdiv_eq.

Lemma qlt_true a b : qlt a b = true <-> a < b.
Proof.
  unfold qlt. rewrite negb_true_iff. split.
  - intros H. apply Qnot_le_lt. intros C. apply Qle_bool_iff in C. congruence.
  - intros H. destruct (Qle_bool b a) eqn:E; [|reflexivity]. apply Qle_bool_iff in E. lra.
Qed.
Lemma qlt_false a b : qlt a b = false <-> b <= a.
Proof.
  unfold qlt. rewrite negb_false_iff. apply Qle_bool_iff.
Qed.

(* ------------------------------------------------------------ lists up to == *)
Definition leq : list Q -> list Q -> Prop := Forall2 Qeq.
Global Instance leq_refl : Reflexive leq.
Proof. intros l. induction l as [|x l IH]; constructor; [reflexivity|exact IH]. Qed.
Global Instance leq_sym : Symmetric leq.
Proof. intros a b H. induction H as [|x y a b Hxy Hab IH]; constructor; [symmetry; exact Hxy|exact IH]. Qed.
Global Instance leq_trans : Transitive leq.
Proof.
  intros a b c H. revert c. induction H as [|x y a b Hxy Hab IH]; intros c Hc; inversion Hc as [|y' z b' c' Hyz Hbc]; subst;
    constructor; [rewrite Hxy; exact Hyz|apply IH; exact Hbc].
Qed.
Lemma leq_length a b : leq a b -> length a = length b.
Proof. intros H. induction H as [|x y a b Hxy Hab IH]; simpl; congruence. Qed.
Lemma leq_nth a b : leq a b -> forall j, nth j a 0 == nth j b 0.
Proof.
  intros H. induction H as [|x y a b Hxy Hab IH]; intros [|j]; simpl; try reflexivity; [exact Hxy|apply IH].
Qed.
Lemma nth_leq a b : length a = length b -> (forall j, (j < length a)%nat -> nth j a 0 == nth j b 0) -> leq a b.
Proof.
  revert b. induction a as [|x a IH]; intros [|y b] L H; simpl in L; try discriminate; constructor.
  - apply (H O). simpl. lia.
  - apply IH; [lia|]. intros j Hj. apply (H (S j)). simpl. lia.
Qed.
Lemma leq_app a a' b b' : leq a a' -> leq b b' -> leq (a ++ b) (a' ++ b').
Proof. intros H. induction H as [|x y a a' Hxy Ha IH]; intros Hb; simpl; [exact Hb|constructor; [exact Hxy|apply IH; exact Hb]]. Qed.

(* ------------------------------------------------------------ vadd / vscale / zeros *)
Lemma vadd_length a b : length a = length b -> length (vadd a b) = length a.
Proof. revert b. induction a as [|x a IH]; intros [|y b] L; simpl in *; try discriminate; auto. Qed.
Lemma vscale_length c a : length (vscale c a) = length a.
Proof. apply map_length. Qed.
Lemma zeros_length n : length (zeros n) = n.
Proof. apply repeat_length. Qed.
Lemma nth_zeros n j : nth j (zeros n) 0 = 0.
Proof. revert j. induction n as [|n IH]; intros [|j]; simpl; auto. Qed.
Lemma nth_vadd a b j : length a = length b -> nth j (vadd a b) 0 == nth j a 0 + nth j b 0.
Proof.
  revert b j. induction a as [|x a IH]; intros [|y b] j L; simpl in L; try discriminate.
  - destruct j; simpl; lra.
  - destruct j as [|j]; simpl; [apply qadd_eq|apply IH; lia].
Qed.
Lemma nth_vscale c a j : nth j (vscale c a) 0 == c * nth j a 0.
Proof.
  revert j. induction a as [|x a IH]; intros [|j]; simpl; try lra; [apply qmul_eq|apply IH].
Qed.
Global Instance vadd_m : Proper (leq ==> leq ==> leq) vadd.
Proof.
  intros a a' Ha. induction Ha as [|x y a a' Hxy Ha IH]; intros b b' Hb; simpl; [constructor|].
  inversion Hb as [|u v c c' Huv Hc]; subst; constructor; [rewrite Hxy, Huv; reflexivity|apply IH; exact Hc].
Qed.
Global Instance vscale_m : Proper (Qeq ==> leq ==> leq) vscale.
Proof.
  intros c c' Hc a a' Ha. induction Ha as [|x y a a' Hxy Ha IH]; simpl; constructor; [rewrite Hc, Hxy; reflexivity|exact IH].
Qed.
Lemma vadd_zeros_l a : leq (vadd (zeros (length a)) a) a.
Proof. induction a as [|x a IH]; simpl; constructor; [qn; lra|exact IH]. Qed.
Lemma vscale_zeros c n : leq (vscale c (zeros n)) (zeros n).
Proof. induction n as [|n IH]; simpl; constructor; [qn; lra|exact IH]. Qed.
Lemma vscale_0 a : leq (vscale 0 a) (zeros (length a)).
Proof. induction a as [|x a IH]; simpl; constructor; [qn; lra|exact IH]. Qed.

(* ------------------------------------------------------------ add_at and scatter *)
Lemma add_at_length l i v : length (add_at l i v) = length l.
Proof. revert i. induction l as [|x l IH]; intros [|i]; simpl; auto. Qed.
Lemma nth_add_at l i v j : (j < length l)%nat ->
  nth j (add_at l i v) 0 == nth j l 0 + (if (i =? j)%nat then v else 0).
Proof.
  revert i j. induction l as [|x l IH]; intros i j Hj; simpl in Hj; [lia|].
  destruct i as [|i], j as [|j]; simpl; try (qn; lra); try lra.
  apply IH. lia.
Qed.

Definition scat (ps : list (nat * Q)) (r : list Q) : list Q :=
  fold_left (fun r p => add_at r (fst p) (snd p)) ps r.
Fixpoint bsum (ps : list (nat * Q)) (j : nat) : Q :=
  match ps with [] => 0 | p :: r => (if (fst p =? j)%nat then snd p else 0) + bsum r j end.
Lemma scat_length ps r : length (scat ps r) = length r.
Proof. revert r. induction ps as [|p ps IH]; intros r; simpl; [reflexivity|]. rewrite IH. apply add_at_length. Qed.
Lemma nth_scat ps r j : (j < length r)%nat -> nth j (scat ps r) 0 == nth j r 0 + bsum ps j.
Proof.
  revert r. induction ps as [|p ps IH]; intros r Hj; simpl; [lra|].
  rewrite IH by (rewrite add_at_length; exact Hj). rewrite nth_add_at by exact Hj. lra.
Qed.
Lemma bsum_app p q j : bsum (p ++ q) j == bsum p j + bsum q j.
Proof. induction p as [|x p IH]; simpl; [lra|rewrite IH; lra]. Qed.

Definition ons (g : list Q) (evs : list event) : list (nat * Q) := map (fun e => (t_onset g e, ev_val e)) evs.
Definition offs (g : list Q) (evs : list event) : list (nat * Q) := map (fun e => (t_offset g e, - ev_val e)) evs.
Lemma add_onsets_scat g evs r : add_onsets g evs r = scat (ons g evs) r.
Proof. unfold add_onsets, scat, ons. revert r. induction evs as [|e evs IH]; intros r; simpl; [reflexivity|apply IH]. Qed.
Lemma sub_offsets_scat g evs r : sub_offsets g evs r = scat (offs g evs) r.
Proof. unfold sub_offsets, scat, offs. revert r. induction evs as [|e evs IH]; intros r; simpl; [reflexivity|apply IH]. Qed.
Lemma impulses_length g evs : length (impulses g evs) = length g.
Proof. unfold impulses. rewrite sub_offsets_scat, add_onsets_scat, !scat_length. apply zeros_length. Qed.
Lemma nth_impulses g evs j : (j < length g)%nat ->
  nth j (impulses g evs) 0 == bsum (ons g evs) j + bsum (offs g evs) j.
Proof.
  intros Hj. unfold impulses. rewrite sub_offsets_scat, add_onsets_scat.
  rewrite nth_scat by (rewrite scat_length, zeros_length; exact Hj).
  rewrite nth_scat by (rewrite zeros_length; exact Hj). rewrite nth_zeros. lra.
Qed.

(* additivity over events - no condition on the bins: coincident events accumulate *)
Lemma impulses_app g e1 e2 : leq (impulses g (e1 ++ e2)) (vadd (impulses g e1) (impulses g e2)).
Proof.
  apply nth_leq.
  - rewrite vadd_length; rewrite !impulses_length; reflexivity.
  - intros j Hj. rewrite impulses_length in Hj.
    rewrite nth_vadd by (rewrite !impulses_length; reflexivity).
    rewrite !nth_impulses by exact Hj. unfold ons, offs. rewrite !map_app, !bsum_app. lra.
Qed.
Definition scale_ev (c : Q) (e : event) : event := (ev_onset e, ev_dur e, c * ev_val e).
Lemma t_onset_scale g c e : t_onset g (scale_ev c e) = t_onset g e.
Proof. reflexivity. Qed.
Lemma t_offset_scale g c e : t_offset g (scale_ev c e) = t_offset g e.
Proof. reflexivity. Qed.
Lemma bsum_ons_scale g c evs j : bsum (ons g (map (scale_ev c) evs)) j == c * bsum (ons g evs) j.
Proof.
  induction evs as [|e evs IH]; simpl; [lra|]. rewrite IH. rewrite t_onset_scale.
  destruct (t_onset g e =? j)%nat; unfold scale_ev, ev_val; simpl; lra.
Qed.
Lemma bsum_offs_scale g c evs j : bsum (offs g (map (scale_ev c) evs)) j == c * bsum (offs g evs) j.
Proof.
  induction evs as [|e evs IH]; simpl; [lra|]. rewrite IH. rewrite t_offset_scale.
  destruct (t_offset g e =? j)%nat; unfold scale_ev, ev_val; simpl; lra.
Qed.
Lemma impulses_scale g c evs : leq (impulses g (map (scale_ev c) evs)) (vscale c (impulses g evs)).
Proof.
  apply nth_leq.
  - rewrite vscale_length, !impulses_length. reflexivity.
  - intros j Hj. rewrite impulses_length in Hj. rewrite nth_vscale, !nth_impulses by exact Hj.
    rewrite bsum_ons_scale, bsum_offs_scale. lra.
Qed.
Lemma impulses_nil g : impulses g [] = zeros (length g).
Proof. reflexivity. Qed.

(* ------------------------------------------------------------ cumsum *)
Lemma cumsum_from_length acc l : length (cumsum_from acc l) = length l.
Proof. revert acc. induction l as [|x l IH]; intros acc; simpl; auto. Qed.
Global Instance cumsum_from_m : Proper (Qeq ==> leq ==> leq) cumsum_from.
Proof.
  intros a a' Ha l l' Hl. revert a a' Ha. induction Hl as [|x y l l' Hxy Hl IH]; intros a a' Ha; simpl; constructor.
  - rewrite Ha, Hxy. reflexivity.
  - apply IH. rewrite Ha, Hxy. reflexivity.
Qed.
Lemma cumsum_from_vadd a b x y : length x = length y ->
  leq (cumsum_from (a + b) (vadd x y)) (vadd (cumsum_from a x) (cumsum_from b y)).
Proof.
  revert a b y. induction x as [|u x IH]; intros a b [|v y] L; simpl in L; try discriminate; simpl; constructor.
  - qn. lra.
  - rewrite <- IH by lia. apply cumsum_from_m; [qn; lra|reflexivity].
Qed.
Lemma cumsum_from_vscale c a x : leq (cumsum_from (c * a) (vscale c x)) (vscale c (cumsum_from a x)).
Proof.
  revert a. induction x as [|u x IH]; intros a; simpl; constructor.
  - qn. lra.
  - rewrite <- IH. apply cumsum_from_m; [qn; lra|reflexivity].
Qed.
Lemma cumsum_vadd x y : length x = length y -> leq (cumsum (vadd x y)) (vadd (cumsum x) (cumsum y)).
Proof. intros L. unfold cumsum. rewrite <- cumsum_from_vadd by exact L. apply cumsum_from_m; [lra|reflexivity]. Qed.
Lemma cumsum_vscale c x : leq (cumsum (vscale c x)) (vscale c (cumsum x)).
Proof. unfold cumsum. rewrite <- cumsum_from_vscale. apply cumsum_from_m; [lra|reflexivity]. Qed.
Lemma cumsum_from_zeros a n : leq (cumsum_from a (zeros n)) (repeat a n).
Proof.
  induction n as [|n IH]; simpl; constructor; [qn; lra|].
  rewrite <- IH. apply cumsum_from_m; [qn; lra|reflexivity].
Qed.
(* prefix of zeros stays a prefix of zeros *)
Lemma nth_cumsum_from_zero_prefix l : forall a j, a == 0 -> (j < length l)%nat ->
  (forall i, (i <= j)%nat -> nth i l 0 == 0) -> nth j (cumsum_from a l) 0 == 0.
Proof.
  induction l as [|x l IH]; intros a j Ha Hj H; simpl in Hj; [lia|].
  destruct j as [|j]; simpl.
  - qn. rewrite Ha. rewrite (H O) by lia. lra.
  - apply IH; [qn; rewrite Ha, (H O) by lia; lra|lia|]. intros i Hi. apply (H (S i)). lia.
Qed.

(* ------------------------------------------------------------ addl / convt *)
Lemma addl_length u w : length (addl u w) = length u.
Proof. revert w. induction u as [|x u IH]; intros [|y w]; simpl; auto. Qed.
Lemma nth_addl u w j : (j < length u)%nat -> nth j (addl u w) 0 == nth j u 0 + nth j w 0.
Proof.
  revert w j. induction u as [|x u IH]; intros w j Hj; simpl in Hj; [lia|].
  destruct w as [|y w]; simpl.
  - destruct j; simpl; lra.
  - destruct j as [|j]; simpl; [apply qadd_eq|apply IH; lia].
Qed.
Global Instance addl_m : Proper (leq ==> leq ==> leq) addl.
Proof.
  intros u u' Hu. induction Hu as [|x y u u' Hxy Hu IH]; intros w w' Hw; simpl; [constructor|].
  inversion Hw as [|a b c c' Hab Hc]; subst; constructor; try exact Hxy; try exact Hu.
  - rewrite Hxy, Hab. reflexivity.
  - apply IH. exact Hc.
Qed.
Lemma convt_length x h : length (convt x h) = length x.
Proof. induction x as [|a x IH]; [reflexivity|]. cbn [convt]. rewrite addl_length. cbn [length]. rewrite IH. reflexivity. Qed.
Global Instance convt_m : Proper (leq ==> leq ==> leq) convt.
Proof.
  intros x x' Hx h h' Hh. induction Hx as [|a b x x' Hab Hx IH]; [constructor|]. cbn [convt].
  apply addl_m; [constructor; [reflexivity|exact IH]|]. apply vscale_m; assumption.
Qed.
Lemma nth_convt_cons a x h j : (j < S (length x))%nat ->
  nth j (convt (a :: x) h) 0 == (match j with O => 0 | S j' => nth j' (convt x h) 0 end) + a * nth j h 0.
Proof.
  intros Hj. cbn [convt]. rewrite nth_addl by (cbn [length]; rewrite convt_length; exact Hj).
  rewrite nth_vscale. destruct j; simpl; lra.
Qed.
Lemma convt_vadd x y h : length x = length y -> leq (convt (vadd x y) h) (vadd (convt x h) (convt y h)).
Proof.
  intros L. apply nth_leq.
  - rewrite vadd_length by (rewrite !convt_length; exact L). rewrite !convt_length. apply vadd_length. exact L.
  - rewrite convt_length, vadd_length by exact L. revert y L.
    induction x as [|a x IH]; intros [|b y] L j Hj; simpl in L, Hj; try discriminate; [lia|].
    rewrite nth_vadd by (rewrite !convt_length; simpl; lia).
    cbn [vadd]. rewrite !nth_convt_cons by (rewrite ?vadd_length; lia).
    destruct j as [|j].
    + qn. lra.
    + rewrite IH by lia. rewrite nth_vadd by (rewrite !convt_length; lia). qn. lra.
Qed.
Lemma convt_vscale c x h : leq (convt (vscale c x) h) (vscale c (convt x h)).
Proof.
  apply nth_leq.
  - rewrite vscale_length, !convt_length, vscale_length. reflexivity.
  - rewrite convt_length, vscale_length.
    induction x as [|a x IH]; intros j Hj; simpl in Hj; [lia|].
    rewrite nth_vscale. cbn [vscale map]. rewrite !nth_convt_cons by (rewrite ?map_length; lia).
    destruct j as [|j].
    + qn. lra.
    + fold (vscale c x). rewrite IH by lia. rewrite nth_vscale. qn. lra.
Qed.
Lemma nth_convt_zero_prefix h x : forall j, (j < length x)%nat ->
  (forall i, (i <= j)%nat -> nth i x 0 == 0) -> nth j (convt x h) 0 == 0.
Proof.
  induction x as [|a x IH]; intros j Hj H; simpl in Hj; [lia|].
  rewrite nth_convt_cons by lia. assert (Ha : a == 0) by (apply (H O); lia). rewrite Ha.
  destruct j as [|j]; [lra|]. rewrite IH; [lra|lia|]. intros i Hi. apply (H (S i)). lia.
Qed.

(* ------------------------------------------------------------ interpolation *)
Lemma interp1_vadd g c d t : length c = length d ->
  interp1 g (vadd c d) t == interp1 g c t + interp1 g d t.
Proof.
  intros L. unfold interp1. qn. rewrite !nth_vadd by exact L. unfold Qdiv. ring.
Qed.
Lemma interp1_vscale g k c t : interp1 g (vscale k c) t == k * interp1 g c t.
Proof. unfold interp1. qn. rewrite !nth_vscale. unfold Qdiv. ring. Qed.
Lemma interp1_m g c d t : leq c d -> interp1 g c t == interp1 g d t.
Proof. intros H. unfold interp1. qn. rewrite !(leq_nth _ _ H). reflexivity. Qed.
Lemma resample_length g c fts : length (resample g c fts) = length fts.
Proof. apply map_length. Qed.
Lemma resample_m g c d fts : leq c d -> leq (resample g c fts) (resample g d fts).
Proof. intros H. induction fts as [|t fts IH]; simpl; constructor; [apply interp1_m; exact H|exact IH]. Qed.
Lemma resample_vadd g c d fts : length c = length d ->
  leq (resample g (vadd c d) fts) (vadd (resample g c fts) (resample g d fts)).
Proof. intros L. induction fts as [|t fts IH]; simpl; constructor; [qn; apply interp1_vadd; exact L|exact IH]. Qed.
Lemma resample_vscale g k c fts : leq (resample g (vscale k c) fts) (vscale k (resample g c fts)).
Proof. induction fts as [|t fts IH]; simpl; constructor; [qn; apply interp1_vscale|exact IH]. Qed.
Lemma interp1_zero g ys t :
  nth (interp_index g t - 1) ys 0 == 0 -> nth (interp_index g t) ys 0 == 0 -> interp1 g ys t == 0.
Proof. intros H1 H2. unfold interp1. qn. rewrite H1, H2. unfold Qdiv. ring. Qed.

(* ------------------------------------------------------------ superposition *)
Lemma sample_condition_length g evs : length (sample_condition g evs) = length g.
Proof. unfold sample_condition, cumsum. rewrite cumsum_from_length. apply impulses_length. Qed.
Lemma sample_condition_app g e1 e2 :
  leq (sample_condition g (e1 ++ e2)) (vadd (sample_condition g e1) (sample_condition g e2)).
Proof.
  unfold sample_condition. rewrite <- cumsum_vadd by (rewrite !impulses_length; reflexivity).
  apply cumsum_from_m; [reflexivity|apply impulses_app].
Qed.
Lemma sample_condition_scale g c evs :
  leq (sample_condition g (map (scale_ev c) evs)) (vscale c (sample_condition g evs)).
Proof.
  unfold sample_condition. rewrite <- cumsum_vscale. apply cumsum_from_m; [reflexivity|apply impulses_scale].
Qed.
Lemma main_regressor_app g fts h e1 e2 :
  leq (main_regressor g fts h (e1 ++ e2)) (vadd (main_regressor g fts h e1) (main_regressor g fts h e2)).
Proof.
  unfold main_regressor.
  rewrite <- resample_vadd by (rewrite !convt_length, !sample_condition_length; reflexivity).
  apply resample_m. rewrite <- convt_vadd by (rewrite !sample_condition_length; reflexivity).
  apply convt_m; [apply sample_condition_app|reflexivity].
Qed.
Lemma main_regressor_scale g fts h c evs :
  leq (main_regressor g fts h (map (scale_ev c) evs)) (vscale c (main_regressor g fts h evs)).
Proof.
  unfold main_regressor. rewrite <- resample_vscale. apply resample_m. rewrite <- convt_vscale.
  apply convt_m; [apply sample_condition_scale|reflexivity].
Qed.
Lemma main_regressor_length g fts h evs : length (main_regressor g fts h evs) = length fts.
Proof. apply resample_length. Qed.

Lemma sample_condition_nil g : leq (sample_condition g []) (zeros (length g)).
Proof.
  unfold sample_condition, cumsum. rewrite impulses_nil.
  rewrite cumsum_from_zeros. reflexivity.
Qed.
Lemma convt_zeros n h : leq (convt (zeros n) h) (zeros n).
Proof.
  apply nth_leq; [rewrite convt_length; reflexivity|]. intros j Hj. rewrite convt_length in Hj.
  rewrite nth_zeros. apply nth_convt_zero_prefix; [exact Hj|]. intros i _. rewrite nth_zeros. reflexivity.
Qed.
Lemma main_regressor_nil g fts h : leq (main_regressor g fts h []) (zeros (length fts)).
Proof.
  unfold main_regressor. apply nth_leq; [rewrite resample_length, zeros_length; reflexivity|].
  intros j Hj. rewrite nth_zeros. rewrite resample_length in Hj. unfold resample.
  rewrite (nth_indep _ 0 (interp1 g (convt (sample_condition g []) h) 0)) by (rewrite map_length; exact Hj).
  rewrite map_nth.
  assert (E : leq (convt (sample_condition g []) h) (zeros (length g))).
  { rewrite sample_condition_nil. apply convt_zeros. }
  rewrite (interp1_m _ _ _ _ E). apply interp1_zero; rewrite nth_zeros; reflexivity.
Qed.

(* the regressor of a set of events is the amplitude-weighted sum of unit single-event regressors *)
Definition unit_ev (e : event) : event := (ev_onset e, ev_dur e, 1).
Fixpoint sum_singles (g fts h : list Q) (evs : list event) : list Q :=
  match evs with
  | [] => zeros (length fts)
  | e :: r => vadd (vscale (ev_val e) (main_regressor g fts h [unit_ev e])) (sum_singles g fts h r)
  end.
Lemma sum_singles_length g fts h evs : length (sum_singles g fts h evs) = length fts.
Proof.
  induction evs as [|e evs IH]; simpl; [apply zeros_length|].
  rewrite vadd_length; rewrite vscale_length, main_regressor_length; [reflexivity|symmetry; exact IH].
Qed.
Lemma single_event_scale g fts h e :
  leq (main_regressor g fts h [e]) (vscale (ev_val e) (main_regressor g fts h [unit_ev e])).
Proof.
  rewrite <- (main_regressor_scale g fts h (ev_val e) [unit_ev e]). simpl map.
  unfold main_regressor. apply resample_m. apply convt_m; [|reflexivity].
  unfold sample_condition. apply cumsum_from_m; [reflexivity|].
  apply nth_leq; [rewrite !impulses_length; reflexivity|]. intros j Hj. rewrite impulses_length in Hj.
  rewrite !nth_impulses by exact Hj. destruct e as [[o d] v]. unfold ons, offs, scale_ev, unit_ev, ev_val, ev_onset, ev_dur. simpl.
  change (t_onset g (o, d, 1 * 1 * v)) with (t_onset g (o, d, v)).
  change (t_offset g (o, d, 1 * 1 * v)) with (t_offset g (o, d, v)).
  change (t_onset g (o, d, v * 1)) with (t_onset g (o, d, v)).
  change (t_offset g (o, d, v * 1)) with (t_offset g (o, d, v)).
  destruct (t_onset g (o, d, v) =? j)%nat, (t_offset g (o, d, v) =? j)%nat; lra.
Qed.
Lemma main_regressor_sum_singles g fts h evs : leq (main_regressor g fts h evs) (sum_singles g fts h evs).
Proof.
  induction evs as [|e evs IH]; [apply main_regressor_nil|].
  change (e :: evs) with ([e] ++ evs). rewrite main_regressor_app. cbn [sum_singles].
  apply vadd_m; [apply single_event_scale|exact IH].
Qed.

(* ------------------------------------------------------------ searchsorted facts *)
Lemma ss_le_length l x : (searchsorted l x <= length l)%nat.
Proof. induction l as [|y l IH]; simpl; [lia|]. destruct (qlt y x); simpl; lia. Qed.
Lemma ss_below l x : forall i, (i < searchsorted l x)%nat -> nth i l 0 < x.
Proof.
  induction l as [|y l IH]; intros i Hi; simpl in Hi; [lia|].
  destruct (qlt y x) eqn:E; [|lia]. destruct i as [|i]; simpl; [apply qlt_true; exact E|apply IH; lia].
Qed.
Lemma ss_at l x : (searchsorted l x < length l)%nat -> x <= nth (searchsorted l x) l 0.
Proof.
  induction l as [|y l IH]; intros H; simpl in *; [lia|].
  destruct (qlt y x) eqn:E; simpl; [apply IH; simpl in H; lia|apply qlt_false; exact E].
Qed.
Lemma ss_unique l x : forall k, (k <= length l)%nat -> (forall i, (i < k)%nat -> nth i l 0 < x) ->
  ((k < length l)%nat -> x <= nth k l 0) -> searchsorted l x = k.
Proof.
  induction l as [|y l IH]; intros k Hk Hb Ha; simpl in *; [lia|].
  destruct k as [|k].
  - assert (E : qlt y x = false) by (apply qlt_false; apply Ha; lia). rewrite E. reflexivity.
  - assert (E : qlt y x = true) by (apply qlt_true; apply (Hb O); lia). rewrite E. f_equal.
    apply IH; [lia| |].
    + intros i Hi. apply (Hb (S i)). lia.
    + intros H. apply Ha. lia.
Qed.
Lemma ss_mono l x x' : x <= x' -> (searchsorted l x <= searchsorted l x')%nat.
Proof.
  intros H. induction l as [|y l IH]; simpl; [lia|].
  destruct (qlt y x) eqn:E; [|lia].
  assert (E' : qlt y x' = true) by (apply qlt_true; apply qlt_true in E; lra). rewrite E'. lia.
Qed.
(* if an entry at index p is >= t then the search stops at or before p *)
Lemma ss_le_index l t p : (p < length l)%nat -> t <= nth p l 0 -> (searchsorted l t <= p)%nat.
Proof.
  intros Hp H. destruct (Nat.le_gt_cases (searchsorted l t) p) as [L|G]; [exact L|].
  pose proof (ss_below l t p G). lra.
Qed.

(* ------------------------------------------------------------ causality *)
Lemma t_onset_le_offset g e : 0 <= ev_dur e -> (t_onset g e <= t_offset g e)%nat.
Proof.
  intros Hd. unfold t_offset, t_onset.
  pose proof (ss_mono g (ev_onset e) (ev_onset e + ev_dur e)) as M.
  assert (H : (searchsorted g (ev_onset e) <= searchsorted g (ev_onset e + ev_dur e))%nat) by (apply M; lra).
  destruct ((Nat.min (searchsorted g (ev_onset e + ev_dur e)) (length g - 1) <? length g - 1)%nat &&
            (Nat.min (searchsorted g (ev_onset e + ev_dur e)) (length g - 1) =? Nat.min (searchsorted g (ev_onset e)) (length g - 1))%nat); lia.
Qed.
Lemma bsum_zero_below ps j : (forall p, In p ps -> (j < fst p)%nat) -> bsum ps j == 0.
Proof.
  induction ps as [|p ps IH]; intros H; simpl; [lra|].
  rewrite IH by (intros q Hq; apply H; right; exact Hq).
  assert (L : (j < fst p)%nat) by (apply H; left; reflexivity).
  destruct (fst p =? j)%nat eqn:E; [apply Nat.eqb_eq in E; lia|lra].
Qed.
Lemma impulses_zero_before g evs j : (j < length g)%nat ->
  (forall e, In e evs -> 0 <= ev_dur e /\ (j < t_onset g e)%nat) -> nth j (impulses g evs) 0 == 0.
Proof.
  intros Hj H. rewrite nth_impulses by exact Hj.
  rewrite !bsum_zero_below; [lra| |].
  - intros p Hp. unfold offs in Hp. apply in_map_iff in Hp. destruct Hp as [e [<- He]]. simpl.
    destruct (H e He) as [Hd Ht]. pose proof (t_onset_le_offset g e Hd). lia.
  - intros p Hp. unfold ons in Hp. apply in_map_iff in Hp. destruct Hp as [e [<- He]]. simpl. apply H. exact He.
Qed.
Lemma conv_zero_before g h evs j : (j < length g)%nat ->
  (forall e, In e evs -> 0 <= ev_dur e /\ (j < t_onset g e)%nat) ->
  nth j (sample_condition g evs) 0 == 0 /\ nth j (convt (sample_condition g evs) h) 0 == 0.
Proof.
  intros Hj H.
  assert (Z : forall i, (i <= j)%nat -> nth i (sample_condition g evs) 0 == 0).
  { intros i Hi. unfold sample_condition, cumsum. apply nth_cumsum_from_zero_prefix; [reflexivity|rewrite impulses_length; lia|].
    intros i' Hi'. apply impulses_zero_before; [lia|]. intros e He. destruct (H e He) as [Hd Ht]. split; [exact Hd|lia]. }
  split; [apply Z; lia|]. apply nth_convt_zero_prefix; [rewrite sample_condition_length; exact Hj|exact Z].
Qed.
Lemma interp_index_le g t p : (1 <= p)%nat -> (p < length g)%nat -> t <= nth p g 0 -> (interp_index g t <= p)%nat.
Proof. intros H1 Hp Ht. unfold interp_index. pose proof (ss_le_index g t p Hp Ht). lia. Qed.
(* frame time t at or before the grid point p, p strictly before every onset bin: regressor is zero at t *)
Lemma main_regressor_causal g h evs t p : (1 <= p)%nat -> (p < length g)%nat -> t <= nth p g 0 ->
  (forall e, In e evs -> 0 <= ev_dur e /\ (p < t_onset g e)%nat) ->
  interp1 g (convt (sample_condition g evs) h) t == 0.
Proof.
  intros H1 Hp Ht H. pose proof (interp_index_le g t p H1 Hp Ht) as Hi.
  apply interp1_zero.
  - apply (conv_zero_before g h evs); [lia|]. intros e He. destruct (H e He) as [Hd Hb]. split; [exact Hd|lia].
  - apply (conv_zero_before g h evs); [lia|]. intros e He. destruct (H e He) as [Hd Hb]. split; [exact Hd|lia].
Qed.
