(* C07 - cosine drift (design_matrix.py l.78-91) over the real numbers:
   column k-1 (k = 1 .. order-1) is  t |-> sqrt(2/n) * cos((pi/n) * (t + .5) * k),  t = 0..n-1  (DCT-II),
   the last column is the constant 1.  Orthonormality and orthogonality to the constant from the
   telescoping identity 2 sin(th/2) cos((t+1/2) th) = sin((t+1) th) - sin(t th). *)
From Coq Require Import Reals Lra Lia.
Open Scope R_scope.

Fixpoint rsum (f : nat -> R) (n : nat) : R :=
  match n with O => 0 | S k => rsum f k + f k end.
Lemma rsum_ext f g n : (forall t, (t < n)%nat -> f t = g t) -> rsum f n = rsum g n.
Proof.
  induction n as [|n IH]; intros H; simpl; [reflexivity|]. rewrite IH by (intros t Ht; apply H; lia).
  rewrite (H n) by lia. reflexivity.
Qed.
Lemma rsum_plus f g n : rsum (fun t => f t + g t) n = rsum f n + rsum g n.
Proof. induction n as [|n IH]; simpl; [lra|rewrite IH; lra]. Qed.
Lemma rsum_scal c f n : rsum (fun t => c * f t) n = c * rsum f n.
Proof. induction n as [|n IH]; simpl; [lra|rewrite IH; lra]. Qed.
Lemma rsum_const c n : rsum (fun _ => c) n = INR n * c.
Proof. induction n as [|n IH]; [simpl; lra|]. cbn [rsum]. rewrite IH, S_INR. lra. Qed.

(* the phase of the code: (pi / n) * (t + .5) * k *)
Definition phase (n t k : nat) : R := PI / INR n * (INR t + / 2) * INR k.
Definition dct_col (n k t : nat) : R := sqrt (2 / INR n) * cos (phase n t k).

Lemma telescope th n : 2 * sin (th / 2) * rsum (fun t => cos ((INR t + / 2) * th)) n = sin (INR n * th).
Proof.
  induction n as [|n IH].
  - simpl. rewrite Rmult_0_l, sin_0. lra.
  - cbn [rsum]. rewrite Rmult_plus_distr_l, IH.
    assert (E : sin (INR (S n) * th) - sin (INR n * th) = 2 * sin (th / 2) * cos ((INR n + / 2) * th)).
    { replace (INR (S n) * th) with ((INR n + / 2) * th + th / 2) by (rewrite S_INR; field).
      replace (INR n * th) with ((INR n + / 2) * th - th / 2) by field.
      rewrite sin_plus, sin_minus. ring. }
    lra.
Qed.
Lemma sin_PI_nat j : sin (PI * INR j) = 0.
Proof.
  induction j as [|j IH]; [simpl; rewrite Rmult_0_r; apply sin_0|].
  rewrite S_INR. replace (PI * (INR j + 1)) with (PI * INR j + PI) by ring. rewrite neg_sin, IH. lra.
Qed.
(* the key sum: the cosines of frequency j = 1 .. 2n-1 add up to zero over t = 0..n-1 *)
Lemma cos_sum_zero n j : (0 < j)%nat -> (j < 2 * n)%nat -> rsum (fun t => cos (phase n t j)) n = 0.
Proof.
  intros H0 H1.
  assert (Hn : 0 < INR n) by (apply lt_0_INR; lia).
  assert (Hj : 0 < INR j) by (apply lt_0_INR; lia).
  assert (Hj2 : INR j < 2 * INR n).
  { replace (2 * INR n) with (INR (2 * n)) by (rewrite mult_INR; simpl; lra). apply lt_INR. exact H1. }
  set (th := PI * INR j / INR n).
  rewrite (rsum_ext _ (fun t => cos ((INR t + / 2) * th))).
  2:{ intros t _. unfold phase, th. f_equal. field. lra. }
  pose proof (telescope th n) as T.
  replace (INR n * th) with (PI * INR j) in T by (unfold th; field; lra).
  rewrite sin_PI_nat in T.
  assert (S : 0 < sin (th / 2)).
  { pose proof PI_RGT_0 as P. set (r := INR j / (2 * INR n)).
    assert (Er : th / 2 = PI * r) by (unfold th, r; field; lra).
    assert (R0 : 0 < r) by (unfold r; apply Rdiv_lt_0_compat; lra).
    assert (R1 : r < 1).
    { assert (M : r * (2 * INR n) = INR j) by (unfold r; field; lra). nra. }
    rewrite Er. apply sin_gt_0; nra. }
  nra.
Qed.

Lemma phase_sub n t k l : (l <= k)%nat -> phase n t k - phase n t l = phase n t (k - l).
Proof. intros H. unfold phase. rewrite minus_INR by exact H. ring. Qed.
Lemma phase_add n t k l : phase n t k + phase n t l = phase n t (k + l).
Proof. unfold phase. rewrite plus_INR. ring. Qed.
Lemma cos_prod a b : cos a * cos b = (cos (a - b) + cos (a + b)) / 2.
Proof. rewrite cos_minus, cos_plus. field. Qed.

Lemma cos_cols_orthogonal n k l : (1 <= l)%nat -> (l < k)%nat -> (k + l < 2 * n)%nat ->
  rsum (fun t => cos (phase n t k) * cos (phase n t l)) n = 0.
Proof.
  intros H1 H2 H3.
  rewrite (rsum_ext _ (fun t => / 2 * cos (phase n t (k - l)) + / 2 * cos (phase n t (k + l)))).
  2:{ intros t _. rewrite cos_prod, phase_sub, phase_add by lia. field. }
  rewrite rsum_plus, !rsum_scal, !cos_sum_zero by lia. lra.
Qed.
Lemma cos_col_norm n k : (1 <= k)%nat -> (k < n)%nat ->
  rsum (fun t => cos (phase n t k) * cos (phase n t k)) n = INR n / 2.
Proof.
  intros H1 H2.
  rewrite (rsum_ext _ (fun t => / 2 + / 2 * cos (phase n t (k + k)))).
  2:{ intros t _. rewrite cos_prod, phase_add. replace (phase n t k - phase n t k) with 0 by ring. rewrite cos_0. field. }
  rewrite rsum_plus, rsum_scal, rsum_const, cos_sum_zero by lia. lra.
Qed.

Lemma dct_orthogonal_to_constant n k : (1 <= k)%nat -> (k < 2 * n)%nat -> rsum (fun t => dct_col n k t * 1) n = 0.
Proof.
  intros H1 H2. rewrite (rsum_ext _ (fun t => sqrt (2 / INR n) * cos (phase n t k))) by (intros; unfold dct_col; ring).
  rewrite rsum_scal, cos_sum_zero by lia. ring.
Qed.
Lemma dct_orthogonal n k l : (1 <= l)%nat -> (1 <= k)%nat -> k <> l -> (k < n)%nat -> (l < n)%nat ->
  rsum (fun t => dct_col n k t * dct_col n l t) n = 0.
Proof.
  intros Hl Hk Hne Hkn Hln.
  destruct (Nat.lt_ge_cases l k) as [L|L].
  - rewrite (rsum_ext _ (fun t => (sqrt (2 / INR n) * sqrt (2 / INR n)) * (cos (phase n t k) * cos (phase n t l))))
      by (intros; unfold dct_col; ring).
    rewrite rsum_scal, cos_cols_orthogonal by lia. ring.
  - rewrite (rsum_ext _ (fun t => (sqrt (2 / INR n) * sqrt (2 / INR n)) * (cos (phase n t l) * cos (phase n t k))))
      by (intros; unfold dct_col; ring).
    rewrite rsum_scal, cos_cols_orthogonal by lia. ring.
Qed.
Lemma dct_unit_norm n k : (1 <= k)%nat -> (k < n)%nat -> rsum (fun t => dct_col n k t * dct_col n k t) n = 1.
Proof.
  intros H1 H2. assert (Hn : 0 < INR n) by (apply lt_0_INR; lia).
  rewrite (rsum_ext _ (fun t => (sqrt (2 / INR n) * sqrt (2 / INR n)) * (cos (phase n t k) * cos (phase n t k))))
    by (intros; unfold dct_col; ring).
  rewrite rsum_scal, cos_col_norm by lia. rewrite sqrt_sqrt.
  - field. lra.
  - apply Rlt_le. apply Rdiv_lt_0_compat; lra.
Qed.

(* The code takes the scan INDEX t = np.arange(n) in the phase, not the scan time: for scans at s + t*dt the
   index is (time - first time) / dt whatever the origin s, whereas time / dt adds the origin-dependent
   offset (pi/n) * (s/dt) * k to the phase (and the columns are then no longer the DCT-II basis). *)
Lemma phase_from_times n k t s dt : dt <> 0 ->
  PI / INR n * (((s + INR t * dt) - s) / dt + / 2) * INR k = phase n t k /\
  PI / INR n * ((s + INR t * dt) / dt + / 2) * INR k = phase n t k + PI / INR n * (s / dt) * INR k.
Proof.
  intros H.
  assert (E1 : ((s + INR t * dt) - s) / dt = INR t) by (field; exact H).
  assert (E2 : (s + INR t * dt) / dt = INR t + s / dt) by (field; exact H).
  rewrite E1, E2. unfold phase. split; ring.
Qed.
