(* C07 - the Gram-Schmidt step of _orthogonalize (Model.orth_col): the new column is orthogonal to every preceding
   column that pinv does not discard, when the preceding kept columns are mutually orthogonal. *)
From Coq Require Import List ZArith QArith Qabs Bool Lia Lqa Setoid Morphisms.
From NV.C07 Require Import Model Proofs.
Import ListNotations.
Open Scope Q_scope.

Fixpoint dots (a b : list Q) : Q :=
  match a, b with x :: a', y :: b' => x * y + dots a' b' | _, _ => 0 end.

Lemma dot_dots a b : dot a b == dots a b.
Proof.
  unfold dot, vsum. revert b. induction a as [|x a IH]; intros b; destruct b as [|y b]; cbn [combine map fold_right dots fst snd]; try reflexivity.
  rewrite qadd_eq, qmul_eq, IH. reflexivity.
Qed.
Lemma dots_vadd a : forall b c, length a = length b -> dots (vadd a b) c == dots a c + dots b c.
Proof.
  induction a as [|x a IH]; intros b c H; destruct b as [|y b]; try discriminate; destruct c as [|z c]; cbn [vadd dots]; try ring.
  rewrite qadd_eq, IH by (injection H; auto). ring.
Qed.
Lemma dots_vscale k a : forall c, dots (vscale k a) c == k * dots a c.
Proof.
  unfold vscale. induction a as [|x a IH]; intros c; destruct c as [|z c]; cbn [map dots]; try ring.
  rewrite qmul_eq, IH. ring.
Qed.

(* the largest squared norm of the preceding columns, and pinv's "kept" test, as in Model.orth_col *)
Definition orth_mx (done : list (list Q)) : Q :=
  fold_left (fun m c => let cc := dot c c in if qlt m cc then cc else m) done 0.
Definition kept (mx : Q) (c : list Q) : Prop := Qle_bool (dot c c) (qmul mx pinv_rcond2) = false.
Definition ostep (x : list Q) (mx : Q) (acc c : list Q) : list Q :=
  let cc := dot c c in
  if Qle_bool cc (qmul mx pinv_rcond2) then acc else vadd acc (vscale (- (qdiv (dot x c) cc)) c).
Lemma orth_col_fold done x : orth_col done x = fold_left (ostep x (orth_mx done)) done x.
Proof. reflexivity. Qed.

Lemma mx_nonneg done : forall m, 0 <= m ->
  0 <= fold_left (fun m c => let cc := dot c c in if qlt m cc then cc else m) done m.
Proof.
  induction done as [|c done IH]; intros m Hm; cbn [fold_left]; [exact Hm|].
  apply IH. cbv zeta. destruct (qlt m (dot c c)) eqn:E; [|exact Hm].
  unfold qlt in E. apply negb_true_iff in E.
  assert (~ dot c c <= m) as N by (intros L; apply Qle_bool_iff in L; congruence).
  apply Qnot_le_lt in N. lra.
Qed.

Lemma ostep_dot x mx acc c c0 n : length acc = n -> length c = n -> (kept mx c -> dot c c0 == 0) ->
  dot (ostep x mx acc c) c0 == dot acc c0 /\ length (ostep x mx acc c) = n.
Proof.
  intros La Lc H. unfold ostep. cbv zeta. unfold kept in H.
  destruct (Qle_bool (dot c c) (qmul mx pinv_rcond2)) eqn:E; [split; [reflexivity|exact La]|].
  split.
  - rewrite dot_dots, dots_vadd by (rewrite vscale_length; congruence).
    rewrite dots_vscale, <- !dot_dots, (H eq_refl). ring.
  - rewrite vadd_length by (rewrite vscale_length; congruence). exact La.
Qed.

Lemma fold_ostep_dot x mx c0 n : forall done acc, length acc = n -> Forall (fun c => length c = n) done ->
  (forall c, In c done -> kept mx c -> dot c c0 == 0) ->
  dot (fold_left (ostep x mx) done acc) c0 == dot acc c0 /\ length (fold_left (ostep x mx) done acc) = n.
Proof.
  induction done as [|c done IH]; intros acc La F H; cbn [fold_left]; [split; [reflexivity|exact La]|].
  inversion F as [|? ? Lc F']; subst.
  destruct (ostep_dot x mx acc c c0 (length acc) eq_refl Lc (H c (or_introl eq_refl))) as [D L].
  destruct (IH (ostep x mx acc c) L F' (fun c' I => H c' (or_intror I))) as [D' L'].
  split; [rewrite D', D; reflexivity|exact L'].
Qed.

Lemma orth_col_orthogonal_step pre c0 post x :
  Forall (fun c => length c = length x) (pre ++ c0 :: post) ->
  kept (orth_mx (pre ++ c0 :: post)) c0 ->
  (forall c, In c pre \/ In c post -> kept (orth_mx (pre ++ c0 :: post)) c -> dot c c0 == 0) ->
  dot (orth_col (pre ++ c0 :: post) x) c0 == 0.
Proof.
  intros F K H. rewrite orth_col_fold. set (mx := orth_mx (pre ++ c0 :: post)) in *.
  assert (Hmx : 0 <= mx) by (apply mx_nonneg; lra).
  apply Forall_app in F. destruct F as [Fp F]. inversion F as [|? ? L0 Fq]; subst.
  rewrite fold_left_app. cbn [fold_left].
  destruct (fold_ostep_dot x mx c0 (length x) pre x eq_refl Fp (fun c I => H c (or_introl I))) as [D1 L1].
  set (a1 := fold_left (ostep x mx) pre x) in *.
  assert (D2 : dot (ostep x mx a1 c0) c0 == 0 /\ length (ostep x mx a1 c0) = length x).
  { unfold ostep. cbv zeta. unfold kept in K. rewrite K. split.
    - rewrite dot_dots, dots_vadd by (rewrite vscale_length; congruence).
      rewrite dots_vscale, <- !dot_dots, D1, qdiv_eq.
      assert (N : ~ dot c0 c0 == 0).
      { intros E. assert (Qle_bool (dot c0 c0) (qmul mx pinv_rcond2) = true) as T; [|congruence].
        apply Qle_bool_iff. rewrite E, qmul_eq. apply Qmult_le_0_compat; [exact Hmx|discriminate]. }
      field. exact N.
    - rewrite vadd_length by (rewrite vscale_length; congruence). exact L1. }
  destruct D2 as [D2 L2].
  destruct (fold_ostep_dot x mx c0 (length x) post _ L2 Fq (fun c I => H c (or_intror I))) as [D3 _].
  rewrite D3. exact D2.
Qed.
