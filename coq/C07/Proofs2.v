(* C07 - lemmas, part 2: the uniform oversampled grid (shift-equivariance, causality at
   scan times), kernels, names. *)
From Coq Require Import String Ascii.
From Coq Require Import List ZArith QArith Qabs Bool Lia Lqa Setoid Morphisms.
From NV.Lib Require Import SlotAlg.
From NV.C07 Require Import Model Proofs.
Import ListNotations.
Open Scope Q_scope.

(* ------------------------------------------------------------ uniform grid *)
Lemma qnat_add a b : qnat (a + b) == qnat a + qnat b.
Proof. unfold qnat. rewrite Nat2Z.inj_add, inject_Z_plus. reflexivity. Qed.
Lemma qnat_S a : qnat (S a) == qnat a + 1.
Proof. replace (S a) with (a + 1)%nat by lia. rewrite qnat_add. reflexivity. Qed.
Lemma qnat_nonneg a : 0 <= qnat a.
Proof. unfold qnat. change 0 with (inject_Z 0). rewrite <- Zle_Qle. lia. Qed.
Lemma qnat_lt a b : (a < b)%nat -> qnat a + 1 <= qnat b.
Proof.
  intros H. replace b with (S a + (b - S a))%nat by lia. rewrite qnat_add, qnat_S.
  pose proof (qnat_nonneg (b - S a)). lra.
Qed.
Lemma ugrid_length s dt N : length (ugrid s dt N) = N.
Proof. unfold ugrid. rewrite map_length, seq_length. reflexivity. Qed.
Lemma nth_map_seq_Q (f : nat -> Q) N i : (i < N)%nat -> nth i (map f (seq 0 N)) 0 = f i.
Proof.
  intros H. rewrite (nth_indep _ 0 (f O)) by (rewrite map_length, seq_length; exact H).
  rewrite map_nth, seq_nth by exact H. reflexivity.
Qed.
Lemma nth_ugrid s dt N i : (i < N)%nat -> nth i (ugrid s dt N) 0 = s + qnat i * dt.
Proof. intros H. unfold ugrid. rewrite nth_map_seq_Q by exact H. reflexivity. Qed.
Lemma qlt_m a a' b b' : a == a' -> b == b' -> qlt a b = qlt a' b'.
Proof.
  intros Ha Hb. destruct (qlt a' b') eqn:E.
  - apply qlt_true. apply qlt_true in E. lra.
  - apply qlt_false. apply qlt_false in E. lra.
Qed.
Lemma ss_m l x x' : x == x' -> searchsorted l x = searchsorted l x'.
Proof.
  intros H. induction l as [|y l IH]; simpl; [reflexivity|].
  rewrite (qlt_m y y x x') by (reflexivity || exact H). rewrite IH. reflexivity.
Qed.
Lemma mul_le_dt a b dt : 0 < dt -> a <= b -> a * dt <= b * dt.
Proof. intros Hd H. nra. Qed.

(* onset + m bins moves the bin index by m (no clipping at the end, not before the grid) *)
Lemma ss_ugrid_shift s dt N x m : 0 < dt -> s <= x ->
  (searchsorted (ugrid s dt N) x + m <= N)%nat ->
  searchsorted (ugrid s dt N) (x + qnat m * dt) = (searchsorted (ugrid s dt N) x + m)%nat.
Proof.
  intros Hd Hs Hk. set (G := ugrid s dt N) in *. set (k := searchsorted G x) in *.
  apply ss_unique.
  - unfold G. rewrite ugrid_length. exact Hk.
  - intros i Hi. unfold G. rewrite nth_ugrid by lia.
    destruct (Nat.lt_ge_cases i m) as [L|L].
    + pose proof (qnat_lt i m L) as Q. pose proof (mul_le_dt _ _ dt Hd Q). lra.
    + assert (B : nth (i - m) G 0 < x) by (apply ss_below; fold k; lia).
      unfold G in B. rewrite nth_ugrid in B by lia.
      replace i with ((i - m) + m)%nat at 1 by lia. rewrite qnat_add. lra.
  - unfold G at 1. rewrite ugrid_length. intros Hlt.
    assert (A : x <= nth k G 0) by (apply ss_at; fold k; unfold G; rewrite ugrid_length; lia).
    unfold G in A |- *. rewrite nth_ugrid in A by lia. rewrite nth_ugrid by lia. rewrite qnat_add. lra.
Qed.
Lemma ss_ugrid_point s dt N p : 0 < dt -> (p < N)%nat -> searchsorted (ugrid s dt N) (s + qnat p * dt) = p.
Proof.
  intros Hd Hp. apply ss_unique.
  - rewrite ugrid_length. lia.
  - intros i Hi. rewrite nth_ugrid by lia. pose proof (qnat_lt i p Hi) as Q. pose proof (mul_le_dt _ _ dt Hd Q). lra.
  - intros _. rewrite nth_ugrid by lia. lra.
Qed.

Definition shift_ev (delta : Q) (e : event) : event := (ev_onset e + delta, ev_dur e, ev_val e).
(* an event that lies inside the grid, also after a delay of m bins *)
Definition inside (s dt : Q) (N m : nat) (e : event) : Prop :=
  s <= ev_onset e /\ 0 <= ev_dur e /\
  (searchsorted (ugrid s dt N) (ev_onset e + ev_dur e) + m < N - 1)%nat.

Lemma bins_shift s dt N m e : 0 < dt -> inside s dt N m e ->
  t_onset (ugrid s dt N) (shift_ev (qnat m * dt) e) = (t_onset (ugrid s dt N) e + m)%nat /\
  t_offset (ugrid s dt N) (shift_ev (qnat m * dt) e) = (t_offset (ugrid s dt N) e + m)%nat.
Proof.
  intros Hd [Hs [Hdur Hin]]. set (G := ugrid s dt N) in *.
  assert (M : (searchsorted G (ev_onset e) <= searchsorted G (ev_onset e + ev_dur e))%nat) by (apply ss_mono; lra).
  assert (E1 : searchsorted G (ev_onset e + qnat m * dt) = (searchsorted G (ev_onset e) + m)%nat).
  { unfold G. apply ss_ugrid_shift; [exact Hd|exact Hs|fold G; lia]. }
  assert (E2 : searchsorted G (ev_onset e + qnat m * dt + ev_dur e) = (searchsorted G (ev_onset e + ev_dur e) + m)%nat).
  { rewrite (ss_m G _ (ev_onset e + ev_dur e + qnat m * dt)) by ring.
    unfold G. apply ss_ugrid_shift; [exact Hd|lra|fold G; lia]. }
  assert (L : length G = N) by apply ugrid_length.
  unfold t_offset, t_onset. unfold shift_ev, ev_onset, ev_dur. cbn [fst snd].
  fold (ev_onset e) (ev_dur e). rewrite E1, E2, L.
  rewrite !Nat.min_l by lia. split; [reflexivity|].
  assert (C1 : ((searchsorted G (ev_onset e + ev_dur e) + m <? N - 1) = true)%nat) by (apply Nat.ltb_lt; lia).
  assert (C2 : ((searchsorted G (ev_onset e + ev_dur e) <? N - 1) = true)%nat) by (apply Nat.ltb_lt; lia).
  rewrite C1, C2. cbn [andb].
  destruct (searchsorted G (ev_onset e + ev_dur e) =? searchsorted G (ev_onset e))%nat eqn:Q.
  - apply Nat.eqb_eq in Q. rewrite Q, Nat.eqb_refl. lia.
  - apply Nat.eqb_neq in Q.
    assert (Q' : ((searchsorted G (ev_onset e + ev_dur e) + m =? searchsorted G (ev_onset e) + m) = false)%nat) by (apply Nat.eqb_neq; lia).
    rewrite Q'. reflexivity.
Qed.

Lemma bsum_shifted (f : event -> nat) (v : event -> Q) m evs j :
  bsum (map (fun e => ((f e + m)%nat, v e)) evs) (j + m) == bsum (map (fun e => (f e, v e)) evs) j.
Proof.
  induction evs as [|e evs IH]; simpl; [lra|]. rewrite IH.
  destruct (f e =? j)%nat eqn:E.
  - apply Nat.eqb_eq in E. rewrite E, Nat.eqb_refl. lra.
  - apply Nat.eqb_neq in E. assert (E' : ((f e + m =? j + m) = false)%nat) by (apply Nat.eqb_neq; lia). rewrite E'. lra.
Qed.
Lemma bsum_shifted_low (f : event -> nat) (v : event -> Q) m evs j : (j < m)%nat ->
  bsum (map (fun e => ((f e + m)%nat, v e)) evs) j == 0.
Proof.
  intros Hj. apply bsum_zero_below. intros p Hp. apply in_map_iff in Hp. destruct Hp as [e [<- _]]. simpl. lia.
Qed.
Lemma ons_shift s dt N m evs : 0 < dt -> (forall e, In e evs -> inside s dt N m e) ->
  ons (ugrid s dt N) (map (shift_ev (qnat m * dt)) evs) = map (fun e => ((t_onset (ugrid s dt N) e + m)%nat, ev_val e)) evs /\
  offs (ugrid s dt N) (map (shift_ev (qnat m * dt)) evs) = map (fun e => ((t_offset (ugrid s dt N) e + m)%nat, - ev_val e)) evs.
Proof.
  intros Hd H. unfold ons, offs. rewrite !map_map. split; apply map_ext_in; intros e He;
    destruct (bins_shift s dt N m e Hd (H e He)) as [A B]; [rewrite A|rewrite B]; reflexivity.
Qed.
Lemma impulses_shift s dt N m evs : 0 < dt -> (forall e, In e evs -> inside s dt N m e) ->
  (forall j, (j < m)%nat -> (j < N)%nat -> nth j (impulses (ugrid s dt N) (map (shift_ev (qnat m * dt)) evs)) 0 == 0) /\
  (forall j, (j + m < N)%nat ->
     nth (j + m) (impulses (ugrid s dt N) (map (shift_ev (qnat m * dt)) evs)) 0 == nth j (impulses (ugrid s dt N) evs) 0).
Proof.
  intros Hd H. destruct (ons_shift s dt N m evs Hd H) as [A B]. split.
  - intros j Hj HN. rewrite nth_impulses by (rewrite ugrid_length; exact HN). rewrite A, B.
    rewrite !bsum_shifted_low by exact Hj. lra.
  - intros j Hj. rewrite !nth_impulses by (rewrite ugrid_length; lia). rewrite A, B.
    rewrite (bsum_shifted (t_onset (ugrid s dt N)) ev_val), (bsum_shifted (t_offset (ugrid s dt N)) (fun e => - ev_val e)).
    reflexivity.
Qed.

(* ------------------------------------------------------------ delay passes through cumsum and convt *)
Lemma cumsum_from_prefix x' : forall x a a' j, a == a' -> (j < length x')%nat -> (j < length x)%nat ->
  (forall i, (i <= j)%nat -> nth i x' 0 == nth i x 0) -> nth j (cumsum_from a x') 0 == nth j (cumsum_from a' x) 0.
Proof.
  induction x' as [|u x' IH]; intros [|v x] a a' j Ha H1 H2 H; simpl in H1, H2; try lia.
  assert (U : u == v) by (apply (H O); lia).
  destruct j as [|j]; simpl; [rewrite Ha, U; reflexivity|].
  apply IH; [rewrite Ha, U; reflexivity|lia|lia|]. intros i Hi. apply (H (S i)). lia.
Qed.
Lemma cumsum_from_delay m : forall x' x a,
  (forall j, (j < m)%nat -> (j < length x')%nat -> nth j x' 0 == 0) ->
  (forall j, (j + m < length x')%nat -> (j < length x)%nat -> nth (j + m) x' 0 == nth j x 0) ->
  forall j, (j + m < length x')%nat -> (j < length x)%nat ->
  nth (j + m) (cumsum_from a x') 0 == nth j (cumsum_from a x) 0.
Proof.
  induction m as [|m IH]; intros x' x a Hz Hs j H1 H2.
  - rewrite Nat.add_0_r in *. apply cumsum_from_prefix; [reflexivity|exact H1|exact H2|].
    intros i Hi. specialize (Hs i). rewrite Nat.add_0_r in Hs. apply Hs; lia.
  - destruct x' as [|u x']; [simpl in H1; lia|].
    assert (U : u == 0) by (apply (Hz O); simpl; lia).
    rewrite Nat.add_succ_r. cbn [cumsum_from nth].
    rewrite (IH x' x (qadd a u)).
    + apply cumsum_from_prefix; [qn; rewrite U; lra|exact H2|exact H2|intros; reflexivity].
    + intros i Hi Hl. apply (Hz (S i)); simpl; lia.
    + intros i Hi Hl. specialize (Hs i). rewrite Nat.add_succ_r in Hs. apply Hs; simpl; lia.
    + simpl in H1. lia.
    + exact H2.
Qed.
Lemma convt_prefix h x' : forall x j, (j < length x')%nat -> (j < length x)%nat ->
  (forall i, (i <= j)%nat -> nth i x' 0 == nth i x 0) -> nth j (convt x' h) 0 == nth j (convt x h) 0.
Proof.
  induction x' as [|u x' IH]; intros [|v x] j H1 H2 H; simpl in H1, H2; try lia.
  rewrite !nth_convt_cons by lia. assert (U : u == v) by (apply (H O); lia). rewrite U.
  destruct j as [|j]; [reflexivity|]. rewrite (IH x j); [reflexivity|lia|lia|]. intros i Hi. apply (H (S i)). lia.
Qed.
Lemma convt_delay h m : forall x' x,
  (forall j, (j < m)%nat -> (j < length x')%nat -> nth j x' 0 == 0) ->
  (forall j, (j + m < length x')%nat -> (j < length x)%nat -> nth (j + m) x' 0 == nth j x 0) ->
  forall j, (j + m < length x')%nat -> (j < length x)%nat ->
  nth (j + m) (convt x' h) 0 == nth j (convt x h) 0.
Proof.
  induction m as [|m IH]; intros x' x Hz Hs j H1 H2.
  - rewrite Nat.add_0_r in *. apply convt_prefix; [exact H1|exact H2|].
    intros i Hi. specialize (Hs i). rewrite Nat.add_0_r in Hs. apply Hs; lia.
  - destruct x' as [|u x']; [simpl in H1; lia|].
    assert (U : u == 0) by (apply (Hz O); simpl; lia).
    rewrite Nat.add_succ_r. rewrite nth_convt_cons by (simpl in H1; lia). rewrite U.
    rewrite (IH x' x); [lra| | | |exact H2].
    + intros i Hi Hl. apply (Hz (S i)); simpl; lia.
    + intros i Hi Hl. specialize (Hs i). rewrite Nat.add_succ_r in Hs. apply Hs; simpl; lia.
    + simpl in H1. lia.
Qed.

(* ------------------------------------------------------------ interpolation at grid points *)
Lemma interp1_on_ugrid s dt N ys t p : 0 < dt -> (1 <= p)%nat -> (p < N)%nat -> t == s + qnat p * dt ->
  interp1 (ugrid s dt N) ys t == nth p ys 0.
Proof.
  intros Hd H1 Hp Ht.
  assert (I : interp_index (ugrid s dt N) t = p).
  { unfold interp_index. rewrite (ss_m _ _ _ Ht), ss_ugrid_point, ugrid_length by assumption. lia. }
  unfold interp1. rewrite I. qn. rewrite !nth_ugrid by lia.
  assert (Q : qnat p == qnat (p - 1) + 1) by (rewrite <- qnat_S; replace (S (p - 1)) with p by lia; reflexivity).
  rewrite Ht, Q. field. lra.
Qed.

(* ------------------------------------------------------------ shift-equivariance on the uniform grid *)
Lemma conv_shift s dt N m h evs : 0 < dt -> (forall e, In e evs -> inside s dt N m e) ->
  forall j, (j + m < N)%nat ->
  nth (j + m) (sample_condition (ugrid s dt N) (map (shift_ev (qnat m * dt)) evs)) 0
    == nth j (sample_condition (ugrid s dt N) evs) 0 /\
  nth (j + m) (convt (sample_condition (ugrid s dt N) (map (shift_ev (qnat m * dt)) evs)) h) 0
    == nth j (convt (sample_condition (ugrid s dt N) evs) h) 0.
Proof.
  intros Hd H. destruct (impulses_shift s dt N m evs Hd H) as [Z S].
  set (G := ugrid s dt N) in *. set (evs' := map (shift_ev (qnat m * dt)) evs) in *.
  assert (LG : length G = N) by apply ugrid_length.
  assert (C : forall j, (j + m < N)%nat -> nth (j + m) (sample_condition G evs') 0 == nth j (sample_condition G evs) 0).
  { intros j Hj. unfold sample_condition, cumsum. apply cumsum_from_delay; rewrite ?impulses_length, ?LG; try lia.
    - intros i Hi Hl. apply Z; lia.
    - intros i Hi Hl. apply S; lia. }
  assert (C0 : forall j, (j < m)%nat -> (j < N)%nat -> nth j (sample_condition G evs') 0 == 0).
  { intros j Hj HN. unfold sample_condition, cumsum. apply nth_cumsum_from_zero_prefix; [reflexivity|rewrite impulses_length, LG; exact HN|].
    intros i Hi. apply Z; lia. }
  intros j Hj. split; [apply C; exact Hj|].
  apply convt_delay; rewrite ?sample_condition_length, ?LG; try lia.
  - intros i Hi Hl. apply C0; lia.
  - intros i Hi Hl. apply C; lia.
Qed.
Lemma main_regressor_shift s dt N m h evs p : 0 < dt -> (forall e, In e evs -> inside s dt N m e) ->
  (1 <= p)%nat -> (p + m < N)%nat ->
  interp1 (ugrid s dt N) (convt (sample_condition (ugrid s dt N) (map (shift_ev (qnat m * dt)) evs)) h) (s + qnat (p + m) * dt)
  == interp1 (ugrid s dt N) (convt (sample_condition (ugrid s dt N) evs) h) (s + qnat p * dt).
Proof.
  intros Hd H H1 Hp.
  rewrite (interp1_on_ugrid s dt N _ _ (p + m)) by (try reflexivity; try assumption; lia).
  rewrite (interp1_on_ugrid s dt N _ _ p) by (try reflexivity; try assumption; lia).
  apply conv_shift; assumption.
Qed.

(* causality at scan times that are grid points: zero at every grid time before all onsets *)
Lemma main_regressor_causal_on_grid s dt N h evs p : 0 < dt -> (1 <= p)%nat -> (p < N - 1)%nat ->
  (forall e, In e evs -> 0 <= ev_dur e /\ s + qnat p * dt < ev_onset e) ->
  interp1 (ugrid s dt N) (convt (sample_condition (ugrid s dt N) evs) h) (s + qnat p * dt) == 0.
Proof.
  intros Hd H1 Hp H. apply (main_regressor_causal _ h evs _ p); [exact H1|rewrite ugrid_length; lia|rewrite nth_ugrid by lia; lra|].
  intros e He. destruct (H e He) as [Hdur Ho]. split; [exact Hdur|].
  unfold t_onset. rewrite ugrid_length.
  destruct (Nat.lt_ge_cases p (searchsorted (ugrid s dt N) (ev_onset e))) as [L|L]; [lia|].
  exfalso.
  assert (A : ev_onset e <= nth (searchsorted (ugrid s dt N) (ev_onset e)) (ugrid s dt N) 0) by (apply ss_at; rewrite ugrid_length; lia).
  rewrite nth_ugrid in A by lia.
  assert (Q : qnat (searchsorted (ugrid s dt N) (ev_onset e)) <= qnat p).
  { apply Nat.lt_eq_cases in L. destruct L as [L| ->]; [pose proof (qnat_lt _ _ L); lra|lra]. }
  pose proof (mul_le_dt _ _ dt Hd Q). lra.
Qed.

(* ------------------------------------------------------------ kernels *)
Lemma vsum_app a b : vsum (a ++ b) == vsum a + vsum b.
Proof.
  unfold vsum. induction a as [|x a IH]; cbn [app fold_right]; [lra|]. qn. rewrite IH. lra.
Qed.
Lemma vsum_repeat c n : vsum (repeat c n) == qnat n * c.
Proof.
  unfold vsum. induction n as [|n IH]; [cbn [repeat fold_right]; change (qnat 0) with 0; lra|]. cbn [repeat fold_right]. qn.
  rewrite IH, qnat_S. lra.
Qed.
Lemma fir_kernel_sum d os : vsum (fir_kernel d os) == qnat os.
Proof. unfold fir_kernel, zeros. rewrite vsum_app, !vsum_repeat. lra. Qed.
Lemma fir_kernel_length d os : length (fir_kernel d os) = (d * os + os)%nat.
Proof. unfold fir_kernel, zeros. rewrite app_length, !repeat_length. reflexivity. Qed.
Lemma vsum_map_div c h : vsum (map (fun x => qdiv x c) h) == vsum h / c.
Proof.
  unfold vsum. induction h as [|x h IH]; cbn [map fold_right]; [unfold Qdiv; lra|]. qn. rewrite IH. unfold Qdiv. ring.
Qed.
Lemma normalise_sum h : ~ vsum h == 0 -> vsum (normalise h) == 1.
Proof. intros H. unfold normalise. rewrite vsum_map_div. field. exact H. Qed.
(* a FIR kernel of delay d is the delay-0 kernel moved by d*os bins: reading the regressor d scans later *)
Lemma nth_fir_kernel d os j : nth (j + d * os) (fir_kernel d os) 0 = nth j (fir_kernel 0 os) 0.
Proof.
  unfold fir_kernel. rewrite app_nth2 by (rewrite zeros_length; lia). rewrite zeros_length.
  replace (j + d * os - d * os)%nat with j by lia. reflexivity.
Qed.
Lemma nth_fir_kernel_low d os j : (j < d * os)%nat -> nth j (fir_kernel d os) 0 = 0.
Proof. intros H. unfold fir_kernel. rewrite app_nth1 by (rewrite zeros_length; exact H). apply nth_zeros. Qed.

(* ------------------------------------------------------------ names *)
Open Scope string_scope.
Definition sfx_ok (s : string) : Prop := s = "" \/ exists r, s = String "_" r.
Lemma split_unique c1 : forall c2 s1 s2, has_underscore c1 = false -> has_underscore c2 = false ->
  sfx_ok s1 -> sfx_ok s2 -> c1 ++ s1 = c2 ++ s2 -> c1 = c2 /\ s1 = s2.
Proof.
  induction c1 as [|a c1 IH]; intros [|b c2] s1 s2 H1 H2 O1 O2 E; simpl in *.
  - auto.
  - destruct (ascii_dec b "_") as [->|N]; [discriminate|].
    destruct O1 as [->|[r ->]]; [discriminate|]. inversion E; subst. contradiction.
  - destruct (ascii_dec a "_") as [->|N]; [discriminate|].
    destruct O2 as [->|[r ->]]; [discriminate|]. inversion E; subst. contradiction.
  - destruct (ascii_dec a "_") as [->|Na]; [discriminate|]. destruct (ascii_dec b "_") as [->|Nb]; [discriminate|].
    inversion E as [[Eab E']]. destruct (IH c2 s1 s2 H1 H2 O1 O2 E') as [-> ->]. auto.
Qed.

Section NamesProofs.
  Variable show : nat -> string.
  Hypothesis show_inj : forall a b, show a = show b -> a = b.

  Lemma suffixes_ok m delays s : In s (model_suffixes show m delays) -> sfx_ok s.
  Proof.
    destruct m; simpl; intros H;
      repeat (destruct H as [<-|H]; [first [left; reflexivity|right; eexists; reflexivity]|]); try contradiction.
    apply in_map_iff in H. destruct H as [d [<- _]]. right. eexists. reflexivity.
  Qed.
  Lemma append_inj_l p a b : p ++ a = p ++ b -> a = b.
  Proof. induction p as [|c p IH]; simpl; intros H; [exact H|inversion H; auto]. Qed.
  Lemma suffixes_nodup m delays : NoDup delays -> NoDup (model_suffixes show m delays).
  Proof.
    intros Hd. destruct m; simpl;
      try (repeat (constructor; [simpl; intuition discriminate|]); constructor).
    induction Hd as [|d l Hn Hl IH]; simpl; constructor; [|exact IH].
    intros H. apply in_map_iff in H. destruct H as [d' [E Hin]]. apply (append_inj_l "_delay_") in E. apply show_inj in E. subst. contradiction.
  Qed.
  Lemma regressor_names_nodup c m delays : NoDup delays -> NoDup (regressor_names show c m delays).
  Proof.
    intros Hd. unfold regressor_names. pose proof (suffixes_nodup m delays Hd) as N.
    induction N as [|s l Hn Hl IH]; simpl; constructor; [|exact IH].
    intros H. apply in_map_iff in H. destruct H as [s' [E Hin]]. apply append_inj_l in E. subst. contradiction.
  Qed.
  (* one uniquely named column per (condition x basis function) *)
  Lemma condition_names_nodup cons m delays : NoDup cons -> NoDup delays ->
    (forall c, In c cons -> has_underscore c = false) ->
    NoDup (flat_map (fun c => regressor_names show c m delays) cons).
  Proof.
    intros Hc Hd Hu. induction Hc as [|c l Hn Hl IH]; simpl; [constructor|].
    apply NoDup_app_intro; [apply regressor_names_nodup; exact Hd|apply IH; intros x Hx; apply Hu; right; exact Hx|].
    intros x H1 H2. unfold regressor_names in H1. apply in_map_iff in H1. destruct H1 as [s1 [<- Hs1]].
    apply in_flat_map in H2. destruct H2 as [c' [Hc' H2]]. unfold regressor_names in H2.
    apply in_map_iff in H2. destruct H2 as [s2 [E Hs2]].
    destruct (split_unique c' c s2 s1) as [-> _]; try exact E.
    - apply Hu. right. exact Hc'.
    - apply Hu. left. reflexivity.
    - apply (suffixes_ok m delays). exact Hs2.
    - apply (suffixes_ok m delays). exact Hs1.
    - contradiction.
  Qed.
  Lemma condition_names_count cons m delays :
    length (flat_map (fun c => regressor_names show c m delays) cons) = (length cons * length (model_suffixes show m delays))%nat.
  Proof.
    induction cons as [|c l IH]; simpl; [reflexivity|]. rewrite app_length, IH. unfold regressor_names. rewrite map_length. reflexivity.
  Qed.
  Lemma drift_names_nodup n : NoDup (drift_names show n).
  Proof.
    unfold drift_names. apply NoDup_app_intro.
    - assert (S : NoDup (seq 1 (n - 1))) by apply seq_NoDup.
      induction S as [|k l Hn Hl IH]; simpl; constructor; [|exact IH].
      intros H. apply in_map_iff in H. destruct H as [k' [E Hin]]. apply (append_inj_l "drift_") in E. apply show_inj in E. subst. contradiction.
    - constructor; [intros []|constructor].
    - intros x H1 [<-|[]]. apply in_map_iff in H1. destruct H1 as [k [E _]]. discriminate.
  Qed.
  Lemma drift_names_length n : length (drift_names show n) = S (n - 1).
  Proof. unfold drift_names. rewrite app_length, map_length, seq_length. simpl. lia. Qed.
End NamesProofs.
Close Scope string_scope.
