(* C07 - proofs about the model of _poly_drift (PolyModel.v): shape, constant column last,
   independence of the time origin and of the time unit (TR). *)
From Coq Require Import List ZArith QArith Qabs Bool Lia Lqa Setoid Morphisms.
From NV.C07 Require Import Model Proofs Proofs2 Proofs3 PolyModel.
Import ListNotations.
Open Scope Q_scope.

Lemma map_const {A B} (c : B) (l : list A) : map (fun _ => c) l = repeat c (length l).
Proof. induction l as [|x l IH]; cbn [map length repeat]; [reflexivity|]. rewrite IH. reflexivity. Qed.

Lemma poly_u_length ft : length (poly_u ft) = length ft.
Proof. unfold poly_u. apply map_length. Qed.

Lemma poly_powers_length order ft : length (poly_powers order ft) = S order.
Proof. unfold poly_powers. rewrite map_length, seq_length. reflexivity. Qed.

Lemma poly_powers_head order ft : exists r, poly_powers order ft = repeat 1 (length ft) :: r.
Proof.
  unfold poly_powers. cbn [seq map qpown]. eexists. f_equal.
  rewrite map_const, poly_u_length. reflexivity.
Qed.

Lemma orthogonalize_head c cols : exists rest, orthogonalize (c :: cols) = c :: rest.
Proof.
  unfold orthogonalize. cbn [fold_left app orth_col].
  assert (G : forall l d r, exists rest, fold_left (fun done x => done ++ [orth_col done x]) l (d :: r) = d :: rest).
  { induction l as [|x l IH]; intros d r; cbn [fold_left]; [eexists; reflexivity|]. apply (IH d (r ++ [orth_col (d :: r) x])). }
  apply G.
Qed.

Lemma poly_drift_shape order ft :
  length (poly_drift order ft) = S order /\ last (poly_drift order ft) [] = repeat 1 (length ft).
Proof.
  unfold poly_drift.
  destruct (poly_powers_head order ft) as [r Hr].
  pose proof (orthogonalize_length (poly_powers order ft)) as HL. rewrite poly_powers_length in HL.
  rewrite Hr in *. destruct (orthogonalize_head (repeat 1 (length ft)) r) as [rest Hrest].
  rewrite Hrest in *. cbn [rotate_first]. split.
  - rewrite app_length. cbn [length] in *. lia.
  - apply last_last.
Qed.

(* ------------------------------------------------------------ affine re-timing t |-> c t + s, c > 0 *)
Lemma qlt_affine c s a b : 0 < c -> qlt (c * a + s) (c * b + s) = qlt a b.
Proof.
  intros Hc. unfold qlt. f_equal. apply eq_true_iff_eq. rewrite !Qle_bool_iff.
  rewrite Qplus_le_l. apply Qmult_le_l. exact Hc.
Qed.

Lemma fold_min_affine c s : 0 < c -> forall r m,
  fold_left (fun m y => if qlt y m then y else m) (map (fun t => c * t + s) r) (c * m + s) =
  c * (fold_left (fun m y => if qlt y m then y else m) r m) + s.
Proof.
  intros Hc. induction r as [|y r IH]; intros m; cbn [map fold_left]; [reflexivity|].
  rewrite (qlt_affine c s y m Hc). destruct (qlt y m); apply IH.
Qed.
Lemma fold_max_affine c s : 0 < c -> forall r m,
  fold_left (fun m y => if qlt m y then y else m) (map (fun t => c * t + s) r) (c * m + s) =
  c * (fold_left (fun m y => if qlt m y then y else m) r m) + s.
Proof.
  intros Hc. induction r as [|y r IH]; intros m; cbn [map fold_left]; [reflexivity|].
  rewrite (qlt_affine c s m y Hc). destruct (qlt m y); apply IH.
Qed.

Lemma poly_entry_affine c s t a b : ~ c == 0 ->
  qdiv (qsub (c * t + s) (c * a + s)) (qsub (c * b + s) (c * a + s)) = qdiv (qsub t a) (qsub b a).
Proof.
  intros Hc. unfold qdiv, qsub. apply Qred_complete. rewrite !Qred_correct.
  setoid_replace (c * t + s - (c * a + s)) with (c * (t - a)) by ring.
  setoid_replace (c * b + s - (c * a + s)) with (c * (b - a)) by ring.
  generalize (t - a) (b - a). intros T D.
  destruct (Qeq_dec D 0) as [E|E].
  - unfold Qdiv. rewrite E. setoid_replace (c * 0) with 0 by ring. change (/ 0) with 0. ring.
  - field. split; assumption.
Qed.

Lemma poly_u_affine c s ft : 0 < c -> poly_u (map (fun t => c * t + s) ft) = poly_u ft.
Proof.
  intros Hc. destruct ft as [|x r]; [reflexivity|].
  unfold poly_u, qmin_list, qmax_list. cbn [map].
  rewrite (fold_min_affine c s Hc r x), (fold_max_affine c s Hc r x).
  set (tmin := fold_left (fun m y => if qlt y m then y else m) r x).
  set (tmax := fold_left (fun m y => if qlt m y then y else m) r x).
  assert (Hn : ~ c == 0) by (intros E; rewrite E in Hc; discriminate).
  f_equal; [apply poly_entry_affine; exact Hn|].
  rewrite map_map. apply map_ext. intros t. apply poly_entry_affine; exact Hn.
Qed.

Lemma poly_drift_affine order ft c s : 0 < c ->
  poly_drift order (map (fun t => c * t + s) ft) = poly_drift order ft.
Proof. intros Hc. unfold poly_drift, poly_powers. rewrite (poly_u_affine c s ft Hc). reflexivity. Qed.
