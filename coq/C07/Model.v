(* C07 - design-matrix regressors.  Executable Gallina model over Q of
     nipy/modalities/fmri/hemodynamic_models.py
       _sample_condition  (l.144-201)   -> n_hr, hr_grid, bins, impulses, sample_condition
       _resample_regressor (l.204-223)  -> interp1, resample   (scipy interp1d, kind='linear')
       _orthogonalize (l.226-246)       -> orthogonalize       (pinv contract: projector on the span)
       _regressor_names (l.249-272)     -> regressor_names
       _hrf_kernel 'fir' (l.304-307)    -> fir_kernel;   hrf /= hrf.sum() (l.38) -> normalise
       compute_regressor (l.313-374)    -> conv_columns, regressor_columns, compute_regressor
     nipy/modalities/fmri/design_matrix.py
       _make_drift names (l.134-135), make_dmtx naming (l.412-440) -> drift_names, dmtx_names
   The kernel vector h is an ARBITRARY list of rationals everywhere.
   All arithmetic results are normalised with Qred (qadd/qsub/qmul/qdiv) so that
   vm_compute stays small; Proofs.v shows these are == to +,-,*,/ . *)
From Coq Require Import String Ascii.
From Coq Require Import List ZArith QArith Qabs Bool Lia.
Import ListNotations.
Open Scope Q_scope.

Definition qadd (a b : Q) : Q := Qred (a + b).
Definition qsub (a b : Q) : Q := Qred (a - b).
Definition qmul (a b : Q) : Q := Qred (a * b).
Definition qdiv (a b : Q) : Q := Qred (a / b).
Definition qlt (a b : Q) : bool := negb (Qle_bool b a).
Definition qnat (n : nat) : Q := inject_Z (Z.of_nat n).

(* ---------------------------------------------------------------- vectors *)
Fixpoint vadd (a b : list Q) : list Q :=
  match a, b with
  | x :: a', y :: b' => qadd x y :: vadd a' b'
  | _, _ => []
  end.
Definition vscale (c : Q) (a : list Q) : list Q := map (qmul c) a.
Definition zeros (n : nat) : list Q := repeat 0 n.
Definition vsum (a : list Q) : Q := fold_right qadd 0 a.
Definition dot (a b : list Q) : Q := vsum (map (fun p => qmul (fst p) (snd p)) (combine a b)).

(* np.add.at(r, i, v) for one index: accumulate (the repaired code) *)
Fixpoint add_at (l : list Q) (i : nat) (v : Q) : list Q :=
  match l, i with
  | [], _ => []
  | x :: r, O => qadd x v :: r
  | x :: r, S i' => x :: add_at r i' v
  end.
(* r[i] = base[i] + v : what `r[idx] += vals` does for each (repeated) index:
   the right-hand side is read before any write, the last write wins *)
Fixpoint set_at (l : list Q) (i : nat) (v : Q) : list Q :=
  match l, i with
  | [], _ => []
  | _ :: r, O => v :: r
  | x :: r, S i' => x :: set_at r i' v
  end.

Fixpoint cumsum_from (acc : Q) (l : list Q) : list Q :=
  match l with
  | [] => []
  | x :: r => qadd acc x :: cumsum_from (qadd acc x) r
  end.
Definition cumsum := cumsum_from 0.

(* ---------------------------------------------------------------- grids *)
(* np.searchsorted(l, x) (side='left') on an ascending l: first index whose entry is not < x *)
Fixpoint searchsorted (l : list Q) (x : Q) : nat :=
  match l with
  | [] => O
  | y :: r => if qlt y x then S (searchsorted r x) else O
  end.

(* np.linspace(a, b, N): arange(N) * ((b - a) / (N - 1)) + a *)
Definition linspace (a b : Q) (N : nat) : list Q :=
  match N with
  | O => []
  | S O => [a]
  | _ => let step := qdiv (b - a) (qnat (N - 1)) in
         map (fun i => qadd (qmul (qnat i) step) a) (seq 0 N)
  end.

Definition qmax_list (l : list Q) : Q :=
  match l with [] => 0 | x :: r => fold_left (fun m y => if qlt m y then y else m) r x end.
Definition qmin_list (l : list Q) : Q :=
  match l with [] => 0 | x :: r => fold_left (fun m y => if qlt y m then y else m) r x end.

(* Python int(): truncation towards zero *)
Definition qtrunc (q : Q) : Z := Z.quot (Qnum q) (Zpos (Qden q)).

(* hemodynamic_models.py l.168-176 *)
Definition n_hr (ft : list Q) (os : nat) (min_onset : Q) : Z :=
  let n1 := qnat (length ft - 1) in
  let fmax := qmax_list ft in let fmin := qmin_list ft in
  qtrunc (n1 * 1 / (fmax - fmin) * (fmax * (1 + 1 / n1) - fmin - min_onset) * qnat os + 1).
Definition hr_grid (ft : list Q) (os : nat) (min_onset : Q) : list Q :=
  let n1 := qnat (length ft - 1) in
  linspace (qmin_list ft + min_onset) (Qred (qmax_list ft * (1 + 1 / n1))) (Z.to_nat (n_hr ft os min_onset)).

(* the uniform grid s, s+dt, ... (what hr_grid is when everything is commensurate) *)
Definition ugrid (s dt : Q) (N : nat) : list Q := map (fun i => s + qnat i * dt) (seq 0 N).

(* ---------------------------------------------------------------- _sample_condition *)
Definition event := (Q * Q * Q)%type.     (* onset, duration, amplitude *)
Definition ev_onset (e : event) : Q := fst (fst e).
Definition ev_dur (e : event) : Q := snd (fst e).
Definition ev_val (e : event) : Q := snd e.

(* l.188-196: onset bin, offset bin (clipped to tmax-1, zero-duration bump) *)
Definition t_onset (g : list Q) (e : event) : nat :=
  Nat.min (searchsorted g (ev_onset e)) (length g - 1).
Definition t_offset (g : list Q) (e : event) : nat :=
  let tmax1 := (length g - 1)%nat in
  let to := Nat.min (searchsorted g (ev_onset e + ev_dur e)) tmax1 in
  if (to <? tmax1)%nat && (to =? t_onset g e)%nat then S to else to.

(* l.187-198: zeros; np.add.at(onsets); np.subtract.at(offsets) - two passes as in the code *)
Definition add_onsets (g : list Q) (evs : list event) (r : list Q) : list Q :=
  fold_left (fun r e => add_at r (t_onset g e) (ev_val e)) evs r.
Definition sub_offsets (g : list Q) (evs : list event) (r : list Q) : list Q :=
  fold_left (fun r e => add_at r (t_offset g e) (- ev_val e)) evs r.
Definition impulses (g : list Q) (evs : list event) : list Q :=
  sub_offsets g evs (add_onsets g evs (zeros (length g))).
Definition sample_condition (g : list Q) (evs : list event) : list Q := cumsum (impulses g evs).

(* the code before commit 6264c0b: `regressor[t_onset] += values; regressor[t_offset] -= values`
   (fancy indexing: every right-hand side is computed from the array before the statement) *)
Definition impulses_overwrite (g : list Q) (evs : list event) : list Q :=
  let z := zeros (length g) in
  let r1 := fold_left (fun r e => set_at r (t_onset g e) (qadd (nth (t_onset g e) z 0) (ev_val e))) evs z in
  fold_left (fun r e => set_at r (t_offset g e) (qsub (nth (t_offset g e) r1 0) (ev_val e))) evs r1.
Definition sample_condition_overwrite g evs := cumsum (impulses_overwrite g evs).

(* ---------------------------------------------------------------- convolution *)
(* u + w, to the length of u *)
Fixpoint addl (u w : list Q) : list Q :=
  match u with
  | [] => []
  | x :: u' => match w with
               | [] => x :: u'
               | y :: w' => qadd x y :: addl u' w'
               end
  end.
(* np.convolve(x, h)[:x.size]   (l.362) *)
Fixpoint convt (x h : list Q) : list Q :=
  match x with
  | [] => []
  | a :: r => addl (0 :: convt r h) (vscale a h)
  end.

(* ---------------------------------------------------------------- resampling *)
(* scipy.interpolate.interp1d(xs, ys)(t), linear: i = clip(searchsorted(xs,t), 1, N-1) *)
Definition interp_index (xs : list Q) (t : Q) : nat :=
  Nat.min (Nat.max (searchsorted xs t) 1) (length xs - 1).
Definition interp1 (xs ys : list Q) (t : Q) : Q :=
  let i := interp_index xs t in
  let xl := nth (i - 1) xs 0 in let xh := nth i xs 0 in
  let yl := nth (i - 1) ys 0 in let yh := nth i ys 0 in
  qadd (qmul (qdiv (yh - yl) (xh - xl)) (t - xl)) yl.
Definition resample (xs ys fts : list Q) : list Q := map (interp1 xs ys) fts.

(* ---------------------------------------------------------------- kernels *)
(* np.hstack((np.zeros(f * oversampling), np.ones(oversampling))) *)
Definition fir_kernel (delay os : nat) : list Q := zeros (delay * os) ++ repeat 1 os.
(* hrf /= hrf.sum() *)
Definition normalise (h : list Q) : list Q := map (fun x => qdiv x (vsum h)) h.

(* ---------------------------------------------------------------- _orthogonalize *)
(* X[:, i] -= X[:, i] . (P_i) with P_i = X[:, :i] pinv(X[:, :i]) the orthogonal projector on the span of the
   (already orthogonalised) preceding columns; for mutually orthogonal preceding columns c_j that projector
   is sum_j c_j c_j^T / (c_j . c_j), null columns contributing nothing (pinv contract). *)
(* projections all use the ORIGINAL column x (the code computes the full projection of x at once).
   pinv(A) discards singular values <= rcond * largest (numpy default rcond = 1e-15); for mutually orthogonal
   columns the singular values are the column norms, so a column with |c|^2 <= 1e-30 * max|c_j|^2 is ignored. *)
Definition pinv_rcond2 : Q := 1 # 1000000000000000000000000000000.
Definition orth_col (done : list (list Q)) (x : list Q) : list Q :=
  let mx := fold_left (fun m c => let cc := dot c c in if qlt m cc then cc else m) done 0 in
  fold_left (fun acc c => let cc := dot c c in
                          if Qle_bool cc (qmul mx pinv_rcond2) then acc else vadd acc (vscale (- (qdiv (dot x c) cc)) c)) done x.
Definition orthogonalize (cols : list (list Q)) : list (list Q) :=
  fold_left (fun done x => done ++ [orth_col done x]) cols [].

(* ---------------------------------------------------------------- compute_regressor *)
Definition conv_columns (g : list Q) (hs : list (list Q)) (evs : list event) : list (list Q) :=
  map (fun h => convt (sample_condition g evs) h) hs.
Definition regressor_columns (g fts : list Q) (hs : list (list Q)) (evs : list event) : list (list Q) :=
  map (fun c => resample g c fts) (conv_columns g hs evs).
(* column 0 = the "main regressor" of the condition *)
Definition main_regressor (g fts h : list Q) (evs : list event) : list Q :=
  resample g (convt (sample_condition g evs) h) fts.
Definition compute_regressor (ft : list Q) (os : nat) (min_onset : Q) (hs : list (list Q)) (is_fir : bool)
           (evs : list event) : list (list Q) :=
  let cols := regressor_columns (hr_grid ft os min_onset) ft hs evs in
  if is_fir then cols else orthogonalize cols.

(* ---------------------------------------------------------------- _convolve_regressors (design_matrix.py l.139-200) *)
(* a paradigm is a LIST of (condition id, onset, duration, amplitude) in the order the user listed the events
   (event paradigms: duration 0; no amplitude: 1).  For every id of `cids` (np.unique: sorted ids) the events of
   that id are taken IN LISTING ORDER as one (onsets, durations, amplitudes) triple - onset, duration and
   amplitude of an event stay together - and handed to compute_regressor; blocks are stacked left to right. *)
Definition cond_events (cid : string) (par : list (string * event)) : list event :=
  map snd (filter (fun p => String.eqb (fst p) cid) par).
Definition convolve_regressors (ft : list Q) (os : nat) (min_onset : Q) (hs : list (list Q)) (is_fir : bool)
           (cids : list string) (par : list (string * event)) : list (list Q) :=
  flat_map (fun c => compute_regressor ft os min_onset hs is_fir (cond_events c par)) cids.
(* the FIR kernels of _hrf_kernel('fir', tr, oversampling, delays) *)
Definition fir_kernels (delays : list nat) (os : nat) : list (list Q) := map (fun d => fir_kernel d os) delays.

(* ---------------------------------------------------------------- names *)
Open Scope string_scope.
Inductive hrf_model := Canonical | CanonicalDeriv | Spm | SpmTime | SpmTimeDisp | Fir.

Section Names.
  Variable show : nat -> string.         (* Python "%d" % i *)
  Definition model_suffixes (m : hrf_model) (delays : list nat) : list string :=
    match m with
    | Canonical | Spm => [""]
    | CanonicalDeriv | SpmTime => [""; "_derivative"]
    | SpmTimeDisp => [""; "_derivative"; "_dispersion"]
    | Fir => map (fun d => "_delay_" ++ show d) delays
    end.
  Definition regressor_names (con : string) (m : hrf_model) (delays : list nat) : list string :=
    map (fun s => con ++ s) (model_suffixes m delays).
  (* _make_drift: drift_1 .. drift_{k-1}, constant  for a drift matrix with k columns *)
  Definition drift_names (ncols : nat) : list string :=
    map (fun k => "drift_" ++ show k) (seq 1 (ncols - 1)) ++ ["constant"].
  (* make_dmtx: conditions (sorted unique ids) x basis, then user regressors, then drifts + constant *)
  Definition dmtx_names (cons : list string) (m : hrf_model) (delays : list nat)
             (add_reg_names : list string) (ndrift : nat) : list string :=
    flat_map (fun c => regressor_names c m delays) cons ++ add_reg_names ++ drift_names ndrift.
  Definition default_reg_names (n : nat) : list string := map (fun k => "reg" ++ show k) (seq 0 n).
End Names.

(* decimal printing, for running the name model *)
Definition digit (n : nat) : string := String (ascii_of_nat (48 + n)) EmptyString.
Fixpoint show_fuel (fuel n : nat) : string :=
  match fuel with
  | O => ""
  | S f => if (n <? 10)%nat then digit n else show_fuel f (n / 10) ++ digit (n mod 10)
  end.
Definition show_nat (n : nat) : string := show_fuel (S n) n.

Fixpoint str_mem (s : string) (l : list string) : bool :=
  match l with [] => false | t :: r => if string_dec s t then true else str_mem s r end.
Fixpoint str_nodup (l : list string) : bool :=
  match l with [] => true | s :: r => negb (str_mem s r) && str_nodup r end.
Fixpoint has_underscore (s : string) : bool :=
  match s with EmptyString => false | String c r => if ascii_dec c "_"%char then true else has_underscore r end.
Close Scope string_scope.

(* ---------------------------------------------------------------- comparison helpers for the harness *)
Definition qclose (eps a b : Q) : bool := Qle_bool (Qabs (a - b)) eps.
Fixpoint qlist_close (eps : Q) (a b : list Q) : bool :=
  match a, b with
  | [], [] => true
  | x :: a', y :: b' => qclose eps x y && qlist_close eps a' b'
  | _, _ => false
  end.
