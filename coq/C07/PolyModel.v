(* C07 - model of nipy/modalities/fmri/design_matrix.py _poly_drift (l.37-61):
     tmin = frametimes.min(); tmax = frametimes.max() - tmin
     pol[:, k] = ((frametimes - tmin) / tmax) ** k          k = 0 .. order
     pol = _orthogonalize(pol)                               (Model.orthogonalize)
     pol = np.hstack((pol[:, 1:], pol[:, :1]))               (the constant column goes last)
   Columns are lists of rationals; every arithmetic result is normalised with Qred (Model.qsub/qdiv/qmul). *)
From Coq Require Import List ZArith QArith Bool.
From NV.C07 Require Import Model.
Import ListNotations.
Open Scope Q_scope.

(* x ** k by repeated multiplication *)
Fixpoint qpown (x : Q) (k : nat) : Q :=
  match k with O => 1 | S k' => qmul x (qpown x k') end.

(* (frametimes - tmin) / tmax *)
Definition poly_u (ft : list Q) : list Q :=
  let tmin := qmin_list ft in
  let tmax := qsub (qmax_list ft) tmin in
  map (fun t => qdiv (qsub t tmin) tmax) ft.

(* the order+1 columns of powers, before _orthogonalize *)
Definition poly_powers (order : nat) (ft : list Q) : list (list Q) :=
  map (fun k => map (fun u => qpown u k) (poly_u ft)) (seq 0 (S order)).

(* np.hstack((pol[:, 1:], pol[:, :1])) *)
Definition rotate_first (cols : list (list Q)) : list (list Q) :=
  match cols with [] => [] | c :: r => r ++ [c] end.

Definition poly_drift (order : nat) (ft : list Q) : list (list Q) :=
  rotate_first (orthogonalize (poly_powers order ft)).
