(* C07 - lemmas, part 3: the grid computed by the code (n_hr, int(), linspace) IS the uniform grid
   start + i * TR/oversampling for every commensurate input; regressors depend on the grid only up to ==. *)
From Coq Require Import String.
From Coq Require Import List ZArith QArith Qabs Bool Lia Lqa Setoid Morphisms.
From NV.C07 Require Import Model Proofs Proofs2.
Import ListNotations.
Open Scope Q_scope.

(* ------------------------------------------------------------ the grid only matters up to == *)
Lemma ss_leq g g' x : leq g g' -> searchsorted g x = searchsorted g' x.
Proof.
  intros H. induction H as [|a b g g' Hab Hg IH]; simpl; [reflexivity|].
  rewrite (qlt_m a b x x Hab) by reflexivity. rewrite IH. reflexivity.
Qed.
Lemma t_onset_leq g g' e : leq g g' -> t_onset g e = t_onset g' e.
Proof. intros H. unfold t_onset. rewrite (ss_leq g g' _ H), (leq_length _ _ H). reflexivity. Qed.
Lemma t_offset_leq g g' e : leq g g' -> t_offset g e = t_offset g' e.
Proof.
  intros H. unfold t_offset. rewrite (t_onset_leq g g' e H), (ss_leq g g' _ H), (leq_length _ _ H). reflexivity.
Qed.
Lemma sample_condition_leq g g' evs : leq g g' -> sample_condition g evs = sample_condition g' evs.
Proof.
  intros H. unfold sample_condition, impulses. rewrite (leq_length _ _ H). apply (f_equal cumsum).
  unfold sub_offsets, add_onsets.
  assert (A : forall r, fold_left (fun r e => add_at r (t_onset g e) (ev_val e)) evs r
                        = fold_left (fun r e => add_at r (t_onset g' e) (ev_val e)) evs r).
  { induction evs as [|e l IH]; intros r; simpl; [reflexivity|]. rewrite (t_onset_leq g g' e H). apply IH. }
  rewrite A. clear A. generalize (fold_left (fun r e => add_at r (t_onset g' e) (ev_val e)) evs (zeros (length g'))).
  induction evs as [|e l IH]; intros r; simpl; [reflexivity|]. rewrite (t_offset_leq g g' e H). apply IH.
Qed.
Lemma interp1_grid_leq g g' ys t : leq g g' -> interp1 g ys t == interp1 g' ys t.
Proof.
  intros H. unfold interp1, interp_index. rewrite (ss_leq g g' t H), (leq_length _ _ H). qn.
  rewrite !(leq_nth _ _ H). reflexivity.
Qed.
Lemma main_regressor_grid_leq g g' fts h evs : leq g g' ->
  leq (main_regressor g fts h evs) (main_regressor g' fts h evs).
Proof.
  intros H. unfold main_regressor. rewrite (sample_condition_leq g g' evs H).
  induction fts as [|t fts IH]; simpl; constructor; [apply interp1_grid_leq; exact H|exact IH].
Qed.

(* ------------------------------------------------------------ max / min of the scan times *)
Lemma fold_max_m l : forall m m', m == m' ->
  fold_left (fun m y => if qlt m y then y else m) l m == fold_left (fun m y => if qlt m y then y else m) l m'.
Proof.
  induction l as [|y l IH]; intros m m' H; simpl; [exact H|]. apply IH.
  rewrite (qlt_m m m' y y H) by reflexivity. destruct (qlt m' y); [reflexivity|exact H].
Qed.
Lemma fold_min_m l : forall m m', m == m' ->
  fold_left (fun m y => if qlt y m then y else m) l m == fold_left (fun m y => if qlt y m then y else m) l m'.
Proof.
  induction l as [|y l IH]; intros m m' H; simpl; [exact H|]. apply IH.
  rewrite (qlt_m y y m m') by (reflexivity || exact H). destruct (qlt y m'); [reflexivity|exact H].
Qed.
Lemma fold_max_leq l l' : leq l l' -> forall m m', m == m' ->
  fold_left (fun m y => if qlt m y then y else m) l m == fold_left (fun m y => if qlt m y then y else m) l' m'.
Proof.
  intros H. induction H as [|a b l l' Hab Hl IH]; intros m m' Hm; simpl; [exact Hm|]. apply IH.
  rewrite (qlt_m m m' a b Hm Hab). destruct (qlt m' b); assumption.
Qed.
Lemma fold_min_leq l l' : leq l l' -> forall m m', m == m' ->
  fold_left (fun m y => if qlt y m then y else m) l m == fold_left (fun m y => if qlt y m then y else m) l' m'.
Proof.
  intros H. induction H as [|a b l l' Hab Hl IH]; intros m m' Hm; simpl; [exact Hm|]. apply IH.
  rewrite (qlt_m a b m m' Hab Hm). destruct (qlt b m'); assumption.
Qed.
Lemma qmax_list_leq l l' : leq l l' -> qmax_list l == qmax_list l'.
Proof. intros H. destruct H as [|a b l l' Hab Hl]; simpl; [reflexivity|]. apply fold_max_leq; assumption. Qed.
Lemma qmin_list_leq l l' : leq l l' -> qmin_list l == qmin_list l'.
Proof. intros H. destruct H as [|a b l l' Hab Hl]; simpl; [reflexivity|]. apply fold_min_leq; assumption. Qed.

(* scans r*TR, r = k .. k+len-1, folded onto a running maximum equal to the previous scan *)
Lemma fold_max_scans TR : 0 < TR -> forall len k m, m == qnat k * TR ->
  fold_left (fun m y => if qlt m y then y else m) (map (fun r => qnat r * TR) (seq (S k) len)) m == qnat (k + len) * TR.
Proof.
  intros HT. induction len as [|len IH]; intros k m Hm; simpl.
  - rewrite Nat.add_0_r. exact Hm.
  - assert (L : qlt m (qnat (S k) * TR) = true).
    { apply qlt_true. rewrite Hm, qnat_S. nra. }
    rewrite L. rewrite (IH (S k)) by reflexivity. replace (S k + len)%nat with (k + S len)%nat by lia. reflexivity.
Qed.
Lemma fold_min_scans TR : 0 < TR -> forall len k m, m == 0 ->
  fold_left (fun m y => if qlt y m then y else m) (map (fun r => qnat r * TR) (seq k len)) m == 0.
Proof.
  intros HT. induction len as [|len IH]; intros k m Hm; simpl; [exact Hm|].
  assert (L : qlt (qnat k * TR) m = false).
  { apply qlt_false. rewrite Hm. pose proof (qnat_nonneg k). nra. }
  rewrite L. apply IH. exact Hm.
Qed.
Definition scans (TR : Q) (n : nat) : list Q := map (fun r => qnat r * TR) (seq 0 n).
Lemma scans_length TR n : length (scans TR n) = n.
Proof. unfold scans. rewrite map_length, seq_length. reflexivity. Qed.
Lemma qmax_scans TR n : 0 < TR -> (1 <= n)%nat -> qmax_list (scans TR n) == qnat (n - 1) * TR.
Proof.
  intros HT Hn. unfold scans. destruct n as [|n]; [lia|]. cbn [seq map qmax_list].
  rewrite (fold_max_scans TR HT n O) by reflexivity. replace (S n - 1)%nat with (0 + n)%nat by lia. reflexivity.
Qed.
Lemma qmin_scans TR n : 0 < TR -> (1 <= n)%nat -> qmin_list (scans TR n) == 0.
Proof.
  intros HT Hn. unfold scans. destruct n as [|n]; [lia|]. cbn [seq map qmin_list].
  apply fold_min_scans; [exact HT|]. change (qnat 0) with 0. lra.
Qed.

(* ------------------------------------------------------------ int() of an integer-valued rational *)
Lemma qtrunc_int q z : q == inject_Z z -> qtrunc q = z.
Proof.
  intros H. unfold qtrunc. unfold Qeq in H. simpl in H. rewrite Z.mul_1_r in H. rewrite H.
  apply Z.quot_mul. discriminate.
Qed.
Lemma qnat_mul a b : qnat (a * b) == qnat a * qnat b.
Proof. unfold qnat. rewrite Nat2Z.inj_mul, inject_Z_mult. reflexivity. Qed.
Lemma qnat_pos a : (1 <= a)%nat -> 0 < qnat a.
Proof. intros H. pose proof (qnat_lt 0 a H). change (qnat 0) with 0 in *. lra. Qed.
Lemma map_leq (f g : nat -> Q) l : (forall i, In i l -> f i == g i) -> leq (map f l) (map g l).
Proof.
  induction l as [|x l IH]; intros H; simpl; constructor; [apply H; left; reflexivity|].
  apply IH. intros i Hi. apply H. right. exact Hi.
Qed.

(* ------------------------------------------------------------ the theorem *)
(* scans 0, TR, ..., (n-1) TR (up to ==), min_onset = -(q bins) with bins of TR/os seconds:
   n_hr = n*os + q + 1 exactly (nothing for int() to cut) and linspace is start + i * TR/os *)
Lemma hr_grid_commensurate ft TR n os q : 0 < TR -> (2 <= n)%nat -> (1 <= os)%nat ->
  leq ft (scans TR n) ->
  leq (hr_grid ft os (- (qnat q * (TR / qnat os))))
      (ugrid (- (qnat q * (TR / qnat os))) (TR / qnat os) (n * os + q + 1)).
Proof.
  intros HT Hn Hos Hft.
  assert (Ln : length ft = n) by (rewrite (leq_length _ _ Hft); apply scans_length).
  assert (Hmax : qmax_list ft == qnat (n - 1) * TR) by (rewrite (qmax_list_leq _ _ Hft); apply qmax_scans; [exact HT|lia]).
  assert (Hmin : qmin_list ft == 0) by (rewrite (qmin_list_leq _ _ Hft); apply qmin_scans; [exact HT|lia]).
  assert (P1 : 0 < qnat (n - 1)) by (apply qnat_pos; lia).
  assert (Pos : 0 < qnat os) by (apply qnat_pos; exact Hos).
  assert (Qn : qnat n == qnat (n - 1) + 1) by (rewrite <- qnat_S; replace (S (n - 1)) with n by lia; reflexivity).
  set (mo := - (qnat q * (TR / qnat os))).
  set (N := (n * os + q + 1)%nat).
  assert (HN : n_hr ft os mo = Z.of_nat N).
  { unfold n_hr. apply qtrunc_int. rewrite Ln, Hmax, Hmin. unfold mo, N.
    change (inject_Z (Z.of_nat (n * os + q + 1))) with (qnat (n * os + q + 1)).
    rewrite !qnat_add, qnat_mul, Qn. change (qnat 1) with 1. field. split; [|split]; lra. }
  unfold hr_grid. rewrite HN, Nat2Z.id, Ln.
  assert (N3 : (3 <= N)%nat) by (unfold N; nia).
  unfold linspace. destruct N as [|[|N']] eqn:EN; try lia.
  rewrite <- EN. unfold ugrid. apply map_leq. intros i _. qn.
  rewrite Qred_correct, Hmax, Hmin.
  assert (E : qnat (N - 1) == qnat n * qnat os + qnat q).
  { replace (N - 1)%nat with (n * os + q)%nat by lia. rewrite qnat_add, qnat_mul. reflexivity. }
  rewrite E, Qn. unfold mo.
  assert (D : 0 < (qnat (n - 1) + 1) * qnat os + qnat q).
  { pose proof (qnat_nonneg q). nra. }
  field. split; [|split]; lra.
Qed.

(* ------------------------------------------------------------ the regressors only see bins and amplitudes *)
Lemma impulses_bins_ext g g' evs evs' : length g = length g' ->
  Forall2 (fun e e' => t_onset g e = t_onset g' e' /\ t_offset g e = t_offset g' e' /\ ev_val e = ev_val e') evs evs' ->
  impulses g evs = impulses g' evs'.
Proof.
  intros L F. unfold impulses, sub_offsets, add_onsets. rewrite L.
  assert (A : forall r, fold_left (fun r e => add_at r (t_onset g e) (ev_val e)) evs r
                        = fold_left (fun r e => add_at r (t_onset g' e) (ev_val e)) evs' r).
  { induction F as [|e e' l l' [H1 [H2 H3]] F IH]; intros r; simpl; [reflexivity|]. rewrite H1, H3. apply IH. }
  rewrite A. clear A. generalize (fold_left (fun r e => add_at r (t_onset g' e) (ev_val e)) evs' (zeros (length g'))).
  induction F as [|e e' l l' [H1 [H2 H3]] F IH]; intros r; simpl; [reflexivity|]. rewrite H2, H3. apply IH.
Qed.
Lemma sample_condition_shift_m g d d' evs : d == d' ->
  sample_condition g (map (shift_ev d) evs) = sample_condition g (map (shift_ev d') evs).
Proof.
  intros H. unfold sample_condition. f_equal. apply impulses_bins_ext; [reflexivity|].
  induction evs as [|e l IH]; simpl; constructor; [|exact IH].
  assert (T : t_onset g (shift_ev d e) = t_onset g (shift_ev d' e)).
  { unfold t_onset, shift_ev, ev_onset. cbn [fst snd]. rewrite (ss_m g (fst (fst e) + d) (fst (fst e) + d')) by (rewrite H; reflexivity). reflexivity. }
  split; [exact T|]. split; [|reflexivity].
  unfold t_offset. rewrite T. unfold shift_ev, ev_onset, ev_dur. cbn [fst snd].
  rewrite (ss_m g (fst (fst e) + d + snd (fst e)) (fst (fst e) + d' + snd (fst e))) by (rewrite H; reflexivity). reflexivity.
Qed.

(* ------------------------------------------------------------ rows of the regressor on the code's own grid *)
Lemma nth_resample g c fts r : (r < length fts)%nat -> nth r (resample g c fts) 0 = interp1 g c (nth r fts 0).
Proof.
  intros H. unfold resample. rewrite (nth_indep _ 0 (interp1 g c 0)) by (rewrite map_length; exact H). apply map_nth.
Qed.
Lemma nth_scans TR n r : (r < n)%nat -> nth r (scans TR n) 0 = qnat r * TR.
Proof. intros H. unfold scans. apply nth_map_seq_Q. exact H. Qed.

Section CodeGrid.
  Variables (ft : list Q) (TR : Q) (n os q : nat).
  Hypothesis HT : 0 < TR.
  Hypothesis Hn : (2 <= n)%nat.
  Hypothesis Hos : (1 <= os)%nat.
  Hypothesis Hft : leq ft (scans TR n).
  Let dt := TR / qnat os.
  Let mo := - (qnat q * dt).
  Let N := (n * os + q + 1)%nat.

  Lemma code_row g' h evs r : leq g' (ugrid mo dt N) -> (r < n)%nat -> (1 <= q + r * os)%nat ->
    nth r (main_regressor g' ft h evs) 0 == nth (q + r * os) (convt (sample_condition (ugrid mo dt N) evs) h) 0.
  Proof.
    intros Hg Hr H1.
    assert (Pos : 0 < qnat os) by (apply qnat_pos; exact Hos).
    assert (Hd : 0 < dt) by (unfold dt; apply Qlt_shift_div_l; lra).
    assert (Ln : length ft = n) by (rewrite (leq_length _ _ Hft); apply scans_length).
    rewrite (leq_nth _ _ (main_regressor_grid_leq g' (ugrid mo dt N) ft h evs Hg)).
    unfold main_regressor. rewrite nth_resample by lia.
    apply interp1_on_ugrid; [exact Hd|exact H1|unfold N; nia|].
    rewrite (leq_nth _ _ Hft), nth_scans by exact Hr.
    rewrite qnat_add, qnat_mul. unfold mo, dt. field. lra.
  Qed.

  Lemma code_grid_shift h evs k r :
    (forall e, In e evs -> inside mo dt N (k * os) e) -> (1 <= q + r * os)%nat -> (r + k < n)%nat ->
    nth (r + k) (main_regressor (hr_grid ft os mo) ft h (map (shift_ev (qnat k * TR)) evs)) 0
    == nth r (main_regressor (hr_grid ft os mo) ft h evs) 0.
  Proof.
    intros Hin H1 Hr.
    assert (Pos : 0 < qnat os) by (apply qnat_pos; exact Hos).
    assert (Hd : 0 < dt) by (unfold dt; apply Qlt_shift_div_l; lra).
    pose proof (hr_grid_commensurate ft TR n os q HT Hn Hos Hft) as G. fold dt mo N in G.
    rewrite !(code_row _ h _ _ G) by lia.
    assert (E : qnat k * TR == qnat (k * os) * dt) by (rewrite qnat_mul; unfold dt; field; lra).
    rewrite (sample_condition_shift_m _ _ _ evs E).
    replace (q + (r + k) * os)%nat with ((q + r * os) + k * os)%nat by lia.
    apply conv_shift; [exact Hd|exact Hin|unfold N; nia].
  Qed.

  Lemma code_grid_causal h evs r : (r < n)%nat -> (1 <= q + r * os)%nat ->
    (forall e, In e evs -> 0 <= ev_dur e /\ qnat r * TR < ev_onset e) ->
    nth r (main_regressor (hr_grid ft os mo) ft h evs) 0 == 0.
  Proof.
    intros Hr H1 H.
    assert (Pos : 0 < qnat os) by (apply qnat_pos; exact Hos).
    assert (Hd : 0 < dt) by (unfold dt; apply Qlt_shift_div_l; lra).
    pose proof (hr_grid_commensurate ft TR n os q HT Hn Hos Hft) as G. fold dt mo N in G.
    assert (Ln : length ft = n) by (rewrite (leq_length _ _ Hft); apply scans_length).
    assert (T : mo + qnat (q + r * os) * dt == qnat r * TR).
    { rewrite qnat_add, qnat_mul. unfold mo, dt. field. lra. }
    rewrite (leq_nth _ _ (main_regressor_grid_leq _ (ugrid mo dt N) ft h evs G)).
    unfold main_regressor. rewrite nth_resample by lia.
    rewrite (interp1_on_ugrid mo dt N _ _ (q + r * os)); [|exact Hd|exact H1|unfold N; nia|rewrite (leq_nth _ _ Hft), nth_scans by exact Hr; rewrite T; reflexivity].
    rewrite <- (interp1_on_ugrid mo dt N _ (mo + qnat (q + r * os) * dt) (q + r * os)); [|exact Hd|exact H1|unfold N; nia|reflexivity].
    apply main_regressor_causal_on_grid; [exact Hd|exact H1|unfold N; nia|].
    intros e He. destruct (H e He) as [A B]. split; [exact A|rewrite T; exact B].
  Qed.
End CodeGrid.

(* ------------------------------------------------------------ the listing order of the events is irrelevant *)
From Coq Require Import Permutation.
Lemma vadd_swap a b c : length a = length b -> length b = length c ->
  leq (vadd a (vadd b c)) (vadd b (vadd a c)).
Proof.
  intros L1 L2. apply nth_leq.
  - rewrite !vadd_length; rewrite ?vadd_length; congruence.
  - intros j _.
    rewrite (nth_vadd a (vadd b c)) by (rewrite vadd_length; congruence).
    rewrite (nth_vadd b c) by congruence.
    rewrite (nth_vadd b (vadd a c)) by (rewrite vadd_length; congruence).
    rewrite (nth_vadd a c) by congruence. ring.
Qed.
Lemma main_regressor_cons g fts h e l :
  leq (main_regressor g fts h (e :: l)) (vadd (main_regressor g fts h [e]) (main_regressor g fts h l)).
Proof. change (e :: l) with ([e] ++ l). apply main_regressor_app. Qed.
Lemma main_regressor_perm g fts h evs evs' : Permutation evs evs' ->
  leq (main_regressor g fts h evs) (main_regressor g fts h evs').
Proof.
  intros P. induction P as [|x l l' P IH|x y l|l l' l'' P1 IH1 P2 IH2].
  - reflexivity.
  - eapply leq_trans; [apply main_regressor_cons|]. eapply leq_trans; [|apply leq_sym, main_regressor_cons].
    apply vadd_m; [reflexivity|exact IH].
  - eapply leq_trans; [apply main_regressor_cons|]. eapply leq_trans; [|apply leq_sym, main_regressor_cons].
    eapply leq_trans; [apply vadd_m; [reflexivity|apply main_regressor_cons]|].
    eapply leq_trans; [|apply vadd_m; [reflexivity|apply leq_sym, main_regressor_cons]].
    apply vadd_swap; rewrite !main_regressor_length; reflexivity.
  - eapply leq_trans; eassumption.
Qed.
Lemma cond_events_perm c par par' : Permutation par par' -> Permutation (cond_events c par) (cond_events c par').
Proof.
  intros P. unfold cond_events. apply Permutation_map.
  induction P as [|x l l' P IH|x y l|l l' l'' P1 IH1 P2 IH2]; simpl.
  - constructor.
  - destruct (String.eqb (fst x) c); [constructor|]; exact IH.
  - destruct (String.eqb (fst x) c), (String.eqb (fst y) c); try apply perm_swap; apply Permutation_refl.
  - eapply Permutation_trans; eassumption.
Qed.
(* events of other conditions do not enter a condition's regressor *)
Lemma cond_events_other c par par2 : (forall p, In p par2 -> String.eqb (fst p) c = false) ->
  cond_events c (par ++ par2) = cond_events c par.
Proof.
  intros H. unfold cond_events. rewrite filter_app, map_app.
  assert (E : filter (fun p => String.eqb (fst p) c) par2 = []).
  { induction par2 as [|p l IH]; simpl; [reflexivity|]. rewrite (H p) by (left; reflexivity). apply IH. intros q Hq. apply H. right. exact Hq. }
  rewrite E. simpl. apply app_nil_r.
Qed.

(* ------------------------------------------------------------ one column per condition x basis function *)
Lemma orthogonalize_length cols : length (orthogonalize cols) = length cols.
Proof.
  unfold orthogonalize.
  assert (G : forall l d, length (fold_left (fun done x => done ++ [orth_col done x]) l d) = (length d + length l)%nat).
  { induction l as [|x l IH]; intros d; cbn [fold_left length]; [lia|]. rewrite IH, app_length. simpl. lia. }
  rewrite G. reflexivity.
Qed.
Lemma compute_regressor_length ft os mo hs fir evs : length (compute_regressor ft os mo hs fir evs) = length hs.
Proof.
  unfold compute_regressor. destruct fir; rewrite ?orthogonalize_length; unfold regressor_columns, conv_columns; rewrite !map_length; reflexivity.
Qed.
Lemma convolve_regressors_length ft os mo hs fir cids par :
  length (convolve_regressors ft os mo hs fir cids par) = (length cids * length hs)%nat.
Proof.
  unfold convolve_regressors. induction cids as [|c l IH]; simpl; [reflexivity|].
  rewrite app_length, IH, compute_regressor_length. reflexivity.
Qed.

(* ------------------------------------------------------------ FIR: kernels and names follow the LISTED delays *)
Lemma fir_kernels_nth delays os j : (j < length delays)%nat ->
  nth j (fir_kernels delays os) [] = fir_kernel (nth j delays O) os.
Proof.
  intros H. unfold fir_kernels. rewrite (nth_indep _ [] (fir_kernel O os)) by (rewrite map_length; exact H).
  apply (map_nth (fun d => fir_kernel d os)).
Qed.
Lemma fir_names_nth (show : nat -> string) c delays j : (j < length delays)%nat ->
  nth j (regressor_names show c Fir delays) EmptyString = (c ++ "_delay_" ++ show (nth j delays O))%string.
Proof.
  intros H. unfold regressor_names, model_suffixes. rewrite map_map.
  rewrite (nth_indep _ EmptyString ((fun d => (c ++ "_delay_" ++ show d)%string) O)) by (rewrite map_length; exact H).
  apply (map_nth (fun d => (c ++ "_delay_" ++ show d)%string)).
Qed.
